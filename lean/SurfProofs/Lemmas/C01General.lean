import SurfProofs.Lemmas.C01Pass3
/-!
C01, helper lemmas 7: the relation between renderer state and terminal on the whole proved domain
(characters, faces, images under `WellPlaced`), one frame, the other steps of a history.
-/
namespace SurfProofs.C01
open SurfModel.Screen SurfModel.Renderer

/-- effect of a list of `ImageErase` commands -/
theorem exec_erases (P : Params) (E : List Cmd) (hE : ∀ cmd ∈ E, ∃ i r c, cmd = Cmd.imageErase i r c)
    (scr : Screen) :
    (execAll P scr E).grid = scr.grid ∧
    (∀ r c i, Cmd.imageErase i r c ∈ E → scr.place r c = some i → (execAll P scr E).place r c = none) ∧
    (∀ r c, (∀ i, Cmd.imageErase i r c ∈ E → scr.place r c ≠ some i) →
      (execAll P scr E).place r c = scr.place r c) := by
  induction E generalizing scr with
  | nil => exact ⟨rfl, fun r c i h => by simp at h, fun r c _ => rfl⟩
  | cons cmd rest ih =>
    obtain ⟨i0, r0, c0, rfl⟩ := hE _ List.mem_cons_self
    obtain ⟨g, pa, pb⟩ := ih (fun cmd h => hE cmd (List.mem_cons_of_mem _ h)) (exec P scr (.imageErase i0 r0 c0))
    rw [execAll_cons]
    have hp1 : ∀ r c, (exec P scr (.imageErase i0 r0 c0)).place r c =
        if r = r0 ∧ c = c0 ∧ scr.place r0 c0 = some i0 then none else scr.place r c := fun r c => rfl
    refine ⟨by rw [g]; rfl, ?_, ?_⟩
    · intro r c i hmem hpl
      by_cases h0 : r = r0 ∧ c = c0 ∧ scr.place r0 c0 = some i0
      · have e1 : (exec P scr (.imageErase i0 r0 c0)).place r c = none := by rw [hp1, if_pos h0]
        rw [pb r c (by intro j _; rw [e1]; simp), e1]
      · have e1 : (exec P scr (.imageErase i0 r0 c0)).place r c = some i := by rw [hp1, if_neg h0, hpl]
        rcases List.mem_cons.1 hmem with h | h
        · exfalso
          simp only [Cmd.imageErase.injEq] at h
          obtain ⟨rfl, rfl, rfl⟩ := h
          exact h0 ⟨rfl, rfl, hpl⟩
        · exact pa r c i h e1
    · intro r c hno
      have e1 : (exec P scr (.imageErase i0 r0 c0)).place r c = scr.place r c := by
        rw [hp1]
        by_cases h0 : r = r0 ∧ c = c0 ∧ scr.place r0 c0 = some i0
        · exfalso
          obtain ⟨rfl, rfl, h3⟩ := h0
          exact hno i0 List.mem_cons_self h3
        · rw [if_neg h0]
      rw [pb r c (by intro j hj; rw [e1]; exact hno j (List.mem_cons_of_mem _ hj)), e1]

/-- The renderer state `R` and the terminal `scr` fit together: the back surface is the normalised
form of a surface of the domain; between frames the marks are uniform (all `Empty`, or all `Damaged`
after `new(.., true)` / `clear()`); every cell that is not marked `Damaged` shows what `display` of the
back surface says; the image placements are those of `display` of the back surface. -/
structure Rel (P : Params) (R : State) (scr : Screen) : Prop where
  wf : WF P scr
  back : ∃ s0, WellPlaced P R.h R.w s0 ∧ NormOf P R.h R.w s0 R.back
  marks : (∀ r c, R.marks r c = .empty) ∨ (∀ r c, R.marks r c = .damaged)
  shows : ∀ r c, r < R.h → c < R.w → R.marks r c = .empty →
    scr.grid r c = (display P R.h R.w R.back).grid r c
  place : ∀ r c, scr.place r c = (display P R.h R.w R.back).place r c

theorem rasterise_nogly (P : Params) (c : Cell) (g : Nat) : (rasterise P c).kind ≠ .gly g := by
  unfold rasterise
  cases hk : c.kind <;> simp [hk]

theorem Rel.backOk {P : Params} {R : State} {scr : Screen} (hrel : Rel P R scr) : BackOk P R := by
  obtain ⟨s0, hs0, hback⟩ := hrel.back
  refine ⟨?_, ?_, ?_⟩
  · intro r c
    rcases hrel.marks with h | h <;> rw [h r c] <;> simp
  · intro r c g hr hc
    rcases (hback r c hr hc).1 with h | h
    · rw [h]; simp [nulCell]
    · rw [h]; exact rasterise_nogly P _ g
  · intro q q' p hq hq' h1 h2
    rw [covers_congr_normOf P R.h R.w s0 R.back hback q p hq.1 hq.2] at h1
    rw [covers_congr_normOf P R.h R.w s0 R.back hback q' p hq'.1 hq'.2] at h2
    obtain ⟨_, _, _, w4, _⟩ := hs0
    exact w4 q q' p hq.1 hq.2 hq'.1 hq'.2 h1 h2

theorem before_all {q : Nat × Nat} {H : Nat} (h : q.1 < H) : Before q H 0 := Or.inl h

/-- the front surface after the first pass is a normalised form of the drawn surface -/
theorem G1Inv.normOf {P : Params} {st : State} {s : Surface} {x : P1} (G : G1Inv P st s st.h 0 x) :
    NormOf P st.h st.w s x.front :=
  fun r c hr hc => G.front1 r c (Or.inl hr) hc

/-- cells whose content after the second pass does not matter: the areas of the images that the
image pass erases and draws -/
def FreeCell (P : Params) (st : State) (s : Surface) (x : P1) (r k : Nat) : Prop :=
  ∃ q : Nat × Nat, Ins st q ∧ covers P s q (r, k) = true ∧ posIn x.images q

/-- rows of the front surface after the first pass satisfy the assumptions of the second pass -/
theorem rowOk_general (P : Params) (hP : ParamsOk P) (st : State) (s : Surface) (hs : WellPlaced P st.h st.w s)
    (x : P1) (G : G1Inv P st s st.h 0 x) (r : Nat) (hr : r < st.h) :
    RowOk P st.w (x.front r) (x.marks r) (FreeCell P st s x r) := by
  obtain ⟨w1, w2, w3, w4, w5⟩ := hs
  have hs' : WellPlaced P st.h st.w s := ⟨w1, w2, w3, w4, w5⟩
  have hN := G.normOf
  have hnul : isWide P nulCell = false := by simp [isWide, nulCell, hP.nul]
  -- a cell that is neither ignored nor free is not covered at all
  have hunc : ∀ k, k < st.w → x.marks r k ≠ .ignored → ¬ FreeCell P st s x r k → ¬ Cov P st.h st.w s (r, k) := by
    rintro k hk hm hfr ⟨q, q1, q2, q3⟩
    have himg : imgOf P (s q.1 q.2) ≠ none := by
      intro h; simp [covers, h] at q3
    by_cases hp : posIn x.images q
    · exact hfr ⟨q, ⟨q1, q2⟩, q3, hp⟩
    · exact hm (G.m3 q (before_all q1) ⟨q1, q2⟩ himg hp r k q3)
  have hnotign : ∀ k, ¬ Cov P st.h st.w s (r, k) → x.marks r k ≠ .ignored := by
    intro k hnc hi
    obtain ⟨q, _, hq, hcov⟩ := G.m1 r k hi
    exact hnc ⟨q, hq.1, hq.2, hcov⟩
  have hnotfree : ∀ k, ¬ Cov P st.h st.w s (r, k) → ¬ FreeCell P st s x r k := by
    rintro k hnc ⟨q, hq, hcov, _⟩
    exact hnc ⟨q, hq.1, hq.2, hcov⟩
  refine ⟨?_, ?_, ?_, ?_, ?_⟩
  · intro k ch hk hm hfr hkind hw
    have hnc := hunc k hk hm hfr
    rw [(hN r k hr hk).2.1 hnc] at hkind
    simp only [normD] at hkind
    cases hsh : shadowed P st.h st.w s r k
    · exfalso
      simp only [hsh, Bool.false_eq_true, if_false] at hkind
      have hk' : (s r k).kind = .chr ch := by
        cases hk0 : (s r k).kind <;> simp [rasterise, hk0] at hkind
        rw [hkind]
      rcases w1 r k ch hr hk hk' with h | h <;> omega
    · cases k with
      | zero => simp [shadowed] at hsh
      | succ k' =>
        simp only [shadowed, Bool.and_eq_true, Bool.not_eq_true', Option.isNone_iff_eq_none] at hsh
        have hnc' : ¬ Cov P st.h st.w s (r, k') := (coverOf_none_iff P st.h st.w s (r, k')).1 hsh.2
        refine ⟨k', rfl, ?_, hnotign k' hnc', hnotfree k' hnc'⟩
        rw [(hN r k' hr (by omega)).2.1 hnc']
        simp [normD, hsh.1.2, isWide_rasterise, hsh.1.1]
  · intro k hk hwide hm hfr
    have hnc := hunc k hk hm hfr
    rw [(hN r k hr hk).2.1 hnc] at hwide
    simp only [normD] at hwide
    cases hsh : shadowed P st.h st.w s r k
    · simp only [hsh, Bool.false_eq_true, if_false, isWide_rasterise] at hwide
      have hfit := w2 r k hr hk hwide
      have hnc1 : ¬ Cov P st.h st.w s (r, k + 1) := fun h => hnc ((wp_cut P st.h st.w s hs' r k hr hk hwide).2 h)
      refine ⟨hfit, ⟨0, ?_, hP.nul⟩, hnotign (k + 1) hnc1, hnotfree (k + 1) hnc1⟩
      rw [(hN r (k + 1) hr hfit).2.1 hnc1]
      have : shadowed P st.h st.w s r (k + 1) = true := by
        simp only [shadowed, hsh, hwide, (coverOf_none_iff P st.h st.w s (r, k)).2 hnc]; rfl
      simp [normD, this, nulCell]
    · simp [hsh, hnul] at hwide
  · intro k hk hnc
    have himg : imgOf P (s r k) ≠ none := by
      intro hi
      rcases (hN r k hr hk).1 with h | h
      · exact hnc 0 (by rw [h]; rfl)
      · cases hk0 : (s r k).kind with
        | chr ch => exact hnc ch (by rw [h]; simp [rasterise, hk0])
        | img i => simp [imgOf, hk0] at hi
        | gly g => simp [imgOf, hk0] at hi
    exact G.m5 (r, k) (before_all hr) ⟨hr, hk⟩ himg
  · rintro k hk ⟨q, hq, hcov, hp⟩ hwide
    have hws : isWide P (s r k) = true := by
      rcases (hN r k hr hk).1 with h | h
      · rw [h, hnul] at hwide; cases hwide
      · rw [h, isWide_rasterise] at hwide; exact hwide
    refine ⟨w2 r k hr hk hws, q, hq, ?_, hp⟩
    rw [← w5 q r k hq.1 hq.2 hr hk hws]; exact hcov
  · rintro k ⟨q, hq, hcov, _⟩ he
    have := ((G.m2 r k he).2 q (before_all hq.1) hq).1
    rw [hcov] at this; cases this

/-- C01 for one frame on the whole proved domain -/
theorem frame_general (P : Params) (hP : ParamsOk P) (R : State) (scr : Screen) (s : Surface)
    (hsz : R.h ≤ 123456 ∨ R.w ≤ 654123) (hs : WellPlaced P R.h R.w s) (hrel : Rel P R scr) :
    Rel P (frame P R s).state (execAll P scr (frame P R s).cmds) ∧
    ScreenEq R.h R.w (execAll P scr (frame P R s).cmds) (display P R.h R.w s) := by
  obtain ⟨s0, hs0, hback⟩ := hrel.back
  have hbok := hrel.backOk
  have G := pass1_general P R s hs hbok
  obtain ⟨w1, w2, w3, w4, w5⟩ := hs
  have hs' : WellPlaced P R.h R.w s := ⟨w1, w2, w3, w4, w5⟩
  have hF : NormOf P R.h R.w s (pass1 P R s).front := G.normOf
  have hcmds : (frame P R s).cmds = (pass1 P R s).cmds ++
      pass2 P R.back (pass1 P R s).front (pass1 P R s).marks R.h R.w ++
      (pass1 P R s).images.flatMap (imageCmds P) := rfl
  rw [hcmds]
  have hstate : (frame P R s).state = { R with back := (pass1 P R s).front, marks := fun _ _ => .empty } := rfl
  generalize pass1 P R s = x at G hF hstate ⊢
  simp only [execAll_append]
  -- the erase commands of the first pass
  obtain ⟨eg, ea, eb⟩ := exec_erases P x.cmds (fun cmd h => by
    obtain ⟨i, r, c, e, _⟩ := G.e1 cmd h; exact ⟨i, r, c, e⟩) scr
  generalize hscrE : execAll P scr x.cmds = scrE at eg ea eb ⊢
  have hwfE : WF P scrE := by intro r; rw [eg]; exact hrel.wf r
  -- what the terminal shows for the back surface
  have hshow0 : ∀ r c, r < R.h → c < R.w → R.marks r c = .empty →
      scr.grid r c = (display P R.h R.w s0).grid r c := by
    intro r c hr hc hm
    rw [hrel.shows r c hr hc hm, (display_congr_wp P R.h R.w s0 R.back hs0 hback).1 r c hr hc]
  have hcovb : ∀ q p, q.1 < R.h → q.2 < R.w → covers P R.back q p = covers P s0 q p :=
    fun q p h1 h2 => covers_congr_normOf P R.h R.w s0 R.back hback q p h1 h2
  -- second pass
  have hold : ∀ r k, r < R.h → k < R.w → x.marks r k = .empty → scrE.grid r k = dispN P (R.back r k) := by
    intro r k hr hk hm
    obtain ⟨m0, hno⟩ := G.m2 r k hm
    have hnc0 : ∀ q : Nat × Nat, q.1 < R.h → q.2 < R.w → covers P s0 q (r, k) = false := fun q h1 h2 => by
      rw [← hcovb q (r, k) h1 h2]; exact (hno q (before_all h1) ⟨h1, h2⟩).2
    have hnc : ¬ Cov P R.h R.w s0 (r, k) := by
      rintro ⟨q, q1, q2, q3⟩
      rw [hnc0 q q1 q2] at q3; cases q3
    rw [eg, hshow0 r k hr hk m0, (display_wp P hP R.h R.w s0 hs0 r k hr hk).2 hnc0, (hback r k hr hk).2.1 hnc]
  rw [pass2_eq]
  have J := pass2_prefix P hP R.h R.w hsz R.back x.front x.marks (FreeCell P R s x)
    (fun r hr => rowOk_general P hP R s hs' x G r hr) scrE hwfE hold R.h (Nat.le_refl _)
  generalize execAll P scrE ((List.range R.h).foldl (pass2Step P R.back x.front x.marks R.w) ([], Tr.init)).1
    = scr2 at J ⊢
  -- image pass
  have hI : ∀ e ∈ x.images, e.1 < R.h ∧ e.2.1 < R.w ∧ rasterise P (s e.1 e.2.1) = ⟨e.2.2.1, .img e.2.2.2⟩ := by
    intro e he
    obtain ⟨_, b, c⟩ := G.i0 e he
    exact ⟨b.1, b.2, c⟩
  have hset : ∀ r c, r < R.h → c < R.w → (∀ e ∈ x.images, covers P s (e.1, e.2.1) (r, c) = false) →
      scr2.grid r c = (display P R.h R.w s).grid r c := by
    intro r c hr hc hnoI
    obtain ⟨d1, d2⟩ := display_wp P hP R.h R.w s hs' r c hr hc
    by_cases hcov : ∃ q : Nat × Nat, q.1 < R.h ∧ q.2 < R.w ∧ covers P s q (r, c) = true
    · -- covered by an image that is kept
      obtain ⟨q, q1, q2, q3⟩ := hcov
      have himg : imgOf P (s q.1 q.2) ≠ none := by
        intro h; simp [covers, h] at q3
      have hnp : ¬ posIn x.images q := by
        rintro ⟨e, he, hq⟩
        have := hnoI e he
        rw [hq, q3] at this; cases this
      have hign := G.m3 q (before_all q1) ⟨q1, q2⟩ himg hnp r c q3
      have hnd := G.k1 q (before_all q1) ⟨q1, q2⟩ himg hnp
      have hempty : ∀ r c, R.marks r c = .empty := by
        rcases hrel.marks with h | h
        · exact h
        · exact absurd (h q.1 q.2) hnd
      have hbq : R.back q.1 q.2 = rasterise P (s q.1 q.2) := by
        rcases G.i2 q (before_all q1) ⟨q1, q2⟩ himg with h | h
        · exact absurd h hnp
        · exact h
      have hc0 : covers P s0 q (r, c) = true := by
        rw [← hcovb q (r, c) q1 q2, covers_eq, hbq, imgOf_rasterise, ← covers_eq]; exact q3
      have himg0 : imgOf P (s0 q.1 q.2) ≠ none := by
        intro h; simp [covers, h] at hc0
      have hface : (s0 q.1 q.2).face = (s q.1 q.2).face := by
        have e1 := (hback q.1 q.2 q1 q2).2.2 himg0
        rw [hbq] at e1
        have := congrArg Cell.face e1
        rw [rasterise_face, rasterise_face] at this
        exact this.symm
      have hnfree : ¬ FreeCell P R s x r c := by
        rintro ⟨q', hq', hc', hp'⟩
        have := w4 q q' (r, c) q1 q2 hq'.1 hq'.2 q3 hc'
        rw [← this] at hp'
        exact hnp hp'
      have hscr : scrE.grid r c = blankOf P (s q.1 q.2).face := by
        rw [eg, hshow0 r c hr hc (hempty r c), (display_wp P hP R.h R.w s0 hs0 r c hr hc).1 q q1 q2 hc0, hface]
      rw [J.ign r c hr hign hnfree (by rw [hscr]; exact blankOf_ne_cont P _) (by rw [hscr]; exact blankOf_not_wide P hP _),
        hscr, d1 q q1 q2 q3]
    · have hno : ∀ q : Nat × Nat, q.1 < R.h → q.2 < R.w → covers P s q (r, c) = false := by
        intro q q1 q2
        cases hq : covers P s q (r, c)
        · rfl
        · exact absurd ⟨q, q1, q2, hq⟩ hcov
      have hni : x.marks r c ≠ .ignored := by
        intro hi
        obtain ⟨q, _, hq, hc'⟩ := G.m1 r c hi
        rw [hno q hq.1 hq.2] at hc'; cases hc'
      have hncov : ¬ Cov P R.h R.w s (r, c) := by
        rintro ⟨q, q1, q2, q3⟩
        rw [hno q q1 q2] at q3; cases q3
      have hnfree : ¬ FreeCell P R s x r c := by
        rintro ⟨q', hq', hc', _⟩
        rw [hno q' hq'.1 hq'.2] at hc'; cases hc'
      rw [J.done r c hr hc hni hnfree, (hF r c hr hc).2.1 hncov, d2 hno]
  obtain ⟨g1, g2, g3, g4⟩ := pass3_correct P hP R.h R.w s hs' x.images hI scr2 J.wf hset
  generalize execAll P scr2 (x.images.flatMap (imageCmds P)) = scr3 at g1 g2 g3 g4 ⊢
  -- placements
  have hplace : ∀ r c, scr3.place r c = (display P R.h R.w s).place r c := by
    intro r c
    by_cases hp : posIn x.images (r, c)
    · obtain ⟨e, he, hpe⟩ := hp
      have hpe' : e.1 = r ∧ e.2.1 = c := by simpa using hpe
      obtain ⟨hr', hc'⟩ := hpe'
      subst hr'; subst hc'
      have := g4 e he
      obtain ⟨i1, i2, i3⟩ := hI e he
      rw [this]
      simp only [display, i1, i2, and_self, if_true]
      rw [← imgOf_rasterise, i3]; rfl
    · rw [g3 r c hp, J.place]
      have hscrp := hrel.place r c
      simp only [display] at hscrp ⊢
      by_cases hin : r < R.h ∧ c < R.w
      · rw [if_pos hin] at hscrp ⊢
        cases himg : imgOf P (s r c) with
        | some i =>
          have himg' : imgOf P (s r c) ≠ none := by rw [himg]; simp
          have hbq : R.back r c = rasterise P (s r c) := by
            rcases G.i2 (r, c) (before_all hin.1) hin himg' with h | h
            · exact absurd h hp
            · exact h
          rw [hbq, imgOf_rasterise, himg] at hscrp
          rw [eb r c (by
            intro j hj
            obtain ⟨i', r', c', e1, _, _, _, e5⟩ := G.e1 _ hj
            simp only [Cmd.imageErase.injEq] at e1
            obtain ⟨_, rfl, rfl⟩ := e1
            exact absurd (e5 himg') hp), hscrp]
        | none =>
          cases hob : imgOf P (R.back r c) with
          | none =>
            rw [hob] at hscrp
            rw [eb r c (by intro j _; rw [hscrp]; simp), hscrp]
          | some j =>
            rw [hob] at hscrp
            have hk : (R.back r c).kind = .img j := by
              have hng := hbok.nogly r c
              cases hk0 : (R.back r c).kind with
              | chr ch => simp [imgOf, hk0] at hob
              | img j' => simp [imgOf, hk0] at hob; rw [hob]
              | gly g => exact absurd hk0 (hng g hin.1 hin.2)
            rcases G.e2 (r, c) (before_all hin.1) hin j hk with h | ⟨h, _⟩
            · exact ea r c j h hscrp
            · exfalso
              have hh : R.back r c = rasterise P (s r c) := h
              rw [hh, imgOf_rasterise, himg] at hob
              cases hob
      · rw [if_neg hin] at hscrp ⊢
        rw [eb r c (by intro j _; rw [hscrp]; simp), hscrp]
  rw [hstate]
  refine ⟨⟨g1, ⟨s, hs', hF⟩, Or.inl (fun _ _ => rfl), ?_, ?_⟩, g2, hplace⟩
  · intro r c hr hc _
    show scr3.grid r c = (display P R.h R.w x.front).grid r c
    rw [(display_congr_wp P R.h R.w s x.front hs' hF).1 r c hr hc]
    exact g2 r c hr hc
  · intro r c
    show scr3.place r c = (display P R.h R.w x.front).place r c
    rw [(display_congr_wp P R.h R.w s x.front hs' hF).2 r c]
    exact hplace r c


/-! ### the other steps of a history -/

theorem normD_blank (P : Params) (hP : ParamsOk P) (H W r c : Nat) : normD P H W blankSurf r c = defaultCell := by
  have hw : isWide P defaultCell = false := by simp [isWide, defaultCell, hP.sp]
  have : shadowed P H W blankSurf r c = false := by
    cases c with
    | zero => rfl
    | succ c => simp [shadowed, blankSurf, hw]
  simp [normD, this, blankSurf, rasterise, defaultCell]

theorem normOf_blank (P : Params) (hP : ParamsOk P) (H W : Nat) :
    NormOf P H W blankSurf (fun _ _ => defaultCell) := by
  intro r c _ _
  refine ⟨Or.inr (by simp [blankSurf, rasterise, defaultCell]), fun _ => (normD_blank P hP H W r c).symm, ?_⟩
  intro h; simp [blankSurf, imgOf, defaultCell] at h

theorem display_blank (P : Params) (hP : ParamsOk P) (H W : Nat) :
    (∀ r c, r < H → c < W → (display P H W (fun _ _ => defaultCell)).grid r c = .glyph 32 0) ∧
    (∀ r c, (display P H W (fun _ _ => defaultCell)).place r c = none) := by
  constructor
  · intro r c hr hc
    have e1 : (display P H W (fun _ _ => defaultCell)).grid r c = dispN P (normD P H W blankSurf r c) :=
      (display_wp P hP H W blankSurf (blank_wp P hP H W) r c hr hc).2 (by
        intro q _ _; simp [covers, blankSurf, imgOf, defaultCell])
    rw [e1, normD_blank P hP]
    simp [dispN, defaultCell, hP.sp]
  · intro r c
    simp only [display]
    split
    · simp [imgOf, defaultCell]
    · rfl

/-- any well-formed terminal without image placements fits a renderer whose cells are all damaged -/
theorem relG_damaged (P : Params) (hP : ParamsOk P) (scr : Screen) (hwf : WF P scr)
    (hpl : ∀ r c, scr.place r c = none) (R : State)
    (hback : R.back = fun _ _ => defaultCell) (hm : R.marks = fun _ _ => .damaged) : Rel P R scr := by
  refine ⟨hwf, ⟨blankSurf, blank_wp P hP _ _, ?_⟩, Or.inr (fun r c => by rw [hm]), ?_, ?_⟩
  · rw [hback]; exact normOf_blank P hP _ _
  · intro r c _ _ he; rw [hm] at he; cases he
  · intro r c
    rw [hpl r c, hback, (display_blank P hP R.h R.w).2 r c]

theorem exec_clear (P : Params) (R : State) (scr : Screen) (hrel : Rel P R scr) :
    (execAll P scr (clearCmds R)).grid = scr.grid ∧ ∀ r c, (execAll P scr (clearCmds R)).place r c = none := by
  have hall : ∀ cmd ∈ clearCmds R, ∃ i r c, cmd = Cmd.imageErase i r c := by
    intro cmd hcmd
    simp only [clearCmds, List.mem_filterMap] at hcmd
    obtain ⟨p, _, hp⟩ := hcmd
    cases hk : (R.back p.1 p.2).kind <;> simp [hk] at hp
    exact ⟨_, _, _, hp.symm⟩
  obtain ⟨eg, ea, eb⟩ := exec_erases P (clearCmds R) hall scr
  refine ⟨eg, ?_⟩
  intro r c
  have hpl := hrel.place r c
  simp only [display] at hpl
  by_cases hin : r < R.h ∧ c < R.w
  · rw [if_pos hin] at hpl
    cases hi : imgOf P (R.back r c) with
    | none =>
      rw [hi] at hpl
      rw [eb r c (by intro j _; rw [hpl]; simp), hpl]
    | some i =>
      rw [hi] at hpl
      have hk : (R.back r c).kind = .img i := by
        have hng := hrel.backOk.nogly r c
        cases hk0 : (R.back r c).kind with
        | chr ch => simp [imgOf, hk0] at hi
        | img j' => simp [imgOf, hk0] at hi; rw [hi]
        | gly g => exact absurd hk0 (hng g hin.1 hin.2)
      apply ea r c i _ hpl
      simp only [clearCmds, List.mem_filterMap]
      exact ⟨(r, c), (mem_allPos _ _ _).2 hin, by simp [hk]⟩
  · rw [if_neg hin] at hpl
    rw [eb r c (by intro j _; rw [hpl]; simp), hpl]

theorem relG_clear (P : Params) (hP : ParamsOk P) (R : State) (scr : Screen) (hrel : Rel P R scr) :
    Rel P (clear R) (execAll P scr (clearCmds R)) := by
  obtain ⟨eg, ep⟩ := exec_clear P R scr hrel
  apply relG_damaged P hP _ _ ep (clear R) rfl rfl
  intro r; rw [eg]; exact hrel.wf r

theorem relG_recreate (P : Params) (hP : ParamsOk P) (R : State) (scr : Screen) (hrel : Rel P R scr) :
    Rel P (new R.h R.w true) (execAll P scr (clearCmds R)) := by
  obtain ⟨eg, ep⟩ := exec_clear P R scr hrel
  apply relG_damaged P hP _ _ ep (new R.h R.w true) rfl (by simp [new])
  intro r; rw [eg]; exact hrel.wf r

/-- a new renderer fits a blank terminal -/
theorem relG_new_blank (P : Params) (hP : ParamsOk P) (h w : Nat) (clear0 : Bool) :
    Rel P (new h w clear0) blank := by
  refine ⟨wf_blank P hP, ⟨blankSurf, blank_wp P hP _ _, ?_⟩, ?_, ?_, ?_⟩
  · exact normOf_blank P hP h w
  · cases clear0
    · exact Or.inl (fun _ _ => by simp [new])
    · exact Or.inr (fun _ _ => by simp [new])
  · intro r c hr hc _
    show blank.grid r c = (display P h w (fun _ _ => defaultCell)).grid r c
    rw [(display_blank P hP h w).1 r c hr hc]; rfl
  · intro r c
    show blank.place r c = (display P h w (fun _ _ => defaultCell)).place r c
    rw [(display_blank P hP h w).2 r c]; rfl


/-- the executable check of the domain is sound -/
theorem wellPlacedB_sound (P : Params) (H W : Nat) (s : Surface) (h : wellPlacedB P H W s = true) :
    WellPlaced P H W s := by
  unfold wellPlacedB at h
  simp only [Bool.and_eq_true, List.all_eq_true] at h
  obtain ⟨⟨⟨⟨h1, h2⟩, h3⟩, h4⟩, h5⟩ := h
  have m : ∀ r c, r < H → c < W → (r, c) ∈ allPos H W := fun r c hr hc => (mem_allPos H W (r, c)).2 ⟨hr, hc⟩
  have c3 : ∀ r c i, r < H → c < W → imgOf P (s r c) = some i →
      1 ≤ (P.size i).1 ∧ 1 ≤ (P.size i).2 ∧ r + (P.size i).1 ≤ H ∧ c + (P.size i).2 ≤ W := by
    intro r c i hr hc hi
    have := h3 (r, c) (m r c hr hc)
    simp only [hi] at this
    simpa using this
  refine ⟨?_, ?_, c3, ?_, ?_⟩
  · intro r c ch hr hc hk
    have := h1 (r, c) (m r c hr hc)
    simp only [hk] at this
    simpa using this
  · intro r c hr hc hw
    have := h2 (r, c) (m r c hr hc)
    simp only [hw] at this
    simpa using this
  · intro q q' p hq1 hq2 hq1' hq2' hc1 hc2
    have := h4 q ((mem_allPos H W q).2 ⟨hq1, hq2⟩) q' ((mem_allPos H W q').2 ⟨hq1', hq2'⟩)
    simp only [Bool.or_eq_true, beq_iff_eq, List.all_eq_true] at this
    rcases this with h | h
    · exact h
    · exfalso
      -- p lies in the area of q, hence inside the terminal
      have hp : p ∈ allPos H W := by
        rw [mem_allPos]
        cases hi : imgOf P (s q.1 q.2) with
        | none => simp [covers, hi] at hc1
        | some i =>
          obtain ⟨_, _, a, b⟩ := c3 q.1 q.2 i hq1 hq2 hi
          simp [covers, hi] at hc1
          omega
      have := h p hp
      simp [hc1, hc2] at this
  · intro q r c hq1 hq2 hr hc hw
    have := h5 q ((mem_allPos H W q).2 ⟨hq1, hq2⟩) (r, c) (m r c hr hc)
    simp only [hw] at this
    simpa using this


end SurfProofs.C01
