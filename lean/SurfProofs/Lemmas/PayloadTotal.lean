import SurfModel.Payload
import SurfModel.Stream
import SurfProofs.Lemmas.ReLen
/-!
No payload decoder can panic on a token that is long enough: every `len - k`, every slice and every index of
the `Matcher::decode` bodies (model `SurfModel.Payload`) is in range as soon as the token has the minimal
length its grammar guarantees.  (Families whose decoder looks deeper into the token — termcap, terminal size,
UTF-8 — are in `PayloadTotal2`.)
-/
namespace SurfProofs.PayloadTotal
open SurfModel.Payload SurfModel.Automata SurfModel.Grammar SurfModel.Sgr

theorem sub?_ok' {a b : Nat} (h : b ≤ a) : sub? a b = .ok (a - b) := by simp [sub?, h]

theorem slice?_ok {data : List Nat} {a b : Nat} (h1 : a ≤ b) (h2 : b ≤ data.length) :
    slice? data a b = .ok ((data.drop a).take (b - a)) := by simp [slice?, h1, h2]

theorem index?_ok {data : List Nat} {i : Nat} (h : i < data.length) : ∃ b, index? data i = .ok b := by
  simp [index?, List.getElem?_eq_getElem h]

/-- `parse_color` itself never panics (its only failure is the part of rasterize that is not modelled) -/
theorem parseColor_no_panic (s : List Nat) : parseColor s ≠ .error .panic := by
  unfold parseColor
  repeat' split
  all_goals simp

theorem decodeCursorPosition_total (data : List Nat) (h : 3 ≤ data.length) :
    decodeCursorPosition data ≠ .error .panic := by
  unfold decodeCursorPosition
  rw [sub?_ok' (by omega)]
  simp only
  rw [slice?_ok (by omega) (by omega)]
  simp only
  repeat' split
  all_goals simp

theorem decodeDecMode_total (data : List Nat) (h : 5 ≤ data.length) : decodeDecMode data ≠ .error .panic := by
  unfold decodeDecMode
  rw [sub?_ok' (by omega)]
  simp only
  rw [slice?_ok (by omega) (by omega)]
  simp only
  repeat' split
  all_goals simp

theorem decodeDeviceAttrs_total (data : List Nat) (h : 4 ≤ data.length) : decodeDeviceAttrs data ≠ .error .panic := by
  unfold decodeDeviceAttrs
  rw [sub?_ok' (by omega)]
  simp only
  rw [slice?_ok (by omega) (by omega)]
  simp

theorem decodeSgr_total (data : List Nat) (h : 3 ≤ data.length) : decodeSgr data ≠ .error .panic := by
  unfold decodeSgr decodeSgrBody
  rw [sub?_ok' (by omega)]
  simp only
  rw [slice?_ok (by omega) (by omega)]
  simp

theorem decodeKittyImage_total (data : List Nat) (h : 5 ≤ data.length) : decodeKittyImage data ≠ .error .panic := by
  unfold decodeKittyImage
  rw [sub?_ok' (by omega)]
  simp only
  rw [slice?_ok (by omega) (by omega)]
  simp only
  repeat' split
  all_goals simp

theorem decodeKittyKeyboard_total (data : List Nat) (h : 3 ≤ data.length) :
    decodeKittyKeyboard data ≠ .error .panic := by
  unfold decodeKittyKeyboard
  rw [sub?_ok' (by omega)]
  simp only
  rw [slice?_ok (by omega) (by omega)]
  simp only
  generalize (data.drop 2).take (data.length - 1 - 2) = d
  by_cases hq : d.head? = some 63
  · simp only [hq, if_true]
    have hd : 1 ≤ d.length := by
      cases d with
      | nil => simp at hq
      | cons a r => simp
    rw [slice?_ok hd (Nat.le_refl _)]
    simp only
    repeat' split
    all_goals simp
  · simp only [hq, if_false]
    repeat' split
    all_goals simp

theorem decodeMouse_total (data : List Nat) (h : 4 ≤ data.length) : decodeMouse data ≠ .error .panic := by
  unfold decodeMouse
  rw [sub?_ok' (by omega)]
  simp only
  rw [slice?_ok (by omega) (by omega)]
  obtain ⟨b, hb⟩ := index?_ok (data := data) (i := data.length - 1) (by omega)
  simp only [hb]
  repeat' split
  all_goals simp

theorem decodeOsc_total (data : List Nat) (h : 4 ≤ data.length) : decodeOsc data ≠ .error .panic := by
  unfold decodeOsc
  rw [sub?_ok' (by omega)]
  obtain ⟨b, hb⟩ := index?_ok (data := data) (i := data.length - 1) (by omega)
  simp only [hb]
  by_cases h7 : b = 7
  · simp only [h7, if_true]
    rw [slice?_ok (by omega) (by omega)]
    simp only
    repeat' split
    all_goals first
      | (rename_i e he; intro hc; simp only [Except.error.injEq] at hc; subst hc; exact parseColor_no_panic _ he)
      | simp
  · simp only [h7, if_false]
    rw [sub?_ok' (by omega)]
    simp only
    rw [slice?_ok (by omega) (by omega)]
    simp only
    repeat' split
    all_goals first
      | (rename_i e he; intro hc; simp only [Except.error.injEq] at hc; subst hc; exact parseColor_no_panic _ he)
      | simp

theorem decodeReportSetting_total (data : List Nat) (h : 7 ≤ data.length) :
    decodeReportSetting data ≠ .error .panic := by
  unfold decodeReportSetting
  obtain ⟨b, hb⟩ := index?_ok (data := data) (i := 2) (by omega)
  simp only [hb]
  rw [sub?_ok' (by omega)]
  simp only
  rw [slice?_ok (by omega) (by omega)]
  simp only
  repeat' split
  all_goals simp

theorem decodePaste_total (data : List Nat) (h : 12 ≤ data.length) : decodePaste data ≠ .error .panic := by
  unfold decodePaste
  rw [sub?_ok' (by omega)]
  simp only
  rw [slice?_ok (by omega) (by omega)]
  simp only
  split <;> simp

end SurfProofs.PayloadTotal
