import SurfModel.Sixel
import SurfModel.Quant
import SurfProofs.Lemmas.SixelDecode
import SurfProofs.C13
import Mathlib.Data.List.Perm.Subperm
/-!
# C12 helper lemmas — glue between the model of `Image::quantize` (`SurfModel.Quant`) and the model of
the sixel encoder (`SurfModel.Sixel`)

`SixelImageHandler::draw` calls `dimg.quantize(256, true, self.bg)` and encodes the pair it gets.  The two
models were written separately: `SurfModel.Quant.quantize` takes the row-major list of the (composited)
pixels and returns the palette and the row-major list of indices; `SurfModel.Sixel.encode` takes the
palette and the index image as a `QImg` (rows of indices).  This file states the glue (`toQ` / `ofQ`
between the two identical colour records, `rowMajor` = `Surface::iter` order, `qimgOf` = the
`SurfaceOwned<usize>` built by `qimg.set(pos, qindex)` row by row) and derives from
`SurfProofs.C13.C13_lossless` (dithering case) the facts the sixel side needs.
-/
namespace SurfProofs.Lemmas.SixelQuant
open SurfModel.Sixel SurfProofs.Lemmas.SixelDecode

/-- the colour record of the quantiser model (same three fields as `SurfModel.Sixel.RGB`) -/
abbrev QRGB := SurfModel.Quant.RGB

def toQ (c : RGB) : QRGB := ⟨c.r, c.g, c.b⟩
def ofQ (c : QRGB) : RGB := ⟨c.r, c.g, c.b⟩

@[simp] theorem ofQ_toQ (c : RGB) : ofQ (toQ c) = c := rfl
@[simp] theorem toQ_ofQ (c : QRGB) : toQ (ofQ c) = c := rfl

/-- the pixels of the `w × h` image `f` (row, column ↦ value) in `Surface::iter` order: row by row -/
def rowMajor {α : Type} (w h : Nat) (f : Nat → Nat → α) : List α :=
  (List.range h).flatMap fun y => (List.range w).map fun x => f y x

/-- the index image `quantize` builds: `qimg.set(Position::new(row, col), qindex)` for the pixels in
row-major order, i.e. the list of indices cut into `h` rows of `w` -/
def qimgOf (w h : Nat) (is : List Nat) : QImg := ⟨w, h, rowsOf w h is⟩

/-! ## `rowMajor` -/

theorem rowMajor_succ {α : Type} (w h : Nat) (f : Nat → Nat → α) :
    rowMajor w (h + 1) f = rowMajor w h f ++ (List.range w).map (fun x => f h x) := by
  simp [rowMajor, List.range_succ, List.flatMap_append]

theorem rowMajor_length {α : Type} (w h : Nat) (f : Nat → Nat → α) : (rowMajor w h f).length = h * w := by
  induction h with
  | zero => simp [rowMajor]
  | succ h ih => rw [rowMajor_succ, List.length_append, ih, List.length_map, List.length_range, Nat.succ_mul]

theorem rowMajor_getElem? {α : Type} (w h : Nat) (f : Nat → Nat → α) (y x : Nat) (hy : y < h) (hx : x < w) :
    (rowMajor w h f)[y * w + x]? = some (f y x) := by
  induction h with
  | zero => omega
  | succ h ih =>
    rw [rowMajor_succ]
    by_cases hyh : y < h
    · have hlt : y * w + x < (rowMajor w h f).length := by
        rw [rowMajor_length]
        have : (y + 1) * w ≤ h * w := Nat.mul_le_mul_right w hyh
        rw [Nat.succ_mul] at this; omega
      rw [List.getElem?_append_left hlt]
      exact ih hyh
    · have hyeq : y = h := by omega
      subst hyeq
      have hge : (rowMajor w y f).length ≤ y * w + x := by rw [rowMajor_length]; omega
      rw [List.getElem?_append_right hge, rowMajor_length]
      have : y * w + x - y * w = x := by omega
      rw [this]
      simp [hx]

theorem mem_rowMajor {α : Type} (w h : Nat) (f : Nat → Nat → α) (a : α) :
    a ∈ rowMajor w h f ↔ ∃ y x, y < h ∧ x < w ∧ f y x = a := by
  simp only [rowMajor, List.mem_flatMap, List.mem_map, List.mem_range]
  constructor
  · rintro ⟨y, hy, x, hx, rfl⟩; exact ⟨y, x, hy, hx, rfl⟩
  · rintro ⟨y, x, hy, hx, rfl⟩; exact ⟨y, hy, x, hx, rfl⟩

theorem index_lt {w h y x : Nat} (hy : y < h) (hx : x < w) : y * w + x < h * w := by
  have : (y + 1) * w ≤ h * w := Nat.mul_le_mul_right w hy
  rw [Nat.succ_mul] at this; omega

/-! ## `rowsOf` -/

theorem rowsOf_length (w h : Nat) (l : List Nat) : (rowsOf w h l).length = h := by
  induction h generalizing l with
  | zero => simp [rowsOf]
  | succ h ih => simp [rowsOf, ih]

theorem rowsOf_getElem? (w h : Nat) (l : List Nat) (y : Nat) (hy : y < h) :
    (rowsOf w h l)[y]? = some ((l.drop (y * w)).take w) := by
  induction h generalizing l y with
  | zero => omega
  | succ h ih =>
    cases y with
    | zero => simp [rowsOf]
    | succ y =>
      simp only [rowsOf, List.getElem?_cons_succ]
      rw [ih (l.drop w) y (by omega), List.drop_drop, Nat.succ_mul]
      congr 3
      omega

theorem mem_rowsOf {w h : Nat} {l r : List Nat} (hr : r ∈ rowsOf w h l) :
    ∃ y, y < h ∧ r = (l.drop (y * w)).take w := by
  obtain ⟨y, hy, rfl⟩ := List.getElem_of_mem hr
  rw [rowsOf_length] at hy
  have := rowsOf_getElem? w h l y hy
  rw [List.getElem?_eq_getElem (by rw [rowsOf_length]; exact hy)] at this
  exact ⟨y, hy, Option.some.inj this⟩

theorem qimgOf_get (w h : Nat) (is : List Nat) (y x : Nat) (hy : y < h) (hx : x < w) :
    (qimgOf w h is).get y x = is.getD (y * w + x) 0 := by
  simp only [QImg.get, qimgOf, rowsOf_getElem? w h is y hy, hx, if_true]
  simp only [List.getD_eq_getElem?_getD, List.getElem?_take, hx, if_true, List.getElem?_drop]

/-- the index image built from `h·w` indices below `n` is a valid quantisation output -/
theorem qimgOf_ok (pal : List RGB) (w h : Nat) (is : List Nat) (h6 : h % 6 = 0)
    (hlen : is.length = h * w) (hidx : ∀ i ∈ is, i < pal.length) : QOk pal (qimgOf w h is) := by
  refine ⟨rowsOf_length w h is, ?_, ?_, h6⟩
  · intro r hr
    obtain ⟨y, hy, rfl⟩ := mem_rowsOf hr
    have : (y + 1) * w ≤ h * w := Nat.mul_le_mul_right w hy
    rw [Nat.succ_mul] at this
    simp only [qimgOf, List.length_take, List.length_drop, hlen]
    omega
  · intro r hr i hi
    obtain ⟨y, _, rfl⟩ := mem_rowsOf hr
    exact hidx i (List.mem_of_mem_drop (List.mem_of_mem_take hi))

/-! ## the quantiser's lossless case, in the sixel model's types -/

/-- 8-bit channels -/
def Bytes (c : RGB) : Prop := c.r < 256 ∧ c.g < 256 ∧ c.b < 256

/-- `SurfProofs.C13.C13_lossless` with `k = 256` and dithering on (what `draw` calls), transported to
the types of the sixel model.  `dimg` is the opaque `w × h` image handed to `quantize` (for opaque
pixels `quantize` and `from_image` skip `blend_over`, so the composited pixels are the pixels).  If it
is non-empty, its height is a multiple of six, its channels are bytes, it has at most 256 distinct
colours and `w·h / (256·100) < 2` (no subsampling), then the model of `quantize` answers `ok pal is`
and, as the pair `(pal, qimgOf w h is)`, this is a valid input of the sixel encoder whose index image
reproduces `dimg` exactly. -/
theorem quant_lossless_sixel (w h : Nat) (dimg : Nat → Nat → RGB)
    (hw : 0 < w) (hh : 0 < h) (h6 : h % 6 = 0)
    (hbytes : ∀ y x, y < h → x < w → Bytes (dimg y x))
    (hfit : ∃ cl : List RGB, cl.length ≤ 256 ∧ ∀ y x, y < h → x < w → dimg y x ∈ cl)
    (hsmall : w * h / (256 * 100) < 2) :
    ∃ pal is,
      SurfModel.Quant.quantize (rowMajor w h fun y x => toQ (dimg y x)) h w 256 true = .ok pal is
      ∧ (pal.map ofQ).length ≤ 256 ∧ (∀ c ∈ pal.map ofQ, Bytes c)
      ∧ QOk (pal.map ofQ) (qimgOf w h is)
      ∧ ∀ y x, y < h → x < w → (pal.map ofQ).getD ((qimgOf w h is).get y x) default = dimg y x := by
  set px := rowMajor w h fun y x => toQ (dimg y x) with hpx
  have hlen : px.length = h * w := rowMajor_length _ _ _
  have hne : px ≠ [] := by
    intro h0
    have : 0 < h * w := Nat.mul_pos hh hw
    rw [h0] at hlen; simp at hlen; omega
  have hmem : ∀ c, c ∈ px ↔ ∃ y x, y < h ∧ x < w ∧ toQ (dimg y x) = c := mem_rowMajor _ _ _
  have hb : ∀ c ∈ px, c.r < 256 ∧ c.g < 256 ∧ c.b < 256 := by
    intro c hc
    obtain ⟨y, x, hy, hx, rfl⟩ := (hmem c).1 hc
    exact hbytes y x hy hx
  obtain ⟨cl, hcl, hclmem⟩ := hfit
  have hfitQ : ∀ S : List QRGB, S.Nodup → (∀ c ∈ S, c ∈ px) → S.length ≤ 256 := by
    intro S hS hsub
    have hsub' : S ⊆ cl.map toQ := by
      intro c hc
      obtain ⟨y, x, hy, hx, rfl⟩ := (hmem c).1 (hsub c hc)
      exact List.mem_map.2 ⟨_, hclmem y x hy hx, rfl⟩
    have := (hS.subperm hsub').length_le
    simp only [List.length_map] at this
    omega
  have hprod : h * w < 200 * 256 := by rw [Nat.mul_comm]; omega
  obtain ⟨pal, is, hq, hnd, hpm, hil, hrep⟩ :=
    SurfProofs.C13.C13_lossless px h w 256 true hne (by omega) hb hfitQ (by omega) hprod
  have hpl : pal.length ≤ 256 := hfitQ pal hnd (fun c hc => (hpm c).1 hc)
  -- pointwise: index `n` of the index list names the colour of pixel `n`
  have hat : ∀ n (hn : n < px.length), pal[is.getD n 0]? = some px[n] := by
    intro n hn
    have hn' : n < is.length := by rw [hil]; exact hn
    have hz : n < (px.zip is).length := by simp [List.length_zip, hn, hn']
    have hmz : (px.zip is)[n] ∈ px.zip is := List.getElem_mem hz
    have := hrep _ hmz
    simp only [List.getElem_zip] at this
    rw [List.getD_eq_getElem?_getD, List.getElem?_eq_getElem hn']
    exact this
  refine ⟨pal, is, hq, by simpa using hpl, ?_, ?_, ?_⟩
  · intro c hc
    obtain ⟨c', hc', rfl⟩ := List.mem_map.1 hc
    exact hb c' ((hpm c').1 hc')
  · refine qimgOf_ok _ w h is h6 (by rw [hil, hlen]) ?_
    intro i hi
    obtain ⟨n, hn, rfl⟩ := List.getElem_of_mem hi
    have := hat n (by rw [← hil]; exact hn)
    rw [List.getD_eq_getElem?_getD, List.getElem?_eq_getElem hn] at this
    have hlt := (List.getElem?_eq_some_iff.1 this).1
    simpa using hlt
  · intro y x hy hx
    have hn : y * w + x < px.length := by rw [hlen]; exact index_lt hy hx
    have h1 := hat _ hn
    have h2 : px[y * w + x]? = some (toQ (dimg y x)) := rowMajor_getElem? _ _ _ y x hy hx
    rw [List.getElem?_eq_getElem hn] at h2
    rw [Option.some.inj h2] at h1
    rw [qimgOf_get w h is y x hy hx, List.getD_eq_getElem?_getD, List.getElem?_map, h1]
    simp

end SurfProofs.Lemmas.SixelQuant
