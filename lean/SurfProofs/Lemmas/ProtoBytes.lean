import SurfModel.Stream
import SurfProofs.Lemmas.ProtoKeys
import SurfProofs.Lemmas.ProtoText
import SurfProofs.Lemmas.ProtoColor
import SurfProofs.Lemmas.ProtoTermcap
import SurfProofs.Lemmas.ProtoSgr
/-! C04: the printer produces bytes (every element of `print m` is below 256), so that the byte string the
decoder sees (`bytes (print m) : List UInt8`) reads back as `print m`. -/
namespace SurfProofs.ProtoBytes
open SurfModel SurfModel.Vt SurfModel.Sgr SurfModel.Grammar SurfModel.Payload SurfModel.Protocol
open SurfProofs.Lemmas.Vt SurfProofs.ProtoBasics SurfProofs.ProtoNumeric SurfProofs.ProtoKeyTable SurfProofs.ProtoKeys

/-- all elements are bytes -/
def B (l : List Nat) : Prop := ∀ b ∈ l, b < 256

theorem B_nil : B [] := by intro b hb; simp at hb
theorem B_cons {a : Nat} {l : List Nat} (ha : a < 256) (hl : B l) : B (a :: l) := by
  intro b hb; simp at hb; rcases hb with rfl | hb
  · exact ha
  · exact hl b hb
theorem B_append {a l : List Nat} (ha : B a) (hl : B l) : B (a ++ l) := by
  intro b hb; simp at hb; rcases hb with hb | hb
  · exact ha b hb
  · exact hl b hb
theorem B_showNat (n : Nat) : B (showNat n) := by
  intro b hb; have := showNat_digits n b hb; omega
theorem B_join (sep : Nat) (hs : sep < 256) (cs : List (List Nat)) (h : ∀ c ∈ cs, B c) : B (joinWith sep cs) := by
  intro b hb
  rcases joinWith_mem sep cs b hb with rfl | ⟨c, hc, hbc⟩
  · exact hs
  · exact h c hc b hbc
theorem B_lit (l : List Nat) (h : l.all (· < 256) = true) : B l := by
  intro b hb; have := List.all_eq_true.mp h b hb; simpa using this

/-- a literal byte list -/
macro "blit" : tactic => `(tactic| (intro b hb; simp at hb; omega))

theorem B_showNat' (n : Nat) : ∀ b ∈ SurfModel.Vt.showNat n, b < 256 := by
  intro b hb; have := SurfProofs.Lemmas.Vt.showNat_digits n b hb; omega

/-- appends of decimal numbers and literal bytes -/
macro "bsolve" : tactic =>
  `(tactic| repeat (first | exact B_showNat' _ | exact B_nil | (intro b hb; simp at hb; omega) | apply B_append))

theorem natBytes_bytes (l : List Nat) (h : B l) : SurfModel.Stream.natBytes (bytes l) = l := by
  unfold SurfModel.Stream.natBytes bytes
  rw [List.map_map]
  conv => rhs; rw [← List.map_id l]
  apply List.map_congr_left
  intro b hb
  simp [Nat.mod_eq_of_lt (h b hb)]

theorem bytes_inj (a b : List Nat) (ha : B a) (hb : B b) (h : bytes a = bytes b) : a = b := by
  rw [← natBytes_bytes a ha, ← natBytes_bytes b hb, h]

theorem B_utf8 (c : Nat) (h : c < 0x110000) : B (utf8 c) := by
  intro b hb
  unfold utf8 at hb
  split at hb
  · simp at hb; omega
  · split at hb
    · simp at hb; omega
    · split at hb
      · simp at hb; omega
      · simp at hb; omega

theorem B_hexString (upper : Bool) (s : List Nat) (h : B s) : B (hexString upper s) := by
  intro b hb
  have := ProtoTermcap.hexString_isHex upper s h b hb
  unfold ProtoTermcap.IsHex at this
  omega

theorem print_lt (m : Msg) (h : m.Valid) : B (print m) := by
  cases m with
  | key i =>
    obtain ⟨p, hp, hl, _⟩ := proto_entry i h
    obtain ⟨e, he, hw, _⟩ := lookup_entry _ _ hl
    rw [key_print i p hp, ← hw]
    intro b hb
    have := List.all_eq_true.mp (List.all_eq_true.mp keyTable_bytes e he) b hb
    simp at this
    omega
  | text c =>
    have := ProtoUtf8.scalar_lt c h.1
    exact B_utf8 c this.1
  | mouse code x y press =>
    cases press <;> (simp only [print, CSI]; bsolve)
  | cursor r c =>
    simp only [print, CSI]; bsolve
  | size ch cw ph pw =>
    simp only [print, CSI]; bsolve
  | decMode mode status =>
    simp only [print, CSI]; bsolve
  | deviceAttrs attrs trailing =>
    rw [da_print]
    refine B_append (by blit) (B_append (B_append (B_join 59 (by omega) _ ?_) ?_) (by blit))
    · intro c hc
      obtain ⟨n, _, rfl⟩ := List.mem_map.mp hc
      exact B_showNat n
    · cases trailing <;> simp [daTail, B_nil] <;> blit
  | color name spec fin =>
    rw [ProtoColor.color_print]
    refine B_append (by blit) (B_append (B_append ?_ (B_cons (by omega) ?_)) ?_)
    · cases name with
      | foreground => exact B_showNat _
      | background => exact B_showNat _
      | palette i => exact B_append (B_append (B_showNat _) (by blit)) (B_showNat _)
    · intro b hb
      have := ProtoColor.spec_bytes spec h.1 b hb
      omega
    · cases fin <;> (simp only [OscEnd.bytes, SurfModel.Protocol.ST]; blit)
  | faceReport items =>
    rw [ProtoSgr.faceReport_print]
    refine B_append (by blit) (B_append (B_append ?_ (by blit)) (by blit))
    intro b hb
    have := ProtoSgr.sgrParams_bytes items b hb
    omega
  | termcapOk entries upper =>
    rw [ProtoTermcap.termcapOk_print]
    refine B_append (by blit) (B_append (B_join 59 (by omega) _ ?_) (by blit))
    intro c hc
    simp only [List.map_map, List.mem_map, Function.comp] at hc
    obtain ⟨e, he, rfl⟩ := hc
    obtain ⟨_, _, h1, h2⟩ := h e he
    exact B_append (B_hexString upper _ h1) (B_cons (by omega) (B_hexString upper _ h2))
  | termcapFail names upper =>
    rw [ProtoTermcap.termcapFail_print]
    refine B_append (by blit) (B_append (B_join 59 (by omega) _ ?_) (by blit))
    intro c hc
    obtain ⟨n, hn, rfl⟩ := List.mem_map.mp hc
    exact B_hexString upper _ (h.2 n hn).2
  | keyboardLevel flags =>
    simp only [print, CSI]; bsolve
  | csiU code alts mods =>
    rw [csiU_print]
    refine B_append (by blit) (B_append (B_append ?_ ?_) (by blit))
    · intro b hb
      have := csiUCodes_bytes code alts b hb
      omega
    · cases mods with
      | none => exact B_nil
      | some m => exact B_cons (by omega) (B_showNat _)
  | kittyImage id number placement error =>
    rw [ProtoTermcap.kittyImage_print]
    refine B_append (by blit) (B_append (B_append ?_ (B_cons (by omega) ?_)) (by blit))
    · intro b hb
      have := ProtoTermcap.kHead_bytes id number placement b hb
      omega
    · cases error with
      | none => simp only [ProtoTermcap.kMsg]; blit
      | some msg => simp only [ProtoTermcap.kMsg]; exact (ProtoUtf8.textOk_facts msg (h.2.2.2 msg rfl).1).2.2
  | paste t =>
    rw [ProtoText.paste_print]
    exact B_append (by blit) (B_append (ProtoUtf8.textOk_facts t h).2.2 (by blit))
  | sgr items =>
    rw [ProtoSgr.sgr_print]
    refine B_append (by blit) (B_append ?_ (by blit))
    intro b hb
    have := ProtoSgr.sgrParams_bytes items b hb
    omega

end SurfProofs.ProtoBytes
