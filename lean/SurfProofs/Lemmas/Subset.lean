import SurfProofs.Lemmas.NFASem
/-!
The lazy subset automaton of `SurfModel.Automata` (`closure`, `targets`, `DFA`) is the powerset construction of
the graph `NFASem.gr` denotes: `closure` is ε-reachability (including the proof that `closureFuel` is enough
fuel for the work-list), and the state `DFA.run` reaches after `w` is exactly the set of NFA states reachable
reading `w`, as a strictly increasing list.  No well-formedness of the NFA is assumed.
-/
namespace SurfProofs.Subset
open SurfModel.Automata SurfProofs.Graph SurfProofs.NFASem

theorem mem_insertNat (x y : Nat) (l : List Nat) : y ∈ insertNat x l ↔ y = x ∨ y ∈ l := by
  induction l with
  | nil => simp [insertNat]
  | cons h t ih =>
    simp only [insertNat]
    split
    · simp
    · split
      · subst_vars; simp
      · simp [ih]; grind

theorem insertNat_sorted (x : Nat) (l : List Nat) (h : l.Pairwise (· < ·)) :
    (insertNat x l).Pairwise (· < ·) := by
  induction l with
  | nil => simp [insertNat]
  | cons a t ih =>
    simp only [insertNat]
    rw [List.pairwise_cons] at h
    split
    · rw [List.pairwise_cons, List.pairwise_cons]
      refine ⟨?_, h⟩
      intro z hz
      rcases List.mem_cons.1 hz with rfl | hz
      · assumption
      · have := h.1 z hz; omega
    · split
      · exact List.pairwise_cons.2 h
      · rw [List.pairwise_cons]
        refine ⟨?_, ih h.2⟩
        intro z hz
        rcases (mem_insertNat _ _ _).1 hz with rfl | hz
        · omega
        · exact h.1 z hz

theorem mem_foldl_insertNat (l acc : List Nat) (y : Nat) :
    y ∈ l.foldl (fun acc x => insertNat x acc) acc ↔ y ∈ acc ∨ y ∈ l := by
  induction l generalizing acc with
  | nil => simp
  | cons a t ih => simp [ih, mem_insertNat]; grind

theorem foldl_insertNat_sorted (l acc : List Nat) (h : acc.Pairwise (· < ·)) :
    (l.foldl (fun acc x => insertNat x acc) acc).Pairwise (· < ·) := by
  induction l generalizing acc with
  | nil => simpa
  | cons a t ih => exact ih _ (insertNat_sorted _ _ h)

theorem mem_sortDedup (l : List Nat) (y : Nat) : y ∈ sortDedup l ↔ y ∈ l := by
  simp [sortDedup, mem_foldl_insertNat]

theorem sortDedup_sorted (l : List Nat) : (sortDedup l).Pairwise (· < ·) :=
  foldl_insertNat_sorted _ _ List.Pairwise.nil

/-- strictly increasing lists are canonical representatives of finite sets -/
theorem sorted_ext {a b : List Nat} (ha : a.Pairwise (· < ·)) (hb : b.Pairwise (· < ·))
    (h : ∀ x, x ∈ a ↔ x ∈ b) : a = b := by
  induction a generalizing b with
  | nil =>
    cases b with
    | nil => rfl
    | cons y b => have := (h y).2 (by simp); simp at this
  | cons x a ih =>
    cases b with
    | nil => have := (h x).1 (by simp); simp at this
    | cons y b =>
      rw [List.pairwise_cons] at ha hb
      have hxy : x = y := by
        have h1 := (h x).1 (by simp)
        have h2 := (h y).2 (by simp)
        rcases List.mem_cons.1 h1 with h1 | h1
        · exact h1
        · rcases List.mem_cons.1 h2 with h2 | h2
          · exact h2.symm
          · have := ha.1 y h2; have := hb.1 x h1; omega
      subst hxy
      congr 1
      apply ih ha.2 hb.2
      intro z
      constructor
      · intro hz
        have := (h z).1 (List.mem_cons_of_mem _ hz)
        rcases List.mem_cons.1 this with rfl | h3
        · have := ha.1 z hz; omega
        · exact h3
      · intro hz
        have := (h z).2 (List.mem_cons_of_mem _ hz)
        rcases List.mem_cons.1 this with rfl | h3
        · have := hb.1 z hz; omega
        · exact h3

theorem eps_iff (n : NFA) (q t : Nat) : (gr n.states).eps q t ↔ t ∈ epsOf n q := by
  unfold gr epsOf
  cases h : n.states[q]? <;> simp [h]

theorem edge_iff (n : NFA) (q : Nat) (b : UInt8) (t : Nat) :
    (gr n.states).edge q b t ↔ (b, t) ∈ edgesOf n q := by
  unfold gr edgesOf
  cases h : n.states[q]? <;> simp [h]

theorem epsOf_ge (n : NFA) (q : Nat) (h : n.states.length ≤ q) : epsOf n q = [] := by
  unfold epsOf
  rw [List.getElem?_eq_none h]

/-! ### soundness of the work-list -/

theorem closureAux_sound (n : NFA) (fuel : Nat) (stack vis : List Nat) (x : Nat)
    (h : x ∈ closureAux n fuel stack vis) :
    x ∈ vis ∨ ∃ s ∈ stack, Path (gr n.states) s [] x := by
  induction fuel generalizing stack vis with
  | zero => simp only [closureAux] at h; exact Or.inl h
  | succ fuel ih =>
    cases stack with
    | nil => simp only [closureAux] at h; exact Or.inl h
    | cons q stack =>
      simp only [closureAux] at h
      split at h
      · rcases ih _ _ h with h | ⟨s, hs, hp⟩
        · exact Or.inl h
        · exact Or.inr ⟨s, List.mem_cons_of_mem _ hs, hp⟩
      · rcases ih _ _ h with h | ⟨s, hs, hp⟩
        · rcases List.mem_cons.1 h with rfl | h
          · exact Or.inr ⟨x, by simp, Path.refl _⟩
          · exact Or.inl h
        · rcases List.mem_append.1 hs with hs | hs
          · exact Or.inr ⟨q, by simp, Path.eps ((eps_iff n q s).2 hs) hp⟩
          · exact Or.inr ⟨s, List.mem_cons_of_mem _ hs, hp⟩

/-! ### the fuel measure -/

/-- total weight of the states of `L` not yet visited -/
def wt (f : Nat → Nat) (vis L : List Nat) : Nat := ((L.filter (· ∉ vis)).map f).sum

theorem wt_cons_le (f : Nat → Nat) (q : Nat) (vis L : List Nat) : wt f (q :: vis) L ≤ wt f vis L := by
  induction L with
  | nil => simp [wt]
  | cons a L ih =>
    unfold wt at ih ⊢
    by_cases h1 : a ∈ vis
    · simp [h1]; simpa using ih
    · by_cases h2 : a = q
      · subst h2; simp [h1] ; simp at ih; omega
      · simp [h1, h2]; simpa using ih

theorem wt_cons_lt (f : Nat → Nat) (q : Nat) (vis L : List Nat) (hq : q ∈ L) (hv : q ∉ vis) :
    wt f (q :: vis) L + f q ≤ wt f vis L := by
  induction L with
  | nil => simp at hq
  | cons a L ih =>
    by_cases h2 : a = q
    · subst h2
      have := wt_cons_le f a vis L
      unfold wt at this ⊢
      simp [hv]; simp at this; omega
    · have hq' : q ∈ L := by
        rcases List.mem_cons.1 hq with h | h
        · exact absurd h.symm h2
        · exact h
      have ih := ih hq'
      unfold wt at ih ⊢
      by_cases h1 : a ∈ vis
      · simp [h1]; simpa using ih
      · simp [h1, h2]; simp at ih; omega

/-- weight of a state in the fuel measure: one pop for itself and one per ε-successor pushed -/
def cw (n : NFA) (q : Nat) : Nat := 1 + (epsOf n q).length

theorem closureAux_complete (n : NFA) (fuel : Nat) (stack vis : List Nat)
    (hf : stack.length + wt (cw n) vis (List.range n.states.length) < fuel)
    (hinv : ∀ q ∈ vis, ∀ t ∈ epsOf n q, t ∈ vis ∨ t ∈ stack) :
    (∀ x ∈ vis, x ∈ closureAux n fuel stack vis) ∧ (∀ x ∈ stack, x ∈ closureAux n fuel stack vis) ∧
      (∀ q ∈ closureAux n fuel stack vis, ∀ t ∈ epsOf n q, t ∈ closureAux n fuel stack vis) := by
  induction fuel generalizing stack vis with
  | zero => omega
  | succ fuel ih =>
    cases stack with
    | nil =>
      simp only [closureAux]
      refine ⟨fun _ h => h, by simp, ?_⟩
      intro q hq t ht
      rcases hinv q hq t ht with h | h
      · exact h
      · simp at h
    | cons q stack =>
      simp only [closureAux]
      split
      · rename_i hq
        have := ih stack vis (by simp at hf; omega) (by
          intro q' hq' t ht
          rcases hinv q' hq' t ht with h | h
          · exact Or.inl h
          · rcases List.mem_cons.1 h with rfl | h
            · exact Or.inl hq
            · exact Or.inr h)
        obtain ⟨h1, h2, h3⟩ := this
        refine ⟨h1, ?_, h3⟩
        intro x hx
        rcases List.mem_cons.1 hx with rfl | hx
        · exact h1 _ hq
        · exact h2 _ hx
      · rename_i hq
        have hfuel : (epsOf n q ++ stack).length + wt (cw n) (q :: vis) (List.range n.states.length) < fuel := by
          rcases Nat.lt_or_ge q n.states.length with hlt | hge
          · have := wt_cons_lt (cw n) q vis (List.range n.states.length) (List.mem_range.2 hlt) hq
            simp [cw] at this hf ⊢
            omega
          · have := wt_cons_le (cw n) q vis (List.range n.states.length)
            simp [epsOf_ge n q hge] at hf ⊢
            omega
        have := ih (epsOf n q ++ stack) (q :: vis) hfuel (by
          intro q' hq' t ht
          rcases List.mem_cons.1 hq' with rfl | hq'
          · exact Or.inr (List.mem_append_left _ ht)
          · rcases hinv q' hq' t ht with h | h
            · exact Or.inl (List.mem_cons_of_mem _ h)
            · rcases List.mem_cons.1 h with rfl | h
              · exact Or.inl (by simp)
              · exact Or.inr (List.mem_append_right _ h))
        obtain ⟨h1, h2, h3⟩ := this
        refine ⟨fun x hx => h1 x (List.mem_cons_of_mem _ hx), ?_, h3⟩
        intro x hx
        rcases List.mem_cons.1 hx with rfl | hx
        · exact h1 _ (by simp)
        · exact h2 _ (List.mem_append_right _ hx)

theorem sum_range_getElem? {α} (l : List α) (g : α → Nat) :
    ((List.range l.length).map fun i => match l[i]? with | some x => g x | none => 0).sum
      = (l.map g).sum := by
  induction l with
  | nil => simp
  | cons a l ih =>
    rw [List.length_cons, List.range_succ_eq_map]
    simp only [List.map_cons, List.sum_cons, List.map_map, List.getElem?_cons_zero]
    rw [← ih]
    congr 1

theorem wt_nil (n : NFA) :
    wt (cw n) [] (List.range n.states.length) = n.states.length + (n.states.map fun st => st.eps.length).sum := by
  have h1 : ∀ N, ((List.range N).map (cw n)).sum = N + ((List.range N).map fun q => (epsOf n q).length).sum := by
    intro N
    induction N with
    | zero => simp
    | succ N ih => simp [List.range_succ, ih, cw]; omega
  have h2 := sum_range_getElem? n.states (fun st => st.eps.length)
  have h0 : ∀ L, wt (cw n) [] L = (L.map (cw n)).sum := by
    intro L; unfold wt; congr 2; exact List.filter_eq_self.2 (by simp)
  rw [h0, h1, ← h2]
  congr 3
  funext i
  unfold epsOf
  cases n.states[i]? <;> rfl

theorem closed_of_path {g : Gr Nat} (R : List Nat) (hc : ∀ q ∈ R, ∀ t, g.eps q t → t ∈ R)
    {s q : Nat} {w : List UInt8} (p : Path g s w q) (hw : w = []) (hs : s ∈ R) : q ∈ R := by
  induction p with
  | refl s => exact hs
  | eps he _ ih => exact ih hw (hc _ hs _ he)
  | sym _ _ _ => cases hw

/-- ε-closure is exactly ε-reachability (this includes the proof that `closureFuel` is enough fuel) -/
theorem mem_closure (n : NFA) (S : List Nat) (q : Nat) :
    q ∈ closure n S ↔ ∃ s ∈ S, Path (gr n.states) s [] q := by
  unfold closure
  rw [mem_sortDedup]
  constructor
  · intro h
    rcases closureAux_sound n _ _ _ _ h with h | h
    · simp at h
    · exact h
  · rintro ⟨s, hs, p⟩
    obtain ⟨_, h2, h3⟩ := closureAux_complete n (closureFuel n S) S []
      (by rw [wt_nil]; unfold closureFuel; omega) (by simp)
    exact closed_of_path _ (fun q hq t he => h3 q hq t ((eps_iff n q t).1 he)) p rfl (h2 s hs)

theorem closure_sorted (n : NFA) (S : List Nat) : (closure n S).Pairwise (· < ·) :=
  sortDedup_sorted _

/-- `S` is closed under ε-edges -/
def Closed (n : NFA) (S : List Nat) : Prop := ∀ s ∈ S, ∀ t, (gr n.states).eps s t → t ∈ S

theorem closure_closed (n : NFA) (S : List Nat) : Closed n (closure n S) := by
  intro s hs t he
  obtain ⟨s0, h0, p⟩ := (mem_closure n S s).1 hs
  exact (mem_closure n S t).2 ⟨s0, h0, p.snocEps he⟩

theorem closure_ne_nil (n : NFA) (t : Nat) (ts : List Nat) : closure n (t :: ts) ≠ [] := by
  have : t ∈ closure n (t :: ts) := (mem_closure n _ t).2 ⟨t, by simp, Path.refl _⟩
  intro h
  rw [h] at this
  simp at this

theorem mem_closed_iff (n : NFA) (S : List Nat) (hc : Closed n S) (q : Nat) :
    q ∈ S ↔ ∃ s ∈ S, Path (gr n.states) s [] q :=
  ⟨fun h => ⟨q, h, Path.refl _⟩, fun ⟨_, hs, p⟩ => closed_of_path S hc p rfl hs⟩

theorem mem_targets (n : NFA) (S : List Nat) (b : UInt8) (t : Nat) :
    t ∈ targets n S b ↔ ∃ s ∈ S, (b, t) ∈ edgesOf n s := by
  unfold targets
  simp only [List.mem_flatMap, List.mem_filterMap]
  constructor
  · rintro ⟨s, hs, p, hp, h⟩
    split at h
    · rename_i hb
      cases h
      exact ⟨s, hs, by rw [← hb]; exact hp⟩
    · cases h
  · rintro ⟨s, hs, h⟩
    exact ⟨s, hs, (b, t), h, by simp⟩

theorem transition_eq_none (d : DFA) (S : DState) (b : UInt8) :
    d.transition S b = none ↔ targets d.nfa S b = [] := by
  unfold DFA.transition
  split <;> simp_all

/-- one step of the subset automaton from an ε-closed set -/
theorem transition_spec (n : NFA) (S : DState) (b : UInt8) (hc : Closed n S) :
    match n.compile.transition S b with
    | none => ∀ s ∈ S, ∀ q, ¬ Path (gr n.states) s [b] q
    | some S' => S' ≠ [] ∧ Closed n S' ∧ S'.Pairwise (· < ·) ∧
        ∀ q, q ∈ S' ↔ ∃ s ∈ S, ∃ t, (gr n.states).edge s b t ∧ Path (gr n.states) t [] q := by
  unfold DFA.transition NFA.compile
  simp only
  cases h : targets n S b with
  | nil =>
    simp only
    intro s hs q p
    obtain ⟨s', r, p1, e, _⟩ := p.cons_inv
    have hs' : s' ∈ S := closed_of_path S hc p1 rfl hs
    have : r ∈ targets n S b := (mem_targets n S b r).2 ⟨s', hs', (edge_iff n s' b r).1 e⟩
    rw [h] at this
    simp at this
  | cons t ts =>
    simp only
    refine ⟨closure_ne_nil n t ts, closure_closed n _, closure_sorted n _, ?_⟩
    intro q
    rw [mem_closure, ← h]
    constructor
    · rintro ⟨r, hr, p⟩
      obtain ⟨s, hs, he⟩ := (mem_targets n S b r).1 hr
      exact ⟨s, hs, r, (edge_iff n s b r).2 he, p⟩
    · rintro ⟨s, hs, r, he, p⟩
      exact ⟨r, (mem_targets n S b r).2 ⟨s, hs, (edge_iff n s b r).1 he⟩, p⟩

/-- the subset automaton from an ε-closed, non-empty set tracks exactly the reachable states -/
theorem transitionMany_spec (n : NFA) (w : List UInt8) (S : DState) (hc : Closed n S) (hne : S ≠ [])
    (hsort : S.Pairwise (· < ·)) :
    match n.compile.transitionMany S w with
    | none => ∀ s ∈ S, ∀ q, ¬ Path (gr n.states) s w q
    | some S' => S' ≠ [] ∧ Closed n S' ∧ S'.Pairwise (· < ·) ∧
        ∀ q, q ∈ S' ↔ ∃ s ∈ S, Path (gr n.states) s w q := by
  induction w generalizing S with
  | nil =>
    simp only [DFA.transitionMany]
    exact ⟨hne, hc, hsort, mem_closed_iff n S hc⟩
  | cons b w ih =>
    simp only [DFA.transitionMany]
    have h1 := transition_spec n S b hc
    cases h : n.compile.transition S b with
    | none =>
      rw [h] at h1
      simp only
      intro s hs q p
      obtain ⟨r, p1, _⟩ := Path.append_inv (u := [b]) (v := w) (by simpa using p)
      exact h1 s hs r p1
    | some S1 =>
      rw [h] at h1
      obtain ⟨g1, g2, g3, g4⟩ := h1
      have h2 := ih S1 g2 g1 g3
      simp only
      cases h' : n.compile.transitionMany S1 w with
      | none =>
        rw [h'] at h2
        simp only
        intro s hs q p
        obtain ⟨s', r, p1, e, p2⟩ := p.cons_inv
        have hs' : s' ∈ S := closed_of_path S hc p1 rfl hs
        exact h2 r ((g4 r).2 ⟨s', hs', r, e, Path.refl _⟩) q p2
      | some S2 =>
        rw [h'] at h2
        obtain ⟨k1, k2, k3, k4⟩ := h2
        refine ⟨k1, k2, k3, ?_⟩
        intro q
        rw [k4]
        constructor
        · rintro ⟨s1, hs1, p⟩
          obtain ⟨s, hs, t, e, p1⟩ := (g4 s1).1 hs1
          exact ⟨s, hs, Path.sym e (by simpa using p1.trans p)⟩
        · rintro ⟨s, hs, p⟩
          obtain ⟨s', r, p1, e, p2⟩ := p.cons_inv
          have hs' : s' ∈ S := closed_of_path S hc p1 rfl hs
          exact ⟨r, (g4 r).2 ⟨s', hs', r, e, Path.refl _⟩, p2⟩

theorem run_spec (n : NFA) (w : List UInt8) :
    match n.compile.run w with
    | none => ∀ q, ¬ Reach n w q
    | some S => S ≠ [] ∧ Closed n S ∧ S.Pairwise (· < ·) ∧ ∀ q, q ∈ S ↔ Reach n w q := by
  have h := transitionMany_spec n w n.compile.start (closure_closed n _) (closure_ne_nil n _ _)
    (closure_sorted n _)
  unfold DFA.run
  have hstart : ∀ q, (∃ s ∈ n.compile.start, Path (gr n.states) s w q) ↔ Reach n w q := by
    intro q
    unfold Reach DFA.start NFA.compile
    simp only
    constructor
    · rintro ⟨s, hs, p⟩
      obtain ⟨s0, h0, p0⟩ := (mem_closure n _ s).1 hs
      simp only [List.mem_singleton] at h0
      subst h0
      simpa using p0.trans p
    · intro p
      exact ⟨n.start, (mem_closure n _ _).2 ⟨n.start, by simp, Path.refl _⟩, p⟩
  cases h' : n.compile.transitionMany n.compile.start w with
  | none =>
    rw [h'] at h
    simp only at h ⊢
    intro q p
    obtain ⟨s, hs, p'⟩ := (hstart q).2 p
    exact h s hs q p'
  | some S =>
    rw [h'] at h
    simp only at h ⊢
    obtain ⟨k1, k2, k3, k4⟩ := h
    exact ⟨k1, k2, k3, fun q => (k4 q).trans (hstart q)⟩

/-- the subset state after `w` is exactly the set of NFA states reachable reading `w` -/
theorem mem_run (n : NFA) (w : List UInt8) (S : DState) (h : n.compile.run w = some S) (q : Nat) :
    q ∈ S ↔ Reach n w q := by
  have := run_spec n w
  rw [h] at this
  exact this.2.2.2 q

theorem run_sorted (n : NFA) (w : List UInt8) (S : DState) (h : n.compile.run w = some S) :
    S.Pairwise (· < ·) := by
  have := run_spec n w
  rw [h] at this
  exact this.2.2.1

/-- dead is reported exactly when no NFA state is reachable -/
theorem run_eq_none_iff (n : NFA) (w : List UInt8) : n.compile.run w = none ↔ ∀ q, ¬ Reach n w q := by
  have := run_spec n w
  cases h : n.compile.run w with
  | none => rw [h] at this; simpa using this
  | some S =>
    rw [h] at this
    obtain ⟨k1, _, _, k4⟩ := this
    simp only [reduceCtorEq, false_iff]
    intro hall
    cases S with
    | nil => exact k1 rfl
    | cons x S => exact hall x ((k4 x).1 (by simp))

theorem matches_iff_lang (n : NFA) (w : List UInt8) : n.compile.matches w = true ↔ Lang n w := by
  unfold DFA.matches Lang
  cases h : n.compile.run w with
  | none =>
    simp only [Bool.false_eq_true, false_iff]
    exact (run_eq_none_iff n w).1 h _
  | some S =>
    simp only [DFA.isAccepting, NFA.compile, List.contains_iff_mem]
    exact mem_run n w S h n.stop

theorem mem_tagsAfter (n : NFA) (w : List UInt8) (t : Nat) :
    t ∈ n.compile.tagsAfter w ↔ ∃ q, Reach n w q ∧ tagOf n q = some t := by
  unfold DFA.tagsAfter
  cases h : n.compile.run w with
  | none =>
    simp only [List.not_mem_nil, false_iff]
    rintro ⟨q, hq, _⟩
    exact (run_eq_none_iff n w).1 h q hq
  | some S =>
    simp only [DFA.tags, NFA.compile, mem_sortDedup, List.mem_filterMap]
    constructor
    · rintro ⟨q, hq, ht⟩
      exact ⟨q, (mem_run n w S h q).1 hq, ht⟩
    · rintro ⟨q, hq, ht⟩
      exact ⟨q, (mem_run n w S h q).2 hq, ht⟩

theorem tags_sorted (d : DFA) (S : DState) : (d.tags S).Pairwise (· < ·) := sortDedup_sorted _

theorem transitionMany_append (d : DFA) (S : DState) (u v : List UInt8) :
    d.transitionMany S (u ++ v) =
      match d.transitionMany S u with | none => none | some S' => d.transitionMany S' v := by
  induction u generalizing S with
  | nil => simp [DFA.transitionMany]
  | cons b u ih =>
    simp only [List.cons_append, DFA.transitionMany]
    cases d.transition S b with
    | none => rfl
    | some S1 => exact ih S1

theorem run_append (d : DFA) (u v : List UInt8) :
    d.run (u ++ v) = match d.run u with | none => none | some S => d.transitionMany S v :=
  transitionMany_append d _ u v

/-- terminal = the whole row of the state is empty -/
theorem isTerminal_iff (d : DFA) (S : DState) :
    d.isTerminal S = true ↔ ∀ b, d.transition S b = none := by
  simp only [DFA.isTerminal, List.all_eq_true, List.isEmpty_iff, transition_eq_none]
  constructor
  · intro h b
    apply List.eq_nil_iff_forall_not_mem.2
    intro t ht
    obtain ⟨s, hs, he⟩ := (mem_targets d.nfa S b t).1 ht
    rw [h s hs] at he
    simp at he
  · intro h q hq
    apply List.eq_nil_iff_forall_not_mem.2
    rintro ⟨b, t⟩ he
    have : t ∈ targets d.nfa S b := (mem_targets d.nfa S b t).2 ⟨q, hq, he⟩
    rw [h b] at this
    simp at this

theorem terminal_no_extension (n : NFA) (w : List UInt8) (S : DState) (h : n.compile.run w = some S)
    (ht : n.compile.isTerminal S = true) (b : UInt8) (v : List UInt8) :
    n.compile.matches (w ++ b :: v) = false := by
  unfold DFA.matches
  rw [run_append, h]
  simp only [DFA.transitionMany, (isTerminal_iff _ S).1 ht b]

theorem edges_foldr_get (es : List (UInt8 × Nat)) (acc : Array (List Nat)) (b : UInt8) :
    (es.foldr (fun p acc => acc.modify p.1.toNat (p.2 :: ·)) acc)[b.toNat]? =
      acc[b.toNat]?.map fun l => (es.filterMap fun p => if p.1 = b then Option.some p.2 else none) ++ l := by
  induction es with
  | nil => simp
  | cons p es ih =>
    simp only [List.foldr_cons, Array.getElem?_modify, ih, UInt8.toNat_inj, List.filterMap_cons]
    by_cases h : p.1 = b
    · simp [h]; rfl
    · simp [h]

theorem targetsRow_foldr_get (n : NFA) (S : List Nat) (acc : Array (List Nat)) (b : UInt8) :
    (S.foldr (fun q acc => (edgesOf n q).foldr (fun p acc => acc.modify p.1.toNat (p.2 :: ·)) acc) acc)[b.toNat]? =
      acc[b.toNat]?.map fun l => targets n S b ++ l := by
  induction S with
  | nil => simp [targets]
  | cons q S ih =>
    simp only [List.foldr_cons, edges_foldr_get, ih, Option.map_map]
    unfold targets
    simp only [List.flatMap_cons]
    congr 1
    funext l
    simp

/-- the one-pass row used by the driver is `targets` -/
theorem targetsRow_get (n : NFA) (S : List Nat) (b : UInt8) :
    (Wire.targetsRow n S)[b.toNat]? = some (targets n S b) := by
  unfold Wire.targetsRow
  rw [targetsRow_foldr_get, Array.getElem?_replicate, if_pos (by have := b.toNat_lt; omega)]
  simp

end SurfProofs.Subset
