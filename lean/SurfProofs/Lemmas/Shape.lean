import SurfModel.Shape
import SurfProofs.C08
/-!
# Lemmas for C07: the window invariant `Rel` (shape ↔ plain matrix) and the stride invariant `Strides`
-/
open SurfModel.Slice SurfModel.Shape

namespace SurfProofs.Lemmas.Shape

variable {α : Type}

theorem pyTake_eq (sel : Sel) (l : List α) :
    pyTake sel l = match viewBounds sel l.length with
      | none => []
      | some (s, e) => (l.drop s).take (e - s) := by
  rw [SurfProofs.C08.C08_slice]; rfl

theorem mcol_get (W : List (List α)) (c : Nat) (h : ∀ row ∈ W, c < row.length) (r : Nat) :
    (mcol W c)[r]? = cellAt W r c := by
  unfold mcol cellAt
  induction W generalizing r with
  | nil => simp
  | cons row rest ih =>
    have hc : c < row.length := h row (by simp)
    have : row[c]? = some row[c] := List.getElem?_eq_getElem hc
    cases r with
    | zero => simp [this]
    | succ r => simpa [this] using ih (fun row hr => h row (by simp [hr])) r

theorem mcol_length (W : List (List α)) (c : Nat) (h : ∀ row ∈ W, c < row.length) :
    (mcol W c).length = W.length := by
  unfold mcol
  induction W with
  | nil => simp
  | cons row rest ih =>
    have hc : c < row.length := h row (by simp)
    have : row[c]? = some row[c] := List.getElem?_eq_getElem hc
    simp [this, ih (fun row hr => h row (by simp [hr]))]

/-- the window of `sh` over `data` is the matrix `W` -/
structure Rel (sh : Shape) (data : List α) (W : List (List α)) : Prop where
  rect : ∀ row ∈ W, row.length = mwidth W
  dims : sh.height * sh.width ≠ 0 → W.length = sh.height ∧ mwidth W = sh.width
  empty : sh.height * sh.width = 0 → ∀ row ∈ W, row = []
  cell : ∀ r c, r < sh.height → c < sh.width → cellAt W r c = data[sh.offset r c]?

theorem nonempty_of_lt {h w r c : Nat} (hr : r < h) (hc : c < w) : h * w ≠ 0 := by
  have : 0 < h * w := Nat.mul_pos (by omega) (by omega)
  omega

theorem pos_of_mul_ne {h w : Nat} (hne : h * w ≠ 0) : 0 < h ∧ 0 < w := by
  constructor
  · rcases Nat.eq_zero_or_pos h with h0 | h0
    · subst h0; simp at hne
    · exact h0
  · rcases Nat.eq_zero_or_pos w with h0 | h0
    · subst h0; simp at hne
    · exact h0

theorem mwidth_of_mem {W : List (List α)} (hrect : ∀ row ∈ W, row.length = mwidth W) :
    ∀ row ∈ W, row.length = mwidth W := hrect

theorem mwidth_eq_zero_of_empty {W : List (List α)} (h : ∀ row ∈ W, row = []) : mwidth W = 0 := by
  cases W with
  | nil => rfl
  | cons row rest => simp [mwidth, h row (by simp)]

/-! ### root -/
theorem reshape_length (h w : Nat) (data : List α) : (reshape h w data).length = h := by
  simp [reshape]

theorem reshape_get (h w : Nat) (data : List α) (r : Nat) (hr : r < h) :
    (reshape h w data)[r]? = some ((data.drop (r * w)).take w) := by
  simp [reshape, hr]

theorem reshape_row_length (h w : Nat) (data : List α) (hlen : h * w ≤ data.length) :
    ∀ row ∈ reshape h w data, row.length = w := by
  intro row hrow
  simp only [reshape, List.mem_map, List.mem_range] at hrow
  obtain ⟨r, hr, rfl⟩ := hrow
  have : (r + 1) * w ≤ h * w := Nat.mul_le_mul_right w hr
  rw [Nat.add_mul] at this
  simp; omega

theorem rel_root (h w : Nat) (data : List α) (hlen : h * w ≤ data.length) :
    Rel (Shape.from h w) data (reshape h w data) := by
  have hrow := reshape_row_length h w data hlen
  have hw : (reshape h w data) ≠ [] → mwidth (reshape h w data) = w := by
    intro hne
    cases hW : reshape h w data with
    | nil => exact absurd hW hne
    | cons row rest => simp only [mwidth]; exact hrow row (by simp [hW])
  refine ⟨?_, ?_, ?_, ?_⟩
  · intro row hr
    rw [hrow row hr, hw (List.ne_nil_of_mem hr)]
  · intro hne
    simp only [Shape.from] at hne ⊢
    have ⟨hh, _⟩ := pos_of_mul_ne hne
    refine ⟨reshape_length h w data, hw ?_⟩
    intro h0
    have := reshape_length h w data
    rw [h0] at this; simp at this; omega
  · intro he row hr
    simp only [Shape.from] at he
    have hl := hrow row hr
    rcases Nat.mul_eq_zero.mp he with h0 | h0
    · subst h0; simp [reshape] at hr
    · subst h0; exact List.eq_nil_of_length_eq_zero hl
  · intro r c hr hc
    simp only [Shape.from] at hr hc
    simp only [cellAt, reshape_get h w data r hr, Shape.offset, Shape.from]
    simp [hc]


/-! ### transpose -/
theorem mtranspose_length (W : List (List α)) : (mtranspose W).length = mwidth W := by
  simp [mtranspose]

theorem mtranspose_get (W : List (List α)) (r : Nat) (hr : r < mwidth W) :
    (mtranspose W)[r]? = some (mcol W r) := by
  simp [mtranspose, hr]

theorem rel_transpose {sh : Shape} {data : List α} {W : List (List α)} (R : Rel sh data W) :
    Rel sh.transpose data (mtranspose W) := by
  have hlt : ∀ c, c < mwidth W → ∀ row ∈ W, c < row.length := by
    intro c hc row hr; rw [R.rect row hr]; exact hc
  have hrows : ∀ row ∈ mtranspose W, row.length = W.length := by
    intro row hr
    simp only [mtranspose, List.mem_map, List.mem_range] at hr
    obtain ⟨c, hc, rfl⟩ := hr
    exact mcol_length W c (hlt c hc)
  have hw : mtranspose W ≠ [] → mwidth (mtranspose W) = W.length := by
    intro hne
    cases hW : mtranspose W with
    | nil => exact absurd hW hne
    | cons row rest => simp only [mwidth]; exact hrows row (by simp [hW])
  refine ⟨?_, ?_, ?_, ?_⟩
  · intro row hr
    rw [hrows row hr, hw (List.ne_nil_of_mem hr)]
  · intro hne
    simp only [Shape.transpose] at hne ⊢
    have hne' : sh.height * sh.width ≠ 0 := by rw [Nat.mul_comm]; exact hne
    have ⟨h1, h2⟩ := R.dims hne'
    have ⟨_, hwpos⟩ := pos_of_mul_ne hne'
    refine ⟨by rw [mtranspose_length, h2], ?_⟩
    rw [hw, h1]
    intro h0
    have := mtranspose_length W
    rw [h0, h2] at this; simp at this; omega
  · intro he row hr
    simp only [Shape.transpose] at he
    have he' : sh.height * sh.width = 0 := by rw [Nat.mul_comm]; exact he
    have h0 := mwidth_eq_zero_of_empty (R.empty he')
    simp [mtranspose, h0] at hr
  · intro r c hr hc
    simp only [Shape.transpose] at hr hc
    have hne : sh.height * sh.width ≠ 0 := nonempty_of_lt hc hr
    have ⟨h1, h2⟩ := R.dims hne
    have hr' : r < mwidth W := by omega
    have e1 : cellAt (mtranspose W) r c = cellAt W c r := by
      unfold cellAt
      rw [mtranspose_get W r hr']
      simp only [Option.bind_some]
      exact mcol_get W r (hlt r hr') c
    rw [e1, R.cell c r hc hr]
    congr 1
    simp only [Shape.offset, Shape.transpose]; omega


/-! ### view -/
theorem pyTake_nil (sel : Sel) : pyTake sel ([] : List α) = [] := by
  rw [pyTake_eq]; split <;> simp

theorem mwidth_all_nil {W : List (List α)} (h : ∀ row ∈ W, row = []) :
    (∀ row ∈ W, row.length = mwidth W) := by
  intro row hr; rw [mwidth_eq_zero_of_empty h, h row hr]; rfl

/-- a matrix without cells is a window of any shape without cells -/
theorem rel_of_no_cells {sh : Shape} {data : List α} {W : List (List α)}
    (hs : sh.height * sh.width = 0) (h : ∀ row ∈ W, row = []) : Rel sh data W :=
  ⟨mwidth_all_nil h, fun hne => absurd hs hne, fun _ => h,
   fun _ _ hr hc => absurd hs (nonempty_of_lt hr hc)⟩

theorem msub_no_cells (rows cols : Sel) {W : List (List α)} (h : ∀ row ∈ W, row = []) :
    ∀ row ∈ msub rows cols W, row = [] := by
  intro row hr
  simp only [msub, List.mem_map] at hr
  obtain ⟨row', hr', rfl⟩ := hr
  have hm : row' ∈ W := by
    rw [pyTake_eq] at hr'
    split at hr'
    · simp at hr'
    · exact List.mem_of_mem_drop (List.mem_of_mem_take hr')
  rw [h row' hm]; exact pyTake_nil cols

theorem rel_view {sh : Shape} {data : List α} {W : List (List α)} (R : Rel sh data W) (rows cols : Sel) :
    Rel (sh.view rows cols) data (msub rows cols W) := by
  rcases Nat.eq_zero_or_pos (sh.height * sh.width) with hz | hpos
  · -- the parent window has no cells: neither has the view
    have hsh : (sh.view rows cols).height * (sh.view rows cols).width = 0 := by
      rcases Nat.mul_eq_zero.mp hz with h0 | h0
      · have : viewBounds rows sh.height = none := by
          rw [h0]; cases hv : viewBounds rows 0 with
          | none => rfl
          | some p => have := SurfProofs.C08.C08_range rows 0 p.1 p.2 hv; omega
        simp [Shape.view, this]
      · have : viewBounds cols sh.width = none := by
          rw [h0]; cases hv : viewBounds cols 0 with
          | none => rfl
          | some p => have := SurfProofs.C08.C08_range cols 0 p.1 p.2 hv; omega
        simp [Shape.view, this]
    exact rel_of_no_cells hsh (msub_no_cells rows cols (R.empty hz))
  · have hne : sh.height * sh.width ≠ 0 := by omega
    have ⟨hH, hWd⟩ := R.dims hne
    have hrowlen : ∀ row ∈ W, row.length = sh.width := fun row hr => by rw [R.rect row hr, hWd]
    cases hc : viewBounds cols sh.width with
    | none =>
      have hsh : (sh.view rows cols).height * (sh.view rows cols).width = 0 := by simp [Shape.view, hc]
      refine rel_of_no_cells hsh ?_
      intro row hr
      simp only [msub, List.mem_map] at hr
      obtain ⟨row', hr', rfl⟩ := hr
      have hm : row' ∈ W := by
        rw [pyTake_eq] at hr'
        split at hr'
        · simp at hr'
        · exact List.mem_of_mem_drop (List.mem_of_mem_take hr')
      rw [pyTake_eq, hrowlen row' hm, hc]
    | some cb =>
      obtain ⟨cs, ce⟩ := cb
      cases hr : viewBounds rows sh.height with
      | none =>
        have hsh : (sh.view rows cols).height * (sh.view rows cols).width = 0 := by simp [Shape.view, hc, hr]
        refine rel_of_no_cells hsh ?_
        intro row hrow
        simp only [msub, pyTake_eq rows W, hH, hr, List.map_nil, List.not_mem_nil] at hrow
      | some rb =>
        obtain ⟨rs, re⟩ := rb
        have ⟨hc1, hc2⟩ := SurfProofs.C08.C08_range cols sh.width cs ce hc
        have ⟨hr1, hr2⟩ := SurfProofs.C08.C08_range rows sh.height rs re hr
        have hview : sh.view rows cols =
            { sh with width := ce - cs, height := re - rs, start := sh.offset rs cs, end_ := sh.offset (re - 1) ce } := by
          simp [Shape.view, hc, hr]
        have hsub : msub rows cols W = ((W.drop rs).take (re - rs)).map (fun row => (row.drop cs).take (ce - cs)) := by
          simp only [msub, pyTake_eq rows W, hH, hr]
          apply List.map_congr_left
          intro row hrow
          have hm : row ∈ W := List.mem_of_mem_drop (List.mem_of_mem_take hrow)
          rw [pyTake_eq, hrowlen row hm, hc]
        have hlen : (msub rows cols W).length = re - rs := by
          rw [hsub]; simp; omega
        have hrowsW' : ∀ row ∈ msub rows cols W, row.length = ce - cs := by
          intro row hrow
          rw [hsub] at hrow
          simp only [List.mem_map] at hrow
          obtain ⟨row', hr', rfl⟩ := hrow
          have hm : row' ∈ W := List.mem_of_mem_drop (List.mem_of_mem_take hr')
          simp [hrowlen row' hm]; omega
        have hw' : mwidth (msub rows cols W) = ce - cs := by
          cases hW' : msub rows cols W with
          | nil => rw [hW'] at hlen; simp at hlen; omega
          | cons row rest => simp only [mwidth]; exact hrowsW' row (by simp [hW'])
        rw [hview]
        refine ⟨?_, ?_, ?_, ?_⟩
        · intro row hrow; rw [hrowsW' row hrow, hw']
        · intro _; exact ⟨hlen, hw'⟩
        · intro he
          simp only at he
          have : 0 < (re - rs) * (ce - cs) := Nat.mul_pos (by omega) (by omega)
          omega
        · intro r c hr' hc'
          simp only at hr' hc'
          have e1 : cellAt (msub rows cols W) r c = cellAt W (rs + r) (cs + c) := by
            unfold cellAt
            rw [hsub]
            simp only [List.getElem?_map, List.getElem?_take, hr', if_true, List.getElem?_drop]
            cases hWr : W[rs + r]? with
            | none => simp
            | some row => simp [hc']
          rw [e1, R.cell (rs + r) (cs + c) (by omega) (by omega)]
          congr 1
          simp only [Shape.offset, Nat.add_mul]; omega


theorem rel_chain (ops : List Op) {sh : Shape} {data : List α} {W : List (List α)} (R : Rel sh data W) :
    Rel (Shape.chain ops sh) data (specChain ops W) := by
  induction ops generalizing sh W with
  | nil => simpa [Shape.chain, specChain] using R
  | cons op ops ih =>
    simp only [Shape.chain, specChain, List.foldl_cons]
    apply ih
    cases op with
    | view rows cols => exact rel_view R rows cols
    | transpose => exact rel_transpose R

/-- every row of a window has the shape's width, there are `height` rows -/
theorem Rel.row_length {sh : Shape} {data : List α} {W : List (List α)} (R : Rel sh data W)
    (hne : sh.height * sh.width ≠ 0) : ∀ row ∈ W, row.length = sh.width := by
  intro row hr; rw [R.rect row hr, (R.dims hne).2]

theorem Rel.cell_none {sh : Shape} {data : List α} {W : List (List α)} (R : Rel sh data W)
    (r c : Nat) (h : ¬ (r < sh.height ∧ c < sh.width)) : cellAt W r c = none := by
  unfold cellAt
  cases hWr : W[r]? with
  | none => rfl
  | some row =>
    have hm : row ∈ W := List.mem_of_getElem? hWr
    have hrlt : r < W.length := (List.getElem?_eq_some_iff.mp hWr).1
    simp only [Option.bind_some]
    rcases Nat.eq_zero_or_pos (sh.height * sh.width) with hz | hpos
    · rw [R.empty hz row hm]; rfl
    · have hne : sh.height * sh.width ≠ 0 := by omega
      have hl := R.row_length hne row hm
      have hH := (R.dims hne).1
      apply List.getElem?_eq_none
      omega

theorem Rel.cell_some {sh : Shape} {data : List α} {W : List (List α)} (R : Rel sh data W)
    (r c : Nat) (hr : r < sh.height) (hc : c < sh.width) : ∃ x, cellAt W r c = some x := by
  have hne := nonempty_of_lt hr hc
  have hH := (R.dims hne).1
  have hrW : r < W.length := by omega
  have hl := R.row_length hne W[r] (List.getElem_mem hrW)
  refine ⟨W[r][c], ?_⟩
  unfold cellAt
  rw [List.getElem?_eq_getElem hrW]
  simp only [Option.bind_some]
  exact List.getElem?_eq_getElem (by omega)

theorem Rel.offset_lt {sh : Shape} {data : List α} {W : List (List α)} (R : Rel sh data W)
    (r c : Nat) (hr : r < sh.height) (hc : c < sh.width) : sh.offset r c < data.length := by
  obtain ⟨x, hx⟩ := R.cell_some r c hr hc
  rw [R.cell r c hr hc] at hx
  exact (List.getElem?_eq_some_iff.mp hx).1

theorem Rel.get_eq {sh : Shape} {data : List α} {W : List (List α)} (R : Rel sh data W) (r c : Nat) :
    (SurfModel.Shape.get sh data r c).map (·.2) = cellAt W r c := by
  unfold SurfModel.Shape.get
  by_cases h : r < sh.height ∧ c < sh.width
  · have hcond : (decide (r ≥ sh.height) || decide (c ≥ sh.width)) = false := by simp; omega
    rw [R.cell r c h.1 h.2]
    simp only [hcond]
    cases data[sh.offset r c]? <;> simp
  · have hcond : (decide (r ≥ sh.height) || decide (c ≥ sh.width)) = true := by simp; omega
    rw [R.cell_none r c h]; simp [hcond]

/-! ### strides -/
structure Strides (sh : Shape) : Prop where
  disj : sh.col_stride * sh.width ≤ sh.row_stride ∨ sh.row_stride * sh.height ≤ sh.col_stride
  pos : sh.height * sh.width ≠ 0 → 0 < sh.row_stride ∧ 0 < sh.col_stride

theorem strides_root (h w : Nat) : Strides (Shape.from h w) := by
  refine ⟨by simp [Shape.from], ?_⟩
  intro hne
  simp only [Shape.from] at hne ⊢
  have := pos_of_mul_ne hne; omega

theorem strides_transpose {sh : Shape} (S : Strides sh) : Strides sh.transpose := by
  refine ⟨?_, ?_⟩
  · simp only [Shape.transpose]; exact S.disj.symm
  · intro hne
    simp only [Shape.transpose] at hne ⊢
    have := S.pos (by rw [Nat.mul_comm]; exact hne); omega

theorem strides_view {sh : Shape} (S : Strides sh) (rows cols : Sel) : Strides (sh.view rows cols) := by
  cases hc : viewBounds cols sh.width with
  | none => simp only [Shape.view, hc]; exact ⟨by simp, by simp⟩
  | some cb =>
    obtain ⟨cs, ce⟩ := cb
    cases hr : viewBounds rows sh.height with
    | none => simp only [Shape.view, hc, hr]; exact ⟨by simp, by simp⟩
    | some rb =>
      obtain ⟨rs, re⟩ := rb
      have ⟨hc1, hc2⟩ := SurfProofs.C08.C08_range cols sh.width cs ce hc
      have ⟨hr1, hr2⟩ := SurfProofs.C08.C08_range rows sh.height rs re hr
      simp only [Shape.view, hc, hr]
      refine ⟨?_, ?_⟩
      · simp only
        rcases S.disj with d | d
        · left; exact Nat.le_trans (Nat.mul_le_mul_left _ (by omega)) d
        · right; exact Nat.le_trans (Nat.mul_le_mul_left _ (by omega)) d
      · intro _
        exact S.pos (nonempty_of_lt (r := rs) (c := cs) (by omega) (by omega))

theorem strides_chain (ops : List Op) {sh : Shape} (S : Strides sh) : Strides (Shape.chain ops sh) := by
  induction ops generalizing sh with
  | nil => simpa [Shape.chain] using S
  | cons op ops ih =>
    simp only [Shape.chain, List.foldl_cons]
    apply ih
    cases op with
    | view rows cols => exact strides_view S rows cols
    | transpose => exact strides_transpose S

theorem offset_inj_aux (rs cs w r1 c1 r2 c2 : Nat) (hcs : 0 < cs) (hinv : cs * w ≤ rs)
    (h1 : c1 < w) (h2 : c2 < w) (h : r1 * rs + c1 * cs = r2 * rs + c2 * cs) : r1 = r2 ∧ c1 = c2 := by
  have hc1 : c1 * cs < rs := by
    have := Nat.mul_lt_mul_of_pos_right h1 hcs
    rw [Nat.mul_comm w cs] at this; omega
  have hc2 : c2 * cs < rs := by
    have := Nat.mul_lt_mul_of_pos_right h2 hcs
    rw [Nat.mul_comm w cs] at this; omega
  have hr : r1 = r2 := by
    rcases Nat.lt_trichotomy r1 r2 with hlt | heq | hgt
    · exfalso
      have := Nat.mul_le_mul_right rs (show r1 + 1 ≤ r2 from hlt)
      rw [Nat.add_mul] at this; omega
    · exact heq
    · exfalso
      have := Nat.mul_le_mul_right rs (show r2 + 1 ≤ r1 from hgt)
      rw [Nat.add_mul] at this; omega
  subst hr
  exact ⟨rfl, Nat.eq_of_mul_eq_mul_right hcs (by omega)⟩

theorem Strides.offset_inj {sh : Shape} (S : Strides sh) (r1 c1 r2 c2 : Nat)
    (hr1 : r1 < sh.height) (hc1 : c1 < sh.width) (hr2 : r2 < sh.height) (hc2 : c2 < sh.width)
    (h : sh.offset r1 c1 = sh.offset r2 c2) : r1 = r2 ∧ c1 = c2 := by
  have ⟨hrs, hcs⟩ := S.pos (nonempty_of_lt hr1 hc1)
  simp only [Shape.offset] at h
  rcases S.disj with d | d
  · exact offset_inj_aux sh.row_stride sh.col_stride sh.width r1 c1 r2 c2 hcs d hc1 hc2 (by omega)
  · have := offset_inj_aux sh.col_stride sh.row_stride sh.height c1 r1 c2 r2 hrs d hr1 hr2 (by omega)
    exact ⟨this.2, this.1⟩

/-! ### `start`/`end` (only `Surface::is_empty` looks at them) -/
structure Ends (sh : Shape) : Prop where
  strides : Strides sh
  nonempty : sh.height * sh.width ≠ 0 → sh.start < sh.end_
  empty : sh.height * sh.width = 0 → sh.end_ ≤ sh.start

theorem ends_root (h w : Nat) : Ends (Shape.from h w) := by
  refine ⟨strides_root h w, ?_, ?_⟩ <;> simp only [Shape.from] <;> omega

theorem ends_transpose {sh : Shape} (E : Ends sh) : Ends sh.transpose := by
  refine ⟨strides_transpose E.strides, ?_, ?_⟩
  · intro hne; simp only [Shape.transpose] at hne ⊢; exact E.nonempty (by rw [Nat.mul_comm]; exact hne)
  · intro he; simp only [Shape.transpose] at he ⊢; exact E.empty (by rw [Nat.mul_comm]; exact he)

theorem ends_view {sh : Shape} (E : Ends sh) (rows cols : Sel) : Ends (sh.view rows cols) := by
  refine ⟨strides_view E.strides rows cols, ?_, ?_⟩
  · cases hc : viewBounds cols sh.width with
    | none => simp [Shape.view, hc]
    | some cb =>
      obtain ⟨cs, ce⟩ := cb
      cases hr : viewBounds rows sh.height with
      | none => simp [Shape.view, hc, hr]
      | some rb =>
        obtain ⟨rs, re⟩ := rb
        have ⟨hc1, hc2⟩ := SurfProofs.C08.C08_range cols sh.width cs ce hc
        have ⟨hr1, hr2⟩ := SurfProofs.C08.C08_range rows sh.height rs re hr
        have ⟨_, hcs⟩ := E.strides.pos (nonempty_of_lt (r := rs) (c := cs) (by omega) (by omega))
        intro _
        simp only [Shape.view, hc, hr, Shape.offset]
        have a := Nat.mul_le_mul_right sh.row_stride (show rs ≤ re - 1 by omega)
        have b := Nat.mul_lt_mul_of_pos_right hc1 hcs
        omega
  · cases hc : viewBounds cols sh.width with
    | none => simp [Shape.view, hc]
    | some cb =>
      obtain ⟨cs, ce⟩ := cb
      cases hr : viewBounds rows sh.height with
      | none => simp [Shape.view, hc, hr]
      | some rb =>
        obtain ⟨rs, re⟩ := rb
        have ⟨hc1, hc2⟩ := SurfProofs.C08.C08_range cols sh.width cs ce hc
        have ⟨hr1, hr2⟩ := SurfProofs.C08.C08_range rows sh.height rs re hr
        intro he
        simp only [Shape.view, hc, hr] at he
        have : 0 < (re - rs) * (ce - cs) := Nat.mul_pos (by omega) (by omega)
        omega

theorem ends_chain (ops : List Op) {sh : Shape} (E : Ends sh) :
    (Shape.chain ops sh).isEmpty = true ↔ (Shape.chain ops sh).height * (Shape.chain ops sh).width = 0 := by
  have : Ends (Shape.chain ops sh) := by
    induction ops generalizing sh with
    | nil => simpa [Shape.chain] using E
    | cons op ops ih =>
      simp only [Shape.chain, List.foldl_cons]
      apply ih
      cases op with
      | view rows cols => exact ends_view E rows cols
      | transpose => exact ends_transpose E
  simp only [Shape.isEmpty, decide_eq_true_eq]
  constructor
  · intro hge
    rcases Nat.eq_zero_or_pos ((Shape.chain ops sh).height * (Shape.chain ops sh).width) with hz | hp
    · exact hz
    · have := this.nonempty (by omega); omega
  · intro hz; exact this.empty hz

/-! ### a view never has more cells than its parent -/
theorem size_view (sh : Shape) (rows cols : Sel) :
    (sh.view rows cols).height * (sh.view rows cols).width ≤ sh.height * sh.width := by
  cases hc : viewBounds cols sh.width with
  | none => simp [Shape.view, hc]
  | some cb =>
    obtain ⟨cs, ce⟩ := cb
    cases hr : viewBounds rows sh.height with
    | none => simp [Shape.view, hc, hr]
    | some rb =>
      obtain ⟨rs, re⟩ := rb
      have ⟨hc1, hc2⟩ := SurfProofs.C08.C08_range cols sh.width cs ce hc
      have ⟨hr1, hr2⟩ := SurfProofs.C08.C08_range rows sh.height rs re hr
      simp only [Shape.view, hc, hr]
      exact Nat.mul_le_mul (by omega) (by omega)

theorem size_chain (ops : List Op) (sh : Shape) :
    (Shape.chain ops sh).height * (Shape.chain ops sh).width ≤ sh.height * sh.width := by
  induction ops generalizing sh with
  | nil => simp [Shape.chain]
  | cons op ops ih =>
    simp only [Shape.chain, List.foldl_cons]
    refine Nat.le_trans (ih _) ?_
    cases op with
    | view rows cols => exact size_view sh rows cols
    | transpose => simp only [Shape.apply, Shape.transpose]; rw [Nat.mul_comm]; exact Nat.le_refl _

end SurfProofs.Lemmas.Shape
