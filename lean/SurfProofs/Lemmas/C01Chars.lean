import SurfProofs.Lemmas.C01Row
/-!
C01, helper lemmas 3: the first pass on character-only surfaces (shadow normalisation only).
-/
namespace SurfProofs.C01
open SurfModel.Screen SurfModel.Renderer

/-- character-only surfaces of the domain: printable narrow / wide characters, wide ones fit -/
structure CharSurf (P : Params) (H W : Nat) (s : Surface) : Prop where
  chr : ∀ r c, r < H → c < W → ∃ ch, (s r c).kind = .chr ch ∧ (P.width ch = 1 ∨ P.width ch = 2)
  fit : ∀ r c, r < H → c < W → isWide P (s r c) = true → c + 1 < W

/-- the front surface after the first pass, for character-only surfaces -/
def normSurf (P : Params) (s : Surface) : Surface :=
  fun r c => if shadowed P s r c then nulCell else s r c

structure P1Inv (P : Params) (st : State) (s : Surface) (r c : Nat) (x : P1) : Prop where
  marks : x.marks = st.marks
  cmds : x.cmds = []
  images : x.images = []
  front : ∀ r' c', x.front r' c' = if (r' < r ∨ (r' = r ∧ c' < c)) ∧ c' < st.w then normSurf P s r' c' else s r' c'
  sh1 : shadowed P s r c = true ↔ (x.shadow.1 = r ∧ c < x.shadow.2)
  sh2 : x.shadow.1 = r → x.shadow.2 ≤ c + 1
  shr : x.shadow.1 ≤ r

theorem step1_chars (P : Params) (hP : ParamsOk P) (st : State) (s : Surface)
    (hs : CharSurf P st.h st.w s) (hb : ∀ r c, r < st.h → c < st.w → ∃ ch, (st.back r c).kind = .chr ch)
    (hm : ∀ r c, st.marks r c ≠ .ignored)
    (r c : Nat) (hr : r < st.h) (hc : c < st.w) (x : P1) (hx : P1Inv P st s r c x) :
    P1Inv P st s r (c + 1) (step1 P st.back x r c) := by
  obtain ⟨ch, hk, hwd⟩ := hs.chr r c hr hc
  obtain ⟨cho, hko⟩ := hb r c hr hc
  have hfr : x.front r c = s r c := by
    rw [hx.front r c]; simp
  have hmk : x.marks r c ≠ .ignored := by rw [hx.marks]; exact hm r c
  by_cases hsh : r = x.shadow.1 ∧ c < x.shadow.2
  · -- covered by a wide character
    have hshd : shadowed P s r c = true := hx.sh1.2 ⟨hsh.1.symm, hsh.2⟩
    have hn : normalise P x r c = (nulCell, x.shadow) := by simp [normalise, hsh]
    have hcell : rasterise P nulCell = nulCell := by simp [rasterise, nulCell]
    have key : step1 P st.back x r c = { x with front := setSurf x.front r c nulCell } := by
      unfold step1
      simp only [hn, hcell]
      split
      · simp [nulCell]
      · simp [nulCell, hko]
    rw [key]
    refine ⟨hx.marks, hx.cmds, hx.images, ?_, ?_, ?_, ?_⟩
    · intro r' c'
      simp only [setSurf]
      by_cases h1 : r' = r ∧ c' = c
      · obtain ⟨rfl, rfl⟩ := h1
        have : (r' < r' ∨ r' = r' ∧ c' < c' + 1) ∧ c' < st.w := ⟨Or.inr ⟨rfl, by omega⟩, hc⟩
        simp [this, normSurf, hshd]
      · rw [if_neg h1, hx.front r' c']
        have : ((r' < r ∨ r' = r ∧ c' < c) ∧ c' < st.w) ↔ ((r' < r ∨ r' = r ∧ c' < c + 1) ∧ c' < st.w) := by
          constructor
          · rintro ⟨h | h, h2⟩
            · exact ⟨Or.inl h, h2⟩
            · exact ⟨Or.inr ⟨h.1, by omega⟩, h2⟩
          · rintro ⟨h | h, h2⟩
            · exact ⟨Or.inl h, h2⟩
            · refine ⟨Or.inr ⟨h.1, ?_⟩, h2⟩
              have : c' ≠ c := fun e => h1 ⟨h.1, e⟩
              omega
        simp only [this]
    · simp only [shadowed, hshd, Bool.not_true, Bool.and_false]
      constructor
      · intro h; cases h
      · rintro ⟨h1, h2⟩
        have h1' : x.shadow.1 = r := h1
        have h2' : c + 1 < x.shadow.2 := h2
        have := hx.sh2 h1'
        omega
    · intro h; have h' : x.shadow.1 = r := h; have := hx.sh2 h'; show x.shadow.2 ≤ c + 1 + 1; omega
    · exact hx.shr
  · have hshd : shadowed P s r c = false := by
      cases h : shadowed P s r c
      · rfl
      · exact absurd (hx.sh1.1 h) (fun h' => hsh ⟨h'.1.symm, h'.2⟩)
    by_cases hwide : P.width ch > 1
    · have hn : normalise P x r c = (s r c, (r, c + P.width ch)) := by
        simp [normalise, hsh, hmk, hfr, hk, hwide]
      have hcell : rasterise P (s r c) = s r c := by simp [rasterise, hk]
      have key : step1 P st.back x r c =
          { x with front := setSurf x.front r c (s r c), shadow := (r, c + P.width ch) } := by
        unfold step1
        simp only [hn, hcell]
        split
        · simp [hk]
        · simp [hk, hko]
      rw [key]
      have hw2 : P.width ch = 2 := by omega
      refine ⟨hx.marks, hx.cmds, hx.images, ?_, ?_, ?_, ?_⟩
      · intro r' c'
        simp only [setSurf]
        by_cases h1 : r' = r ∧ c' = c
        · obtain ⟨rfl, rfl⟩ := h1
          have : (r' < r' ∨ r' = r' ∧ c' < c' + 1) ∧ c' < st.w := ⟨Or.inr ⟨rfl, by omega⟩, hc⟩
          simp [this, normSurf, hshd]
        · rw [if_neg h1, hx.front r' c']
          have : ((r' < r ∨ r' = r ∧ c' < c) ∧ c' < st.w) ↔ ((r' < r ∨ r' = r ∧ c' < c + 1) ∧ c' < st.w) := by
            constructor
            · rintro ⟨h | h, h2⟩
              · exact ⟨Or.inl h, h2⟩
              · exact ⟨Or.inr ⟨h.1, by omega⟩, h2⟩
            · rintro ⟨h | h, h2⟩
              · exact ⟨Or.inl h, h2⟩
              · refine ⟨Or.inr ⟨h.1, ?_⟩, h2⟩
                have : c' ≠ c := fun e => h1 ⟨h.1, e⟩
                omega
          simp only [this]
      · have : isWide P (s r c) = true := by simp [isWide, hk]; omega
        simp only [shadowed, this, hshd, Bool.not_false, Bool.and_self, true_iff]
        exact ⟨trivial, by omega⟩
      · intro _; simp only; omega
      · exact Nat.le_refl r
    · have hn : normalise P x r c = (s r c, x.shadow) := by
        simp [normalise, hsh, hmk, hfr, hk, hwide]
      have hcell : rasterise P (s r c) = s r c := by simp [rasterise, hk]
      have key : step1 P st.back x r c = { x with front := setSurf x.front r c (s r c) } := by
        unfold step1
        simp only [hn, hcell]
        split
        · simp [hk]
        · simp [hk, hko]
      rw [key]
      refine ⟨hx.marks, hx.cmds, hx.images, ?_, ?_, ?_, ?_⟩
      · intro r' c'
        simp only [setSurf]
        by_cases h1 : r' = r ∧ c' = c
        · obtain ⟨rfl, rfl⟩ := h1
          have : (r' < r' ∨ r' = r' ∧ c' < c' + 1) ∧ c' < st.w := ⟨Or.inr ⟨rfl, by omega⟩, hc⟩
          simp [this, normSurf, hshd]
        · rw [if_neg h1, hx.front r' c']
          have : ((r' < r ∨ r' = r ∧ c' < c) ∧ c' < st.w) ↔ ((r' < r ∨ r' = r ∧ c' < c + 1) ∧ c' < st.w) := by
            constructor
            · rintro ⟨h | h, h2⟩
              · exact ⟨Or.inl h, h2⟩
              · exact ⟨Or.inr ⟨h.1, by omega⟩, h2⟩
            · rintro ⟨h | h, h2⟩
              · exact ⟨Or.inl h, h2⟩
              · refine ⟨Or.inr ⟨h.1, ?_⟩, h2⟩
                have : c' ≠ c := fun e => h1 ⟨h.1, e⟩
                omega
          simp only [this]
      · have : isWide P (s r c) = false := by simp [isWide, hk]; omega
        simp only [shadowed, this, Bool.false_and]
        constructor
        · intro h; cases h
        · rintro ⟨h1, h2⟩
          have h1' : x.shadow.1 = r := h1
          have h2' : c + 1 < x.shadow.2 := h2
          exfalso
          apply hsh
          exact ⟨h1'.symm, by omega⟩
      · intro h; have h' : x.shadow.1 = r := h; have := hx.sh2 h'; show x.shadow.2 ≤ c + 1 + 1; omega
      · exact hx.shr

theorem pass1Row_chars (P : Params) (hP : ParamsOk P) (st : State) (s : Surface)
    (hs : CharSurf P st.h st.w s) (hb : ∀ r c, r < st.h → c < st.w → ∃ ch, (st.back r c).kind = .chr ch)
    (hm : ∀ r c, st.marks r c ≠ .ignored)
    (r : Nat) (hr : r < st.h) (x : P1) (hx : P1Inv P st s r 0 x) :
    P1Inv P st s (r + 1) 0 (pass1Row P st.back st.w x r) := by
  have key : ∀ n, n ≤ st.w →
      P1Inv P st s r n ((List.range n).foldl (fun x c => step1 P st.back x r c) x) := by
    intro n
    induction n with
    | zero => intro _; simpa using hx
    | succ n ih =>
      intro hn
      rw [List.range_succ, List.foldl_append]
      exact step1_chars P hP st s hs hb hm r n hr (by omega) _ (ih (by omega))
  have h := key st.w (Nat.le_refl _)
  unfold pass1Row
  generalize (List.range st.w).foldl (fun x c => step1 P st.back x r c) x = y at h ⊢
  refine ⟨h.marks, h.cmds, h.images, ?_, ?_, ?_, ?_⟩
  · intro r' c'
    rw [h.front r' c']
    have : ((r' < r ∨ r' = r ∧ c' < st.w) ∧ c' < st.w) ↔ ((r' < r + 1 ∨ r' = r + 1 ∧ c' < 0) ∧ c' < st.w) := by
      constructor
      · rintro ⟨h1 | h1, h2⟩
        · exact ⟨Or.inl (by omega), h2⟩
        · exact ⟨Or.inl (by omega), h2⟩
      · rintro ⟨h1 | h1, h2⟩
        · by_cases e : r' = r
          · exact ⟨Or.inr ⟨e, h2⟩, h2⟩
          · exact ⟨Or.inl (by omega), h2⟩
        · omega
    simp only [this]
  · have := h.shr
    simp only [shadowed]
    constructor
    · intro h'; cases h'
    · rintro ⟨h1, _⟩; omega
  · intro h1; have := h.shr; omega
  · have := h.shr; omega

theorem pass1_chars (P : Params) (hP : ParamsOk P) (st : State) (s : Surface)
    (hs : CharSurf P st.h st.w s) (hb : ∀ r c, r < st.h → c < st.w → ∃ ch, (st.back r c).kind = .chr ch)
    (hm : ∀ r c, st.marks r c ≠ .ignored) :
    (pass1 P st s).marks = st.marks ∧ (pass1 P st s).cmds = [] ∧ (pass1 P st s).images = [] ∧
    ∀ r c, r < st.h → c < st.w → (pass1 P st s).front r c = normSurf P s r c := by
  have key : ∀ n, n ≤ st.h →
      P1Inv P st s n 0 ((List.range n).foldl (pass1Row P st.back st.w)
        { front := s, marks := st.marks, shadow := (0, 0), cmds := [], images := [] }) := by
    intro n
    induction n with
    | zero =>
      intro _
      simp only [List.range_zero, List.foldl_nil]
      refine ⟨rfl, rfl, rfl, ?_, ?_, ?_, ?_⟩
      · intro r' c'
        have : ¬ ((r' < 0 ∨ r' = 0 ∧ c' < 0) ∧ c' < st.w) := by omega
        simp [this]
      · simp [shadowed]
      · intro _; simp
      · simp
    | succ n ih =>
      intro hn
      rw [List.range_succ, List.foldl_append]
      exact pass1Row_chars P hP st s hs hb hm n (by omega) _ (ih (by omega))
  have h := key st.h (Nat.le_refl _)
  unfold pass1
  generalize (List.range st.h).foldl (pass1Row P st.back st.w)
    { front := s, marks := st.marks, shadow := (0, 0), cmds := [], images := [] } = y at h ⊢
  refine ⟨h.marks, h.cmds, h.images, ?_⟩
  intro r c hr hc
  rw [h.front r c]
  have : (r < st.h ∨ r = st.h ∧ c < 0) ∧ c < st.w := ⟨Or.inl hr, hc⟩
  rw [if_pos this]

end SurfProofs.C01
