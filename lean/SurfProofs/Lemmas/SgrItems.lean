import SurfProofs.Lemmas.SgrSem
/-! The well-formed SGR items and their `ItemOk` certificates. -/
namespace SurfProofs.Lemmas.SgrSem
open SurfModel.Vt SurfModel.Sgr SurfProofs.Lemmas.Vt SurfProofs.Lemmas.Sgr

/-! ### how the view reacts to one field of the record -/

theorem view_reset (f : DFace) : view { reset := true } f = Attr.default := by
  simp [view, apply, attrOfDFace, Attr.default, setFlag]

theorem view_bold (fm : FMod) (f : DFace) (b : Bool) :
    view { fm with bold := some b } f = { view fm f with bold := b } := by
  obtain ⟨reset, fg, bg, ul, ulc, bo, it, bl, st⟩ := fm
  cases reset <;> cases fg <;> cases bg <;> (rcases ul with _ | _ | _) <;>
    simp [view, apply, attrOfDFace, setFlag]
theorem view_italic (fm : FMod) (f : DFace) (b : Bool) :
    view { fm with italic := some b } f = { view fm f with italic := b } := by
  obtain ⟨reset, fg, bg, ul, ulc, bo, it, bl, st⟩ := fm
  cases reset <;> cases fg <;> cases bg <;> (rcases ul with _ | _ | _) <;>
    simp [view, apply, attrOfDFace, setFlag]
theorem view_blink (fm : FMod) (f : DFace) (b : Bool) :
    view { fm with blink := some b } f = { view fm f with blink := b } := by
  obtain ⟨reset, fg, bg, ul, ulc, bo, it, bl, st⟩ := fm
  cases reset <;> cases fg <;> cases bg <;> (rcases ul with _ | _ | _) <;>
    simp [view, apply, attrOfDFace, setFlag]
theorem view_strike (fm : FMod) (f : DFace) (b : Bool) :
    view { fm with strike := some b } f = { view fm f with strike := b } := by
  obtain ⟨reset, fg, bg, ul, ulc, bo, it, bl, st⟩ := fm
  cases reset <;> cases fg <;> cases bg <;> (rcases ul with _ | _ | _) <;>
    simp [view, apply, attrOfDFace, setFlag]

theorem view_underline (fm : FMod) (f : DFace) (k : Nat) :
    view { fm with underline := some k } f = { view fm f with under := k } := by
  obtain ⟨reset, fg, bg, ul, ulc, bo, it, bl, st⟩ := fm
  cases reset <;> cases fg <;> cases bg <;> (rcases ul with _ | _ | _) <;> cases k <;>
    simp [view, apply, attrOfDFace, setFlag]

theorem view_fg (fm : FMod) (f : DFace) (c : Rgba) :
    view { fm with fg := some c } f = { view fm f with fg := some (.inl (c.r, c.g, c.b)) } := by
  obtain ⟨reset, fg, bg, ul, ulc, bo, it, bl, st⟩ := fm
  cases reset <;> cases fg <;> cases bg <;> (rcases ul with _ | _ | _) <;>
    simp [view, apply, attrOfDFace, setFlag]
theorem view_bg (fm : FMod) (f : DFace) (c : Rgba) :
    view { fm with bg := some c } f = { view fm f with bg := some (.inl (c.r, c.g, c.b)) } := by
  obtain ⟨reset, fg, bg, ul, ulc, bo, it, bl, st⟩ := fm
  cases reset <;> cases fg <;> cases bg <;> (rcases ul with _ | _ | _) <;>
    simp [view, apply, attrOfDFace, setFlag]
theorem view_ulc (fm : FMod) (f : DFace) (c : Option Rgba) :
    view { fm with underlineColor := c } f = view fm f := by
  obtain ⟨reset, fg, bg, ul, ulc, bo, it, bl, st⟩ := fm
  cases reset <;> cases fg <;> cases bg <;> (rcases ul with _ | _ | _) <;>
    simp [view, apply, attrOfDFace, setFlag]

/-! ### single-group items with a fixed spelling -/

/-- certificate for an item that is one literal group -/
theorem ok_single (g : List Nat) (p : List (Option Nat)) (op : SgrOp) (upd : FMod → FMod)
    (hg : PB g) (hp : chunkP g = some p)
    (hs : ∀ rest, sgrSem (p :: rest) = op :: sgrSem rest)
    (hd : ∀ fm rest, sgrFaceStep fm g rest = (upd fm, rest))
    (hh : ∀ fm a f, normAttr a = view fm f → normAttr (applySgr a op) = view (upd fm) f) :
    ItemOk ⟨[g], [p], [op], upd⟩ where
  good := Good.single hg
  ne := by simp
  par := by simp [hp]
  closed := by intro rest; simp [hs]
  dclosed := DClosed.single g upd hd
  hom := by intro fm a f h; simpa using hh fm a f h

theorem empty_step (fm : FMod) (rest : List (List Nat)) : sgrFaceStep fm [] rest = ({ reset := true }, rest) := by
  have n : numberDecode [] = some 0 := by decide
  have s : splitBy 58 [] = [[]] := by decide
  simp [sgrFaceStep, n, s]

theorem dbl_step (fm : FMod) (rest : List (List Nat)) :
    sgrFaceStep fm [50, 49] rest = ({ fm with underline := some 2 }, rest) := by
  have n : numberDecode [50, 49] = some 21 := by decide
  have s : splitBy 58 [50, 49] = [[50, 49]] := by decide
  simp [sgrFaceStep, n, s]

theorem uloff_step (fm : FMod) (rest : List (List Nat)) :
    sgrFaceStep fm [50, 52] rest = ({ fm with underline := some 0 }, rest) := by
  have n : numberDecode [50, 52] = some 24 := by decide
  have s : splitBy 58 [50, 52] = [[50, 52]] := by decide
  simp [sgrFaceStep, n, s]

theorem ul_step (fm : FMod) (rest : List (List Nat)) :
    sgrFaceStep fm [52] rest = ({ fm with underline := some 1 }, rest) := by
  have n : numberDecode [52] = some 4 := by decide
  have s : splitBy 58 [52] = [[52]] := by decide
  simp [sgrFaceStep, n, s, nextNum]

/-- `4:k` for k = 0 … 5 -/
theorem ulk_step (fm : FMod) (rest : List (List Nat)) (k : Nat) (hk : k ≤ 5) :
    sgrFaceStep fm [52, 58, 48 + k] rest = ({ fm with underline := some k }, rest) := by
  have n : numberDecode [52] = some 4 := by decide
  rcases k with _ | _ | _ | _ | _ | _ | k
  · have s : splitBy 58 [52, 58, 48] = [[52], [48]] := by decide
    have d : numberDecode [48] = some 0 := by decide
    simp [sgrFaceStep, n, s, d, nextNum]
  · have s : splitBy 58 [52, 58, 49] = [[52], [49]] := by decide
    have d : numberDecode [49] = some 1 := by decide
    simp [sgrFaceStep, n, s, d, nextNum]
  · have s : splitBy 58 [52, 58, 50] = [[52], [50]] := by decide
    have d : numberDecode [50] = some 2 := by decide
    simp [sgrFaceStep, n, s, d, nextNum]
  · have s : splitBy 58 [52, 58, 51] = [[52], [51]] := by decide
    have d : numberDecode [51] = some 3 := by decide
    simp [sgrFaceStep, n, s, d, nextNum]
  · have s : splitBy 58 [52, 58, 52] = [[52], [52]] := by decide
    have d : numberDecode [52] = some 4 := by decide
    simp [sgrFaceStep, n, s, d, nextNum]
  · have s : splitBy 58 [52, 58, 53] = [[52], [53]] := by decide
    have d : numberDecode [53] = some 5 := by decide
    simp [sgrFaceStep, n, s, d, nextNum]
  · omega

/-- items: reset (`0` and the empty parameter), the eight on/off attributes, underline forms -/
inductive Simple where
  | reset0 | resetEmpty | bold | boldOff | italic | italicOff | blink | blinkOff | strike | strikeOff
  | ul | ulDouble | ulOff | ulStyle (k : Nat)

def Simple.spec : Simple → ItemSpec
  | .reset0 => ⟨[[48]], [[some 0]], [.reset], fun _ => { reset := true }⟩
  | .resetEmpty => ⟨[[]], [[none]], [.reset], fun _ => { reset := true }⟩
  | .bold => ⟨[[49]], [[some 1]], [.bold], fun fm => { fm with bold := some true }⟩
  | .boldOff => ⟨[[50, 50]], [[some 22]], [.normalIntensity], fun fm => { fm with bold := some false }⟩
  | .italic => ⟨[[51]], [[some 3]], [.italic], fun fm => { fm with italic := some true }⟩
  | .italicOff => ⟨[[50, 51]], [[some 23]], [.noItalic], fun fm => { fm with italic := some false }⟩
  | .blink => ⟨[[53]], [[some 5]], [.blink], fun fm => { fm with blink := some true }⟩
  | .blinkOff => ⟨[[50, 53]], [[some 25]], [.noBlink], fun fm => { fm with blink := some false }⟩
  | .strike => ⟨[[57]], [[some 9]], [.strike], fun fm => { fm with strike := some true }⟩
  | .strikeOff => ⟨[[50, 57]], [[some 29]], [.noStrike], fun fm => { fm with strike := some false }⟩
  | .ul => ⟨[[52]], [[some 4]], [.underline 1], fun fm => { fm with underline := some 1 }⟩
  | .ulDouble => ⟨[[50, 49]], [[some 21]], [.underline 2], fun fm => { fm with underline := some 2 }⟩
  | .ulOff => ⟨[[50, 52]], [[some 24]], [.underline 0], fun fm => { fm with underline := some 0 }⟩
  | .ulStyle k => ⟨[[52, 58, 48 + k]], [[some 4, some k]], [.underline k], fun fm => { fm with underline := some k }⟩

def Simple.ok : Simple → Prop
  | .ulStyle k => k ≤ 5
  | _ => True

theorem hom_set {a : Attr} {fm : FMod} {f : DFace} (h : normAttr a = view fm f) (a' : Attr) (v' : Attr)
    (h1 : normAttr a' = v') : True := trivial

theorem Simple.spec_ok (s : Simple) (h : s.ok) : ItemOk s.spec := by
  cases s with
  | reset0 =>
    exact ok_single _ _ _ _ (pb_lit _ (by decide)) (by decide) (by intro rest; simp [sgrSem])
      (fun fm rest => reset_step fm rest)
      (by intro fm a f _; rw [view_reset]; rfl)
  | resetEmpty =>
    exact ok_single _ _ _ _ (pb_lit _ (by decide)) (by decide) (by intro rest; simp [sgrSem])
      (fun fm rest => empty_step fm rest)
      (by intro fm a f _; rw [view_reset]; rfl)
  | bold =>
    exact ok_single _ _ _ _ (pb_lit _ (by decide)) (by decide) (by intro rest; simp [sgrSem]) bold_on
      (by intro fm a f hr; rw [view_bold, ← hr]; rfl)
  | boldOff =>
    exact ok_single _ _ _ _ (pb_lit _ (by decide)) (by decide) (by intro rest; simp [sgrSem]) bold_off
      (by intro fm a f hr; rw [view_bold, ← hr]; rfl)
  | italic =>
    exact ok_single _ _ _ _ (pb_lit _ (by decide)) (by decide) (by intro rest; simp [sgrSem]) italic_on
      (by intro fm a f hr; rw [view_italic, ← hr]; rfl)
  | italicOff =>
    exact ok_single _ _ _ _ (pb_lit _ (by decide)) (by decide) (by intro rest; simp [sgrSem]) italic_off
      (by intro fm a f hr; rw [view_italic, ← hr]; rfl)
  | blink =>
    exact ok_single _ _ _ _ (pb_lit _ (by decide)) (by decide) (by intro rest; simp [sgrSem]) blink_on
      (by intro fm a f hr; rw [view_blink, ← hr]; rfl)
  | blinkOff =>
    exact ok_single _ _ _ _ (pb_lit _ (by decide)) (by decide) (by intro rest; simp [sgrSem]) blink_off
      (by intro fm a f hr; rw [view_blink, ← hr]; rfl)
  | strike =>
    exact ok_single _ _ _ _ (pb_lit _ (by decide)) (by decide) (by intro rest; simp [sgrSem]) strike_on
      (by intro fm a f hr; rw [view_strike, ← hr]; rfl)
  | strikeOff =>
    exact ok_single _ _ _ _ (pb_lit _ (by decide)) (by decide) (by intro rest; simp [sgrSem]) strike_off
      (by intro fm a f hr; rw [view_strike, ← hr]; rfl)
  | ul =>
    exact ok_single _ _ _ _ (pb_lit _ (by decide)) (by decide) (by intro rest; simp [sgrSem]) ul_step
      (by intro fm a f hr; rw [view_underline, ← hr]; rfl)
  | ulDouble =>
    exact ok_single _ _ _ _ (pb_lit _ (by decide)) (by decide) (by intro rest; simp [sgrSem]) dbl_step
      (by intro fm a f hr; rw [view_underline, ← hr]; rfl)
  | ulOff =>
    exact ok_single _ _ _ _ (pb_lit _ (by decide)) (by decide) (by intro rest; simp [sgrSem]) uloff_step
      (by intro fm a f hr; rw [view_underline, ← hr]; rfl)
  | ulStyle k =>
    have hk : k ≤ 5 := h
    refine ok_single _ _ _ _ ?_ ?_ ?_ (fun fm rest => ulk_step fm rest k hk)
      (by intro fm a f hr; rw [view_underline, ← hr]; rfl)
    · intro b hb; simp at hb; omega
    · rcases k with _ | _ | _ | _ | _ | _ | k <;> first | decide | omega
    · intro rest; simp [sgrSem, hk]

end SurfProofs.Lemmas.SgrSem
