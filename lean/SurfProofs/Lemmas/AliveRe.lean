import SurfProofs.Lemmas.AliveNFA
namespace SurfProofs.Alive
open SurfModel.Automata SurfProofs.Graph SurfProofs.NFASem SurfProofs.NFAGraph SurfProofs.NFALang SurfProofs.ReMatch
open SurfProofs.ToNFA SurfProofs.Tags

/-! ### which tags a prefix has completed: the definition on expressions -/

/-- `e.Alive w t`: after reading `w`, tag `t` is reported — some sub-expression `tag t e'` of `e` is in a
    position where `w` can end exactly at the end of `e'`: the expressions before it (in sequences) have
    matched, loops around it have gone round any number of times, and `e'` has matched the rest -/
inductive Alive : Re → List UInt8 → Nat → Prop
  | tagHere {t e w} : e.Matches w → Alive (.tag t e) w t
  | tagIn {t e w t'} : Alive e w t' → Alive (.tag t e) w t'
  | seq {pre e post u v t} : (Re.seq pre).Matches u → Alive e v t → Alive (.seq (pre ++ e :: post)) (u ++ v) t
  | alt {e es w t} : e ∈ es → Alive e w t → Alive (.alt es) w t
  | opt {e w t} : Alive e w t → Alive (.opt e) w t
  | plus {e u v t} : (u = [] ∨ (Re.plus e).Matches u) → Alive e v t → Alive (.plus e) (u ++ v) t
  | star {e u v t} : (Re.star e).Matches u → Alive e v t → Alive (.star e) (u ++ v) t

mutual
/-- the tag sitting on the stop state of the automaton of an expression (`tag_stop_state` would overwrite it) -/
def stopTag : Re → Option Nat
  | .seq es => stopTagLast es
  | .plus e => stopTag e
  | .tag t _ => some t
  | .lit _ => none
  | .pred _ => none
  | .alt _ => none
  | .opt _ => none
  | .star _ => none
  | .empty => none
  | .nothing => none
def stopTagLast : List Re → Option Nat
  | [] => none
  | e :: [] => stopTag e
  | _ :: e' :: es => stopTagLast (e' :: es)
end

/-- no `tag_stop_state` lands on a state that already carries a tag -/
inductive NoRetag : Re → Prop
  | lit (s) : NoRetag (.lit s)
  | pred (rs) : NoRetag (.pred rs)
  | seq {es} : (∀ e ∈ es, NoRetag e) → NoRetag (.seq es)
  | alt {es} : (∀ e ∈ es, NoRetag e) → NoRetag (.alt es)
  | opt {e} : NoRetag e → NoRetag (.opt e)
  | plus {e} : NoRetag e → NoRetag (.plus e)
  | star {e} : NoRetag e → NoRetag (.star e)
  | empty : NoRetag .empty
  | nothing : NoRetag .nothing
  | tag {t e} : NoRetag e → stopTag e = none → NoRetag (.tag t e)

theorem stopTagLast_eq (e : Re) (es : List Re) : stopTagLast (e :: es) = stopTag ((e :: es)[es.length]'(by simp)) := by
  induction es generalizing e with
  | nil => simp [stopTagLast]
  | cons e' es ih => simp only [stopTagLast]; rw [ih e']; simp

/-- the stop state carries no tag when `stopTag` says so -/
theorem stop_untagged (e : Re) : stopTag e = none → tagAt e.toNFA.states e.toNFA.stop = none := by
  induction e using Re.induct' with
  | lit s => intro _; rw [Re.toNFA]; exact strStates_noTags s 0 _
  | pred rs => intro _; rw [Re.toNFA]; simp [NFA.predicate, tagAt, NState.new]
  | seq es ih =>
    intro h
    rw [Re.toNFA, toNFAs_eq]
    cases es with
    | nil =>
      have : NFA.sequence [] = NFA.empty := rfl
      simp only [List.map_nil, this]; simp [NFA.empty, tagAt, NState.new]
    | cons e es =>
      simp only [stopTag] at h
      rw [stopTagLast_eq] at h
      simp only [List.map_cons]
      rw [sequence_eq]
      simp only
      have hlen : (es.map Re.toNFA).length = es.length := by simp
      have hn : (e.toNFA :: es.map Re.toNFA)[es.length]? = some ((e :: es)[es.length]'(by simp)).toNFA := by
        rw [← List.map_cons, List.getElem?_map, List.getElem?_eq_getElem (by simp)]; rfl
      rw [hlen, spOf_eq 0 _ _ _ hn]
      have hwf := (toNFA_spec ((e :: es)[es.length]'(by simp))).1
      have := tagAt_assemble_blk [] (e.toNFA :: es.map Re.toNFA)
        (NFA.bridges (NFA.mergeStates (e.toNFA :: es.map Re.toNFA) 0).2) es.length _ hn _ hwf.stop
      simp only [List.length_nil] at this
      rw [this]
      exact ih _ (List.getElem_mem _) h
  | alt es ih =>
    intro _
    rw [Re.toNFA, toNFAs_eq]
    cases hes : es.map Re.toNFA with
    | nil =>
      have : NFA.choice [] = NFA.nothing := rfl
      rw [this]; simp [NFA.nothing, tagAt, NState.new]
    | cons m rest =>
      rw [choice_eq]
      simp only
      rw [tagAt_assemble_pre _ _ _ 1 (by simp)]
      simp [tagAt, NState.new]
  | opt e ih =>
    intro _
    rw [Re.toNFA]
    unfold NFA.optional
    rw [choice_eq]
    simp only
    rw [tagAt_assemble_pre _ _ _ 1 (by simp)]
    simp [tagAt, NState.new]
  | plus e ih =>
    intro h
    simp only [stopTag] at h
    rw [Re.toNFA]
    simp only [NFA.some, tagAt_addEps]
    exact ih h
  | star e ih =>
    intro _
    rw [Re.toNFA, many_eq]
    simp only
    rw [tagAt_assemble_pre _ _ _ 1 (by simp)]
    simp [tagAt, NState.new]
  | empty => intro _; rw [Re.toNFA]; simp [NFA.empty, tagAt, NState.new]
  | nothing => intro _; rw [Re.toNFA]; simp [NFA.nothing, tagAt, NState.new]
  | tag t e ih => intro h; simp [stopTag] at h


theorem map_wf (es : List Re) : ∀ n ∈ es.map Re.toNFA, WF n := by
  intro n hn
  obtain ⟨e, _, rfl⟩ := List.mem_map.mp hn
  exact (toNFA_spec e).1

/-- the tags the automaton of an expression has alive after `w` are those the expression has completed -/
theorem alive_spec (e : Re) : NoRetag e → ∀ w t, TagReach e.toNFA w t ↔ Alive e w t := by
  induction e using Re.induct' with
  | lit s =>
    intro _ w t
    constructor
    · intro h; exact absurd h (noTags_tagReach (toNFA_noTags _ (TagFree.lit s)) w t)
    · intro h; cases h
  | pred rs =>
    intro _ w t
    constructor
    · intro h; exact absurd h (noTags_tagReach (toNFA_noTags _ (TagFree.pred rs)) w t)
    · intro h; cases h
  | empty =>
    intro _ w t
    constructor
    · intro h; exact absurd h (noTags_tagReach (toNFA_noTags _ TagFree.empty) w t)
    · intro h; cases h
  | nothing =>
    intro _ w t
    constructor
    · intro h; exact absurd h (noTags_tagReach (toNFA_noTags _ TagFree.nothing) w t)
    · intro h; cases h
  | seq es ih =>
    intro hnr w t
    cases hnr with
    | seq hnr =>
    rw [Re.toNFA, toNFAs_eq, sequence_tagReach _ (map_wf es)]
    constructor
    · rintro ⟨i, n, hn, u, v, rfl, hu, hv⟩
      rw [List.getElem?_map] at hn
      cases hi : es[i]? with
      | none => simp [hi] at hn
      | some e' =>
        simp [hi] at hn; subst hn
        have hlt : i < es.length := by
          rcases Nat.lt_or_ge i es.length with h | h
          · exact h
          · rw [List.getElem?_eq_none h] at hi; cases hi
        have he' : e' = es[i] := by rw [List.getElem?_eq_getElem hlt] at hi; exact (Option.some.inj hi).symm
        have hmem : e' ∈ es := List.mem_of_getElem? hi
        have hes : es.take i ++ e' :: es.drop (i + 1) = es := by
          rw [he', List.getElem_cons_drop, List.take_append_drop]
        rw [← List.map_take] at hu
        have hm := (seqLang_iff (es.take i) (fun e _ => (toNFA_spec e).2) u).mp hu
        have := Alive.seq (post := es.drop (i + 1)) hm ((ih e' hmem (hnr e' hmem) v t).mp hv)
        rw [hes] at this
        exact this
    · intro h
      generalize hx : Re.seq es = x at h
      cases h with
      | tagHere _ => cases hx
      | tagIn _ => cases hx
      | alt _ _ => cases hx
      | opt _ => cases hx
      | plus _ _ => cases hx
      | star _ _ => cases hx
      | @seq pre e post u v t hm ha =>
        cases hx
        have hmem : e ∈ pre ++ e :: post := by simp
        refine ⟨pre.length, e.toNFA, by simp, u, v, rfl, ?_, (ih e hmem (hnr e hmem) v t).mpr ha⟩
        rw [← List.map_take]
        simp only [List.take_left']
        exact (seqLang_iff pre (fun e _ => (toNFA_spec e).2) u).mpr hm
  | alt es ih =>
    intro hnr w t
    cases hnr with
    | alt hnr =>
    rw [Re.toNFA, toNFAs_eq, choice_tagReach _ (map_wf es)]
    constructor
    · rintro ⟨n, hn, h⟩
      obtain ⟨e, he, rfl⟩ := List.mem_map.mp hn
      exact Alive.alt he ((ih e he (hnr e he) w t).mp h)
    · intro h
      generalize hx : Re.alt es = x at h
      cases h with
      | tagHere _ => cases hx
      | tagIn _ => cases hx
      | seq _ _ => cases hx
      | opt _ => cases hx
      | plus _ _ => cases hx
      | star _ _ => cases hx
      | @alt e es' w t he ha =>
        cases hx
        exact ⟨e.toNFA, List.mem_map.mpr ⟨e, he, rfl⟩, (ih e he (hnr e he) w t).mpr ha⟩
  | opt e ih =>
    intro hnr w t
    cases hnr with
    | opt hnr =>
    rw [Re.toNFA, optional_tagReach _ (toNFA_spec e).1, ih hnr]
    constructor
    · exact Alive.opt
    · intro h; cases h with | opt h => exact h
  | plus e ih =>
    intro hnr w t
    cases hnr with
    | plus hnr =>
    rw [Re.toNFA, some_tagReach _ (toNFA_spec e).1]
    have hl : ∀ u, Plus (Lang e.toNFA) u ↔ (Re.plus e).Matches u := by
      intro u; rw [matches_plus, plus_congr (toNFA_spec e).2]
    constructor
    · rintro ⟨u, v, rfl, hu, hv⟩
      exact Alive.plus (hu.imp id (hl u).mp) ((ih hnr v t).mp hv)
    · intro h
      cases h with
      | plus hu ha => exact ⟨_, _, rfl, hu.imp id (hl _).mpr, (ih hnr _ t).mpr ha⟩
  | star e ih =>
    intro hnr w t
    cases hnr with
    | star hnr =>
    rw [Re.toNFA, many_tagReach _ (toNFA_spec e).1]
    have hl : ∀ u, Star (Lang e.toNFA) u ↔ (Re.star e).Matches u := by
      intro u; rw [matches_star, star_congr (toNFA_spec e).2]
    constructor
    · rintro ⟨u, v, rfl, hu, hv⟩
      exact Alive.star ((hl u).mp hu) ((ih hnr v t).mp hv)
    · intro h
      cases h with
      | star hu ha => exact ⟨_, _, rfl, (hl _).mpr hu, (ih hnr _ t).mpr ha⟩
  | tag t0 e ih =>
    intro hnr w t
    cases hnr with
    | tag hnr hst =>
    rw [Re.toNFA, tagStop_tagReach _ (toNFA_spec e).1]
    constructor
    · rintro (⟨rfl, h⟩ | ⟨q, _, hp, ht⟩)
      · exact Alive.tagHere (((toNFA_spec e).2 w).mp h)
      · exact Alive.tagIn ((ih hnr w t).mp ⟨q, hp, ht⟩)
    · intro h
      cases h with
      | tagHere hm => exact Or.inl ⟨rfl, ((toNFA_spec e).2 w).mpr hm⟩
      | tagIn ha =>
        obtain ⟨q, hp, ht⟩ := (ih hnr w t).mpr ha
        refine Or.inr ⟨q, ?_, hp, ht⟩
        intro hq; subst hq
        rw [stop_untagged e hst] at ht; cases ht

end SurfProofs.Alive
