import SurfProofs.Lemmas.ProtoKeyTable
/-! C04: no literal key of the table regenerated from the implementation is a word of a parsed family — except
`CSI 1 ; n R` (n = 2..8), which is also a cursor position report (the documented ambiguity).  Decided by the
verified matcher `Re.matchB` on every table entry × every family grammar, re-checked whenever the table or a
grammar changes. -/
namespace SurfProofs.ProtoKeyDisjoint
open SurfModel SurfModel.Grammar SurfModel.Automata SurfProofs.ProtoKeyTable

set_option maxRecDepth 100000 in
theorem keyTable_disjoint :
    Generated.keyTable.all (fun e => Family.all.all fun k =>
      k == .keys || !(grammar k).matchB (bytes e.1) || (k == .cursorPosition && keyRShape e.1)) = true := by
  decide +kernel

end SurfProofs.ProtoKeyDisjoint
