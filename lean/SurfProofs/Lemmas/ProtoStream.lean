import SurfModel.Stream
import SurfProofs.C03
import SurfProofs.C15
import SurfProofs.Lemmas.ProtoKeys
import SurfProofs.Lemmas.ProtoKeyDisjoint
import SurfProofs.Lemmas.ProtoBytes
/-! C04: the stream level.

* a complete sequence (accepted in a terminal state) is the first token whatever follows (`tokenize_terminal`);
* the tags the combined event automaton reports after a word (`event_tags`);
* an automaton that realises the combined grammar and is self-delimiting decodes a message to its event and goes
  on with the rest (`decode_msg_step`). -/
namespace SurfProofs.ProtoStream
open SurfModel SurfModel.Tokenizer SurfModel.Grammar SurfModel.Payload SurfModel.Protocol SurfModel.Automata
open SurfModel.Stream SurfProofs.ProtoKeyTable SurfProofs.ProtoKeys SurfProofs.ProtoBasics

variable {σ : Type}

/-! ## a terminal token is cut off whatever follows -/

theorem runA_append (A : Auto σ) (s : σ) (u v : List UInt8) :
    runA A s (u ++ v) = (runA A s u).bind fun q => runA A q v := by
  induction u generalizing s with
  | nil => simp [runA]
  | cons b r ih =>
    simp only [List.cons_append, runA]
    cases A.step s b with
    | none => simp
    | some q => simp [ih]

theorem liveLen_terminal (A : Auto σ) (hT : A.TermOk) (q : σ) (ht : A.terminal q = true) (rest : List UInt8) :
    liveLen A q rest = 0 := by
  cases rest with
  | nil => rfl
  | cons b r => simp [liveLen, hT q ht b]

theorem longestAcc_terminal (A : Auto σ) (hT : A.TermOk) (q : σ) (ht : A.terminal q = true) (rest : List UInt8) :
    longestAcc A q rest = none := by
  cases rest with
  | nil => rfl
  | cons b r => simp [longestAcc, hT q ht b]

theorem liveLen_run (A : Auto σ) (s q : σ) (w rest : List UInt8) (h : runA A s w = some q) :
    liveLen A s (w ++ rest) = w.length + liveLen A q rest := by
  induction w generalizing s with
  | nil => simp [runA] at h; subst h; simp
  | cons b r ih =>
    simp only [runA] at h
    cases hs : A.step s b with
    | none => rw [hs] at h; simp at h
    | some s' =>
      rw [hs] at h
      simp only [Option.bind_some] at h
      simp only [List.cons_append, liveLen, hs, ih s' h, List.length_cons]
      omega

theorem longestAcc_run (A : Auto σ) (s q : σ) (w rest : List UInt8) (hne : w ≠ []) (h : runA A s w = some q)
    (hacc : A.accepting q = true) (hno : longestAcc A q rest = none) :
    longestAcc A s (w ++ rest) = some (w.length, q) := by
  induction w generalizing s with
  | nil => exact absurd rfl hne
  | cons b r ih =>
    simp only [runA] at h
    cases hs : A.step s b with
    | none => rw [hs] at h; simp at h
    | some s' =>
      rw [hs] at h
      simp only [Option.bind_some] at h
      simp only [List.cons_append, longestAcc, hs]
      cases r with
      | nil =>
        simp only [runA, Option.some.injEq] at h
        subst h
        simp [hno, hacc]
      | cons c r' =>
        rw [ih s' (by simp) h]
        simp

/-- **Self-delimiting tokens.** If `w` is accepted in a terminal state, then whatever follows, the
    leftmost-longest tokenisation starts with exactly `w` and goes on with the rest. -/
theorem tokenize_terminal (A : Auto σ) (hT : A.TermOk) (w rest : List UInt8) (q : σ) (hne : w ≠ [])
    (hrun : runA A A.start w = some q) (hacc : A.accepting q = true) (hterm : A.terminal q = true) :
    tokenize A (w ++ rest) = (.tok w q :: (tokenize A rest).1, (tokenize A rest).2) := by
  have hlive : liveLen A A.start (w ++ rest) = w.length := by
    rw [liveLen_run A _ q w rest hrun, liveLen_terminal A hT q hterm]; rfl
  have hlong : longestAcc A A.start (w ++ rest) = some (w.length, q) :=
    longestAcc_run A _ q w rest hne hrun hacc (longestAcc_terminal A hT q hterm rest)
  have hne' : w ++ rest ≠ [] := by simp [hne]
  rw [tokenize]
  simp only [hne', if_false]
  have hcond : ¬ (liveLen A A.start (w ++ rest) = (w ++ rest).length ∧ complete A (w ++ rest) = false) := by
    rintro ⟨h1, h2⟩
    rw [hlive] at h1
    simp only [List.length_append] at h1
    have hr : rest = [] := List.length_eq_zero_iff.mp (by omega)
    subst hr
    simp only [List.append_nil] at h2
    simp [complete, hrun, hacc, hterm] at h2
  simp only [hcond, if_false]
  split
  · rename_i n q' hq'
    rw [hlong] at hq'
    cases hq'
    simp
  · rename_i hq'
    rw [hlong] at hq'
    cases hq'


/-! ## tags of the combined event automaton -/

open SurfProofs.NFASem SurfProofs.Tags SurfProofs.ToNFA SurfProofs.Subset SurfProofs.ReMatch SurfProofs.C15

/-- the DFA `MatcherAutomata::new` compiles for `TTY_EVENT_AUTOMATA` (model) -/
def eventDFA : DFA := eventRe.toNFA.compile

theorem tf_seq {es : List Re} : TagFree (.seq es) ↔ ∀ e ∈ es, TagFree e :=
  ⟨fun h => by cases h; assumption, TagFree.seq⟩
theorem tf_alt {es : List Re} : TagFree (.alt es) ↔ ∀ e ∈ es, TagFree e :=
  ⟨fun h => by cases h; assumption, TagFree.alt⟩
theorem tf_opt {e : Re} : TagFree (.opt e) ↔ TagFree e := ⟨fun h => by cases h; assumption, TagFree.opt⟩
theorem tf_plus {e : Re} : TagFree (.plus e) ↔ TagFree e := ⟨fun h => by cases h; assumption, TagFree.plus⟩
theorem tf_star {e : Re} : TagFree (.star e) ↔ TagFree e := ⟨fun h => by cases h; assumption, TagFree.star⟩
theorem tf_lit (s : List UInt8) : TagFree (.lit s) ↔ True := ⟨fun _ => trivial, fun _ => TagFree.lit s⟩
theorem tf_pred (rs : List (UInt8 × UInt8)) : TagFree (.pred rs) ↔ True := ⟨fun _ => trivial, fun _ => TagFree.pred rs⟩

theorem grammar_tagFree (k : Family) (h : k ≠ .keys) : TagFree (grammar k) := by
  cases k <;>
    first
    | exact absurd rfl h
    | simp [grammar, cursorPositionRe, decModeRe, deviceAttrsRe, sgrRe, kittyImageRe, kittyKV, kittyKeyboardRe,
        mouseRe, oscRe, reportSettingRe, termcapRe, termcapKV, hexPair, termSizeRe, sizeTail, utf8PrintableRe, utf8Re,
        utf8Tail, range, pasteRe, lit, number, digit, alnum, hexdigit, notEsc, notEscBel, tf_seq, tf_alt, tf_opt, tf_plus,
        tf_star, tf_lit, tf_pred]

theorem keyAlts_tagFree : ∀ a ∈ keyAlts, TagFree a.1 := by
  intro a ha
  obtain ⟨e, _, rfl⟩ := List.mem_map.mp ha
  exact TagFree.lit _

/-- tags one operand of the combined choice reports -/
theorem alt_tags (k : Family) (w : List UInt8) (t : Nat) :
    t ∈ (eventAlt k).toNFA.compile.tagsAfter w ↔
      (k = .keys ∧ ∃ e ∈ Generated.keyTable, keyCode3 e.2.1 e.2.2.1 e.2.2.2 = t ∧ w = bytes e.1) ∨
      (k ≠ .keys ∧ t = k.tag ∧ (grammar k).Matches w) := by
  by_cases hk : k = .keys
  · subst hk
    have := (C15_tags keyAlts keyAlts_tagFree w).1 t
    show t ∈ (Re.altT keyAlts).toNFA.compile.tagsAfter w ↔ _
    rw [this]
    constructor
    · rintro ⟨a, ha, h1, h2⟩
      obtain ⟨e, he, rfl⟩ := List.mem_map.mp ha
      simp only [Option.some.injEq] at h1
      exact Or.inl ⟨rfl, e, he, h1, (matches_lit.mp h2)⟩
    · rintro (⟨_, e, he, h1, h2⟩ | ⟨h, _⟩)
      · exact ⟨_, List.mem_map.mpr ⟨e, he, rfl⟩, by simp [h1], by rw [h2]; exact Re.Matches.lit _⟩
      · exact absurd rfl h
  · have e : eventAlt k = Re.tagged (grammar k, some k.tag) := by cases k <;> first | exact absurd rfl hk | rfl
    rw [e, mem_tagsAfter_iff, tagged_tagReach _ (grammar_tagFree k hk)]
    simp only [Option.some.injEq]
    constructor
    · rintro ⟨h1, h2⟩; exact Or.inr ⟨hk, h1.symm, h2⟩
    · rintro (⟨h, _⟩ | ⟨_, h1, h2⟩)
      · exact absurd h hk
      · exact ⟨h1.symm, h2⟩

/-- **Tags of the event automaton.** After `w` the combined automaton reports the key of every table entry
    spelled `w` and the tag of every parsed family whose grammar matches `w`, and nothing else. -/
theorem event_tags (w : List UInt8) (t : Nat) :
    t ∈ eventDFA.tagsAfter w ↔
      (∃ e ∈ Generated.keyTable, keyCode3 e.2.1 e.2.2.1 e.2.2.2 = t ∧ w = bytes e.1) ∨
      (∃ k, k ≠ Family.keys ∧ t = k.tag ∧ (grammar k).Matches w) := by
  have hwf : ∀ n ∈ (Family.all.map eventAlt).map Re.toNFA, WF n := by
    intro n hn
    obtain ⟨e, _, rfl⟩ := List.mem_map.mp hn
    exact (toNFA_spec e).1
  have h0 : eventDFA = (NFA.choice ((Family.all.map eventAlt).map Re.toNFA)).compile := by
    unfold eventDFA eventRe
    rw [Re.toNFA, toNFAs_eq]
  rw [h0, C15_tags_choice _ hwf]
  constructor
  · rintro ⟨n, hn, ht⟩
    obtain ⟨e, he, rfl⟩ := List.mem_map.mp hn
    obtain ⟨k, _, rfl⟩ := List.mem_map.mp he
    rcases (alt_tags k w t).mp ht with ⟨_, h⟩ | ⟨h1, h2, h3⟩
    · exact Or.inl h
    · exact Or.inr ⟨k, h1, h2, h3⟩
  · have hall : ∀ k : Family, k ∈ Family.all := by intro k; cases k <;> simp [Family.all]
    rintro (h | ⟨k, h1, h2, h3⟩)
    · exact ⟨_, List.mem_map.mpr ⟨_, List.mem_map.mpr ⟨.keys, hall _, rfl⟩, rfl⟩, (alt_tags .keys w t).mpr (Or.inl ⟨rfl, h⟩)⟩
    · exact ⟨_, List.mem_map.mpr ⟨_, List.mem_map.mpr ⟨k, hall _, rfl⟩, rfl⟩, (alt_tags k w t).mpr (Or.inr ⟨h1, h2, h3⟩)⟩

/-- a word of a family is a word of the combined grammar -/
theorem event_matches (k : Family) (w : List UInt8) (h : (grammar k).Matches w) : eventRe.Matches w := by
  have hall : k ∈ Family.all := by cases k <;> simp [Family.all]
  refine Re.Matches.alt (e := eventAlt k) (List.mem_map.mpr ⟨k, hall, rfl⟩) ?_
  cases k <;> first | exact h | exact Re.Matches.tag h

/-! ## automata that realise the combined grammar -/

/-- `A` is observationally the DFA compiled from the combined grammar: same words alive, same accepting
    flags, same tag sets (what the exhaustive bisimulation of the dumped production DFA establishes) -/
def Realises (A : TAuto σ) : Prop :=
  ∀ w, (runA A.toAuto A.start w).map (fun q => (A.accepting q, A.tags q)) =
    (eventDFA.run w).map fun S => (eventDFA.isAccepting S, eventDFA.tags S)

theorem realises_accept (A : TAuto σ) (hR : Realises A) (w : List UInt8) (h : eventRe.Matches w) :
    ∃ q, runA A.toAuto A.start w = some q ∧ A.accepting q = true ∧ A.tags q = eventDFA.tagsAfter w ∧
      (A.tags q).Pairwise (· < ·) := by
  have hm : eventDFA.matches w = true := (C15_language eventRe w).mpr h
  have hr := hR w
  unfold DFA.matches at hm
  cases hS : eventDFA.run w with
  | none => rw [hS] at hm; cases hm
  | some S =>
    rw [hS] at hm hr
    cases hq : runA A.toAuto A.start w with
    | none => rw [hq] at hr; simp at hr
    | some q =>
      rw [hq] at hr
      simp only [Option.map_some, Option.some.injEq, Prod.mk.injEq] at hr
      refine ⟨q, rfl, by rw [hr.1]; exact hm, ?_, ?_⟩
      · rw [hr.2]; unfold DFA.tagsAfter; rw [hS]
      · rw [hr.2]; exact tags_sorted _ _


/-! ## one message -/

open SurfProofs.ProtoBytes SurfProofs.ProtoKeyDisjoint SurfProofs.Lemmas.Vt

/-- grammar membership of every valid message -/
def MemberOf (P : Msg → Prop) : Prop := ∀ m, P m → (grammar m.family).Matches (bytes (print m))
/-- the payload decoder selected by the tag returns the denoted event -/
def PayloadOf (P : Msg → Prop) : Prop := ∀ m, P m → decodeTok m.tag (print m) = .ok (some (denote m))

/-- the sequence leaves the automaton in a terminal state (true of every parsed family under
    `SelfDelimiting`; for literal keys it excludes the ESC-prefixed keys that are prefixes of longer sequences) -/
def Terminated (A : TAuto σ) (m : Msg) : Prop :=
  ∀ q, runA A.toAuto A.start (bytes (print m)) = some q → A.terminal q = true

theorem family_tag_index (k : Family) : Family.ofIndex (k.tag - matcherBase) = some k := by
  cases k <;> decide

theorem family_tag_ge (k : Family) : matcherBase ≤ k.tag := by unfold Family.tag; omega

theorem entry_B (e : List Nat × Nat × Nat × Nat) (he : e ∈ Generated.keyTable) : B e.1 := by
  intro b hb
  have := List.all_eq_true.mp (List.all_eq_true.mp keyTable_bytes e he) b hb
  simp at this
  omega

theorem cursor_key_shape (r c : Nat) (h : keyRShape (print (.cursor r c)) = true) : r = 1 ∧ 2 ≤ c ∧ c ≤ 8 := by
  obtain ⟨x, xs, hx, hxd⟩ := ProtoNumeric.showNat_head r
  obtain ⟨y, ys, hy, hyd⟩ := ProtoNumeric.showNat_head c
  have hr := readDec_showNat r
  have hc := readDec_showNat c
  have hp : print (.cursor r c) = 27 :: 91 :: x :: (xs ++ 59 :: y :: (ys ++ [82])) := by simp [print, CSI, hx, hy]
  rw [hp] at h
  cases xs with
  | cons x2 xs2 => simp [keyRShape] at h; omega
  | nil =>
    cases ys with
    | cons y2 ys2 => simp [keyRShape] at h
    | nil =>
      simp [keyRShape] at h
      rw [hx] at hr
      rw [hy] at hc
      simp [readDec] at hr hc
      omega

/-- no literal key is spelled like a valid, unambiguous message of a parsed family -/
theorem no_key_of_parsed (m : Msg) (hv : m.Valid) (hk : m.family ≠ .keys) (hna : ¬ m.Ambiguous)
    (hmem : (grammar m.family).Matches (bytes (print m)))
    (e : List Nat × Nat × Nat × Nat) (he : e ∈ Generated.keyTable) : bytes (print m) ≠ bytes e.1 := by
  intro heq
  have hall : m.family ∈ Family.all := by cases m.family <;> simp [Family.all]
  have hd := List.all_eq_true.mp (List.all_eq_true.mp keyTable_disjoint e he) m.family hall
  have hmb : (grammar m.family).matchB (bytes e.1) = true := by
    rw [← heq]; exact (C15_matchB _ _).mpr hmem
  have hk' : (m.family == Family.keys) = false := by
    cases hf : m.family <;> first | exact absurd hf hk | rfl
  simp only [hk', hmb, Bool.not_true, Bool.false_or, Bool.and_eq_true, beq_iff_eq] at hd
  obtain ⟨hfam, hshape⟩ := hd
  have hpe : print m = e.1 := bytes_inj _ _ (print_lt m hv) (entry_B e he) heq
  cases m with
  | cursor r c =>
    rw [← hpe] at hshape
    exact hna (cursor_key_shape r c hshape)
  | _ => simp [Msg.family] at hfam

/-- the head of a strictly increasing list is its least element -/
theorem head_le_of_sorted (t0 : Nat) (rest : List Nat) (h : (t0 :: rest).Pairwise (· < ·)) (x : Nat)
    (hx : x ∈ t0 :: rest) : t0 ≤ x := by
  simp only [List.mem_cons] at hx
  rcases hx with rfl | hx
  · exact Nat.le_refl _
  · exact Nat.le_of_lt ((List.pairwise_cons.mp h).1 x hx)

/-- **One message.** An automaton that realises the combined grammar and is self-delimiting accepts a valid,
    unambiguous message in a terminal state whose least tag is the tag of the message. -/
theorem msg_state (A : TAuto σ) (hR : Realises A) (H : SelfDelimiting A) (P : Msg → Prop) (hM : MemberOf P)
    (m : Msg) (hp : P m) (hv : m.Valid) (hna : ¬ m.Ambiguous) (hterm : m.family = .keys → Terminated A m) :
    ∃ q, runA A.toAuto A.start (bytes (print m)) = some q ∧ A.accepting q = true ∧ A.terminal q = true ∧
      A.leastTag q = some m.tag := by
  have hmem := hM m hp
  obtain ⟨q, hrun, hacc, htags, hsorted⟩ := realises_accept A hR _ (event_matches m.family _ hmem)
  refine ⟨q, hrun, hacc, ?_⟩
  by_cases hk : m.family = .keys
  · -- literal key
    cases m with
    | key i =>
      obtain ⟨p, hpk, hl, _⟩ := proto_entry i hv
      obtain ⟨e, he, hw, hcode⟩ := lookup_entry _ _ hl
      have hsmall := key_code_small i p hv hpk
      have hin : p.2.code ∈ A.tags q := by
        rw [htags, event_tags]
        exact Or.inl ⟨e, he, hcode, by rw [key_print i p hpk, hw]⟩
      cases hT : A.tags q with
      | nil => rw [hT] at hin; cases hin
      | cons t0 rest =>
        rw [hT] at hin hsorted
        have hle := head_le_of_sorted t0 rest hsorted _ hin
        have ht0 : t0 ∈ eventDFA.tagsAfter (bytes (print (.key i))) := by rw [← htags, hT]; simp
        rw [event_tags] at ht0
        have heq : t0 = p.2.code := by
          rcases ht0 with ⟨e', he', hc', hw'⟩ | ⟨k, _, hk2, _⟩
          · rw [key_print i p hpk, ← hw] at hw'
            have hee : e.1 = e'.1 := bytes_inj _ _ (entry_B e he) (entry_B e' he') hw'
            have h1 := List.all_eq_true.mp keyTable_functional e he
            have h2 := List.all_eq_true.mp keyTable_functional e' he'
            simp only [beq_iff_eq] at h1 h2
            rw [hee, h2] at h1
            simp only [Option.some.injEq] at h1
            rw [← hc', h1, hcode]
          · have := family_tag_ge k; omega
        refine ⟨hterm rfl q hrun, ?_⟩
        simp [TAuto.leastTag, hT, heq, key_tag i p hpk]
    | _ => simp [Msg.family] at hk
  · -- parsed family
    have htag : m.tag = m.family.tag := by cases m <;> first | rfl | (simp [Msg.family] at hk)
    have hin : m.family.tag ∈ A.tags q := by
      rw [htags, event_tags]
      exact Or.inr ⟨m.family, hk, rfl, hmem⟩
    cases hT : A.tags q with
    | nil => rw [hT] at hin; cases hin
    | cons t0 rest =>
      have ht0 : t0 ∈ eventDFA.tagsAfter (bytes (print m)) := by rw [← htags, hT]; simp
      rw [event_tags] at ht0
      have hge : matcherBase ≤ t0 := by
        rcases ht0 with ⟨e, he, _, hw⟩ | ⟨k, _, hk2, _⟩
        · exact absurd hw (no_key_of_parsed m hv hk hna hmem e he)
        · rw [hk2]; exact family_tag_ge k
      have hsd := H _ q hrun hacc t0 (by simp [TAuto.leastTag, hT]) hge
      rw [hT] at hsd hin
      obtain ⟨hone, hterm'⟩ := hsd
      have : rest = [] := by simpa using hone
      subst this
      simp only [List.mem_singleton] at hin
      exact ⟨hterm', by simp [TAuto.leastTag, hT, htag, hin]⟩

theorem print_ne_nil (m : Msg) (hv : m.Valid) : print m ≠ [] := by
  cases m with
  | key i =>
    obtain ⟨p, hpk, hl, _⟩ := proto_entry i hv
    obtain ⟨e, he, hw, _⟩ := lookup_entry _ _ hl
    rw [key_print i p hpk, ← hw]
    intro h0
    have := List.all_eq_true.mp keyTable_shape e he
    rw [h0] at this
    simp [keyShape] at this
  | text c =>
    simp only [print]
    unfold SurfModel.Vt.utf8
    repeat' split
    all_goals simp
  | _ => simp [print, CSI]

/-! ## streams -/

theorem eventsOfItems_cons (A : TAuto σ) (it : Item σ) (rest : List (Item σ)) (ev : Event)
    (h : eventOfItem A it = .ok ev) :
    eventsOfItems A (it :: rest) = match eventsOfItems A rest with
      | .ok evs => .ok (ev :: evs)
      | .error e => .error e := by
  simp only [eventsOfItems, h]
  cases eventsOfItems A rest <;> rfl

theorem decodeEvents_eq (A : TAuto σ) (hT : A.toAuto.TermOk) (input : List UInt8) :
    decodeEvents A input = eventsOfItems A (tokenize A.toAuto input).1 := by
  unfold decodeEvents
  rw [SurfProofs.C03.C03_tokenize A.toAuto hT input]

/-- **Streams.** Valid, unambiguous messages one after the other, followed by anything: the decoder yields their
    events in order and then whatever it yields on the rest. -/
theorem stream (A : TAuto σ) (hT : A.toAuto.TermOk) (hR : Realises A) (H : SelfDelimiting A) (P : Msg → Prop)
    (hM : MemberOf P) (hPay : PayloadOf P) (ms : List Msg)
    (hms : ∀ m ∈ ms, P m ∧ m.Valid ∧ ¬ m.Ambiguous ∧ (m.family = .keys → Terminated A m)) (rest : List UInt8) :
    decodeEvents A (bytes (ms.flatMap print) ++ rest) =
      match decodeEvents A rest with
      | .ok evs => .ok (ms.map denote ++ evs)
      | .error e => .error e := by
  induction ms with
  | nil =>
    simp only [List.flatMap_nil, bytes_nil, List.nil_append, List.map_nil]
    cases decodeEvents A rest <;> rfl
  | cons m ms ih =>
    obtain ⟨hp, hv, hna, hterm⟩ := hms m (by simp)
    obtain ⟨q, hrun, hacc, hterm', htag⟩ := msg_state A hR H P hM m hp hv hna hterm
    have hne : bytes (print m) ≠ [] := by
      have := print_ne_nil m hv
      intro h; apply this
      cases hpm : print m with
      | nil => rfl
      | cons a l => rw [hpm] at h; simp [bytes] at h
    have hsplit : bytes ((m :: ms).flatMap print) ++ rest = bytes (print m) ++ (bytes (ms.flatMap print) ++ rest) := by
      simp [bytes_append]
    have hev : eventOfItem A (.tok (bytes (print m)) q) = .ok (denote m) := by
      simp only [eventOfItem, htag, eventOfTok, natBytes_bytes _ (print_lt m hv), hPay m hp]
    rw [hsplit, decodeEvents_eq A hT, tokenize_terminal A.toAuto hT _ _ q hne hrun hacc hterm']
    simp only
    rw [eventsOfItems_cons A _ _ _ hev, ← decodeEvents_eq A hT, ih (fun x hx => hms x (by simp [hx]))]
    cases decodeEvents A rest <;> simp

end SurfProofs.ProtoStream
