import SurfModel.Tokenizer
/-!
Lemmas for C03. The proof device is a *stream machine* `go`: the decoder state without the
`rescheduled` vector, reading one forward stream in which rescheduled bytes are simply put back in
front. `step1` is one byte of it. The literal model (`decodeByte`, `takeCandidate`, the reversed
`rescheduled` stack, the two loops of `decode`, the fuel of `decodeInto`) is shown to compute `go`;
`go` is shown to conserve bytes, to be compositional in the stream, and to equal `tokenize`.
-/
namespace SurfModel.Tokenizer

variable {σ : Type}

set_option linter.unusedVariables false

/-! ## automaton runs -/

theorem runA_append (A : Auto σ) (q : σ) (u v : List UInt8) :
    runA A q (u ++ v) = (runA A q u).bind fun q' => runA A q' v := by
  induction u generalizing q with
  | nil => simp [runA]
  | cons b r ih =>
    simp only [List.cons_append, runA]
    cases h : A.step q b with
    | none => simp
    | some q' => simp [ih]

theorem runA_snoc (A : Auto σ) (q0 q q' : σ) (u : List UInt8) (b : UInt8)
    (h : runA A q0 u = some q) (hs : A.step q b = some q') : runA A q0 (u ++ [b]) = some q' := by
  rw [runA_append, h]; simp [runA, hs]

theorem liveLen_le (A : Auto σ) (q : σ) (w : List UInt8) : liveLen A q w ≤ w.length := by
  induction w generalizing q with
  | nil => simp [liveLen]
  | cons b r ih =>
    simp only [liveLen]
    split
    · simp
    · rename_i q' _; have := ih q'; simp; omega

theorem liveLen_append (A : Auto σ) (q q' : σ) (u v : List UInt8) (h : runA A q u = some q') :
    liveLen A q (u ++ v) = u.length + liveLen A q' v := by
  induction u generalizing q with
  | nil => simp [runA] at h; subst h; simp
  | cons b r ih =>
    simp only [runA] at h
    cases hs : A.step q b with
    | none => simp [hs] at h
    | some q1 =>
      simp [hs] at h
      simp only [List.cons_append, liveLen, hs, ih q1 h, List.length_cons]
      omega

theorem liveLen_of_run (A : Auto σ) (q q' : σ) (u : List UInt8) (h : runA A q u = some q') :
    liveLen A q u = u.length := by
  have := liveLen_append A q q' u [] h
  simpa [liveLen] using this

theorem longestAcc_append (A : Auto σ) (q q' : σ) (u v : List UInt8) (h : runA A q u = some q') :
    longestAcc A q (u ++ v) =
      match longestAcc A q' v with
      | some (n, qa) => some (u.length + n, qa)
      | none => longestAcc A q u := by
  induction u generalizing q with
  | nil =>
    simp [runA] at h; subst h
    cases h' : longestAcc A q v with
    | none => simp [longestAcc, h']
    | some p => simp [h']
  | cons b r ih =>
    simp only [runA] at h
    cases hs : A.step q b with
    | none => simp [hs] at h
    | some q1 =>
      simp [hs] at h
      simp only [List.cons_append, longestAcc, hs, ih q1 h]
      cases h' : longestAcc A q' v with
      | none => simp
      | some p => simp; omega

theorem longestAcc_snoc (A : Auto σ) (q q1 q2 : σ) (u : List UInt8) (b : UInt8)
    (h : runA A q u = some q1) (hs : A.step q1 b = some q2) :
    longestAcc A q (u ++ [b]) = if A.accepting q2 then some (u.length + 1, q2) else longestAcc A q u := by
  rw [longestAcc_append A q q1 u [b] h]
  simp only [longestAcc, hs]
  by_cases ha : A.accepting q2 = true <;> simp [ha]

theorem longestAcc_dead (A : Auto σ) (q q1 : σ) (u : List UInt8) (b : UInt8) (rest : List UInt8)
    (h : runA A q u = some q1) (hs : A.step q1 b = none) :
    longestAcc A q (u ++ b :: rest) = longestAcc A q u := by
  rw [longestAcc_append A q q1 u (b :: rest) h]
  simp [longestAcc, hs]

theorem liveLen_dead (A : Auto σ) (q q1 : σ) (u : List UInt8) (b : UInt8) (rest : List UInt8)
    (h : runA A q u = some q1) (hs : A.step q1 b = none) :
    liveLen A q (u ++ b :: rest) = u.length := by
  rw [liveLen_append A q q1 u (b :: rest) h]
  simp [liveLen, hs]

/-! ## the stream machine -/

inductive Step (σ : Type) where
  /-- the byte was consumed, no item yet -/
  | cont (c : DSt σ)
  /-- an item is emitted, the automaton restarts and `back` is read again before the rest of the stream -/
  | emit (item : Item σ) (back : List UInt8)
  /-- candidate size out of range (never happens from a represented state) -/
  | stuck

def step1 (A : Auto σ) (c : DSt σ) (b : UInt8) : Step σ :=
  match A.step c.st b with
  | some q =>
    if A.accepting q then
      if A.terminal q then .emit (.tok (c.buffer ++ [b]) q) []
      else .cont { c with st := q, buffer := c.buffer ++ [b],
                          cand := some (.tok (c.buffer ++ [b]) q, c.buffer.length + 1) }
    else .cont { c with st := q, buffer := c.buffer ++ [b] }
  | none =>
    match c.cand with
    | some (item, n) =>
      if 0 < n ∧ n ≤ c.buffer.length then .emit item (c.buffer.drop n ++ [b]) else .stuck
    | none => if c.buffer = [] then .emit (.raw [b]) [] else .emit (.raw c.buffer) [b]

theorem step1_cont_buffer (A : Auto σ) (c c' : DSt σ) (b : UInt8) (h : step1 A c b = .cont c') :
    c'.buffer = c.buffer ++ [b] ∧ c'.resched = c.resched := by
  unfold step1 at h
  split at h
  · split at h
    · split at h
      · cases h
      · cases h; simp
    · cases h; simp
  · split at h
    · split at h <;> cases h
    · split at h <;> cases h

theorem step1_emit_back (A : Auto σ) (c : DSt σ) (b : UInt8) (item : Item σ) (back : List UInt8)
    (h : step1 A c b = .emit item back) : back.length ≤ c.buffer.length := by
  unfold step1 at h
  split at h
  · split at h
    · split at h
      · cases h; simp
      · cases h
    · cases h
  · split at h
    · split at h
      · rename_i hn; cases h; simp; omega
      · cases h
    · split at h
      · cases h; simp
      · rename_i hne; cases h
        have : 0 < c.buffer.length := List.length_pos_iff.mpr hne
        simp; omega

theorem lex_lt {a b c d : Nat} (h : a < c ∨ (a ≤ c ∧ b < d)) :
    Prod.Lex (fun x y : Nat => x < y) (fun x y : Nat => x < y) (a, b) (c, d) := by
  rcases h with h | ⟨h1, h2⟩
  · exact Prod.Lex.left _ _ h
  · rcases Nat.lt_or_eq_of_le h1 with h | h
    · exact Prod.Lex.left _ _ h
    · subst h; exact Prod.Lex.right _ h2

/-- the decoder as a machine over one forward stream -/
def go (A : Auto σ) (c : DSt σ) (stream : List UInt8) : List (Item σ) × DSt σ :=
  match stream with
  | [] => ([], c)
  | b :: rest =>
    match h : step1 A c b with
    | .cont c' => go A c' rest
    | .emit item back =>
      let r := go A (init A) (back ++ rest)
      (item :: r.1, r.2)
    | .stuck => ([], c)
termination_by (c.buffer.length + stream.length, stream.length)
decreasing_by
  · have := (step1_cont_buffer A c c' b h).1
    simp_wf
    apply lex_lt
    simp [this]
    omega
  · have := step1_emit_back A c b item back h
    simp_wf
    apply lex_lt
    simp [init]
    omega

theorem go_nil (A : Auto σ) (c : DSt σ) : go A c [] = ([], c) := by
  rw [go]

theorem go_cons (A : Auto σ) (c : DSt σ) (b : UInt8) (rest : List UInt8) :
    go A c (b :: rest) =
      match step1 A c b with
      | .cont c' => go A c' rest
      | .emit item back => (item :: (go A (init A) (back ++ rest)).1, (go A (init A) (back ++ rest)).2)
      | .stuck => ([], c) := by
  rw [go]
  split <;> simp_all

/-! ## the invariant: the state is a function of the buffer -/

/-- `c` is what the decoder holds after reading `c.buffer` from a fresh start without emitting:
the automaton state is `δ*(buffer)`, the candidate is the longest recognised non-empty prefix of the
buffer, and the buffer is not itself a complete (accepting, terminal) sequence. -/
structure Rep (A : Auto σ) (c : DSt σ) : Prop where
  live : runA A A.start c.buffer = some c.st
  cand : c.cand = (longestAcc A A.start c.buffer).map fun p => (.tok (c.buffer.take p.1) p.2, p.1)
  undecided : c.buffer ≠ [] → (A.accepting c.st && A.terminal c.st) = false

theorem rep_init (A : Auto σ) : Rep A (init A) :=
  ⟨by simp [init, runA], by simp [init, longestAcc], by simp [init]⟩

theorem rep_resched (A : Auto σ) (c : DSt σ) (r : List UInt8) (h : Rep A c) : Rep A { c with resched := r } :=
  ⟨h.live, h.cand, h.undecided⟩

theorem rep_cand (A : Auto σ) (c : DSt σ) (h : Rep A c) (item : Item σ) (n : Nat)
    (hc : c.cand = some (item, n)) :
    ∃ q, longestAcc A A.start c.buffer = some (n, q) ∧ item = .tok (c.buffer.take n) q ∧
      0 < n ∧ n ≤ c.buffer.length := by
  have := h.cand
  rw [hc] at this
  cases hl : longestAcc A A.start c.buffer with
  | none => simp [hl] at this
  | some p =>
    obtain ⟨m, q⟩ := p
    simp [hl] at this
    obtain ⟨h1, h2⟩ := this
    subst h2
    exact ⟨q, rfl, h1, longestAcc_pos A _ _ _ _ hl⟩

theorem rep_eq_stateOf (A : Auto σ) (c : DSt σ) (h : Rep A c) (hr : c.resched = []) :
    c = stateOf A c.buffer := by
  cases c with
  | mk st buffer resched cand =>
    simp only at hr
    have h1 := h.live
    have h2 := h.cand
    simp only at h1 h2
    simp [stateOf, h1, h2, hr]

theorem take_snoc_le {α} (l : List α) (b : α) (k : Nat) (h : k ≤ l.length) : (l ++ [b]).take k = l.take k :=
  List.take_append_of_le_length h

/-- one byte from a represented state: the successor is represented, an emitted item is a non-empty
prefix of `buffer ++ [b]` and the bytes put back are the rest of it -/
theorem step1_rep (A : Auto σ) (c : DSt σ) (b : UInt8) (h : Rep A c) :
    match step1 A c b with
    | .cont c' => Rep A c'
    | .emit item back => item.bytes ++ back = c.buffer ++ [b] ∧ item.bytes ≠ []
    | .stuck => False := by
  unfold step1
  cases hs : A.step c.st b with
  | some q =>
    have hrun := runA_snoc A _ _ _ _ _ h.live hs
    have hsn := longestAcc_snoc A _ _ _ _ _ h.live hs
    by_cases ha : A.accepting q = true
    · by_cases ht : A.terminal q = true
      · simp [ha, ht, Item.bytes]
      · simp only [ha, ht, if_true, Bool.false_eq_true, if_false]
        refine ⟨hrun, ?_, ?_⟩
        · simp only [hsn, ha, if_true, Option.map_some]
          rw [List.take_of_length_le (by simp)]
        · simp [ha, ht]
    · simp only [ha, Bool.false_eq_true, if_false]
      refine ⟨hrun, ?_, ?_⟩
      · simp only [hsn, ha, Bool.false_eq_true, if_false]
        rw [h.cand]
        cases hl : longestAcc A A.start c.buffer with
        | none => simp
        | some p =>
          have := longestAcc_pos A _ _ _ _ hl
          simp [take_snoc_le _ _ _ this.2]
      · simp [ha]
  | none =>
    simp only
    cases hc : c.cand with
    | some p =>
      obtain ⟨item, n⟩ := p
      obtain ⟨q, _, hi, hn0, hn⟩ := rep_cand A c h item n hc
      simp only [hn0, hn, and_self, if_true]
      subst hi
      refine ⟨?_, ?_⟩
      · simp only [Item.bytes]
        rw [← List.append_assoc, List.take_append_drop]
      · simp only [Item.bytes]
        intro h0
        have := congrArg List.length h0
        simp only [List.length_take, List.length_nil] at this
        omega
    | none =>
      simp only
      by_cases he : c.buffer = []
      · simp [he, Item.bytes]
      · simp [he, Item.bytes]

theorem step1_cont_rep (A : Auto σ) (c c' : DSt σ) (b : UInt8) (h : Rep A c) (hs : step1 A c b = .cont c') :
    Rep A c' := by
  have := step1_rep A c b h
  rw [hs] at this; exact this

theorem step1_emit_rep (A : Auto σ) (c : DSt σ) (b : UInt8) (item : Item σ) (back : List UInt8) (h : Rep A c)
    (hs : step1 A c b = .emit item back) : item.bytes ++ back = c.buffer ++ [b] ∧ item.bytes ≠ [] := by
  have := step1_rep A c b h
  rw [hs] at this; exact this

theorem step1_not_stuck (A : Auto σ) (c : DSt σ) (b : UInt8) (h : Rep A c) : step1 A c b ≠ .stuck := by
  intro hs
  have := step1_rep A c b h
  rw [hs] at this; exact this

/-! ## conservation, invariance, composition -/

/-- nothing lost, duplicated or reordered; every item non-empty; the final state is represented -/
theorem go_conservation (A : Auto σ) (c : DSt σ) (stream : List UInt8) (h : Rep A c) :
    (go A c stream).1.flatMap Item.bytes ++ (go A c stream).2.buffer = c.buffer ++ stream ∧
      Rep A (go A c stream).2 ∧ (∀ it ∈ (go A c stream).1, it.bytes ≠ []) ∧
      (c.resched = [] → (go A c stream).2.resched = []) := by
  fun_induction go A c stream with
  | case1 c => simp [h]
  | case2 c b rest c' hs ih =>
    obtain ⟨h1, h2, h3, h4⟩ := ih (step1_cont_rep A c c' b h hs)
    have hb := step1_cont_buffer A c c' b hs
    refine ⟨?_, h2, h3, ?_⟩
    · rw [h1, hb.1]; simp
    · intro hr; exact h4 (by rw [hb.2, hr])
  | case3 c b rest item back hs r ih =>
    obtain ⟨h1, h2, h3, h4⟩ := ih (rep_init A)
    obtain ⟨e1, e2⟩ := step1_emit_rep A c b item back h hs
    refine ⟨?_, h2, ?_, ?_⟩
    · simp only [List.flatMap_cons, List.append_assoc]
      simp only [init, List.nil_append] at h1
      show item.bytes ++ (List.flatMap Item.bytes (go A (init A) (back ++ rest)).1 ++
        (go A (init A) (back ++ rest)).2.buffer) = _
      simp only [init]
      rw [h1, ← List.append_assoc, e1]; simp
    · intro it hit
      simp only [List.mem_cons] at hit
      rcases hit with rfl | hit
      · exact e2
      · exact h3 it hit
    · intro _; exact h4 (by simp [init])
  | case4 c b rest hs => exact absurd hs (step1_not_stuck A c b h)

theorem go_items_length (A : Auto σ) (c : DSt σ) (stream : List UInt8) (h : Rep A c) :
    (go A c stream).1.length ≤ c.buffer.length + stream.length := by
  obtain ⟨h1, _, h3, _⟩ := go_conservation A c stream h
  have hlen := congrArg List.length h1
  simp only [List.length_append] at hlen
  have : ∀ l : List (Item σ), (∀ it ∈ l, it.bytes ≠ []) → l.length ≤ (l.flatMap Item.bytes).length := by
    intro l hl
    induction l with
    | nil => simp
    | cons a t ih =>
      have ha : 0 < a.bytes.length := List.length_pos_iff.mpr (hl a (by simp))
      have := ih (fun it hit => hl it (by simp [hit]))
      simp only [List.length_cons, List.flatMap_cons, List.length_append]
      omega
  have := this _ h3
  omega

/-- reading `u ++ v` is reading `u` and then `v` -/
theorem go_append (A : Auto σ) (c : DSt σ) (u v : List UInt8) (h : Rep A c) :
    go A c (u ++ v) = ((go A c u).1 ++ (go A (go A c u).2 v).1, (go A (go A c u).2 v).2) := by
  fun_induction go A c u with
  | case1 c => simp
  | case2 c b rest c' hs ih =>
    rw [List.cons_append, go_cons, hs]
    exact ih (step1_cont_rep A c c' b h hs)
  | case3 c b rest item back hs r ih =>
    rw [List.cons_append, go_cons, hs]
    simp only
    rw [← List.append_assoc, ih (rep_init A)]
    rfl
  | case4 c b rest hs => exact absurd hs (step1_not_stuck A c b h)

/-! ## the literal model computes the stream machine -/

/-- the state without its `rescheduled` vector -/
def core (s : DSt σ) : DSt σ := { s with resched := [] }

theorem rep_core (A : Auto σ) (s : DSt σ) (h : Rep A s) : Rep A (core s) := rep_resched A s [] h

theorem core_of_nil (s : DSt σ) (h : s.resched = []) : core s = s := by
  cases s; simp_all [core]

theorem step1_core (A : Auto σ) (s : DSt σ) (b : UInt8) :
    step1 A (core s) b =
      match step1 A s b with
      | .cont c' => .cont (core c')
      | .emit item back => .emit item back
      | .stuck => .stuck := by
  unfold step1 core
  simp only
  split
  · split
    · split <;> rfl
    · rfl
  · split
    · split <;> rfl
    · split <;> rfl

/-- `decode_byte` (buffer pushed first, `take_candidate` draining `buffer[size..]` reversed onto
`rescheduled`) is one step of the stream machine -/
theorem decodeByte_step1 (A : Auto σ) (s : DSt σ) (b : UInt8) (h : Rep A s) :
    match step1 A s b with
    | .cont c' => decodeByte A s b = .ok (none, c')
    | .emit item back => decodeByte A s b =
        .ok (some item, { st := A.start, buffer := [], resched := s.resched ++ back.reverse, cand := none })
    | .stuck => False := by
  unfold step1 decodeByte
  cases hs : A.step s.st b with
  | some q =>
    by_cases ha : A.accepting q = true
    · by_cases ht : A.terminal q = true
      · simp [hs, ha, ht, takeCandidate]
      · simp [hs, ha, ht]
    · simp [hs, ha]
  | none =>
    simp only [hs]
    cases hc : s.cand with
    | some p =>
      obtain ⟨item, n⟩ := p
      obtain ⟨q, _, hi, hn0, hn⟩ := rep_cand A s h item n hc
      have h2 : (s.buffer ++ [b]).drop n = s.buffer.drop n ++ [b] := List.drop_append_of_le_length hn
      simp [hn0, hn, takeCandidate, h2, Nat.le_succ_of_le hn]
    | none =>
      by_cases he : s.buffer = []
      · simp [he, takeCandidate]
      · have hpos : 0 < s.buffer.length := List.length_pos_iff.mpr he
        simp [he, takeCandidate, hpos]

def optList {α} : Option α → List α
  | none => []
  | some a => [a]

theorem decodeByte_go (A : Auto σ) (s : DSt σ) (b : UInt8) (h : Rep A s) :
    ∃ it s', decodeByte A s b = .ok (it, s') ∧ Rep A s' ∧ (it = none → s'.resched = s.resched) ∧
      ∀ rest, go A (core s) (b :: (s.resched.reverse ++ rest)) =
        (optList it ++ (go A (core s') (s'.resched.reverse ++ rest)).1,
          (go A (core s') (s'.resched.reverse ++ rest)).2) := by
  have h1 := decodeByte_step1 A s b h
  have h2 := step1_rep A s b h
  cases hs : step1 A s b with
  | cont c' =>
    rw [hs] at h1 h2
    simp only at h1 h2
    refine ⟨none, c', h1, h2, fun _ => (step1_cont_buffer A s c' b hs).2, ?_⟩
    intro rest
    rw [go_cons, step1_core, hs]
    simp [optList, (step1_cont_buffer A s c' b hs).2]
  | emit item back =>
    rw [hs] at h1 h2
    simp only at h1 h2
    refine ⟨some item, _, h1, ?_, by simp, ?_⟩
    · exact rep_resched A _ _ (rep_init A)
    · intro rest
      rw [go_cons, step1_core, hs]
      simp [optList, core, init]
  | stuck => rw [hs] at h2; exact h2.elim

theorem pop_some {v r : List UInt8} {b : UInt8} (h : pop v = some (b, r)) : v = r ++ [b] := by
  unfold pop at h
  split at h
  · cases h
  · rename_i c cs hr
    cases h
    have := congrArg List.reverse hr
    simpa using this

theorem pop_none {v : List UInt8} (h : pop v = none) : v = [] := by
  unfold pop at h
  split at h
  · rename_i hr; simpa using hr
  · cases h

/-- what a part of `decode` that returns `(it, s')` (and leaves `rest'` unread) means for the stream machine -/
def Agrees (A : Auto σ) (s : DSt σ) (stream : List UInt8) (it : Option (Item σ)) (s' : DSt σ)
    (rest' : List UInt8) : Prop :=
  go A (core s) stream =
    (optList it ++ (go A (core s') (s'.resched.reverse ++ rest')).1,
      (go A (core s') (s'.resched.reverse ++ rest')).2)

/-- first loop of `decode` -/
theorem drainResched_go (A : Auto σ) (n : Nat) (s : DSt σ) (hn : s.resched.length = n) (h : Rep A s) :
    ∃ it s', drainResched A s = .ok (it, s') ∧ Rep A s' ∧ (it = none → s'.resched = []) ∧
      ∀ rest, Agrees A s (s.resched.reverse ++ rest) it s' rest := by
  induction n using Nat.strongRecOn generalizing s with
  | _ n ih =>
    rw [drainResched]
    split
    · rename_i hp
      have := pop_none hp
      refine ⟨none, s, rfl, h, fun _ => this, ?_⟩
      intro rest
      simp [Agrees, optList]
    · rename_i byte rs hp
      have hv := pop_some hp
      obtain ⟨it, s1, e1, r1, n1, g1⟩ := decodeByte_go A { s with resched := rs } byte (rep_resched A s rs h)
      have hcore : core { s with resched := rs } = core s := rfl
      have hstream : ∀ rest, s.resched.reverse ++ rest = byte :: (rs.reverse ++ rest) := by
        intro rest; rw [hv]; simp
      split
      · rename_i e he; rw [e1] at he; cases he
      · rename_i item s' he
        rw [e1] at he; cases he
        refine ⟨some item, s1, rfl, r1, by simp, ?_⟩
        intro rest
        have := g1 rest
        rw [hcore] at this
        simp only [Agrees, hstream]
        exact this
      · rename_i s' he
        rw [e1] at he; cases he
        have hlen : s1.resched.length < n := by
          rw [n1 rfl]; simp only
          have := congrArg List.length hv
          simp at this; omega
        obtain ⟨it2, s2, e2, r2, n2, g2⟩ := ih _ hlen s1 rfl r1
        refine ⟨it2, s2, e2, r2, n2, ?_⟩
        intro rest
        have := g1 rest
        rw [hcore] at this
        simp only [Agrees, hstream]
        rw [this]
        simp only [optList, List.nil_append]
        exact g2 rest

/-- second loop of `decode` -/
theorem decodeInput_go (A : Auto σ) (input : List UInt8) (s : DSt σ) (hr : s.resched = []) (h : Rep A s) :
    ∃ it s' rest', decodeInput A s input = .ok (it, s', rest') ∧ Rep A s' ∧
      (it = none → s'.resched = [] ∧ rest' = []) ∧ Agrees A s input it s' rest' := by
  induction input generalizing s with
  | nil =>
    refine ⟨none, s, [], rfl, h, fun _ => ⟨hr, rfl⟩, ?_⟩
    simp [Agrees, optList, hr]
  | cons byte rest ih =>
    obtain ⟨it, s1, e1, r1, n1, g1⟩ := decodeByte_go A s byte h
    have g := g1 rest
    simp only [hr, List.reverse_nil, List.nil_append] at g
    simp only [decodeInput, e1]
    cases it with
    | some item =>
      exact ⟨some item, s1, rest, rfl, r1, by simp, g⟩
    | none =>
      have hr1 : s1.resched = [] := by rw [n1 rfl, hr]
      obtain ⟨it2, s2, rest2, e2, r2, n2, g2⟩ := ih s1 hr1 r1
      refine ⟨it2, s2, rest2, e2, r2, n2, ?_⟩
      simp only [Agrees, g, optList, List.nil_append, hr1, List.reverse_nil]
      exact g2

/-- `decode`: at most one item, rescheduled bytes first -/
theorem decode_go (A : Auto σ) (s : DSt σ) (input : List UInt8) (h : Rep A s) :
    ∃ it s' rest', decode A s input = .ok (it, s', rest') ∧ Rep A s' ∧
      (it = none → s'.resched = [] ∧ rest' = []) ∧
      Agrees A s (s.resched.reverse ++ input) it s' rest' := by
  obtain ⟨it, s1, e1, r1, n1, g1⟩ := drainResched_go A _ s rfl h
  simp only [decode, e1]
  cases it with
  | some item => exact ⟨some item, s1, input, rfl, r1, by simp, g1 input⟩
  | none =>
    have hr1 := n1 rfl
    obtain ⟨it2, s2, rest2, e2, r2, n2, g2⟩ := decodeInput_go A input s1 hr1 r1
    refine ⟨it2, s2, rest2, e2, r2, n2, ?_⟩
    have := g1 input
    simp only [Agrees, optList, List.nil_append, hr1, List.reverse_nil] at this
    simp only [Agrees, this]
    exact g2

/-- `decode_into` with enough fuel computes the stream machine -/
theorem decodeIntoFuel_go (A : Auto σ) (fuel : Nat) (s : DSt σ) (input : List UInt8) (h : Rep A s)
    (hf : (go A (core s) (s.resched.reverse ++ input)).1.length < fuel) :
    decodeIntoFuel A fuel s input = .ok (go A (core s) (s.resched.reverse ++ input)) := by
  induction fuel generalizing s input with
  | zero => omega
  | succ fuel ih =>
    obtain ⟨it, s1, rest1, e1, r1, n1, g1⟩ := decode_go A s input h
    simp only [decodeIntoFuel, e1]
    simp only [Agrees] at g1
    cases it with
    | none =>
      obtain ⟨hr, hrest⟩ := n1 rfl
      rw [g1, hr, hrest]
      simp [optList, go_nil, core_of_nil s1 hr]
    | some item =>
      rw [g1] at hf ⊢
      simp only [optList, List.cons_append, List.nil_append, List.length_cons] at hf
      simp only
      rw [ih s1 rest1 r1 (by omega)]
      simp [optList]

theorem decodeInto_go (A : Auto σ) (s : DSt σ) (input : List UInt8) (h : Rep A s) :
    decodeInto A s input = .ok (go A (core s) (s.resched.reverse ++ input)) := by
  apply decodeIntoFuel_go A _ s input h
  have := go_items_length A (core s) (s.resched.reverse ++ input) (rep_core A s h)
  have hb : (core s).buffer = s.buffer := rfl
  simp only [hb, List.length_append, List.length_reverse] at this
  omega

/-- reads handed to `decode_into` one after the other compute the stream machine on their concatenation -/
theorem feedAll_go (A : Auto σ) (chunks : List (List UInt8)) (s : DSt σ) (h : Rep A s) (hr : s.resched = []) :
    ∃ per, feedAll A s chunks = .ok (per, (go A s chunks.flatten).2) ∧
      per.flatten = (go A s chunks.flatten).1 := by
  induction chunks generalizing s with
  | nil => exact ⟨[], by simp [feedAll, go_nil], by simp [go_nil]⟩
  | cons chunk cs ih =>
    have e1 := decodeInto_go A s chunk h
    simp only [hr, List.reverse_nil, List.nil_append, core_of_nil s hr] at e1
    obtain ⟨_, r2, _, r4⟩ := go_conservation A s chunk h
    obtain ⟨per, e2, f2⟩ := ih (go A s chunk).2 r2 (r4 hr)
    refine ⟨(go A s chunk).1 :: per, ?_, ?_⟩
    · simp only [feedAll, e1, e2, List.flatten_cons]
      rw [go_append A s chunk cs.flatten h]
    · simp only [List.flatten_cons, f2]
      rw [go_append A s chunk cs.flatten h]

/-! ## the stream machine computes the specification -/

theorem tokenize_nil (A : Auto σ) : tokenize A [] = ([], []) := by
  rw [tokenize]; simp

theorem tokenize_pending (A : Auto σ) (w : List UInt8)
    (h1 : liveLen A A.start w = w.length) (h2 : complete A w = false) : tokenize A w = ([], w) := by
  rw [tokenize]
  by_cases hne : w = []
  · simp [hne]
  · simp [hne, h1, h2]

theorem tokenize_tok (A : Auto σ) (w : List UInt8) (n : Nat) (q : σ) (hne : w ≠ [])
    (hd : ¬ (liveLen A A.start w = w.length ∧ complete A w = false))
    (hl : longestAcc A A.start w = some (n, q)) :
    tokenize A w = (.tok (w.take n) q :: (tokenize A (w.drop n)).1, (tokenize A (w.drop n)).2) := by
  rw [tokenize]
  simp only [hne, if_false, hd]
  split
  · rename_i n' q' hl'
    rw [hl] at hl'; cases hl'; rfl
  · rename_i hl'; rw [hl] at hl'; cases hl'

theorem tokenize_raw (A : Auto σ) (w : List UInt8) (hne : w ≠ [])
    (hd : ¬ (liveLen A A.start w = w.length ∧ complete A w = false))
    (hl : longestAcc A A.start w = none) :
    tokenize A w =
      (.raw (w.take (max (liveLen A A.start w) 1)) :: (tokenize A (w.drop (max (liveLen A A.start w) 1))).1,
        (tokenize A (w.drop (max (liveLen A A.start w) 1))).2) := by
  rw [tokenize]
  simp only [hne, if_false, hd]
  split
  · rename_i n' q' hl'; rw [hl] at hl'; cases hl'
  · rfl

theorem complete_of_run (A : Auto σ) (w : List UInt8) (q : σ) (h : runA A A.start w = some q) :
    complete A w = (A.accepting q && A.terminal q) := by
  simp [complete, h]

/-- an emitting step of the machine is one step of `tokenize` -/
theorem step1_tokenize (A : Auto σ) (hT : A.TermOk) (c : DSt σ) (b : UInt8) (item : Item σ)
    (back : List UInt8) (h : Rep A c) (hs : step1 A c b = .emit item back) (rest : List UInt8) :
    tokenize A (c.buffer ++ b :: rest) =
      (item :: (tokenize A (back ++ rest)).1, (tokenize A (back ++ rest)).2) := by
  have hne : c.buffer ++ b :: rest ≠ [] := by simp
  unfold step1 at hs
  cases hstep : A.step c.st b with
  | some q =>
    rw [hstep] at hs
    simp only at hs
    by_cases ha : A.accepting q = true
    · by_cases ht : A.terminal q = true
      · simp only [ha, ht, if_true] at hs
        cases hs
        have hrun := runA_snoc A _ _ _ _ _ h.live hstep
        have hw : c.buffer ++ b :: rest = (c.buffer ++ [b]) ++ rest := by simp
        -- nothing can be read from a terminal state
        have hlive0 : liveLen A q rest = 0 := by
          cases rest with
          | nil => rfl
          | cons x xs => simp [liveLen, hT q ht x]
        have hacc0 : longestAcc A q rest = none := by
          cases rest with
          | nil => rfl
          | cons x xs => simp [longestAcc, hT q ht x]
        have hlive : liveLen A A.start (c.buffer ++ b :: rest) = c.buffer.length + 1 := by
          rw [hw, liveLen_append A _ _ _ _ hrun, hlive0]; simp
        have hacc : longestAcc A A.start (c.buffer ++ b :: rest) = some (c.buffer.length + 1, q) := by
          rw [hw, longestAcc_append A _ _ _ _ hrun, hacc0]
          simp only
          rw [longestAcc_snoc A _ _ _ _ _ h.live hstep]; simp [ha]
        have hd : ¬ (liveLen A A.start (c.buffer ++ b :: rest) = (c.buffer ++ b :: rest).length ∧
            complete A (c.buffer ++ b :: rest) = false) := by
          intro ⟨h1, h2⟩
          rw [hlive] at h1
          simp only [List.length_append, List.length_cons] at h1
          have hr : rest = [] := List.eq_nil_of_length_eq_zero (by omega)
          subst hr
          rw [complete_of_run A _ q (by simpa using hrun)] at h2
          simp [ha, ht] at h2
        rw [tokenize_tok A _ _ _ hne hd hacc]
        have e1 : (c.buffer ++ b :: rest).take (c.buffer.length + 1) = c.buffer ++ [b] := by
          rw [hw, List.take_append_of_le_length (by simp)]
          apply List.take_of_length_le; simp
        have e2 : (c.buffer ++ b :: rest).drop (c.buffer.length + 1) = rest := by
          rw [hw, List.drop_append_of_le_length (by simp)]
          rw [List.drop_of_length_le (by simp)]; simp
        rw [e1, e2]; simp
      · simp [ha, ht] at hs
    · simp [ha] at hs
  | none =>
    rw [hstep] at hs
    simp only at hs
    have hlive : liveLen A A.start (c.buffer ++ b :: rest) = c.buffer.length :=
      liveLen_dead A _ _ _ _ _ h.live hstep
    have hacc : longestAcc A A.start (c.buffer ++ b :: rest) = longestAcc A A.start c.buffer :=
      longestAcc_dead A _ _ _ _ _ h.live hstep
    have hd : ¬ (liveLen A A.start (c.buffer ++ b :: rest) = (c.buffer ++ b :: rest).length ∧
        complete A (c.buffer ++ b :: rest) = false) := by
      intro ⟨h1, _⟩
      rw [hlive] at h1
      simp at h1
    cases hc : c.cand with
    | some p =>
      obtain ⟨it, n⟩ := p
      obtain ⟨q, hl, hi, hn0, hn⟩ := rep_cand A c h it n hc
      rw [hc] at hs
      simp only [hn0, hn, and_self, if_true] at hs
      cases hs
      rw [tokenize_tok A _ n q hne hd (by rw [hacc, hl])]
      rw [List.take_append_of_le_length hn, List.drop_append_of_le_length hn]
      simp [hi]
    | none =>
      rw [hc] at hs
      simp only at hs
      have hl : longestAcc A A.start c.buffer = none := by
        have := h.cand
        rw [hc] at this
        cases hl : longestAcc A A.start c.buffer with
        | none => rfl
        | some p => simp [hl] at this
      rw [tokenize_raw A _ hne hd (by rw [hacc, hl]), hlive]
      by_cases he : c.buffer = []
      · simp only [he, if_true] at hs
        cases hs
        simp [he]
      · simp only [he, if_false] at hs
        cases hs
        have hpos : 0 < c.buffer.length := List.length_pos_iff.mpr he
        have hm : max c.buffer.length 1 = c.buffer.length := by omega
        rw [hm, List.take_append_of_le_length (Nat.le_refl _), List.drop_append_of_le_length (Nat.le_refl _)]
        simp

/-- from a represented state the stream machine yields the leftmost-longest tokenisation of
`buffer ++ stream`, and ends in the state that represents the pending rest -/
theorem go_tokenize (A : Auto σ) (hT : A.TermOk) (c : DSt σ) (stream : List UInt8) (h : Rep A c)
    (hr : c.resched = []) :
    go A c stream =
      ((tokenize A (c.buffer ++ stream)).1, stateOf A (tokenize A (c.buffer ++ stream)).2) := by
  fun_induction go A c stream with
  | case1 c =>
    simp only [List.append_nil]
    by_cases he : c.buffer = []
    · have e := rep_eq_stateOf A c h hr
      rw [he] at e ⊢
      rw [tokenize_nil]
      exact Prod.ext rfl e
    · rw [tokenize_pending A c.buffer (liveLen_of_run A _ _ _ h.live)
        (by rw [complete_of_run A _ _ h.live]; exact h.undecided he)]
      simp only
      rw [← rep_eq_stateOf A c h hr]
  | case2 c b rest c' hs ih =>
    have hb := step1_cont_buffer A c c' b hs
    rw [ih (step1_cont_rep A c c' b h hs) (by rw [hb.2, hr]), hb.1]
    simp
  | case3 c b rest item back hs r ih =>
    have := ih (rep_init A) (by simp [init])
    simp only [init, List.nil_append] at this
    simp only [r, init]
    rw [this, step1_tokenize A hT c b item back h hs rest]
  | case4 c b rest hs => exact absurd hs (step1_not_stuck A c b h)

end SurfModel.Tokenizer
