import SurfModel.Automata
import SurfProofs.Lemmas.Graph
/-!
The graph a numbered NFA denotes, its language, and well-formedness (all ids mentioned are state ids).
-/
namespace SurfProofs.NFASem
open SurfModel.Automata SurfProofs.Graph

/-- the graph of a list of states: ids are indices -/
def gr (states : List NState) : Gr Nat :=
  { edge := fun s b t => ∃ st, states[s]? = some st ∧ (b, t) ∈ st.edges
    eps := fun s t => ∃ st, states[s]? = some st ∧ t ∈ st.eps }

/-- `q` is reachable from the start state reading `w` -/
def Reach (n : NFA) (w : List UInt8) (q : Nat) : Prop := Path (gr n.states) n.start w q

/-- the language of the NFA: words labelling a path from start to stop -/
def Lang (n : NFA) (w : List UInt8) : Prop := Reach n w n.stop

/-- all edge targets are state ids -/
def WFs (states : List NState) : Prop :=
  ∀ (s : Nat) (st : NState), states[s]? = some st →
    (∀ p ∈ st.edges, p.2 < states.length) ∧ (∀ t ∈ st.eps, t < states.length)

structure WF (n : NFA) : Prop where
  start : n.start < n.states.length
  stop : n.stop < n.states.length
  states : WFs n.states

theorem gr_edge_lt {states : List NState} {s b t} (h : (gr states).edge s b t) : s < states.length := by
  obtain ⟨st, h1, _⟩ := h
  rcases Nat.lt_or_ge s states.length with h | h
  · exact h
  · rw [List.getElem?_eq_none h] at h1; cases h1

theorem gr_eps_lt {states : List NState} {s t} (h : (gr states).eps s t) : s < states.length := by
  obtain ⟨st, h1, _⟩ := h
  rcases Nat.lt_or_ge s states.length with h | h
  · exact h
  · rw [List.getElem?_eq_none h] at h1; cases h1

theorem WFs.edge {states : List NState} (h : WFs states) {s b t} (he : (gr states).edge s b t) :
    t < states.length := by
  obtain ⟨st, h1, h2⟩ := he
  exact (h s st h1).1 (b, t) h2

theorem WFs.eps {states : List NState} (h : WFs states) {s t} (he : (gr states).eps s t) :
    t < states.length := by
  obtain ⟨st, h1, h2⟩ := he
  exact (h s st h1).2 t h2

end SurfProofs.NFASem
