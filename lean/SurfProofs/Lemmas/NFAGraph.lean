import SurfProofs.Lemmas.NFASem
namespace SurfProofs.NFAGraph
open SurfModel.Automata SurfProofs.Graph SurfProofs.NFASem

theorem mem_insertNat (x y : Nat) (l : List Nat) : y ∈ insertNat x l ↔ y = x ∨ y ∈ l := by
  induction l with
  | nil => simp [insertNat]
  | cons h t ih =>
    simp only [insertNat]
    split
    · simp
    · split
      · subst_vars; simp
      · simp [ih]; constructor <;> (intro h; rcases h with h | h | h <;> simp [h])

/-- tag of the state with id `q` -/
def tagAt (sts : List NState) (q : Nat) : Option Nat := (sts[q]?).bind (·.tag)

theorem tagOf_eq (n : NFA) (q : Nat) : tagOf n q = tagAt n.states q := by
  unfold tagOf tagAt
  cases n.states[q]? <;> rfl

/-! ### `addEps`, `addEpsList` -/

theorem getElem?_addEps (sts : List NState) (s t i : Nat) :
    (addEps sts s t)[i]? =
      if i = s then (sts[i]?).map (fun st => { st with eps := insertNat t st.eps }) else sts[i]? := by
  unfold addEps
  rw [List.getElem?_modify]
  by_cases h : s = i
  · subst h; simp
  · have : ¬ i = s := fun e => h e.symm
    simp [h, this]

@[simp] theorem length_addEps (sts : List NState) (s t : Nat) : (addEps sts s t).length = sts.length := by
  simp [addEps]

theorem edge_addEps (sts : List NState) (s t x : Nat) (b : UInt8) (y : Nat) :
    (gr (addEps sts s t)).edge x b y ↔ (gr sts).edge x b y := by
  simp only [gr, getElem?_addEps]
  by_cases h : x = s
  · subst h
    cases hs : sts[x]? with
    | none => simp
    | some st0 => simp
  · simp [h]

theorem eps_addEps (sts : List NState) (s t x y : Nat) :
    (gr (addEps sts s t)).eps x y ↔ (gr sts).eps x y ∨ (x = s ∧ y = t ∧ s < sts.length) := by
  simp only [gr, getElem?_addEps]
  by_cases h : x = s
  · subst h
    cases hs : sts[x]? with
    | none =>
      have : ¬ x < sts.length := by
        intro hlt; rw [List.getElem?_eq_getElem hlt] at hs; cases hs
      simp [this]
    | some st0 =>
      have : x < sts.length := by
        rcases Nat.lt_or_ge x sts.length with h | h
        · exact h
        · rw [List.getElem?_eq_none h] at hs; cases hs
      simp [mem_insertNat, this]
      constructor
      · rintro (h | h) <;> simp [h]
      · rintro (h | h) <;> simp [h]
  · simp [h]

theorem tagAt_addEps (sts : List NState) (s t x : Nat) : tagAt (addEps sts s t) x = tagAt sts x := by
  simp only [tagAt, getElem?_addEps]
  by_cases h : x = s
  · subst h; cases sts[x]? <;> simp
  · simp [h]

@[simp] theorem length_addEpsList (ps : List (Nat × Nat)) (sts : List NState) :
    (addEpsList ps sts).length = sts.length := by
  unfold addEpsList
  induction ps generalizing sts with
  | nil => rfl
  | cons p ps ih => simp [List.foldl_cons, ih]

theorem edge_addEpsList (ps : List (Nat × Nat)) (sts : List NState) (x : Nat) (b : UInt8) (y : Nat) :
    (gr (addEpsList ps sts)).edge x b y ↔ (gr sts).edge x b y := by
  unfold addEpsList
  induction ps generalizing sts with
  | nil => rfl
  | cons p ps ih => rw [List.foldl_cons, ih, edge_addEps]

theorem eps_addEpsList (ps : List (Nat × Nat)) (sts : List NState) (x y : Nat) :
    (gr (addEpsList ps sts)).eps x y ↔ (gr sts).eps x y ∨ ((x, y) ∈ ps ∧ x < sts.length) := by
  unfold addEpsList
  induction ps generalizing sts with
  | nil => simp
  | cons p ps ih =>
    rw [List.foldl_cons, ih, eps_addEps, length_addEps]
    constructor
    · rintro ((h | ⟨h1, h2, h3⟩) | ⟨h1, h2⟩)
      · exact Or.inl h
      · exact Or.inr ⟨by subst h1 h2; simp, by omega⟩
      · exact Or.inr ⟨by simp [h1], h2⟩
    · rintro (h | ⟨h1, h2⟩)
      · exact Or.inl (Or.inl h)
      · rcases List.mem_cons.mp h1 with h1 | h1
        · exact Or.inl (Or.inr ⟨by rw [← h1], by rw [← h1], by rw [← h1]; exact h2⟩)
        · exact Or.inr ⟨h1, h2⟩

theorem tagAt_addEpsList (ps : List (Nat × Nat)) (sts : List NState) (x : Nat) :
    tagAt (addEpsList ps sts) x = tagAt sts x := by
  unfold addEpsList
  induction ps generalizing sts with
  | nil => rfl
  | cons p ps ih => rw [List.foldl_cons, ih, tagAt_addEps]

/-! ### renumbering -/

theorem shift_edge (L M : List NState) (x k B : Nat) (h : L[x]? = (M[k]?).map (NState.shift B))
    (c : UInt8) (y : Nat) : (gr L).edge x c y ↔ ∃ y', y = y' + B ∧ (gr M).edge k c y' := by
  simp only [gr, h]
  cases M[k]? with
  | none => simp
  | some st0 =>
    simp only [Option.map_some, Option.some.injEq, exists_eq_left', NState.shift, List.mem_map, Prod.mk.injEq]
    constructor
    · rintro ⟨p, hp, h1, h2⟩
      exact ⟨p.2, h2.symm, by rw [← h1]; exact hp⟩
    · rintro ⟨y', h1, h2⟩
      exact ⟨(c, y'), h2, rfl, h1.symm⟩

theorem shift_eps (L M : List NState) (x k B : Nat) (h : L[x]? = (M[k]?).map (NState.shift B))
    (y : Nat) : (gr L).eps x y ↔ ∃ y', y = y' + B ∧ (gr M).eps k y' := by
  simp only [gr, h]
  cases M[k]? with
  | none => simp
  | some st0 =>
    simp only [Option.map_some, Option.some.injEq, exists_eq_left', NState.shift, List.mem_map]
    constructor
    · rintro ⟨p, hp, h1⟩
      exact ⟨p, h1.symm, hp⟩
    · rintro ⟨y', h1, h2⟩
      exact ⟨y', h2, h1.symm⟩

theorem shift_tag (L M : List NState) (x k B : Nat) (h : L[x]? = (M[k]?).map (NState.shift B)) :
    tagAt L x = tagAt M k := by
  simp only [tagAt, h]
  cases M[k]? <;> simp [NState.shift]

/-- number of states of a list of operands -/
def total (ns : List NFA) : Nat := (ns.map (·.states.length)).sum

/-- offset of operand `i` inside the merged state list (relative to the initial offset) -/
def base (ns : List NFA) (i : Nat) : Nat := total (ns.take i)

@[simp] theorem base_zero (ns : List NFA) : base ns 0 = 0 := by simp [base, total]

@[simp] theorem base_succ (n : NFA) (ns : List NFA) (i : Nat) :
    base (n :: ns) (i + 1) = n.states.length + base ns i := by simp [base, total]

theorem base_step (ns : List NFA) (i : Nat) (n : NFA) (h : ns[i]? = some n) :
    base ns (i + 1) = base ns i + n.states.length := by
  induction ns generalizing i with
  | nil => simp at h
  | cons m ns ih =>
    cases i with
    | zero => simp at h; subst h; simp [base, total]
    | succ i => simp at h; simp [ih i h]; omega

theorem base_mono (ns : List NFA) (i j : Nat) (h : i ≤ j) : base ns i ≤ base ns j := by
  induction ns generalizing i j with
  | nil => simp [base, total]
  | cons m ns ih =>
    cases i with
    | zero => simp
    | succ i =>
      cases j with
      | zero => omega
      | succ j => simp; exact ih i j (by omega)

theorem base_length (ns : List NFA) : base ns ns.length = total ns := by simp [base]

theorem length_merge (ns : List NFA) (off : Nat) : (NFA.mergeStates ns off).1.length = total ns := by
  induction ns generalizing off with
  | nil => simp [NFA.mergeStates, total]
  | cons m ns ih => simp [NFA.mergeStates, ih, total]

theorem length_merge_ends (ns : List NFA) (off : Nat) : (NFA.mergeStates ns off).2.length = ns.length := by
  induction ns generalizing off with
  | nil => simp [NFA.mergeStates]
  | cons m ns ih => simp [NFA.mergeStates, ih]

/-- where operand `i` sits in the result of `merge_states`, and with which renumbering -/
theorem merge_get (ns : List NFA) (off i : Nat) (n : NFA) (h : ns[i]? = some n) (k : Nat)
    (hk : k < n.states.length) :
    (NFA.mergeStates ns off).1[base ns i + k]? = (n.states[k]?).map (NState.shift (off + base ns i)) := by
  induction ns generalizing off i with
  | nil => simp at h
  | cons m ns ih =>
    cases i with
    | zero =>
      simp at h; subst h
      simp only [NFA.mergeStates, base_zero, Nat.zero_add, Nat.add_zero]
      rw [List.getElem?_append_left (by simpa using hk)]
      simp
    | succ i =>
      simp at h
      simp only [NFA.mergeStates, base_succ]
      rw [List.getElem?_append_right (by simp; omega)]
      have := ih (off + m.states.length) i h
      simp only [List.length_map]
      rw [show m.states.length + base ns i + k - m.states.length = base ns i + k by omega, this]
      congr 2; omega

theorem merge_ends (ns : List NFA) (off i : Nat) :
    (NFA.mergeStates ns off).2[i]? =
      (ns[i]?).map (fun n => (n.start + (off + base ns i), n.stop + (off + base ns i))) := by
  induction ns generalizing off i with
  | nil => simp [NFA.mergeStates]
  | cons m ns ih =>
    cases i with
    | zero => simp [NFA.mergeStates]
    | succ i =>
      simp only [NFA.mergeStates, List.getElem?_cons_succ, ih, base_succ]
      cases ns[i]? with
      | none => rfl
      | some n => simp; omega


/-- the state list every n-ary combinator builds: fresh states `pre` (ids `0..`), the renumbered operands,
    then extra ε-edges -/
def assemble (pre : List NState) (ns : List NFA) (extra : List (Nat × Nat)) : List NState :=
  addEpsList extra (pre ++ (NFA.mergeStates ns pre.length).1)

@[simp] theorem length_assemble (pre ns extra) : (assemble pre ns extra).length = pre.length + total ns := by
  simp [assemble, length_merge]

theorem base_add_le (ns : List NFA) (i : Nat) (n : NFA) (h : ns[i]? = some n) :
    base ns i + n.states.length ≤ total ns := by
  rw [← base_step ns i n h, ← base_length]
  apply base_mono
  have : i < ns.length := by
    rcases Nat.lt_or_ge i ns.length with h' | h'
    · exact h'
    · rw [List.getElem?_eq_none h'] at h; cases h
  omega

theorem cover (ns : List NFA) (x : Nat) (h : x < total ns) :
    ∃ i n, ns[i]? = some n ∧ base ns i ≤ x ∧ x < base ns i + n.states.length := by
  induction ns generalizing x with
  | nil => simp [total] at h
  | cons m ns ih =>
    by_cases hx : x < m.states.length
    · exact ⟨0, m, rfl, by simp, by simpa using hx⟩
    · have : x - m.states.length < total ns := by
        simp [total] at h ⊢; omega
      obtain ⟨i, n, h1, h2, h3⟩ := ih _ this
      exact ⟨i + 1, n, by simpa using h1, by simp; omega, by simp; omega⟩

theorem assemble_blk (pre : List NState) (ns : List NFA) (i : Nat) (n : NFA) (h : ns[i]? = some n) (k : Nat)
    (hk : k < n.states.length) :
    (pre ++ (NFA.mergeStates ns pre.length).1)[k + (pre.length + base ns i)]? =
      (n.states[k]?).map (NState.shift (pre.length + base ns i)) := by
  rw [List.getElem?_append_right (by omega)]
  rw [show k + (pre.length + base ns i) - pre.length = base ns i + k by omega]
  exact merge_get ns pre.length i n h k hk

/-- operand `i` sits in the assembled list as a renumbered copy, plus the extra edges -/
theorem emb_assemble (pre : List NState) (ns : List NFA) (extra : List (Nat × Nat)) (i : Nat) (n : NFA)
    (h : ns[i]? = some n) (hwf : WFs n.states) :
    Emb (gr (assemble pre ns extra)) (gr n.states) (pre.length + base ns i) n.states.length
      (fun x y => (x, y) ∈ extra) where
  edge_iff := by
    intro k c y hk
    unfold assemble
    rw [edge_addEpsList]
    exact shift_edge _ _ _ _ _ (assemble_blk pre ns i n h k hk) c y
  eps_iff := by
    intro k y hk
    unfold assemble
    rw [eps_addEpsList, shift_eps _ _ _ _ _ (assemble_blk pre ns i n h k hk)]
    have := base_add_le ns i n h
    have hlt : k + (pre.length + base ns i) < (pre ++ (NFA.mergeStates ns pre.length).1).length := by
      simp [length_merge]; omega
    constructor
    · rintro (h | ⟨h, _⟩)
      · exact Or.inl h
      · exact Or.inr h
    · rintro (h | h)
      · exact Or.inl h
      · exact Or.inr ⟨h, hlt⟩
  src_edge := fun k c y he => gr_edge_lt he
  src_eps := fun k y he => gr_eps_lt he
  tgt_edge := fun k c y he => hwf.edge he
  tgt_eps := fun k y he => hwf.eps he

theorem tagAt_assemble_blk (pre : List NState) (ns : List NFA) (extra : List (Nat × Nat)) (i : Nat) (n : NFA)
    (h : ns[i]? = some n) (k : Nat) (hk : k < n.states.length) :
    tagAt (assemble pre ns extra) (k + (pre.length + base ns i)) = tagAt n.states k := by
  unfold assemble
  rw [tagAt_addEpsList]
  exact shift_tag _ _ _ _ _ (assemble_blk pre ns i n h k hk)

theorem assemble_pre_edge (pre ns extra) (x : Nat) (hx : x < pre.length) (c : UInt8) (y : Nat) :
    (gr (assemble pre ns extra)).edge x c y ↔ (gr pre).edge x c y := by
  unfold assemble
  rw [edge_addEpsList]
  simp only [gr, List.getElem?_append_left hx]

theorem assemble_pre_eps (pre ns extra) (x : Nat) (hx : x < pre.length) (y : Nat) :
    (gr (assemble pre ns extra)).eps x y ↔ (gr pre).eps x y ∨ (x, y) ∈ extra := by
  unfold assemble
  rw [eps_addEpsList]
  have : x < (pre ++ (NFA.mergeStates ns pre.length).1).length := by simp; omega
  simp only [gr, List.getElem?_append_left hx, this, and_true]

theorem tagAt_assemble_pre (pre ns extra) (x : Nat) (hx : x < pre.length) :
    tagAt (assemble pre ns extra) x = tagAt pre x := by
  unfold assemble
  rw [tagAt_addEpsList]
  simp only [tagAt, List.getElem?_append_left hx]

/-- the block of operand `i` -/
def Blk (off : Nat) (ns : List NFA) (i : Nat) (x : Nat) : Prop :=
  ∃ n, ns[i]? = some n ∧ InBlk (off + base ns i) n.states.length x

theorem blk_disj (off : Nat) (ns : List NFA) (i j x : Nat) (hi : Blk off ns i x) (hj : Blk off ns j x) : i = j := by
  obtain ⟨n, h1, h2, h3⟩ := hi
  obtain ⟨n', h1', h2', h3'⟩ := hj
  rcases Nat.lt_trichotomy i j with h | h | h
  · have := base_mono ns (i + 1) j (by omega)
    rw [base_step ns i n h1] at this
    omega
  · exact h
  · have := base_mono ns (j + 1) i (by omega)
    rw [base_step ns j n' h1'] at this
    omega

theorem blk_ge (off : Nat) (ns : List NFA) (i x : Nat) (h : Blk off ns i x) : off ≤ x ∧ x < off + total ns := by
  obtain ⟨n, h1, h2, h3⟩ := h
  have := base_add_le ns i n h1
  omega

end SurfProofs.NFAGraph
