import SurfProofs.Lemmas.C01Chars
/-!
C01, helper lemmas 4: the specification `display` on character-only surfaces.
-/
namespace SurfProofs.C01
open SurfModel.Screen SurfModel.Renderer

theorem mem_allPos (H W : Nat) (q : Nat × Nat) : q ∈ allPos H W ↔ q.1 < H ∧ q.2 < W := by
  obtain ⟨a, b⟩ := q
  simp only [allPos, List.mem_flatMap, List.mem_map, List.mem_range, Prod.mk.injEq]
  constructor
  · rintro ⟨r, hr, c, hc, rfl, rfl⟩; exact ⟨hr, hc⟩
  · rintro ⟨h1, h2⟩; exact ⟨a, h1, b, h2, rfl, rfl⟩

theorem coverOf_none (P : Params) (H W : Nat) (s : Surface) (p : Nat × Nat)
    (h : ∀ r c, r < H → c < W → imgOf P (s r c) = none) : coverOf P H W s p = none := by
  unfold coverOf
  rw [List.find?_eq_none]
  intro q hq
  rw [List.mem_reverse, mem_allPos] at hq
  simp [covers, h q.1 q.2 hq.1 hq.2]

theorem shadowed_congr (P : Params) (s s' : Surface) (r W : Nat) (h : ∀ c, c < W → s r c = s' r c) :
    ∀ c, c ≤ W → shadowed P s r c = shadowed P s' r c := by
  intro c
  induction c with
  | zero => intro _; rfl
  | succ c ih => intro hc; simp only [shadowed]; rw [ih (by omega), h c (by omega)]

theorem shadowed_norm (P : Params) (s : Surface) (r : Nat) :
    ∀ c, shadowed P (normSurf P s) r c = shadowed P s r c := by
  intro c
  induction c with
  | zero => rfl
  | succ c ih =>
    simp only [shadowed, ih, normSurf]
    cases h : shadowed P s r c <;> simp [isWide, nulCell]

theorem CharSurf.imgOf_none {P : Params} {H W : Nat} {s : Surface} (hs : CharSurf P H W s) :
    ∀ r c, r < H → c < W → imgOf P (s r c) = none := by
  intro r c hr hc
  obtain ⟨ch, hk, _⟩ := hs.chr r c hr hc
  simp [imgOf, hk]

/-- on a character surface the specification shows, cell by cell, the normalised surface -/
theorem display_chars (P : Params) (hP : ParamsOk P) (H W : Nat) (s : Surface) (hs : CharSurf P H W s)
    (r c : Nat) (hr : r < H) (hc : c < W) :
    (display P H W s).grid r c = dispN P (normSurf P s r c) := by
  simp only [display, displayCell, coverOf_none P H W s (r, c) hs.imgOf_none, normSurf]
  obtain ⟨ch, hk, hw⟩ := hs.chr r c hr hc
  cases h : shadowed P s r c
  · have : P.width ch ≠ 0 := by omega
    simp [hk, dispN, this]
  · simp [dispN, nulCell, hP.nul]

theorem display_chars_place (P : Params) (H W : Nat) (s : Surface) (hs : CharSurf P H W s) (r c : Nat) :
    (display P H W s).place r c = none := by
  simp only [display]
  split
  · rename_i h; exact hs.imgOf_none r c h.1 h.2
  · rfl

/-- surfaces that agree inside the terminal are displayed alike -/
theorem display_congr_chars (P : Params) (hP : ParamsOk P) (H W : Nat) (s b : Surface) (hs : CharSurf P H W s)
    (hb : ∀ r c, r < H → c < W → b r c = normSurf P s r c)
    (r c : Nat) (hr : r < H) (hc : c < W) :
    (display P H W b).grid r c = (display P H W s).grid r c := by
  have hbi : ∀ r c, r < H → c < W → imgOf P (b r c) = none := by
    intro r c hr hc
    rw [hb r c hr hc]
    simp only [normSurf]
    split
    · simp [imgOf, nulCell]
    · exact hs.imgOf_none r c hr hc
  rw [display_chars P hP H W s hs r c hr hc]
  simp only [display, displayCell, coverOf_none P H W b (r, c) hbi]
  have e1 : shadowed P b r c = shadowed P s r c := by
    rw [shadowed_congr P b (normSurf P s) r W (fun c hc => hb r c hr hc) c (by omega), shadowed_norm]
  rw [e1, hb r c hr hc]
  simp only [normSurf]
  obtain ⟨ch, hk, hw⟩ := hs.chr r c hr hc
  cases h : shadowed P s r c
  · have : P.width ch ≠ 0 := by omega
    simp [hk, dispN, this]
  · simp [dispN, nulCell, hP.nul]

end SurfProofs.C01
