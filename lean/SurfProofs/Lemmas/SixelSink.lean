import SurfModel.Sixel
/-!
# C12 helper lemmas, part 9: handing the bytes to the sink (`write_all`)
-/
namespace SurfProofs.Lemmas.SixelSink
open SurfModel.Sixel

/-- whatever the sink answers, what arrives is a prefix of the buffer -/
theorem writeAll_prefix (script : List Resp) (buf acc : List UInt8) :
    ∃ k, (writeAll script buf acc).1 = acc ++ buf.take k := by
  fun_induction writeAll script buf acc with
  | case1 script acc => exact ⟨0, by simp⟩
  | case2 b buf acc => exact ⟨(b :: buf).length, by simp⟩
  | case3 rs b buf acc => exact ⟨0, by simp⟩
  | case4 n rs b buf acc hn ih =>
    obtain ⟨k, hk⟩ := ih
    refine ⟨n + k, ?_⟩
    rw [hk, List.append_assoc]
    congr 1
    rw [List.take_add]
  | case5 rs b buf acc ih => exact ih
  | case6 rs b buf acc => exact ⟨0, by simp⟩

/-- `Ok` means everything arrived -/
theorem writeAll_ok (script : List Resp) (buf acc : List UInt8)
    (h : (writeAll script buf acc).2.1 = true) : (writeAll script buf acc).1 = acc ++ buf := by
  fun_induction writeAll script buf acc with
  | case1 script acc => simp
  | case2 b buf acc => rfl
  | case3 rs b buf acc => simp at h
  | case4 n rs b buf acc hn ih =>
    rw [ih h, List.append_assoc, List.take_append_drop]
  | case5 rs b buf acc ih => exact ih h
  | case6 rs b buf acc => simp at h

/-- a sink that never fails and never answers `Ok(0)` -/
def Benign (script : List Resp) : Prop := ∀ r ∈ script, r ≠ .fail ∧ r ≠ .accept 0

theorem writeAll_benign (script : List Resp) (buf acc : List UInt8) (hb : Benign script) :
    (writeAll script buf acc).2.1 = true := by
  fun_induction writeAll script buf acc with
  | case1 script acc => rfl
  | case2 b buf acc => rfl
  | case3 rs b buf acc => exact absurd rfl (hb (.accept 0) (by simp)).2
  | case4 n rs b buf acc hn ih => exact ih (fun r hr => hb r (by simp [hr]))
  | case5 rs b buf acc ih => exact ih (fun r hr => hb r (by simp [hr]))
  | case6 rs b buf acc => exact absurd rfl (hb .fail (by simp)).1

/-- `drawTo` hands over the bytes `draw` produces -/
theorem drawTo_prefix (hd : Handler) (key : Nat) (enc : List UInt8) (script : List Resp) :
    ∃ k, (hd.drawTo key enc script).1 = (hd.draw key enc).1.take k := by
  unfold Handler.drawTo
  cases hl : hd.imgs.lookup key with
  | some bytes =>
    obtain ⟨k, hk⟩ := writeAll_prefix script bytes []
    exact ⟨k, by simpa [Handler.draw, hl] using hk⟩
  | none =>
    obtain ⟨k, hk⟩ := writeAll_prefix script enc []
    refine ⟨k, ?_⟩
    simp only [List.nil_append] at hk
    by_cases hok : (writeAll script enc []).2.1 = true
    · simp only [hok, if_true]; simpa [Handler.draw, hl] using hk
    · simp only [hok]; simpa [Handler.draw, hl] using hk

theorem drawTo_ok (hd : Handler) (key : Nat) (enc : List UInt8) (script : List Resp)
    (h : (hd.drawTo key enc script).2.1 = true) :
    (hd.drawTo key enc script).1 = (hd.draw key enc).1
      ∧ (hd.drawTo key enc script).2.2.1 = (hd.draw key enc).2 := by
  unfold Handler.drawTo at h ⊢
  cases hl : hd.imgs.lookup key with
  | some bytes =>
    simp only [hl] at h ⊢
    have := writeAll_ok script bytes [] h
    simp only [List.nil_append] at this
    exact ⟨by rw [this]; simp [Handler.draw, hl], by simp [Handler.draw, hl]⟩
  | none =>
    simp only [hl] at h ⊢
    by_cases hok : (writeAll script enc []).2.1 = true
    · have := writeAll_ok script enc [] hok
      simp only [List.nil_append] at this
      simp only [hok, if_true] at h ⊢
      exact ⟨by rw [this]; simp [Handler.draw, hl], trivial⟩
    · simp [hok] at h

theorem drawTo_benign (hd : Handler) (key : Nat) (enc : List UInt8) (script : List Resp)
    (hb : Benign script) : (hd.drawTo key enc script).2.1 = true := by
  unfold Handler.drawTo
  cases hl : hd.imgs.lookup key with
  | some bytes => simpa using writeAll_benign script bytes [] hb
  | none =>
    have := writeAll_benign script enc [] hb
    simp [this]

/-- a failed first draw leaves the handler as it was -/
theorem drawTo_failed_miss (hd : Handler) (key : Nat) (enc : List UInt8) (script : List Resp)
    (hl : hd.imgs.lookup key = none) (h : (hd.drawTo key enc script).2.1 = false) :
    (hd.drawTo key enc script).2.2.1 = hd := by
  unfold Handler.drawTo at h ⊢
  simp only [hl] at h ⊢
  by_cases hok : (writeAll script enc []).2.1 = true
  · simp [hok] at h
  · simp [hok]

end SurfProofs.Lemmas.SixelSink
