import SurfModel.KittyWrite
import SurfProofs.Lemmas.KittyDraw
/-!
The handler model over a writer that may fail: what is written is a prefix of what a working writer gets,
and the bookkeeping changes exactly as far as the writes got.
-/
namespace SurfProofs.Lemmas.KittyWrite
open SurfModel.Kitty SurfModel.KittySpec SurfModel.KittyWrite
open SurfProofs.Lemmas.KittyDraw SurfProofs.Lemmas.KittyIter SurfProofs.Lemmas.KittyEmit

theorem writeAll_nil (w : Writer) : w.writeAll [] = (w, true) := by
  obtain ⟨out, budget⟩ := w
  cases budget <;> simp [Writer.writeAll]

/-- two writes in a row, the second only if the first succeeded, are one write of the concatenation -/
theorem writeAll_then (w : Writer) (a b : List UInt8) :
    (if (w.writeAll a).2 then (w.writeAll a).1.writeAll b else ((w.writeAll a).1, false)) = w.writeAll (a ++ b) := by
  obtain ⟨out, budget⟩ := w
  cases budget with
  | none => simp [Writer.writeAll]
  | some n =>
    by_cases h1 : a.length ≤ n
    · by_cases h2 : b.length ≤ n - a.length
      · have h3 : a.length + b.length ≤ n := by omega
        simp [Writer.writeAll, h1, h2, h3]; omega
      · have h3 : ¬ a.length + b.length ≤ n := by omega
        simp [Writer.writeAll, h1, h2, h3, List.take_append, List.take_of_length_le h1]
    · have h3 : ¬ a.length + b.length ≤ n := by omega
      have h4 : n ≤ a.length := by omega
      simp [Writer.writeAll, h1, h3, List.take_append_of_le_length h4]

/-- a bounded fresh writer: the first `b` bytes arrive; success iff everything fits -/
theorem writeAll_new (b : Nat) (bs : List UInt8) :
    ((Writer.new (some b)).writeAll bs).1.out = bs.take b ∧
    (((Writer.new (some b)).writeAll bs).2 = true ↔ bs.length ≤ b) := by
  by_cases h : bs.length ≤ b
  · simp [Writer.new, Writer.writeAll, h, List.take_of_length_le h]
  · simp [Writer.new, Writer.writeAll, h]

theorem writeAll_unbounded (bs : List UInt8) : (Writer.new none).writeAll bs = (⟨bs, none⟩, true) := by
  simp [Writer.new, Writer.writeAll]

/-- the chunk loop writes the bytes of `emitChunks`, as far as the writer takes them -/
theorem emitChunksW_eq (id h w q count : Nat) : ∀ (cs : List (List UInt8)) (index : Nat) (wr : Writer),
    emitChunksW id h w q count index cs wr = wr.writeAll (emitChunks id h w q count index cs) := by
  intro cs
  induction cs with
  | nil => intro index wr; simp [emitChunksW, emitChunks, writeAll_nil]
  | cons c rest ih =>
    intro index wr
    simp only [emitChunksW, ih]
    rw [writeAll_then, writeAll_then, writeAll_then]
    congr 1
    simp only [emitChunks, apc]
    split <;> simp [List.append_assoc]

variable (hash : Image → UInt64)

/-- transmission bytes of `img` from handler `h` (none when the handler holds its id) -/
def txBytes (h : Handler) (img : Image) : List UInt8 :=
  if h.contains (idOf hash img) then []
  else emitChunks (idOf hash img) img.shape.height img.shape.width (h.suppress.getD 0)
    (chunks 4096 (payloadOf img)).length 0 (chunks 4096 (payloadOf img))

theorem draw_bytes (h : Handler) (img : Image) (hne : img.isEmpty = false) (row col : Nat) :
    (draw hash h img row col).2
      = txBytes hash h img ++ putBytes (idOf hash img) (placementId row col) (h.suppress.getD 0) := by
  unfold draw txBytes
  simp only [hne, Bool.false_eq_true, if_false]
  split <;> simp

/-- `drawW` in terms of `draw` and one write of the transmission, one of the placement -/
theorem drawW_eq (h : Handler) (img : Image) (hne : img.isEmpty = false) (row col : Nat) (wr : Writer) :
    drawW hash h img row col wr =
      if h.contains (idOf hash img) then
        (h, (wr.writeAll (draw hash h img row col).2).1, (wr.writeAll (draw hash h img row col).2).2)
      else if (wr.writeAll (txBytes hash h img)).2 then
        ((draw hash h img row col).1, (wr.writeAll (draw hash h img row col).2).1,
          (wr.writeAll (draw hash h img row col).2).2)
      else (h, (wr.writeAll (txBytes hash h img)).1, false) := by
  have hb := draw_bytes hash h img hne row col
  have hs := draw_state hash h img hne row col
  by_cases hc : h.contains (idOf hash img) = true
  · simp only [hc, if_true]
    unfold drawW
    simp only [hne, Bool.false_eq_true, if_false, hc, if_true]
    rw [hb]; simp [txBytes, hc]
  · have hc' : h.contains (idOf hash img) = false := by simpa using hc
    simp only [hc', Bool.false_eq_true, if_false]
    unfold drawW
    simp only [hne, Bool.false_eq_true, if_false, hc', emitChunksW_eq]
    have ht : txBytes hash h img = emitChunks (idOf hash img) img.shape.height img.shape.width (h.suppress.getD 0)
        (chunks 4096 (payloadOf img)).length 0 (chunks 4096 (payloadOf img)) := by simp [txBytes, hc']
    rw [← ht]
    by_cases hr : (wr.writeAll (txBytes hash h img)).2 = true
    · simp only [hr, if_true]
      have := writeAll_then wr (txBytes hash h img) (putBytes (idOf hash img) (placementId row col) (h.suppress.getD 0))
      rw [hr, if_pos rfl] at this
      rw [hb, ← this, hs]
      simp [hc']
    · have hr' : (wr.writeAll (txBytes hash h img)).2 = false := by simpa using hr
      simp [hr']

theorem writeAll_none (o bs : List UInt8) : (⟨o, none⟩ : Writer).writeAll bs = (⟨o ++ bs, none⟩, true) := by
  simp [Writer.writeAll]

/-- a working writer: `drawW` is `draw` -/
theorem drawW_unbounded (h : Handler) (img : Image) (row col : Nat) (o : List UInt8) :
    drawW hash h img row col ⟨o, none⟩
      = ((draw hash h img row col).1, ⟨o ++ (draw hash h img row col).2, none⟩, true) := by
  cases he : img.isEmpty with
  | true => rw [draw_empty hash h img he]; unfold drawW; simp [he]
  | false =>
    rw [drawW_eq hash h img he, writeAll_none, writeAll_none]
    by_cases hc : h.contains (idOf hash img) = true
    · have := draw_state hash h img he row col
      simp only [hc, if_true] at this ⊢
      rw [this]
    · simp [hc]

/-- whatever the budget: what a write adds is a prefix of its argument, all of it on success -/
theorem writeAll_out (wr : Writer) (bs : List UInt8) :
    ∃ p, p <+: bs ∧ (wr.writeAll bs).1.out = wr.out ++ p ∧ ((wr.writeAll bs).2 = true → p = bs) := by
  obtain ⟨out, budget⟩ := wr
  cases budget with
  | none => exact ⟨bs, List.prefix_refl _, by simp [Writer.writeAll], fun _ => rfl⟩
  | some n =>
    by_cases h : bs.length ≤ n
    · exact ⟨bs, List.prefix_refl _, by simp [Writer.writeAll, h], fun _ => rfl⟩
    · exact ⟨bs.take n, List.take_prefix _ _, by simp [Writer.writeAll, h], by simp [Writer.writeAll, h]⟩

/-- `drawW` with any writer: the handler records the image only together with its complete transmission;
otherwise its state is untouched -/
theorem drawW_records (h : Handler) (img : Image) (row col : Nat) (wr : Writer) :
    (drawW hash h img row col wr).1 = h ∨
    ((drawW hash h img row col wr).1 = { h with imgs := (idOf hash img, img) :: h.imgs } ∧
      img.isEmpty = false ∧ h.contains (idOf hash img) = false ∧
      ∃ rest, (drawW hash h img row col wr).2.1.out = wr.out ++ txBytes hash h img ++ rest) := by
  cases he : img.isEmpty with
  | true => left; unfold drawW; simp [he]
  | false =>
    rw [drawW_eq hash h img he]
    by_cases hc : h.contains (idOf hash img) = true
    · left; simp [hc]
    · have hc' : h.contains (idOf hash img) = false := by simpa using hc
      simp only [hc', Bool.false_eq_true, if_false]
      by_cases hr : (wr.writeAll (txBytes hash h img)).2 = true
      · right
        simp only [hr, if_true]
        refine ⟨by rw [draw_state hash h img he]; simp [hc'], trivial, trivial, ?_⟩
        obtain ⟨p, hp, hout, _⟩ := writeAll_out wr (draw hash h img row col).2
        rw [draw_bytes hash h img he] at hp hout
        -- the transmission fitted, so the prefix written contains all of it
        obtain ⟨p1, _, hout1, hall1⟩ := writeAll_out wr (txBytes hash h img)
        have hthen := writeAll_then wr (txBytes hash h img)
          (putBytes (idOf hash img) (placementId row col) (h.suppress.getD 0))
        rw [hr, if_pos rfl] at hthen
        obtain ⟨p2, _, hout2, _⟩ := writeAll_out (wr.writeAll (txBytes hash h img)).1
          (putBytes (idOf hash img) (placementId row col) (h.suppress.getD 0))
        refine ⟨p2, ?_⟩
        rw [draw_bytes hash h img he, ← hthen, hout2, hout1, hall1 hr]
      · left; simp [hr]

/-- a working writer: `handleEventW` is `handleEvent` -/
theorem handleEventW_unbounded (h : Handler) (ev : Event) :
    handleEventW hash h ev (Writer.new none)
      = ((handleEvent hash h ev).1, ⟨(handleEvent hash h ev).2.1, none⟩, some (handleEvent hash h ev).2.2) := by
  cases ev with
  | other => simp [handleEventW, handleEvent, Writer.new]
  | kittyImage id placement error =>
    cases error with
    | false => simp [handleEventW, handleEvent, Writer.new]
    | true =>
      cases hl : h.imgs.lookup id with
      | none => simp [handleEventW, handleEvent, hl, Writer.new]
      | some img =>
        cases placement with
        | none => simp [handleEventW, handleEvent, hl, Writer.new]
        | some pl =>
          simp only [handleEventW, handleEvent, if_true, hl, Option.map_some, Writer.new, writeAll_none,
            drawW_unbounded, List.nil_append, List.append_assoc]

/-- `handle` on an error response, any writer: the entry of `id` is removed; it is recorded again only
together with the complete transmission of the stored image -/
theorem handleEventW_records (h : Handler) (id : Nat) (placement : Option Nat) (wr : Writer) :
    let r := handleEventW hash h (.kittyImage id placement true) wr
    r.1.imgs = h.imgs.filter (fun e => e.1 != id) ∨
    ∃ img pre rest, h.imgs.lookup id = some img ∧
      r.1.imgs = (idOf hash img, img) :: h.imgs.filter (fun e => e.1 != id) ∧
      r.2.1.out = wr.out ++ pre ++ txBytes hash (⟨h.imgs.filter (fun e => e.1 != id), some 2⟩ : Handler) img ++ rest := by
  intro r
  cases hl : h.imgs.lookup id with
  | none => left; simp [r, handleEventW, hl]
  | some img =>
    cases placement with
    | none => left; simp [r, handleEventW, hl]
    | some pl =>
      simp only [r, handleEventW, if_true, hl, Option.map_some]
      obtain ⟨p1, _, ho1, ha1⟩ := writeAll_out wr [27, 55]
      by_cases hr1 : (wr.writeAll [27, 55]).2 = true
      · simp only [hr1, if_true]
        obtain ⟨p2, _, ho2, ha2⟩ := writeAll_out (wr.writeAll [27, 55]).1 (cursorTo (placementToPos pl).1 (placementToPos pl).2)
        by_cases hr2 : ((wr.writeAll [27, 55]).1.writeAll (cursorTo (placementToPos pl).1 (placementToPos pl).2)).2 = true
        · simp only [hr2, if_true]
          have hrec := drawW_records hash (⟨h.imgs.filter (fun e => e.1 != id), some 2⟩ : Handler) img (placementToPos pl).1 (placementToPos pl).2
            ((wr.writeAll [27, 55]).1.writeAll (cursorTo (placementToPos pl).1 (placementToPos pl).2)).1
          by_cases hd : (drawW hash (⟨h.imgs.filter (fun e => e.1 != id), some 2⟩ : Handler) img (placementToPos pl).1 (placementToPos pl).2
              ((wr.writeAll [27, 55]).1.writeAll (cursorTo (placementToPos pl).1 (placementToPos pl).2)).1).2.2 = true
          · simp only [hd, if_true]
            obtain ⟨p3, _, ho3, _⟩ := writeAll_out (drawW hash (⟨h.imgs.filter (fun e => e.1 != id), some 2⟩ : Handler) img (placementToPos pl).1 (placementToPos pl).2
              ((wr.writeAll [27, 55]).1.writeAll (cursorTo (placementToPos pl).1 (placementToPos pl).2)).1).2.1 [27, 56]
            rcases hrec with hrec | ⟨hrec, _, _, rest, hout⟩
            · left; rw [hrec]
            · right
              refine ⟨img, p1 ++ p2, rest ++ p3, rfl, ?_, ?_⟩
              · rw [hrec]
              · rw [ho3, hout, ho2, ho1]; simp [List.append_assoc]
          · simp only [hd, Bool.false_eq_true, if_false]
            rcases hrec with hrec | ⟨hrec, _, _, rest, hout⟩
            · left; rw [hrec]
            · right
              refine ⟨img, p1 ++ p2, rest, rfl, ?_, ?_⟩
              · rw [hrec]
              · rw [hout, ho2, ho1]; simp [List.append_assoc]
        · left; simp [hr2]
      · left; simp [hr1]

/-- working writers: `stepW` is `step` -/
theorem stepW_unbounded (h : Handler) (ev : Ev) :
    (stepW hash h ev none).1 = (step hash h ev).1 ∧ (stepW hash h ev none).2.1 = (step hash h ev).2 ∧
    (stepW hash h ev none).2.2 ≠ none := by
  cases ev with
  | draw img row col =>
    have := drawW_unbounded hash h img row col []
    simp [stepW, step, Writer.new, this]
  | erase img pos => simp [stepW, step, eraseW, Writer.new, writeAll_none]
  | resp id placement error =>
    have := handleEventW_unbounded hash h (.kittyImage id placement error)
    simp [stepW, step, this]
  | other =>
    have := handleEventW_unbounded hash h .other
    simp [stepW, step, this]

end SurfProofs.Lemmas.KittyWrite
