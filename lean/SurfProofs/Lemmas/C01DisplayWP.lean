import SurfProofs.Lemmas.C01Pass1
/-!
C01, helper lemmas 5: the specification `display` on well-placed surfaces with images.
-/
namespace SurfProofs.C01
open SurfModel.Screen SurfModel.Renderer

theorem find?_congr' {α : Type} (l : List α) (p p' : α → Bool) (h : ∀ x ∈ l, p x = p' x) :
    l.find? p = l.find? p' := by
  induction l with
  | nil => rfl
  | cons a l ih =>
    simp only [List.find?_cons, h a List.mem_cons_self]
    rw [ih (fun x hx => h x (List.mem_cons_of_mem _ hx))]

theorem coverOf_congr (P : Params) (H W : Nat) (b s : Surface) (p : Nat × Nat)
    (h : ∀ q, q.1 < H → q.2 < W → covers P b q p = covers P s q p) :
    coverOf P H W b p = coverOf P H W s p := by
  unfold coverOf
  apply find?_congr'
  intro q hq
  rw [List.mem_reverse, mem_allPos] at hq
  exact h q hq.1 hq.2

theorem coverOf_eq_none (P : Params) (H W : Nat) (s : Surface) (p : Nat × Nat)
    (h : ∀ q, q.1 < H → q.2 < W → covers P s q p = false) : coverOf P H W s p = none := by
  unfold coverOf
  rw [List.find?_eq_none]
  intro q hq
  rw [List.mem_reverse, mem_allPos] at hq
  simp [h q hq.1 hq.2]

theorem coverOf_eq_some (P : Params) (H W : Nat) (s : Surface) (hs : WellPlaced P H W s) (q p : Nat × Nat)
    (hq1 : q.1 < H) (hq2 : q.2 < W) (h : covers P s q p = true) : coverOf P H W s p = some q := by
  unfold coverOf
  cases hf : (allPos H W).reverse.find? fun q => covers P s q p with
  | none =>
    rw [List.find?_eq_none] at hf
    exact absurd h (by simpa using hf q (by rw [List.mem_reverse, mem_allPos]; exact ⟨hq1, hq2⟩))
  | some q' =>
    have h1 := List.find?_some hf
    have h2 := List.mem_of_find?_eq_some hf
    rw [List.mem_reverse, mem_allPos] at h2
    obtain ⟨_, _, _, w4, _⟩ := hs
    rw [w4 q' q p h2.1 h2.2 hq1 hq2 h1 h]

/-- `b` is a front surface the first pass can produce from `s`: outside image areas the normalised
surface; an image cell is the rasterised cell; a cell hidden under an image is either its own
(rasterised) content or zero-width -/
def NormOf (P : Params) (H W : Nat) (s b : Surface) : Prop :=
  ∀ r c, r < H → c < W →
    (b r c = nulCell ∨ b r c = rasterise P (s r c)) ∧
    (¬ Cov P H W s (r, c) → b r c = normD P H W s r c) ∧
    (imgOf P (s r c) ≠ none → b r c = rasterise P (s r c))

theorem imgOf_normOf (P : Params) (H W : Nat) (s b : Surface) (hb : NormOf P H W s b) (r c : Nat)
    (hr : r < H) (hc : c < W) : imgOf P (b r c) = imgOf P (s r c) := by
  obtain ⟨h1, _, h3⟩ := hb r c hr hc
  cases hi : imgOf P (s r c) with
  | some i => rw [h3 (by rw [hi]; simp), imgOf_rasterise, hi]
  | none =>
    rcases h1 with h | h
    · rw [h]; simp [imgOf, nulCell]
    · rw [h, imgOf_rasterise, hi]

theorem covers_congr_normOf (P : Params) (H W : Nat) (s b : Surface) (hb : NormOf P H W s b)
    (q p : Nat × Nat) (hq1 : q.1 < H) (hq2 : q.2 < W) : covers P b q p = covers P s q p := by
  rw [covers_eq, covers_eq, imgOf_normOf P H W s b hb q.1 q.2 hq1 hq2]

theorem cov_congr_normOf (P : Params) (H W : Nat) (s b : Surface) (hb : NormOf P H W s b) (p : Nat × Nat) :
    Cov P H W b p ↔ Cov P H W s p := by
  constructor
  · rintro ⟨q, q1, q2, q3⟩; exact ⟨q, q1, q2, by rw [← covers_congr_normOf P H W s b hb q p q1 q2]; exact q3⟩
  · rintro ⟨q, q1, q2, q3⟩; exact ⟨q, q1, q2, by rw [covers_congr_normOf P H W s b hb q p q1 q2]; exact q3⟩

theorem shadowed_of_normOf (P : Params) (H W : Nat) (s b : Surface) (hb : NormOf P H W s b)
    (r : Nat) (hr : r < H) : ∀ c, c ≤ W → shadowed P H W b r c = shadowed P H W s r c := by
  intro c
  induction c with
  | zero => intro _; rfl
  | succ c ih =>
    intro hc
    have e1 : shadowed P H W b r (c + 1) =
        (isWide P (b r c) && !shadowed P H W b r c && (coverOf P H W b (r, c)).isNone) := rfl
    have e2 : shadowed P H W s r (c + 1) =
        (isWide P (s r c) && !shadowed P H W s r c && (coverOf P H W s (r, c)).isNone) := rfl
    rw [e1, e2, ih (by omega),
      coverOf_congr P H W b s (r, c) (fun q h1 h2 => covers_congr_normOf P H W s b hb q (r, c) h1 h2)]
    cases hcv : coverOf P H W s (r, c) with
    | some q => simp
    | none =>
      have hnc := (coverOf_none_iff P H W s (r, c)).1 hcv
      rw [(hb r c hr (by omega)).2.1 hnc]
      simp only [normD]
      cases hsh : shadowed P H W s r c
      · simp [isWide_rasterise]
      · simp

/-- closed form of the specification on well-placed surfaces -/
theorem display_wp (P : Params) (hP : ParamsOk P) (H W : Nat) (s : Surface) (hs : WellPlaced P H W s)
    (r c : Nat) (hr : r < H) (hc : c < W) :
    (∀ q, q.1 < H → q.2 < W → covers P s q (r, c) = true →
      (display P H W s).grid r c = blankOf P (s q.1 q.2).face) ∧
    ((∀ q, q.1 < H → q.2 < W → covers P s q (r, c) = false) →
      (display P H W s).grid r c = dispN P (normD P H W s r c)) := by
  constructor
  · intro q hq1 hq2 hcov
    simp [display, displayCell, coverOf_eq_some P H W s hs q (r, c) hq1 hq2 hcov]
  · intro hno
    simp only [display, displayCell, coverOf_eq_none P H W s (r, c) hno, normD]
    cases hsh : shadowed P H W s r c
    · simp only [Bool.false_eq_true, if_false]
      cases hk : (s r c).kind with
      | chr ch =>
        obtain ⟨w1, _⟩ := hs
        have : P.width ch ≠ 0 := by rcases w1 r c ch hr hc hk with h | h <;> omega
        simp [dispN, rasterise, hk, this]
      | img i =>
        exfalso
        obtain ⟨_, _, w3, _⟩ := hs
        have hi : imgOf P (s r c) = some i := by simp [imgOf, hk]
        obtain ⟨s1, s2, _⟩ := w3 r c i hr hc hi
        have := hno (r, c) hr hc
        rw [covers_self P s (r, c) i hi s1 s2] at this
        cases this
      | gly g =>
        exfalso
        obtain ⟨_, _, w3, _⟩ := hs
        have hi : imgOf P (s r c) = some (P.raster (s r c).face g) := by simp [imgOf, hk]
        obtain ⟨s1, s2, _⟩ := w3 r c _ hr hc hi
        have := hno (r, c) hr hc
        rw [covers_self P s (r, c) _ hi s1 s2] at this
        cases this
    · simp [dispN, nulCell, hP.nul]

/-- a front surface produced from `s` is displayed like `s` itself -/
theorem display_congr_wp (P : Params) (H W : Nat) (s b : Surface) (hs : WellPlaced P H W s)
    (hb : NormOf P H W s b) :
    (∀ r c, r < H → c < W → (display P H W b).grid r c = (display P H W s).grid r c) ∧
    (∀ r c, (display P H W b).place r c = (display P H W s).place r c) := by
  constructor
  · intro r c hr hc
    simp only [display, displayCell]
    rw [coverOf_congr P H W b s (r, c) (fun q h1 h2 => covers_congr_normOf P H W s b hb q (r, c) h1 h2)]
    cases hcv : coverOf P H W s (r, c) with
    | some q =>
      simp only
      unfold coverOf at hcv
      have hq := List.mem_of_find?_eq_some hcv
      rw [List.mem_reverse, mem_allPos] at hq
      have hcov : covers P s q (r, c) = true := by
        have := List.find?_some hcv
        simpa using this
      have himg : imgOf P (s q.1 q.2) ≠ none := by
        intro h; simp [covers, h] at hcov
      rw [(hb q.1 q.2 hq.1 hq.2).2.2 himg, rasterise_face]
    | none =>
      simp only
      have hnc := (coverOf_none_iff P H W s (r, c)).1 hcv
      rw [shadowed_of_normOf P H W s b hb r hr c (by omega), (hb r c hr hc).2.1 hnc]
      cases hsh : shadowed P H W s r c
      · simp only [Bool.false_eq_true, if_false, normD, hsh]
        cases hk : (s r c).kind <;> simp [rasterise, hk]
      · simp
  · intro r c
    simp only [display]
    split
    · rename_i h
      rw [imgOf_normOf P H W s b hb r c h.1 h.2]
    · rfl

end SurfProofs.C01
