import SurfProofs.Lemmas.C01Pass1
/-!
C01, helper lemmas 5: the specification `display` on well-placed surfaces with images.
-/
namespace SurfProofs.C01
open SurfModel.Screen SurfModel.Renderer

theorem find?_congr' {α : Type} (l : List α) (p p' : α → Bool) (h : ∀ x ∈ l, p x = p' x) :
    l.find? p = l.find? p' := by
  induction l with
  | nil => rfl
  | cons a l ih =>
    simp only [List.find?_cons, h a List.mem_cons_self]
    rw [ih (fun x hx => h x (List.mem_cons_of_mem _ hx))]

theorem coverOf_congr (P : Params) (H W : Nat) (b s : Surface) (p : Nat × Nat)
    (h : ∀ q, q.1 < H → q.2 < W → covers P b q p = covers P s q p) :
    coverOf P H W b p = coverOf P H W s p := by
  unfold coverOf
  apply find?_congr'
  intro q hq
  rw [List.mem_reverse, mem_allPos] at hq
  exact h q hq.1 hq.2

theorem coverOf_eq_none (P : Params) (H W : Nat) (s : Surface) (p : Nat × Nat)
    (h : ∀ q, q.1 < H → q.2 < W → covers P s q p = false) : coverOf P H W s p = none := by
  unfold coverOf
  rw [List.find?_eq_none]
  intro q hq
  rw [List.mem_reverse, mem_allPos] at hq
  simp [h q hq.1 hq.2]

theorem coverOf_eq_some (P : Params) (H W : Nat) (s : Surface) (hs : WellPlaced P H W s) (q p : Nat × Nat)
    (hq1 : q.1 < H) (hq2 : q.2 < W) (h : covers P s q p = true) : coverOf P H W s p = some q := by
  unfold coverOf
  cases hf : (allPos H W).reverse.find? fun q => covers P s q p with
  | none =>
    rw [List.find?_eq_none] at hf
    exact absurd h (by simpa using hf q (by rw [List.mem_reverse, mem_allPos]; exact ⟨hq1, hq2⟩))
  | some q' =>
    have h1 := List.find?_some hf
    have h2 := List.mem_of_find?_eq_some hf
    rw [List.mem_reverse, mem_allPos] at h2
    obtain ⟨_, _, _, w4, _⟩ := hs
    rw [w4 q' q p h2.1 h2.2 hq1 hq2 h1 h]

theorem imgOf_normR (P : Params) (H W : Nat) (s : Surface) (hs : WellPlaced P H W s) (r c : Nat)
    (hr : r < H) (hc : c < W) : imgOf P (normR P s r c) = imgOf P (s r c) := by
  unfold normR
  cases hsh : shadowedRaw P s r c
  · simp [imgOf_rasterise]
  · simp only [if_true]
    cases hi : imgOf P (s r c) with
    | none => simp [imgOf, nulCell]
    | some i =>
      have := wp_img_not_shadowed P H W s hs r c hr hc (by rw [hi]; simp)
      rw [hsh] at this; cases this

theorem shadowed_normR (P : Params) (s : Surface) (r : Nat) :
    ∀ c, shadowedRaw P (normR P s) r c = shadowedRaw P s r c := by
  intro c
  induction c with
  | zero => rfl
  | succ c ih =>
    simp only [shadowedRaw, ih, normR]
    cases h : shadowedRaw P s r c
    · simp [isWide_rasterise]
    · simp

/-- closed form of the specification on well-placed surfaces -/
theorem display_wp (P : Params) (hP : ParamsOk P) (H W : Nat) (s : Surface) (hs : WellPlaced P H W s)
    (r c : Nat) (hr : r < H) (hc : c < W) :
    (∀ q, q.1 < H → q.2 < W → covers P s q (r, c) = true →
      (display P H W s).grid r c = .glyph 32 (s q.1 q.2).face) ∧
    ((∀ q, q.1 < H → q.2 < W → covers P s q (r, c) = false) →
      (display P H W s).grid r c = dispN P (normR P s r c)) := by
  constructor
  · intro q hq1 hq2 hcov
    simp [display, displayCell, coverOf_eq_some P H W s hs q (r, c) hq1 hq2 hcov]
  · intro hno
    simp only [display, displayCell, coverOf_eq_none P H W s (r, c) hno, normR]
    cases hsh : shadowedRaw P s r c
    · simp only [Bool.false_eq_true, if_false]
      cases hk : (s r c).kind with
      | chr ch =>
        obtain ⟨w1, _⟩ := hs
        have : P.width ch ≠ 0 := by rcases w1 r c ch hr hc hk with h | h <;> omega
        simp [dispN, rasterise, hk, this]
      | img i =>
        exfalso
        obtain ⟨_, _, w3, _⟩ := hs
        have hi : imgOf P (s r c) = some i := by simp [imgOf, hk]
        obtain ⟨s1, s2, _⟩ := w3 r c i hr hc hi
        have := hno (r, c) hr hc
        rw [covers_self P s (r, c) i hi s1 s2] at this
        cases this
      | gly g =>
        exfalso
        obtain ⟨_, _, w3, _⟩ := hs
        have hi : imgOf P (s r c) = some (P.raster (s r c).face g) := by simp [imgOf, hk]
        obtain ⟨s1, s2, _⟩ := w3 r c _ hr hc hi
        have := hno (r, c) hr hc
        rw [covers_self P s (r, c) _ hi s1 s2] at this
        cases this
    · simp [dispN, nulCell, hP.nul]

theorem covers_congr_normR (P : Params) (H W : Nat) (s b : Surface) (hs : WellPlaced P H W s)
    (hb : ∀ r c, r < H → c < W → b r c = normR P s r c) (q p : Nat × Nat) (hq1 : q.1 < H) (hq2 : q.2 < W) :
    covers P b q p = covers P s q p := by
  rw [covers_eq, covers_eq, hb q.1 q.2 hq1 hq2, imgOf_normR P H W s hs q.1 q.2 hq1 hq2]

/-- the normalised surface is displayed like the surface itself -/
theorem display_congr_wp (P : Params) (H W : Nat) (s b : Surface) (hs : WellPlaced P H W s)
    (hb : ∀ r c, r < H → c < W → b r c = normR P s r c) :
    (∀ r c, r < H → c < W → (display P H W b).grid r c = (display P H W s).grid r c) ∧
    (∀ r c, (display P H W b).place r c = (display P H W s).place r c) := by
  constructor
  · intro r c hr hc
    simp only [display, displayCell]
    rw [coverOf_congr P H W b s (r, c) (fun q h1 h2 => covers_congr_normR P H W s b hs hb q (r, c) h1 h2)]
    cases hcv : coverOf P H W s (r, c) with
    | some q =>
      simp only
      unfold coverOf at hcv
      have hq := List.mem_of_find?_eq_some hcv
      rw [List.mem_reverse, mem_allPos] at hq
      have hcov : covers P s q (r, c) = true := by
        have := List.find?_some hcv
        simpa using this
      have himg : imgOf P (s q.1 q.2) ≠ none := by
        intro h; simp [covers, h] at hcov
      have := wp_img_not_shadowed P H W s hs q.1 q.2 hq.1 hq.2 himg
      rw [hb q.1 q.2 hq.1 hq.2]
      simp [normR, this, rasterise_face]
    | none =>
      simp only
      have e1 : shadowedRaw P b r c = shadowedRaw P s r c := by
        rw [shadowed_congr P b (normR P s) r W (fun c hc => hb r c hr hc) c (by omega), shadowed_normR]
      rw [e1, hb r c hr hc]
      cases hsh : shadowedRaw P s r c
      · simp only [Bool.false_eq_true, if_false, normR, hsh]
        cases hk : (s r c).kind <;> simp [rasterise, hk]
      · simp
  · intro r c
    simp only [display]
    split
    · rename_i h
      rw [hb r c h.1 h.2, imgOf_normR P H W s hs r c h.1 h.2]
    · rfl

end SurfProofs.C01
