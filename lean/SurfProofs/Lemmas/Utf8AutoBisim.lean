import SurfProofs.Lemmas.AutoSim
import SurfModel.TextLayout
import SurfModel.Utf8
/-!
The hand-written Table 3-7 automaton of the C09 driver (`SurfModel.TextLayout.utf8Auto`, nine states) and
the subset automaton compiled from the model of `utf8_nfa(Canonical)` (`SurfModel.Utf8.utf8Auto`, the model
of `UTF8DFA` that C02's theorems are about) are bisimilar: the product exploration from the two start states
(28 pairs) is closed under all 256 bytes with equal accepting / terminal flags.  Decided by the kernel; kept in
a module of its own because the evaluation takes minutes (it is rebuilt only when one of the two automata
changes).
-/
namespace SurfProofs.Utf8AutoBisim
open SurfProofs.AutoSim SurfModel.Tokenizer

/-- the relation found by exploring the product of the two automata -/
def rel : List (Nat × SurfModel.Automata.DState) :=
  explore SurfModel.TextLayout.utf8Auto SurfModel.Utf8.utf8Auto 64

set_option maxRecDepth 1000000 in
theorem rel_check : bisimCheck SurfModel.TextLayout.utf8Auto SurfModel.Utf8.utf8Auto rel = true := by
  decide +kernel

/-- **the two UTF-8 automata agree**: bisimilar, with equal accepting and terminal flags -/
theorem utf8_bisim :
    Bisim SurfModel.TextLayout.utf8Auto SurfModel.Utf8.utf8Auto (fun s S => (s, S) ∈ rel) :=
  bisimCheck_sound _ _ rel rel_check

end SurfProofs.Utf8AutoBisim
