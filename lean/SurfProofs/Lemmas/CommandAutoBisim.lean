import SurfProofs.Lemmas.AutoSim
import SurfProofs.Lemmas.DecoderStream
import SurfModel.TextLayout
/-!
A small hand-written automaton for the grammar of `TTYCommandDecoder` (`ESC [ ([0-9:]* ;?)+ m` | UTF-8 without
`ESC`) and its bisimulation with the subset automaton compiled from the model grammar
(`SurfProofs.DecoderStream.commandModelAuto`), tag sets included.  Decided by the kernel on the product
exploration (33 pairs x 256 bytes); a module of its own because the evaluation takes minutes.
-/
namespace SurfProofs.CommandAutoBisim
open SurfProofs.AutoSim SurfModel.Tokenizer SurfModel.Automata SurfModel.Grammar SurfModel.Stream
open SurfProofs.DecoderStream

/-- states: 0 start, 1-7 inside a UTF-8 character (as `SurfModel.TextLayout.utf8Step`), 8 character complete,
    9 after `ESC`, 10 after `ESC [`, 11 after a digit or colon, 12 after `;`, 13 after the final `m` -/
def cmdStep (s : Nat) (b : UInt8) : Option Nat :=
  let x := b.toNat
  match s with
  | 0 => if x = 27 then some 9 else SurfModel.TextLayout.utf8Step 0 b
  | 9 => if x = 91 then some 10 else none
  | 10 | 11 | 12 =>
    if 48 ≤ x ∧ x ≤ 58 then some 11 else if x = 59 then some 12 else if x = 109 then some 13 else none
  | 8 | 13 => none
  | s => SurfModel.TextLayout.utf8Step s b

/-- tag sets: `Matcher(0)` (SGR) in 13, `Matcher(1)` (character) in 8 -/
def cmdTags (s : Nat) : List Nat :=
  if s = 13 then [matcherBase] else if s = 8 then [matcherBase + 1] else []

def cmdAbs : TAuto Nat :=
  { start := 0, step := cmdStep, accepting := fun s => s == 8 || s == 13, terminal := fun s => s == 8 || s == 13,
    tags := cmdTags }

/-- the relation found by exploring the product of the two automata -/
def rel : List (Nat × DState) := explore cmdAbs.toAuto commandModelAuto.toAuto 64

set_option maxRecDepth 1000000 in
theorem rel_check :
    (bisimCheck cmdAbs.toAuto commandModelAuto.toAuto rel &&
      rel.all fun p => cmdAbs.tags p.1 == commandModelAuto.tags p.2) = true := by
  decide +kernel

theorem cmd_bisim : Bisim cmdAbs.toAuto commandModelAuto.toAuto (fun s S => (s, S) ∈ rel) := by
  have := rel_check
  rw [Bool.and_eq_true] at this
  exact bisimCheck_sound _ _ rel this.1

theorem cmd_tags (s : Nat) (S : DState) (h : (s, S) ∈ rel) : commandModelAuto.tags S = cmdTags s := by
  have := rel_check
  rw [Bool.and_eq_true, List.all_eq_true] at this
  have := this.2 (s, S) h
  simp only [beq_iff_eq] at this
  exact this.symm

end SurfProofs.CommandAutoBisim
