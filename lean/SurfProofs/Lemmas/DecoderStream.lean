import SurfModel.Decoders
import SurfProofs.Lemmas.PayloadTotal2
import SurfProofs.Lemmas.ProtoStream
import SurfProofs.Lemmas.ProtoKeyTable
import SurfProofs.C03
/-!
Composition for C02: every item the tokenizer hands on is decoded without a panic.

A token is a word the automaton accepts; over an automaton that realises the combined grammar its least tag is
either the code of a key of the literal table (then the event is that key) or the tag of a parsed family whose
grammar matches the token — and no decoder panics on a word of its own grammar (`decode_total`).
-/
namespace SurfProofs.DecoderStream
open SurfModel.Tokenizer SurfModel.Payload SurfModel.Grammar SurfModel.Automata SurfModel.Stream SurfModel.Decoders
open SurfProofs.PayloadTotal SurfProofs.ReLen SurfProofs.ProtoStream SurfProofs.ProtoKeyTable SurfProofs.ReMatch

/-- **no decoder body panics on a word of its own grammar** -/
theorem decode_total (k : Family) (w : List UInt8) (h : (grammar k).Matches w) :
    SurfModel.Payload.decode k (natBytes w) ≠ .error .panic := by
  have hl := matches_minLen h
  have hn := natBytes_length w
  cases k with
  | keys => simp [SurfModel.Payload.decode]
  | cursorPosition =>
    refine decodeCursorPosition_total _ ?_
    simp [grammar, cursorPositionRe, number, digit, lit, bytes, minLen, minLenSeq] at hl
    omega
  | decMode =>
    refine decodeDecMode_total _ ?_
    simp [grammar, decModeRe, number, digit, lit, bytes, minLen, minLenSeq] at hl
    omega
  | deviceAttrs =>
    refine decodeDeviceAttrs_total _ ?_
    simp [grammar, deviceAttrsRe, number, digit, lit, bytes, minLen, minLenSeq] at hl
    omega
  | sgr =>
    refine decodeSgr_total _ ?_
    simp [grammar, sgrRe, lit, bytes, minLen, minLenSeq] at hl
    omega
  | kittyImage =>
    refine decodeKittyImage_total _ ?_
    simp [grammar, kittyImageRe, kittyKV, alnum, notEsc, lit, bytes, minLen, minLenSeq] at hl
    omega
  | kittyKeyboard =>
    refine decodeKittyKeyboard_total _ ?_
    simp [grammar, kittyKeyboardRe, digit, lit, bytes, minLen, minLenSeq, minLenAlt] at hl
    omega
  | mouse =>
    refine decodeMouse_total _ ?_
    simp [grammar, mouseRe, number, digit, lit, bytes, minLen, minLenSeq] at hl
    omega
  | osc =>
    refine decodeOsc_total _ ?_
    simp [grammar, oscRe, number, digit, notEscBel, lit, bytes, minLen, minLenSeq, minLenAlt] at hl
    omega
  | reportSetting =>
    refine decodeReportSetting_total _ ?_
    simp [grammar, reportSettingRe, notEsc, lit, bytes, minLen, minLenSeq, minLenAlt] at hl
    omega
  | termcap => exact decodeTermcap_total w h
  | termSize => exact decodeTermSize_total w h
  | utf8 => exact decodeUtf8_total w h
  | paste =>
    refine decodePaste_total _ ?_
    simp [grammar, pasteRe, notEsc, lit, bytes, minLen, minLenSeq] at hl
    omega

/-- the two matchers of the command decoder -/
theorem decodeCommand_total (i : Nat) (g : Re) (hg : commandGrammars[i]? = some g) (w : List UInt8)
    (h : g.Matches w) : decodeCommand i (natBytes w) ≠ .error .panic := by
  match i, hg with
  | 0, hg =>
    simp only [commandGrammars, List.getElem?_cons_zero, Option.some.injEq] at hg
    subst hg
    exact decode_total .sgr w h
  | 1, hg =>
    simp only [commandGrammars, List.getElem?_cons_succ, List.getElem?_cons_zero, Option.some.injEq] at hg
    subst hg
    obtain ⟨c, hc, _, _⟩ := utf8_payload 2 w h
    simp [decodeCommand, hc]
  | n + 2, hg => simp [commandGrammars] at hg

set_option maxRecDepth 100000 in
/-- every key of the literal table is a key of the model (`Key.ofCode` succeeds) — re-checked on the table
    regenerated from the implementation -/
theorem keyTable_ofCode :
    SurfModel.Generated.keyTable.all (fun e => (Key.ofCode (keyCode3 e.2.1 e.2.2.1 e.2.2.2)).isSome) = true := by
  decide +kernel

/-- a token of an automaton realising the combined grammar never makes `decodeTok` panic -/
theorem eventOfItem_total {σ} (A : TAuto σ) (hR : Realises A) (it : Item σ) (hok : ItemOk A.toAuto it) :
    eventOfItem A it ≠ .error .panic := by
  cases it with
  | raw bs => simp [eventOfItem]
  | tok bs q =>
    obtain ⟨_, hrun, hacc⟩ := hok
    have hr := hR bs
    rw [hrun] at hr
    cases hS : eventDFA.run bs with
    | none => rw [hS] at hr; simp at hr
    | some S =>
      rw [hS] at hr
      simp only [Option.map_some, Option.some.injEq, Prod.mk.injEq] at hr
      have hSacc : eventDFA.isAccepting S = true := by rw [← hr.1]; exact hacc
      have hm : eventRe.Matches bs := by
        apply (SurfProofs.C15.C15_language eventRe bs).mp
        unfold DFA.matches
        show (match eventDFA.run bs with | some S => eventDFA.isAccepting S | none => false) = true
        rw [hS]; exact hSacc
      have htags : A.tags q = eventDFA.tagsAfter bs := by
        rw [hr.2]; unfold DFA.tagsAfter; rw [hS]
      -- some tag is reported: the word belongs to one of the alternatives
      have hsome : ∃ t, t ∈ eventDFA.tagsAfter bs := by
        unfold eventRe at hm
        obtain ⟨e, he, hme⟩ := matches_alt.mp hm
        obtain ⟨k, _, rfl⟩ := List.mem_map.mp he
        by_cases hk : k = .keys
        · subst hk
          have : (Re.altT keyAlts).Matches bs := hme
          unfold Re.altT at this
          obtain ⟨e', he', hme'⟩ := matches_alt.mp this
          obtain ⟨a, ha, rfl⟩ := List.mem_map.mp he'
          obtain ⟨ent, hent, rfl⟩ := List.mem_map.mp ha
          have hw : bs = bytes ent.1 := by
            have : (Re.tag _ (lit ent.1)).Matches bs := hme'
            exact matches_lit.mp (matches_tag.mp this)
          exact ⟨_, (event_tags bs _).mpr (Or.inl ⟨ent, hent, rfl, hw⟩)⟩
        · have e : eventAlt k = Re.tag k.tag (grammar k) := by cases k <;> first | exact absurd rfl hk | rfl
          rw [e] at hme
          exact ⟨k.tag, (event_tags bs _).mpr (Or.inr ⟨k, hk, rfl, matches_tag.mp hme⟩)⟩
      obtain ⟨t0, ht0⟩ := hsome
      simp only [eventOfItem, TAuto.leastTag, htags]
      cases hl : eventDFA.tagsAfter bs with
      | nil => rw [hl] at ht0; cases ht0
      | cons t rest =>
        simp only [List.head?_cons]
        have ht : t ∈ eventDFA.tagsAfter bs := by rw [hl]; simp
        rcases (event_tags bs t).mp ht with ⟨ent, hent, hcode, _⟩ | ⟨k, hk, rfl, hmk⟩
        · have h1 := List.all_eq_true.mp keyTable_ofCode ent hent
          have h2 := List.all_eq_true.mp keyTable_codes_small ent hent
          simp only [decide_eq_true_eq] at h2
          rw [hcode] at h1 h2
          simp only [eventOfTok, decodeTok, h2, if_true]
          cases hk : Key.ofCode t with
          | none => rw [hk] at h1; cases h1
          | some key => simp
        · have hge := family_tag_ge k
          have hidx := family_tag_index k
          have hnl : ¬ k.tag < matcherBase := by omega
          simp only [eventOfTok, decodeTok, hnl, if_false, hidx]
          have := decode_total k bs hmk
          cases hd : SurfModel.Payload.decode k (natBytes bs) with
          | error e =>
            rw [hd] at this
            cases e with
            | panic => exact absurd rfl this
            | ext => simp
          | ok r => cases r <;> simp

/-- the compiled model automaton of the combined grammar, with its tag sets -/
def modelAuto : TAuto DState :=
  { start := eventDFA.start, step := eventDFA.transition, accepting := eventDFA.isAccepting,
    terminal := eventDFA.isTerminal, tags := eventDFA.tags }

theorem modelAuto_run (S : DState) (w : List UInt8) :
    runA modelAuto.toAuto S w = eventDFA.transitionMany S w := by
  induction w generalizing S with
  | nil => rfl
  | cons b r ih =>
    simp only [runA, DFA.transitionMany, modelAuto]
    cases h : eventDFA.transition S b with
    | none => rfl
    | some S' => simpa [modelAuto] using ih S'

theorem modelAuto_realises : Realises modelAuto := by
  intro w
  rw [modelAuto_run]
  simp only [DFA.run, modelAuto]

theorem modelAuto_termOk : modelAuto.toAuto.TermOk := by
  intro S h b
  exact (SurfProofs.C15.C15_terminal_iff eventRe.toNFA S).mp h b

/-! ## the command decoder -/

/-- the DFA `MatcherAutomata::new` compiles for `TTY_COMMAND_AUTOMATA` (model) -/
def commandDFA : DFA := commandRe.toNFA.compile

def commandAlts : List (Re × Option Nat) := [(sgrRe, some matcherBase), (SurfModel.Grammar.utf8Re 2, some (matcherBase + 1))]

theorem commandRe_eq : commandRe = Re.altT commandAlts := rfl

theorem commandAlts_tagFree : ∀ a ∈ commandAlts, SurfProofs.Tags.TagFree a.1 := by
  intro a ha
  simp only [commandAlts, List.mem_cons, List.not_mem_nil, or_false] at ha
  rcases ha with rfl | rfl
  · exact grammar_tagFree .sgr (by simp)
  · simp [SurfModel.Grammar.utf8Re, utf8Tail, range, tf_seq, tf_alt, tf_pred]

/-- `A` is observationally the DFA compiled from the command grammar -/
def RealisesCommand {σ} (A : TAuto σ) : Prop :=
  ∀ w, (runA A.toAuto A.start w).map (fun q => (A.accepting q, A.tags q)) =
    (commandDFA.run w).map fun S => (commandDFA.isAccepting S, commandDFA.tags S)

theorem commandOfItem_total {σ} (A : TAuto σ) (hR : RealisesCommand A) (it : Item σ) (hok : ItemOk A.toAuto it) :
    commandOfItem A it ≠ .error .panic := by
  cases it with
  | raw bs => simp [commandOfItem]
  | tok bs q =>
    obtain ⟨_, hrun, hacc⟩ := hok
    have hr := hR bs
    rw [hrun] at hr
    cases hS : commandDFA.run bs with
    | none => rw [hS] at hr; simp at hr
    | some S =>
      rw [hS] at hr
      simp only [Option.map_some, Option.some.injEq, Prod.mk.injEq] at hr
      have hSacc : commandDFA.isAccepting S = true := by rw [← hr.1]; exact hacc
      have hm : commandRe.Matches bs := by
        apply (SurfProofs.C15.C15_language commandRe bs).mp
        unfold DFA.matches
        show (match commandDFA.run bs with | some S => commandDFA.isAccepting S | none => false) = true
        rw [hS]; exact hSacc
      have htags : A.tags q = commandDFA.tagsAfter bs := by
        rw [hr.2]; unfold DFA.tagsAfter; rw [hS]
      have hspec : ∀ t, t ∈ commandDFA.tagsAfter bs ↔ ∃ a ∈ commandAlts, a.2 = some t ∧ a.1.Matches bs := by
        intro t
        have := (SurfProofs.C15.C15_tags commandAlts commandAlts_tagFree bs).1 t
        rw [← commandRe_eq] at this
        exact this
      have hsome : ∃ t, t ∈ commandDFA.tagsAfter bs := by
        rw [commandRe_eq] at hm
        unfold Re.altT at hm
        obtain ⟨e, he, hme⟩ := matches_alt.mp hm
        obtain ⟨a, ha, rfl⟩ := List.mem_map.mp he
        simp only [commandAlts, List.mem_cons, List.not_mem_nil, or_false] at ha
        rcases ha with rfl | rfl
        · exact ⟨matcherBase, (hspec _).mpr ⟨_, by simp [commandAlts], rfl, matches_tag.mp hme⟩⟩
        · exact ⟨matcherBase + 1, (hspec _).mpr ⟨_, by simp [commandAlts], rfl, matches_tag.mp hme⟩⟩
      obtain ⟨t0, ht0⟩ := hsome
      simp only [commandOfItem, TAuto.leastTag, htags]
      cases hl : commandDFA.tagsAfter bs with
      | nil => rw [hl] at ht0; cases ht0
      | cons t rest =>
        simp only [List.head?_cons]
        have ht : t ∈ commandDFA.tagsAfter bs := by rw [hl]; simp
        obtain ⟨a, ha, hat, hma⟩ := (hspec t).mp ht
        simp only [commandAlts, List.mem_cons, List.not_mem_nil, or_false] at ha
        have key : ∀ i g, commandGrammars[i]? = some g → g.Matches bs → t = matcherBase + i →
            (match decodeCommandTok t (natBytes bs) with
              | .error e => (.error e : Except Stop Event)
              | .ok (some e) => .ok e
              | .ok none => .ok (.raw (natBytes bs))) ≠ .error .panic := by
          intro i g hg hmg hti
          have hnl : ¬ t < matcherBase := by omega
          have hsub : t - matcherBase = i := by omega
          simp only [decodeCommandTok, hnl, if_false, hsub]
          have := decodeCommand_total i g hg bs hmg
          cases hd : decodeCommand i (natBytes bs) with
          | error e =>
            rw [hd] at this
            cases e with
            | panic => exact absurd rfl this
            | ext => simp
          | ok r => cases r <;> simp
        rcases ha with rfl | rfl
        · simp only [Option.some.injEq] at hat
          exact key 0 sgrRe rfl hma (by omega)
        · simp only [Option.some.injEq] at hat
          exact key 1 (SurfModel.Grammar.utf8Re 2) rfl hma (by omega)

def commandModelAuto : TAuto DState :=
  { start := commandDFA.start, step := commandDFA.transition, accepting := commandDFA.isAccepting,
    terminal := commandDFA.isTerminal, tags := commandDFA.tags }

theorem commandModelAuto_run (S : DState) (w : List UInt8) :
    runA commandModelAuto.toAuto S w = commandDFA.transitionMany S w := by
  induction w generalizing S with
  | nil => rfl
  | cons b r ih =>
    simp only [runA, DFA.transitionMany, commandModelAuto]
    cases h : commandDFA.transition S b with
    | none => rfl
    | some S' => simpa [commandModelAuto] using ih S'

theorem commandModelAuto_realises : RealisesCommand commandModelAuto := by
  intro w
  rw [commandModelAuto_run]
  simp only [DFA.run, commandModelAuto]

theorem commandModelAuto_termOk : commandModelAuto.toAuto.TermOk := by
  intro S h b
  exact (SurfProofs.C15.C15_terminal_iff commandRe.toNFA S).mp h b

end SurfProofs.DecoderStream
