import SurfProofs.Lemmas.C01Row
/-!
C01, helper lemmas 3: positions of a grid, the blank surface and the blank terminal.
-/
namespace SurfProofs.C01
open SurfModel.Screen SurfModel.Renderer

theorem mem_allPos (H W : Nat) (q : Nat × Nat) : q ∈ allPos H W ↔ q.1 < H ∧ q.2 < W := by
  obtain ⟨a, b⟩ := q
  simp only [allPos, List.mem_flatMap, List.mem_map, List.mem_range, Prod.mk.injEq]
  constructor
  · rintro ⟨r, hr, c, hc, rfl, rfl⟩; exact ⟨hr, hc⟩
  · rintro ⟨h1, h2⟩; exact ⟨a, h1, b, h2, rfl, rfl⟩

/-- the surface a renderer starts from and `clear()` resets to -/
def blankSurf : Surface := fun _ _ => defaultCell

theorem blank_wp (P : Params) (hP : ParamsOk P) (H W : Nat) : WellPlaced P H W blankSurf := by
  have hw : isWide P defaultCell = false := by simp [isWide, defaultCell, hP.sp]
  have hi : imgOf P defaultCell = none := by simp [imgOf, defaultCell]
  refine ⟨?_, ?_, ?_, ?_, ?_⟩
  · intro r c ch _ _ hk
    simp [blankSurf, defaultCell] at hk
    subst hk; exact Or.inl hP.sp
  · intro r c _ _ h; simp [blankSurf, hw] at h
  · intro r c i _ _ h; simp [blankSurf, hi] at h
  · intro q q' p _ _ _ _ h; simp [covers, blankSurf, hi] at h
  · intro q r c _ _ _ _ h; simp [blankSurf, hw] at h

theorem wf_blank (P : Params) (hP : ParamsOk P) : WF P blank := by
  intro r
  refine ⟨by simp [blank], ?_⟩
  intro c
  simp only [blank]
  constructor
  · intro h; cases h
  · rintro ⟨ch, f, he, hw⟩
    cases he
    rw [hP.sp] at hw
    omega

end SurfProofs.C01
