import SurfProofs.Lemmas.Vt
/-! SGR: chunks pushed by the encoder ↦ numeric parameters ↦ attribute operations. -/
namespace SurfProofs.Lemmas.Vt
open SurfModel.Vt

def roleCode : Role → Nat | .fg => 38 | .bg => 48 | .ul => 58

def grayIndex (lvl : Nat) : Nat := match lvl with | 0 => 30 | 1 => 90 | 2 => 37 | _ => 97

/-- numeric parameters of one colour -/
def colorParams (c : Color) (d : Depth) (role : Role) : List (List (Option Nat)) :=
  match d with
  | .trueColor => [[some (roleCode role)], [some 2], [some c.r], [some c.g], [some c.b]]
  | .eightBit => [[some (roleCode role)], [some 5], [some c.pal]]
  | .gray =>
    match role with
    | .fg => [[some (grayIndex c.lvl)]]
    | .bg => [[some (grayIndex c.lvl + 10)]]
    | .ul => []

theorem roleChunk (role : Role) :
    chunkP (match role with | .fg => [51, 56] | .bg => [52, 56] | .ul => [53, 56]) = some [some (roleCode role)] := by
  cases role <;> decide

theorem colorChunks_params (c : Color) (d : Depth) (role : Role) :
    (colorChunks c d role).mapM chunkP = some (colorParams c d role) := by
  cases d with
  | trueColor =>
    have h2 : chunkP [50] = some [some 2] := by decide
    have a : chunkP [51, 56] = some [some 38] := by decide
    have b : chunkP [52, 56] = some [some 48] := by decide
    have c' : chunkP [53, 56] = some [some 58] := by decide
    cases role <;> simp [colorChunks, colorParams, chunkP_showNat, h2, a, b, c', roleCode]
  | eightBit =>
    have h5 : chunkP [53] = some [some 5] := by decide
    have a : chunkP [51, 56] = some [some 38] := by decide
    have b : chunkP [52, 56] = some [some 48] := by decide
    have c' : chunkP [53, 56] = some [some 58] := by decide
    cases role <;> simp [colorChunks, colorParams, chunkP_showNat, h5, a, b, c', roleCode]
  | gray =>
    cases role <;> simp [colorChunks, colorParams, chunkP_showNat, grayIndex] <;>
      (rcases c.lvl with _ | _ | _ | n <;> rfl)

theorem colorChunks_no59 (c : Color) (d : Depth) (role : Role) : ∀ x ∈ colorChunks c d role, 59 ∉ x := by
  intro x hx
  cases d <;> cases role <;> simp [colorChunks] at hx <;>
    (try (rcases hx with rfl | rfl | rfl | rfl | rfl <;> first | exact showNat_no59 _ | decide)) <;>
    (try (rcases hx with rfl | rfl | rfl <;> first | exact showNat_no59 _ | decide)) <;>
    (try (subst hx; exact showNat_no59 _))

theorem colorParams_closed (c : Color) (d : Depth) (role : Role) :
    Closed (colorParams c d role) (colorMeaning c d role) := by
  intro rest
  cases d with
  | trueColor => cases role <;> simp [colorParams, colorMeaning, roleCode, colorOp, sgrSem]
  | eightBit => cases role <;> simp [colorParams, colorMeaning, roleCode, colorOp, sgrSem]
  | gray =>
    cases role <;> simp only [colorParams, colorMeaning] <;>
      (try (rcases hl : c.lvl with _ | _ | _ | n <;> simp [grayIndex, sgrSem])) <;> simp

/-! ### chunk well-formedness: digits and `:` only -/

/-- bytes a chunk may contain: decimal digits and `:` -/
def PB (c : List Nat) : Prop := ∀ b ∈ c, 48 ≤ b ∧ b ≤ 58

theorem PB_showNat (n : Nat) : PB (showNat n) := by
  intro b hb; have := showNat_digits n b hb; omega

def Good (chunks : List (List Nat)) : Prop := ∀ c ∈ chunks, PB c

theorem Good.nil : Good [] := by intro c hc; simp at hc
theorem Good.append {a b : List (List Nat)} (ha : Good a) (hb : Good b) : Good (a ++ b) := by
  intro c hc; rcases List.mem_append.mp hc with h | h
  · exact ha c h
  · exact hb c h
theorem Good.single {c : List Nat} (h : PB c) : Good [c] := by
  intro x hx; simp at hx; subst hx; exact h

theorem Good.no59 {chunks : List (List Nat)} (h : Good chunks) : ∀ c ∈ chunks, 59 ∉ c := by
  intro c hc h59; have := h c hc 59 h59; omega

theorem Good.join_bytes {chunks : List (List Nat)} (h : Good chunks) : ∀ b ∈ joinSemi chunks, 48 ≤ b ∧ b ≤ 59 := by
  induction chunks with
  | nil => intro b hb; simp [joinSemi] at hb
  | cons c cs ih =>
    intro b hb
    cases cs with
    | nil =>
      simp [joinSemi] at hb
      have := h c (by simp) b hb; omega
    | cons c2 cs2 =>
      simp only [joinSemi, List.mem_append, List.mem_cons] at hb
      rcases hb with hb | hb | hb
      · have := h c (by simp) b hb; omega
      · omega
      · exact ih (fun x hx => h x (by simp [hx])) b hb

theorem colorChunks_good (c : Color) (d : Depth) (role : Role) : Good (colorChunks c d role) := by
  intro x hx
  cases d <;> cases role <;> simp [colorChunks] at hx <;>
    (try (rcases hx with rfl | rfl | rfl | rfl | rfl <;> first | exact PB_showNat _ | (intro b hb; simp at hb; omega))) <;>
    (try (rcases hx with rfl | rfl | rfl <;> first | exact PB_showNat _ | (intro b hb; simp at hb; omega))) <;>
    (try (subst hx; exact PB_showNat _))

/-- CSI sequence whose parameter bytes are joined chunks: meaning by final byte and numeric parameters -/
theorem semCsi_chunks (chunks : List (List Nat)) (p : List (List (Option Nat))) (fin : Nat) (hne : chunks ≠ [])
    (hg : Good chunks) (hp : chunks.mapM chunkP = some p) :
    semCsi (joinSemi chunks) [] fin = semCsiPlain (.other (.csi (joinSemi chunks) [] fin)) fin p := by
  have hpar : params? (joinSemi chunks) = some p := by
    rw [params?_joinSemi chunks hne hg.no59, hp]
  have hb := hg.join_bytes
  cases hj : joinSemi chunks with
  | nil =>
    rw [hj] at hpar
    simp [semCsi, hpar]
  | cons x xs =>
    rw [hj] at hpar hb
    have hx := hb x (by simp)
    unfold semCsi
    split
    · rename_i heq; simp at heq; omega
    · rename_i heq; simp at heq; omega
    · simp [hpar]

theorem semCsi_sgr (chunks : List (List Nat)) (p : List (List (Option Nat))) (hne : chunks ≠ [])
    (hg : Good chunks) (hp : chunks.mapM chunkP = some p) :
    semCsi (joinSemi chunks) [] 109 = .sgr (sgrSem p) := by
  rw [semCsi_chunks chunks p 109 hne hg hp]
  simp [semCsiPlain]

/-! ### Face -/

def optParams (c : Option Color) (d : Depth) (role : Role) : List (List (Option Nat)) :=
  match c with | none => [] | some c => colorParams c d role

def underParams : Nat → List (List (Option Nat))
  | 1 => [[some 4]]
  | 2 => [[some 4, some 2]]
  | 3 => [[some 4, some 3]]
  | 4 => [[some 4, some 4]]
  | 5 => [[some 4, some 5]]
  | _ => []

def flagParams (on : Bool) (code : Nat) : List (List (Option Nat)) := if on then [[some code]] else []

def faceParams (f : Face) (d : Depth) : List (List (Option Nat)) :=
  [[some 0]] ++ optParams f.fg d .fg ++ optParams f.bg d .bg ++ underParams f.under
    ++ flagParams f.bold 1 ++ flagParams f.italic 3 ++ flagParams f.blink 5
    ++ flagParams f.reverse 7 ++ flagParams f.strike 9

theorem optChunks_params (c : Option Color) (d : Depth) (role : Role) :
    (optChunks c d role).mapM chunkP = some (optParams c d role) := by
  cases c <;> simp [optChunks, optParams, colorChunks_params]

theorem optChunks_good (c : Option Color) (d : Depth) (role : Role) : Good (optChunks c d role) := by
  cases c
  · exact Good.nil
  · exact colorChunks_good _ _ _

theorem optParams_closed (c : Option Color) (d : Depth) (role : Role) :
    Closed (optParams c d role) (optMeaning c d role) := by
  cases c
  · exact Closed.nil
  · exact colorParams_closed _ _ _

theorem underChunk_params (u : Nat) : (underChunk u).mapM chunkP = some (underParams u) := by
  rcases u with _ | _ | _ | _ | _ | _ | n <;> first | rfl | decide

theorem underChunk_good (u : Nat) : Good (underChunk u) := by
  rcases u with _ | _ | _ | _ | _ | _ | n <;> intro c hc <;> simp [underChunk] at hc <;>
    (subst hc; intro b hb; simp at hb; omega)

theorem underParams_closed (u : Nat) :
    Closed (underParams u) (if 1 ≤ u ∧ u ≤ 5 then [.underline u] else []) := by
  intro rest
  rcases u with _ | _ | _ | _ | _ | _ | n <;> simp [underParams, sgrSem]

theorem flagChunk_params (on : Bool) (code : Nat) (bs : List Nat) (h : chunkP bs = some [some code]) :
    (flagChunk on bs).mapM chunkP = some (flagParams on code) := by
  cases on <;> simp [flagChunk, flagParams, h]

theorem flagChunk_good (on : Bool) (bs : List Nat) (h : PB bs) : Good (flagChunk on bs) := by
  cases on
  · exact Good.nil
  · exact Good.single h

theorem faceChunks_params (f : Face) (d : Depth) : (faceChunks f d).mapM chunkP = some (faceParams f d) := by
  unfold faceChunks faceParams
  repeat' apply mapM_append_some
  · decide
  · exact optChunks_params _ _ _
  · exact optChunks_params _ _ _
  · exact underChunk_params _
  · exact flagChunk_params _ 1 [49] (by decide)
  · exact flagChunk_params _ 3 [51] (by decide)
  · exact flagChunk_params _ 5 [53] (by decide)
  · exact flagChunk_params _ 7 [55] (by decide)
  · exact flagChunk_params _ 9 [57] (by decide)

theorem pb_lit (bs : List Nat) (h : bs.all (fun b => 48 ≤ b && b ≤ 58) = true) : PB bs := by
  intro b hb
  have := List.all_eq_true.mp h b hb
  simp at this; omega

theorem faceChunks_good (f : Face) (d : Depth) : Good (faceChunks f d) := by
  unfold faceChunks
  repeat' apply Good.append
  · exact Good.single (pb_lit _ (by decide))
  · exact optChunks_good _ _ _
  · exact optChunks_good _ _ _
  · exact underChunk_good _
  · exact flagChunk_good _ _ (pb_lit _ (by decide))
  · exact flagChunk_good _ _ (pb_lit _ (by decide))
  · exact flagChunk_good _ _ (pb_lit _ (by decide))
  · exact flagChunk_good _ _ (pb_lit _ (by decide))
  · exact flagChunk_good _ _ (pb_lit _ (by decide))

theorem flagParams_closed (on : Bool) (code : Nat) (op : SgrOp)
    (h : ∀ rest, sgrSem ([some code] :: rest) = op :: sgrSem rest) :
    Closed (flagParams on code) (flagOp on op) := by
  intro rest
  cases on <;> simp [flagParams, flagOp, h]

theorem faceParams_closed (f : Face) (d : Depth) : Closed (faceParams f d) (faceMeaning f d) := by
  unfold faceParams faceMeaning
  repeat' apply Closed.append
  · intro rest; simp [sgrSem]
  · exact optParams_closed _ _ _
  · exact optParams_closed _ _ _
  · exact underParams_closed _
  · exact flagParams_closed _ _ _ (by intro rest; simp [sgrSem])
  · exact flagParams_closed _ _ _ (by intro rest; simp [sgrSem])
  · exact flagParams_closed _ _ _ (by intro rest; simp [sgrSem])
  · exact flagParams_closed _ _ _ (by intro rest; simp [sgrSem])
  · exact flagParams_closed _ _ _ (by intro rest; simp [sgrSem])

/-! ### FaceModify -/

def triParams (v : Option Bool) (on off : Nat) : List (List (Option Nat)) :=
  match v with | none => [] | some true => [[some on]] | some false => [[some off]]

def ulModParams : Option Nat → List (List (Option Nat))
  | none => []
  | some 0 => [[some 24]]
  | some k => underParams k

def faceModifyParams (m : FaceModify) (d : Depth) : List (List (Option Nat)) :=
  (if m.reset then [[some 0]] else []) ++ optParams m.fg d .fg ++ optParams m.bg d .bg
    ++ ulModParams m.underline ++ optParams m.underlineColor d .ul
    ++ triParams m.bold 1 22 ++ triParams m.italic 3 23 ++ triParams m.blink 5 25 ++ triParams m.strike 9 29

theorem triChunk_params (v : Option Bool) (on off : Nat) (bon boff : List Nat)
    (h1 : chunkP bon = some [some on]) (h2 : chunkP boff = some [some off]) :
    (triChunk v bon boff).mapM chunkP = some (triParams v on off) := by
  rcases v with _ | _ | _ <;> simp [triChunk, triParams, h1, h2]

theorem triChunk_good (v : Option Bool) (bon boff : List Nat) (h1 : PB bon) (h2 : PB boff) :
    Good (triChunk v bon boff) := by
  rcases v with _ | _ | _
  · exact Good.nil
  · exact Good.single h2
  · exact Good.single h1

theorem triParams_closed (v : Option Bool) (on off : Nat) (opOn opOff : SgrOp)
    (h1 : ∀ rest, sgrSem ([some on] :: rest) = opOn :: sgrSem rest)
    (h2 : ∀ rest, sgrSem ([some off] :: rest) = opOff :: sgrSem rest) :
    Closed (triParams v on off) (triOp v opOn opOff) := by
  intro rest
  rcases v with _ | _ | _ <;> simp [triParams, triOp, h1, h2]

theorem ulMod_params (u : Option Nat) :
    (match u with | none => [] | some 0 => [[50, 52]] | some k => underChunk k).mapM chunkP
      = some (ulModParams u) := by
  rcases u with _ | _ | k
  · rfl
  · decide
  · exact underChunk_params (k + 1)

theorem ulMod_good (u : Option Nat) :
    Good (match u with | none => [] | some 0 => [[50, 52]] | some k => underChunk k) := by
  rcases u with _ | _ | k
  · exact Good.nil
  · exact Good.single (pb_lit _ (by decide))
  · exact underChunk_good (k + 1)

theorem ulMod_closed (u : Option Nat) :
    Closed (ulModParams u) (match u with | none => [] | some k => if k ≤ 5 then [.underline k] else []) := by
  rcases u with _ | _ | k
  · exact Closed.nil
  · intro rest; simp [ulModParams, sgrSem]
  · have := underParams_closed (k + 1)
    intro rest
    have h := this rest
    simp only [ulModParams]
    rw [h]
    have e : (1 ≤ k + 1 ∧ k + 1 ≤ 5) ↔ (k + 1 ≤ 5) := by omega
    simp [e]

theorem faceModifyChunks_params (m : FaceModify) (d : Depth) :
    (faceModifyChunks m d).mapM chunkP = some (faceModifyParams m d) := by
  unfold faceModifyChunks faceModifyParams
  repeat' apply mapM_append_some
  · cases m.reset <;> decide
  · exact optChunks_params _ _ _
  · exact optChunks_params _ _ _
  · exact ulMod_params _
  · exact optChunks_params _ _ _
  · exact triChunk_params _ 1 22 _ _ (by decide) (by decide)
  · exact triChunk_params _ 3 23 _ _ (by decide) (by decide)
  · exact triChunk_params _ 5 25 _ _ (by decide) (by decide)
  · exact triChunk_params _ 9 29 _ _ (by decide) (by decide)

theorem faceModifyChunks_good (m : FaceModify) (d : Depth) : Good (faceModifyChunks m d) := by
  unfold faceModifyChunks
  repeat' apply Good.append
  · cases m.reset
    · exact Good.nil
    · exact Good.single (pb_lit _ (by decide))
  · exact optChunks_good _ _ _
  · exact optChunks_good _ _ _
  · exact ulMod_good _
  · exact optChunks_good _ _ _
  · exact triChunk_good _ _ _ (pb_lit _ (by decide)) (pb_lit _ (by decide))
  · exact triChunk_good _ _ _ (pb_lit _ (by decide)) (pb_lit _ (by decide))
  · exact triChunk_good _ _ _ (pb_lit _ (by decide)) (pb_lit _ (by decide))
  · exact triChunk_good _ _ _ (pb_lit _ (by decide)) (pb_lit _ (by decide))

theorem faceModifyParams_closed (m : FaceModify) (d : Depth) :
    Closed (faceModifyParams m d) (faceModifyMeaning m d) := by
  unfold faceModifyParams faceModifyMeaning
  repeat' apply Closed.append
  · cases m.reset
    · exact Closed.nil
    · intro rest; simp [sgrSem]
  · exact optParams_closed _ _ _
  · exact optParams_closed _ _ _
  · exact ulMod_closed _
  · exact optParams_closed _ _ _
  · exact triParams_closed _ _ _ _ _ (by intro rest; simp [sgrSem]) (by intro rest; simp [sgrSem])
  · exact triParams_closed _ _ _ _ _ (by intro rest; simp [sgrSem]) (by intro rest; simp [sgrSem])
  · exact triParams_closed _ _ _ _ _ (by intro rest; simp [sgrSem]) (by intro rest; simp [sgrSem])
  · exact triParams_closed _ _ _ _ _ (by intro rest; simp [sgrSem]) (by intro rest; simp [sgrSem])

/-- chunks and operations vanish together -/
theorem faceModify_empty_iff (m : FaceModify) (d : Depth) :
    (faceModifyChunks m d).isEmpty = (faceModifyParams m d).isEmpty := by
  have h := faceModifyChunks_params m d
  cases hc : faceModifyChunks m d with
  | nil => rw [hc] at h; simp at h; simp [← h]
  | cons c cs =>
    rw [hc] at h
    cases hp : faceModifyParams m d with
    | nil => rw [hp] at h; simp [List.mapM_cons] at h; cases hx : chunkP c <;> simp [hx] at h; cases hy : cs.mapM chunkP <;> simp [hy] at h
    | cons p ps => simp

end SurfProofs.Lemmas.Vt
