import SurfProofs.Lemmas.C16Spec
/-! Helper lemmas for C16: every public `IOQueue` call preserves the refinement relation `R`. -/
namespace SurfProofs.C16Spec
open SurfModel.IOQueue

theorem appendLast_flatten (cs : List (List UInt8)) (b : List UInt8) :
    (appendLast cs b).flatten = cs.flatten ++ b := by
  induction cs with
  | nil => simp [appendLast]
  | cons c cs ih =>
    cases cs with
    | nil => simp [appendLast]
    | cons d ds => simp [appendLast, ih]

theorem boundsFrom_appendLast (d : List UInt8) (ds : List (List UInt8)) (b : List UInt8) (p : Nat) :
    boundsFrom p (appendLast (d :: ds) b) = boundsFrom p (d :: ds) := by
  induction ds generalizing d p with
  | nil => simp [appendLast, boundsFrom]
  | cons e es ih => simp [appendLast, boundsFrom, ih]

theorem boundsFrom_snoc (ds : List (List UInt8)) (p : Nat) :
    boundsFrom p (ds ++ [[]]) = boundsFrom p ds ++ [p + ds.flatten.length] := by
  induction ds generalizing p with
  | nil => simp [boundsFrom]
  | cons e es ih => simp [boundsFrom, ih]; omega

theorem boundsFrom_ge (ds : List (List UInt8)) (p : Nat) : ∀ m ∈ boundsFrom p ds, p ≤ m := by
  induction ds generalizing p with
  | nil => simp [boundsFrom]
  | cons e es ih =>
    intro m hm
    simp only [boundsFrom, List.mem_cons] at hm
    rcases hm with h | h
    · omega
    · have := ih _ m h; omega

theorem boundsFrom_shift (ds : List (List UInt8)) (p n : Nat) (h : n ≤ p) :
    boundsFrom (p - n) ds = (boundsFrom p ds).map (· - n) := by
  induction ds generalizing p with
  | nil => simp [boundsFrom]
  | cons e es ih =>
    simp only [boundsFrom, List.map_cons]
    rw [← ih (p + e.length) (by omega)]
    congr 2; omega

theorem mem_shift_marks {marks : List Nat} {m n : Nat} (hm : m ∈ marks) (hn : n ≤ m) :
    m - n ∈ marks.filterMap fun x => if n ≤ x then some (x - n) else none := by
  rw [List.mem_filterMap]
  exact ⟨m, hm, by simp [hn]⟩

/-- the front slice under the offset invariant -/
theorem asSlice_of_R {q : Q} {s : Spec} (h : R q s) :
    ∃ sl, q.asSlice? = some sl ∧ sl <+: abs q ∧
      (match q.chunks with | [] => sl = [] | c :: _ => sl = c.drop q.offset) := by
  have ho := h.off
  cases hc : q.chunks with
  | nil => exact ⟨[], by simp [Q.asSlice?, hc], by simp [abs, hc], by simp⟩
  | cons c cs =>
    simp only [hc] at ho
    exact ⟨c.drop q.offset, by simp [Q.asSlice?, hc, ho], by simp [abs, hc], by simp⟩

/-- the state after a `write` that does not overflow -/
def writeN (q : Q) (b : List UInt8) : Q :=
  { q with chunks := appendLast q.chunks b, length := q.length + b.length }

theorem write?_eq (q : Q) (b : List UInt8) (h : q.length + b.length ≤ usizeMax) :
    q.write? b = some (writeN q b) := by
  simp [Q.write?, add?, h, writeN]

/-- the front chunk is no longer than everything the stream has seen -/
theorem front_le {q : Q} {s : Spec} (h : R q s) :
    match q.chunks with
    | [] => True
    | c :: _ => c.length ≤ s.size := by
  have ho := h.off
  have ha := h.abs_eq
  have hs := h.off_sent
  cases hc : q.chunks with
  | nil => trivial
  | cons c cs =>
    simp only [hc] at ho
    have : (abs q).length = (c.length - q.offset) + cs.flatten.length := by simp [abs, hc]
    rw [ha] at this
    simp only [Spec.size]
    omega

/-- write: appends to the readable bytes -/
theorem write_abs (q : Q) (b : List UInt8)
    (ho : match q.chunks with | [] => q.offset = 0 | c :: _ => q.offset ≤ c.length) :
    abs (writeN q b) = abs q ++ b := by
  cases hc : q.chunks with
  | nil =>
    simp only [hc] at ho
    simp [writeN, abs, hc, appendLast, ho]
  | cons c cs =>
    simp only [hc] at ho
    cases cs with
    | nil => simp [writeN, abs, hc, appendLast, List.drop_append_of_le_length ho]
    | cons d ds => simp [writeN, abs, hc, appendLast, appendLast_flatten]

theorem writeN_R {q : Q} {s : Spec} (b : List UInt8) (h : R q s) : R (writeN q b) (s.apply (.write b)) := by
  have ho := h.off
  refine ⟨?_, ?_, ?_, ?_, ?_⟩
  · rw [write_abs q b ho, h.abs_eq]; rfl
  · simp [writeN, Spec.apply, h.len_eq]
  · cases hc : q.chunks with
    | nil => simp only [hc] at ho; simp [writeN, hc, appendLast, ho]
    | cons c cs =>
      simp only [hc] at ho
      cases cs with
      | nil => simp [writeN, hc, appendLast]; omega
      | cons d ds => simpa [writeN, hc, appendLast] using ho
  · intro m hm
    have : boundaries (writeN q b) = boundaries q := by
      cases hc : q.chunks with
      | nil => simp [writeN, boundaries, hc, appendLast, boundsFrom]
      | cons c cs =>
        cases cs with
        | nil => simp [writeN, boundaries, hc, appendLast, boundsFrom]
        | cons d ds => simp [writeN, boundaries, hc, appendLast, boundsFrom_appendLast]
    rw [this] at hm
    exact h.marks m hm
  · exact h.off_sent

/-- write does not panic as long as the byte counter fits `usize` -/
theorem write_R {q : Q} {s : Spec} (b : List UInt8) (h : R q s) (hb : s.size + b.length ≤ usizeMax) :
    q.write? b = some (writeN q b) ∧ R (writeN q b) (s.apply (.write b)) := by
  refine ⟨write?_eq q b ?_, writeN_R b h⟩
  rw [h.len_eq]; simp only [Spec.size] at hb; omega

theorem flush_R {q : Q} {s : Spec} (h : R q s) :
    ∃ q', q.flush? = some q' ∧ R q' (s.apply .flush) ∧ abs q' = abs q := by
  obtain ⟨sl, hsl, _, hfront⟩ := asSlice_of_R h
  have ho := h.off
  by_cases he : sl.isEmpty
  · refine ⟨q, by simp [Q.flush?, hsl, he], ⟨h.abs_eq, h.len_eq, h.off, ?_, h.off_sent⟩, rfl⟩
    intro m hm
    simp [Spec.apply, h.marks m hm]
  · cases hc : q.chunks with
    | nil => simp only [hc] at hfront; simp [hfront] at he
    | cons c cs =>
      simp only [hc] at ho hfront
      have habs : abs { q with chunks := q.chunks ++ [[]] } = abs q := by simp [abs, hc]
      refine ⟨{ q with chunks := q.chunks ++ [[]] }, by simp [Q.flush?, hsl, he], ⟨?_, h.len_eq, ?_, ?_, h.off_sent⟩, habs⟩
      · rw [habs]; exact h.abs_eq
      · simpa [hc] using ho
      · intro m hm
        simp only [boundaries, hc, List.cons_append, boundsFrom_snoc, List.mem_append, List.mem_singleton] at hm
        rcases hm with hm | hm
        · simp only [Spec.apply, List.mem_cons]
          right; exact h.marks m (by simpa [boundaries, hc] using hm)
        · simp only [Spec.apply, List.mem_cons]
          left
          rw [hm, ← h.abs_eq]
          simp [abs, hc]

/-- consume: removes `min n |front slice|` bytes at the front -/
theorem consume_R {q : Q} {s : Spec} (n : Nat) (h : R q s) (hsz : s.size ≤ usizeMax) :
    ∃ q' sl, q.asSlice? = some sl ∧ q.consume? n = some q' ∧ s.Legal (.take (sl.take n)) ∧
      R q' (s.apply (.take (sl.take n))) ∧ abs q = sl.take n ++ abs q' ∧
      q'.chunks.length = (if n < sl.length then q.chunks.length else q.chunks.length - 1) := by
  have ho := h.off
  have hl := h.len_eq
  have ha := h.abs_eq
  cases hc : q.chunks with
  | nil =>
    simp only [hc] at ho
    have ha' : s.buf = [] := by rw [← ha]; simp [abs, hc]
    refine ⟨{ q with offset := 0 }, [], by simp [Q.asSlice?, hc], by simp [Q.consume?, hc], by simp [Spec.Legal], ⟨?_, ?_, ?_, ?_, ?_⟩, ?_⟩
    · simp [abs, hc, Spec.apply, ha']
    · simp [Spec.apply, hl, ha']
    · simp [hc]
    · simp [boundaries, hc]
    · simp
    · exact ⟨by simp [abs, hc], by simp [hc]⟩
  | cons c cs =>
    simp only [hc] at ho
    have habs0 : abs q = c.drop q.offset ++ cs.flatten := by simp [abs, hc]
    have hsl : q.asSlice? = some (c.drop q.offset) := by simp [Q.asSlice?, hc, ho]
    have hlen : q.length = (c.length - q.offset) + cs.flatten.length := by
      rw [hl, ← ha, habs0]; simp
    have hfront : c.length ≤ usizeMax := by
      have := front_le h
      simp only [hc] at this
      omega
    have hsat : (c.length > satAdd q.offset n) ↔ (c.length > q.offset + n) := by
      simp only [satAdd]; omega
    have hos := h.off_sent
    by_cases hlt : c.length > q.offset + n
    · have htl : ((c.drop q.offset).take n).length = n := by simp; omega
      have hsub : sub? q.length n = some (q.length - n) := by simp [sub?]; omega
      have hadd : add? q.offset n = some (q.offset + n) := by simp [add?]; omega
      refine ⟨{ q with offset := q.offset + n, length := q.length - n }, c.drop q.offset, hsl,
        by simp [Q.consume?, hc, hsat, hlt, hsub, hadd], ?_, ⟨?_, ?_, ?_, ?_, ?_⟩, ?_⟩
      · simp only [Spec.Legal, ← ha, habs0]
        exact (List.take_prefix _ _).trans (List.prefix_append _ _)
      · simp only [Spec.apply, htl, ← ha, abs, hc]
        rw [List.drop_append_of_le_length (by simp; omega), List.drop_drop]
      · simp only [Spec.apply, htl, List.length_drop, ← hl]
      · simp only [hc]; omega
      · intro m hm
        simp only [boundaries, hc] at hm
        have e : c.length - (q.offset + n) = (c.length - q.offset) - n := by omega
        rw [e, boundsFrom_shift _ _ _ (by omega), List.mem_map] at hm
        obtain ⟨m0, hm0, rfl⟩ := hm
        have hge := boundsFrom_ge _ _ m0 hm0
        simp only [Spec.apply, htl]
        exact mem_shift_marks (h.marks m0 (by simpa [boundaries, hc] using hm0)) (by omega)
      · simp only [Spec.apply, htl, List.length_append]; omega
      · refine ⟨?_, ?_⟩
        · simp only [abs, hc]
          rw [← List.append_assoc]
          congr 1
          rw [← List.drop_drop]
          exact (List.take_append_drop n _).symm
        · have : n < c.length - q.offset := by omega
          simp [this, hc]
    · have htk : (c.drop q.offset).take n = c.drop q.offset := by
        apply List.take_of_length_le; simp; omega
      have hs1 : sub? c.length q.offset = some (c.length - q.offset) := by simp [sub?]; omega
      have hs2 : sub? q.length (c.length - q.offset) = some (q.length - (c.length - q.offset)) := by
        simp [sub?]; omega
      have habs' : abs ⟨cs, 0, q.length - (c.length - q.offset)⟩ = cs.flatten := by
        cases cs <;> simp [abs]
      refine ⟨⟨cs, 0, q.length - (c.length - q.offset)⟩, c.drop q.offset, hsl,
        by simp [Q.consume?, hc, hsat, hlt, hs1, hs2], ?_, ⟨?_, ?_, ?_, ?_, ?_⟩, ?_⟩
      · simp only [Spec.Legal, htk, ← ha, habs0]
        exact List.prefix_append _ _
      · rw [habs']
        simp only [Spec.apply, htk, ← ha, habs0]
        rw [List.drop_append_of_le_length (by simp), List.drop_length]; simp
      · simp only [Spec.apply, htk, List.length_drop, ← hl]
      · cases cs <;> simp
      · intro m hm
        cases cs with
        | nil => simp [boundaries] at hm
        | cons e es =>
          simp only [boundaries, Nat.sub_zero] at hm
          have e1 : e.length = (c.length - q.offset + e.length) - (c.length - q.offset) := by omega
          rw [e1, boundsFrom_shift _ _ _ (by omega), List.mem_map] at hm
          obtain ⟨m0, hm0, rfl⟩ := hm
          have hge := boundsFrom_ge _ _ m0 hm0
          simp only [Spec.apply, htk, List.length_drop]
          exact mem_shift_marks (h.marks m0 (by simp [boundaries, hc, boundsFrom, hm0])) (by omega)
      · simp
      · refine ⟨by rw [habs', htk, habs0], ?_⟩
        have : ¬ n < c.length - q.offset := by omega
        simp [this, hc]

theorem clear_R {q : Q} {s : Spec} (h : R q s) :
    ∃ q', q.clearButLast? = some q' ∧ s.Legal (.drop q'.length) ∧ R q' (s.apply (.drop q'.length)) ∧
      q'.chunks = q.chunks.take 1 ∧ q'.offset = q.offset ∧ q.asSlice? = some (abs q') := by
  have ho := h.off
  have hl := h.len_eq
  have ha := h.abs_eq
  have same : ∀ (hb : boundaries q = []) (hq : q.clearButLast? = some q) (ht : q.chunks = q.chunks.take 1)
      (hs : q.asSlice? = some (abs q)),
      ∃ q', q.clearButLast? = some q' ∧ s.Legal (.drop q'.length) ∧ R q' (s.apply (.drop q'.length)) ∧
        q'.chunks = q.chunks.take 1 ∧ q'.offset = q.offset ∧ q.asSlice? = some (abs q') := by
    intro hb hq ht hs
    refine ⟨q, hq, ⟨Or.inr hl, by omega⟩, ⟨?_, ?_, ho, ?_, h.off_sent⟩, ht, rfl, hs⟩
    · simp [Spec.apply, hl, ha]
    · simp [Spec.apply, hl]
    · intro m hm; simp [hb] at hm
  cases hc : q.chunks with
  | nil =>
    simp only [hc] at ho
    have := same (by simp [boundaries, hc]) (by simp [Q.clearButLast?, hc]) (by simp [hc])
      (by simp [Q.asSlice?, abs, hc])
    rwa [hc] at this
  | cons c cs =>
    simp only [hc] at ho
    cases cs with
    | nil =>
      have := same (by simp [boundaries, hc, boundsFrom]) (by simp [Q.clearButLast?, hc]) (by simp [hc])
        (by simp [Q.asSlice?, abs, hc, ho])
      rwa [hc] at this
    | cons d ds =>
      have habs0 : abs q = c.drop q.offset ++ (d :: ds).flatten := by simp [abs, hc]
      have hsum : ((d :: ds).map List.length).sum = (d :: ds).flatten.length := by
        rw [List.length_flatten]
      have hlen : q.length = (c.length - q.offset) + (d :: ds).flatten.length := by
        rw [hl, ← ha, habs0]; simp
      have hsub : sub? q.length (((d :: ds).map List.length).sum) = some (c.length - q.offset) := by
        rw [hsum]; simp only [sub?]; rw [if_pos (by omega)]; congr 1; omega
      have hbuf : s.buf.take (c.length - q.offset) = c.drop q.offset := by
        rw [← ha, habs0]; apply List.take_left'; simp
      refine ⟨{ q with chunks := [c], length := c.length - q.offset }, by simp only [Q.clearButLast?, hc, hsub],
        ⟨Or.inl ?_, ?_⟩, ⟨?_, ?_, ?_, ?_, h.off_sent⟩, by simp [hc], rfl, by simp [Q.asSlice?, abs, hc, ho]⟩
      · exact h.marks _ (by simp [boundaries, hc, boundsFrom])
      · show c.length - q.offset ≤ s.buf.length
        rw [← hl]; omega
      · simp [abs, Spec.apply, hbuf]
      · simp only [Spec.apply, hbuf, List.length_drop]
      · simpa using ho
      · intro m hm; simp [boundaries, boundsFrom] at hm

theorem take_nil_R {q : Q} {s : Spec} (h : R q s) : R q (s.apply (.take [])) := by
  refine ⟨by simpa [Spec.apply] using h.abs_eq, by simpa [Spec.apply] using h.len_eq, h.off, ?_,
    by simpa [Spec.apply] using h.off_sent⟩
  intro m hm
  have := mem_shift_marks (n := 0) (h.marks m hm) (Nat.zero_le _)
  simpa [Spec.apply] using this

/-- the stream never holds more than was written into it -/
theorem size_apply_le {s : Spec} {ev : Ev} (hl : s.Legal ev) :
    (s.apply ev).size ≤ s.size + (written [ev]).length := by
  cases ev with
  | write b => simp [Spec.apply, Spec.size, written]; omega
  | flush => simp [Spec.apply, Spec.size, written]
  | take o =>
    have : o.length ≤ s.buf.length := hl.length_le
    simp [Spec.apply, Spec.size, written]; omega
  | drop k => simp [Spec.apply, Spec.size, written]; omega

theorem run_append (s : Spec) (a b : List Ev) : s.run (a ++ b) = (s.run a).run b := by
  simp [Spec.run, List.foldl_append]

theorem run_cons (s : Spec) (e : Ev) (es : List Ev) : s.run (e :: es) = (s.apply e).run es := rfl

theorem written_cons (e : Ev) (es : List Ev) : written (e :: es) = written [e] ++ written es := by
  cases e <;> simp [written]

theorem size_run_le {s : Spec} {evs : List Ev} (ha : s.Accepts evs) :
    (s.run evs).size ≤ s.size + (written evs).length := by
  induction evs generalizing s with
  | nil => simp [Spec.run, written]
  | cons e es ih =>
    rw [run_cons, written_cons]
    have h1 := size_apply_le ha.1
    have h2 := ih ha.2
    simp only [List.length_append]
    omega

theorem step_R {q : Q} {s : Spec} (op : Op) (h : R q s) (hb : s.size + (opBytes op).length ≤ usizeMax) :
    ∃ q' ev, q.step? op = some (q', ev) ∧ s.Legal ev ∧ R q' (s.apply ev) ∧ written [ev] = opBytes op ∧
      (isClear op = false → noDrop [ev]) := by
  have hsz : s.size ≤ usizeMax := by omega
  cases op with
  | write b =>
    obtain ⟨hw, hr⟩ := write_R b h hb
    exact ⟨writeN q b, .write b, by simp [Q.step?, hw], trivial, hr, by simp [written, opBytes], by simp [noDrop]⟩
  | flush =>
    obtain ⟨q', hq, hr, _⟩ := flush_R h
    exact ⟨q', .flush, by simp [Q.step?, hq], trivial, hr, by simp [written, opBytes], by simp [noDrop]⟩
  | read n =>
    obtain ⟨sl, hsl, _, _⟩ := asSlice_of_R h
    obtain ⟨q', sl', hsl', hq, hleg, hr, _⟩ := consume_R (min n sl.length) h hsz
    have e : sl' = sl := by rw [hsl] at hsl'; exact (Option.some.inj hsl').symm
    subst e
    exact ⟨q', .take (sl'.take (min n sl'.length)), by simp [Q.step?, Q.read?, hsl, hq], hleg, hr,
      by simp [written, opBytes], by simp [noDrop]⟩
  | consume n =>
    obtain ⟨q', sl, hsl, hq, hleg, hr, _⟩ := consume_R n h hsz
    exact ⟨q', .take (sl.take n), by simp [Q.step?, hsl, hq], hleg, hr, by simp [written, opBytes], by simp [noDrop]⟩
  | consumeWith k =>
    obtain ⟨q', sl, hsl, hq, hleg, hr, _⟩ := consume_R k h hsz
    exact ⟨q', .take (sl.take k), by simp [Q.step?, Q.consumeWith?, hsl, hq], hleg, hr,
      by simp [written, opBytes], by simp [noDrop]⟩
  | consumeWithErr =>
    obtain ⟨sl, hsl, _, _⟩ := asSlice_of_R h
    exact ⟨q, .take [], by simp [Q.step?, Q.consumeWith?, hsl], by simp [Spec.Legal], take_nil_R h,
      by simp [written, opBytes], by simp [noDrop]⟩
  | clear =>
    obtain ⟨q', hq, hleg, hr, _⟩ := clear_R h
    exact ⟨q', .drop q'.length, by simp [Q.step?, hq], hleg, hr, by simp [written, opBytes], by simp [isClear]⟩

theorem accepts_append (s : Spec) (a b : List Ev) :
    s.Accepts (a ++ b) ↔ s.Accepts a ∧ (s.run a).Accepts b := by
  induction a generalizing s with
  | nil => simp [Spec.Accepts, Spec.run]
  | cons e es ih => simp [Spec.Accepts, run_cons, ih, and_assoc]

theorem written_append (a b : List Ev) : written (a ++ b) = written a ++ written b := by
  induction a with
  | nil => simp [written]
  | cons e es ih => cases e <;> simp [written, ih]

theorem noDrop_append (a b : List Ev) : noDrop (a ++ b) ↔ noDrop a ∧ noDrop b := by
  induction a with
  | nil => simp [noDrop]
  | cons e es ih => cases e <;> simp [noDrop, ih]

theorem sim_one {s : Spec} {q' : Q} {ev : Ev} {w : List UInt8} {nd : Bool} (hl : s.Legal ev)
    (hr : R q' (s.apply ev)) (hw : written [ev] = w) (hn : nd = true → noDrop [ev]) :
    Sim s (some (q', [ev])) w nd :=
  ⟨q', [ev], rfl, ⟨hl, trivial⟩, hr, hw, hn⟩

theorem sim_nil {q : Q} {s : Spec} (h : R q s) (nd : Bool) : Sim s (some (q, [])) [] nd :=
  ⟨q, [], rfl, trivial, h, rfl, fun _ => trivial⟩

/-- sequencing of simulated calls: the second call runs in the state the first one left -/
theorem sim_seq {s : Spec} {e1 : List Ev} {w1 w2 : List UInt8} {n1 n2 : Bool}
    (ha1 : s.Accepts e1) (hw1 : written e1 = w1) (hn1 : n1 = true → noDrop e1)
    {r2 : Option (Q × List Ev)} (h2 : Sim (s.run e1) r2 w2 n2) :
    ∃ q2 e2, r2 = some (q2, e2) ∧ s.Accepts (e1 ++ e2) ∧ R q2 (s.run (e1 ++ e2)) ∧
      written (e1 ++ e2) = w1 ++ w2 ∧ ((n1 && n2) = true → noDrop (e1 ++ e2)) := by
  obtain ⟨q2, e2, hr2, ha2, hR2, hw2, hn2⟩ := h2
  refine ⟨q2, e2, hr2, (accepts_append _ _ _).2 ⟨ha1, ha2⟩, by rw [run_append]; exact hR2,
    by rw [written_append, hw1, hw2], ?_⟩
  intro hn
  simp only [Bool.and_eq_true] at hn
  exact (noDrop_append _ _).2 ⟨hn1 hn.1, hn2 hn.2⟩

/-- the byte budget left after a simulated call -/
theorem sim_budget {s : Spec} {e1 : List Ev} {w1 : List UInt8} (ha1 : s.Accepts e1) (hw1 : written e1 = w1)
    {k : Nat} (hb : s.size + (w1.length + k) ≤ usizeMax) : (s.run e1).size + k ≤ usizeMax := by
  have := size_run_le ha1
  rw [hw1] at this
  omega

theorem run_R {q : Q} {s : Spec} (ops : List Op) (h : R q s)
    (hb : s.size + (opsWritten ops).length ≤ usizeMax) :
    Sim s (q.run? ops) (opsWritten ops) (ops.all fun op => !isClear op) := by
  induction ops generalizing q s with
  | nil => exact sim_nil h _
  | cons op ops ih =>
    have hsplit : opsWritten (op :: ops) = opBytes op ++ opsWritten ops := by simp [opsWritten]
    rw [hsplit, List.length_append] at hb
    obtain ⟨q1, ev, hs, hl, hr, hw, hn⟩ := step_R op h (by omega)
    have hsz := size_apply_le hl
    rw [hw] at hsz
    obtain ⟨q2, evs, hrun, ha, hR, hw2, hn2⟩ := ih hr (by omega)
    refine ⟨q2, ev :: evs, by simp [Q.run?, hs, hrun], ⟨hl, ha⟩, hR, ?_, ?_⟩
    · rw [written_cons, hw, hw2, hsplit]
    · intro hall
      simp only [List.all_cons, Bool.and_eq_true, Bool.not_eq_true'] at hall
      have a := hn hall.1
      have b := hn2 hall.2
      exact (noDrop_append [ev] evs).2 ⟨a, b⟩

theorem R_init : R Q.new Spec.init :=
  ⟨rfl, rfl, rfl, by intro m hm; simp [boundaries, Q.new] at hm, by simp [Q.new]⟩

/-! ### conservation in the specification stream -/

theorem run_sent (s : Spec) (evs : List Ev) : (s.run evs).sent = s.sent ++ taken evs := by
  induction evs generalizing s with
  | nil => simp [Spec.run, taken]
  | cons e es ih =>
    rw [run_cons, ih]
    cases e <;> simp [Spec.apply, taken]

/-- without drops nothing is lost, duplicated or reordered -/
theorem conserve (s : Spec) (evs : List Ev) (ha : s.Accepts evs) (hn : noDrop evs) :
    (s.run evs).sent ++ (s.run evs).buf = s.sent ++ s.buf ++ written evs := by
  induction evs generalizing s with
  | nil => simp [Spec.run, written]
  | cons e es ih =>
    rw [run_cons]
    cases e with
    | write b => rw [ih _ ha.2 hn]; simp [Spec.apply, written]
    | flush => rw [ih _ ha.2 hn]; simp [Spec.apply, written]
    | take o =>
      rw [ih _ ha.2 hn]
      obtain ⟨t, ht⟩ := ha.1
      simp [Spec.apply, written, ← ht]
    | drop k => exact absurd hn (by simp [noDrop])

/-- with drops: what was sent plus what is queued is the written stream with some bytes removed, order kept -/
theorem conserve_sublist (s : Spec) (evs : List Ev) (ha : s.Accepts evs) :
    ((s.run evs).sent ++ (s.run evs).buf).Sublist (s.sent ++ s.buf ++ written evs) := by
  induction evs generalizing s with
  | nil => simp [Spec.run, written]
  | cons e es ih =>
    rw [run_cons]
    refine (ih _ ha.2).trans ?_
    cases e with
    | write b => simp [Spec.apply, written]
    | flush => simp [Spec.apply, written]
    | take o =>
      obtain ⟨t, ht⟩ := ha.1
      simp [Spec.apply, written, ← ht]
    | drop k =>
      simp only [Spec.apply, written]
      exact List.Sublist.append_right
        (List.Sublist.append (List.Sublist.refl _) (List.take_sublist _ _)) _

/-- reading chunk by chunk returns exactly `abs` -/
theorem drain_R {q : Q} {s : Spec} (h : R q s) (hsz : s.size ≤ usizeMax) :
    drain? q.chunks.length q = some (abs q) := by
  generalize hn : q.chunks.length = n
  induction n generalizing q s with
  | zero =>
    have : q.chunks = [] := List.eq_nil_of_length_eq_zero hn
    simp [drain?, abs, this]
  | succ n ih =>
    obtain ⟨sl, hsl, hpre, _⟩ := asSlice_of_R h
    have hlen : sl.length ≤ q.length := by rw [h.len_eq, ← h.abs_eq]; exact hpre.length_le
    have hmin : min q.length sl.length = sl.length := by omega
    obtain ⟨q', sl', hsl', hq, hleg, hr, habs, hcnt⟩ := consume_R (min q.length sl.length) h hsz
    have hsz' := size_apply_le hleg
    simp only [written, List.length_nil, Nat.add_zero, List.append_nil] at hsz'
    have e : sl' = sl := by rw [hsl] at hsl'; exact (Option.some.inj hsl').symm
    subst e
    rw [hmin] at hq habs hcnt
    simp only [Nat.lt_irrefl, if_false, hn] at hcnt
    have hd := ih hr (by omega) (by omega)
    simp only [drain?, Q.read?, hsl, hmin, hq, hd, habs]

end SurfProofs.C16Spec
