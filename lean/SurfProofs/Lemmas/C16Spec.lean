import SurfModel.IOQueue
import SurfModel.PollWrite
/-!
Specification side of C16 (definitions only): a textbook FIFO byte stream with frame marks, the abstraction
function from the chunked queue to it, and the refinement relation.
-/
namespace SurfProofs.C16Spec
open SurfModel.IOQueue

/-- FIFO byte stream between a producer and the tty.
`sent`: bytes that left the queue, in order; `buf`: bytes written and not yet taken, in order;
`marks`: positions in `buf` (counted from the read position) at which the producer called flush. -/
structure Spec where
  sent : List UInt8
  buf : List UInt8
  marks : List Nat

def Spec.init : Spec := ⟨[], [], []⟩

/-- bytes the stream has seen and not dropped -/
def Spec.size (s : Spec) : Nat := s.sent.length + s.buf.length

/-- what the specification permits: bytes leave only from the front of `buf`, in order;
a drop cuts `buf` at a flush mark (or drops nothing) -/
def Spec.Legal (s : Spec) : Ev → Prop
  | .write _ => True
  | .flush => True
  | .take out => out <+: s.buf
  | .drop kept => (kept ∈ s.marks ∨ kept = s.buf.length) ∧ kept ≤ s.buf.length

def Spec.apply (s : Spec) : Ev → Spec
  | .write b => { s with buf := s.buf ++ b }
  | .flush => { s with marks := s.buf.length :: s.marks }
  | .take out =>
    ⟨s.sent ++ out, s.buf.drop out.length,
      s.marks.filterMap fun m => if out.length ≤ m then some (m - out.length) else none⟩
  | .drop kept => ⟨s.sent, s.buf.take kept, s.marks.filter (· ≤ kept)⟩

/-- every event of the trace is permitted in the state in which it happens -/
def Spec.Accepts : Spec → List Ev → Prop
  | _, [] => True
  | s, e :: es => s.Legal e ∧ (s.apply e).Accepts es

def Spec.run (s : Spec) (es : List Ev) : Spec := es.foldl Spec.apply s

/-- bytes handed to the reader / the tty, in the order of the calls -/
def taken : List Ev → List UInt8
  | [] => []
  | .take o :: es => o ++ taken es
  | _ :: es => taken es

/-- bytes written, in the order of the calls -/
def written : List Ev → List UInt8
  | [] => []
  | .write b :: es => b ++ written es
  | _ :: es => written es

def noDrop : List Ev → Prop
  | [] => True
  | .drop _ :: _ => False
  | _ :: es => noDrop es

/-- abstraction: the bytes that can still be read from the queue -/
def abs (q : Q) : List UInt8 :=
  match q.chunks with
  | [] => []
  | c :: cs => c.drop q.offset ++ cs.flatten

/-- end positions (relative to `pos`) of every chunk that is followed by another one -/
def boundsFrom : Nat → List (List UInt8) → List Nat
  | _, [] => []
  | pos, d :: ds => pos :: boundsFrom (pos + d.length) ds

/-- chunk boundaries of the queue, counted from the read position -/
def boundaries (q : Q) : List Nat :=
  match q.chunks with
  | [] => []
  | c :: cs => boundsFrom (c.length - q.offset) cs

/-- refinement relation queue ↔ specification stream -/
structure R (q : Q) (s : Spec) : Prop where
  abs_eq : abs q = s.buf
  len_eq : q.length = s.buf.length
  off : match q.chunks with
    | [] => q.offset = 0
    | c :: _ => q.offset ≤ c.length
  marks : ∀ m ∈ boundaries q, m ∈ s.marks
  /-- the consumed part of the front chunk has left the queue -/
  off_sent : q.offset ≤ s.sent.length

/-- repeated `read` with a large buffer, one call per chunk -/
def drain? : Nat → Q → Option (List UInt8)
  | 0, _ => some []
  | f + 1, q =>
    match q.read? q.length with
    | none => none
    | some (out, q') =>
      match drain? f q' with
      | none => none
      | some rest => some (out ++ rest)

/-- a model call succeeds (no panic), its events are permitted by the specification, the refinement
relation holds again afterwards, the call queued exactly the bytes `w`, and (if `nd`) it dropped nothing -/
def Sim (s : Spec) (r : Option (Q × List Ev)) (w : List UInt8) (nd : Bool) : Prop :=
  ∃ q' evs, r = some (q', evs) ∧ s.Accepts evs ∧ R q' (s.run evs) ∧ written evs = w ∧
    (nd = true → noDrop evs)

/-- bytes a queue call appends -/
def opBytes : Op → List UInt8
  | .write b => b
  | _ => []

def opsWritten (ops : List Op) : List UInt8 := (ops.map opBytes).flatten

def isClear : Op → Bool
  | .clear => true
  | _ => false

open SurfModel.PollWrite in
/-- bytes a terminal-level call queues, in program order: the payload of a write, the bytes the poll loop
queues itself, and — escape-sequence size mode — the size query `frames_drop` issues after the cut -/
def opWritten (sizeEsc : Bool) : TOp → List UInt8
  | .write b => b
  | .poll its => (its.map fun it => it.inject.flatten).flatten
  | .drop => if sizeEsc then getTermSize else []
  | .flush => []

open SurfModel.PollWrite in
def progWritten (sizeEsc : Bool) (ops : List TOp) : List UInt8 := (ops.map (opWritten sizeEsc)).flatten

open SurfModel.PollWrite in
def isDrop : TOp → Bool
  | .drop => true
  | _ => false

end SurfProofs.C16Spec
