import Mathlib.Tactic.Linarith
import Mathlib.Tactic.Ring
import Mathlib.Tactic.LinearCombination
import Mathlib.Algebra.Order.Ring.Abs
import SurfModel.Color256
/-!
Helper lemmas for C20: the binary search of the model finds the insertion point of any monotone table,
`nearest` returns the largest minimiser of `|v − t[i]|`, the two optimisation facts (separability of the
cube term, decomposition of the diagonal term around the mean).
-/
set_option linter.unusedSectionVars false
set_option linter.unusedSimpArgs false

namespace SurfProofs.Lemmas.Color256
open SurfModel.Color256

variable {K : Type} [CommRing K] [LinearOrder K] [IsStrictOrderedRing K]

/-! ## comparison -/

theorem cmp3_gt {c v : K} : cmp3 c v = .gt ↔ v < c := by
  unfold cmp3
  by_cases h1 : c < v
  · simp [h1, not_lt_of_gt h1]
  · by_cases h2 : v < c <;> simp [h1, h2]

theorem cmp3_lt {c v : K} : cmp3 c v = .lt ↔ c < v := by
  unfold cmp3
  by_cases h1 : c < v
  · simp [h1]
  · by_cases h2 : v < c <;> simp [h1, h2]

theorem cmp3_eq {c v : K} : cmp3 c v = .eq ↔ c = v := by
  unfold cmp3
  by_cases h1 : c < v
  · simp [h1, ne_of_lt h1]
  · by_cases h2 : v < c
    · simp [h1, h2, (ne_of_lt h2).symm]
    · simp [h1, h2, le_antisymm (not_lt.mp h2) (not_lt.mp h1)]

/-! ## tables -/

/-- strictly increasing table, in the index form used below -/
def StrictMonoTable (t : List K) : Prop :=
  ∀ (i j : Nat) (x y : K), t[i]? = some x → t[j]? = some y → i < j → x < y

theorem strictMono_of_pairwise {t : List K} (h : t.Pairwise (· < ·)) : StrictMonoTable t := by
  intro i j x y hx hy hij
  rw [List.pairwise_iff_getElem] at h
  obtain ⟨hi, rfl⟩ := List.getElem?_eq_some_iff.mp hx
  obtain ⟨hj, rfl⟩ := List.getElem?_eq_some_iff.mp hy
  exact h i j hi hj hij

theorem StrictMonoTable.mono {t : List K} (h : StrictMonoTable t) {i j : Nat} {x y : K}
    (hx : t[i]? = some x) (hy : t[j]? = some y) (hij : i ≤ j) : x ≤ y := by
  rcases Nat.lt_or_eq_of_le hij with hlt | rfl
  · exact le_of_lt (h i j x y hx hy hlt)
  · rw [hx] at hy; cases hy; exact le_refl _

theorem StrictMonoTable.inj {t : List K} (h : StrictMonoTable t) {i j : Nat} {x : K}
    (hx : t[i]? = some x) (hy : t[j]? = some x) : i = j := by
  rcases Nat.lt_trichotomy i j with hlt | heq | hgt
  · exact absurd (h i j x x hx hy hlt) (lt_irrefl _)
  · exact heq
  · exact absurd (h j i x x hy hx hgt) (lt_irrefl _)

/-! ## the binary search loop -/

theorem bsLoop_spec (t : List K) (hs : StrictMonoTable t) (v : K) :
    ∀ fuel base size, size ≤ fuel → 1 ≤ size → base + size ≤ t.length →
      (base = 0 ∨ ∃ x, t[base]? = some x ∧ x ≤ v) →
      (∀ j y, t[j]? = some y → base + size ≤ j → v < y) →
      ∃ b, bsLoop t v fuel base size = some b ∧ b < t.length ∧
        (b = 0 ∨ ∃ x, t[b]? = some x ∧ x ≤ v) ∧ (∀ j y, t[j]? = some y → b + 1 ≤ j → v < y) := by
  intro fuel
  induction fuel with
  | zero => intro base size h1 h2; omega
  | succ fuel ih =>
    intro base size hf h1 hlen inv1 inv2
    unfold bsLoop
    by_cases hsz : 1 < size
    · have hmid : base + size / 2 < t.length := by omega
      simp only [hsz, if_true, List.getElem?_eq_getElem hmid]
      by_cases hgt : cmp3 t[base + size / 2] v = .gt
      · rw [if_pos hgt]
        refine ih base (size - size / 2) (by omega) (by omega) (by omega) inv1 ?_
        intro j y hy hj
        have hv : v < t[base + size / 2] := cmp3_gt.mp hgt
        have : t[base + size / 2] ≤ y :=
          hs.mono (List.getElem?_eq_getElem hmid) hy (by omega)
        exact lt_of_lt_of_le hv this
      · rw [if_neg hgt]
        refine ih (base + size / 2) (size - size / 2) (by omega) (by omega) (by omega) ?_ ?_
        · right
          exact ⟨_, List.getElem?_eq_getElem hmid, not_lt.mp (fun h => hgt (cmp3_gt.mpr h))⟩
        · intro j y hy hj
          exact inv2 j y hy (by omega)
    · rw [if_neg hsz]
      have : size = 1 := by omega
      subst this
      exact ⟨base, rfl, by omega, inv1, inv2⟩

/-- contract of `binary_search_by` on a strictly increasing table -/
inductive SearchSpec (t : List K) (v : K) : Search → Prop
  | ok (i : Nat) (h : t[i]? = some v) : SearchSpec t v (.ok i)
  | err (i : Nat) (hi : i ≤ t.length) (hlo : ∀ j y, t[j]? = some y → j < i → y < v)
      (hhi : ∀ j y, t[j]? = some y → i ≤ j → v < y) : SearchSpec t v (.err i)

theorem binarySearch_spec (t : List K) (hs : StrictMonoTable t) (v : K) :
    ∃ s, binarySearch t v = some s ∧ SearchSpec t v s := by
  unfold binarySearch
  by_cases h0 : t.length = 0
  · simp only [h0, if_true]
    refine ⟨_, rfl, .err 0 (by omega) (by intro j y _ h; omega) ?_⟩
    intro j y hy _
    have := (List.getElem?_eq_some_iff.mp hy).1
    omega
  · simp only [h0, if_false]
    obtain ⟨b, hb, hlt, inv1, inv2⟩ :=
      bsLoop_spec t hs v t.length 0 t.length (le_refl _) (by omega) (by omega) (Or.inl rfl)
        (by intro j y hy hj; have := (List.getElem?_eq_some_iff.mp hy).1; omega)
    rw [hb]
    simp only
    rw [List.getElem?_eq_getElem hlt]
    simp only
    have hbx : t[b]? = some t[b] := List.getElem?_eq_getElem hlt
    cases hc : cmp3 t[b] v with
    | eq =>
      refine ⟨_, rfl, .ok b ?_⟩
      rw [hbx, cmp3_eq.mp hc]
    | lt =>
      have hv : t[b] < v := cmp3_lt.mp hc
      refine ⟨_, rfl, .err (b + 1) (by omega) ?_ inv2⟩
      intro j y hy hj
      exact lt_of_le_of_lt (hs.mono hy hbx (by omega)) hv
    | gt =>
      have hv : v < t[b] := cmp3_gt.mp hc
      have hb0 : b = 0 := by
        rcases inv1 with h | ⟨x, hx, hxv⟩
        · exact h
        · rw [hbx] at hx; cases hx; exact absurd (lt_of_lt_of_le hv hxv) (lt_irrefl _)
      refine ⟨_, rfl, .err b (by omega) (by intro j y _ h; omega) ?_⟩
      intro j y hy hj
      exact lt_of_lt_of_le hv (hs.mono hbx hy hj)

/-- the contract of `binary_search_by` determines its result on a strictly increasing table -/
theorem SearchSpec.unique {t : List K} (hs : StrictMonoTable t) {v : K} {s₁ s₂ : Search}
    (h₁ : SearchSpec t v s₁) (h₂ : SearchSpec t v s₂) : s₁ = s₂ := by
  cases h₁ with
  | ok i hi =>
    cases h₂ with
    | ok j hj => rw [hs.inj hi hj]
    | err j _ hlo hhi =>
      exfalso
      by_cases h : i < j
      · exact lt_irrefl _ (hlo i v hi h)
      · exact lt_irrefl _ (hhi i v hi (by omega))
  | err i hil hlo hhi =>
    cases h₂ with
    | ok j hj =>
      exfalso
      by_cases h : j < i
      · exact lt_irrefl _ (hlo j v hj h)
      · exact lt_irrefl _ (hhi j v hj (by omega))
    | err j hjl hlo' hhi' =>
      congr 1
      by_contra hne
      rcases Nat.lt_or_gt_of_ne hne with h | h
      · -- i < j ≤ length: entry i is both above and below v
        have hi : i < t.length := by omega
        have e := List.getElem?_eq_getElem hi
        exact lt_asymm (hhi i _ e (le_refl _)) (hlo' i _ e h)
      · have hj : j < t.length := by omega
        have e := List.getElem?_eq_getElem hj
        exact lt_asymm (hhi' j _ e (le_refl _)) (hlo j _ e h)
/-! ## `nearest` -/

/-- `i` is an index of `t` whose entry minimises the distance to `v`, and the largest such index -/
def IsNearest (t : List K) (v : K) (i : Nat) : Prop :=
  ∃ x, t[i]? = some x ∧ (∀ (j : Nat) (y : K), t[j]? = some y → |v - x| ≤ |v - y|) ∧
    (∀ (j : Nat) (y : K), t[j]? = some y → |v - y| = |v - x| → j ≤ i)

theorem nearest_spec (t : List K) (hs : StrictMonoTable t) (hne : t ≠ []) (v : K) :
    ∃ i, nearest v t = some i ∧ IsNearest t v i := by
  have hlen : 0 < t.length := List.length_pos_iff.mpr hne
  obtain ⟨s, hsearch, spec⟩ := binarySearch_spec t hs v
  unfold nearest
  rw [hsearch]
  cases spec with
  | ok i h =>
    refine ⟨i, rfl, v, h, ?_, ?_⟩
    · intro j y _; simp
    · intro j y hy he
      have : y = v := by
        have h0 : |v - y| = 0 := by rw [he]; simp
        have := abs_eq_zero.mp h0
        linarith
      subst this
      exact le_of_eq (hs.inj hy h)
  | err i hi hlo hhi =>
    simp only
    by_cases hi0 : i = 0
    · rw [if_pos hi0]
      subst hi0
      have h0 : t[0]? = some t[0] := List.getElem?_eq_getElem hlen
      have hv0 : v < t[0] := hhi 0 _ h0 (le_refl _)
      refine ⟨0, rfl, t[0], h0, ?_, ?_⟩
      · intro j y hy
        have hvy : v < y := hhi j y hy (Nat.zero_le _)
        have hle : t[0] ≤ y := hs.mono h0 hy (Nat.zero_le _)
        rw [abs_of_neg (by linarith), abs_of_neg (by linarith)]
        linarith
      · intro j y hy he
        by_contra hj
        have hlt : t[0] < y := hs 0 j _ y h0 hy (by omega)
        rw [abs_of_neg (by linarith), abs_of_neg (by linarith)] at he
        linarith
    · rw [if_neg hi0]
      by_cases hge : i ≥ t.length
      · rw [if_pos hge]
        have hlast : t.length - 1 < t.length := by omega
        have hl : t[t.length - 1]? = some t[t.length - 1] := List.getElem?_eq_getElem hlast
        have hvl : t[t.length - 1] < v := hlo _ _ hl (by omega)
        refine ⟨_, rfl, _, hl, ?_, ?_⟩
        · intro j y hy
          have hj := (List.getElem?_eq_some_iff.mp hy).1
          have hyv : y < v := hlo j y hy (by omega)
          have hle : y ≤ t[t.length - 1] := hs.mono hy hl (by omega)
          rw [abs_of_pos (by linarith), abs_of_pos (by linarith)]
          linarith
        · intro j y hy _
          have hj := (List.getElem?_eq_some_iff.mp hy).1
          omega
      · rw [if_neg hge]
        have h1 : i - 1 < t.length := by omega
        have h2 : i < t.length := by omega
        have hlo' : t[i - 1]? = some t[i - 1] := List.getElem?_eq_getElem h1
        have hhi' : t[i]? = some t[i] := List.getElem?_eq_getElem h2
        rw [hlo', hhi']
        simp only
        have hl : t[i - 1] < v := hlo _ _ hlo' (by omega)
        have hh : v < t[i] := hhi _ _ hhi' (le_refl _)
        -- distance of any entry, by side
        have below : ∀ j y, t[j]? = some y → j < i → |v - y| = v - y ∧ v - t[i - 1] ≤ v - y := by
          intro j y hy hj
          have hyv : y < v := hlo j y hy hj
          have : y ≤ t[i - 1] := hs.mono hy hlo' (by omega)
          exact ⟨abs_of_pos (by linarith), by linarith⟩
        have above : ∀ j y, t[j]? = some y → i ≤ j → |v - y| = y - v ∧ t[i] - v ≤ y - v := by
          intro j y hy hj
          have hvy : v < y := hhi j y hy hj
          have : t[i] ≤ y := hs.mono hhi' hy hj
          refine ⟨?_, by linarith⟩
          rw [abs_of_neg (by linarith)]; ring
        by_cases hcmp : v - t[i - 1] < t[i] - v
        · rw [if_pos hcmp]
          refine ⟨_, rfl, _, hlo', ?_, ?_⟩
          · intro j y hy
            rw [abs_of_pos (by linarith : (0 : K) < v - t[i - 1])]
            by_cases hj : j < i
            · obtain ⟨e, h⟩ := below j y hy hj; rw [e]; exact h
            · obtain ⟨e, h⟩ := above j y hy (by omega); rw [e]; linarith
          · intro j y hy he
            by_contra hj
            obtain ⟨e, h⟩ := above j y hy (by omega)
            rw [e, abs_of_pos (by linarith : (0 : K) < v - t[i - 1])] at he
            linarith
        · rw [if_neg hcmp]
          have hcmp' : t[i] - v ≤ v - t[i - 1] := not_lt.mp hcmp
          have habs : |v - t[i]| = t[i] - v := by rw [abs_of_neg (by linarith)]; ring
          refine ⟨_, rfl, _, hhi', ?_, ?_⟩
          · intro j y hy
            rw [habs]
            by_cases hj : j < i
            · obtain ⟨e, h⟩ := below j y hy hj; rw [e]; linarith
            · obtain ⟨e, h⟩ := above j y hy (by omega); rw [e]; exact h
          · intro j y hy he
            by_contra hj
            have hlt : t[i] < y := hs i j _ y hhi' hy (by omega)
            obtain ⟨e, _⟩ := above j y hy (by omega)
            rw [e, habs] at he
            linarith

/-- comparing distances to two ordered points is comparing with their midpoint -/
theorem closer_to_upper {v x y : K} (hxy : y < x) (h : |v - x| ≤ |v - y|) : x + y ≤ 2 * v := by
  have h2 := sq_le_sq.mpr h
  have : (x - y) * (2 * v - x - y) ≥ 0 := by nlinarith
  by_contra hc
  have hneg : 2 * v - x - y < 0 := by linarith
  have : (x - y) * (2 * v - x - y) < 0 := mul_neg_of_pos_of_neg (by linarith) hneg
  linarith

theorem closer_to_lower {w x y : K} (hxy : y < x) (h : |w - y| ≤ |w - x|) : 2 * w ≤ x + y := by
  have h2 := sq_le_sq.mpr h
  have : (x - y) * (x + y - 2 * w) ≥ 0 := by nlinarith
  by_contra hc
  have hneg : x + y - 2 * w < 0 := by linarith
  have : (x - y) * (x + y - 2 * w) < 0 := mul_neg_of_pos_of_neg (by linarith) hneg
  linarith

/-- `nearest` is monotone in the value searched for -/
theorem nearest_mono (t : List K) (hs : StrictMonoTable t) (hne : t ≠ []) {v w : K} (hvw : v ≤ w)
    {i j : Nat} (hi : nearest v t = some i) (hj : nearest w t = some j) : i ≤ j := by
  obtain ⟨i', hi', x, hx, minx, _⟩ := nearest_spec t hs hne v
  obtain ⟨j', hj', y, hy, miny, _⟩ := nearest_spec t hs hne w
  rw [hi] at hi'; cases hi'
  rw [hj] at hj'; cases hj'
  by_contra hlt
  have hyx : y < x := hs j i y x hy hx (by omega)
  have h1 := closer_to_upper hyx (minx j y hy)
  have h2 := closer_to_lower hyx (miny i x hx)
  have hvw' : v = w := by linarith
  subst hvw'
  rw [hi] at hj; cases hj
  omega

/-! ## optimisation -/

/-- per-channel nearest gives the nearest cube entry (separable term) -/
theorem cube_opt (r g b cr cg cb dr dg db : K)
    (hr : |r - cr| ≤ |r - dr|) (hg : |g - cg| ≤ |g - dg|) (hb : |b - cb| ≤ |b - db|) :
    dist2 r g b cr cg cb ≤ dist2 r g b dr dg db := by
  have h1 := sq_le_sq.mpr hr
  have h2 := sq_le_sq.mpr hg
  have h3 := sq_le_sq.mpr hb
  unfold dist2 sqr
  nlinarith

/-- on the diagonal the distance is `3 (m − x)²` plus a constant, `m` the mean -/
theorem grey_decomp (r g b m x : K) (hm : 3 * m = r + g + b) :
    dist2 r g b x x x = dist2 r g b m m m + 3 * ((m - x) * (m - x)) := by
  unfold dist2 sqr
  linear_combination (-2 * (m - x)) * hm

/-- nearest grey to the mean is the nearest grey -/
theorem grey_opt (r g b m x y : K) (hm : 3 * m = r + g + b) (h : |m - x| ≤ |m - y|) :
    dist2 r g b x x x ≤ dist2 r g b y y y := by
  rw [grey_decomp r g b m x hm, grey_decomp r g b m y hm]
  have := sq_le_sq.mpr h
  nlinarith

end SurfProofs.Lemmas.Color256
