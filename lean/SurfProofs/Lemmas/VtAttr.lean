import SurfModel.Vt
/-! SGR attribute-state theorems for C05: what `Face` / `FaceModify` leave in the terminal's attribute
state (`Attr`, `applySgr` of SurfModel/Vt.lean), at every colour depth. -/
namespace SurfProofs.Lemmas.Vt
open SurfModel.Vt

/-- the value an SGR colour selection of colour `c` leaves in the attribute state at depth `d`: true
colour = the RGB triple; 256 colours = the palette index `pal`; grey = one of the four palette entries
0 (black), 8 (bright black), 7 (white), 15 (bright white) -/
def selOf (d : Depth) (c : Color) : (Nat × Nat × Nat) ⊕ Nat :=
  match d with
  | .trueColor => .inl (c.r, c.g, c.b)
  | .eightBit => .inr c.pal
  | .gray => .inr (match c.lvl with | 0 => 0 | 1 => 8 | 2 => 7 | _ => 15)

/-- attribute state a `Face` asks for at depth `d` (underline colour: default) -/
def attrOfFaceAt (d : Depth) (f : Face) : Attr :=
  ⟨f.fg.map (selOf d), f.bg.map (selOf d), none, f.under, f.bold, f.italic, f.blink, f.reverse, f.strike⟩

/-- new value of a colour field: the selection of the colour given, the old value when none is given -/
def setColor (d : Depth) (c : Option Color) (old : Option ((Nat × Nat × Nat) ⊕ Nat)) :
    Option ((Nat × Nat × Nat) ⊕ Nat) :=
  match c with | some c => some (selOf d c) | none => old

/-- the underline colour: as `setColor`, except that at depth `gray` it cannot be expressed (there is
no SGR code for a 16-colour underline colour) and the field is left as it is -/
def setUlColor (d : Depth) (c : Option Color) (old : Option ((Nat × Nat × Nat) ⊕ Nat)) :
    Option ((Nat × Nat × Nat) ⊕ Nat) :=
  match d with | .gray => old | d => setColor d c old

/-- attribute state after a `FaceModify` at depth `d`, from state `a`: `reset` first returns to the
default state; then exactly the requested fields change — colours given are selected, `some true` /
`some false` set / clear a flag, `none` leaves the field alone, `reverse` is never touched -/
def modifyAttr (d : Depth) (m : FaceModify) (a : Attr) : Attr :=
  let b := if m.reset then Attr.default else a
  { fg := setColor d m.fg b.fg
    bg := setColor d m.bg b.bg
    ul := setUlColor d m.underlineColor b.ul
    under := m.underline.getD b.under
    bold := m.bold.getD b.bold
    italic := m.italic.getD b.italic
    blink := m.blink.getD b.blink
    reverse := b.reverse
    strike := m.strike.getD b.strike }

/-! ### pieces -/

theorem fold_fg (c : Option Color) (d : Depth) (a : Attr) :
    (optMeaning c d .fg).foldl applySgr a = { a with fg := setColor d c a.fg } := by
  cases c with
  | none => rfl
  | some c =>
    cases d with
    | trueColor => rfl
    | eightBit => rfl
    | gray => rcases hl : c.lvl with _ | _ | _ | n <;> simp [optMeaning, colorMeaning, applySgr, setColor, selOf, hl]

theorem fold_bg (c : Option Color) (d : Depth) (a : Attr) :
    (optMeaning c d .bg).foldl applySgr a = { a with bg := setColor d c a.bg } := by
  cases c with
  | none => rfl
  | some c =>
    cases d with
    | trueColor => rfl
    | eightBit => rfl
    | gray => rcases hl : c.lvl with _ | _ | _ | n <;> simp [optMeaning, colorMeaning, applySgr, setColor, selOf, hl]

theorem fold_ul (c : Option Color) (d : Depth) (a : Attr) :
    (optMeaning c d .ul).foldl applySgr a = { a with ul := setUlColor d c a.ul } := by
  cases c with
  | none => cases d <;> rfl
  | some c => cases d <;> rfl

theorem fold_flag_bold (on : Bool) (a : Attr) :
    (flagOp on .bold).foldl applySgr a = { a with bold := on || a.bold } := by cases on <;> rfl
theorem fold_flag_italic (on : Bool) (a : Attr) :
    (flagOp on .italic).foldl applySgr a = { a with italic := on || a.italic } := by cases on <;> rfl
theorem fold_flag_blink (on : Bool) (a : Attr) :
    (flagOp on .blink).foldl applySgr a = { a with blink := on || a.blink } := by cases on <;> rfl
theorem fold_flag_reverse (on : Bool) (a : Attr) :
    (flagOp on .reverse).foldl applySgr a = { a with reverse := on || a.reverse } := by cases on <;> rfl
theorem fold_flag_strike (on : Bool) (a : Attr) :
    (flagOp on .strike).foldl applySgr a = { a with strike := on || a.strike } := by cases on <;> rfl

theorem fold_tri_bold (v : Option Bool) (a : Attr) :
    (triOp v .bold .normalIntensity).foldl applySgr a = { a with bold := v.getD a.bold } := by
  rcases v with _ | _ | _ <;> rfl
theorem fold_tri_italic (v : Option Bool) (a : Attr) :
    (triOp v .italic .noItalic).foldl applySgr a = { a with italic := v.getD a.italic } := by
  rcases v with _ | _ | _ <;> rfl
theorem fold_tri_blink (v : Option Bool) (a : Attr) :
    (triOp v .blink .noBlink).foldl applySgr a = { a with blink := v.getD a.blink } := by
  rcases v with _ | _ | _ <;> rfl
theorem fold_tri_strike (v : Option Bool) (a : Attr) :
    (triOp v .strike .noStrike).foldl applySgr a = { a with strike := v.getD a.strike } := by
  rcases v with _ | _ | _ <;> rfl

theorem fold_reset (r : Bool) (a : Attr) :
    (if r then [SgrOp.reset] else []).foldl applySgr a = if r then Attr.default else a := by
  cases r <;> rfl

/-! ### the theorems -/

/-- Face, every depth: whatever the state before, afterwards it is exactly the requested one -/
theorem face_exact_depth (d : Depth) (f : Face) (hu : f.under ≤ 5) (a : Attr) :
    (faceMeaning f d).foldl applySgr a = attrOfFaceAt d f := by
  obtain ⟨fg, bg, under, bold, italic, blink, reverse, strike⟩ := f
  simp only at hu
  simp only [faceMeaning, List.foldl_append, fold_fg, fold_bg, fold_flag_bold, fold_flag_italic, fold_flag_blink,
    fold_flag_reverse, fold_flag_strike, List.foldl_cons, List.foldl_nil, applySgr]
  by_cases h0 : under = 0
  · subst h0
    cases fg <;> cases bg <;> simp [attrOfFaceAt, setColor, Attr.default]
  · have : 1 ≤ under ∧ under ≤ 5 := by omega
    cases fg <;> cases bg <;> simp [this, attrOfFaceAt, setColor, Attr.default, applySgr]

/-- FaceModify, every depth, every start state: exactly the requested fields change -/
theorem modify_exact (d : Depth) (m : FaceModify) (hu : ∀ k, m.underline = some k → k ≤ 5) (a : Attr) :
    (faceModifyMeaning m d).foldl applySgr a = modifyAttr d m a := by
  obtain ⟨reset, fg, bg, underline, ulc, bold, italic, blink, strike⟩ := m
  simp only at hu
  cases underline with
  | none =>
    simp only [faceModifyMeaning, List.foldl_append, fold_reset, fold_fg, fold_bg, fold_ul, fold_tri_bold,
      fold_tri_italic, fold_tri_blink, fold_tri_strike, modifyAttr, List.foldl_nil, Option.getD_none]
  | some k =>
    have hk : k ≤ 5 := hu k rfl
    simp only [faceModifyMeaning, List.foldl_append, fold_reset, fold_fg, fold_bg, fold_ul, fold_tri_bold,
      fold_tri_italic, fold_tri_blink, fold_tri_strike, modifyAttr, hk, if_true, List.foldl_cons, List.foldl_nil,
      applySgr, Option.getD_some]

/-- reduced depths: a requested colour selects exactly ONE palette entry -/
theorem reduced_single (c : Color) (a : Attr) :
    ((colorMeaning c .eightBit .fg).foldl applySgr a = { a with fg := some (.inr c.pal) }) ∧
    ((colorMeaning c .eightBit .bg).foldl applySgr a = { a with bg := some (.inr c.pal) }) ∧
    ((colorMeaning c .eightBit .ul).foldl applySgr a = { a with ul := some (.inr c.pal) }) ∧
    ((colorMeaning c .gray .fg).foldl applySgr a = { a with fg := some (selOf .gray c) }) ∧
    ((colorMeaning c .gray .bg).foldl applySgr a = { a with bg := some (selOf .gray c) }) := by
  refine ⟨rfl, rfl, rfl, ?_, ?_⟩
  · exact fold_fg (some c) .gray a
  · exact fold_bg (some c) .gray a

/-- grey depth: an underline colour is NOT emitted; the state is untouched -/
theorem gray_underline_dropped (c : Color) (a : Attr) :
    colorMeaning c .gray .ul = [] ∧ (colorMeaning c .gray .ul).foldl applySgr a = a := ⟨rfl, rfl⟩

/-- grey palette entries are 0, 8, 7, 15 -/
theorem gray_entries (c : Color) : ∃ i, selOf .gray c = .inr i ∧ (i = 0 ∨ i = 8 ∨ i = 7 ∨ i = 15) := by
  rcases hl : c.lvl with _ | _ | _ | n <;> simp [selOf, hl]

/-! non-vacuity -/
example :
    modifyAttr .eightBit
      ⟨false, some ⟨1, 2, 3, 255, 17, 2⟩, none, some 3, none, some false, none, none, none⟩
      ⟨some (.inr 5), none, none, 0, true, true, false, true, false⟩
    = ⟨some (.inr 17), none, none, 3, false, true, false, true, false⟩ := by
  decide
example (c : Color) :
    modifyAttr .gray ⟨false, none, none, none, some c, none, none, none, none⟩
      ⟨none, none, some (.inr 3), 0, true, false, false, false, false⟩
    = ⟨none, none, some (.inr 3), 0, true, false, false, false, false⟩ := rfl

end SurfProofs.Lemmas.Vt
