import SurfProofs.Lemmas.C01Basics
/-!
C01, helper lemmas 4: the first pass on well-placed surfaces with images (marks, erase commands, image list).
-/
namespace SurfProofs.C01
open SurfModel.Screen SurfModel.Renderer

/-- image of an image cell -/
def imgK (c : Cell) : Option Nat :=
  match c.kind with
  | .img i => some i
  | _ => none

def paintArea (P : Params) (m : Nat → Nat → Mark) (r c : Nat) (cell : Cell) (v : Mark) : Nat → Nat → Mark :=
  match imgK cell with
  | some i => fillRect m r c (P.size i) v
  | none => m

def eraseOf (r c : Nat) (cell : Cell) : List Cmd :=
  match imgK cell with
  | some i => [Cmd.imageErase i r c]
  | none => []

def imageOf (r c : Nat) (cell : Cell) : List (Nat × Nat × Nat × Nat) :=
  match imgK cell with
  | some i => [(r, c, cell.face, i)]
  | none => []

/-- closed form of one step of the first pass -/
theorem step1_eq (P : Params) (back : Surface) (x : P1) (r c : Nat) :
    step1 P back x r c =
      (let cell := rasterise P (normalise P x r c).1
       if back r c = cell ∧ x.marks r c ≠ .damaged then
         { x with front := setSurf x.front r c cell, shadow := (normalise P x r c).2
                  marks := paintArea P x.marks r c cell .ignored }
       else
         { front := setSurf x.front r c cell, shadow := (normalise P x r c).2
           marks := paintArea P (paintArea P x.marks r c (back r c) .damaged) r c cell .ignored
           cmds := x.cmds ++ eraseOf r c (back r c)
           images := x.images ++ imageOf r c cell }) := by
  unfold step1
  simp only
  split
  · cases hk : (rasterise P (normalise P x r c).1).kind <;> simp [paintArea, imgK, hk]
  · cases hk : (rasterise P (normalise P x r c).1).kind <;> cases hb : (back r c).kind <;>
      simp [paintArea, imgK, hk, hb, eraseOf, imageOf]

/-- `p` lies in the area of some image cell of the surface -/
def Cov (P : Params) (H W : Nat) (s : Surface) (p : Nat × Nat) : Prop :=
  ∃ q : Nat × Nat, q.1 < H ∧ q.2 < W ∧ covers P s q p = true

theorem coverOf_none_iff (P : Params) (H W : Nat) (s : Surface) (p : Nat × Nat) :
    coverOf P H W s p = none ↔ ¬ Cov P H W s p := by
  unfold coverOf Cov
  rw [List.find?_eq_none]
  constructor
  · rintro h ⟨q, q1, q2, q3⟩
    exact h q (by rw [List.mem_reverse, mem_allPos]; exact ⟨q1, q2⟩) q3
  · intro h q hq hc
    rw [List.mem_reverse, mem_allPos] at hq
    exact h ⟨q, hq.1, hq.2, hc⟩

/-- the front surface after the first pass outside image areas: cells under displayed wide characters
are zero-width, glyphs are replaced by their images -/
def normD (P : Params) (H W : Nat) (s : Surface) : Surface :=
  fun r c => if shadowed P H W s r c then nulCell else rasterise P (s r c)

/-- the cell the first pass writes at `(r, c)` when its shadow variable is `sh` -/
def cellOf (P : Params) (sh : Nat × Nat) (s : Surface) (r c : Nat) : Cell :=
  if sh.1 = r ∧ c < sh.2 then nulCell else rasterise P (s r c)

structure ShInv (P : Params) (H W : Nat) (s : Surface) (r c : Nat) (sh : Nat × Nat) : Prop where
  shU : ¬ Cov P H W s (r, c) → (shadowed P H W s r c = true ↔ (sh.1 = r ∧ c < sh.2))
  shw : (sh.1 = r ∧ c < sh.2) → ∃ c', c' + 1 = c ∧ isWide P (s r c') = true
  sh2 : sh.1 = r → sh.2 ≤ c + 1
  shr : sh.1 ≤ r

theorem normalise_spec (P : Params) (H W : Nat) (s : Surface) (r c : Nat) (x : P1)
    (hx : ShInv P H W s r c x.shadow)
    (hfr : x.front r c = s r c)
    (hmk : isWide P (s r c) = true → ¬ Cov P H W s (r, c) → x.marks r c ≠ .ignored)
    (hcut : isWide P (s r c) = true → (Cov P H W s (r, c) ↔ Cov P H W s (r, c + 1)))
    (hw2 : ∀ ch, (s r c).kind = .chr ch → P.width ch ≤ 2) :
    rasterise P (normalise P x r c).1 = cellOf P x.shadow s r c ∧
    ShInv P H W s r (c + 1) (normalise P x r c).2 := by
  have spec_succ : shadowed P H W s r (c + 1) =
      (isWide P (s r c) && !shadowed P H W s r c && (coverOf P H W s (r, c)).isNone) := rfl
  by_cases hsh : r = x.shadow.1 ∧ c < x.shadow.2
  · -- covered by a wide character
    have hm : x.shadow.1 = r ∧ c < x.shadow.2 := ⟨hsh.1.symm, hsh.2⟩
    have hn : normalise P x r c = (nulCell, x.shadow) := by simp [normalise, hsh]
    rw [hn]
    refine ⟨by simp [cellOf, hm, rasterise, nulCell], ?_, ?_, ?_, hx.shr⟩
    · intro _
      have hno : ¬ (x.shadow.1 = r ∧ c + 1 < x.shadow.2) := by
        intro h; have := hx.sh2 h.1; omega
      constructor
      · intro hs1
        exfalso
        rw [spec_succ] at hs1
        simp only [Bool.and_eq_true, Bool.not_eq_true', Option.isNone_iff_eq_none] at hs1
        have hnc : ¬ Cov P H W s (r, c) := (coverOf_none_iff P H W s (r, c)).1 hs1.2
        have := (hx.shU hnc).2 hm
        rw [hs1.1.2] at this
        cases this
      · intro h; exact absurd h hno
    · intro h; have := hx.sh2 h.1; have := h.2; exact absurd (show c + 1 < x.shadow.2 from h.2) (by omega)
    · intro h; have := hx.sh2 h; show x.shadow.2 ≤ c + 1 + 1; omega
  · have hm : ¬ (x.shadow.1 = r ∧ c < x.shadow.2) := fun h => hsh ⟨h.1.symm, h.2⟩
    have hcellS : cellOf P x.shadow s r c = rasterise P (s r c) := by simp [cellOf, hm]
    -- the two ways the shadow is left alone
    have keep : normalise P x r c = (s r c, x.shadow) →
        (isWide P (s r c) = true → x.marks r c = .ignored) →
        rasterise P (normalise P x r c).1 = cellOf P x.shadow s r c ∧
        ShInv P H W s r (c + 1) (normalise P x r c).2 := by
      intro hn hnr
      rw [hn, hcellS]
      refine ⟨rfl, ?_, ?_, ?_, hx.shr⟩
      · intro _
        have hno : ¬ (x.shadow.1 = r ∧ c + 1 < x.shadow.2) := by
          intro h; exact hm ⟨h.1, by omega⟩
        constructor
        · intro hs1
          exfalso
          rw [spec_succ] at hs1
          simp only [Bool.and_eq_true, Bool.not_eq_true', Option.isNone_iff_eq_none] at hs1
          have hnc : ¬ Cov P H W s (r, c) := (coverOf_none_iff P H W s (r, c)).1 hs1.2
          exact hmk hs1.1.1 hnc (hnr hs1.1.1)
        · intro h; exact absurd h hno
      · intro h
        have h1 : x.shadow.1 = r := h.1
        have h2 : c + 1 < x.shadow.2 := h.2
        exact absurd ⟨h1, by omega⟩ hm
      · intro h
        have h' : x.shadow.1 = r := h
        show x.shadow.2 ≤ c + 1 + 1
        have := hx.sh2 h'; omega
    by_cases hig : x.marks r c = .ignored
    · apply keep
      · simp [normalise, hsh, hig, hfr]
      · intro _; exact hig
    · by_cases hwide : isWide P (s r c) = true
      · obtain ⟨ch, hk, hw⟩ := isWide_chr P _ hwide
        have hw2' := hw2 ch hk
        have hn : normalise P x r c = (s r c, (r, c + P.width ch)) := by
          have : P.width ch > 1 := by omega
          simp [normalise, hsh, hig, hfr, hk, this]
        rw [hn, hcellS]
        refine ⟨rfl, ?_, ?_, ?_, Nat.le_refl r⟩
        · intro hnc1
          have hnc : ¬ Cov P H W s (r, c) := fun h => hnc1 ((hcut hwide).1 h)
          have hs0 : shadowed P H W s r c = false := by
            cases h : shadowed P H W s r c
            · rfl
            · exact absurd ((hx.shU hnc).1 h) hm
          constructor
          · intro _; exact ⟨rfl, by show c + 1 < c + P.width ch; omega⟩
          · intro _
            rw [spec_succ, hwide, hs0, (coverOf_none_iff P H W s (r, c)).2 hnc]
            rfl
        · intro _; exact ⟨c, rfl, hwide⟩
        · intro _; show c + P.width ch ≤ c + 1 + 1; omega
      · apply keep
        · unfold normalise
          rw [if_neg hsh, if_neg hig, hfr]
          split
          · rename_i ch hk
            have : ¬ P.width ch > 1 := by
              intro h
              apply hwide
              simp [isWide, hk]; omega
            simp [this]
          · rfl
        · intro h; exact absurd h hwide

/-- area of the image `o` placed at `(r, c)` contains `(r', c')` -/
def areaOf (P : Params) (o : Option Nat) (r c r' c' : Nat) : Bool :=
  match o with
  | some i => decide (r ≤ r' ∧ r' < r + (P.size i).1 ∧ c ≤ c' ∧ c' < c + (P.size i).2)
  | none => false

theorem covers_eq (P : Params) (s : Surface) (q p : Nat × Nat) :
    covers P s q p = areaOf P (imgOf P (s q.1 q.2)) q.1 q.2 p.1 p.2 := by
  unfold covers areaOf
  cases imgOf P (s q.1 q.2) <;> rfl

theorem paintArea_apply (P : Params) (m : Nat → Nat → Mark) (r c : Nat) (cell : Cell) (v : Mark) (r' c' : Nat) :
    paintArea P m r c cell v r' c' = if areaOf P (imgK cell) r c r' c' then v else m r' c' := by
  unfold paintArea areaOf
  cases imgK cell <;> simp [fillRect]

theorem areaOf_ge (P : Params) (o : Option Nat) (r c r' c' : Nat) (h : areaOf P o r c r' c' = true) :
    r ≤ r' ∧ c ≤ c' := by
  unfold areaOf at h
  cases o with
  | none => cases h
  | some i => simp at h; omega

theorem imgK_rasterise (P : Params) (c : Cell) : imgK (rasterise P c) = imgOf P c := by
  unfold rasterise imgK imgOf
  cases hk : c.kind <;> simp [hk]

theorem rasterise_face (P : Params) (c : Cell) : (rasterise P c).face = c.face := by
  unfold rasterise
  cases hk : c.kind <;> simp


theorem imgOf_rasterise (P : Params) (c : Cell) : imgOf P (rasterise P c) = imgOf P c := by
  unfold rasterise imgOf
  cases hk : c.kind <;> simp [hk]

theorem isWide_rasterise (P : Params) (c : Cell) : isWide P (rasterise P c) = isWide P c := by
  unfold rasterise isWide
  cases hk : c.kind <;> simp [hk]

theorem covers_self (P : Params) (s : Surface) (q : Nat × Nat) (i : Nat) (hi : imgOf P (s q.1 q.2) = some i)
    (h1 : 1 ≤ (P.size i).1) (h2 : 1 ≤ (P.size i).2) : covers P s q q = true := by
  simp [covers, hi]; omega

/-- in a well-placed surface the cell left of an image cell does not hold a wide character -/
theorem wp_img_left_not_wide (P : Params) (H W : Nat) (s : Surface) (hs : WellPlaced P H W s) (r c : Nat)
    (hr : r < H) (hc : c + 1 < W) (hi : imgOf P (s r (c + 1)) ≠ none) : isWide P (s r c) = false := by
  cases h : isWide P (s r c)
  · rfl
  · exfalso
    obtain ⟨i, hi'⟩ := Option.ne_none_iff_exists'.1 hi
    obtain ⟨_, _, w3, _, w5⟩ := hs
    obtain ⟨s1, s2, _, _⟩ := w3 r (c + 1) i hr hc hi'
    have := w5 (r, c + 1) r c hr hc hr (by omega) h
    rw [covers_self P s (r, c + 1) i hi' s1 s2] at this
    simp only [covers, hi'] at this
    simp at this
    omega

/-- a wide character of a well-placed surface is covered iff its right half is -/
theorem wp_cut (P : Params) (H W : Nat) (s : Surface) (hs : WellPlaced P H W s) (r c : Nat)
    (hr : r < H) (hc : c < W) (hw : isWide P (s r c) = true) :
    Cov P H W s (r, c) ↔ Cov P H W s (r, c + 1) := by
  obtain ⟨_, _, _, _, w5⟩ := hs
  constructor
  · rintro ⟨q, q1, q2, q3⟩; exact ⟨q, q1, q2, by rw [← w5 q r c q1 q2 hr hc hw]; exact q3⟩
  · rintro ⟨q, q1, q2, q3⟩; exact ⟨q, q1, q2, by rw [w5 q r c q1 q2 hr hc hw]; exact q3⟩

def Before (q : Nat × Nat) (r c : Nat) : Prop := q.1 < r ∨ (q.1 = r ∧ q.2 < c)
def Ins (st : State) (q : Nat × Nat) : Prop := q.1 < st.h ∧ q.2 < st.w
def posIn (l : List (Nat × Nat × Nat × Nat)) (q : Nat × Nat) : Prop := ∃ e ∈ l, (e.1, e.2.1) = q

theorem Before.next {q : Nat × Nat} {r c : Nat} (h : Before q r c) : Before q r (c + 1) := by
  rcases h with h | h
  · exact Or.inl h
  · exact Or.inr ⟨h.1, by omega⟩

theorem before_next_cases {q : Nat × Nat} {r c : Nat} (h : Before q r (c + 1)) : Before q r c ∨ q = (r, c) := by
  rcases h with h | h
  · exact Or.inl (Or.inl h)
  · by_cases e : q.2 = c
    · right; exact Prod.ext h.1 e
    · left; exact Or.inr ⟨h.1, by omega⟩

theorem not_before_self (r c : Nat) : ¬ Before (r, c) r c := by
  rintro (h | h)
  · exact Nat.lt_irrefl _ h
  · exact Nat.lt_irrefl _ h.2

structure G1Inv (P : Params) (st : State) (s : Surface) (r c : Nat) (x : P1) : Prop where
  front0 : ∀ r' c', ¬ ((r' < r ∨ (r' = r ∧ c' < c)) ∧ c' < st.w) → x.front r' c' = s r' c'
  front1 : ∀ r' c', (r' < r ∨ (r' = r ∧ c' < c)) → c' < st.w →
    (x.front r' c' = nulCell ∨ x.front r' c' = rasterise P (s r' c')) ∧
    (¬ Cov P st.h st.w s (r', c') → x.front r' c' = normD P st.h st.w s r' c') ∧
    (imgOf P (s r' c') ≠ none → x.front r' c' = rasterise P (s r' c'))
  sh : ShInv P st.h st.w s r c x.shadow
  m1 : ∀ r' c', x.marks r' c' = .ignored → ∃ q, Before q r c ∧ Ins st q ∧ covers P s q (r', c') = true
  m2 : ∀ r' c', x.marks r' c' = .empty → st.marks r' c' = .empty ∧
    ∀ q, Before q r c → Ins st q → covers P s q (r', c') = false ∧ covers P st.back q (r', c') = false
  m3 : ∀ q, Before q r c → Ins st q → imgOf P (s q.1 q.2) ≠ none → ¬ posIn x.images q →
    ∀ r' c', covers P s q (r', c') = true → x.marks r' c' = .ignored
  m5 : ∀ q, Before q r c → Ins st q → imgOf P (s q.1 q.2) ≠ none → x.marks q.1 q.2 = .ignored
  i0 : ∀ e ∈ x.images, Before (e.1, e.2.1) r c ∧ Ins st (e.1, e.2.1) ∧
    rasterise P (s e.1 e.2.1) = ⟨e.2.2.1, .img e.2.2.2⟩
  i2 : ∀ q, Before q r c → Ins st q → imgOf P (s q.1 q.2) ≠ none →
    posIn x.images q ∨ st.back q.1 q.2 = rasterise P (s q.1 q.2)
  e1 : ∀ cmd ∈ x.cmds, ∃ i r' c', cmd = .imageErase i r' c' ∧ Before (r', c') r c ∧ Ins st (r', c') ∧
    (st.back r' c').kind = .img i ∧ (imgOf P (s r' c') ≠ none → posIn x.images (r', c'))
  e2 : ∀ q, Before q r c → Ins st q → ∀ i, (st.back q.1 q.2).kind = .img i →
    Cmd.imageErase i q.1 q.2 ∈ x.cmds ∨ (st.back q.1 q.2 = rasterise P (s q.1 q.2) ∧ ¬ posIn x.images q)
  k1 : ∀ q, Before q r c → Ins st q → imgOf P (s q.1 q.2) ≠ none → ¬ posIn x.images q →
    st.marks q.1 q.2 ≠ .damaged


/-- what the first pass needs to know about the renderer state -/
structure BackOk (P : Params) (st : State) : Prop where
  noign : ∀ r c, st.marks r c ≠ .ignored
  nogly : ∀ r c g, r < st.h → c < st.w → (st.back r c).kind ≠ .gly g
  disj : ∀ q q' p, Ins st q → Ins st q' → covers P st.back q p = true → covers P st.back q' p = true → q = q'

theorem imgK_eq_imgOf (P : Params) (c : Cell) (h : ∀ g, c.kind ≠ .gly g) : imgK c = imgOf P c := by
  unfold imgK imgOf
  cases hk : c.kind with
  | chr ch => rfl
  | img i => rfl
  | gly g => exact absurd hk (h g)

theorem posIn_append (l : List (Nat × Nat × Nat × Nat)) (e : Nat × Nat × Nat × Nat) (q : Nat × Nat) :
    posIn (l ++ [e]) q ↔ posIn l q ∨ (e.1, e.2.1) = q := by
  simp only [posIn, List.mem_append, List.mem_singleton]
  constructor
  · rintro ⟨e', h | h, he⟩
    · exact Or.inl ⟨e', h, he⟩
    · subst h; exact Or.inr he
  · rintro (⟨e', h, he⟩ | h)
    · exact ⟨e', Or.inl h, he⟩
    · exact ⟨e, Or.inr rfl, h⟩

theorem step1_general (P : Params) (st : State) (s : Surface) (hs : WellPlaced P st.h st.w s)
    (hb : BackOk P st) (r c : Nat) (hr : r < st.h) (hc : c < st.w) (x : P1) (hx : G1Inv P st s r c x) :
    G1Inv P st s r (c + 1) (step1 P st.back x r c) := by
  obtain ⟨w1, w2, w3, w4, w5⟩ := hs
  have hs' : WellPlaced P st.h st.w s := ⟨w1, w2, w3, w4, w5⟩
  have hfr : x.front r c = s r c := hx.front0 r c (by omega)
  -- an uncovered wide character is never ignored when visited
  have hmk : isWide P (s r c) = true → ¬ Cov P st.h st.w s (r, c) → x.marks r c ≠ .ignored := by
    intro _ hnc hi
    obtain ⟨q, _, hq, hcov⟩ := hx.m1 r c hi
    exact hnc ⟨q, hq.1, hq.2, hcov⟩
  obtain ⟨hcell, hn2⟩ := normalise_spec P st.h st.w s r c x hx.sh hfr hmk
    (wp_cut P st.h st.w s hs' r c hr hc) (fun ch hk => by
      rcases w1 r c ch hr hc hk with h | h <;> omega)
  -- an image cell is never in the shadow of a wide character
  have hcellimg : imgOf P (s r c) ≠ none → cellOf P x.shadow s r c = rasterise P (s r c) := by
    intro hi
    have : ¬ (x.shadow.1 = r ∧ c < x.shadow.2) := by
      intro hm
      obtain ⟨c', hc', hw⟩ := hx.sh.shw hm
      subst hc'
      have := wp_img_left_not_wide P st.h st.w s hs' r c' hr hc hi
      rw [hw] at this; cases this
    simp [cellOf, this]
  -- image of the new cell / of the old cell
  have ho : imgK (cellOf P x.shadow s r c) = imgOf P (s r c) := by
    cases hi : imgOf P (s r c) with
    | some i => rw [hcellimg (by rw [hi]; simp), imgK_rasterise, hi]
    | none =>
      unfold cellOf
      split
      · simp [imgK, nulCell]
      · rw [imgK_rasterise, hi]
  have hob : imgK (st.back r c) = imgOf P (st.back r c) := imgK_eq_imgOf P _ (fun g => hb.nogly r c g hr hc)
  have hcellor : cellOf P x.shadow s r c = nulCell ∨ cellOf P x.shadow s r c = rasterise P (s r c) := by
    unfold cellOf; split
    · exact Or.inl rfl
    · exact Or.inr rfl
  have hcelld : ¬ Cov P st.h st.w s (r, c) → cellOf P x.shadow s r c = normD P st.h st.w s r c := by
    intro hnc
    unfold cellOf normD
    by_cases hm : x.shadow.1 = r ∧ c < x.shadow.2
    · rw [if_pos hm, (hx.sh.shU hnc).2 hm]; rfl
    · have : shadowed P st.h st.w s r c = false := by
        cases h : shadowed P st.h st.w s r c
        · rfl
        · exact absurd ((hx.sh.shU hnc).1 h) hm
      rw [if_neg hm, this]; rfl
  rw [step1_eq, hcell]
  simp only
  -- closed forms, uniformly in both branches
  let skip : Prop := st.back r c = cellOf P x.shadow s r c ∧ x.marks r c ≠ .damaged
  obtain ⟨y, hy⟩ : ∃ y : P1, y = (if st.back r c = cellOf P x.shadow s r c ∧ x.marks r c ≠ .damaged then
        ({ x with front := setSurf x.front r c (cellOf P x.shadow s r c), shadow := (normalise P x r c).2
                  marks := paintArea P x.marks r c (cellOf P x.shadow s r c) .ignored } : P1)
      else
        { front := setSurf x.front r c (cellOf P x.shadow s r c), shadow := (normalise P x r c).2
          marks := paintArea P (paintArea P x.marks r c (st.back r c) .damaged) r c (cellOf P x.shadow s r c) .ignored
          cmds := x.cmds ++ eraseOf r c (st.back r c)
          images := x.images ++ imageOf r c (cellOf P x.shadow s r c) }) := ⟨_, rfl⟩
  rw [← hy]
  have hyf : y.front = setSurf x.front r c (cellOf P x.shadow s r c) := by
    rw [hy]; by_cases hsk : skip
    · have hsk' := hsk; simp only [skip] at hsk'; rw [if_pos hsk']
    · have hsk' := hsk; simp only [skip] at hsk'; rw [if_neg hsk']
  have hysh : y.shadow = (normalise P x r c).2 := by
    rw [hy]; by_cases hsk : skip
    · have hsk' := hsk; simp only [skip] at hsk'; rw [if_pos hsk']
    · have hsk' := hsk; simp only [skip] at hsk'; rw [if_neg hsk']
  have hym : ∀ r' c', y.marks r' c' =
      if areaOf P (imgOf P (s r c)) r c r' c' then .ignored
      else if ¬ skip ∧ areaOf P (imgOf P (st.back r c)) r c r' c' = true then .damaged
      else x.marks r' c' := by
    intro r' c'
    rw [hy]
    by_cases hsk : skip
    · have hsk' := hsk
      simp only [skip] at hsk'
      rw [if_pos hsk']
      simp only [paintArea_apply, ho, hsk, not_true, false_and, if_false]
    · have hsk' := hsk
      simp only [skip] at hsk'
      rw [if_neg hsk']
      simp only [paintArea_apply, ho, hob, hsk, not_false_eq_true, true_and]
  have hyc : y.cmds = if skip then x.cmds else x.cmds ++ eraseOf r c (st.back r c) := by
    rw [hy]; by_cases hsk : skip
    · have hsk' := hsk; simp only [skip] at hsk'; rw [if_pos hsk', if_pos hsk]
    · have hsk' := hsk; simp only [skip] at hsk'; rw [if_neg hsk', if_neg hsk]
  have hyi : y.images = if skip then x.images else x.images ++ imageOf r c (cellOf P x.shadow s r c) := by
    rw [hy]; by_cases hsk : skip
    · have hsk' := hsk; simp only [skip] at hsk'; rw [if_pos hsk', if_pos hsk]
    · have hsk' := hsk; simp only [skip] at hsk'; rw [if_neg hsk', if_neg hsk]
  clear hy
  have hpos : ∀ q, posIn y.images q ↔ posIn x.images q ∨ (¬ skip ∧ imgOf P (s r c) ≠ none ∧ q = (r, c)) := by
    intro q
    rw [hyi]
    by_cases hsk : skip
    · simp [hsk]
    · simp only [hsk, if_false, not_false_eq_true, true_and]
      unfold imageOf
      rw [ho]
      cases hi : imgOf P (s r c) with
      | none => simp
      | some i =>
        simp only [posIn_append]
        constructor
        · rintro (h | h)
          · exact Or.inl h
          · exact Or.inr ⟨by simp, h.symm⟩
        · rintro (h | h)
          · exact Or.inl h
          · exact Or.inr h.2.symm
  have hself : ∀ i, imgOf P (s r c) = some i → areaOf P (imgOf P (s r c)) r c r c = true := by
    intro i hi
    obtain ⟨s1, s2, _, _⟩ := w3 r c i hr hc hi
    rw [hi]; simp [areaOf]; omega
  refine ⟨?_, ?_, ?_, ?_, ?_, ?_, ?_, ?_, ?_, ?_, ?_, ?_⟩
  · -- front0
    intro r' c' hnv
    rw [hyf]
    simp only [setSurf]
    have h1 : ¬ (r' = r ∧ c' = c) := by
      intro h; apply hnv; exact ⟨Or.inr ⟨h.1, by omega⟩, by rw [h.2]; exact hc⟩
    rw [if_neg h1]
    exact hx.front0 r' c' (by
      intro h; apply hnv
      rcases h.1 with h' | h'
      · exact ⟨Or.inl h', h.2⟩
      · exact ⟨Or.inr ⟨h'.1, by omega⟩, h.2⟩)
  · -- front1
    intro r' c' hv hcw
    rw [hyf]
    simp only [setSurf]
    by_cases h1 : r' = r ∧ c' = c
    · obtain ⟨rfl, rfl⟩ := h1
      simp only [and_self, if_true]
      exact ⟨hcellor, hcelld, hcellimg⟩
    · rw [if_neg h1]
      apply hx.front1 r' c' _ hcw
      rcases hv with h | h
      · exact Or.inl h
      · refine Or.inr ⟨h.1, ?_⟩
        have : c' ≠ c := fun e => h1 ⟨h.1, e⟩
        omega
  · rw [hysh]; exact hn2
  · -- m1
    intro r' c' hi
    rw [hym r' c'] at hi
    split at hi
    · rename_i ha
      exact ⟨(r, c), Or.inr ⟨rfl, by simp⟩, ⟨hr, hc⟩, by rw [covers_eq]; exact ha⟩
    · split at hi
      · cases hi
      · obtain ⟨q, h1, h2, h3⟩ := hx.m1 r' c' hi
        exact ⟨q, h1.next, h2, h3⟩
  · -- m2
    intro r' c' he
    rw [hym r' c'] at he
    split at he
    · cases he
    · rename_i ha
      split at he
      · cases he
      · rename_i hd
        obtain ⟨e1, e2⟩ := hx.m2 r' c' he
        refine ⟨e1, ?_⟩
        intro q hq hqi
        rcases before_next_cases hq with hq' | rfl
        · exact e2 q hq' hqi
        · refine ⟨by rw [covers_eq]; simpa using ha, ?_⟩
          rw [covers_eq]
          by_cases hsk : skip
          · have : imgOf P (st.back r c) = imgOf P (s r c) := by
              rw [← hob, hsk.1, ho]
            simp only [this]; simpa using ha
          · cases hcov : areaOf P (imgOf P (st.back r c)) r c r' c'
            · rfl
            · exact absurd ⟨hsk, hcov⟩ hd
  · -- m3
    intro q hq hqi himg hnp r' c' hcov
    rw [hym r' c']
    rcases before_next_cases hq with hq' | rfl
    · have hnp' : ¬ posIn x.images q := fun h => hnp ((hpos q).2 (Or.inl h))
      have hold := hx.m3 q hq' hqi himg hnp' r' c' hcov
      split
      · rfl
      · split
        · rename_i hd
          exfalso
          rcases hx.i2 q hq' hqi himg with h | h
          · exact hnp' h
          · have c1 : covers P st.back q (r', c') = true := by
              rw [covers_eq, h, imgOf_rasterise, ← covers_eq]; exact hcov
            have c2 : covers P st.back (r, c) (r', c') = true := by rw [covers_eq]; exact hd.2
            have := hb.disj q (r, c) (r', c') hqi ⟨hr, hc⟩ c1 c2
            rw [this] at hq'
            exact not_before_self r c hq'
        · exact hold
    · have ha : areaOf P (imgOf P (s r c)) r c r' c' = true := by rw [covers_eq] at hcov; exact hcov
      simp [ha]
  · -- m5
    intro q hq hqi himg
    rw [hym q.1 q.2]
    rcases before_next_cases hq with hq' | rfl
    · have n1 : areaOf P (imgOf P (s r c)) r c q.1 q.2 = false := by
        cases h : areaOf P (imgOf P (s r c)) r c q.1 q.2
        · rfl
        · have := areaOf_ge P _ r c q.1 q.2 h
          rcases hq' with h' | h' <;> omega
      have n2 : areaOf P (imgOf P (st.back r c)) r c q.1 q.2 = false := by
        cases h : areaOf P (imgOf P (st.back r c)) r c q.1 q.2
        · rfl
        · have := areaOf_ge P _ r c q.1 q.2 h
          rcases hq' with h' | h' <;> omega
      simp only [n1, n2]
      simpa using hx.m5 q hq' hqi himg
    · obtain ⟨i, hi⟩ := Option.ne_none_iff_exists'.1 himg
      simp [hself i hi]
  · -- i0
    intro e he
    rw [hyi] at he
    by_cases hsk : skip
    · simp only [hsk, if_true] at he
      obtain ⟨a, b, d⟩ := hx.i0 e he
      exact ⟨a.next, b, d⟩
    · simp only [hsk, if_false, List.mem_append] at he
      rcases he with he | he
      · obtain ⟨a, b, d⟩ := hx.i0 e he
        exact ⟨a.next, b, d⟩
      · unfold imageOf at he
        rw [ho] at he
        cases hi : imgOf P (s r c) with
        | none => simp [hi] at he
        | some i =>
          simp only [hi, List.mem_singleton] at he
          subst he
          refine ⟨Or.inr ⟨rfl, by simp⟩, ⟨hr, hc⟩, ?_⟩
          simp only
          have e1 := hcellimg (by rw [hi]; simp)
          rw [← e1]
          have e2 : imgK (cellOf P x.shadow s r c) = some i := by rw [ho, hi]
          unfold imgK at e2
          cases hk : (cellOf P x.shadow s r c).kind with
          | img j =>
            rw [hk] at e2
            simp at e2
            subst e2
            cases hcl : cellOf P x.shadow s r c with
            | mk f k => rw [hcl] at hk; simp at hk; subst hk; rfl
          | chr ch => rw [hk] at e2; simp at e2
          | gly g => rw [hk] at e2; simp at e2
  · -- i2
    intro q hq hqi himg
    rcases before_next_cases hq with hq' | rfl
    · rcases hx.i2 q hq' hqi himg with h | h
      · exact Or.inl ((hpos q).2 (Or.inl h))
      · exact Or.inr h
    · by_cases hsk : skip
      · right
        show st.back r c = rasterise P (s r c)
        rw [hsk.1, hcellimg himg]
      · left
        exact (hpos (r, c)).2 (Or.inr ⟨hsk, himg, rfl⟩)
  · -- e1
    intro cmd hcmd
    rw [hyc] at hcmd
    have old : cmd ∈ x.cmds → ∃ i r' c', cmd = .imageErase i r' c' ∧ Before (r', c') r (c + 1) ∧ Ins st (r', c') ∧
        (st.back r' c').kind = .img i ∧ (imgOf P (s r' c') ≠ none → posIn y.images (r', c')) := by
      intro h
      obtain ⟨i, r', c', a1, a2, a3, a4, a5⟩ := hx.e1 cmd h
      exact ⟨i, r', c', a1, a2.next, a3, a4, fun h' => (hpos _).2 (Or.inl (a5 h'))⟩
    by_cases hsk : skip
    · simp only [hsk, if_true] at hcmd
      exact old hcmd
    · simp only [hsk, if_false, List.mem_append] at hcmd
      rcases hcmd with h | h
      · exact old h
      · unfold eraseOf at h
        cases hi : imgK (st.back r c) with
        | none => simp [hi] at h
        | some j =>
          simp only [hi, List.mem_singleton] at h
          refine ⟨j, r, c, h, Or.inr ⟨rfl, by simp⟩, ⟨hr, hc⟩, ?_, ?_⟩
          · unfold imgK at hi
            cases hk : (st.back r c).kind with
            | img j' => rw [hk] at hi; simp at hi; rw [hi]
            | chr ch => rw [hk] at hi; simp at hi
            | gly g => rw [hk] at hi; simp at hi
          · intro himg
            exact (hpos (r, c)).2 (Or.inr ⟨hsk, himg, rfl⟩)
  · -- e2
    intro q hq hqi i hk
    rcases before_next_cases hq with hq' | rfl
    · rcases hx.e2 q hq' hqi i hk with h | ⟨h1, h2⟩
      · left
        rw [hyc]
        by_cases hsk : skip
        · simpa [hsk] using h
        · simp only [hsk, if_false, List.mem_append]; exact Or.inl h
      · right
        refine ⟨h1, ?_⟩
        intro hp
        rcases (hpos q).1 hp with hp' | ⟨_, _, hp'⟩
        · exact h2 hp'
        · rw [hp'] at hq'; exact not_before_self r c hq'
    · by_cases hsk : skip
      · right
        have hk' : (st.back r c).kind = .img i := hk
        refine ⟨?_, ?_⟩
        · show st.back r c = rasterise P (s r c)
          rcases hcellor with h0 | h0
          · exfalso
            rw [hsk.1, h0] at hk'
            simp [nulCell] at hk'
          · rw [hsk.1, h0]
        · intro hp
          rcases (hpos (r, c)).1 hp with ⟨e, he, hpe⟩ | ⟨hns, _, _⟩
          · have := (hx.i0 e he).1
            rw [hpe] at this
            exact not_before_self r c this
          · exact hns hsk
      · left
        rw [hyc]
        simp only [hsk, if_false, List.mem_append]
        right
        have hk' : (st.back r c).kind = .img i := hk
        simp [eraseOf, imgK, hk']
  · -- k1
    intro q hq hqi himg hnp
    rcases before_next_cases hq with hq' | rfl
    · exact hx.k1 q hq' hqi himg (fun h => hnp ((hpos q).2 (Or.inl h)))
    · intro hd
      have hsk : skip := by
        apply Classical.byContradiction
        intro hns
        exact hnp ((hpos (r, c)).2 (Or.inr ⟨hns, himg, rfl⟩))
      have hd' : st.marks r c = .damaged := hd
      cases hm : x.marks r c with
      | empty =>
        have := (hx.m2 r c hm).1
        rw [hd'] at this; cases this
      | damaged => exact hsk.2 hm
      | ignored =>
        obtain ⟨q', b1, b2, b3⟩ := hx.m1 r c hm
        obtain ⟨i, hi⟩ := Option.ne_none_iff_exists'.1 himg
        obtain ⟨s1, s2, _, _⟩ := w3 r c i hr hc hi
        have self := covers_self P s (r, c) i hi s1 s2
        have := w4 q' (r, c) (r, c) b2.1 b2.2 hr hc b3 self
        rw [this] at b1
        exact not_before_self r c b1

theorem before_row_up {q : Nat × Nat} {r W : Nat} (h : Before q r W) : Before q (r + 1) 0 := by
  rcases h with h | h
  · exact Or.inl (by omega)
  · exact Or.inl (by omega)

theorem before_row_down {q : Nat × Nat} {r W : Nat} (h : Before q (r + 1) 0) (hq : q.2 < W) : Before q r W := by
  rcases h with h | h
  · by_cases e : q.1 = r
    · exact Or.inr ⟨e, hq⟩
    · exact Or.inl (by omega)
  · omega

theorem pass1Row_general (P : Params) (st : State) (s : Surface) (hs : WellPlaced P st.h st.w s)
    (hb : BackOk P st) (r : Nat) (hr : r < st.h) (x : P1) (hx : G1Inv P st s r 0 x) :
    G1Inv P st s (r + 1) 0 (pass1Row P st.back st.w x r) := by
  have key : ∀ n, n ≤ st.w →
      G1Inv P st s r n ((List.range n).foldl (fun x c => step1 P st.back x r c) x) := by
    intro n
    induction n with
    | zero => intro _; simpa using hx
    | succ n ih =>
      intro hn
      rw [List.range_succ, List.foldl_append]
      exact step1_general P st s hs hb r n hr (by omega) _ (ih (by omega))
  have h := key st.w (Nat.le_refl _)
  unfold pass1Row
  generalize (List.range st.w).foldl (fun x c => step1 P st.back x r c) x = y at h ⊢
  refine ⟨?_, ?_, ⟨?_, ?_, ?_, ?_⟩, ?_, ?_, ?_, ?_, ?_, ?_, ?_, ?_, ?_⟩
  · intro r' c' hnv
    apply h.front0 r' c'
    intro hv
    apply hnv
    rcases hv.1 with h1 | h1
    · exact ⟨Or.inl (by omega), hv.2⟩
    · exact ⟨Or.inl (by omega), hv.2⟩
  · intro r' c' hv hcw
    apply h.front1 r' c' _ hcw
    rcases hv with h1 | h1
    · by_cases e : r' = r
      · exact Or.inr ⟨e, hcw⟩
      · exact Or.inl (by omega)
    · omega
  · have := h.sh.shr
    intro _
    constructor
    · intro h'; simp [shadowed] at h'
    · rintro ⟨h1, _⟩; omega
  · rintro ⟨h1, _⟩; have := h.sh.shr; omega
  · intro h1; have := h.sh.shr; omega
  · have := h.sh.shr; omega
  · intro r' c' hi
    obtain ⟨q, a, b, d⟩ := h.m1 r' c' hi
    exact ⟨q, before_row_up a, b, d⟩
  · intro r' c' he
    obtain ⟨a, b⟩ := h.m2 r' c' he
    exact ⟨a, fun q hq hqi => b q (before_row_down hq hqi.2) hqi⟩
  · intro q hq hqi; exact h.m3 q (before_row_down hq hqi.2) hqi
  · intro q hq hqi; exact h.m5 q (before_row_down hq hqi.2) hqi
  · intro e he
    obtain ⟨a, b, d⟩ := h.i0 e he
    exact ⟨before_row_up a, b, d⟩
  · intro q hq hqi; exact h.i2 q (before_row_down hq hqi.2) hqi
  · intro cmd hcmd
    obtain ⟨i, r', c', a1, a2, a3, a4⟩ := h.e1 cmd hcmd
    exact ⟨i, r', c', a1, before_row_up a2, a3, a4⟩
  · intro q hq hqi; exact h.e2 q (before_row_down hq hqi.2) hqi
  · intro q hq hqi; exact h.k1 q (before_row_down hq hqi.2) hqi

theorem pass1_general (P : Params) (st : State) (s : Surface) (hs : WellPlaced P st.h st.w s)
    (hb : BackOk P st) : G1Inv P st s st.h 0 (pass1 P st s) := by
  have key : ∀ n, n ≤ st.h →
      G1Inv P st s n 0 ((List.range n).foldl (pass1Row P st.back st.w)
        { front := s, marks := st.marks, shadow := (0, 0), cmds := [], images := [] }) := by
    intro n
    induction n with
    | zero =>
      intro _
      simp only [List.range_zero, List.foldl_nil]
      have nb : ∀ q : Nat × Nat, ¬ Before q 0 0 := by
        rintro q (h | h) <;> omega
      refine ⟨?_, ?_, ⟨?_, ?_, ?_, ?_⟩, ?_, ?_, ?_, ?_, ?_, ?_, ?_, ?_, ?_⟩
      · intro r' c' _; rfl
      · intro r' c' hv; omega
      · intro _; simp [shadowed]
      · rintro ⟨_, h⟩; simp at h
      · intro _; simp
      · simp
      · intro r' c' hi; exact absurd hi (hb.noign r' c')
      · intro r' c' he; exact ⟨he, fun q hq => absurd hq (nb q)⟩
      · intro q hq; exact absurd hq (nb q)
      · intro q hq; exact absurd hq (nb q)
      · intro e he; simp at he
      · intro q hq; exact absurd hq (nb q)
      · intro cmd hcmd; simp at hcmd
      · intro q hq; exact absurd hq (nb q)
      · intro q hq; exact absurd hq (nb q)
    | succ n ih =>
      intro hn
      rw [List.range_succ, List.foldl_append]
      exact pass1Row_general P st s hs hb n (by omega) _ (ih (by omega))
  exact key st.h (Nat.le_refl _)


end SurfProofs.C01
