import SurfModel.SixelDraw
import SurfProofs.Lemmas.SixelQuant
import SurfProofs.Lemmas.QuantTop
/-!
# C12 helper lemmas, part 7: `draw` from the image on (composition with the quantiser model)
-/
namespace SurfProofs.Lemmas.SixelDraw
open SurfModel.Sixel SurfModel.SixelDraw
open SurfProofs.Lemmas.SixelDecode

theorem truncHeight_le (h : Nat) : truncHeight h ≤ h := by unfold truncHeight; omega
theorem truncHeight_mod (h : Nat) : truncHeight h % 6 = 0 := by unfold truncHeight; omega
theorem truncHeight_pos {h : Nat} (hh : 6 ≤ h) : 6 ≤ truncHeight h := by unfold truncHeight; omega
theorem truncHeight_zero {h : Nat} (hh : h < 6) : truncHeight h = 0 := by unfold truncHeight; omega
theorem truncHeight_of_mod {h : Nat} (hh : h % 6 = 0) : truncHeight h = h := by unfold truncHeight; omega

theorem reduced_length (w h : Nat) (px : List RGB) (hsize : px.length = h * w) :
    (reduced w h px).length = truncHeight h * w := by
  have : truncHeight h * w ≤ h * w := Nat.mul_le_mul_right w (truncHeight_le h)
  simp only [reduced, List.length_map, List.length_take, hsize]
  exact Nat.min_eq_left this

/-- no column, or fewer than six rows: `quantize` answers `None` and nothing is written -/
theorem drawFresh_nothing (w h : Nat) (px : List RGB) (looked : List QRGB) (order : QImg → Nat → List Nat)
    (hdeg : w = 0 ∨ h < 6) : drawFresh w h px looked order = .wrote [] := by
  have h0 : truncHeight h * w = 0 := by
    rcases hdeg with rfl | hh
    · simp
    · simp [truncHeight_zero hh]
  simp [drawFresh, reduced, h0, SurfModel.Quant.quantizeDithered, SurfModel.Quant.fromImage, drawWith]

/-- every other view: a palette of 1..256 colours, valid indices, and the emitted bytes decode to a fully
painted raster of the declared size -/
theorem drawFresh_wellformed (w h : Nat) (px : List RGB) (looked : List QRGB)
    (order : QImg → Nat → List Nat)
    (hsize : px.length = h * w) (hlooked : looked.length = truncHeight h * w) (hw : 0 < w) (hh : 6 ≤ h)
    (hord : ∀ q : QImg, q.h % 6 = 0 → OrderOk q (order q)) :
    ∃ bytes r, drawFresh w h px looked order = .wrote bytes ∧ sixel bytes = some r
      ∧ r.width = w ∧ r.height = truncHeight h
      ∧ r.pix.length = truncHeight h ∧ (∀ row ∈ r.pix, row.length = w)
      ∧ (∀ y x, y < truncHeight h → x < w → (r.get x y).isSome = true)
      ∧ r.outside = 0 ∧ 1 ≤ r.registers.length ∧ r.registers.length ≤ 256 := by
  have hlen := reduced_length w h px hsize
  have hpos : 0 < truncHeight h * w := Nat.mul_pos (by have := truncHeight_pos hh; omega) hw
  have hne : (reduced w h px).map toQ ≠ [] := by
    intro h0
    have := congrArg List.length h0
    simp only [List.length_map, hlen, List.length_nil] at this
    omega
  obtain ⟨pal, hfi, h1, h2⟩ := SurfProofs.QuantTop.fromImage_bounds ((reduced w h px).map toQ)
    (truncHeight h) w 256 (by simp [hlen]) hne (by omega)
  have hpne : pal ≠ [] := by rintro rfl; simp at h1
  obtain ⟨is, hq, hil, hidx⟩ := SurfProofs.QuantTop.quantizePlain_valid pal hpne looked
  have hres : SurfModel.Quant.quantizeDithered ((reduced w h px).map toQ) (truncHeight h) w 256 looked
      = .ok pal is := by
    simp only [SurfModel.Quant.quantizeDithered, SurfModel.Quant.quantizeLooked, hfi, hq]
  have hth6 := truncHeight_mod h
  have hilen : is.length = truncHeight h * w := by rw [hil]; exact hlooked
  have hqok : QOk (pal.map ofQ) ⟨w, truncHeight h, rowsOf w (truncHeight h) is⟩ :=
    SurfProofs.Lemmas.SixelQuant.qimgOf_ok (pal.map ofQ) w (truncHeight h) is hth6 hilen
      (by simpa using hidx)
  obtain ⟨r, hr, hrw, hrh, hpix, hout, hregs, _, hget⟩ :=
    sixelN_encodeN (pal.map ofQ) ⟨w, truncHeight h, rowsOf w (truncHeight h) is⟩
      (order ⟨w, truncHeight h, rowsOf w (truncHeight h) is⟩) (by simpa using h2) hqok (hord _ hth6)
  refine ⟨encode (pal.map ofQ) ⟨w, truncHeight h, rowsOf w (truncHeight h) is⟩
      (order ⟨w, truncHeight h, rowsOf w (truncHeight h) is⟩), r,
    by simp only [drawFresh, hres, drawWith], by rw [sixel_encode]; exact hr,
    hrw, hrh, hpix.1, hpix.2, ?_, hout, by rw [hregs]; simpa using h1, by rw [hregs]; simpa using h2⟩
  intro y x hy hx
  rw [hget y x hy hx]; rfl

/-! ## the view as a function of (row, column) -/

open SurfProofs.Lemmas.SixelQuant (rowMajor rowMajor_succ rowMajor_length) in
theorem take_rowMajor {α : Type} (w : Nat) (f : Nat → Nat → α) (t : Nat) :
    ∀ h, t ≤ h → (rowMajor w h f).take (t * w) = rowMajor w t f := by
  intro h
  induction h with
  | zero => intro ht; have : t = 0 := by omega
            subst this; simp [rowMajor]
  | succ h ih =>
    intro ht
    by_cases he : t = h + 1
    · subst he
      have := rowMajor_length w (h + 1) f
      rw [← this, List.take_length]
    · have hle : t ≤ h := by omega
      rw [rowMajor_succ, List.take_append_of_le_length (by rw [rowMajor_length]; exact Nat.mul_le_mul_right w hle)]
      exact ih hle

open SurfProofs.Lemmas.SixelQuant (rowMajor) in
theorem map_rowMajor {α β : Type} (w h : Nat) (f : Nat → Nat → α) (g : α → β) :
    (rowMajor w h f).map g = rowMajor w h (fun y x => g (f y x)) := by
  simp [rowMajor, List.map_flatMap]
  rfl

open SurfProofs.Lemmas.SixelQuant (rowMajor) in
/-- the image `draw` hands to `quantize`, for a view given as a function -/
theorem reduced_rowMajor (w h : Nat) (src : Nat → Nat → RGB) :
    (reduced w h (rowMajor w h src)).map toQ
      = rowMajor w (truncHeight h) (fun y x => SurfProofs.Lemmas.SixelQuant.toQ (preReduce (src y x))) := by
  simp only [reduced, take_rowMajor w src (truncHeight h) h (truncHeight_le h), map_rowMajor]
  rfl

/-! ## the subsampling threshold -/

/-- for every view whose kept part has fewer than `2^32 · 25600` pixels: the palette extraction walks all
pixels exactly when `w · (h/6·6) / (256 · 100) < 2`, i.e. below 51200 pixels -/
theorem subsampled_iff (w h : Nat) (hbig : w * truncHeight h < 2 ^ 32 * 25600) :
    subsampled w h = false ↔ w * truncHeight h / (256 * 100) < 2 := by
  have hd : min (256 * 100) (2 ^ 64 - 1) = 25600 := by decide
  have hlt : truncHeight h * w / 25600 < 2 ^ 32 := by
    rw [Nat.mul_comm]; omega
  simp only [subsampled, sampleStep, registers, SurfModel.Quant.sampleRate, hd]
  simp only [show (25600 : Nat) = 0 ↔ False from by decide, if_false, Nat.mod_eq_of_lt hlt]
  rw [Nat.mul_comm (truncHeight h) w]
  simp

theorem subsampled_iff' (w h : Nat) (hbig : w * truncHeight h < 2 ^ 32 * 25600) :
    subsampled w h = false ↔ w * truncHeight h < 51200 := by
  rw [subsampled_iff w h hbig]; omega

end SurfProofs.Lemmas.SixelDraw
