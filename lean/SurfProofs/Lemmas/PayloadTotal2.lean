import SurfProofs.Lemmas.PayloadTotal
import SurfProofs.Lemmas.ProtoTermcap
import SurfProofs.Lemmas.Utf8
/-!
The three families whose decoder looks into the token beyond its frame:

* termcap (`hex_decode` indexes `pair[1]`: every name and value the grammar lets through has an even number of
  hex digits),
* terminal size (`split(ESC)` must give the two halves, each at least four bytes long),
* UTF-8 (`utf8_decode` + `from_u32_unchecked`: Part A).
-/
namespace SurfProofs.PayloadTotal
open SurfModel.Payload SurfModel.Automata SurfModel.Grammar SurfModel.Sgr SurfModel.Vt SurfModel.Stream SurfModel.Protocol
open SurfProofs.ReMatch SurfProofs.ReLen SurfProofs.ProtoTermcap SurfProofs.Lemmas.Vt

theorem natBytes_append (a b : List UInt8) : natBytes (a ++ b) = natBytes a ++ natBytes b := by simp [natBytes]
theorem natBytes_length (a : List UInt8) : (natBytes a).length = a.length := by simp [natBytes]

theorem natBytes_bytes (l : List Nat) (h : ∀ b ∈ l, b < 256) : natBytes (bytes l) = l := by
  induction l with
  | nil => rfl
  | cons a r ih =>
    simp only [natBytes, bytes, List.map_cons, List.cons.injEq] at ih ⊢
    refine ⟨?_, ih (fun b hb => h b (List.mem_cons_of_mem _ hb))⟩
    have := h a (List.mem_cons_self ..)
    rw [UInt8.toNat_ofNat']; omega

/-! ## hexadecimal pieces -/

/-- an even number of bytes, all of them hex digits -/
def EvenHex (l : List Nat) : Prop := l.length % 2 = 0 ∧ ∀ b ∈ l, IsHex b

theorem hexDecode_even (n : Nat) : ∀ l : List Nat, l.length = 2 * n → ∃ r, hexDecode l = .ok r := by
  induction n with
  | zero =>
    intro l hl
    have : l = [] := List.length_eq_zero_iff.mp (by omega)
    subst this
    exact ⟨[], rfl⟩
  | succ n ih =>
    intro l hl
    match l, hl with
    | a :: b :: rest, hl =>
      obtain ⟨r, hr⟩ := ih rest (by simp only [List.length_cons] at hl; omega)
      simp only [hexDecode]
      cases hexVal? a with
      | none => exact ⟨[], rfl⟩
      | some x =>
        cases hexVal? b with
        | none => exact ⟨[], rfl⟩
        | some y => exact ⟨(x * 16 + y) :: r, by simp [hr]⟩
    | [], hl => simp at hl
    | [_], hl => simp at hl; omega

theorem hexDecode_evenHex (l : List Nat) (h : EvenHex l) : ∃ r, hexDecode l = .ok r :=
  hexDecode_even (l.length / 2) l (by have := h.1; omega)

theorem inRanges_hex (b : UInt8) (h : inRanges [(48, 57), (65, 70), (97, 102)] b = true) : IsHex b.toNat := by
  simp [inRanges, UInt8.le_iff_toNat_le] at h
  unfold IsHex
  omega

theorem hexPair_nat (u : List UInt8) (h : hexPair.Matches u) : EvenHex (natBytes u) := by
  unfold hexPair at h
  obtain ⟨u1, v, rfl, h1, h2⟩ := matches_seq_cons.mp h
  rw [matches_seq_one] at h2
  obtain ⟨a, rfl, ha⟩ := matches_pred.mp h1
  obtain ⟨b, rfl, hb⟩ := matches_pred.mp h2
  refine ⟨by simp [natBytes], ?_⟩
  intro x hx
  simp only [natBytes, List.cons_append, List.nil_append, List.map_cons, List.map_nil, List.mem_cons,
    List.not_mem_nil, or_false] at hx
  rcases hx with rfl | rfl
  · exact inRanges_hex a ha
  · exact inRanges_hex b hb

theorem evenHex_append {a b : List Nat} (ha : EvenHex a) (hb : EvenHex b) : EvenHex (a ++ b) := by
  refine ⟨by have := ha.1; have := hb.1; simp only [List.length_append]; omega, ?_⟩
  intro x hx
  rcases List.mem_append.mp hx with h | h
  · exact ha.2 x h
  · exact hb.2 x h

theorem plus_hexPair_nat (u : List UInt8) (h : (Re.plus hexPair).Matches u) : EvenHex (natBytes u) := by
  generalize he : Re.plus hexPair = e at h
  induction h with
  | plusOne h1 _ => cases he; exact hexPair_nat _ h1
  | plusMore h1 _ _ ih2 =>
    cases he
    rw [natBytes_append]
    exact evenHex_append (hexPair_nat _ h1) (ih2 rfl)
  | _ => cases he

theorem evenHex_no (sep : Nat) (hs : sep = 59 ∨ sep = 61) (l : List Nat) (h : EvenHex l) : sep ∉ l := by
  intro hm
  have := h.2 sep hm
  unfold IsHex at this
  omega

/-- `name=value` with an even number of hex digits on both sides -/
def KV (c : List Nat) : Prop := ∃ k v, c = k ++ 61 :: v ∧ EvenHex k ∧ EvenHex v

theorem natBytes_lit1 (x : Nat) (hx : x < 256) : natBytes (bytes [x]) = [x] := natBytes_bytes [x] (by simpa using hx)

theorem termcapKV_nat (u : List UInt8) (h : termcapKV.Matches u) : KV (natBytes u) := by
  unfold termcapKV at h
  obtain ⟨u1, r1, rfl, h1, g1⟩ := matches_seq_cons.mp h
  obtain ⟨u2, r2, rfl, h2, g2⟩ := matches_seq_cons.mp g1
  rw [matches_seq_one] at g2
  have e2 : u2 = bytes [61] := matches_lit.mp h2
  subst e2
  refine ⟨natBytes u1, natBytes r2, ?_, plus_hexPair_nat _ h1, plus_hexPair_nat _ g2⟩
  rw [natBytes_append, natBytes_append, natBytes_lit1 61 (by omega)]
  rfl

/-- `(sep e)*` as a list of pieces -/
theorem star_sep_nat (e : Re) (P : List Nat → Prop) (hP : ∀ u, e.Matches u → P (natBytes u)) (u : List UInt8)
    (h : (Re.star (.seq [lit [59], e])).Matches u) :
    ∃ cs, natBytes u = tailJoin 59 cs ∧ ∀ c ∈ cs, P c := by
  generalize he : Re.star (.seq [lit [59], e]) = s at h
  induction h with
  | starNil => exact ⟨[], by simp [natBytes, tailJoin], by simp⟩
  | starMore h1 _ _ ih2 =>
    cases he
    obtain ⟨cs, hcs, hall⟩ := ih2 rfl
    obtain ⟨a, b, rfl, ha, hb⟩ := matches_seq_cons.mp h1
    rw [matches_seq_one] at hb
    have ea : a = bytes [59] := matches_lit.mp ha
    subst ea
    refine ⟨natBytes b :: cs, ?_, ?_⟩
    · rw [natBytes_append, natBytes_append, natBytes_lit1 59 (by omega), hcs]
      simp [tailJoin]
    · intro c hc
      rcases List.mem_cons.mp hc with rfl | hc
      · exact hP _ hb
      · exact hall c hc
  | _ => cases he

/-- `(e (sep e)*)?` as a list of pieces: empty, or a non-empty `sep`-joined list -/
theorem opt_list_nat (e : Re) (P : List Nat → Prop) (hP : ∀ u, e.Matches u → P (natBytes u)) (u : List UInt8)
    (h : (Re.opt (.seq [e, .star (.seq [lit [59], e])])).Matches u) :
    natBytes u = [] ∨ ∃ c cs, natBytes u = joinWith 59 (c :: cs) ∧ ∀ x ∈ c :: cs, P x := by
  rcases matches_opt.mp h with rfl | h
  · exact Or.inl rfl
  · obtain ⟨a, b, rfl, ha, hb⟩ := matches_seq_cons.mp h
    rw [matches_seq_one] at hb
    obtain ⟨cs, hcs, hall⟩ := star_sep_nat e P hP b hb
    refine Or.inr ⟨natBytes a, cs, ?_, ?_⟩
    · rw [natBytes_append, hcs, joinWith_cons_tail]
    · intro x hx
      rcases List.mem_cons.mp hx with rfl | hx
      · exact hP _ ha
      · exact hall x hx

theorem termcapPairs_ok (pairs : List (List Nat × List Nat)) (h : ∀ p ∈ pairs, EvenHex p.1 ∧ EvenHex p.2)
    (m : List (List Nat × Option (List Nat))) : ∃ r, termcapPairs pairs m = .ok r := by
  induction pairs generalizing m with
  | nil => exact ⟨m, rfl⟩
  | cons p rest ih =>
    obtain ⟨k, v⟩ := p
    have hp := h (k, v) (List.mem_cons_self ..)
    obtain ⟨rk, hk⟩ := hexDecode_evenHex k hp.1
    obtain ⟨rv, hv⟩ := hexDecode_evenHex v hp.2
    simp only [termcapPairs, hk, hv]
    exact ih (fun q hq => h q (List.mem_cons_of_mem _ hq)) _

theorem termcapNames_ok (names : List (List Nat)) (h : ∀ n ∈ names, EvenHex n)
    (m : List (List Nat × Option (List Nat))) : ∃ r, termcapNames names m = .ok r := by
  induction names generalizing m with
  | nil => exact ⟨m, rfl⟩
  | cons n rest ih =>
    obtain ⟨rk, hk⟩ := hexDecode_evenHex n (h n (List.mem_cons_self ..))
    simp only [termcapNames, hk]
    exact ih (fun q hq => h q (List.mem_cons_of_mem _ hq)) _

/-- the success body: `key_value_decode` finds pairs of even hex strings only -/
theorem termcap_pairs_body (body : List UInt8)
    (h : (Re.opt (.seq [termcapKV, .star (.seq [lit [59], termcapKV])])).Matches body) :
    ∃ r, termcapPairs (keyValueDecode 59 (natBytes body)) [] = .ok r := by
  rcases opt_list_nat termcapKV KV termcapKV_nat body h with h0 | ⟨c, cs, hj, hall⟩
  · rw [h0, keyValueDecode_nil]; exact ⟨[], rfl⟩
  · -- choose the pairs
    have hex : ∀ l : List (List Nat), (∀ x ∈ l, KV x) →
        ∃ ps : List (List Nat × List Nat), l = ps.map (fun p => p.1 ++ 61 :: p.2) ∧ ∀ p ∈ ps, EvenHex p.1 ∧ EvenHex p.2 := by
      intro l
      induction l with
      | nil => intro _; exact ⟨[], rfl, by simp⟩
      | cons x xs ih =>
        intro hx
        obtain ⟨k, v, rfl, hk, hv⟩ := hx _ (List.mem_cons_self ..)
        obtain ⟨ps, rfl, hps⟩ := ih (fun y hy => hx y (List.mem_cons_of_mem _ hy))
        refine ⟨(k, v) :: ps, rfl, ?_⟩
        intro p hp
        rcases List.mem_cons.mp hp with rfl | hp
        · exact ⟨hk, hv⟩
        · exact hps p hp
    obtain ⟨ps, hps, heven⟩ := hex (c :: cs) hall
    rw [hj, hps, keyValueDecode_joinWith 59 ps ?_ (by omega)]
    · exact termcapPairs_ok ps heven []
    · intro p hp
      have := heven p hp
      exact ⟨evenHex_no 59 (Or.inl rfl) _ this.1, evenHex_no 61 (Or.inr rfl) _ this.1, evenHex_no 59 (Or.inl rfl) _ this.2⟩

/-- the failure body: every name is an even hex string -/
theorem termcap_names_body (body : List UInt8)
    (h : (Re.opt (.seq [.plus hexPair, .star (.seq [lit [59], .plus hexPair])])).Matches body) :
    ∃ r, termcapNames (splitBy 59 (natBytes body)) [] = .ok r := by
  rcases opt_list_nat (.plus hexPair) EvenHex plus_hexPair_nat body h with h0 | ⟨c, cs, hj, hall⟩
  · rw [h0]
    exact termcapNames_ok _ (by intro n hn; simp [splitBy] at hn; subst hn; exact ⟨rfl, by simp⟩) []
  · rw [hj, splitBy_joinWith 59 _ (by simp) (fun x hx => evenHex_no 59 (Or.inl rfl) _ (hall x hx))]
    exact termcapNames_ok _ hall []

theorem decodeTermcap_total (w : List UInt8) (h : termcapRe.Matches w) : decodeTermcap (natBytes w) ≠ .error .panic := by
  unfold termcapRe at h
  obtain ⟨a, b, rfl, ha, hb⟩ := matches_seq_cons.mp h
  rw [matches_seq_one] at hb
  have eb : b = bytes [27, 92] := matches_lit.mp hb
  subst eb
  obtain ⟨alt, halt, ha⟩ := matches_alt.mp ha
  simp only [List.mem_cons, List.not_mem_nil, or_false] at halt
  have frame : ∀ (c : Nat) (body : List UInt8), c < 256 →
      natBytes (bytes [27, 80, c, 43, 114] ++ body ++ bytes [27, 92]) = 27 :: 80 :: c :: 43 :: 114 :: (natBytes body ++ [27, 92]) := by
    intro c body hc
    rw [natBytes_append, natBytes_append, natBytes_bytes [27, 92] (by intro b hb; simp at hb; omega),
      natBytes_bytes [27, 80, c, 43, 114] (by intro b hb; simp at hb; omega)]
    simp
  have run : ∀ (c : Nat) (body : List UInt8), c < 256 →
      decodeTermcap (27 :: 80 :: c :: 43 :: 114 :: (natBytes body ++ [27, 92])) =
        match (if c = 49 then termcapPairs (keyValueDecode 59 (natBytes body)) [] else termcapNames (splitBy 59 (natBytes body)) []) with
        | .error e => .error e
        | .ok m => .ok (some (.termcap m)) := by
    intro c body _
    unfold decodeTermcap
    simp only [index?, List.getElem?_cons_succ, List.getElem?_cons_zero]
    rw [sub?_ok' (by simp)]
    simp only
    rw [slice?_ok (by simp) (by simp)]
    simp
    rfl
  rcases halt with rfl | rfl
  · obtain ⟨p, body, rfl, hp, hbody⟩ := matches_seq_cons.mp ha
    rw [matches_seq_one] at hbody
    have ep : p = bytes [27, 80, 49, 43, 114] := matches_lit.mp hp
    subst ep
    rw [frame 49 body (by omega), run 49 body (by omega)]
    obtain ⟨r, hr⟩ := termcap_pairs_body body hbody
    simp [hr]
  · obtain ⟨p, body, rfl, hp, hbody⟩ := matches_seq_cons.mp ha
    rw [matches_seq_one] at hbody
    have ep : p = bytes [27, 80, 48, 43, 114] := matches_lit.mp hp
    subst ep
    rw [frame 48 body (by omega), run 48 body (by omega)]
    obtain ⟨r, hr⟩ := termcap_names_body body hbody
    simp [hr]

/-! ## terminal size -/

theorem number_nat (u : List UInt8) (h : number.Matches u) : ∀ b ∈ natBytes u, 48 ≤ b ∧ b ≤ 57 := by
  unfold number digit at h
  have := (matches_plus_pred h).2
  intro b hb
  obtain ⟨x, hx, rfl⟩ := List.mem_map.mp hb
  have := this x hx
  simp [inRanges, UInt8.le_iff_toNat_le] at this
  exact this

theorem sizeTail_nat (u : List UInt8) (h : sizeTail.Matches u) : 27 ∉ natBytes u ∧ 5 ≤ (natBytes u).length := by
  have hlen : 5 ≤ u.length := by
    have := matches_minLen h
    simpa [sizeTail, number, digit, lit, bytes, minLen, minLenSeq] using this
  refine ⟨?_, by rw [natBytes_length]; exact hlen⟩
  unfold sizeTail at h
  obtain ⟨a1, r1, rfl, h1, g1⟩ := matches_seq_cons.mp h
  obtain ⟨a2, r2, rfl, h2, g2⟩ := matches_seq_cons.mp g1
  obtain ⟨a3, r3, rfl, h3, g3⟩ := matches_seq_cons.mp g2
  obtain ⟨a4, r4, rfl, h4, g4⟩ := matches_seq_cons.mp g3
  rw [matches_seq_one] at g4
  have e1 : a1 = bytes [59] := matches_lit.mp h1
  have e3 : a3 = bytes [59] := matches_lit.mp h3
  have e5 : r4 = bytes [116] := matches_lit.mp g4
  subst e1 e3 e5
  intro hm
  simp only [natBytes_append, List.mem_append, natBytes_lit1 59 (by omega), natBytes_lit1 116 (by omega),
    List.mem_singleton] at hm
  rcases hm with hm | hm | hm | hm | hm
  · omega
  · have := number_nat _ h2 27 hm; omega
  · omega
  · have := number_nat _ h4 27 hm; omega
  · omega

theorem sizePair_ok (chunk : List Nat) (h : 4 ≤ chunk.length) : ∃ r, sizePair chunk = .ok r := by
  unfold sizePair
  rw [sub?_ok' (by omega)]
  simp only
  rw [slice?_ok (by omega) (by omega)]
  simp only
  split
  · exact ⟨_, rfl⟩
  · exact ⟨_, rfl⟩

theorem decodeTermSize_total (w : List UInt8) (h : termSizeRe.Matches w) : decodeTermSize (natBytes w) ≠ .error .panic := by
  unfold termSizeRe at h
  obtain ⟨a1, r1, rfl, h1, g1⟩ := matches_seq_cons.mp h
  obtain ⟨t1, r2, rfl, h2, g2⟩ := matches_seq_cons.mp g1
  obtain ⟨a3, r3, rfl, h3, g3⟩ := matches_seq_cons.mp g2
  rw [matches_seq_one] at g3
  have e1 : a1 = bytes [27, 91, 56] := matches_lit.mp h1
  have e3 : a3 = bytes [27, 91, 52] := matches_lit.mp h3
  subst e1 e3
  obtain ⟨n1, l1⟩ := sizeTail_nat t1 h2
  obtain ⟨n2, l2⟩ := sizeTail_nat r3 g3
  have hshape : natBytes (bytes [27, 91, 56] ++ (t1 ++ (bytes [27, 91, 52] ++ r3))) =
      27 :: ((91 :: 56 :: natBytes t1) ++ 27 :: (91 :: 52 :: natBytes r3)) := by
    rw [natBytes_append, natBytes_append, natBytes_append,
      natBytes_bytes [27, 91, 56] (by intro b hb; simp at hb; omega),
      natBytes_bytes [27, 91, 52] (by intro b hb; simp at hb; omega)]
    simp
  rw [hshape]
  have hsplit : splitBy 27 (27 :: ((91 :: 56 :: natBytes t1) ++ 27 :: (91 :: 52 :: natBytes r3))) =
      [[], 91 :: 56 :: natBytes t1, 91 :: 52 :: natBytes r3] := by
    rw [splitBy]
    simp only [if_true]
    rw [splitBy_append_sep 27 _ _ (by simp only [List.mem_cons, not_or]; exact ⟨by omega, by omega, n1⟩),
      splitBy_no_sep 27 _ (by simp only [List.mem_cons, not_or]; exact ⟨by omega, by omega, n2⟩)]
  unfold decodeTermSize
  rw [hsplit]
  simp only
  obtain ⟨ra, ha⟩ := sizePair_ok (91 :: 56 :: natBytes t1) (by simp only [List.length_cons]; omega)
  obtain ⟨rb, hb⟩ := sizePair_ok (91 :: 52 :: natBytes r3) (by simp only [List.length_cons]; omega)
  rw [ha]
  cases ra with
  | none => simp
  | some p =>
    obtain ⟨ch, cw⟩ := p
    simp only [hb]
    cases rb with
    | none => simp
    | some q => simp

/-! ## UTF-8 -/

open SurfProofs.Utf8 in
/-- Part A over numbers: on a row of Table 3-7 the arithmetic of `utf8_decode` yields a scalar value (so the
    debug assertion of `from_u32_unchecked` holds), whose standard encoding is the row -/
theorem table_decode_nat (mode : Nat) (l : List Nat) (h : Table37 mode l) :
    ∃ c, SurfModel.Payload.utf8Decode l = .ok c ∧ SurfProofs.Utf8.Scalar c ∧ SurfModel.Vt.utf8 c = l := by
  have hs : ∀ c, SurfProofs.Utf8.Scalar c → SurfModel.Payload.isScalar c = true := by
    intro c hc
    unfold SurfProofs.Utf8.Scalar at hc
    simp [SurfModel.Payload.isScalar]
    omega
  match l, h with
  | [a], h =>
    simp only [Table37] at h
    have h7 : a ≤ 0x7F := by
      unfold OneByte at h
      split at h <;> omega
    have hsc : SurfProofs.Utf8.Scalar (a % 128) := by unfold SurfProofs.Utf8.Scalar; omega
    refine ⟨a % 128, by simp [SurfModel.Payload.utf8Decode, hs _ hsc], hsc, ?_⟩
    unfold SurfModel.Vt.utf8
    rw [if_pos (by omega)]
    simp; omega
  | [a, b], h =>
    simp only [Table37, Cont] at h
    have hsc : SurfProofs.Utf8.Scalar (a % 32 * 64 + b % 64) := by unfold SurfProofs.Utf8.Scalar; omega
    refine ⟨_, by simp [SurfModel.Payload.utf8Decode, hs _ hsc], hsc, ?_⟩
    unfold SurfModel.Vt.utf8
    rw [if_neg (by omega), if_pos (by omega)]
    simp; omega
  | [a, b, c], h =>
    simp only [Table37, Cont] at h
    have hsc : SurfProofs.Utf8.Scalar ((a % 16 * 64 + b % 64) * 64 + c % 64) := by unfold SurfProofs.Utf8.Scalar; omega
    refine ⟨_, by simp [SurfModel.Payload.utf8Decode, hs _ hsc], hsc, ?_⟩
    unfold SurfModel.Vt.utf8
    rw [if_neg (by omega), if_neg (by omega), if_pos (by omega)]
    simp; omega
  | [a, b, c, d], h =>
    simp only [Table37, Cont] at h
    have hsc : SurfProofs.Utf8.Scalar (((a % 8 * 64 + b % 64) * 64 + c % 64) * 64 + d % 64) := by unfold SurfProofs.Utf8.Scalar; omega
    refine ⟨_, by simp [SurfModel.Payload.utf8Decode, hs _ hsc], hsc, ?_⟩
    unfold SurfModel.Vt.utf8
    rw [if_neg (by omega), if_neg (by omega), if_neg (by omega)]
    simp; omega
  | [], h => simp [Table37] at h
  | _ :: _ :: _ :: _ :: _ :: _, h => simp [Table37] at h

/-- the grammar of C04's transcription is the one of `SurfModel.Utf8` -/
theorem grammar_utf8Re_eq (mode : Nat) : SurfModel.Grammar.utf8Re mode = SurfModel.Utf8.utf8Re mode := by
  match mode with
  | 0 => rfl
  | 1 => rfl
  | _ + 2 => rfl

theorem utf8_payload (mode : Nat) (w : List UInt8) (h : (SurfModel.Grammar.utf8Re mode).Matches w) :
    ∃ c, SurfModel.Payload.utf8Decode (natBytes w) = .ok c ∧ SurfProofs.Utf8.Scalar c ∧
      SurfModel.Vt.utf8 c = natBytes w := by
  rw [grammar_utf8Re_eq] at h
  exact table_decode_nat mode _ ((SurfProofs.Utf8.utf8Re_matches_iff mode w).mp h)

theorem decodeUtf8_total (w : List UInt8) (h : utf8PrintableRe.Matches w) : decodeUtf8 (natBytes w) ≠ .error .panic := by
  obtain ⟨c, hc, _, _⟩ := utf8_payload 1 w h
  simp [decodeUtf8, hc]

end SurfProofs.PayloadTotal
