import SurfModel.Automata
import SurfProofs.Lemmas.ReMatch
/-!
Length and framing lemmas for regular expressions (used by C02 to show that no payload decoder indexes outside
the token its own grammar accepted):

* `Re.minLen` — a lower bound on the length of every word an expression matches (`matches_minLen`);
* `matches_seq_lit` / `matches_seq_end` — a sequence that starts (ends) with a literal matches only words that
  start (end) with the literal;
* `matches_plus_pred` / `matches_star_pred` — words of `pred+` / `pred*` are made of bytes of the class.
-/
namespace SurfProofs.ReLen
open SurfModel.Automata SurfProofs.ReMatch

mutual
/-- lower bound on the length of a word the expression matches -/
def minLen : Re → Nat
  | .lit s => s.length
  | .pred _ => 1
  | .seq es => minLenSeq es
  | .alt es => minLenAlt es
  | .opt _ => 0
  | .plus e => minLen e
  | .star _ => 0
  | .empty => 0
  | .nothing => 0
  | .tag _ e => minLen e
def minLenSeq : List Re → Nat
  | [] => 0
  | e :: es => minLen e + minLenSeq es
def minLenAlt : List Re → Nat
  | [] => 0
  | [e] => minLen e
  | e :: e' :: es => min (minLen e) (minLenAlt (e' :: es))
end

theorem minLenAlt_le (es : List Re) (e : Re) (h : e ∈ es) : minLenAlt es ≤ minLen e := by
  induction es with
  | nil => cases h
  | cons a rest ih =>
    cases rest with
    | nil =>
      simp only [List.mem_singleton] at h
      subst h
      simp [minLenAlt]
    | cons b rest' =>
      simp only [minLenAlt]
      rcases List.mem_cons.mp h with rfl | h
      · exact Nat.min_le_left _ _
      · exact Nat.le_trans (Nat.min_le_right _ _) (ih h)

/-- every word an expression matches has at least `minLen` bytes -/
theorem matches_minLen {e : Re} {w : List UInt8} (h : e.Matches w) : minLen e ≤ w.length := by
  induction h with
  | lit s => simp [minLen]
  | pred _ => simp [minLen]
  | seqNil => simp [minLen, minLenSeq]
  | seqCons _ _ ih1 ih2 =>
    simp only [minLen, minLenSeq, List.length_append] at *
    omega
  | alt hm _ ih =>
    simp only [minLen]
    exact Nat.le_trans (minLenAlt_le _ _ hm) ih
  | optNone => simp [minLen]
  | optSome _ _ => simp [minLen]
  | plusOne _ ih => simpa [minLen] using ih
  | plusMore _ _ ih1 _ =>
    simp only [minLen, List.length_append] at *
    omega
  | starNil => simp [minLen]
  | starMore _ _ _ _ => simp [minLen]
  | empty => simp [minLen]
  | tag _ ih => simpa [minLen] using ih

/-- a sequence that starts with a literal -/
theorem matches_seq_lit {p : List UInt8} {es : List Re} {w : List UInt8} (h : (Re.seq (.lit p :: es)).Matches w) :
    ∃ v, w = p ++ v ∧ (Re.seq es).Matches v := by
  obtain ⟨u, v, rfl, h1, h2⟩ := matches_seq_cons.mp h
  rw [matches_lit.mp h1]
  exact ⟨v, rfl, h2⟩

/-- a sequence of exactly one more expression -/
theorem matches_seq_one {e : Re} {w : List UInt8} : (Re.seq [e]).Matches w ↔ e.Matches w := by
  rw [matches_seq_cons]
  constructor
  · rintro ⟨u, v, rfl, h1, h2⟩
    rw [matches_seq_nil.mp h2]
    simpa using h1
  · intro h
    exact ⟨w, [], by simp, h, matches_seq_nil.mpr rfl⟩

/-- words of `pred+` are non-empty and made of bytes of the class -/
theorem matches_plus_pred {rs : List (UInt8 × UInt8)} {w : List UInt8} (h : (Re.plus (.pred rs)).Matches w) :
    w ≠ [] ∧ ∀ b ∈ w, inRanges rs b = true := by
  generalize he : Re.plus (.pred rs) = e at h
  induction h with
  | plusOne h1 _ =>
    cases he
    obtain ⟨b, rfl, hb⟩ := matches_pred.mp h1
    exact ⟨by simp, by simpa using hb⟩
  | plusMore h1 _ _ ih2 =>
    cases he
    obtain ⟨b, rfl, hb⟩ := matches_pred.mp h1
    have := ih2 rfl
    refine ⟨by simp, ?_⟩
    intro x hx
    simp only [List.cons_append, List.nil_append, List.mem_cons] at hx
    rcases hx with rfl | hx
    · exact hb
    · exact this.2 x hx
  | _ => cases he

/-- words of `pred*` are made of bytes of the class -/
theorem matches_star_pred {rs : List (UInt8 × UInt8)} {w : List UInt8} (h : (Re.star (.pred rs)).Matches w) :
    ∀ b ∈ w, inRanges rs b = true := by
  generalize he : Re.star (.pred rs) = e at h
  induction h with
  | starNil => simp
  | starMore h1 _ _ ih2 =>
    cases he
    obtain ⟨b, rfl, hb⟩ := matches_pred.mp h1
    have := ih2 rfl
    intro x hx
    simp only [List.cons_append, List.nil_append, List.mem_cons] at hx
    rcases hx with rfl | hx
    · exact hb
    · exact this x hx
  | _ => cases he

end SurfProofs.ReLen
