import SurfProofs.Lemmas.QuantOct
/-!
# C13 helper lemmas — invariants of the octree under `insert`, `prune_rec`, `prune`, `prune_until`

* `Inv`: every `Tree` node has a summary with `min_color_count = Some _`, at least one actual leaf
  below it, and a `leaf_count` that does not under-count (a stale summary only over-counts); every
  leaf has `color_count ≥ 1`.
* `RootInv`: the same for the root, plus: the root's `leaf_count` is at most what its slots can
  account for when a slot without a `Tree` counts 1 — so `leaf_count > 8` forces a `Tree` child.
-/
namespace SurfProofs.QuantOct
open SurfModel.Quant

theorem forall_fin8 (P : Fin 8 → Prop) :
    (∀ i, P i) ↔ P 0 ∧ P 1 ∧ P 2 ∧ P 3 ∧ P 4 ∧ P 5 ∧ P 6 ∧ P 7 := by
  constructor
  · intro h; exact ⟨h 0, h 1, h 2, h 3, h 4, h 5, h 6, h 7⟩
  · rintro ⟨h0, h1, h2, h3, h4, h5, h6, h7⟩ i
    fin8_cases i <;> assumption

theorem node_cases (n : Node) :
    n = .empty ∨ (∃ l, n = .leaf l) ∨ ∃ info removed cs, n = Node.mkTree info removed cs := by
  cases n with
  | empty => exact Or.inl rfl
  | leaf l => exact Or.inr (Or.inl ⟨l, rfl⟩)
  | tree info removed c0 c1 c2 c3 c4 c5 c6 c7 =>
    exact Or.inr (Or.inr ⟨info, removed, ⟨c0, c1, c2, c3, c4, c5, c6, c7⟩, rfl⟩)

theorem sel8_eq {α : Type} (f : Node → α) (c0 c1 c2 c3 c4 c5 c6 c7 : Node) (i : Fin 8) :
    sel8 i (fun _ => f c0) (fun _ => f c1) (fun _ => f c2) (fun _ => f c3) (fun _ => f c4)
      (fun _ => f c5) (fun _ => f c6) (fun _ => f c7) = f ((Ch.mk c0 c1 c2 c3 c4 c5 c6 c7).get i) := by
  fin8_cases i <;> rfl

theorem match_map {α β : Type} (x : Option α) (f : α → β) :
    (match x with | none => none | some c => some (f c)) = x.map f := by cases x <;> rfl

/-! ### `prune_rec` case by case -/

theorem pruneRec_none (info removed cs) (h : argminColorCount cs = none) :
    pruneRec (Node.mkTree info removed cs) = some (.leaf removed) := by
  obtain ⟨c0, c1, c2, c3, c4, c5, c6, c7⟩ := cs
  simp only [Node.mkTree, pruneRec, h]

theorem pruneRec_empty (info removed cs index) (h : argminColorCount cs = some index)
    (he : cs.get index = .empty) : pruneRec (Node.mkTree info removed cs) = none := by
  obtain ⟨c0, c1, c2, c3, c4, c5, c6, c7⟩ := cs
  simp only [Node.mkTree, pruneRec, h, he]

theorem pruneRec_leaf (info removed cs index leaf) (h : argminColorCount cs = some index)
    (hl : cs.get index = .leaf leaf) :
    pruneRec (Node.mkTree info removed cs) = some (pruneLeafArm info removed cs index leaf) := by
  obtain ⟨c0, c1, c2, c3, c4, c5, c6, c7⟩ := cs
  simp only [Node.mkTree, pruneRec, h, hl]

theorem pruneRec_tree (info removed cs index i2 r2 d) (h : argminColorCount cs = some index)
    (ht : cs.get index = Node.mkTree i2 r2 d) :
    pruneRec (Node.mkTree info removed cs) =
      (pruneRec (cs.get index)).map (pruneTreeArm info removed cs index) := by
  obtain ⟨c0, c1, c2, c3, c4, c5, c6, c7⟩ := cs
  have hs := sel8_eq pruneRec c0 c1 c2 c3 c4 c5 c6 c7 index
  simp only [Node.mkTree] at ht
  show pruneRec (Node.tree info removed c0 c1 c2 c3 c4 c5 c6 c7) = _
  rw [pruneRec]
  simp only [h, ht, hs]
  cases pruneRec (Node.tree i2 r2 d.c0 d.c1 d.c2 d.c3 d.c4 d.c5 d.c6 d.c7) <;> rfl

theorem toNode_nodeUpdate (info removed cs index child) :
    ((OcTree.mk info removed cs).nodeUpdate index child).toNode =
      Node.mkTree (fromSlice (cs.set index child)) removed (cs.set index child) := rfl

/-! ### the invariant -/

def Inv : Node → Prop
  | .empty => True
  | .leaf l => 1 ≤ l.colorCount
  | .tree info _ c0 c1 c2 c3 c4 c5 c6 c7 =>
    info.minColorCount.isSome = true ∧
    1 ≤ al c0 + al c1 + al c2 + al c3 + al c4 + al c5 + al c6 + al c7 ∧
    al c0 + al c1 + al c2 + al c3 + al c4 + al c5 + al c6 + al c7 ≤ info.leafCount ∧
    Inv c0 ∧ Inv c1 ∧ Inv c2 ∧ Inv c3 ∧ Inv c4 ∧ Inv c5 ∧ Inv c6 ∧ Inv c7

theorem inv_mkTree (info removed cs) :
    Inv (Node.mkTree info removed cs) ↔
      info.minColorCount.isSome = true ∧ 1 ≤ sum8 (fun i => al (cs.get i)) ∧
      sum8 (fun i => al (cs.get i)) ≤ info.leafCount ∧ ∀ i, Inv (cs.get i) := by
  rw [forall_fin8]; exact Iff.rfl

theorem inv_al_le (n : Node) (h : Inv n) : al n ≤ claimed n := by
  rcases node_cases n with rfl | ⟨l, rfl⟩ | ⟨info, removed, cs, rfl⟩
  · simp [claimed, nodeInfo, Info.empty]
  · simp [claimed, nodeInfo]
  · rw [al_mkTree]; exact ((inv_mkTree _ _ _).mp h).2.2.1

theorem inv_nonempty (n : Node) (h : Inv n) (hne : n ≠ .empty) : 1 ≤ al n ∧ hasMin n := by
  rcases node_cases n with rfl | ⟨l, rfl⟩ | ⟨info, removed, cs, rfl⟩
  · exact absurd rfl hne
  · exact ⟨by simp, hasMin_leaf l⟩
  · obtain ⟨h1, h2, _, _⟩ := (inv_mkTree _ _ _).mp h
    exact ⟨by rw [al_mkTree]; exact h2, by simpa [hasMin] using h1⟩

theorem al_pos_ne_empty (n : Node) (h : 1 ≤ al n) : n ≠ .empty := by
  rintro rfl; simp at h

theorem hasMin_ne_empty (n : Node) (h : hasMin n) : n ≠ .empty := by
  rintro rfl; exact not_hasMin_empty h

theorem inv_leaves (n : Node) : Inv n → ∀ l ∈ n.leaves, 1 ≤ l.colorCount := by
  induction n using node_ind with
  | hempty => intro _ l hl; simp [Node.leaves] at hl
  | hleaf l0 => intro h l hl; simp [Node.leaves] at hl; subst hl; exact h
  | htree info removed cs ih =>
    intro h l hl
    obtain ⟨i, hi⟩ := (mem_leaves_mkTree _ _ _ _).mp hl
    exact ih i (((inv_mkTree _ _ _).mp h).2.2.2 i) l hi

/-- some slot holds a node with a summary, as soon as there is an actual leaf -/
theorem exists_hasMin (cs : Ch) (hch : ∀ i, Inv (cs.get i)) (hpos : 1 ≤ sum8 fun i => al (cs.get i)) :
    ∃ i, hasMin (cs.get i) := by
  obtain ⟨i, hi⟩ := (sum8_pos _).mp hpos
  exact ⟨i, (inv_nonempty _ (hch i) (al_pos_ne_empty _ hi)).2⟩

theorem inv_set (cs : Ch) (index : Fin 8) (n : Node) (hch : ∀ i, Inv (cs.get i)) (hn : Inv n) :
    ∀ i, Inv ((cs.set index n).get i) := by
  intro i; rw [get_set]; split
  · exact hn
  · exact hch i

/-- storing a non-empty child and recomputing the summary re-establishes the invariant -/
theorem inv_update (cs : Ch) (index : Fin 8) (child : Node) (removed : Leaf)
    (hch : ∀ i, Inv (cs.get i)) (hc : Inv child) (hne : child ≠ .empty) :
    Inv (Node.mkTree (fromSlice (cs.set index child)) removed (cs.set index child)) := by
  have hch' := inv_set cs index child hch hc
  obtain ⟨hcal, hcmin⟩ := inv_nonempty child hc hne
  rw [inv_mkTree]
  refine ⟨?_, ?_, ?_, hch'⟩
  · exact (fromSlice_min _).mpr ⟨index, by simpa using hcmin⟩
  · exact (sum8_pos _).mpr ⟨index, by simpa using hcal⟩
  · rw [fromSlice_leafCount]
    exact sum8_le_sum8 _ _ fun i => inv_al_le _ (hch' i)

theorem addLeaf_count (a b : Leaf) : (a.addLeaf b).colorCount = a.colorCount + b.colorCount := rfl

/-- `prune_rec` on a tree that satisfies the invariant: no panic, the result is a leaf or a tree that
    satisfies the invariant again, and it is smaller -/
theorem pruneRec_spec (n : Node) :
    Inv n → (∃ info removed cs, n = Node.mkTree info removed cs) →
      ∃ n', pruneRec n = some n' ∧ Inv n' ∧ n' ≠ .empty ∧ n'.size < n.size := by
  induction n using node_ind with
  | hempty => rintro _ ⟨i, r, cs, h⟩; exact absurd h.symm (mkTree_ne_empty _ _ _)
  | hleaf l => rintro _ ⟨i, r, cs, h⟩; simp [Node.mkTree] at h
  | htree info removed cs ih =>
    intro hinv _
    obtain ⟨hmin, hpos, hle, hch⟩ := (inv_mkTree _ _ _).mp hinv
    obtain ⟨index, hidx⟩ := argmin_isSome cs (exists_hasMin cs hch hpos)
    have hm := argmin_some cs index hidx
    have hal := sum8_set al cs index
    have hsz := sum8_set Node.size cs index
    rcases node_cases (cs.get index) with he | ⟨leaf, hl⟩ | ⟨i2, r2, d, ht⟩
    · exact absurd he (hasMin_ne_empty _ hm)
    · rw [pruneRec_leaf _ _ _ _ _ hidx hl]
      refine ⟨_, rfl, ?_⟩
      have hlc : 1 ≤ leaf.colorCount := by have := hch index; rw [hl] at this; exact this
      have hal' := hal .empty; have hsz' := hsz .empty
      rw [hl] at hal' hsz'
      simp only [al_empty, al_leaf, size_empty, size_leaf] at hal' hsz'
      unfold pruneLeafArm
      by_cases hall : allEmpty (cs.set index .empty) = true
      · dsimp only; rw [if_pos hall]
        refine ⟨?_, by simp, ?_⟩
        · show 1 ≤ (removed.addLeaf leaf).colorCount
          rw [addLeaf_count]; omega
        · rw [size_mkTree]; simp only [size_leaf]; omega
      · dsimp only; rw [if_neg hall]
        have hch' := inv_set cs index .empty hch trivial
        refine ⟨?_, mkTree_ne_empty _ _ _, ?_⟩
        · rw [inv_mkTree]
          refine ⟨hmin, ?_, by omega, hch'⟩
          have : ¬ ∀ i, (cs.set index .empty).get i = .empty := fun h => hall ((allEmpty_iff _).mpr h)
          obtain ⟨j, hj⟩ := not_forall.mp this
          exact (sum8_pos _).mpr ⟨j, (inv_nonempty _ (hch' j) hj).1⟩
        · rw [size_mkTree, size_mkTree]; omega
    · obtain ⟨child, hc, hcinv, hcne, hcsize⟩ := ih index (hch index) ⟨i2, r2, d, ht⟩
      rw [pruneRec_tree _ _ _ _ _ _ _ hidx ht, hc]
      refine ⟨_, rfl, ?_⟩
      have hsz' := hsz child
      have hupd : Inv (Node.mkTree (fromSlice (cs.set index child)) removed (cs.set index child)) ∧
          (Node.mkTree (fromSlice (cs.set index child)) removed (cs.set index child)).size
            < (Node.mkTree info removed cs).size := by
        refine ⟨inv_update cs index child removed hch hcinv hcne, ?_⟩
        rw [size_mkTree, size_mkTree]; omega
      unfold pruneTreeArm
      rcases node_cases child with rfl | ⟨l, rfl⟩ | ⟨i3, r3, d3, rfl⟩
      · exact absurd rfl hcne
      · simp only [toNode_nodeUpdate, set_set]
        by_cases hall : allEmpty (cs.set index .empty) = true
        · rw [if_pos hall]
          refine ⟨?_, by simp, ?_⟩
          · show 1 ≤ (removed.addLeaf l).colorCount
            have : 1 ≤ l.colorCount := hcinv
            rw [addLeaf_count]; omega
          · rw [size_mkTree]; simp only [size_leaf]; omega
        · rw [if_neg hall]
          exact ⟨hupd.1, mkTree_ne_empty _ _ _, hupd.2⟩
      · simp only [Node.mkTree, toNode_nodeUpdate, set_set]
        exact ⟨hupd.1, mkTree_ne_empty _ _ _, hupd.2⟩

/-! ### the root -/

/-- what a slot can account for in the root summary: a `Tree` its stored count, anything else 1 -/
def slotClaim : Node → Nat
  | .tree info _ _ _ _ _ _ _ _ _ => info.leafCount
  | _ => 1

theorem claimed_le_slotClaim (n : Node) : claimed n ≤ slotClaim n := by
  cases n <;> simp [claimed, slotClaim, nodeInfo, Info.empty]

structure RootInv (t : OcTree) : Prop where
  ch : ∀ i, Inv (t.children.get i)
  pos : 1 ≤ sum8 fun i => al (t.children.get i)
  le : sum8 (fun i => al (t.children.get i)) ≤ t.info.leafCount
  slot : t.info.leafCount ≤ sum8 fun i => slotClaim (t.children.get i)

theorem size_root (t : OcTree) : t.size = 2 + sum8 fun i => (t.children.get i).size := size_mkTree _ _ _

theorem slotClaim_set_empty (cs : Ch) (index : Fin 8) (leaf : Leaf) (hl : cs.get index = .leaf leaf) :
    (sum8 fun i => slotClaim ((cs.set index .empty).get i)) = sum8 fun i => slotClaim (cs.get i) := by
  have := sum8_set slotClaim cs index .empty
  have e1 : slotClaim (Node.leaf leaf) = 1 := rfl
  have e2 : slotClaim .empty = 1 := rfl
  rw [hl, e1, e2] at this
  omega

/-- a root summary above 8 needs a `Tree` child -/
theorem exists_tree_child (t : OcTree) (h : RootInv t) (h8 : 8 < t.info.leafCount) :
    ∃ i info removed cs, t.children.get i = Node.mkTree info removed cs := by
  by_contra hc
  have h1 : ∀ i, slotClaim (t.children.get i) ≤ 1 := by
    intro i
    rcases node_cases (t.children.get i) with he | ⟨l, hl⟩ | ⟨info, removed, cs, ht⟩
    · rw [he]; simp [slotClaim]
    · rw [hl]; simp [slotClaim]
    · exact absurd ⟨i, info, removed, cs, ht⟩ hc
  have := sum8_le_sum8 _ (fun _ => 1) h1
  have hs := h.slot
  simp only [sum8] at this hs
  omega

theorem prune_leaf (t : OcTree) (index leaf) (h : argminColorCount t.children = some index)
    (hl : t.children.get index = .leaf leaf) :
    t.prune = some { t with removed := t.removed.addLeaf leaf, children := t.children.set index .empty } := by
  simp only [OcTree.prune, h, hl]

theorem prune_tree (t : OcTree) (index i2 r2 d) (h : argminColorCount t.children = some index)
    (ht : t.children.get index = Node.mkTree i2 r2 d) :
    t.prune = (pruneRec (t.children.get index)).map fun child =>
      { t with children := t.children.set index .empty }.nodeUpdate index child := by
  simp only [Node.mkTree] at ht
  simp only [OcTree.prune, h, ht]
  cases pruneRec (Node.tree i2 r2 d.c0 d.c1 d.c2 d.c3 d.c4 d.c5 d.c6 d.c7) <;> rfl

/-- one `prune()` while the root summary exceeds 8: no panic, invariant kept, progress made -/
theorem prune_spec (t : OcTree) (h : RootInv t) (h8 : 8 < t.info.leafCount) :
    ∃ t', t.prune = some t' ∧ RootInv t' ∧ t'.size < t.size := by
  obtain ⟨it, info0, removed0, cs0, htree⟩ := exists_tree_child t h h8
  have htmin : hasMin (t.children.get it) := by
    have := (inv_nonempty _ (h.ch it) (by rw [htree]; exact mkTree_ne_empty _ _ _)).2
    exact this
  obtain ⟨index, hidx⟩ := argmin_isSome t.children ⟨it, htmin⟩
  have hm := argmin_some t.children index hidx
  have hal := sum8_set al t.children index
  have hsz := sum8_set Node.size t.children index
  rcases node_cases (t.children.get index) with he | ⟨leaf, hl⟩ | ⟨i2, r2, d, ht⟩
  · exact absurd he (hasMin_ne_empty _ hm)
  · refine ⟨_, prune_leaf t index leaf hidx hl, ?_, ?_⟩
    · have hal' := hal .empty
      rw [hl] at hal'
      simp only [al_empty, al_leaf] at hal'
      have hch' := inv_set t.children index .empty h.ch trivial
      have hne : it ≠ index := by
        intro e; rw [e, hl] at htree; simp [Node.mkTree] at htree
      refine ⟨hch', ?_, ?_, ?_⟩
      · refine (sum8_pos _).mpr ⟨it, ?_⟩
        show 1 ≤ al ((t.children.set index .empty).get it)
        rw [get_set_ne _ _ _ _ hne]
        exact (inv_nonempty _ (h.ch it) (by rw [htree]; exact mkTree_ne_empty _ _ _)).1
      · have := h.le
        show sum8 (fun i => al ((t.children.set index .empty).get i)) ≤ t.info.leafCount
        omega
      · show t.info.leafCount ≤ sum8 fun i => slotClaim ((t.children.set index .empty).get i)
        rw [slotClaim_set_empty _ _ _ hl]; exact h.slot
    · have hsz' := hsz .empty
      rw [hl] at hsz'
      simp only [size_empty, size_leaf] at hsz'
      rw [size_root, size_root]
      show 2 + sum8 (fun i => ((t.children.set index .empty).get i).size) < _
      omega
  · obtain ⟨child, hc, hcinv, hcne, hcsize⟩ := pruneRec_spec _ (h.ch index) ⟨i2, r2, d, ht⟩
    refine ⟨_, by rw [prune_tree t index i2 r2 d hidx ht, hc]; rfl, ?_, ?_⟩
    · have hch' := inv_set t.children index child h.ch hcinv
      obtain ⟨hcal, _⟩ := inv_nonempty child hcinv hcne
      refine ⟨by simpa [OcTree.nodeUpdate] using hch', ?_, ?_, ?_⟩
      · simp only [OcTree.nodeUpdate, set_set]
        exact (sum8_pos _).mpr ⟨index, by simpa using hcal⟩
      · simp only [OcTree.nodeUpdate, set_set]
        rw [fromSlice_leafCount]
        exact sum8_le_sum8 _ _ fun i => inv_al_le _ (hch' i)
      · simp only [OcTree.nodeUpdate, set_set]
        rw [fromSlice_leafCount]
        exact sum8_le_sum8 _ _ fun i => claimed_le_slotClaim _
    · have hsz' := hsz child
      rw [size_root, size_root]
      simp only [OcTree.nodeUpdate, set_set]
      omega

/-- `prune_until`: with fuel above the size the loop ends by its own test, without panic, and the
    invariant holds at the exit -/
theorem pruneLoop_spec (pc : Nat) (hpc : 8 ≤ pc) (fuel : Nat) (t : OcTree) (h : RootInv t)
    (hf : t.size < fuel) :
    ∃ t', pruneLoop pc fuel t = .ok t' ∧ RootInv t' ∧ t'.info.leafCount ≤ pc := by
  induction fuel generalizing t with
  | zero => omega
  | succ fuel ih =>
    unfold pruneLoop
    by_cases hgt : t.info.leafCount > pc
    · simp only [hgt, if_true]
      obtain ⟨t', hp, hinv, hlt⟩ := prune_spec t h (by omega)
      rw [hp]
      exact ih t' hinv (by omega)
    · simp only [hgt, if_false]
      exact ⟨t, rfl, h, by omega⟩

theorem pruneUntil_spec (t : OcTree) (k : Nat) (h : RootInv t) :
    ∃ t', t.pruneUntil k = .ok t' ∧ RootInv t' ∧ t'.info.leafCount ≤ max k 8 :=
  pruneLoop_spec (max k 8) (by omega) (t.size + 1) t h (by omega)

/-! ### `build_palette` -/

theorem mapToRgb_length (ls : List Leaf) (h : ∀ l ∈ ls, 1 ≤ l.colorCount) :
    ∃ cs, mapToRgb ls = some cs ∧ cs.length = ls.length := by
  induction ls with
  | nil => exact ⟨[], rfl, rfl⟩
  | cons l ls ih =>
    obtain ⟨cs, hcs, hlen⟩ := ih fun x hx => h x (List.mem_cons_of_mem _ hx)
    have hl := h l List.mem_cons_self
    have : l.colorCount ≠ 0 := by omega
    simp only [mapToRgb, Leaf.toRgb, this, if_false, hcs]
    exact ⟨_, rfl, by simp [hlen]⟩

theorem root_leaves_length (t : OcTree) : t.leaves.length = sum8 fun i => al (t.children.get i) :=
  al_mkTree _ _ _

theorem buildPalette_spec (t : OcTree) (h : RootInv t) :
    ∃ pal, t.buildPalette = some pal ∧ pal.length = sum8 fun i => al (t.children.get i) := by
  have hl : ∀ l ∈ t.leaves, 1 ≤ l.colorCount := by
    intro l hl
    obtain ⟨i, hi⟩ := (mem_leaves_mkTree _ _ _ _).mp hl
    exact inv_leaves _ (h.ch i) l hi
  obtain ⟨cs, hcs, hlen⟩ := mapToRgb_length _ hl
  exact ⟨cs, hcs, by rw [hlen, root_leaves_length]⟩

/-! ### `insert` -/

/-- `Tree` nodes only where path items are left (`r` of them): `insert_rec` cannot reach its
    `unreachable!()` -/
def Shape : Node → Nat → Prop
  | .empty, _ => True
  | .leaf _, _ => True
  | .tree _ _ c0 c1 c2 c3 c4 c5 c6 c7, r =>
    ∃ r', r = r' + 1 ∧ Shape c0 r' ∧ Shape c1 r' ∧ Shape c2 r' ∧ Shape c3 r' ∧ Shape c4 r' ∧
      Shape c5 r' ∧ Shape c6 r' ∧ Shape c7 r'

theorem shape_mkTree (info removed cs r) :
    Shape (Node.mkTree info removed cs) r ↔ ∃ r', r = r' + 1 ∧ ∀ i, Shape (cs.get i) r' := by
  constructor
  · rintro ⟨r', hr, h⟩
    exact ⟨r', hr, (forall_fin8 _).mpr h⟩
  · rintro ⟨r', hr, h⟩
    exact ⟨r', hr, (forall_fin8 _).mp h⟩

/-- the invariant for the children only (the node's own summary is about to be recomputed) -/
def CInv : Node → Prop
  | .empty => True
  | .leaf l => 1 ≤ l.colorCount
  | .tree _ _ c0 c1 c2 c3 c4 c5 c6 c7 =>
    Inv c0 ∧ Inv c1 ∧ Inv c2 ∧ Inv c3 ∧ Inv c4 ∧ Inv c5 ∧ Inv c6 ∧ Inv c7

theorem cinv_mkTree (info removed cs) : CInv (Node.mkTree info removed cs) ↔ ∀ i, Inv (cs.get i) := by
  rw [forall_fin8]; exact Iff.rfl

theorem inv_cinv (n : Node) (h : Inv n) : CInv n := by
  rcases node_cases n with rfl | ⟨l, rfl⟩ | ⟨info, removed, cs, rfl⟩
  · trivial
  · exact h
  · exact (cinv_mkTree _ _ _).mpr ((inv_mkTree _ _ _).mp h).2.2.2

theorem insertRec_cons_tree (info removed cs index rest c) :
    insertRec (Node.mkTree info removed cs) (index :: rest) c =
      (insertRec (cs.get index) rest c).map fun n =>
        Node.mkTree (fromSlice (cs.set index n)) removed (cs.set index n) := by
  obtain ⟨c0, c1, c2, c3, c4, c5, c6, c7⟩ := cs
  show insertRec (Node.tree info removed c0 c1 c2 c3 c4 c5 c6 c7) (index :: rest) c = _
  rw [insertRec]
  cases insertRec ((Ch.mk c0 c1 c2 c3 c4 c5 c6 c7).get index) rest c <;> rfl

theorem insertRec_cons_empty (index rest c) :
    insertRec .empty (index :: rest) c =
      (insertRec .empty rest c).map fun n =>
        Node.mkTree (fromSlice (Ch.empty.set index n)) Leaf.new (Ch.empty.set index n) := by
  rw [insertRec]
  cases insertRec .empty rest c <;> rfl

theorem addRgb_count (l : Leaf) (c : RGB) : (l.addRgb c).colorCount = l.colorCount + 1 := rfl

theorem insertRec_spec (path : List (Fin 8)) (c : RGB) :
    ∀ n, CInv n → Shape n path.length →
      ∃ n', insertRec n path c = some n' ∧ Inv n' ∧ Shape n' path.length ∧ n' ≠ .empty ∧
        (∀ info removed cs, n = Node.mkTree info removed cs →
          ∃ cs', n' = Node.mkTree (fromSlice cs') removed cs') := by
  induction path with
  | nil =>
    intro n hc hs
    rcases node_cases n with rfl | ⟨l, rfl⟩ | ⟨info, removed, cs, rfl⟩
    · exact ⟨_, rfl, by show 1 ≤ (Leaf.fromRgb c).colorCount; simp [Leaf.fromRgb], trivial, by simp,
        fun _ _ _ h => absurd h.symm (mkTree_ne_empty _ _ _)⟩
    · refine ⟨_, rfl, ?_, trivial, by simp, fun _ _ _ h => by simp [Node.mkTree] at h⟩
      show 1 ≤ (l.addRgb c).colorCount
      rw [addRgb_count]; omega
    · obtain ⟨r', hr, _⟩ := (shape_mkTree _ _ _ _).mp hs
      simp at hr
  | cons index rest ih =>
    intro n hc hs
    rcases node_cases n with rfl | ⟨l, rfl⟩ | ⟨info, removed, cs, rfl⟩
    · obtain ⟨n1, h1, hinv, hsh, hne, _⟩ := ih .empty trivial trivial
      rw [insertRec_cons_empty, h1]
      refine ⟨_, rfl, ?_, ?_, mkTree_ne_empty _ _ _, fun _ _ _ h => absurd h.symm (mkTree_ne_empty _ _ _)⟩
      · exact inv_update Ch.empty index n1 Leaf.new (fun i => by simp [Inv]) hinv hne
      · rw [shape_mkTree]
        refine ⟨rest.length, rfl, fun i => ?_⟩
        rw [get_set]; split
        · exact hsh
        · simp [Shape]
    · refine ⟨_, rfl, ?_, trivial, by simp, fun _ _ _ h => by simp [Node.mkTree] at h⟩
      show 1 ≤ (l.addRgb c).colorCount
      rw [addRgb_count]; omega
    · have hch := (cinv_mkTree _ _ _).mp hc
      obtain ⟨r', hr, hsh⟩ := (shape_mkTree _ _ _ _).mp hs
      have hr' : r' = rest.length := by simp at hr; omega
      subst hr'
      obtain ⟨n1, h1, hinv, hsh1, hne, _⟩ := ih (cs.get index) (inv_cinv _ (hch index)) (hsh index)
      rw [insertRec_cons_tree, h1]
      refine ⟨_, rfl, ?_, ?_, mkTree_ne_empty _ _ _, ?_⟩
      · exact inv_update cs index n1 removed hch hinv hne
      · rw [shape_mkTree]
        refine ⟨rest.length, rfl, fun i => ?_⟩
        rw [get_set]; split
        · exact hsh1
        · exact hsh i
      · intro info' removed' cs' h
        have : removed = removed' := by
          simp only [Node.mkTree, Node.tree.injEq] at h; exact h.2.1
        subst this
        exact ⟨_, rfl⟩

theorem pathOf_cons (c : RGB) : ∃ index rest, pathOf c = index :: rest ∧ rest.length = 7 := by
  refine ⟨_, _, rfl, ?_⟩
  simp [pathGo]

/-- state of the root while colours are being inserted (nothing pruned yet) -/
structure PreInv (t : OcTree) : Prop where
  ch : ∀ i, Inv (t.children.get i)
  shape : ∀ i, Shape (t.children.get i) 7
  info : t.info = fromSlice t.children

theorem preInv_new : PreInv OcTree.new :=
  ⟨fun i => by simp [OcTree.new, Inv], fun i => by simp [OcTree.new, Shape], by decide⟩

theorem insert_spec (t : OcTree) (c : RGB) (h : PreInv t) :
    ∃ t', t.insert c = some t' ∧ PreInv t' ∧ 1 ≤ sum8 fun i => al (t'.children.get i) := by
  obtain ⟨index, rest, hp, hlen⟩ := pathOf_cons c
  obtain ⟨n1, h1, hinv, hsh, hne, _⟩ :=
    insertRec_spec rest c (t.children.get index) (inv_cinv _ (h.ch index)) (by rw [hlen]; exact h.shape index)
  refine ⟨t.nodeUpdate index n1, by simp only [OcTree.insert, hp, h1], ?_, ?_⟩
  · refine ⟨inv_set _ _ _ h.ch hinv, fun i => ?_, rfl⟩
    show Shape ((t.children.set index n1).get i) 7
    rw [get_set]; split
    · rw [← hlen]; exact hsh
    · exact h.shape i
  · refine (sum8_pos _).mpr ⟨index, ?_⟩
    show 1 ≤ al ((t.children.set index n1).get index)
    simpa using (inv_nonempty _ hinv hne).1

theorem insertAll_spec (l : List RGB) :
    ∀ t, PreInv t → ∃ t', insertAll t l = some t' ∧ PreInv t' ∧
      ((l ≠ [] ∨ 1 ≤ sum8 fun i => al (t.children.get i)) → 1 ≤ sum8 fun i => al (t'.children.get i)) := by
  induction l with
  | nil => intro t h; exact ⟨t, rfl, h, fun hh => by simpa using hh⟩
  | cons c cs ih =>
    intro t h
    obtain ⟨t1, h1, hp1, hpos1⟩ := insert_spec t c h
    obtain ⟨t2, h2, hp2, hpos2⟩ := ih t1 hp1
    refine ⟨t2, by simp only [insertAll, h1, h2], hp2, fun _ => hpos2 (Or.inr hpos1)⟩

theorem rootInv_of_preInv (t : OcTree) (h : PreInv t) (hpos : 1 ≤ sum8 fun i => al (t.children.get i)) :
    RootInv t := by
  refine ⟨h.ch, hpos, ?_, ?_⟩
  · rw [h.info, fromSlice_leafCount]
    exact sum8_le_sum8 _ _ fun i => inv_al_le _ (h.ch i)
  · rw [h.info, fromSlice_leafCount]
    exact sum8_le_sum8 _ _ fun i => claimed_le_slotClaim _

end SurfProofs.QuantOct
