import SurfProofs.Lemmas.Utf8
import SurfProofs.Lemmas.Utf8Decoder
import SurfProofs.Lemmas.PayloadNumeric
import SurfProofs.Lemmas.DecoderStream
import SurfProofs.Lemmas.DecoderEvents
import SurfProofs.Lemmas.SgrChecked
import SurfProofs.C03
import SurfProofs.C15
/-!
# C02 — input decoding is total: no byte stream can crash it or yield malformed events

Models: `SurfModel.Utf8` (`utf8_nfa`, `utf8_decode`, `Utf8Decoder`), `SurfModel.Tokenizer` (C03: the
incremental tokenizer `MatcherDecoder` behind `TTYEventDecoder` / `TTYCommandDecoder`, generic in the automaton),
`SurfModel.Automata` (C15).  Faults of the code (`slice[0]` on an empty slice, an out-of-range index or drain,
the `panic!` arm of `utf8_decode`, a model loop running out of fuel) are explicit outcomes
`.error .panic` / `.error .outOfFuel`; the theorems show that they do not occur.

Specification side: `Scalar` (Unicode scalar value), `Table37` (Unicode Standard Table 3-7 written out),
`SurfModel.Vt.utf8` (the standard UTF-8 encoding, the encoder's side of C05), `List.Sublist` (bytes occur in the
input in order).
-/
namespace SurfProofs.C02
open SurfModel.Automata SurfModel.Utf8 SurfModel.Tokenizer
open SurfProofs.Utf8 SurfProofs.Utf8Dec

/-! ## A. UTF-8: the unchecked conversion is sound -/

/-- **The expression `utf8_nfa(mode)` builds matches exactly the well-formed UTF-8 byte sequences** of
    Unicode Table 3-7 (no overlong forms, no surrogates, nothing above U+10FFFF; the one-byte row restricted
    as the mode says), for all three modes. -/
theorem C02_utf8_wellformed (mode : Nat) (w : List UInt8) :
    (utf8Re mode).Matches w ↔ Table37 mode (w.map UInt8.toNat) :=
  utf8Re_matches_iff mode w

/-- **Scalar.** On every byte string its own grammar accepts, `utf8_decode` does not panic and the number it
    hands to `char::from_u32_unchecked` is a Unicode scalar value — precisely the one whose standard UTF-8
    encoding is the byte string.  (All three modes: `Utf8Decoder`, event decoder, command decoder.) -/
theorem C02_scalar (mode : Nat) (w : List UInt8) (h : (utf8Re mode).Matches w) :
    ∃ c, utf8Decode w = .ok c ∧ Scalar c ∧ SurfModel.Vt.utf8 c = w.map UInt8.toNat :=
  table_decode mode w ((utf8Re_matches_iff mode w).mp h)

example : (utf8Re 1).Matches [0xE2, 0x82, 0xAC] := by
  rw [utf8Re_matches_iff]; simp [Table37, Cont]

/-- the executable form of the same statement, as the driver evaluates it -/
theorem C02_scalar_bool (mode : Nat) (w : List UInt8) (h : (utf8Re mode).matchB w = true) :
    ∃ c, utf8Decode w = .ok c ∧ isScalar c = true := by
  obtain ⟨c, h1, h2, _⟩ := C02_scalar mode w ((SurfProofs.ReMatch.matchB_iff _ _).mp h)
  exact ⟨c, h1, (isScalar_iff c).mpr h2⟩

/-- **Coverage.** Conversely every scalar value is decodable: its standard encoding is accepted by the
    grammar of `Utf8Decoder` and decodes to itself. -/
theorem C02_scalar_cover (c : Nat) (h : Scalar c) :
    ∃ w : List UInt8, w.map UInt8.toNat = SurfModel.Vt.utf8 c ∧ (utf8Re 0).Matches w ∧ utf8Decode w = .ok c := by
  have hb := utf8_bytes c (by unfold Scalar at h; omega)
  have hmap := map_toNat_ofNat _ hb
  refine ⟨(SurfModel.Vt.utf8 c).map UInt8.ofNat, hmap, ?_, ?_⟩
  · rw [utf8Re_matches_iff, hmap]; exact utf8_table c h
  · have hm : (utf8Re 0).Matches ((SurfModel.Vt.utf8 c).map UInt8.ofNat) := by
      rw [utf8Re_matches_iff, hmap]; exact utf8_table c h
    obtain ⟨c', h1, h2, h3⟩ := C02_scalar 0 _ hm
    rw [hmap] at h3
    rw [h1, utf8_injective c' c h2 h h3]

/-- the other two modes accept the encoding of a scalar value iff its one-byte form is allowed
    (printable ASCII for the event decoder, anything but `ESC` for the command decoder) -/
theorem C02_scalar_cover_modes (mode : Nat) (c : Nat) (h : Scalar c)
    (h1 : mode = 1 → c < 0x80 → 0x20 ≤ c ∧ c ≤ 0x7E) (h2 : 2 ≤ mode → c ≠ 0x1B) :
    ∃ w : List UInt8, w.map UInt8.toNat = SurfModel.Vt.utf8 c ∧ (utf8Re mode).Matches w ∧ utf8Decode w = .ok c := by
  obtain ⟨w, hw, hm, hd⟩ := C02_scalar_cover c h
  refine ⟨w, hw, ?_, hd⟩
  rw [utf8Re_matches_iff] at hm ⊢
  rw [hw] at hm ⊢
  unfold Scalar at h
  unfold SurfModel.Vt.utf8 at hm ⊢
  split
  · rename_i hc
    rw [if_pos hc] at hm
    simp only [Table37] at hm ⊢
    have hm' : c ≤ 0x7F := hm
    match mode, h1, h2 with
    | 0, _, _ => exact hm'
    | 1, h1, _ => exact h1 rfl hc
    | m + 2, _, h2 => exact ⟨hm', h2 (by omega)⟩
  · rename_i hc
    rw [if_neg hc] at hm
    split <;> rename_i hc2
    · rw [if_pos hc2] at hm; exact hm
    · rw [if_neg hc2] at hm
      split <;> rename_i hc3
      · rw [if_pos hc3] at hm; exact hm
      · rw [if_neg hc3] at hm; exact hm

/-! ## A'. `Utf8Decoder` on every stream and every way of cutting it -/

/-- what a result of `Utf8Decoder::decode` must satisfy -/
def UOutOk : UOut → Prop
  | .chr c => Scalar c
  | .err b => b ≠ []

theorem consumeAll_ok (items : List UItem) (h : ∀ it ∈ items, UItemOk utf8Auto it) :
    ∃ outs, consumeAll items = .ok outs ∧ outs.flatMap UOut.bytes = items.flatMap UItem.bytes ∧
      ∀ o ∈ outs, UOutOk o := by
  induction items with
  | nil => exact ⟨[], rfl, rfl, by simp⟩
  | cons it rest ih =>
    obtain ⟨outs, h1, h2, h3⟩ := ih (fun x hx => h x (List.mem_cons_of_mem _ hx))
    have hit := h it (List.mem_cons_self ..)
    cases it with
    | err b =>
      refine ⟨.err b :: outs, by simp [consumeAll, consume, h1], by simp [UOut.bytes, UItem.bytes, h2], ?_⟩
      intro o ho
      rcases List.mem_cons.mp ho with rfl | ho
      · exact hit
      · exact h3 o ho
    | chr b =>
      have hm : (utf8Re 0).Matches b :=
        (SurfProofs.C15.C15_language _ _).mp (accepted_matches (utf8Re 0) b hit)
      obtain ⟨c, hc1, hc2, hc3⟩ := C02_scalar 0 b hm
      have hbytes : UOut.bytes (.chr c) = b := by
        simp only [UOut.bytes, hc3, List.map_map]
        have : (UInt8.ofNat ∘ UInt8.toNat) = id := by funext x; simp
        rw [this, List.map_id]
      refine ⟨.chr c :: outs, by simp [consumeAll, consume, hc1, h1], ?_, ?_⟩
      · simp only [List.flatMap_cons, hbytes, h2, UItem.bytes]
      · intro o ho
        rcases List.mem_cons.mp ho with rfl | ho
        · exact hc2
        · exact h3 o ho

theorem consumeReads_ok (per : List (List UItem)) (h : ∀ it ∈ per.flatten, UItemOk utf8Auto it) :
    ∃ outs, consumeReads per = .ok outs ∧ outs.flatten.flatMap UOut.bytes = per.flatten.flatMap UItem.bytes ∧
      ∀ o ∈ outs.flatten, UOutOk o := by
  induction per with
  | nil => exact ⟨[], rfl, rfl, by simp⟩
  | cons items rest ih =>
    obtain ⟨outs, h1, h2, h3⟩ := ih (fun x hx => h x (by simp only [List.flatten_cons, List.mem_append]; exact Or.inr hx))
    obtain ⟨os, g1, g2, g3⟩ := consumeAll_ok items (fun x hx => h x (by simp only [List.flatten_cons, List.mem_append]; exact Or.inl hx))
    refine ⟨os :: outs, by simp [consumeReads, g1, h1], ?_, ?_⟩
    · simp only [List.flatten_cons, List.flatMap_append, g2, h2]
    · intro o ho
      simp only [List.flatten_cons, List.mem_append] at ho
      rcases ho with ho | ho
      · exact g3 o ho
      · exact h3 o ho

/-- **`Utf8Decoder` is total and its characters are well formed**, for every byte stream and every way of
    cutting it into reads (empty reads included): the model never panics (the four byte buffer is never
    overrun, `utf8_decode` never reaches its `panic!` arm) and never runs out of fuel; every character
    produced is a Unicode scalar value; every error drops at least one byte; characters and dropped bytes, in
    order, followed by the bytes held back, are exactly the stream; and once the input is exhausted a further
    `decode` call reports `None` and leaves the decoder as it is. -/
theorem C02_utf8_decoder (chunks : List (List UInt8)) :
    ∃ per s, utf8Stream utf8Auto chunks = .ok (per, s) ∧
      (∀ o ∈ per.flatten, UOutOk o) ∧
      per.flatten.flatMap UOut.bytes ++ s.buf = chunks.flatten ∧
      s.buf.length ≤ 4 ∧
      udecode utf8Auto s [] = .ok (none, s, []) := by
  obtain ⟨items, s', h1, h2, h3⟩ := ugo_total utf8Auto utf8Auto_short (uinit utf8Auto) chunks.flatten rfl
  have h4 := ufeedAll_ugo utf8Auto chunks (uinit utf8Auto)
  rw [h1] at h4
  cases hf : ufeedAll utf8Auto (uinit utf8Auto) chunks with
  | error e => rw [hf] at h4; simp [flatU] at h4
  | ok p =>
    obtain ⟨per, s⟩ := p
    rw [hf] at h4
    simp only [flatU, Except.ok.injEq, Prod.mk.injEq] at h4
    obtain ⟨h5, h6⟩ := h4
    subst h6
    obtain ⟨outs, g1, g2, g3⟩ := consumeReads_ok per (by rw [h5]; exact h3)
    have hcons := SurfProofs.C03.C03_utf8_conservation utf8Auto chunks per s hf
    exact ⟨outs, s, by simp [utf8Stream, hf, g1], g3, by rw [g2]; exact hcons, utf8Auto_short _ _ h2, rfl⟩

/-! ## C. the tokenizer behind `TTYEventDecoder` / `TTYCommandDecoder`, for every automaton -/

variable {σ : Type}

/-- bytes of an item if it is an unrecognised one -/
def rawOf : Item σ → List UInt8
  | .raw b => b
  | .tok _ _ => []

theorem rawOf_sublist (items : List (Item σ)) : (items.flatMap rawOf).Sublist (items.flatMap Item.bytes) := by
  induction items with
  | nil => simp
  | cons it rest ih =>
    simp only [List.flatMap_cons]
    refine List.Sublist.append ?_ ih
    cases it with
    | raw b => exact List.Sublist.refl _
    | tok b q => exact List.nil_sublist _

/-- **The tokenizer never panics, terminates, and reports `None` at exhaustion** — for every automaton
    (hence the two production automata) and every way of cutting the stream into reads: feeding the reads
    through `decode_into` succeeds (no out-of-range `drain`, the loop bound `pending bytes + 1` is never
    exhausted), and afterwards a `decode` call on the exhausted input returns `None` and leaves the decoder
    unchanged, so it keeps returning `None`. -/
theorem C02_no_panic_stream_tokenizer (A : Auto σ) (chunks : List (List UInt8)) :
    ∃ per s, feedAll A (init A) chunks = .ok (per, s) ∧ decode A s [] = .ok (none, s, []) := by
  obtain ⟨per, s, h1, _, h3, _⟩ := SurfProofs.C03.C03_conservation A chunks
  refine ⟨per, s, h1, ?_⟩
  have hd : drainResched A s = .ok (none, s) := by
    rw [drainResched]
    split
    · rfl
    · rename_i byte rs hp
      rw [h3] at hp
      simp [pop] at hp
  simp [decode, hd, decodeInput]

/-- **Raw items are non-empty and their bytes occur in the input in order** (every automaton, every
    chunking).  Stronger than the subsequence statement: the items are consecutive, non-overlapping segments
    of the stream — whatever precedes a raw item in the output precedes it in the input. -/
theorem C02_raw (A : Auto σ) (chunks : List (List UInt8)) :
    ∃ per s, feedAll A (init A) chunks = .ok (per, s) ∧
      (∀ b, Item.raw b ∈ per.flatten → b ≠ []) ∧
      (per.flatten.flatMap rawOf).Sublist chunks.flatten ∧
      (∀ pre b post, per.flatten = pre ++ Item.raw b :: post →
        chunks.flatten = pre.flatMap Item.bytes ++ b ++ (post.flatMap Item.bytes ++ s.buffer)) := by
  obtain ⟨per, s, h1, h2, _, h4⟩ := SurfProofs.C03.C03_conservation A chunks
  refine ⟨per, s, h1, ?_, ?_, ?_⟩
  · intro b hb
    exact h4 _ hb
  · rw [← h2]
    exact (rawOf_sublist per.flatten).trans (List.sublist_append_left _ _)
  · intro pre b post hsplit
    rw [← h2, hsplit]
    simp [Item.bytes]

/-! ## D. the payload decoders: no body can panic on a word of its own grammar; numeric fields -/

open SurfModel.Grammar SurfModel.Payload SurfModel.Stream SurfModel.Decoders
open SurfProofs.PayloadNumeric SurfProofs.DecoderStream

/-- **Total.** For every family `k` of the event decoder and EVERY byte string `w` the grammar of `k` accepts,
    the `Matcher::decode` body of `k` does not panic on `w`: every `len - n`, every slice, every index
    (`data[2]`, `data[len-1]`, `pair[1]` of `hex_decode`), and the `from_u32_unchecked` assertion of `utf8_decode`
    is in range.  (`.error .ext` — the named-colour parser of `rasterize`, not modelled — is the only other
    non-`ok` outcome, for OSC colour reports only.) -/
theorem C02_total (k : Family) (w : List UInt8) (h : (grammar k).Matches w) :
    SurfModel.Payload.decode k (natBytes w) ≠ .error .panic :=
  decode_total k w h

example : (grammar .kittyKeyboard).Matches (bytes [27, 91, 117]) := by
  apply (SurfProofs.ReMatch.matchB_iff _ _).mp
  decide

/-- the same for the two matchers of the command decoder (SGR, UTF-8 without `ESC`) -/
theorem C02_total_command (i : Nat) (g : Re) (hg : commandGrammars[i]? = some g) (w : List UInt8) (h : g.Matches w) :
    decodeCommand i (natBytes w) ≠ .error .panic :=
  decodeCommand_total i g hg w h

example : commandGrammars[1]? = some (SurfModel.Grammar.utf8Re 2) := rfl

/-- characters of the two stream decoders are scalar values decoded from exactly their bytes: on a word of
    the UTF-8 grammar (`mode` 1 event decoder, 2 command decoder) `utf8_decode` yields the scalar value whose
    standard encoding the word is -/
theorem C02_scalar_payload (mode : Nat) (w : List UInt8) (h : (SurfModel.Grammar.utf8Re mode).Matches w) :
    ∃ c, SurfModel.Payload.utf8Decode (natBytes w) = .ok c ∧ Scalar c ∧ SurfModel.Vt.utf8 c = natBytes w :=
  SurfProofs.PayloadTotal.utf8_payload mode w h

/-- **Numeric.** For parameters written as digit strings of ANY length (empty, leading zeros,
    40 digits): the decoded field is `clampDec` = decimal value clamped at `usize::MAX`; a zero coordinate
    gives `None` (the tokenizer then reports the bytes as `Raw`); colour components above 255 make the colour
    unrecognised.  Never a wrapped or underflowed value. -/
theorem C02_numeric :
    -- cursor position report
    (∀ r c, Digits r → Digits c →
      decodeCursorPosition ([27, 91] ++ ((r ++ 59 :: c) ++ [82])) =
        if clampDec r = 0 ∨ clampDec c = 0 then .ok none
        else .ok (some (.cursorPosition (clampDec r - 1) (clampDec c - 1)))) ∧
    -- SGR mouse report, press (`M` = 77) and release (`m`)
    (∀ e x y fin, Digits e → Digits x → Digits y →
      decodeMouse ([27, 91, 60] ++ ((e ++ 59 :: (x ++ 59 :: y)) ++ [fin])) =
        if clampDec x = 0 ∨ clampDec y = 0 then .ok none
        else .ok (some (.mouse (mouseName (clampDec e))
          (clampDec e / 4 % 8 + (if fin = 77 then modPress else 0)) (clampDec y - 1) (clampDec x - 1)))) ∧
    -- kitty keyboard level
    (∀ n, Digits n →
      decodeKittyKeyboard ([27, 91] ++ ((63 :: n) ++ [117])) = .ok (some (.keyboardLevel (clampDec n)))) ∧
    -- one half of the terminal size report
    (∀ k h w, Digits k → Digits h → Digits w → k.length = 1 →
      sizePair (91 :: (k ++ ((59 :: (h ++ 59 :: w)) ++ [116]))) = .ok (some (clampDec h, clampDec w))) ∧
    -- true colour, semicolon and colon form
    (∀ r g b rest, Digits r → Digits g → Digits b →
      (SurfModel.Sgr.sgrColor ([50] :: r :: g :: b :: rest) false).1 =
        if clampDec r ≤ 255 ∧ clampDec g ≤ 255 ∧ clampDec b ≤ 255
        then some ⟨clampDec r, clampDec g, clampDec b, 255⟩ else none) ∧
    (∀ r g b, Digits r → Digits g → Digits b →
      (SurfModel.Sgr.sgrColor [[50], r, g, b] true).1 =
        if clampDec r ≤ 255 ∧ clampDec g ≤ 255 ∧ clampDec b ≤ 255
        then some ⟨clampDec r, clampDec g, clampDec b, 255⟩ else none) ∧
    -- the clamp itself: `number_decode` on a digit string is the clamped decimal value
    (∀ ds, Digits ds → SurfModel.Sgr.numberDecode ds = some (clampDec ds)) :=
  ⟨cursorPosition_numeric, mouse_numeric, keyboardLevel_numeric, sizePair_numeric,
   fun r g b rest hr hg hb => sgrColor_semicolon_numeric r g b hr hg hb rest,
   sgrColor_colon_numeric, fun ds h => SurfProofs.Lemmas.Sgr.numberDecode_digits ds h⟩

/-- the digit strings of the example: twenty nines (above `usize::MAX`) and a zero -/
example : Digits (List.replicate 20 57) ∧ clampDec (List.replicate 20 57) = SurfModel.Vt.usizeMax ∧ clampDec [48] = 0 := by
  refine ⟨?_, by decide, by decide⟩
  intro d hd
  simp at hd
  omega

/-- **Numeric, the remaining reports.** Device attributes, kitty image id / placement, the palette index of an
    OSC 4 colour report, the kitty key code and the 256-colour index of SGR — again for digit strings of any
    length. -/
theorem C02_numeric_reports :
    -- device attributes: the set of the clamped non-zero parameters
    (∀ ps : List (List Nat), ps ≠ [] → (∀ p ∈ ps, Digits p) →
      decodeDeviceAttrs ([27, 91, 63] ++ (SurfModel.Protocol.joinWith 59 ps ++ [99])) =
        .ok (some (.deviceAttrs (sortDedup ((ps.map clampDec).filter (0 < ·)))))) ∧
    -- kitty image response: id and placement
    (∀ i p msg, Digits i → Digits p →
      ∃ e, decodeKittyImage ([27, 95, 71] ++ ((([105, 61] ++ i ++ [44, 112, 61] ++ p) ++ 59 :: msg) ++ [27, 92])) =
        .ok (some (.kittyImage (clampDec i) (some (clampDec p)) e))) ∧
    -- palette index of an OSC 4 colour report
    (∀ i, Digits i →
      decodeOsc ([27, 93] ++ (([52, 59] ++ i ++ [59, 35, 48, 48, 48, 48, 48, 48]) ++ [7])) =
        .ok (some (.color (.palette (clampDec i)) ⟨0, 0, 0, 255⟩))) ∧
    -- kitty key code: a scalar value below 2^32 outside the private use block is the character itself
    (∀ c, Digits c → clampDec c ≤ 4294967295 → SurfModel.Payload.isScalar (clampDec c) = true →
      ¬ (57344 ≤ clampDec c ∧ clampDec c ≤ 63743) → clampDec c ∉ [27, 13, 9, 127] →
      decodeKittyKeyboard ([27, 91] ++ (c ++ [117])) = .ok (some (.key ⟨.char (clampDec c), 0⟩))) ∧
    -- 256-colour index
    (∀ n rest colon, Digits n →
      (SurfModel.Sgr.sgrColor ([53] :: n :: rest) colon).1 = SurfModel.Sgr.palette (clampDec n) ∧
        (256 ≤ clampDec n → SurfModel.Sgr.palette (clampDec n) = none)) :=
  ⟨deviceAttrs_numeric, kittyImage_numeric, palette_numeric, kittyKey_numeric,
   fun n rest colon hn => sgrColor_indexed_numeric n hn rest colon⟩

/-- **No panic on any stream (event decoder).** For every tagged automaton `A` that realises the combined
    grammar of `TTY_EVENT_AUTOMATA` (same live words, accepting flags and tag sets as the DFA compiled from the
    model grammar — the model DFA itself does, `C02_no_panic_stream_model`; the dumped production DFA is compared
    with it by exhaustive bisimulation on every run) and reports `terminal` only for states without successor,
    and for every way of cutting every byte stream into reads: the tokenizer succeeds (no panic, terminates),
    every item is turned into an event without a panic (in particular an accepting state always carries a
    tag, a key tag always denotes a key, a family tag a registered matcher, and the matcher's `decode` body stays
    in range), and after the input is exhausted `decode` reports `None`. -/
theorem C02_no_panic_stream {σ : Type} (A : TAuto σ) (hR : SurfProofs.ProtoStream.Realises A) (hT : A.toAuto.TermOk)
    (chunks : List (List UInt8)) :
    ∃ per s, feedAll A.toAuto (init A.toAuto) chunks = .ok (per, s) ∧
      (∀ it ∈ per.flatten, eventOfItem A it ≠ .error .panic) ∧
      SurfModel.Tokenizer.decode A.toAuto s [] = .ok (none, s, []) := by
  obtain ⟨per, h1, h2⟩ := SurfProofs.C03.C03_tokenize_reads A.toAuto hT chunks
  obtain ⟨per', s', g1, g2⟩ := C02_no_panic_stream_tokenizer A.toAuto chunks
  rw [h1] at g1
  simp only [Except.ok.injEq, Prod.mk.injEq] at g1
  obtain ⟨e1, e2⟩ := g1
  subst e1 e2
  refine ⟨per, _, h1, ?_, g2⟩
  intro it hit
  rw [h2] at hit
  exact eventOfItem_total A hR it (SurfProofs.C03.C03_token_sound A.toAuto _ it hit)

/-- the hypotheses of `C02_no_panic_stream` hold for the DFA compiled from the model of the combined grammar -/
theorem C02_no_panic_stream_model (chunks : List (List UInt8)) :
    ∃ per s, feedAll modelAuto.toAuto (init modelAuto.toAuto) chunks = .ok (per, s) ∧
      (∀ it ∈ per.flatten, eventOfItem modelAuto it ≠ .error .panic) ∧
      SurfModel.Tokenizer.decode modelAuto.toAuto s [] = .ok (none, s, []) :=
  C02_no_panic_stream modelAuto modelAuto_realises modelAuto_termOk chunks

/-- **No panic on any stream (command decoder)**: the same statement for `TTYCommandDecoder`, over every tagged
    automaton that realises the command grammar (SGR | UTF-8 without `ESC`). -/
theorem C02_no_panic_stream_command {σ : Type} (A : TAuto σ) (hR : RealisesCommand A) (hT : A.toAuto.TermOk)
    (chunks : List (List UInt8)) :
    ∃ per s, feedAll A.toAuto (init A.toAuto) chunks = .ok (per, s) ∧
      (∀ it ∈ per.flatten, commandOfItem A it ≠ .error .panic) ∧
      SurfModel.Tokenizer.decode A.toAuto s [] = .ok (none, s, []) := by
  obtain ⟨per, h1, h2⟩ := SurfProofs.C03.C03_tokenize_reads A.toAuto hT chunks
  obtain ⟨per', s', g1, g2⟩ := C02_no_panic_stream_tokenizer A.toAuto chunks
  rw [h1] at g1
  simp only [Except.ok.injEq, Prod.mk.injEq] at g1
  obtain ⟨e1, e2⟩ := g1
  subst e1 e2
  refine ⟨per, _, h1, ?_, g2⟩
  intro it hit
  rw [h2] at hit
  exact commandOfItem_total A hR it (SurfProofs.C03.C03_token_sound A.toAuto _ it hit)

theorem C02_no_panic_stream_command_model (chunks : List (List UInt8)) :
    ∃ per s, feedAll commandModelAuto.toAuto (init commandModelAuto.toAuto) chunks = .ok (per, s) ∧
      (∀ it ∈ per.flatten, commandOfItem commandModelAuto it ≠ .error .panic) ∧
      SurfModel.Tokenizer.decode commandModelAuto.toAuto s [] = .ok (none, s, []) :=
  C02_no_panic_stream_command commandModelAuto commandModelAuto_realises commandModelAuto_termOk chunks

/-! ## E. event level: raw events, characters, table look-ups, byte-level numeric clauses -/

open SurfProofs.DecoderEvents

/-- `Payload.isScalar` is the specification `Scalar` -/
theorem payload_isScalar_iff (c : Nat) : SurfModel.Payload.isScalar c = true ↔ Scalar c := by
  simp only [SurfModel.Payload.isScalar, Scalar, Bool.or_eq_true, decide_eq_true_eq, Bool.and_eq_true]
  omega

/-- **Raw events (event decoder).** Every `Raw` event — whether it comes from bytes the tokenizer could not
    match or from an accepted token whose decoder answered `None` (zero coordinate, unknown mode, colour text not
    understood, …) — carries exactly the bytes of its item: it is non-empty and is the contiguous part of the
    input between the bytes of the items before it and those after it.  Every automaton, every chunking. -/
theorem C02_raw_events {σ : Type} (A : TAuto σ) (chunks : List (List UInt8)) :
    ∃ per s, feedAll A.toAuto (init A.toAuto) chunks = .ok (per, s) ∧
      ∀ pre it post b, per.flatten = pre ++ it :: post → eventOfItem A it = .ok (.raw b) →
        b ≠ [] ∧ natBytes chunks.flatten =
          natBytes (pre.flatMap Item.bytes) ++ b ++ natBytes (post.flatMap Item.bytes ++ s.buffer) := by
  obtain ⟨per, s, h1, h2, _, h4⟩ := SurfProofs.C03.C03_conservation A.toAuto chunks
  refine ⟨per, s, h1, ?_⟩
  intro pre it post b hsplit hraw
  have hb := eventOfItem_raw A it b hraw
  subst hb
  constructor
  · have := h4 it (by rw [hsplit]; simp)
    intro hnil
    apply this
    simpa [natBytes] using hnil
  · rw [← h2, hsplit]
    simp [natBytes]

/-- the same for the command decoder -/
theorem C02_raw_events_command {σ : Type} (A : TAuto σ) (chunks : List (List UInt8)) :
    ∃ per s, feedAll A.toAuto (init A.toAuto) chunks = .ok (per, s) ∧
      ∀ pre it post b, per.flatten = pre ++ it :: post → commandOfItem A it = .ok (.raw b) →
        b ≠ [] ∧ natBytes chunks.flatten =
          natBytes (pre.flatMap Item.bytes) ++ b ++ natBytes (post.flatMap Item.bytes ++ s.buffer) := by
  obtain ⟨per, s, h1, h2, _, h4⟩ := SurfProofs.C03.C03_conservation A.toAuto chunks
  refine ⟨per, s, h1, ?_⟩
  intro pre it post b hsplit hraw
  have hb := commandOfItem_raw A it b hraw
  subst hb
  constructor
  · have := h4 it (by rw [hsplit]; simp)
    intro hnil
    apply this
    simpa [natBytes] using hnil
  · rw [← h2, hsplit]
    simp [natBytes]

/-- **Characters of the event stream are scalar values.** Over every automaton that realises the event grammar
    and every chunking: whatever event an item becomes, the character it carries (a `Key(Char(c))` from the
    literal key table, from UTF-8 text or from a kitty key code) is a Unicode scalar value. -/
theorem C02_scalar_stream {σ : Type} (A : TAuto σ) (hR : SurfProofs.ProtoStream.Realises A) (hT : A.toAuto.TermOk)
    (chunks : List (List UInt8)) :
    ∃ per s, feedAll A.toAuto (init A.toAuto) chunks = .ok (per, s) ∧
      ∀ it ∈ per.flatten, ∀ e, eventOfItem A it = .ok e → ∀ c, charOf e = some c → Scalar c := by
  obtain ⟨per, h1, h2⟩ := SurfProofs.C03.C03_tokenize_reads A.toAuto hT chunks
  refine ⟨per, _, h1, ?_⟩
  intro it hit e he c hc
  rw [h2] at hit
  exact (payload_isScalar_iff c).mp
    (eventOfItem_char A hR it (SurfProofs.C03.C03_token_sound A.toAuto _ it hit) e he c hc)

/-- the same for the command decoder (`TerminalCommand::Char`), for every automaton -/
theorem C02_scalar_stream_command {σ : Type} (A : TAuto σ) (chunks : List (List UInt8)) :
    ∃ per s, feedAll A.toAuto (init A.toAuto) chunks = .ok (per, s) ∧
      ∀ it ∈ per.flatten, ∀ e, commandOfItem A it = .ok e → ∀ c, charOf e = some c → Scalar c := by
  obtain ⟨per, s, h1, _⟩ := SurfProofs.C03.C03_conservation A.toAuto chunks
  refine ⟨per, s, h1, ?_⟩
  intro it _ e he c hc
  exact (payload_isScalar_iff c).mp (commandOfItem_char A it e he c hc)

example : charOf (.key ⟨.char 8364, 0⟩) = some 8364 ∧ charOf (.char 65) = some 65 := ⟨rfl, rfl⟩

/-- **The table look-ups of `sgr_color` / `sgr_face` never go out of range**: with `COLORS[..]`, `CUBE[..]`,
    `GREYS[..]` modelled as panicking indexing (`SurfModel.SgrChecked`), the result is `.ok` of the function C06 /
    C04 / `C02_total` reason about — on every parameter string (no grammar hypothesis needed).  The lengths of
    the tables are re-decided on the tables regenerated from the implementation. -/
theorem C02_sgr_tables (data : List Nat) :
    SurfModel.SgrChecked.sgrFaceChecked data = .ok (SurfModel.Sgr.sgrFace data) :=
  SurfProofs.SgrChecked.sgrFaceChecked_eq data

/-! ### specification side of the mouse button code and of the 256-colour palette -/

/-- xterm SGR mouse button code, low two bits and bit 6, as a table: (wheel bit, button bits) ↦ name.  The
    names are the library's (its `MouseWheelDown` is xterm's button 4); C04 owns the naming, C02 only that the
    name is a function of these three bits of the clamped number. -/
def mouseTable : List ((Bool × Nat) × KeyName) :=
  [((false, 0), .mouseLeft), ((false, 1), .mouseMiddle), ((false, 2), .mouseRight), ((false, 3), .mouseMove),
   ((true, 0), .mouseWheelDown), ((true, 1), .mouseWheelUp), ((true, 2), .mouseMove), ((true, 3), .mouseMove)]

def mouseNameSpec (e : Nat) : Option KeyName := mouseTable.lookup (e / 64 % 2 == 1, e % 4)

theorem C02_mouse_name (e : Nat) : mouseNameSpec e = some (mouseName e) := by
  have h4 : e % 4 < 4 := Nat.mod_lt _ (by omega)
  have h2 : e / 64 % 2 < 2 := Nat.mod_lt _ (by omega)
  unfold mouseNameSpec mouseName mouseTable
  rcases Nat.lt_or_ge (e / 64 % 2) 1 with hw | hw
  · have hw0 : e / 64 % 2 = 0 := by omega
    have : e % 4 = 0 ∨ e % 4 = 1 ∨ e % 4 = 2 ∨ e % 4 = 3 := by omega
    rcases this with hb | hb | hb | hb <;> (simp only [hw0, hb]; decide)
  · have hw1 : e / 64 % 2 = 1 := by omega
    have : e % 4 = 0 ∨ e % 4 = 1 ∨ e % 4 = 2 ∨ e % 4 = 3 := by omega
    rcases this with hb | hb | hb | hb <;> (simp only [hw1, hb]; decide)

/-- xterm's 256-colour palette above the 16 named entries: 6×6×6 cube with levels 0, 95, 135, 175, 215, 255,
    then 24 greys 8, 18, …, 238 -/
def xtermLevel (k : Nat) : Nat := if k = 0 then 0 else 55 + 40 * k

def xtermPalette (i : Nat) : Option SurfModel.Sgr.Rgba :=
  if 16 ≤ i ∧ i < 232 then
    some ⟨xtermLevel ((i - 16) / 36), xtermLevel ((i - 16) / 6 % 6), xtermLevel ((i - 16) % 6), 255⟩
  else if 232 ≤ i ∧ i < 256 then some ⟨8 + 10 * (i - 232), 8 + 10 * (i - 232), 8 + 10 * (i - 232), 255⟩
  else none

/-- the palette `sgr_color` uses is xterm's (for the indices the standard fixes) and has nothing above 255;
    decided on the regenerated tables -/
theorem C02_palette : (∀ i : Fin 256, 16 ≤ i.val → SurfModel.Sgr.palette i.val = xtermPalette i.val) ∧
    (∀ i, 256 ≤ i → SurfModel.Sgr.palette i = none) := by
  constructor
  · decide +kernel
  · intro i h
    unfold SurfModel.Sgr.palette
    rw [if_neg (by omega), if_neg (by omega), if_neg (by omega)]

/-- **Numeric, byte level.** The same statements on whole sequences as they arrive: SGR true colour in the
    semicolon form (in range: exactly that colour; last component above 255: no colour and nothing else), both
    colon forms including the four-component one (colour-space id skipped), the complete size report, and key
    codes that are not characters (above `u32::MAX`, surrogates / beyond U+10FFFF, private use block): the
    sequence is unrecognised, never a truncated or wrapped character. -/
theorem C02_numeric_bytes :
    (∀ r g b, Digits r → Digits g → Digits b → clampDec r ≤ 255 ∧ clampDec g ≤ 255 ∧ clampDec b ≤ 255 →
      decodeSgr ([27, 91] ++ (([51, 56] ++ 59 :: ([50] ++ 59 :: (r ++ 59 :: (g ++ 59 :: b)))) ++ [109])) =
        .ok (some (.command { fg := some ⟨clampDec r, clampDec g, clampDec b, 255⟩ }))) ∧
    (∀ r g b, Digits r → Digits g → Digits b → clampDec r ≤ 255 → clampDec g ≤ 255 → 255 < clampDec b →
      decodeSgr ([27, 91] ++ (([51, 56] ++ 59 :: ([50] ++ 59 :: (r ++ 59 :: (g ++ 59 :: b)))) ++ [109])) =
        .ok (some (.command {}))) ∧
    (∀ (cs : Option (List Nat)) r g b, (∀ c, cs = some c → Digits c) → Digits r → Digits g → Digits b →
      decodeSgr ([27, 91] ++ (([51, 56] ++ 58 :: ([50] ++ 58 ::
          ((match cs with | some c => c ++ [58] | none => []) ++ (r ++ 58 :: (g ++ 58 :: b))))) ++ [109])) =
        .ok (some (.command { fg := (if clampDec r ≤ 255 ∧ clampDec g ≤ 255 ∧ clampDec b ≤ 255
          then some (SurfModel.Sgr.Rgba.mk (clampDec r) (clampDec g) (clampDec b) 255) else none) }))) ∧
    (∀ h1 w1 h2 w2, Digits h1 → Digits w1 → Digits h2 → Digits w2 →
      decodeTermSize (27 :: ((91 :: ([56] ++ ((59 :: (h1 ++ 59 :: w1)) ++ [116]))) ++
          27 :: (91 :: ([52] ++ ((59 :: (h2 ++ 59 :: w2)) ++ [116]))))) =
        .ok (some (.size (clampDec h1) (clampDec w1) (clampDec h2) (clampDec w2)))) ∧
    (∀ c, Digits c → clampDec c ∉ [27, 13, 9, 127] → ¬ (57376 ≤ clampDec c ∧ clampDec c ≤ 57398) →
      (4294967295 < clampDec c ∨ SurfModel.Payload.isScalar (clampDec c) = false ∨
        (57344 ≤ clampDec c ∧ clampDec c ≤ 63743)) →
      decodeKittyKeyboard ([27, 91] ++ (c ++ [117])) = .ok none) :=
  ⟨sgr_truecolor_bytes, sgr_truecolor_bytes_high, sgr_truecolor_colon_bytes, termSize_numeric, kittyKey_rejected⟩

/-- surrogates and twenty nines are such key codes -/
example : SurfModel.Payload.isScalar 55296 = false ∧ 4294967295 < clampDec (List.replicate 20 57) := by decide

/-! ## F. modifier words -/

/-- **Modifiers of decoded events are sets of defined flags.** Whatever key or mouse event a decoder body
    produces, on any data, its modifier word (`KeyMod::bits`) is below 512: no bit outside `KeyMod::ALL`
    (shift, alt, ctrl, super, hyper, meta, caps lock, num lock, press).  For the kitty keyboard report this is
    the masking in `KeyMod::from_bits`, for mouse reports the three-bit field plus `PRESS`. -/
theorem C02_modifiers (k : Family) (d : List Nat) (e : Event) (he : SurfModel.Payload.decode k d = .ok (some e))
    (m : Nat) (hm : modOf e = some m) : m < 512 :=
  decode_mod k d e he m hm

/-- the same for every event of the stream, literal keys included (every automaton, every chunking) -/
theorem C02_modifiers_stream {σ : Type} (A : TAuto σ) (chunks : List (List UInt8)) :
    ∃ per s, feedAll A.toAuto (init A.toAuto) chunks = .ok (per, s) ∧
      ∀ it ∈ per.flatten, ∀ e, eventOfItem A it = .ok e → ∀ m, modOf e = some m → m < 512 := by
  obtain ⟨per, s, h1, _⟩ := SurfProofs.C03.C03_conservation A.toAuto chunks
  exact ⟨per, s, h1, fun it _ e he m hm => eventOfItem_mod A it e he m hm⟩

/-- `ESC [ code ; modifiers u` on bytes, for a modifiers field of any length and size: the word is
    `(field - 1) mod 2^32 mod 512` (0 when the field is 0 or 1) -/
theorem C02_numeric_modifiers (c ms : List Nat) (hc : Digits c) (hms : Digits ms) (h32 : clampDec c ≤ 4294967295)
    (hs : SurfModel.Payload.isScalar (clampDec c) = true) (hp : ¬ (57344 ≤ clampDec c ∧ clampDec c ≤ 63743))
    (hn : clampDec c ∉ [27, 13, 9, 127]) :
    decodeKittyKeyboard ([27, 91] ++ ((c ++ 59 :: ms) ++ [117])) =
      .ok (some (.key ⟨.char (clampDec c), if clampDec ms > 1 then (clampDec ms - 1) % 4294967296 % 512 else 0⟩)) :=
  kittyKey_modifiers c ms hc hms h32 hs hp hn

/-- `ESC [ 97 ; 514 u` : shift only (514 - 1 = 0x201, the bit above `PRESS` is dropped) -/
example : Digits [57, 55] ∧ Digits [53, 49, 52] ∧ clampDec [57, 55] = 97 ∧ (clampDec [53, 49, 52] - 1) % 4294967296 % 512 = 1 := by
  refine ⟨?_, ?_, by decide, by decide⟩ <;> (intro d hd; simp at hd; omega)

end SurfProofs.C02
