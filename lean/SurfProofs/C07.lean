import SurfModel.Shape
import SurfProofs.Lemmas.Shape
import SurfProofs.Lemmas.ShapeOps
/-!
# C07 — surface views are exact, non-aliasing windows onto their parent surface

`Shape.chain ops (Shape.from h w)` is the shape the code computes for a chain of `view`/`transpose`
steps on an `h × w` surface; `specChain ops (reshape h w data)` is the window the same steps select on
the plain matrix (`List (List α)`, Python slicing, matrix transpose — no strides, no offsets).

Roots: a `SurfaceOwned` (`new`, `new_with`: `data.length = h * w`; `from_vec`: `h * w ≤ data.length`), i.e.
`Shape::from(size)` over a slice that is long enough.  A `SurfaceView::new` / `SurfaceMutView::new` with a
caller-chosen `Shape` (e.g. zero strides) is outside of the theorems: the crate itself only passes
shapes obtained from a surface by `Shape::view` there, which `Shape.chain` covers.
`hbig : h * w < usizeMax` (the iterator index is a saturating `usize`) holds for every slice that can be
allocated.
-/
namespace SurfProofs.C07
open SurfModel.Slice SurfModel.Shape SurfProofs.Lemmas.Shape

variable {α : Type}

/-- the matrix of cell numbers of an `h × w` surface: entry `(r, c)` is `r * w + c` -/
def indexMatrix (h w : Nat) : List (List Nat) := reshape h w (List.range (h * w))

/-- a view of a root with fewer than `usize::MAX` cells has fewer than `usize::MAX` cells -/
theorem window_lt (h w : Nat) (ops : List Op) (hbig : h * w < usizeMax) :
    (Shape.chain ops (Shape.from h w)).height * (Shape.chain ops (Shape.from h w)).width < usizeMax :=
  Nat.lt_of_le_of_lt (size_chain ops (Shape.from h w)) hbig

/-- **C07, `Shape::view` never underflows.** The three `usize` subtractions of `Shape::view`
(`col_end - col_start`, `row_end - row_start`, `row_end - 1`) are exact: whatever `view_bounds` returns
satisfies `start < end ≤ extent` (this is C08_range seen from the caller). -/
theorem C07_view_no_underflow (sh : Shape) (rows cols : Sel) (cs ce rs re : Nat)
    (hc : viewBounds cols sh.width = some (cs, ce)) (hr : viewBounds rows sh.height = some (rs, re)) :
    cs < ce ∧ ce ≤ sh.width ∧ rs < re ∧ re ≤ sh.height ∧ 1 ≤ re ∧
    (sh.view rows cols).width + cs = ce ∧ (sh.view rows cols).height + rs = re := by
  have ⟨h1, h2⟩ := SurfProofs.C08.C08_range cols sh.width cs ce hc
  have ⟨h3, h4⟩ := SurfProofs.C08.C08_range rows sh.height rs re hr
  simp only [Shape.view, hc, hr]
  omega
example : viewBounds (.to (-1)) 4 = some (0, 3) ∧ viewBounds (.from 1) 3 = some (1, 3) := by decide

/-- **C07, invariant.** Every shape reachable from `Shape::from(size)` by `view`/`transpose` keeps all
in-window offsets inside the root's `h * w` cells and satisfies the stride invariant. -/
theorem C07_inv (h w : Nat) (ops : List Op) :
    let sh := Shape.chain ops (Shape.from h w)
    (∀ r c, r < sh.height → c < sh.width → sh.offset r c < h * w) ∧
    (sh.col_stride * sh.width ≤ sh.row_stride ∨ sh.row_stride * sh.height ≤ sh.col_stride) ∧
    (sh.height * sh.width ≠ 0 → 0 < sh.row_stride ∧ 0 < sh.col_stride) := by
  intro sh
  have R := rel_chain ops (rel_root h w (List.range (h * w)) (by simp))
  have S := strides_chain ops (strides_root h w)
  refine ⟨?_, S.disj, S.pos⟩
  intro r c hr hc
  simpa using R.offset_lt r c hr hc

/-- **C07, no aliasing.** `(r, c) ↦ offset` is injective on the window: the obligation of the `unsafe`
block in `SurfaceMutIter::nth` (two different positions never give the same `&mut`). -/
theorem C07_injective (h w : Nat) (ops : List Op) (r1 c1 r2 c2 : Nat) :
    let sh := Shape.chain ops (Shape.from h w)
    r1 < sh.height → c1 < sh.width → r2 < sh.height → c2 < sh.width →
    sh.offset r1 c1 = sh.offset r2 c2 → r1 = r2 ∧ c1 = c2 := by
  intro sh h1 h2 h3 h4 he
  exact (strides_chain ops (strides_root h w)).offset_inj r1 c1 r2 c2 h1 h2 h3 h4 he

/-- **C07, window.** Reading position `(r, c)` through the view gives entry `(r, c)` of the window the
same chain selects on the plain matrix — for every position, inside or outside. -/
theorem C07_window (h w : Nat) (ops : List Op) (data : List α) (hlen : h * w ≤ data.length) (r c : Nat) :
    (get (Shape.chain ops (Shape.from h w)) data r c).map (·.2)
      = cellAt (specChain ops (reshape h w data)) r c :=
  (rel_chain ops (rel_root h w data hlen)).get_eq r c

/-- **C07, window (index map).** `offset ∘ (r, c)` is the index map of the matrix specification: the
cell number found at `(r, c)` after applying the chain to the matrix of cell numbers. -/
theorem C07_window_offset (h w : Nat) (ops : List Op) (r c : Nat) :
    let sh := Shape.chain ops (Shape.from h w)
    r < sh.height → c < sh.width →
    cellAt (specChain ops (indexMatrix h w)) r c = some (sh.offset r c) := by
  intro sh hr hc
  have R := rel_chain ops (rel_root h w (List.range (h * w)) (by simp))
  have hlt := R.offset_lt r c hr hc
  rw [indexMatrix, R.cell r c hr hc]
  simp only [List.length_range] at hlt
  simp [hlt, sh]

/-- **C07, presence.** `get` is `some` exactly inside the window (and then it is the cell at the
shape's offset); positions outside are reported absent. -/
theorem C07_get_some_iff (h w : Nat) (ops : List Op) (data : List α) (hlen : h * w ≤ data.length) (r c : Nat) :
    let sh := Shape.chain ops (Shape.from h w)
    ((get sh data r c).isSome ↔ (r < sh.height ∧ c < sh.width)) ∧
    (∀ off x, get sh data r c = some (off, x) → off = sh.offset r c ∧ data[off]? = some x) ∧
    getMut sh data r c = get sh data r c := by
  intro sh
  have R := rel_chain ops (rel_root h w data hlen)
  refine ⟨?_, ?_, rfl⟩
  · constructor
    · intro hs
      by_cases hin : r < sh.height ∧ c < sh.width
      · exact hin
      · have := R.get_eq r c
        rw [R.cell_none r c hin] at this
        cases hg : get sh data r c with
        | none => rw [hg] at hs; simp at hs
        | some p => rw [hg] at this; simp at this
    · intro hin
      obtain ⟨x, hx⟩ := R.cell_some r c hin.1 hin.2
      have := R.get_eq r c
      rw [hx] at this
      cases hg : get sh data r c with
      | none => rw [hg] at this; simp at this
      | some p => simp
  · intro off x hg
    unfold SurfModel.Shape.get at hg
    split at hg
    · simp at hg
    · simp only at hg
      cases hd : data[sh.offset r c]? with
      | none => rw [hd] at hg; simp at hg
      | some y =>
        rw [hd] at hg
        simp only [Option.some.injEq, Prod.mk.injEq] at hg
        obtain ⟨rfl, rfl⟩ := hg
        exact ⟨rfl, hd⟩

/-- **C07, dimensions.** A window with cells has exactly the dimensions of the matrix window; a window
without cells corresponds to a matrix window without cells. -/
theorem C07_window_dims (h w : Nat) (ops : List Op) (data : List α) (hlen : h * w ≤ data.length) :
    let sh := Shape.chain ops (Shape.from h w)
    let W := specChain ops (reshape h w data)
    (sh.height * sh.width ≠ 0 → W.length = sh.height ∧ ∀ row ∈ W, row.length = sh.width) ∧
    (sh.height * sh.width = 0 → W.flatten = []) := by
  intro sh W
  have R := rel_chain ops (rel_root h w data hlen)
  refine ⟨fun hne => ⟨(R.dims hne).1, R.row_length hne⟩, fun hz => ?_⟩
  rw [List.flatten_eq_nil_iff]
  exact R.empty hz

/-- **C07, iteration.** `iter` (and `iter_mut`) terminate within the fuel and yield exactly
`height * width` items: the cells of the matrix window in row-major order (`W.flatten`), at the offsets
of the matrix window of cell numbers (`I.flatten`), every offset once. -/
theorem C07_iter (h w : Nat) (ops : List Op) (data : List α) (hlen : h * w ≤ data.length)
    (hbig : h * w < usizeMax) :
    let sh := Shape.chain ops (Shape.from h w)
    let I := (specChain ops (indexMatrix h w)).flatten
    let W := (specChain ops (reshape h w data)).flatten
    iter sh data = some (I.zip W) ∧ iterMut sh data.length = some I ∧
    (I.zip W).map (·.1) = I ∧ (I.zip W).map (·.2) = W ∧
    I.length = sh.height * sh.width ∧ W.length = sh.height * sh.width ∧ I.Nodup := by
  intro sh I W
  have R := rel_chain ops (rel_root h w data hlen)
  have RI := rel_chain ops (rel_root h w (List.range (h * w)) (by simp))
  have S := strides_chain ops (strides_root h w)
  have hb := window_lt h w ops hbig
  have hI : I = offs sh := RI.index_flat
  rw [hI]
  exact ⟨iter_spec R hb, iterMut_spec R hb, R.zip_fst, R.zip_snd, offs_length sh, R.flat_length, offs_nodup S⟩

/-- **C07, `Iterator::nth`.** From any iterator state and for every `n` (in particular every
`n ≤ usize::MAX`), `nth(n)` skips `n` cells of the row-major window and yields the next one, or nothing
beyond the end — for `iter` and for the `unsafe` `iter_mut`.  The index saturates at `usize::MAX` instead
of wrapping, and an iterator whose index has reached `usize::MAX` never yields anything again (no cell is
ever handed out twice by one iterator: the yielded position `index + n` is strictly beyond all earlier
ones). -/
theorem C07_nth (h w : Nat) (ops : List Op) (data : List α) (hlen : h * w ≤ data.length)
    (hbig : h * w < usizeMax) (index n : Nat) :
    let sh := Shape.chain ops (Shape.from h w)
    let I := (specChain ops (indexMatrix h w)).flatten
    let W := (specChain ops (reshape h w data)).flatten
    iterNth sh data index n = (min (index + n + 1) usizeMax, (I.zip W)[index + n]?) ∧
    iterMutNth sh data.length index n = (min (index + n + 1) usizeMax, I[index + n]?) ∧
    (usizeMax ≤ index → iterNth sh data index n = (usizeMax, none) ∧
      iterMutNth sh data.length index n = (usizeMax, none)) := by
  intro sh I W
  have R := rel_chain ops (rel_root h w data hlen)
  have RI := rel_chain ops (rel_root h w (List.range (h * w)) (by simp))
  have hb := window_lt h w ops hbig
  have hI : I = offs sh := RI.index_flat
  rw [hI]
  refine ⟨iterNth_spec R hb index n, iterMutNth_spec R hb index n, ?_⟩
  intro hsat
  have hb' : sh.height * sh.width < usizeMax := hb
  have hge : sh.height * sh.width ≤ index + n := by omega
  have hmin : min (index + n + 1) usizeMax = usizeMax := by omega
  have h1 : ((offs sh).zip W)[index + n]? = none :=
    List.getElem?_eq_none (by rw [R.zip_length]; exact hge)
  have h2 : (offs sh)[index + n]? = none :=
    List.getElem?_eq_none (by rw [offs_length]; exact hge)
  rw [iterNth_spec R hb index n, iterMutNth_spec R hb index n, hmin, h1, h2]
  exact ⟨rfl, rfl⟩

/-- **C07, `with_position`.** `iter().with_position()` and `iter_mut().with_position()` — through `next`,
and through `Iterator::nth` (which `skip` and `step_by` call) — pair every cell they yield with the
position of THAT cell: from iterator state `index`, `nth(n)` yields `((k / width, k % width), L[k])` for
`k = index + n`, i.e. (position, item) pairs are the row-major enumeration of the window; when something
is yielded the iterator is at `k + 1`. -/
theorem C07_with_position (h w : Nat) (ops : List Op) (data : List α) (hlen : h * w ≤ data.length)
    (hbig : h * w < usizeMax) (index n : Nat) :
    let sh := Shape.chain ops (Shape.from h w)
    let I := (specChain ops (indexMatrix h w)).flatten
    let W := (specChain ops (reshape h w data)).flatten
    (posIterNth sh data n index).2 =
      ((I.zip W)[index + n]?).map (fun x => (((index + n) / sh.width, (index + n) % sh.width), x)) ∧
    ((posIterNth sh data n index).2.isSome → (posIterNth sh data n index).1 = index + n + 1) ∧
    (posIterMutNth sh data.length n index).2 =
      (I[index + n]?).map (fun x => (((index + n) / sh.width, (index + n) % sh.width), x)) ∧
    ((posIterMutNth sh data.length n index).2.isSome → (posIterMutNth sh data.length n index).1 = index + n + 1) := by
  intro sh I W
  have R := rel_chain ops (rel_root h w data hlen)
  have RI := rel_chain ops (rel_root h w (List.range (h * w)) (by simp))
  have hb := window_lt h w ops hbig
  have hI : I = offs sh := RI.index_flat
  rw [hI]
  have a := posIterNth_spec R hb n index
  have b := posIterMutNth_spec R hb n index
  exact ⟨a.1, a.2, b.1, b.2⟩

/-- **C07, mutators.** `fill`, `clear`, `fill_with`, `insert` never panic (`insert`: unless its index
computation overflows `usize`), write exactly the cells of the window (`touched` is the row-major list
`I` of the window's offsets, each once — or, for `insert`, the part of it the items reach), give every
written cell the intended value and leave every other cell of the parent unchanged; `set` panics exactly
for positions outside of the window and otherwise writes exactly the window's cell; `map` reads exactly
the window's cells, each once, and produces the window row-major. `Updated` is defined in
`SurfProofs/Lemmas/ShapeOps.lean`. -/
theorem C07_mutators (h w : Nat) (ops : List Op) (data : List α) (hlen : h * w ≤ data.length)
    (hbig : h * w < usizeMax) :
    let sh := Shape.chain ops (Shape.from h w)
    let Im := specChain ops (indexMatrix h w)
    let Wm := specChain ops (reshape h w data)
    let I := Im.flatten
    let W := Wm.flatten
    I.Nodup ∧ (∀ o ∈ I, o < h * w) ∧
    (∀ item, ∃ st, fill sh data item = some st ∧ st.touched = I ∧ Updated data st.data I (fun _ _ => item)) ∧
    (∀ dflt, ∃ st, clear sh data dflt = some st ∧ st.touched = I ∧ Updated data st.data I (fun _ _ => dflt)) ∧
    (∀ dflt f, ∃ st, fillWith sh data dflt f = some st ∧ st.touched = I ∧
      Updated data st.data I (fun k x => f (k / sh.width) (k % sh.width) x)) ∧
    (∀ row col items,
      (row * sh.width + col > usizeMax → SurfModel.Shape.insert sh data row col items = none) ∧
      (row * sh.width + col ≤ usizeMax →
        ∃ st, SurfModel.Shape.insert sh data row col items = some st ∧
          let ws := (I.drop (row * sh.width + col)).zip items
          st.touched = ws.map (·.1) ∧ st.data.length = data.length ∧
          (∀ i, i ∉ ws.map (·.1) → st.data[i]? = data[i]?) ∧ (∀ w ∈ ws, st.data[w.1]? = some w.2))) ∧
    (∀ row col item,
      (¬ (row < sh.height ∧ col < sh.width) → SurfModel.Shape.set sh data row col item = none) ∧
      (row < sh.height ∧ col < sh.width → ∃ off old, cellAt Im row col = some off ∧ cellAt Wm row col = some old ∧
        SurfModel.Shape.set sh data row col item = some ({ data := data.set off item, touched := [off] }, old))) ∧
    (∀ (β : Type) (f : Nat → Nat → α → β),
      map sh data f = some (W.mapIdx (fun k x => f (k / sh.width) (k % sh.width) x), I)) := by
  intro sh Im Wm I W
  have R := rel_chain ops (rel_root h w data hlen)
  have RI := rel_chain ops (rel_root h w (List.range (h * w)) (by simp))
  have S := strides_chain ops (strides_root h w)
  have hb := window_lt h w ops hbig
  have hI : I = offs sh := RI.index_flat
  rw [hI]
  refine ⟨offs_nodup S, ?_, fun item => fill_spec R S item, fun d => clear_spec R S d,
    fun d f => fillWith_spec R S d f, fun row col items => insert_spec R S hb row col items, ?_,
    fun β f => map_spec R f⟩
  · intro o ho
    have := RI.offs_lt o ho
    simpa using this
  · intro row col item
    have ⟨s1, s2⟩ := set_spec R row col item
    refine ⟨s1, fun hin => ?_⟩
    obtain ⟨old, hold, hset⟩ := s2 hin
    refine ⟨sh.offset row col, old, ?_, hold, hset⟩
    exact C07_window_offset h w ops row col hin.1 hin.2

/-- **C07, `is_empty`.** A reachable view reports itself empty exactly when its window has no cells. -/
theorem C07_is_empty (h w : Nat) (ops : List Op) :
    let sh := Shape.chain ops (Shape.from h w)
    sh.isEmpty = true ↔ sh.height * sh.width = 0 :=
  ends_chain ops (ends_root h w)

/-! Non-vacuity (the hypotheses of the theorems are `h * w ≤ data.length` and `h * w < usizeMax`): a 3 × 4 surface holding
1 … 12, transposed, rows `1..`, columns `..-1`, transposed back — a proper, strided window. -/
def exOps : List Op := [.transpose, .view (.from 1) (.to (-1)), .transpose]
def exData : List Nat := [1, 2, 3, 4, 5, 6, 7, 8, 9, 10, 11, 12]
example : 3 * 4 ≤ exData.length ∧ 3 * 4 < usizeMax := by decide
example : Shape.chain exOps (Shape.from 3 4)
    = { start := 1, end_ := 11, width := 3, height := 2, row_stride := 4, col_stride := 1 } := by decide
example : specChain exOps (indexMatrix 3 4) = [[1, 2, 3], [5, 6, 7]] := by decide
example : specChain exOps (reshape 3 4 exData) = [[2, 3, 4], [6, 7, 8]] := by decide
example : (get (Shape.chain exOps (Shape.from 3 4)) exData 1 2, get (Shape.chain exOps (Shape.from 3 4)) exData 1 3)
    = (some (7, 8), none) := by decide
example : iter (Shape.chain exOps (Shape.from 3 4)) exData
    = some [(1, 2), (2, 3), (3, 4), (5, 6), (6, 7), (7, 8)] := by decide
example : (fill (Shape.chain exOps (Shape.from 3 4)) exData 0).map (fun st => (st.data, st.touched))
    = some ([1, 0, 0, 0, 5, 0, 0, 0, 9, 10, 11, 12], [1, 2, 3, 5, 6, 7]) := by decide
example : (SurfModel.Shape.insert (Shape.chain exOps (Shape.from 3 4)) exData 0 2 [70, 80, 90]).map (·.data)
    = some [1, 2, 3, 70, 5, 80, 90, 8, 9, 10, 11, 12] := by decide
example : (SurfModel.Shape.insert (Shape.chain exOps (Shape.from 3 4)) exData (2 ^ 63) 0 [70]).map (·.data) = none := by
  decide
/-- `nth(usize::MAX)` saturates: nothing is yielded afterwards, no cell twice -/
example : iterMutNthSeq (Shape.chain exOps (Shape.from 3 4)) 12 [0, usizeMax, 0, usizeMax - 3] 0
    = [some 1, none, none, none] := by decide
/-- positions reported by `with_position().step_by(2)` (= `next`, then `nth(1)`, …) on the strided window -/
example : posIterMutNthSeq (Shape.chain exOps (Shape.from 3 4)) 12 [0, 1, 1, 1] 0
    = [some ((0, 0), 1), some ((0, 2), 3), some ((1, 1), 6), none] := by decide
/-- `set` outside of the window (but inside the parent) panics, inside it writes one cell -/
example : SurfModel.Shape.set (Shape.chain exOps (Shape.from 3 4)) exData 0 3 0 = none := by decide
example : (SurfModel.Shape.set (Shape.chain exOps (Shape.from 3 4)) exData 1 2 0).map (fun p => (p.1.data, p.2))
    = some ([1, 2, 3, 4, 5, 6, 7, 0, 9, 10, 11, 12], 8) := by decide
/-- a `from_vec` root: two cells more than `h * w` -/
example : 3 * 4 ≤ (exData ++ [13, 14]).length ∧
    (fill (Shape.chain exOps (Shape.from 3 4)) (exData ++ [13, 14]) 0).map (·.data)
      = some [1, 0, 0, 0, 5, 0, 0, 0, 9, 10, 11, 12, 13, 14] := by decide
/-- zero extents and a window that dies: a 3 × 0 surface transposed, and an out-of-range row index -/
example : (Shape.chain [.transpose] (Shape.from 3 0)).height = 0 ∧ specChain [.transpose] (reshape 3 0 ([] : List Nat)) = [] := by decide
example : Shape.chain [.view (.idxS 3) .full] (Shape.from 3 4) = ⟨0, 0, 0, 0, 0, 0⟩ := by decide

end SurfProofs.C07
