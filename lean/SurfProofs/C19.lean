import SurfModel.Serde
import SurfProofs.Lemmas.Serde
import SurfProofs.Lemmas.SerdeImage
import SurfProofs.C18
/-!
# C19 — serialised forms round-trip; the image visitor never panics

Property theorems only; helper lemmas are in `SurfProofs/Lemmas/Serde.lean` (attribute words, text form of
`Face`) and `SurfProofs/Lemmas/SerdeImage.lean` (image visitor).  Model: `SurfModel/Serde.lean`.
Deserialisation of glyph / text / view-tree documents runs through `serde_json` and `rasterize`, which are not
modelled: that part of the property is covered by structured generation only (see `checks/C19.json`).
-/
namespace SurfProofs.C19
open SurfModel.Serde SurfModel.Serde.FaceAttrs
open SurfModel.KeyParse (splitOn)

/-! ## attribute words -/

/-- the named constants of `FaceAttrs` (`Default` is `EMPTY`) -/
def namedConstants : List FaceAttrs :=
  [EMPTY, UNDERLINE, UNDERLINE_DOUBLE, UNDERLINE_CURLY, UNDERLINE_DOTTED, UNDERLINE_DASHED,
   BOLD, ITALIC, BLINK, REVERSE, STRIKE]

/-- The values a user of the crate can build: the field `bits` is private, so every value comes from a named
    constant or `From<UnderlineStyle>` through the public operators — by value or compound assignment. -/
inductive Reachable : FaceAttrs → Prop
  | const (c : FaceAttrs) (h : c ∈ namedConstants) : Reachable c
  | ofUnderline (u : Nat) (h : u ≤ 5) : Reachable (ofUnderline u)
  | bitor {a b} : Reachable a → Reachable b → Reachable (a.bitor b)
  | bitand {a b} : Reachable a → Reachable b → Reachable (a.bitand b)
  | bitxor {a b} : Reachable a → Reachable b → Reachable (a.bitxor b)
  | insert {a b} : Reachable a → Reachable b → Reachable (a.insert b)
  | remove {a b} : Reachable a → Reachable b → Reachable (a.remove b)
  | bitorAssign {a b} : Reachable a → Reachable b → Reachable (a.bitorAssign b)
  | bitandAssign {a b} : Reachable a → Reachable b → Reachable (a.bitandAssign b)
  | bitxorAssign {a b} : Reachable a → Reachable b → Reachable (a.bitxorAssign b)

/-- **C19, attribute words.** Every reachable `FaceAttrs` value is canonical: its underline field is one of
    the six styles (never 6 or 7) and no bit above the five flags is set. -/
theorem C19_attrs_canonical (a : FaceAttrs) (h : Reachable a) : Canonical a := by
  induction h with
  | const c hc =>
    simp only [namedConstants, List.mem_cons, List.not_mem_nil, or_false] at hc
    rcases hc with rfl | rfl | rfl | rfl | rfl | rfl | rfl | rfl | rfl | rfl | rfl <;> decide
  | ofUnderline u hu => exact pack_canonical hu (by decide)
  | bitor _ _ ha hb => exact bitor_canonical ha hb
  | bitand _ _ ha hb => exact bitand_canonical ha hb
  | bitxor _ _ ha hb => exact bitxor_canonical ha hb
  | insert _ _ ha hb => exact insert_canonical ha hb
  | remove _ _ ha hb => exact remove_canonical ha hb
  | bitorAssign _ _ ha hb => exact bitor_canonical ha hb
  | bitandAssign _ _ ha hb => exact bitand_canonical ha hb
  | bitxorAssign _ _ ha hb => exact bitxor_canonical ha hb

/-- the statement has content: the raw bit operations the compound assignments used before the repair leave
    the canonical words (`UNDERLINE_DOTTED |= UNDERLINE_CURLY` gave the underline field 7), while the
    repaired `|=` of the same operands is reachable and canonical -/
example : ¬ Canonical ⟨UNDERLINE_DOTTED.bits ||| UNDERLINE_CURLY.bits⟩ ∧
    UNDERLINE_DOTTED.bitorAssign UNDERLINE_CURLY = UNDERLINE_CURLY ∧
    Reachable ((BOLD.bitorAssign UNDERLINE).bitxorAssign (ITALIC.bitor UNDERLINE_DASHED)) := by
  refine ⟨by decide, by decide, ?_⟩
  exact .bitxorAssign (.bitorAssign (.const _ (by decide)) (.const _ (by decide)))
    (.bitor (.const _ (by decide)) (.const _ (by decide)))

/-! ## faces -/

/-- **C19, faces.** A face printed as text parses back to the same face: for every foreground and background
    (absent or any RGBA value, any alpha), every canonical attribute word, and whatever colour-name table the
    parser is given. (`Serialize` writes this text as a JSON string, `Deserialize` parses the string.)
    Stated for the full parser (`parseFaceWith`: the `/alpha` suffix handled, its float arithmetic a parameter)
    and for the parser the driver runs (`parseFace`). -/
theorem C19_face (named : List Char → Option RGBA) (f : Face) (h : Canonical f.attrs) :
    parseFace named (printFace f) = .ok f ∧
    ∀ alpha : List Char → Option (UInt8 → UInt8), parseFaceWith alpha named (printFace f) = .ok f :=
  ⟨face_roundtrip _ (parse_printRGBA named) f h, fun alpha => face_roundtrip _ (parseWith_printRGBA alpha named) f h⟩

/-- **C19, face strings are total.** For every string, every colour table and every behaviour of the float
    parser / alpha scaling, `Face::from_str_named` returns a face or a parse error: the model has no other
    outcome (no slice, index or arithmetic of that code can fail — the suffix is cut at the one-byte `/`, the
    float-to-`u8` cast saturates), and the `unmodelled` answer of the driver's parser does not occur. -/
theorem C19_face_parse_total (alpha : List Char → Option (UInt8 → UInt8)) (named : List Char → Option RGBA)
    (s : List Char) :
    (∃ f, parseFaceWith alpha named s = .ok f) ∨ parseFaceWith alpha named s = .error .parseError :=
  faceFold_total _ (parseRGBAWith_total alpha named) _ _

/-- the suffix branch is live: `#102030/x` with a scaling that halves the alpha byte -/
example : parseRGBAWith (fun _ => some (fun a => a / 2)) (fun _ => none) "#102030/x".toList = .ok ⟨16, 32, 48, 127⟩ := by
  decide

/-- in particular for every face whose attributes were built through the public API -/
theorem C19_face_reachable (named : List Char → Option RGBA) (f : Face) (h : Reachable f.attrs) :
    parseFace named (printFace f) = .ok f :=
  (C19_face named f (C19_attrs_canonical f.attrs h)).1

/-- the hypothesis of `C19_face` holds e.g. for a translucent foreground, an opaque background, curly
    underline + bold + strike; the printed text is `fg=#0a141e80,bg=#ffffff,underline_curly,bold,strike` -/
example : Canonical (pack 3 17) ∧
    printFace ⟨some ⟨10, 20, 30, 128⟩, some ⟨255, 255, 255, 255⟩, pack 3 17⟩ =
      "fg=#0a141e80,bg=#ffffff,underline_curly,bold,strike".toList := by
  refine ⟨by decide, by decide⟩

/-! ## sizes -/

/-- **C19, sizes.** A `Size` whose dimensions fit `usize` survives the derived serialisation followed by the
    derived deserialisation, and its `Display` text parses back to it. -/
theorem C19_size (s : Size) (hh : s.height < USIZE) (hw : s.width < USIZE) :
    Size.de s.ser = some s ∧ parseSize (printSize s) = some s :=
  ⟨size_serde s hh hw, size_text s hh hw⟩

example : (⟨2 ^ 64 - 1, 0⟩ : Size).height < USIZE ∧ (⟨2 ^ 64 - 1, 0⟩ : Size).width < USIZE := by decide

/-! ## key chords -/

open SurfModel.KeyParse in
/-- **C19, key chords.** Every chord that can be written in the textual chord syntax (`parseChord` accepts
    some string `s`) is printed by `Display` — which is what `Serialize` writes as a JSON string — as a text that
    `FromStr` — which is what `Deserialize` applies to the string — parses back to the same chord.
    Corollary of `C18_print_parse`; `low` is Rust's `char::to_lowercase`, of which `LowOK` is assumed. -/
theorem C19_chord (low : Char → List Char) (hl : SurfProofs.C18.LowOK low) (s : List Char) (ks : List Key)
    (h : parseChord low s = .ok ks) : parseChord low (printChord ks) = .ok ks :=
  (SurfProofs.C18.C18_print_parse low hl s).2.2 ks h

/-! ## images -/

open SurfModel.Shape (Shape) in
/-- **C19, image input formats.** For each of the three channel layouts, a document `size`, `channels`,
    `data` whose data (RFC 4648 text of `bytes`) has exactly `channels × height × width` bytes (a number that
    fits `usize`) deserialises —
    under every sufficient buffer schedule of `read_to_end` — to the `height × width` image whose pixels are
    the consecutive byte groups read as grey (`v → (v,v,v,255)`), RGB (`→ (r,g,b,255)`) or RGBA. -/
theorem C19_image_channels (sched : Nat → List Nat) (hs : Sufficient sched) (ch h w : Nat) (bytes : List UInt8)
    (hch : ch = 1 ∨ ch = 3 ∨ ch = 4) (hlen : bytes.length = ch * h * w) (hfit : ch * h * w < USIZE) :
    ∃ img, visit sched [.size h w, .channels ch, .data (SurfModel.Base64.rfcEncode bytes)] = .ok img ∧
      img.shape = Shape.from h w ∧ img.data = groupPixels ch bytes :=
  visit_channels sched hs ch h w bytes hch hlen hfit

/-- a 1 × 2 grey document: the hypotheses are met and the pixels are as documented -/
example : ([7, 9] : List UInt8).length = 1 * 1 * 2 ∧ 1 * 1 * 2 < USIZE ∧
    groupPixels 1 [7, 9] = [⟨7, 7, 7, 255⟩, ⟨9, 9, 9, 255⟩] ∧
    groupPixels 3 [1, 2, 3, 4, 5, 6] = [⟨1, 2, 3, 255⟩, ⟨4, 5, 6, 255⟩] := by decide

open SurfModel.Shape in
/-- **C19, images.** Take any image of `h × w` pixels held in memory (its `4·h·w` bytes fit `usize`) and any
    chain of crops (`Image::crop`, i.e. `Shape::view`; transposition is allowed too): serialising the view and
    deserialising the document — under every sufficient buffer schedule — yields an image of the view's height
    and width whose pixels are, in row-major order, exactly the cells of the corresponding window of the
    original pixel matrix (`specChain`, the Python-slice sub-matrix of `reshape h w data`) — which is also what
    reading the view cell by cell through `get` gives: the serialiser walked the rows with the parent's stride.
    (Images without pixels are included: `h` or `w` may be 0 while the other is arbitrarily large.) -/
theorem C19_image (sched : Nat → List Nat) (hs : Sufficient sched) (h w : Nat) (data : List RGBA) (ops : List Op)
    (hlen : data.length = h * w) (hroot : 4 * (h * w) < USIZE) :
    ∃ doc img, (Image.mk data (Shape.chain ops (Shape.from h w))).serialize = .ok doc ∧ visit sched doc = .ok img ∧
      img.shape = Shape.from (Shape.chain ops (Shape.from h w)).height (Shape.chain ops (Shape.from h w)).width ∧
      img.data = (specChain ops (reshape h w data)).flatten ∧
      ∀ r c, (get (Shape.chain ops (Shape.from h w)) data r c).map (·.2) = cellAt (specChain ops (reshape h w data)) r c :=
  image_roundtrip sched hs h w data ops hlen hroot

/-- the hypotheses are met by a 2 × 3 image cropped to its last two columns; the window is as expected -/
example : ([⟨1,1,1,1⟩, ⟨2,2,2,2⟩, ⟨3,3,3,3⟩, ⟨4,4,4,4⟩, ⟨5,5,5,5⟩, ⟨6,6,6,6⟩] : List RGBA).length = 2 * 3 ∧
    4 * (2 * 3) < USIZE ∧
    (SurfModel.Shape.Shape.chain [.view .full (.from 1)] (SurfModel.Shape.Shape.from 2 3)).width = 2 ∧
    SurfModel.Shape.specChain [.view .full (.from 1)]
      (SurfModel.Shape.reshape 2 3 ([⟨1,1,1,1⟩, ⟨2,2,2,2⟩, ⟨3,3,3,3⟩, ⟨4,4,4,4⟩, ⟨5,5,5,5⟩, ⟨6,6,6,6⟩] : List RGBA)) =
      [[⟨2,2,2,2⟩, ⟨3,3,3,3⟩], [⟨5,5,5,5⟩, ⟨6,6,6,6⟩]] := by decide

/-- **C19, the image visitor is total.** For every sequence of map entries (any order, repeated and missing
    keys, ill-typed values, any `usize` sizes and channel counts, any text as `data` — valid base64 or not) and
    every buffer schedule the visitor never panics: no multiplication, addition or index is out of range; and
    under a sufficient schedule it returns a value or an error. -/
theorem C19_image_total (sched : Nat → List Nat) (doc : List Entry) :
    visit sched doc ≠ .panic ∧ (Sufficient sched → visit sched doc = .err ∨ ∃ img, visit sched doc = .ok img) :=
  ⟨visit_ne_panic sched doc, fun hs => visit_ok_or_err sched hs doc⟩

/-- `defaultSched` (what the driver uses) is sufficient, so the second half is not vacuous -/
example : Sufficient defaultSched := defaultSched_sufficient

/-! ## arbitrary JSON documents -/

/-- the deserialisers the model does not contain (they run through `serde_json::Value` and `rasterize`), and
    layout + rendering of a deserialised view under an environment (context, constraint, target surface) -/
structure Deserialisers (Glyph Text View Env : Type) where
  glyph : Json → Outcome Glyph
  text : Json → Outcome Text
  view : Json → Outcome View
  layoutRender : View → Env → Outcome Unit

/-- **The last sentence of C19 in full** (a statement, not a theorem): deserialising any JSON value as an
    image, glyph, text or view tree returns a value or an error, never a panic; and every view tree that
    deserialises lays out and renders (returns `Ok`, read strictly: an `Err` from layout or render of a
    deserialised view counts as a failure) under every environment. -/
def C19_documents_full {Glyph Text View Env : Type} (sched : Nat → List Nat) (D : Deserialisers Glyph Text View Env) : Prop :=
  ∀ j : Json,
    deImage sched j ≠ .panic ∧ D.glyph j ≠ .panic ∧ D.text j ≠ .panic ∧ D.view j ≠ .panic ∧
    ∀ v, D.view j = .ok v → ∀ env, D.layoutRender v env = .ok ()

/-- **What is proved of it: the image component**, for every JSON value (objects with members in any order,
    repeated or missing, of any type; non-objects) and every buffer schedule: no panic, and a value or an error
    under a sufficient schedule.  The glyph / text / view-tree components and layout + rendering are NOT
    modelled (`Deserialisers` is abstract); they are covered by structured generation in the harness only. -/
theorem C19_documents_partial (sched : Nat → List Nat) (j : Json) :
    deImage sched j ≠ .panic ∧ (Sufficient sched → deImage sched j = .err ∨ ∃ img, deImage sched j = .ok img) := by
  cases j with
  | obj ms => exact C19_image_total sched (ms.map Json.entry)
  | _ => exact ⟨by simp [deImage], fun _ => Or.inl rfl⟩

/-- the full statement reduces to its unmodelled part: given the three other deserialisers never panic and
    deserialised views lay out and render, `C19_documents_full` holds -/
theorem C19_documents_full_of_unmodelled {Glyph Text View Env : Type} (sched : Nat → List Nat)
    (D : Deserialisers Glyph Text View Env)
    (h : ∀ j, D.glyph j ≠ .panic ∧ D.text j ≠ .panic ∧ D.view j ≠ .panic ∧
      ∀ v, D.view j = .ok v → ∀ env, D.layoutRender v env = .ok ()) :
    C19_documents_full sched D :=
  fun j => ⟨(C19_documents_partial sched j).1, h j⟩

/-- a JSON object with a repeated `data` key and an ill-typed `channels`: the visitor's entries -/
example : (([(kData, .str [65, 65, 65, 65]), (kSize, .arr [.nat 1, .nat 1]), (kData, .null), (kChannels, .num)]
    : List (List UInt8 × Json)).map Json.entry) = [.data [65, 65, 65, 65], .size 1 1, .bad, .bad] := by decide

end SurfProofs.C19
