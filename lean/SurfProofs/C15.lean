import SurfProofs.Lemmas.ToNFA
import SurfProofs.Lemmas.Tags
import SurfProofs.Lemmas.AliveRe
import SurfProofs.Lemmas.AliveAt
import SurfProofs.Lemmas.Subset
/-!
# C15 — compiled automata accept exactly the language of the expression that built them

Model: `SurfModel.Automata` (numbered NFAs mirroring `src/automata.rs`, lazy subset automaton as the
observational model of `NFA::compile` + the `DFA` API).  Specification: `Re.Matches`, the textbook inductive
matching relation on expressions built from literal, predicate, sequence, choice, optional, one-or-more,
zero-or-more, empty, nothing (and `tag`, which does not change the language).
-/
namespace SurfProofs.C15
open SurfModel.Automata SurfProofs.Graph SurfProofs.NFASem SurfProofs.NFAGraph SurfProofs.NFALang SurfProofs.Subset
open SurfProofs.ToNFA SurfProofs.Tags SurfProofs.Alive

/-- **Language.** The DFA compiled from the automaton of any combinator expression accepts a byte string
    iff the expression matches it. -/
theorem C15_language (e : Re) (w : List UInt8) : e.toNFA.compile.matches w = true ↔ e.Matches w :=
  (matches_iff_lang _ _).trans ((toNFA_spec e).2 w)

/-- the executable matcher the driver uses as oracle (`c15 match`) decides the specification -/
theorem C15_matchB (e : Re) (w : List UInt8) : e.matchB w = true ↔ e.Matches w := SurfProofs.ReMatch.matchB_iff e w

/-- the one-pass row computation the driver uses in the bisimulation check is `targets` -/
theorem C15_driver_row (n : NFA) (S : List Nat) (b : UInt8) :
    (Wire.targetsRow n S)[b.toNat]? = some (targets n S b) := targetsRow_get n S b

/-- **Stepping is deterministic and total; a dead transition is reported, never a wrong state.**
    For every WELL-FORMED automaton `n` (all ids it mentions are state ids — the automata of expressions are,
    `C15_wf`; the model answers "no edges" for a missing state where the Rust code would panic on the index,
    so without `WF` the statement would hold by totalisation) and every input `w` the run is a function of `w`, and
    * it is dead (`none`) exactly when no NFA state is reachable reading `w`;
    * otherwise the DFA state is exactly the set of NFA states reachable reading `w`, every member is a state
      id (no lookup falls into the panic branch), in canonical (strictly increasing) form — so two inputs that
      reach the same NFA states reach the *same* DFA state;
    * the run is the iteration of the one-step `transition`. -/
theorem C15_deterministic_total (n : NFA) (hwf : WF n) (w : List UInt8) :
    (n.compile.run w = none ↔ ∀ q, ¬ Reach n w q) ∧
    (∀ S, n.compile.run w = some S →
      S.Pairwise (· < ·) ∧ (∀ q, q ∈ S ↔ Reach n w q) ∧ ∀ q ∈ S, q < n.states.length) ∧
    (∀ S w' S', n.compile.run w = some S → n.compile.run w' = some S' →
      (∀ q, Reach n w q ↔ Reach n w' q) → S = S') ∧
    (∀ b, n.compile.run (w ++ [b]) = (n.compile.run w).bind fun S => n.compile.transition S b) := by
  refine ⟨run_eq_none_iff n w, fun S h => ⟨run_sorted n w S h, mem_run n w S h, fun q hq => ?_⟩, ?_, ?_⟩
  · exact reach_lt n hwf ((mem_run n w S h q).mp hq)
  · intro S w' S' h h' hq
    refine sorted_ext (run_sorted n w S h) (run_sorted n w' S' h') (fun q => ?_)
    rw [mem_run n w S h, mem_run n w' S' h', hq]
  · intro b
    rw [run_append]
    cases n.compile.run w with
    | none => rfl
    | some S =>
      simp only [DFA.transitionMany, Option.bind_some]
      cases n.compile.transition S b <;> rfl

/-- the automaton of every expression is well formed: start, stop and every edge target are state ids, so
    neither `compile` nor `epsilon_closure` indexes a missing state -/
theorem C15_wf (e : Re) : WF e.toNFA := (toNFA_spec e).1

example : WF (Re.opt (Re.seq [.plus (.lit [97]), .lit [98]])).toNFA := C15_wf _

/-- a dead input has no matching extension -/
theorem C15_dead (e : Re) (w : List UInt8) (h : e.toNFA.compile.run w = none) (v : List UInt8) :
    ¬ e.Matches (w ++ v) := by
  intro hm
  have hl : Lang e.toNFA (w ++ v) := ((toNFA_spec e).2 _).mpr hm
  obtain ⟨r, p1, _⟩ := Path.append_inv hl
  exact (run_eq_none_iff _ _).mp h r p1

example : (Re.lit [97]).toNFA.compile.run [98] = none := by decide

/-- **Terminal.** A state is reported terminal only if no byte can extend the match. -/
theorem C15_terminal (e : Re) (w : List UInt8) (S : DState) (h : e.toNFA.compile.run w = some S)
    (ht : e.toNFA.compile.isTerminal S = true) (b : UInt8) (v : List UInt8) : ¬ e.Matches (w ++ b :: v) := by
  intro hm
  have := terminal_no_extension e.toNFA w S h ht b v
  rw [(C15_language e _).mpr hm] at this
  cases this

example : (Re.lit [97]).toNFA.compile.run [97] = some [1] ∧
    (Re.lit [97]).toNFA.compile.isTerminal [1] = true := by decide

/-- terminal is exactly "the whole row is empty" -/
theorem C15_terminal_iff (n : NFA) (S : DState) :
    n.compile.isTerminal S = true ↔ ∀ b, n.compile.transition S b = none := isTerminal_iff _ S


/-- the tags a choice reports after `w` are the tags its alternatives report after `w`
    (any well-formed operand automata, tags anywhere inside them) -/
theorem C15_tags_choice (ns : List NFA) (hwf : ∀ n ∈ ns, WF n) (w : List UInt8) (t : Nat) :
    t ∈ (NFA.choice ns).compile.tagsAfter w ↔ ∃ n ∈ ns, t ∈ n.compile.tagsAfter w := by
  simp only [mem_tagsAfter_iff]
  exact choice_tagReach ns hwf w t

example : ∀ n ∈ [(Re.lit [97]).toNFA, (Re.plus (Re.tag 3 (Re.lit [98]))).toNFA], WF n := by
  intro n hn
  simp at hn
  rcases hn with rfl | rfl <;> exact (toNFA_spec _).1

/-- `tags_map` renames the reported tags and changes nothing else -/
theorem C15_tags_map (n : NFA) (f : Nat → Nat) (w : List UInt8) (t : Nat) :
    (t ∈ (n.tagsMap f).compile.tagsAfter w ↔ ∃ t', t' ∈ n.compile.tagsAfter w ∧ f t' = t) ∧
    ((n.tagsMap f).compile.matches w = n.compile.matches w) := by
  constructor
  · simp only [mem_tagsAfter_iff]
    exact tagsMap_tagReach n f w t
  · have h := tagsMap_lang n f w
    rw [← matches_iff_lang, ← matches_iff_lang] at h
    cases h1 : (n.tagsMap f).compile.matches w <;> cases h2 : n.compile.matches w <;> simp_all

/-- **Tags, every reachable state, tags anywhere, re-tagging included.** For EVERY expression and EVERY input
    `w` — accepting or not — the tags reported after consuming `w` are exactly the tags the expression has
    completed on `w` (`AliveAt false`, an inductive definition on expressions: the tagged sub-expression matched a
    suffix of `w` after everything before it matched the prefix; `tag t e` shows `t` when `e` has matched and
    keeps the tags of `e` that do not sit on `e`'s stop state — the documented behaviour of `tag_stop_state`:
    the new tag REPLACES the one that was there). -/
theorem C15_tags_alive (e : Re) (w : List UInt8) (t : Nat) :
    t ∈ e.toNFA.compile.tagsAfter w ↔ AliveAt false e w t := by
  rw [mem_tagsAfter_iff]
  exact (aliveAt_spec e).1 w t

/-- re-tagging replaces: `word = "ab"<1>`, `word | ("x" word)<2> | (word+)<3>` -/
example : (Re.alt [.tag 1 (.lit [97, 98]), .tag 2 (.seq [.lit [120], .tag 1 (.lit [97, 98])]),
    .tag 3 (.plus (.tag 1 (.lit [97, 98])))]).toNFA.compile.tagsAfter [120, 97, 98] = [2] := by decide
example : (Re.alt [.tag 1 (.lit [97, 98]), .tag 2 (.seq [.lit [120], .tag 1 (.lit [97, 98])]),
    .tag 3 (.plus (.tag 1 (.lit [97, 98])))]).toNFA.compile.tagsAfter [97, 98] = [1, 3] := by decide

/-- the same with the simpler relation `Alive`, for expressions in which no `tag_stop_state` lands on an
    already tagged state -/
theorem C15_tags_alive_noretag (e : Re) (h : NoRetag e) (w : List UInt8) (t : Nat) :
    t ∈ e.toNFA.compile.tagsAfter w ↔ Alive e w t := by
  rw [mem_tagsAfter_iff]
  exact alive_spec e h w t

example : NoRetag (.seq [.lit [60], .alt [.tag 1 (.lit [97]), .tag 2 (.plus (.lit [98])), .tag 3 (.lit [97, 98]),
    .tag 4 (.seq [.lit [97], .star (.lit [98])])], .lit [62]]) := by
  refine NoRetag.seq ?_
  intro e he; simp at he
  rcases he with rfl | rfl | rfl
  · exact NoRetag.lit _
  · refine NoRetag.alt ?_
    intro e he; simp at he
    rcases he with rfl | rfl | rfl | rfl
    · exact NoRetag.tag (NoRetag.lit _) rfl
    · exact NoRetag.tag (NoRetag.plus (NoRetag.lit _)) rfl
    · exact NoRetag.tag (NoRetag.lit _) rfl
    · refine NoRetag.tag (NoRetag.seq ?_) rfl
      intro e he; simp at he
      rcases he with rfl | rfl
      · exact NoRetag.lit _
      · exact NoRetag.star (NoRetag.lit _)
  · exact NoRetag.lit _

/-- `"<" (a<1> | b+<2> | ab<3> | ab*<4>) ">"` after `<a` (not accepting): tags 1 and 4;
    `(x<7>)? y` after `x`: tag 7 -/
example : (Re.seq [.lit [60], .alt [.tag 1 (.lit [97]), .tag 2 (.plus (.lit [98])), .tag 3 (.lit [97, 98]),
    .tag 4 (.seq [.lit [97], .star (.lit [98])])], .lit [62]]).toNFA.compile.tagsAfter [60, 97] = [1, 4] := by decide
example : (Re.seq [.opt (.tag 7 (.lit [120])), .lit [121]]).toNFA.compile.tagsAfter [120] = [7] := by decide

/-- **Tags, production shape** (`MatcherAutomata::new`, decoder.rs): the automaton is
    `choice(matchers.enumerate().map(|(i, m)| match m { Left(n) => n.tags_map(|_| Matcher(i)).tag_stop_state(Matcher(i)),
    Right(n) => n.tags_map(Item) }))`, with `mk i` for `Matcher(i)` and `it t` for `Item(t)`.  For arbitrary
    well-formed operands (inner tags allowed) tag `t` is reported after `w` iff some matcher `i` reports it:
    a `Left` matcher reports `Matcher(i)` exactly when it accepts `w` or one of its own (erased) tags is alive
    after `w`; a `Right` matcher reports the wrapped tags it reports itself.  The language is the union. -/
theorem C15_tags_production (mk it : Nat → Nat) (ms : List MatcherNFA) (hwf : ∀ m ∈ ms, WF m.nfa)
    (w : List UInt8) :
    (∀ t, t ∈ (matcherAutomaton mk it ms).compile.tagsAfter w ↔
      ∃ i m, ms[i]? = some m ∧ ReportedD mk it i m w t) ∧
    ((matcherAutomaton mk it ms).compile.matches w = true ↔ ∃ m ∈ ms, m.nfa.compile.matches w = true) := by
  constructor
  · intro t
    rw [mem_tagsAfter_iff, matcherAutomaton_tagReach mk it ms hwf]
    simp only [reportedD_iff]
  · rw [matches_iff_lang, matcherAutomaton_lang mk it ms hwf]
    simp only [matches_iff_lang]

/-- the production-shaped automata the harness builds through the public API are compared (dump equality,
    bisimulation) with `Wire.prodNFA`, which is `matcherAutomaton` -/
theorem C15_driver_prod (ms : List (Bool × Re)) :
    Wire.prodNFA ms = matcherAutomaton (1000 + ·) id
      (ms.map fun m => if m.1 then MatcherNFA.parsed m.2.toNFA else MatcherNFA.items m.2.toNFA) := prodNFA_eq ms

/-- the same over expressions, as used by the decoder: parsed matchers with tag-free grammars report
    `Matcher(i)` exactly on the strings their grammar matches; the item matcher (a choice of tagged literals)
    reports `Item(t)` for exactly the alternatives that match -/
theorem C15_tags_production_re (mk it : Nat → Nat) (ms : List MatcherRe) (htf : ∀ m ∈ ms, m.TagFree)
    (w : List UInt8) (t : Nat) :
    t ∈ (matcherAutomaton mk it (ms.map MatcherRe.toMatcherNFA)).compile.tagsAfter w ↔
      ∃ i m, ms[i]? = some m ∧ ReportedRe mk it i m w t := by
  have hwf : ∀ m ∈ ms.map MatcherRe.toMatcherNFA, WF m.nfa := by
    intro m hm
    obtain ⟨m', _, rfl⟩ := List.mem_map.mp hm
    exact matcherRe_wf m'
  rw [mem_tagsAfter_iff, matcherAutomaton_tagReach mk it _ hwf]
  constructor
  · rintro ⟨i, m, hm, h⟩
    rw [List.getElem?_map] at hm
    cases hm' : ms[i]? with
    | none => simp [hm'] at hm
    | some m' =>
      simp [hm'] at hm; subst hm
      exact ⟨i, m', hm', (reportedRe_iff mk it i m' (htf m' (List.mem_of_getElem? hm')) w t).mp h⟩
  · rintro ⟨i, m, hm, h⟩
    exact ⟨i, m.toMatcherNFA, by rw [List.getElem?_map, hm]; rfl,
      (reportedRe_iff mk it i m (htf m (List.mem_of_getElem? hm)) w t).mpr h⟩

example : ∀ m ∈ [MatcherRe.parsed (.seq [.lit [27, 91], .plus (.pred [(48, 57)]), .lit [82]]),
    MatcherRe.items [(.lit [27, 91, 65], some 7), (.lit [27, 91, 66], some 8)]], m.TagFree := by
  intro m hm
  simp at hm
  rcases hm with rfl | rfl
  · exact TagFree.seq (by
      intro e he; simp at he
      rcases he with rfl | rfl | rfl
      · exact TagFree.lit _
      · exact TagFree.plus (TagFree.pred _)
      · exact TagFree.lit _)
  · intro a ha; simp at ha
    rcases ha with rfl | rfl <;> exact TagFree.lit _

example : (matcherAutomaton (· + 1000) id
    ([MatcherRe.parsed (.seq [.lit [27, 91], .plus (.pred [(48, 57)]), .lit [82]]),
      MatcherRe.items [(.lit [27, 91, 65], some 7), (.lit [27, 91, 66], some 8)]].map
        MatcherRe.toMatcherNFA)).compile.tagsAfter [27, 91, 49, 82] = [1000] := by decide

/-- **Tags.** When the alternatives of a choice carry tags (some may carry none, tags may repeat), the tags
    reported after consuming `w` are exactly the tags of the alternatives that match `w`; the report is a
    strictly increasing list (a set). -/
theorem C15_tags (alts : List (Re × Option Nat)) (htf : ∀ a ∈ alts, TagFree a.1) (w : List UInt8) :
    (∀ t, t ∈ (Re.altT alts).toNFA.compile.tagsAfter w ↔ ∃ a ∈ alts, a.2 = some t ∧ a.1.Matches w) ∧
    ((Re.altT alts).toNFA.compile.tagsAfter w).Pairwise (· < ·) := by
  constructor
  · intro t
    have hwf : ∀ n ∈ (alts.map Re.tagged).map Re.toNFA, WF n := by
      intro n hn
      obtain ⟨e, _, rfl⟩ := List.mem_map.mp hn
      exact (toNFA_spec e).1
    rw [Re.altT, Re.toNFA, toNFAs_eq, mem_tagsAfter_iff, choice_tagReach _ hwf]
    constructor
    · rintro ⟨n, hn, h⟩
      obtain ⟨e, he, rfl⟩ := List.mem_map.mp hn
      obtain ⟨a, ha, rfl⟩ := List.mem_map.mp he
      exact ⟨a, ha, (tagged_tagReach a (htf a ha) w t).mp h⟩
    · rintro ⟨a, ha, h⟩
      exact ⟨_, List.mem_map.mpr ⟨_, List.mem_map.mpr ⟨a, ha, rfl⟩, rfl⟩, (tagged_tagReach a (htf a ha) w t).mpr h⟩
  · unfold DFA.tagsAfter
    split
    · exact tags_sorted _ _
    · exact List.Pairwise.nil

example : ∀ a ∈ [(Re.lit [97, 98, 99], some 1), (Re.plus (Re.lit [97]), some 2), (Re.empty, none)], TagFree a.1 := by
  intro a ha
  simp at ha
  rcases ha with rfl | rfl | rfl
  · exact TagFree.lit _
  · exact TagFree.plus (TagFree.lit _)
  · exact TagFree.empty

example : (Re.altT [(Re.lit [97, 98], some 1), (Re.plus (Re.pred [(97, 98)]), some 2), (Re.lit [97], some 1)]).toNFA.compile.tagsAfter [97, 98] = [1, 2] := by
  decide

/-! The defect of the pinned tree, on the model: `optional` written as `start →ε stop` added in place accepts
`a` for `(a+ b)?`; the repaired form (the one modelled and proved above) does not. -/

/-- the pinned tree's `NFA::optional` -/
def optionalInPlace (n : NFA) : NFA := { n with states := addEps n.states n.start n.stop }

example : (optionalInPlace (Re.seq [.plus (.lit [97]), .lit [98]]).toNFA).compile.matches [97] = true := by decide
example : (Re.opt (Re.seq [.plus (.lit [97]), .lit [98]])).toNFA.compile.matches [97] = false := by decide

end SurfProofs.C15
