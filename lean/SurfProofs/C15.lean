import SurfProofs.Lemmas.ToNFA
import SurfProofs.Lemmas.Tags
import SurfProofs.Lemmas.Subset
/-!
# C15 — compiled automata accept exactly the language of the expression that built them

Model: `SurfModel.Automata` (numbered NFAs mirroring `src/automata.rs`, lazy subset automaton as the
observational model of `NFA::compile` + the `DFA` API).  Specification: `Re.Matches`, the textbook inductive
matching relation on expressions built from literal, predicate, sequence, choice, optional, one-or-more,
zero-or-more, empty, nothing (and `tag`, which does not change the language).
-/
namespace SurfProofs.C15
open SurfModel.Automata SurfProofs.Graph SurfProofs.NFASem SurfProofs.NFAGraph SurfProofs.NFALang SurfProofs.Subset
open SurfProofs.ToNFA SurfProofs.Tags

/-- **Language.** The DFA compiled from the automaton of any combinator expression accepts a byte string
    iff the expression matches it. -/
theorem C15_language (e : Re) (w : List UInt8) : e.toNFA.compile.matches w = true ↔ e.Matches w :=
  (matches_iff_lang _ _).trans ((toNFA_spec e).2 w)

/-- the executable matcher the driver uses as oracle (`c15 match`) decides the specification -/
theorem C15_matchB (e : Re) (w : List UInt8) : e.matchB w = true ↔ e.Matches w := SurfProofs.ReMatch.matchB_iff e w

/-- the one-pass row computation the driver uses in the bisimulation check is `targets` -/
theorem C15_driver_row (n : NFA) (S : List Nat) (b : UInt8) :
    (Wire.targetsRow n S)[b.toNat]? = some (targets n S b) := targetsRow_get n S b

/-- **Stepping is deterministic and total; a dead transition is reported, never a wrong state.**
    For every automaton `n` (in particular `e.toNFA`) and every input `w` the run is a function of `w`, and
    * it is dead (`none`) exactly when no NFA state is reachable reading `w`;
    * otherwise the DFA state is exactly the set of NFA states reachable reading `w`, in canonical
      (strictly increasing) form — so two inputs that reach the same NFA states reach the *same* DFA state;
    * the run is the iteration of the one-step `transition`. -/
theorem C15_deterministic_total (n : NFA) (w : List UInt8) :
    (n.compile.run w = none ↔ ∀ q, ¬ Reach n w q) ∧
    (∀ S, n.compile.run w = some S → S.Pairwise (· < ·) ∧ ∀ q, q ∈ S ↔ Reach n w q) ∧
    (∀ S w' S', n.compile.run w = some S → n.compile.run w' = some S' →
      (∀ q, Reach n w q ↔ Reach n w' q) → S = S') ∧
    (∀ b, n.compile.run (w ++ [b]) = (n.compile.run w).bind fun S => n.compile.transition S b) := by
  refine ⟨run_eq_none_iff n w, fun S h => ⟨run_sorted n w S h, mem_run n w S h⟩, ?_, ?_⟩
  · intro S w' S' h h' hq
    refine sorted_ext (run_sorted n w S h) (run_sorted n w' S' h') (fun q => ?_)
    rw [mem_run n w S h, mem_run n w' S' h', hq]
  · intro b
    rw [run_append]
    cases n.compile.run w with
    | none => rfl
    | some S =>
      simp only [DFA.transitionMany, Option.bind_some]
      cases n.compile.transition S b <;> rfl

/-- a dead input has no matching extension -/
theorem C15_dead (e : Re) (w : List UInt8) (h : e.toNFA.compile.run w = none) (v : List UInt8) :
    ¬ e.Matches (w ++ v) := by
  intro hm
  have hl : Lang e.toNFA (w ++ v) := ((toNFA_spec e).2 _).mpr hm
  obtain ⟨r, p1, _⟩ := Path.append_inv hl
  exact (run_eq_none_iff _ _).mp h r p1

example : (Re.lit [97]).toNFA.compile.run [98] = none := by decide

/-- **Terminal.** A state is reported terminal only if no byte can extend the match. -/
theorem C15_terminal (e : Re) (w : List UInt8) (S : DState) (h : e.toNFA.compile.run w = some S)
    (ht : e.toNFA.compile.isTerminal S = true) (b : UInt8) (v : List UInt8) : ¬ e.Matches (w ++ b :: v) := by
  intro hm
  have := terminal_no_extension e.toNFA w S h ht b v
  rw [(C15_language e _).mpr hm] at this
  cases this

example : (Re.lit [97]).toNFA.compile.run [97] = some [1] ∧
    (Re.lit [97]).toNFA.compile.isTerminal [1] = true := by decide

/-- terminal is exactly "the whole row is empty" -/
theorem C15_terminal_iff (n : NFA) (S : DState) :
    n.compile.isTerminal S = true ↔ ∀ b, n.compile.transition S b = none := isTerminal_iff _ S


/-- the tags a choice reports after `w` are the tags its alternatives report after `w`
    (any well-formed operand automata, tags anywhere inside them) -/
theorem C15_tags_choice (ns : List NFA) (hwf : ∀ n ∈ ns, WF n) (w : List UInt8) (t : Nat) :
    t ∈ (NFA.choice ns).compile.tagsAfter w ↔ ∃ n ∈ ns, t ∈ n.compile.tagsAfter w := by
  simp only [mem_tagsAfter_iff]
  exact choice_tagReach ns hwf w t

example : ∀ n ∈ [(Re.lit [97]).toNFA, (Re.plus (Re.tag 3 (Re.lit [98]))).toNFA], WF n := by
  intro n hn
  simp at hn
  rcases hn with rfl | rfl <;> exact (toNFA_spec _).1

/-- `tags_map` renames the reported tags and changes nothing else -/
theorem C15_tags_map (n : NFA) (f : Nat → Nat) (w : List UInt8) (t : Nat) :
    (t ∈ (n.tagsMap f).compile.tagsAfter w ↔ ∃ t', t' ∈ n.compile.tagsAfter w ∧ f t' = t) ∧
    ((n.tagsMap f).compile.matches w = n.compile.matches w) := by
  constructor
  · simp only [mem_tagsAfter_iff]
    exact tagsMap_tagReach n f w t
  · have h := tagsMap_lang n f w
    rw [← matches_iff_lang, ← matches_iff_lang] at h
    cases h1 : (n.tagsMap f).compile.matches w <;> cases h2 : n.compile.matches w <;> simp_all

/-- **Tags.** When the alternatives of a choice carry tags (some may carry none, tags may repeat), the tags
    reported after consuming `w` are exactly the tags of the alternatives that match `w`; the report is a
    strictly increasing list (a set). -/
theorem C15_tags (alts : List (Re × Option Nat)) (htf : ∀ a ∈ alts, TagFree a.1) (w : List UInt8) :
    (∀ t, t ∈ (Re.altT alts).toNFA.compile.tagsAfter w ↔ ∃ a ∈ alts, a.2 = some t ∧ a.1.Matches w) ∧
    ((Re.altT alts).toNFA.compile.tagsAfter w).Pairwise (· < ·) := by
  constructor
  · intro t
    have hwf : ∀ n ∈ (alts.map Re.tagged).map Re.toNFA, WF n := by
      intro n hn
      obtain ⟨e, _, rfl⟩ := List.mem_map.mp hn
      exact (toNFA_spec e).1
    rw [Re.altT, Re.toNFA, toNFAs_eq, mem_tagsAfter_iff, choice_tagReach _ hwf]
    constructor
    · rintro ⟨n, hn, h⟩
      obtain ⟨e, he, rfl⟩ := List.mem_map.mp hn
      obtain ⟨a, ha, rfl⟩ := List.mem_map.mp he
      exact ⟨a, ha, (tagged_tagReach a (htf a ha) w t).mp h⟩
    · rintro ⟨a, ha, h⟩
      exact ⟨_, List.mem_map.mpr ⟨_, List.mem_map.mpr ⟨a, ha, rfl⟩, rfl⟩, (tagged_tagReach a (htf a ha) w t).mpr h⟩
  · unfold DFA.tagsAfter
    split
    · exact tags_sorted _ _
    · exact List.Pairwise.nil

example : ∀ a ∈ [(Re.lit [97, 98, 99], some 1), (Re.plus (Re.lit [97]), some 2), (Re.empty, none)], TagFree a.1 := by
  intro a ha
  simp at ha
  rcases ha with rfl | rfl | rfl
  · exact TagFree.lit _
  · exact TagFree.plus (TagFree.lit _)
  · exact TagFree.empty

example : (Re.altT [(Re.lit [97, 98], some 1), (Re.plus (Re.pred [(97, 98)]), some 2), (Re.lit [97], some 1)]).toNFA.compile.tagsAfter [97, 98] = [1, 2] := by
  decide

/-! The defect of the pinned tree, on the model: `optional` written as `start →ε stop` added in place accepts
`a` for `(a+ b)?`; the repaired form (the one modelled and proved above) does not. -/

/-- the pinned tree's `NFA::optional` -/
def optionalInPlace (n : NFA) : NFA := { n with states := addEps n.states n.start n.stop }

example : (optionalInPlace (Re.seq [.plus (.lit [97]), .lit [98]]).toNFA).compile.matches [97] = true := by decide
example : (Re.opt (Re.seq [.plus (.lit [97]), .lit [98]])).toNFA.compile.matches [97] = false := by decide

end SurfProofs.C15
