import SurfProofs.Lemmas.C01General
/-!
# C01 — incremental rendering always leaves the terminal showing the drawn surface

Model of the code: `SurfModel.Renderer` (`new`, `clear`, `frame` with both passes and the image pass).
Reference terminal and specification: `SurfModel.Screen` (`exec`, `display`, `ScreenEq`, `WellPlaced`).

Proved for ALL terminal sizes, ALL parameter functions satisfying `ParamsOk`, ALL histories of frames,
skipped frames, `clear()` and re-creations whose frames are `WellPlaced` (narrow and wide characters
anywhere — also hidden under wide characters or under images —, three kinds of cells, any faces; image
areas inside the terminal and pairwise disjoint; no wide character cut by the edge of an image area,
i.e. with exactly one of its two cells inside the area).  Outside `WellPlaced` the code is
known to fail (known finding C01-img); the statement on the whole domain is kept as `C01_history_full`.
-/
namespace SurfProofs.C01
open SurfModel.Screen SurfModel.Renderer

/-- domain of the proved theorems -/
def Dom (P : Params) (H W : Nat) (s : Surface) : Prop := WellPlaced P H W s

/-- the terminal is not as large as the "impossible" position the second pass starts its cursor
belief with (`Position::new(123_456, 654_123)`) -/
def SizeOk (h w : Nat) : Prop := h ≤ 123456 ∨ w ≤ 654123

/-- all frames of a history lie in the domain -/
def AllDom (P : Params) (h w : Nat) (steps : List Step) : Prop := ∀ s, Step.frame s ∈ steps → Dom P h w s

/-- The specification is not vacuous: outside image areas and shadows of wide characters `display`
shows every cell's own character in the cell's own face; the cell after a displayed wide character
shows its right half; inside the area of an image cell `q` it shows what erasing in the face of `q`
gives (`blankOf`: a blank, without the attributes a printed space would show); the
placements are exactly the image (and glyph) cells. -/
theorem C01_display_shows (P : Params) (H W : Nat) (s : Surface) (r c : Nat) :
    (coverOf P H W s (r, c) = none → shadowed P H W s r c = false → ∀ ch, (s r c).kind = .chr ch →
      (display P H W s).grid r c = .glyph ch (s r c).face) ∧
    (coverOf P H W s (r, c) = none → shadowed P H W s r c = true → (display P H W s).grid r c = .cont) ∧
    (∀ q, coverOf P H W s (r, c) = some q → (display P H W s).grid r c = blankOf P (s q.1 q.2).face) ∧
    (r < H → c < W → (display P H W s).place r c = imgOf P (s r c)) := by
  refine ⟨?_, ?_, ?_, ?_⟩
  · intro hcov hs ch hk
    simp [display, displayCell, hcov, hs, hk]
  · intro hcov hs
    simp [display, displayCell, hcov, hs]
  · intro q hcov
    simp [display, displayCell, hcov]
  · intro hr hc
    simp [display, hr, hc]

/-- One frame.  If renderer state and terminal fit together (`Rel`: every cell not marked `Damaged`
shows `display` of the back surface, so do the placements), then after the terminal has executed the
commands of `frame` it shows exactly `display s`, and state and terminal fit together again. -/
theorem C01_frame (P : Params) (hP : ParamsOk P) (R : State) (scr : Screen) (s : Surface)
    (hsz : SizeOk R.h R.w) (hs : Dom P R.h R.w s) (hrel : Rel P R scr) :
    Rel P (frame P R s).state (execAll P scr (frame P R s).cmds) ∧
    ScreenEq R.h R.w (execAll P scr (frame P R s).cmds) (display P R.h R.w s) :=
  frame_general P hP R scr s hsz hs hrel

/-- A fresh renderer on a blank terminal: the first frame equals painting from scratch. -/
theorem C01_fresh (P : Params) (hP : ParamsOk P) (h w : Nat) (hsz : SizeOk h w) (s : Surface)
    (hs : Dom P h w s) :
    ScreenEq h w (execAll P blank (frame P (new h w true) s).cmds) (display P h w s) :=
  (C01_frame P hP (new h w true) blank s hsz hs (relG_new_blank P hP h w true)).2

theorem rel_step (P : Params) (hP : ParamsOk P) (h w : Nat) (hsz : SizeOk h w) (x : State × Screen)
    (hx : Rel P x.1 x.2 ∧ x.1.h = h ∧ x.1.w = w) (st : Step) (hd : ∀ s, st = Step.frame s → Dom P h w s) :
    Rel P (runStep P x st).1 (runStep P x st).2 ∧ (runStep P x st).1.h = h ∧ (runStep P x st).1.w = w := by
  obtain ⟨hrel, hh, hw⟩ := hx
  cases st with
  | frame s =>
    have hs := hd s rfl
    rw [← hh, ← hw] at hs hsz
    exact ⟨(C01_frame P hP x.1 x.2 s hsz hs hrel).1, hh, hw⟩
  | skip => exact ⟨by simpa [runStep, stepCmds, execAll_nil] using hrel, hh, hw⟩
  | clear => exact ⟨relG_clear P hP x.1 x.2 hrel, hh, hw⟩
  | recreate => exact ⟨relG_recreate P hP x.1 x.2 hrel, hh, hw⟩

theorem rel_steps (P : Params) (hP : ParamsOk P) (h w : Nat) (hsz : SizeOk h w) (steps : List Step)
    (hd : AllDom P h w steps) (x : State × Screen) (hx : Rel P x.1 x.2 ∧ x.1.h = h ∧ x.1.w = w) :
    Rel P (runSteps P x steps).1 (runSteps P x steps).2 ∧
      (runSteps P x steps).1.h = h ∧ (runSteps P x steps).1.w = w := by
  induction steps generalizing x with
  | nil => exact hx
  | cons st rest ih =>
    simp only [runSteps, List.foldl_cons]
    apply ih
    · intro s hs; exact hd s (List.mem_cons_of_mem _ hs)
    · exact rel_step P hP h w hsz x hx st (fun s e => hd s (by rw [e]; exact List.mem_cons_self))

/-- Histories, proved on `Dom` (= `WellPlaced`).  Start from a renderer created with `clear = clear0`
on a terminal that fits it (`C01_start_blank`, `C01_start_any`); let the terminal execute exactly the
commands of any sequence of frames, skipped frames, `clear()` and re-creations.  After EVERY rendered
frame the terminal shows `display` of the surface drawn for that frame: characters, faces and image
placements, cell for cell. -/
theorem C01_history_partial (P : Params) (hP : ParamsOk P) (h w : Nat) (hsz : SizeOk h w) (clear0 : Bool)
    (scr0 : Screen) (h0 : Rel P (new h w clear0) scr0) (steps : List Step) (hd : AllDom P h w steps)
    (pre post : List Step) (s : Surface) (hsplit : steps = pre ++ Step.frame s :: post) :
    ScreenEq h w (runSteps P (new h w clear0, scr0) (pre ++ [Step.frame s])).2 (display P h w s) := by
  have hpre : AllDom P h w pre := by
    intro s' hs'; apply hd; rw [hsplit]; exact List.mem_append_left _ hs'
  have hs : Dom P h w s := by
    apply hd; rw [hsplit]; exact List.mem_append_right _ List.mem_cons_self
  obtain ⟨hrel, hh, hw⟩ := rel_steps P hP h w hsz pre hpre (new h w clear0, scr0) ⟨h0, rfl, rfl⟩
  simp only [runSteps, List.foldl_append, List.foldl_cons, List.foldl_nil]
  have := (C01_frame P hP _ _ s (by rw [hh, hw]; exact hsz) (by rw [hh, hw]; exact hs) hrel).2
  rw [hh, hw] at this
  exact this

/-- the two ways a history can start: a blank terminal (any `clear0`) … -/
theorem C01_start_blank (P : Params) (hP : ParamsOk P) (h w : Nat) (clear0 : Bool) :
    Rel P (new h w clear0) blank := relG_new_blank P hP h w clear0

/-- … or, with `clear0 = true`, a terminal showing anything (well formed, no image placements) -/
theorem C01_start_any (P : Params) (hP : ParamsOk P) (h w : Nat) (scr0 : Screen) (hwf : WF P scr0)
    (hpl : ∀ r c, scr0.place r c = none) : Rel P (new h w true) scr0 :=
  relG_damaged P hP scr0 hwf hpl (new h w true) rfl (by simp [new])

/-- A forced clear makes the next frame repaint everything regardless of what the terminal showed
before: whatever the renderer state `R` was and whatever (well-formed, image-free) content `scr` the
terminal has after `clear()`, the next frame leaves exactly `display s`.  The same holds for a
renderer re-created with `clear = true`. -/
theorem C01_clear_repaints (P : Params) (hP : ParamsOk P) (R : State) (hsz : SizeOk R.h R.w) (scr : Screen)
    (hwf : WF P scr) (hpl : ∀ r c, scr.place r c = none) (s : Surface) (hs : Dom P R.h R.w s) :
    ScreenEq R.h R.w (execAll P scr (frame P (clear R) s).cmds) (display P R.h R.w s) ∧
    ScreenEq R.h R.w (execAll P scr (frame P (new R.h R.w true) s).cmds) (display P R.h R.w s) :=
  ⟨(C01_frame P hP (clear R) scr s hsz hs (relG_damaged P hP scr hwf hpl (clear R) rfl rfl)).2,
   (C01_frame P hP (new R.h R.w true) scr s hsz hs
      (relG_damaged P hP scr hwf hpl (new R.h R.w true) rfl (by simp [new]))).2⟩

/-- `clear()` removes every image placement and leaves the characters alone (so the hypotheses of
`C01_clear_repaints` are met by what a history produced) -/
theorem C01_clear_erases (P : Params) (R : State) (scr : Screen) (hrel : Rel P R scr) :
    (execAll P scr (clearCmds R)).grid = scr.grid ∧
    ∀ r c, (execAll P scr (clearCmds R)).place r c = none :=
  exec_clear P R scr hrel

/-- The property on its whole stated domain (every frame draws printable narrow / wide characters,
wide ones not in the last column, image or glyph cells anywhere).  NOT proved: outside `WellPlaced`
the code is known to fail (known finding C01-img). -/
def FullDom (P : Params) (H W : Nat) (s : Surface) : Prop :=
  (∀ r c ch, r < H → c < W → (s r c).kind = .chr ch → P.width ch = 1 ∨ P.width ch = 2) ∧
  (∀ r c, r < H → c < W → isWide P (s r c) = true → c + 1 < W)

def C01_history_full : Prop :=
  ∀ (P : Params), ParamsOk P → ∀ (h w : Nat), SizeOk h w → ∀ (clear0 : Bool) (scr0 : Screen),
    (scr0 = blank ∨ (clear0 = true ∧ WF P scr0 ∧ ∀ r c, scr0.place r c = none)) →
    ∀ (steps pre post : List Step) (s : Surface),
      (∀ s', Step.frame s' ∈ steps → FullDom P h w s') →
      steps = pre ++ Step.frame s :: post →
      ScreenEq h w (runSteps P (new h w clear0, scr0) (pre ++ [Step.frame s])).2 (display P h w s)

/-! ### the hypotheses are satisfiable, non-trivially -/

/-- a `unicode-width`-like parameter: NUL has no width, U+4E16 is wide, everything else narrow;
images are 1 × 2 cells except image 7 (2 × 2); face 2 is underlined -/
def exP : Params :=
  { width := fun ch => if ch = 0 then 0 else if ch = 19990 then 2 else 1
    size := fun i => if i = 7 then (2, 2) else (1, 2)
    raster := fun _ _ => 3
    plain := fun f => f != 2 }

theorem exP_ok : ParamsOk exP := by
  refine ⟨?_, by simp [exP], by simp [exP]⟩
  intro ch; simp only [exP]; split
  · omega
  · split <;> omega

/-- 3 × 6 surface: a wide character with a hidden cell behind it, a 2 × 2 image with characters (one of them wide)
hidden under it, a glyph (drawn as a 1 × 2 image), narrow characters in three faces -/
def exSurf : Surface := fun r c =>
  if r = 0 ∧ c = 0 then ⟨1, .chr 19990⟩
  else if r = 0 ∧ c = 1 then ⟨2, .chr 120⟩
  else if r = 0 ∧ c = 3 then ⟨2, .img 7⟩
  else if r = 1 ∧ c = 3 then ⟨1, .chr 19990⟩
  else if r = 1 ∧ c = 4 then ⟨1, .chr 98⟩
  else if r = 2 ∧ c = 0 then ⟨1, .gly 5⟩
  else if r = 2 ∧ c = 5 then ⟨2, .chr 97⟩
  else ⟨0, .chr 32⟩

theorem exSurf_dom : Dom exP 3 6 exSurf := wellPlacedB_sound exP 3 6 exSurf (by decide)

/-- `C01_fresh`, `C01_frame`, `C01_clear_repaints`: a concrete surface of the domain -/
example : ParamsOk exP ∧ SizeOk 3 6 ∧ Dom exP 3 6 exSurf ∧ Rel exP (new 3 6 true) blank :=
  ⟨exP_ok, Or.inl (by omega), exSurf_dom, C01_start_blank exP exP_ok 3 6 true⟩

/-- `C01_start_any`, `C01_clear_repaints`: a terminal showing something else — a wide character with
its right half, an orphaned half, narrow characters in another face — is well formed -/
def exScr : Screen :=
  { grid := fun r c =>
      if r = 0 ∧ c = 0 then .glyph 19990 1
      else if r = 0 ∧ c = 1 then .cont
      else if r = 1 ∧ c = 2 then .orphan
      else .glyph 120 2
    cur := (2, 5), face := 2, place := fun _ _ => none }

example : WF exP exScr ∧ (∀ r c, exScr.place r c = none) ∧ exScr.grid 0 1 = .cont := by
  refine ⟨?_, fun _ _ => rfl, rfl⟩
  intro r
  refine ⟨by simp only [exScr]; split <;> simp, ?_⟩
  intro c
  by_cases hr : r = 0 <;> by_cases hc : c = 0
  · subst hr; subst hc
    simp only [exScr]
    constructor
    · intro _; exact ⟨19990, 1, by simp, by simp [exP]⟩
    · intro _; simp
  · have h1 : ¬ (c + 1 = 0) := by omega
    have h2 : ¬ (c + 1 = 1) := by omega
    subst hr
    simp only [exScr, hc, h1, h2, and_false, true_and, if_false]
    constructor
    · intro h; split at h <;> simp at h
    · rintro ⟨ch, f, he, hw⟩
      split at he
      · cases he
      · split at he
        · cases he
        · cases he; simp [exP] at hw
  · have h1 : ¬ (c + 1 = 0) := by omega
    simp only [exScr, hr, false_and, if_false]
    subst hc
    constructor
    · intro h; split at h <;> simp at h
    · rintro ⟨ch, f, he, hw⟩
      split at he
      · cases he
      · cases he; simp [exP] at hw
  · simp only [exScr, hr, false_and, if_false]
    constructor
    · intro h; split at h <;> simp at h
    · rintro ⟨ch, f, he, hw⟩
      split at he
      · cases he
      · cases he; simp [exP] at hw

/-- `C01_history_partial`: a history with every kind of step that meets the hypotheses -/
example : AllDom exP 3 6 [.frame exSurf, .skip, .clear, .frame blankSurf, .recreate, .frame exSurf] := by
  intro s hs
  simp only [List.mem_cons, List.not_mem_nil, or_false] at hs
  rcases hs with h | h | h | h | h | h
  · cases h; exact exSurf_dom
  · cases h
  · cases h
  · cases h; exact blank_wp exP exP_ok 3 6
  · cases h
  · cases h; exact exSurf_dom

/-- on that surface the specification really shows a wide character, its right half, the blank area
of the image in the image cell's face, the faces, and the two placements -/
example : (display exP 3 6 exSurf).grid 0 0 = .glyph 19990 1 ∧ (display exP 3 6 exSurf).grid 0 1 = .cont ∧
    (display exP 3 6 exSurf).grid 1 4 = .erased 2 ∧ (display exP 3 6 exSurf).grid 2 5 = .glyph 97 2 ∧
    (display exP 3 6 exSurf).place 0 3 = some 7 ∧ (display exP 3 6 exSurf).place 2 0 = some 3 := by
  decide

end SurfProofs.C01
