import SurfProofs.Lemmas.C01Frame
/-!
# C01 — incremental rendering always leaves the terminal showing the drawn surface

Model of the code: `SurfModel.Renderer` (`new`, `clear`, `frame` with both passes and the image pass).
Reference terminal and specification: `SurfModel.Screen` (`exec`, `display`, `ScreenEq`, `WellPlaced`).

`Dom` is the domain on which the theorems below are proved.
-/
namespace SurfProofs.C01
open SurfModel.Screen SurfModel.Renderer

/-- domain of the proved theorems -/
def Dom (P : Params) (H W : Nat) (s : Surface) : Prop := CharDom P H W s

/-- the terminal is not as large as the "impossible" position the second pass starts its cursor
belief with (`Position::new(123_456, 654_123)`) -/
def SizeOk (h w : Nat) : Prop := h ≤ 123456 ∨ w ≤ 654123

/-- all frames of a history lie in the domain -/
def AllDom (P : Params) (h w : Nat) (steps : List Step) : Prop := ∀ s, Step.frame s ∈ steps → Dom P h w s

/-- The specification is not vacuous: outside image areas and shadows of wide characters `display`
shows every cell's own character in the cell's own face; the cell after a displayed wide character
shows its right half. -/
theorem C01_display_shows (P : Params) (H W : Nat) (s : Surface) (r c : Nat)
    (hcov : coverOf P H W s (r, c) = none) :
    (shadowed P s r c = false → ∀ ch, (s r c).kind = .chr ch →
      (display P H W s).grid r c = .glyph ch (s r c).face) ∧
    (shadowed P s r c = true → (display P H W s).grid r c = .cont) := by
  constructor
  · intro hs ch hk
    simp [display, displayCell, hcov, hs, hk]
  · intro hs
    simp [display, displayCell, hcov, hs]

/-- One frame.  If renderer state and terminal fit together (`Rel`: every cell not marked `Damaged`
shows `display` of the back surface, so do the placements), then after the terminal has executed the
commands of `frame` it shows exactly `display s`, and state and terminal fit together again. -/
theorem C01_frame (P : Params) (hP : ParamsOk P) (R : State) (scr : Screen) (s : Surface)
    (hsz : SizeOk R.h R.w) (hs : Dom P R.h R.w s) (hrel : Rel P R scr) :
    Rel P (frame P R s).state (execAll P scr (frame P R s).cmds) ∧
    ScreenEq R.h R.w (execAll P scr (frame P R s).cmds) (display P R.h R.w s) :=
  frame_chars P hP R scr s hsz hs hrel

/-- A fresh renderer on a blank terminal: the first frame equals painting from scratch. -/
theorem C01_fresh (P : Params) (hP : ParamsOk P) (h w : Nat) (hsz : SizeOk h w) (s : Surface)
    (hs : Dom P h w s) :
    ScreenEq h w (execAll P blank (frame P (new h w true) s).cmds) (display P h w s) :=
  (C01_frame P hP (new h w true) blank s hsz hs (rel_new_blank P hP h w true)).2

theorem rel_step (P : Params) (hP : ParamsOk P) (h w : Nat) (hsz : SizeOk h w) (x : State × Screen)
    (hx : Rel P x.1 x.2 ∧ x.1.h = h ∧ x.1.w = w) (st : Step) (hd : ∀ s, st = Step.frame s → Dom P h w s) :
    Rel P (runStep P x st).1 (runStep P x st).2 ∧ (runStep P x st).1.h = h ∧ (runStep P x st).1.w = w := by
  obtain ⟨hrel, hh, hw⟩ := hx
  cases st with
  | frame s =>
    have hs := hd s rfl
    rw [← hh, ← hw] at hs hsz
    exact ⟨(C01_frame P hP x.1 x.2 s hsz hs hrel).1, hh, hw⟩
  | skip => exact ⟨by simpa [runStep, stepCmds, execAll_nil] using hrel, hh, hw⟩
  | clear => exact ⟨rel_clear P hP x.1 x.2 hrel, hh, hw⟩
  | recreate => exact ⟨rel_recreate P hP x.1 x.2 hrel, hh, hw⟩

theorem rel_steps (P : Params) (hP : ParamsOk P) (h w : Nat) (hsz : SizeOk h w) (steps : List Step)
    (hd : AllDom P h w steps) (x : State × Screen) (hx : Rel P x.1 x.2 ∧ x.1.h = h ∧ x.1.w = w) :
    Rel P (runSteps P x steps).1 (runSteps P x steps).2 ∧
      (runSteps P x steps).1.h = h ∧ (runSteps P x steps).1.w = w := by
  induction steps generalizing x with
  | nil => exact hx
  | cons st rest ih =>
    simp only [runSteps, List.foldl_cons]
    apply ih
    · intro s hs; exact hd s (List.mem_cons_of_mem _ hs)
    · exact rel_step P hP h w hsz x hx st (fun s e => hd s (by rw [e]; exact List.mem_cons_self))

/-- Histories, proved on `Dom`.  Start from a renderer created with `clear = clear0` on a terminal that
fits it (blank, or anything well formed without image placements when `clear0 = true`); let the
terminal execute exactly the commands of any sequence of frames, skipped frames, `clear()` and
re-creations.  After EVERY rendered frame the terminal shows `display` of the surface drawn for that
frame. -/
theorem C01_history_partial (P : Params) (hP : ParamsOk P) (h w : Nat) (hsz : SizeOk h w) (clear0 : Bool)
    (scr0 : Screen) (h0 : Rel P (new h w clear0) scr0) (steps : List Step) (hd : AllDom P h w steps)
    (pre post : List Step) (s : Surface) (hsplit : steps = pre ++ Step.frame s :: post) :
    ScreenEq h w (runSteps P (new h w clear0, scr0) (pre ++ [Step.frame s])).2 (display P h w s) := by
  have hpre : AllDom P h w pre := by
    intro s' hs'; apply hd; rw [hsplit]; exact List.mem_append_left _ hs'
  have hs : Dom P h w s := by
    apply hd; rw [hsplit]; exact List.mem_append_right _ List.mem_cons_self
  obtain ⟨hrel, hh, hw⟩ := rel_steps P hP h w hsz pre hpre (new h w clear0, scr0) ⟨h0, rfl, rfl⟩
  simp only [runSteps, List.foldl_append, List.foldl_cons, List.foldl_nil]
  have := (C01_frame P hP _ _ s (by rw [hh, hw]; exact hsz) (by rw [hh, hw]; exact hs) hrel).2
  rw [hh, hw] at this
  exact this

/-- the two ways a history can start -/
theorem C01_start_blank (P : Params) (hP : ParamsOk P) (h w : Nat) (clear0 : Bool) :
    Rel P (new h w clear0) blank := rel_new_blank P hP h w clear0

theorem C01_start_any (P : Params) (hP : ParamsOk P) (h w : Nat) (scr0 : Screen) (hwf : WF P scr0)
    (hpl : ∀ r c, scr0.place r c = none) : Rel P (new h w true) scr0 :=
  rel_damaged P hP h w scr0 hwf hpl (new h w true) ⟨rfl, rfl⟩ rfl (by simp [new])

/-- A forced clear makes the next frame repaint everything regardless of what the terminal showed
before: whatever the renderer state `R` was and whatever (well-formed, image-free) content `scr` the
terminal has after `clear()`, the next frame leaves exactly `display s`.  The same holds for a
renderer re-created with `clear = true`. -/
theorem C01_clear_repaints (P : Params) (hP : ParamsOk P) (R : State) (hsz : SizeOk R.h R.w) (scr : Screen)
    (hwf : WF P scr) (hpl : ∀ r c, scr.place r c = none) (s : Surface) (hs : Dom P R.h R.w s) :
    ScreenEq R.h R.w (execAll P scr (frame P (clear R) s).cmds) (display P R.h R.w s) ∧
    ScreenEq R.h R.w (execAll P scr (frame P (new R.h R.w true) s).cmds) (display P R.h R.w s) :=
  ⟨(C01_frame P hP (clear R) scr s hsz hs
      (rel_damaged P hP R.h R.w scr hwf hpl (clear R) ⟨rfl, rfl⟩ rfl rfl)).2,
   (C01_frame P hP (new R.h R.w true) scr s hsz hs
      (rel_damaged P hP R.h R.w scr hwf hpl (new R.h R.w true) ⟨rfl, rfl⟩ rfl (by simp [new]))).2⟩

/-- `clear()` itself leaves a terminal without image placements (so the hypothesis of
`C01_clear_repaints` is met by what the history produced) -/
theorem C01_clear_erases (P : Params) (hP : ParamsOk P) (R : State) (scr : Screen) (hrel : Rel P R scr) :
    ∀ r c, (execAll P scr (clearCmds R)).place r c = none :=
  (rel_clear P hP R scr hrel).no_place

/-- The property on its whole stated domain (every frame draws printable narrow / wide characters,
wide ones not in the last column, and image or glyph cells anywhere).  NOT proved: outside
`WellPlaced` the code is known to fail (known finding C01-img). -/
def FullDom (P : Params) (H W : Nat) (s : Surface) : Prop :=
  (∀ r c ch, r < H → c < W → (s r c).kind = .chr ch → P.width ch = 1 ∨ P.width ch = 2) ∧
  (∀ r c, r < H → c < W → isWide P (s r c) = true → c + 1 < W)

def C01_history_full : Prop :=
  ∀ (P : Params), ParamsOk P → ∀ (h w : Nat), SizeOk h w → ∀ (clear0 : Bool) (scr0 : Screen),
    (scr0 = blank ∨ (clear0 = true ∧ WF P scr0 ∧ ∀ r c, scr0.place r c = none)) →
    ∀ (steps pre post : List Step) (s : Surface),
      (∀ s', Step.frame s' ∈ steps → FullDom P h w s') →
      steps = pre ++ Step.frame s :: post →
      ScreenEq h w (runSteps P (new h w clear0, scr0) (pre ++ [Step.frame s])).2 (display P h w s)

/-! ### the hypotheses are satisfiable, non-trivially -/

/-- a `unicode-width`-like parameter: NUL has no width, U+4E16 is wide, everything else narrow -/
def exP : Params :=
  { width := fun ch => if ch = 0 then 0 else if ch = 19990 then 2 else 1
    size := fun _ => (1, 2)
    raster := fun _ _ => 0 }

theorem exP_ok : ParamsOk exP := by
  refine ⟨?_, by simp [exP], by simp [exP]⟩
  intro ch; simp only [exP]; split
  · omega
  · split <;> omega

/-- 2 × 4 surface: a wide character followed by a (hidden) cell, narrow characters in three faces -/
def exSurf : Surface := fun r c =>
  if r = 0 ∧ c = 0 then ⟨1, .chr 19990⟩
  else if r = 0 ∧ c = 1 then ⟨2, .chr 120⟩
  else if r = 1 ∧ c = 3 then ⟨2, .chr 97⟩
  else ⟨0, .chr 32⟩

theorem charDom_of_chars (P : Params) (H W : Nat) (s : Surface)
    (h1 : ∀ r c, r < H → c < W → ∃ ch, (s r c).kind = .chr ch ∧ (P.width ch = 1 ∨ P.width ch = 2))
    (h2 : ∀ r c, r < H → c < W → isWide P (s r c) = true → c + 1 < W) : CharDom P H W s := by
  have hi : ∀ r c, r < H → c < W → imgOf P (s r c) = none := by
    intro r c hr hc; obtain ⟨ch, hk, _⟩ := h1 r c hr hc; simp [imgOf, hk]
  refine ⟨⟨?_, h2, ?_, ?_, ?_⟩, fun r c hr hc => (h1 r c hr hc).imp fun _ h => h.1⟩
  · intro r c ch hr hc hk
    obtain ⟨ch', hk', hw⟩ := h1 r c hr hc
    rw [hk] at hk'; cases hk'; exact hw
  · intro r c i hr hc h; rw [hi r c hr hc] at h; cases h
  · intro q q' p hq1 hq2 _ _ h; simp [covers, hi q.1 q.2 hq1 hq2] at h
  · intro q r c hq1 hq2 _ _ _; simp [covers, hi q.1 q.2 hq1 hq2]

theorem exSurf_dom : Dom exP 2 4 exSurf := by
  apply charDom_of_chars
  · intro r c hr hc
    have : r = 0 ∨ r = 1 := by omega
    have : c = 0 ∨ c = 1 ∨ c = 2 ∨ c = 3 := by omega
    rcases ‹r = 0 ∨ r = 1› with rfl | rfl <;> rcases ‹c = 0 ∨ c = 1 ∨ c = 2 ∨ c = 3› with rfl | rfl | rfl | rfl <;>
      simp [exSurf, exP]
  · intro r c hr hc hw
    have : r = 0 ∨ r = 1 := by omega
    have : c = 0 ∨ c = 1 ∨ c = 2 ∨ c = 3 := by omega
    rcases ‹r = 0 ∨ r = 1› with rfl | rfl <;> rcases ‹c = 0 ∨ c = 1 ∨ c = 2 ∨ c = 3› with rfl | rfl | rfl | rfl <;>
      simp [exSurf, exP, isWide] at hw ⊢

/-- `C01_fresh`, `C01_frame`, `C01_clear_repaints`: a concrete surface of the domain -/
example : ParamsOk exP ∧ SizeOk 2 4 ∧ Dom exP 2 4 exSurf ∧ Rel exP (new 2 4 true) blank :=
  ⟨exP_ok, Or.inl (by omega), exSurf_dom, C01_start_blank exP exP_ok 2 4 true⟩

/-- `C01_history_partial`: a history with every kind of step that meets the hypotheses -/
example : AllDom exP 2 4 [.frame exSurf, .skip, .clear, .frame blankSurf, .recreate, .frame exSurf] := by
  intro s hs
  simp only [List.mem_cons, List.not_mem_nil, or_false] at hs
  rcases hs with h | h | h | h | h | h
  · cases h; exact exSurf_dom
  · cases h
  · cases h
  · cases h; exact blank_charDom exP exP_ok 2 4
  · cases h
  · cases h; exact exSurf_dom

/-- on that surface the specification really shows a wide character, its right half and the faces -/
example : (display exP 2 4 exSurf).grid 0 0 = .glyph 19990 1 ∧ (display exP 2 4 exSurf).grid 0 1 = .cont ∧
    (display exP 2 4 exSurf).grid 1 3 = .glyph 97 2 := by
  have hc : ∀ p, coverOf exP 2 4 exSurf p = none :=
    fun p => coverOf_none exP 2 4 exSurf p exSurf_dom.charSurf.imgOf_none
  refine ⟨?_, ?_, ?_⟩ <;> simp only [display, displayCell, hc] <;> simp [shadowed, exSurf, exP, isWide]

end SurfProofs.C01
