import SurfProofs.Lemmas.Tokenizer
import SurfProofs.Lemmas.Utf8Stream
import SurfProofs.Lemmas.TokSpec
import SurfProofs.Lemmas.TokLL
/-!
# C03 — decoded events do not depend on read boundaries and follow longest-match rules

All theorems are about the model `SurfModel/Tokenizer.lean` of `MatcherDecoder` / `Utf8Decoder` and hold
for **every** automaton `A` (hence for the compiled production automata, whatever they are).
`init A` is `MatcherDecoder::new`, `decodeInto` is `Decoder::decode_into` on one read, `feedAll` hands a
list of reads to `decode_into` one after the other (empty reads allowed). `tokenize` is the batch
specification (leftmost-longest), `stateOf A p` the decoder state that holds exactly `p` as pending.
-/
namespace SurfProofs.C03
open SurfModel.Tokenizer

variable {σ : Type}

/-- all items of a run in order, forgetting in which read they were produced -/
def flat (r : Except Fault (List (List (Item σ)) × DSt σ)) : Except Fault (List (Item σ) × DSt σ) :=
  match r with
  | .error e => .error e
  | .ok (per, s) => .ok (per.flatten, s)

/-! ## what the specification's ingredients mean -/

/-- `longestAcc` is maximal munch: the longest non-empty prefix accepted from the start state
(`none` iff no non-empty prefix is accepted) -/
theorem C03_spec_longest (A : Auto σ) (w : List UInt8) :
    match longestAcc A A.start w with
    | some (n, qa) =>
      0 < n ∧ n ≤ w.length ∧ runA A A.start (w.take n) = some qa ∧ A.accepting qa = true ∧
        ∀ k, n < k → k ≤ w.length → ¬ AcceptedFrom A A.start (w.take k)
    | none => ∀ k, 0 < k → k ≤ w.length → ¬ AcceptedFrom A A.start (w.take k) :=
  longestAcc_spec A A.start w

/-- `liveLen` is the longest prefix the automaton can read; one byte more and it is stuck -/
theorem C03_spec_live (A : Auto σ) (w : List UInt8) :
    (runA A A.start (w.take (liveLen A A.start w))).isSome = true ∧
      (liveLen A A.start w < w.length → runA A A.start (w.take (liveLen A A.start w + 1)) = none) :=
  liveLen_spec A A.start w

/-- every item of the specification is non-empty; a token is a word the automaton accepts, in the state
the item carries (what the payload decoders of C02/C04 may rely on) -/
theorem C03_token_sound (A : Auto σ) (w : List UInt8) : ∀ it ∈ (tokenize A w).1, ItemOk A it :=
  tokenize_sound A w

/-- the specification covers its input: the items in order followed by the pending rest are the input -/
theorem C03_spec_cover (A : Auto σ) (w : List UInt8) :
    (tokenize A w).1.flatMap Item.bytes ++ (tokenize A w).2 = w :=
  tokenize_cover A w

/-- the driver's check of a dumped table establishes the hypothesis of `C03_tokenize` -/
theorem C03_table_termOk (t : Table) (h : t.termOk = true) : t.auto.TermOk :=
  Table.termOk_sound t h

/-! ## the property -/

/-- One buffer: `decode_into` on the whole input neither panics nor runs out of fuel, its items are
exactly the leftmost-longest tokenisation of the input, and the decoder ends in the state that holds
the undecided rest (buffer = rest, automaton state = δ*(rest), candidate = longest recognised prefix
of the rest, nothing rescheduled). -/
theorem C03_tokenize (A : Auto σ) (hT : A.TermOk) (input : List UInt8) :
    decodeInto A (init A) input = .ok ((tokenize A input).1, stateOf A (tokenize A input).2) := by
  rw [decodeInto_go A (init A) input (rep_init A)]
  have := go_tokenize A hT (init A) input (rep_init A) rfl
  simpa [init, core] using this

/-- The same for any sequence of reads: the items of all reads together are the leftmost-longest
tokenisation of the concatenated stream. -/
theorem C03_tokenize_reads (A : Auto σ) (hT : A.TermOk) (chunks : List (List UInt8)) :
    ∃ per, feedAll A (init A) chunks = .ok (per, stateOf A (tokenize A chunks.flatten).2) ∧
      per.flatten = (tokenize A chunks.flatten).1 := by
  obtain ⟨per, h1, h2⟩ := feedAll_go A chunks (init A) (rep_init A) rfl
  have := go_tokenize A hT (init A) chunks.flatten (rep_init A) rfl
  simp only [init, List.nil_append] at this
  refine ⟨per, ?_, ?_⟩
  · rw [h1]; simp only [init]; rw [this]
  · rw [h2]; simp only [init]; rw [this]

/-- The specification function satisfies the declarative statement of leftmost-longest tokenisation `LL`
(see its definition: longest accepted prefix of the remaining input, emitted when the longer candidate
failed or the sequence is complete; unrecognised bytes up to where the automaton got stuck, at least one;
the rest tokenised afresh; an extendable rest stays pending). Every automaton. -/
theorem C03_spec_leftmost_longest (A : Auto σ) (w : List UInt8) :
    LL A w (tokenize A w).1 (tokenize A w).2 :=
  tokenize_LL A w

/-- `LL` leaves no freedom: items and pending rest are determined by the stream. -/
theorem C03_leftmost_longest_unique (A : Auto σ) (w : List UInt8) (items items' : List (Item σ))
    (rest rest' : List UInt8) (h : LL A w items rest) (h' : LL A w items' rest') :
    items = items' ∧ rest = rest' := by
  have e := LL_tokenize A w items rest h
  have e' := LL_tokenize A w items' rest' h'
  rw [e] at e'
  exact ⟨congrArg Prod.fst e', congrArg Prod.snd e'⟩

/-- **The property sentence.** For every automaton (whose terminal flag means "no outgoing edge") and every
way of cutting the stream into reads: the run succeeds, nothing is left rescheduled, and the items of all
reads in order, together with the bytes the decoder still holds, are THE leftmost-longest tokenisation of
the concatenated stream in the declarative sense `LL`: each recognised item is the longest accepted
prefix of the input that remained, emitted when a longer candidate failed to complete (or cannot exist),
each unrecognised item is what could be read before getting stuck (at least one byte) when no prefix is
accepted, the bytes after an item are interpreted afresh, items are consecutive (`LL_cover`), and the
held-back rest is a readable, not yet complete prefix of what may follow. -/
theorem C03_leftmost_longest (A : Auto σ) (hT : A.TermOk) (chunks : List (List UInt8)) :
    ∃ per s, feedAll A (init A) chunks = .ok (per, s) ∧ s.resched = [] ∧
      LL A chunks.flatten per.flatten s.buffer := by
  obtain ⟨per, h1, h2⟩ := C03_tokenize_reads A hT chunks
  refine ⟨per, _, h1, rfl, ?_⟩
  rw [h2]
  exact tokenize_LL A chunks.flatten

/-- Read boundaries do not matter (every automaton, empty reads and cuts anywhere): feeding the reads
one by one gives the same items in the same order, and the same final decoder state, as one
`decode_into` over the concatenation. -/
theorem C03_chunking (A : Auto σ) (chunks : List (List UInt8)) :
    flat (feedAll A (init A) chunks) = decodeInto A (init A) chunks.flatten := by
  obtain ⟨per, h1, h2⟩ := feedAll_go A chunks (init A) (rep_init A) rfl
  rw [h1, decodeInto_go A (init A) _ (rep_init A)]
  simp only [flat, h2]
  simp [init, core]

/-- Two ways of cutting the same stream give the same items and the same final state. -/
theorem C03_chunking_resplit (A : Auto σ) (c1 c2 : List (List UInt8)) (h : c1.flatten = c2.flatten) :
    flat (feedAll A (init A) c1) = flat (feedAll A (init A) c2) := by
  rw [C03_chunking, C03_chunking, h]

/-- Nothing is lost, duplicated or reordered (every automaton): the run succeeds, the bytes of all items
in order followed by the buffer are exactly the stream, nothing is left rescheduled, no item is empty. -/
theorem C03_conservation (A : Auto σ) (chunks : List (List UInt8)) :
    ∃ per s, feedAll A (init A) chunks = .ok (per, s) ∧
      per.flatten.flatMap Item.bytes ++ s.buffer = chunks.flatten ∧ s.resched = [] ∧
      ∀ it ∈ per.flatten, it.bytes ≠ [] := by
  obtain ⟨per, h1, h2⟩ := feedAll_go A chunks (init A) (rep_init A) rfl
  obtain ⟨c1, _, c3, c4⟩ := go_conservation A (init A) chunks.flatten (rep_init A)
  refine ⟨per, _, h1, ?_, c4 rfl, ?_⟩
  · rw [h2, c1]; simp [init]
  · rw [h2]; exact c3

/-- `Utf8Decoder`: read boundaries do not matter — same results (characters and errors, in order), same
final state, and the same fault if the 4 byte buffer would overflow. -/
theorem C03_utf8_chunking (A : Auto σ) (chunks : List (List UInt8)) :
    flatU (ufeedAll A (uinit A) chunks) = ufeed A (uinit A) chunks.flatten := by
  rw [ufeedAll_ugo, ufeed_ugo]

/-- `Utf8Decoder`: the bytes of all results (characters and rejected bytes) followed by the bytes held
back are exactly the stream. -/
theorem C03_utf8_conservation (A : Auto σ) (chunks : List (List UInt8)) (per : List (List UItem))
    (s : USt σ) (h : ufeedAll A (uinit A) chunks = .ok (per, s)) :
    per.flatten.flatMap UItem.bytes ++ s.buf = chunks.flatten := by
  have h1 := ufeedAll_ugo A chunks (uinit A)
  rw [h] at h1
  simp only [flatU] at h1
  have := ugo_conservation A (uinit A) s chunks.flatten per.flatten h1.symm
  simpa [uinit] using this

/-! ## the hypotheses are satisfiable: a concrete automaton for the patterns `ab` and `abcd` -/

/-- states: 0 start, 1 `a`, 2 `ab` (accepting), 3 `abc`, 4 `abcd` (accepting, terminal) -/
def exA : Auto Nat :=
  { start := 0
    step := fun s b =>
      if s = 0 ∧ b = 97 then some 1 else if s = 1 ∧ b = 98 then some 2
      else if s = 2 ∧ b = 99 then some 3 else if s = 3 ∧ b = 100 then some 4 else none
    accepting := fun s => s == 2 || s == 4
    terminal := fun s => s == 4 }

theorem exA_termOk : exA.TermOk := by
  intro s h b
  simp [exA] at h
  subst h
  simp [exA]

/-- the declarative reading of the same run: `ab` is the longest accepted prefix of `abcx` … -/
example : LL exA [97, 98, 99, 120] [.tok [97, 98] 2, .raw [99], .raw [120]] [] := by
  have := C03_spec_leftmost_longest exA [97, 98, 99, 120]
  simpa [tokenize, liveLen, longestAcc, complete, runA, exA] using this

/-- `abcx`: the longer candidate `abcd` fails, `ab` is emitted, `c` and `x` are interpreted afresh -/
example : decodeInto exA (init exA) [97, 98, 99, 120] =
    .ok ([.tok [97, 98] 2, .raw [99], .raw [120]], stateOf exA []) := by
  rw [C03_tokenize exA exA_termOk]
  simp [tokenize, liveLen, longestAcc, complete, runA, exA]

/-- a run of the UTF-8 model that succeeds (the hypothesis of `C03_utf8_conservation`) -/
example : ufeedAll exA (uinit exA) [[97], [], [98, 120]] = .ok ([[], [], [.chr [97, 98], .err [120]]], uinit exA) := by
  simp [ufeedAll, ufeed, ufeedFuel, udecode, uinit, exA]

end SurfProofs.C03
