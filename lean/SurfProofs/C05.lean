import SurfProofs.Lemmas.VtEmit
import SurfProofs.Lemmas.VtEnc
import SurfProofs.Lemmas.VtResync
import SurfProofs.Lemmas.VtAttr
/-!
# C05 — encoded commands mean exactly what was commanded to a VT/xterm interpreter

`encode` is the model of `TTYEncoder::encode` (tied to the Rust code by byte-exact correspondence on
every run); `interp` is the reference ECMA-48/xterm interpreter; `meaning` is the specification of
each command.  All theorems hold for every parameter value (unbounded `Nat`/`Int`, hence in
particular for every `usize` / `i32`), every colour depth and keyboard capability.

`encodeSt` / `encodeStream` (SurfModel/VtEnc.lean) model the encoder as the stateful object it is —
the `Chunks` buffer kept across calls, writers that fail, machine arithmetic with panic as an outcome —
and `C05_call` / `C05_no_panic` / `C05_encoder_stream` reduce all of that to the pure `encode`.
-/
namespace SurfProofs.C05
open SurfModel.Vt SurfProofs.Lemmas.Vt

/-- The domain of the property: printable characters, titles without control characters,
non-empty lists of printable-ASCII capability names, opaque colours in `Color` set/query. -/
def Valid : Cmd → Prop
  | .char cp => printable cp
  | .title text => ∀ b ∈ text, textByte b
  | .termcap names => names ≠ [] ∧ ∀ n ∈ names, ∀ b ∈ n, nameByte b
  | .color _ (some c) => c.a = 255 ∧ c.r < 256 ∧ c.g < 256 ∧ c.b < 256
  | _ => True

theorem kitty_emits (caps : Caps) (level : Nat) :
    ∃ seqs, Emits (kittyLevel caps level) seqs ∧ seqs.map sem = kittyMeaning caps level := by
  unfold kittyLevel kittyMeaning
  cases caps.kitty
  · exact ⟨[], Emits.nil, rfl⟩
  · refine ⟨[.csi (61 :: showNat level) [] 117], ?_, ?_⟩
    · have := Emits.csi (61 :: showNat level) 117
        (by intro d hd; simp at hd; rcases hd with rfl | hd
            · omega
            · exact showNat_param level d hd) (by omega)
      simpa [List.append_assoc] using this
    · have hp : params? (showNat level) = some [[some level]] := by
        have := params?_joinSemi [showNat level] (by simp) (by intro c hc; simp at hc; subst hc; exact showNat_no59 _)
        simpa [joinSemi, chunkP_showNat] using this
      simp [sem, semCsi, semCsiEq, hp]

theorem count1_pos (k : Nat) (h : 0 < k) : count1 (some k) = k := by
  cases k with
  | zero => omega
  | succ k => rfl

theorem satSucc_pos (n : Nat) : 0 < satSucc n := by
  unfold satSucc usizeMax; split <;> omega

/-- parameter bytes of `n ; m` -/
theorem two_params (a b : Nat) :
    showNat a ++ [59] ++ showNat b = joinSemi [showNat a, showNat b] := by
  simp [joinSemi]

theorem good_nat (a : Nat) : Good [showNat a] := Good.single (PB_showNat a)
theorem good_nat2 (a b : Nat) : Good [showNat a, showNat b] := by
  intro c hc; simp at hc; rcases hc with rfl | rfl <;> exact PB_showNat _

theorem param_bytes_of_good {chunks : List (List Nat)} (h : Good chunks) :
    ∀ d ∈ joinSemi chunks, 0x30 ≤ d ∧ d < 0x40 := by
  intro d hd; have := h.join_bytes d hd; omega

/-- `CSI n <fin>` -/
theorem one_param_emits (n fin : Nat) (hf : 0x40 ≤ fin ∧ fin < 0x7f) :
    Emits (csiB ++ showNat n ++ [fin]) [.csi (showNat n) [] fin] ∧
      sem (.csi (showNat n) [] fin) = semCsiPlain (.other (.csi (showNat n) [] fin)) fin [[some n]] := by
  refine ⟨Emits.csi _ _ (showNat_param n) hf, ?_⟩
  have := semCsi_chunks [showNat n] [[some n]] fin (by simp) (good_nat n) (by simp [chunkP_showNat])
  simpa [sem, joinSemi] using this

/-- `CSI a ; b <fin>` -/
theorem two_param_emits (a b fin : Nat) (hf : 0x40 ≤ fin ∧ fin < 0x7f) :
    Emits (csiB ++ showNat a ++ [59] ++ showNat b ++ [fin]) [.csi (joinSemi [showNat a, showNat b]) [] fin] ∧
      sem (.csi (joinSemi [showNat a, showNat b]) [] fin)
        = semCsiPlain (.other (.csi (joinSemi [showNat a, showNat b]) [] fin)) fin [[some a], [some b]] := by
  constructor
  · have := Emits.csi (joinSemi [showNat a, showNat b]) fin (param_bytes_of_good (good_nat2 a b)) hf
    simpa [joinSemi, List.append_assoc] using this
  · have := semCsi_chunks [showNat a, showNat b] [[some a], [some b]] fin (by simp) (good_nat2 a b)
      (by simp [chunkP_showNat])
    simpa [sem] using this

theorem fixed_csi (ps : List Nat) (fin : Nat) (hp : ∀ d ∈ ps, 0x30 ≤ d ∧ d < 0x40) (hf : 0x40 ≤ fin ∧ fin < 0x7f) :
    Emits (csiB ++ ps ++ [fin]) [.csi ps [] fin] := Emits.csi ps fin hp hf

/-- `CSI ? mode <fin>` -/
theorem private_emits (mode fin : Nat) (hf : 0x40 ≤ fin ∧ fin < 0x7f) :
    Emits (csiB ++ [63] ++ showNat mode ++ [fin]) [.csi (63 :: showNat mode) [] fin] ∧
    params? (showNat mode) = some [[some mode]] := by
  constructor
  · have := Emits.csi (63 :: showNat mode) fin
      (by intro d hd; simp at hd; rcases hd with rfl | hd
          · omega
          · exact showNat_param mode d hd) hf
    simpa [List.append_assoc] using this
  · have := params?_joinSemi [showNat mode] (by simp) (by intro c hc; simp at hc; subst hc; exact showNat_no59 _)
    simpa [joinSemi, chunkP_showNat] using this

theorem private_inter_emits (mode i fin : Nat) (hi : 0x20 ≤ i ∧ i < 0x30) (hf : 0x40 ≤ fin ∧ fin < 0x7f) :
    Emits (csiB ++ [63] ++ showNat mode ++ [i, fin]) [.csi (63 :: showNat mode) [i] fin] := by
  have := Emits.csi_inter (63 :: showNat mode) i fin
    (by intro d hd; simp at hd; rcases hd with rfl | hd
        · omega
        · exact showNat_param mode d hd) hi hf
  simpa [List.append_assoc] using this

/-- what has to be shown per command -/
def Ok (caps : Caps) (cmd : Cmd) : Prop :=
  ∃ seqs, Emits (encode caps cmd) seqs ∧ seqs.map sem = meaning caps cmd

theorem kitty_if (caps : Caps) (c : Bool) (level : Nat) :
    ∃ seqs, Emits (if c then kittyLevel caps level else []) seqs ∧
      seqs.map sem = (if c then kittyMeaning caps level else []) := by
  cases c
  · exact ⟨[], Emits.nil, rfl⟩
  · simpa using kitty_emits caps level

theorem ok_decModeSet (caps : Caps) (enable : Bool) (mode : Nat) : Ok caps (.decModeSet enable mode) := by
  obtain ⟨s0, e0, m0⟩ := kitty_if caps (!enable && mode == altScreen) 0
  obtain ⟨s1, e1, m1⟩ := kitty_if caps (enable && mode == altScreen) keyboardLevelDefault
  have hf : 0x40 ≤ (if enable then 104 else 108) ∧ (if enable then 104 else 108) < 0x7f := by
    cases enable <;> simp
  obtain ⟨em, hp⟩ := private_emits mode (if enable then 104 else 108) hf
  refine ⟨s0 ++ [.csi (63 :: showNat mode) [] (if enable then 104 else 108)] ++ s1, ?_, ?_⟩
  · have := (e0.append em).append e1
    simpa [encode, List.append_assoc] using this
  · simp only [List.map_append, m0, m1, meaning, List.map_cons, List.map_nil]
    congr 2
    cases enable <;> simp [sem, semCsi, semCsiPrivate, hp]

theorem ok_decModeGet (caps : Caps) (mode : Nat) : Ok caps (.decModeGet mode) := by
  refine ⟨[.csi (63 :: showNat mode) [36] 112], ?_, ?_⟩
  · have := private_inter_emits mode 36 112 (by omega) (by omega)
    simpa [encode, List.append_assoc] using this
  · have hp := (private_emits mode 104 (by omega)).2
    simp [sem, semCsi, semCsiPrivate, hp, meaning]

theorem ok_cursorTo (caps : Caps) (row col : Nat) : Ok caps (.cursorTo row col) := by
  obtain ⟨e, m⟩ := two_param_emits (satSucc row) (satSucc col) 72 (by omega)
  refine ⟨_, by simpa [encode] using e, ?_⟩
  simp [m, semCsiPlain, meaning, count1_pos _ (satSucc_pos row), count1_pos _ (satSucc_pos col)]

theorem ok_one (caps : Caps) (cmd : Cmd) (n fin : Nat) (hf : 0x40 ≤ fin ∧ fin < 0x7f)
    (he : encode caps cmd = csiB ++ showNat n ++ [fin])
    (hm : semCsiPlain (.other (.csi (showNat n) [] fin)) fin [[some n]] :: [] = meaning caps cmd) : Ok caps cmd := by
  obtain ⟨e, m⟩ := one_param_emits n fin hf
  refine ⟨_, by rw [he]; exact e, ?_⟩
  simp [m, hm]

theorem ok_fixed (caps : Caps) (cmd : Cmd) (ps : List Nat) (fin : Nat) (hp : ∀ d ∈ ps, 0x30 ≤ d ∧ d < 0x40)
    (hf : 0x40 ≤ fin ∧ fin < 0x7f) (he : encode caps cmd = csiB ++ ps ++ [fin])
    (hm : [sem (.csi ps [] fin)] = meaning caps cmd) : Ok caps cmd := by
  refine ⟨_, by rw [he]; exact fixed_csi ps fin hp hf, ?_⟩
  simpa using hm

theorem ok_cursorMove (caps : Caps) (row col : Int) : Ok caps (.cursorMove row col) := by
  have hcol : ∃ seqs, Emits (if col > 0 then csiB ++ showNat col.toNat ++ [67]
      else if col < 0 then csiB ++ showNat col.natAbs ++ [68] else []) seqs ∧
      seqs.map sem = (if col > 0 then [Op.cuf col.toNat] else if col < 0 then [.cub col.natAbs] else []) := by
    by_cases h1 : col > 0
    · obtain ⟨e, m⟩ := one_param_emits col.toNat 67 (by omega)
      exact ⟨_, by simpa [h1] using e, by simp [h1, m, semCsiPlain, count1_pos col.toNat (by omega)]⟩
    · by_cases h2 : col < 0
      · obtain ⟨e, m⟩ := one_param_emits col.natAbs 68 (by omega)
        exact ⟨_, by simpa [h1, h2] using e, by simp [h1, h2, m, semCsiPlain, count1_pos col.natAbs (by omega)]⟩
      · exact ⟨[], by simpa [h1, h2] using Emits.nil, by simp [h1, h2]⟩
  have hrow : ∃ seqs, Emits (if row > 0 then csiB ++ showNat row.toNat ++ [66]
      else if row < 0 then csiB ++ showNat row.natAbs ++ [65] else []) seqs ∧
      seqs.map sem = (if row > 0 then [Op.cud row.toNat] else if row < 0 then [.cuu row.natAbs] else []) := by
    by_cases h1 : row > 0
    · obtain ⟨e, m⟩ := one_param_emits row.toNat 66 (by omega)
      exact ⟨_, by simpa [h1] using e, by simp [h1, m, semCsiPlain, count1_pos row.toNat (by omega)]⟩
    · by_cases h2 : row < 0
      · obtain ⟨e, m⟩ := one_param_emits row.natAbs 65 (by omega)
        exact ⟨_, by simpa [h1, h2] using e, by simp [h1, h2, m, semCsiPlain, count1_pos row.natAbs (by omega)]⟩
      · exact ⟨[], by simpa [h1, h2] using Emits.nil, by simp [h1, h2]⟩
  obtain ⟨sc, ec, mc⟩ := hcol
  obtain ⟨sr, er, mr⟩ := hrow
  exact ⟨sc ++ sr, by simpa [encode] using ec.append er, by simp [mc, mr, meaning]⟩

theorem ok_scroll (caps : Caps) (n : Int) : Ok caps (.scroll n) := by
  by_cases h1 : n < 0
  · obtain ⟨e, m⟩ := one_param_emits n.natAbs 84 (by omega)
    exact ⟨_, by simpa [encode, h1] using e, by simp [h1, m, semCsiPlain, meaning, count1_pos n.natAbs (by omega)]⟩
  · by_cases h2 : n > 0
    · obtain ⟨e, m⟩ := one_param_emits n.toNat 83 (by omega)
      exact ⟨_, by simpa [encode, h1, h2] using e, by simp [h1, h2, m, semCsiPlain, meaning, count1_pos n.toNat (by omega)]⟩
    · exact ⟨[], by simpa [encode, h1, h2] using Emits.nil, by simp [h1, h2, meaning]⟩

theorem ok_scrollRegion (caps : Caps) (start stop : Nat) : Ok caps (.scrollRegion start stop) := by
  by_cases h : stop > start
  · obtain ⟨e, m⟩ := two_param_emits (satSucc start) (satSucc stop) 114 (by omega)
    exact ⟨_, by simpa [encode, h] using e, by simp [h, m, semCsiPlain, meaning]⟩
  · refine ⟨[.csi [] [] 114], ?_, ?_⟩
    · have := fixed_csi [] 114 (by simp) (by omega)
      simpa [encode, h] using this
    · simp [h, meaning]; decide

theorem ok_face (caps : Caps) (f : Face) : Ok caps (.face f) := by
  have hne : faceChunks f caps.depth ≠ [] := by simp [faceChunks]
  have hg := faceChunks_good f caps.depth
  refine ⟨[.csi (joinSemi (faceChunks f caps.depth)) [] 109], ?_, ?_⟩
  · have := Emits.csi (joinSemi (faceChunks f caps.depth)) 109 (param_bytes_of_good hg) (by omega)
    simpa [encode] using this
  · simp only [List.map_cons, List.map_nil, sem, meaning]
    rw [semCsi_sgr _ _ hne hg (faceChunks_params f caps.depth), (faceParams_closed f caps.depth).sem]

theorem isEmpty_append' {α : Type} (a b : List α) : (a ++ b).isEmpty = (a.isEmpty && b.isEmpty) := by
  cases a <;> simp

theorem params_isEmpty_iff_ops (m : FaceModify) (d : Depth) :
    (faceModifyParams m d).isEmpty = (faceModifyMeaning m d).isEmpty := by
  have hopt : ∀ (c : Option Color) (role : Role), (optParams c d role).isEmpty = (optMeaning c d role).isEmpty := by
    intro c role
    cases c with
    | none => rfl
    | some c => cases d <;> cases role <;> simp [optParams, optMeaning, colorParams, colorMeaning]
  have htri : ∀ (v : Option Bool) (a b : Nat) (x y : SgrOp), (triParams v a b).isEmpty = (triOp v x y).isEmpty := by
    intro v a b x y; rcases v with _ | _ | _ <;> rfl
  unfold faceModifyParams faceModifyMeaning
  simp only [isEmpty_append', hopt, htri m.bold 1 22 .bold .normalIntensity,
    htri m.italic 3 23 .italic .noItalic, htri m.blink 5 25 .blink .noBlink, htri m.strike 9 29 .strike .noStrike]
  cases m.reset <;> (rcases m.underline with _ | _ | _ | _ | _ | _ | _ | k <;> simp [ulModParams, underParams])

theorem ok_faceModify (caps : Caps) (m : FaceModify) : Ok caps (.faceModify m) := by
  have hg := faceModifyChunks_good m caps.depth
  have hpar := faceModifyChunks_params m caps.depth
  have hcl := (faceModifyParams_closed m caps.depth).sem
  have hemp : (faceModifyChunks m caps.depth).isEmpty = (faceModifyMeaning m caps.depth).isEmpty := by
    rw [faceModify_empty_iff, params_isEmpty_iff_ops]
  by_cases he : (faceModifyChunks m caps.depth).isEmpty = true
  · have he' : (faceModifyMeaning m caps.depth).isEmpty = true := by rw [← hemp]; exact he
    exact ⟨[], by simpa [encode, he] using Emits.nil, by simp [meaning, he']⟩
  · have he' : ¬ (faceModifyMeaning m caps.depth).isEmpty = true := by rw [← hemp]; exact he
    have hne : faceModifyChunks m caps.depth ≠ [] := by
      intro h; apply he; simp [h]
    refine ⟨[.csi (joinSemi (faceModifyChunks m caps.depth)) [] 109], ?_, ?_⟩
    · have := Emits.csi (joinSemi (faceModifyChunks m caps.depth)) 109 (param_bytes_of_good hg) (by omega)
      simpa [encode, he] using this
    · simp only [List.map_cons, List.map_nil, sem, meaning, he', if_false]
      rw [semCsi_sgr _ _ hne hg hpar, hcl]
      simp [he']

/-! ### hexadecimal payloads -/

theorem unhex_hexDigit : ∀ d, d < 16 → unhexDigit? (hexDigit d) = some d := by decide

theorem hexDigit_range : ∀ d, d < 16 → (48 ≤ hexDigit d ∧ hexDigit d ≤ 57) ∨ (97 ≤ hexDigit d ∧ hexDigit d ≤ 102) := by
  decide

theorem hex2_bytes (b : Nat) (hb : b < 256) : ∀ x ∈ hex2 b, (48 ≤ x ∧ x ≤ 57) ∨ (97 ≤ x ∧ x ≤ 102) := by
  intro x hx
  simp [hex2] at hx
  rcases hx with rfl | rfl
  · exact hexDigit_range _ (by omega)
  · exact hexDigit_range _ (by omega)

theorem unhexPairs_hex2 (b : Nat) (hb : b < 256) (rest : List Nat) (r : List Nat)
    (h : unhexPairs? rest = some r) : unhexPairs? (hex2 b ++ rest) = some (b :: r) := by
  simp [hex2, unhexPairs?, unhex_hexDigit (b / 16) (by omega), unhex_hexDigit (b % 16) (by omega), h]
  omega

theorem colorSpec_showColor (c : Color) (h : c.a = 255 ∧ c.r < 256 ∧ c.g < 256 ∧ c.b < 256) :
    colorSpec? (showColor c) = some (c.r, c.g, c.b) := by
  obtain ⟨ha, hr, hg, hb⟩ := h
  have e := unhexPairs_hex2 c.r hr _ _ (unhexPairs_hex2 c.g hg _ _ (unhexPairs_hex2 c.b hb [] [] rfl))
  simp [hex2] at e
  simp [showColor, ha, hex2, colorSpec?, e]

theorem showColor_bytes (c : Color) (h : c.a = 255 ∧ c.r < 256 ∧ c.g < 256 ∧ c.b < 256) :
    ∀ x ∈ showColor c, x = 35 ∨ (48 ≤ x ∧ x ≤ 57) ∨ (97 ≤ x ∧ x ≤ 102) := by
  obtain ⟨ha, hr, hg, hb⟩ := h
  intro x hx
  simp only [showColor, ha, ne_eq, not_true_eq_false, if_false, List.append_nil, List.mem_append,
    List.mem_singleton] at hx
  rcases hx with ((rfl | hx) | hx) | hx
  · left; rfl
  · right; exact hex2_bytes _ hr x hx
  · right; exact hex2_bytes _ hg x hx
  · right; exact hex2_bytes _ hb x hx

theorem spec_bytes (c : Option Color) (h : ∀ col, c = some col → col.a = 255 ∧ col.r < 256 ∧ col.g < 256 ∧ col.b < 256) :
    ∀ x ∈ specBytes c, x ≠ 7 ∧ x ≠ 27 ∧ x ≠ 59 := by
  intro x hx
  cases c with
  | none => simp [specBytes] at hx; omega
  | some col =>
    have := showColor_bytes col (h col rfl) x hx
    omega

theorem oscColorOp_spec (name : TermColor) (c : Option Color) (dflt : Op)
    (h : ∀ col, c = some col → col.a = 255 ∧ col.r < 256 ∧ col.g < 256 ∧ col.b < 256) :
    oscColorOp name (specBytes c) dflt = .oscColor name (c.map fun c => (c.r, c.g, c.b)) := by
  cases c with
  | none => simp [oscColorOp, specBytes]
  | some col =>
    have hs := colorSpec_showColor col (h col rfl)
    have hne : showColor col ≠ [63] := by
      intro e
      have : 35 ∈ showColor col := by simp [showColor]
      rw [e] at this; simp at this
    simp [oscColorOp, specBytes, hs, hne]

theorem ok_color (caps : Caps) (name : TermColor) (c : Option Color)
    (h : ∀ col, c = some col → col.a = 255 ∧ col.r < 256 ∧ col.g < 256 ∧ col.b < 256) :
    Ok caps (.color name c) := by
  have hs := spec_bytes c h
  cases name with
  | background =>
    refine ⟨[.osc ([49, 49, 59] ++ specBytes c)], ?_, ?_⟩
    · have := Emits.osc ([49, 49, 59] ++ specBytes c) (by
        intro d hd; simp at hd; rcases hd with rfl | rfl | hd
        · omega
        · omega
        · have := hs d hd; omega)
      simpa [encode, List.append_assoc] using this
    · simp [sem, semOsc, meaning, oscColorOp_spec _ c _ h]
  | foreground =>
    refine ⟨[.osc ([49, 48, 59] ++ specBytes c)], ?_, ?_⟩
    · have := Emits.osc ([49, 48, 59] ++ specBytes c) (by
        intro d hd; simp at hd; rcases hd with rfl | rfl | rfl | hd
        · omega
        · omega
        · omega
        · have := hs d hd; omega)
      simpa [encode, List.append_assoc] using this
    · simp [sem, semOsc, meaning, oscColorOp_spec _ c _ h]
  | palette i =>
    refine ⟨[.osc ([52, 59] ++ showNat i ++ [59] ++ specBytes c)], ?_, ?_⟩
    · have := Emits.osc ([52, 59] ++ showNat i ++ [59] ++ specBytes c) (by
        intro d hd; simp at hd; rcases hd with rfl | rfl | hd | rfl | hd
        · omega
        · omega
        · have := showNat_digits i d hd; omega
        · omega
        · have := hs d hd; omega)
      simpa [encode, List.append_assoc] using this
    · have hsplit : splitBy 59 (showNat i ++ 59 :: specBytes c) = [showNat i, specBytes c] := by
        rw [splitBy_append_sep 59 _ _ (showNat_no59 i), splitBy_no_sep 59 _ (fun hh => (hs 59 hh).2.2 rfl)]
      simp [sem, semOsc, meaning, hsplit, readNat?_showNat, oscColorOp_spec _ c _ h]

theorem ok_title (caps : Caps) (text : List Nat) (h : ∀ b ∈ text, textByte b) : Ok caps (.title text) := by
  refine ⟨[.osc ([48, 59] ++ text)], ?_, ?_⟩
  · have := Emits.osc ([48, 59] ++ text) (by
      intro d hd; simp at hd; rcases hd with rfl | rfl | hd
      · omega
      · omega
      · have := h d hd; unfold textByte at this; omega)
    simpa [encode, List.append_assoc] using this
  · simp [sem, semOsc, meaning]

/-! ### XTGETTCAP -/

/-- hex spelling of one capability name -/
def nameHex (n : List Nat) : List Nat := n.flatMap hexX

theorem nameHex_bytes (n : List Nat) (h : ∀ b ∈ n, nameByte b) :
    ∀ x ∈ nameHex n, (48 ≤ x ∧ x ≤ 57) ∨ (97 ≤ x ∧ x ≤ 102) := by
  intro x hx
  simp only [nameHex, List.mem_flatMap] at hx
  obtain ⟨b, hb, hx⟩ := hx
  have hb' := h b hb
  unfold nameByte at hb'
  have : hexX b = hex2 b := by unfold hexX; simp; omega
  rw [this] at hx
  exact hex2_bytes b (by omega) x hx

theorem unhex_nameHex (n : List Nat) (h : ∀ b ∈ n, nameByte b) : unhexPairs? (nameHex n) = some n := by
  induction n with
  | nil => rfl
  | cons b bs ih =>
    have hb' := h b (by simp)
    unfold nameByte at hb'
    have e : hexX b = hex2 b := by unfold hexX; simp; omega
    have := unhexPairs_hex2 b (by omega) (nameHex bs) bs (ih (fun x hx => h x (by simp [hx])))
    simpa [nameHex, e] using this

theorem joinNames_eq (names : List (List Nat)) : joinNames names = joinSemi (names.map nameHex) := by
  induction names with
  | nil => rfl
  | cons n ns ih =>
    cases ns with
    | nil => simp [joinNames, joinSemi, nameHex]
    | cons n2 ns2 => simp only [joinNames, List.map_cons, joinSemi, nameHex] at ih ⊢; rw [ih]

theorem ok_termcap (caps : Caps) (names : List (List Nat)) (hne : names ≠ [])
    (h : ∀ n ∈ names, ∀ b ∈ n, nameByte b) : Ok caps (.termcap names) := by
  have hbytes : ∀ c ∈ names.map nameHex, ∀ x ∈ c, (48 ≤ x ∧ x ≤ 57) ∨ (97 ≤ x ∧ x ≤ 102) := by
    intro c hc x hx
    simp only [List.mem_map] at hc
    obtain ⟨n, hn, rfl⟩ := hc
    exact nameHex_bytes n (h n hn) x hx
  have hno59 : ∀ c ∈ names.map nameHex, 59 ∉ c := by
    intro c hc h59; have := hbytes c hc 59 h59; omega
  have hjoin : ∀ x ∈ joinSemi (names.map nameHex), x ≠ 27 := by
    intro x hx
    have key : ∀ (l : List (List Nat)), (∀ c ∈ l, ∀ x ∈ c, (48 ≤ x ∧ x ≤ 57) ∨ (97 ≤ x ∧ x ≤ 102)) →
        ∀ x ∈ joinSemi l, x ≠ 27 := by
      intro l
      induction l with
      | nil => intro _ x hx; simp [joinSemi] at hx
      | cons c cs ih =>
        intro hl x hx
        cases cs with
        | nil => simp [joinSemi] at hx; have := hl c (by simp) x hx; omega
        | cons c2 cs2 =>
          simp only [joinSemi, List.mem_append, List.mem_cons] at hx
          rcases hx with hx | hx | hx
          · have := hl c (by simp) x hx; omega
          · omega
          · exact ih (fun c' hc' => hl c' (by simp [hc'])) x hx
    exact key _ hbytes x hx
  refine ⟨[.dcs ([43, 113] ++ joinSemi (names.map nameHex))], ?_, ?_⟩
  · have := Emits.dcs ([43, 113] ++ joinSemi (names.map nameHex)) (by
      intro d hd; simp only [List.mem_append, List.mem_cons, List.mem_nil_iff, or_false] at hd
      rcases hd with (rfl | rfl) | hd
      · omega
      · omega
      · exact hjoin d hd)
    simpa [encode, joinNames_eq, List.append_assoc] using this
  · have hsplit := splitBy_joinSemi (names.map nameHex) (by simpa using hne) hno59
    have hm : (names.map nameHex).mapM unhexPairs? = some names := by
      have key : ∀ (l : List (List Nat)), (∀ n ∈ l, ∀ b ∈ n, nameByte b) → (l.map nameHex).mapM unhexPairs? = some l := by
        intro l
        induction l with
        | nil => intro _; rfl
        | cons n ns ih =>
          intro hl
          simp [List.mapM_cons, unhex_nameHex n (hl n (by simp)), ih (fun n' hn' => hl n' (by simp [hn']))]
      exact key names h
    simp [sem, semDcs, meaning, hsplit, hm]

theorem ok_char (caps : Caps) (cp : Nat) (h : printable cp) : Ok caps (.char cp) :=
  ⟨[.print cp], by simpa [encode] using Emits.utf8 cp h, by simp [sem, meaning]⟩

/-! ## The property theorems -/

/-- **C05, core.** For every capability set and every command of the domain, the encoder's bytes are
read by the reference interpreter — from the ground state and whatever follows — as a list of
complete control sequences whose meaning is exactly the meaning of the command. -/
theorem C05_run (caps : Caps) (cmd : Cmd) (h : Valid cmd) : Ok caps cmd := by
  cases cmd with
  | char cp => exact ok_char caps cp h
  | face f => exact ok_face caps f
  | faceModify m => exact ok_faceModify caps m
  | faceGet =>
    refine ⟨[.dcs [36, 113, 109]], ?_, by simp [sem, semDcs, meaning]⟩
    have := Emits.dcs [36, 113, 109] (by intro d hd; simp at hd; omega)
    simpa [encode] using this
  | decModeSet enable mode => exact ok_decModeSet caps enable mode
  | decModeGet mode => exact ok_decModeGet caps mode
  | cursorGet => exact ok_fixed caps _ [54] 110 (by simp) (by omega) rfl (by simp only [meaning]; decide)
  | cursorTo row col => exact ok_cursorTo caps row col
  | cursorMove row col => exact ok_cursorMove caps row col
  | cursorSave => exact ⟨[.esc [] 55], by simpa [encode] using Emits.esc 55 (by omega) (by omega) (by omega) (by omega), by simp [sem, meaning]⟩
  | cursorRestore => exact ⟨[.esc [] 56], by simpa [encode] using Emits.esc 56 (by omega) (by omega) (by omega) (by omega), by simp [sem, meaning]⟩
  | eraseLineLeft => exact ok_fixed caps _ [49] 75 (by simp) (by omega) rfl (by simp only [meaning]; decide)
  | eraseLineRight => exact ok_fixed caps _ [] 75 (by simp) (by omega) rfl (by simp only [meaning]; decide)
  | eraseLine => exact ok_fixed caps _ [50] 75 (by simp) (by omega) rfl (by simp only [meaning]; decide)
  | eraseScreen => exact ok_fixed caps _ [50] 74 (by simp) (by omega) rfl (by simp only [meaning]; decide)
  | eraseChars n =>
    by_cases h0 : n = 0
    · exact ⟨[], by simpa [encode, h0] using Emits.nil, by simp [meaning, h0]⟩
    · exact ok_one caps _ n 88 (by omega) (by simp [encode, h0])
        (by simp [semCsiPlain, meaning, h0, count1_pos n (by omega)])
  | scroll n => exact ok_scroll caps n
  | scrollRegion start stop => exact ok_scrollRegion caps start stop
  | reset => exact ⟨[.esc [] 99], by simpa [encode] using Emits.esc 99 (by omega) (by omega) (by omega) (by omega), by simp [sem, meaning]⟩
  | termcap names => exact ok_termcap caps names h.1 h.2
  | color name c =>
    refine ok_color caps name c ?_
    intro col hc; subst hc; exact h
  | title text => exact ok_title caps text h
  | deviceAttrs => exact ok_fixed caps _ [] 99 (by simp) (by omega) rfl (by simp only [meaning]; decide)
  | keyboardLevel n => exact kitty_emits caps n

/-- **C05, meaning.** The reference interpreter reads the bytes of every command as exactly the
operations that command is specified to perform, with exactly its parameters. -/
theorem C05_meaning (caps : Caps) (cmd : Cmd) (h : Valid cmd) :
    interp (encode caps cmd) = some (meaning caps cmd) := by
  obtain ⟨seqs, he, hm⟩ := C05_run caps cmd h
  have := he []
  simp only [List.append_nil] at this
  simp [interp, this, run, hm]

/-- **C05, self-contained (after complete sequences).** Every command is emitted as complete control
sequences: placed after any byte string that leaves the interpreter in its ground state — i.e. after
any stream of COMPLETE sequences (`interp pre = some _`) — and before any other bytes, it performs its
own operations, and neither disturbs nor is disturbed by its neighbours.  What happens after an
INCOMPLETE sequence is `C05_resync` below. -/
theorem C05_self_contained (caps : Caps) (cmd : Cmd) (h : Valid cmd) (pre post : List Nat)
    (opsPre : List Op) (hpre : interp pre = some opsPre) :
    interp (pre ++ encode caps cmd ++ post) = (interp post).map fun opsPost => opsPre ++ meaning caps cmd ++ opsPost := by
  obtain ⟨seqs, he, hm⟩ := C05_run caps cmd h
  unfold interp at hpre ⊢
  rw [List.append_assoc, run_append]
  cases hp : run .ground pre with
  | mk st sp =>
    rw [hp] at hpre
    cases st <;> simp at hpre
    subst hpre
    simp only [he post]
    cases hq : run .ground post with
    | mk st2 sq =>
      cases st2 <;> simp [hm]

/-- **C05, stream.** A stream of commands parses back into the concatenation of their meanings. -/
theorem C05_stream (caps : Caps) (cmds : List Cmd) (h : ∀ c ∈ cmds, Valid c) :
    interp (cmds.flatMap (encode caps)) = some (cmds.flatMap (meaning caps)) := by
  induction cmds with
  | nil => rfl
  | cons c cs ih =>
    have h1 := C05_self_contained caps c (h c (by simp)) [] (cs.flatMap (encode caps)) [] rfl
    simp only [List.nil_append] at h1
    simp only [List.flatMap_cons, h1, ih (fun x hx => h x (by simp [hx]))]
    simp

/-- **C05, no overflow.** The arithmetic the encoder performs on extreme parameters stays in range:
`saturating_add(1)` never exceeds `usize::MAX`, and `unsigned_abs` of any `i32` fits `u32`. -/
theorem C05_no_overflow :
    (∀ n, n ≤ usizeMax → satSucc n ≤ usizeMax ∧ (n < usizeMax → satSucc n = n + 1)) ∧
    (∀ i : Int, -2 ^ 31 ≤ i → i < 2 ^ 31 → i.natAbs < 2 ^ 32) := by
  refine ⟨?_, ?_⟩
  · intro n hn; unfold satSucc usizeMax at *; split <;> omega
  · intro i h1 h2; omega

/-! ### the encoder as a stateful object: chunk buffer, failing writers, machine arithmetic -/

/-- **C05, one call on any encoder state.** `encodeSt` is `TTYEncoder::encode` with its state: the
`Chunks` buffer (`buffer`, `offsets`) as left by earlier calls — ANY value, also the uncleared buffer
a call leaves behind when its writer failed inside `drain` —, a writer that may fail after any number
of bytes, and range-checked `usize` / `i32` / `u32` arithmetic and slice indexing with panic as an
outcome.  For parameters that are values of their Rust types the call never panics, and towards the
writer it is exactly one `write_all (encode caps cmd)`: every byte and `Ok` if the writer has room,
the longest prefix that fits and `Err` otherwise.  After a successful `Face` / `FaceModify` the chunk
buffer is empty; the other commands do not touch it. -/
theorem C05_call (caps : Caps) (st : RawChunks) (cmd : Cmd) (w : Writer) (h : InRange cmd) :
    ∃ st', encodeSt caps st cmd w
        = .ok (st', (w.writeAll (encode caps cmd)).1, (w.writeAll (encode caps cmd)).2) ∧
      ((w.writeAll (encode caps cmd)).2 = true →
        st' = match cmd with | .face _ | .faceModify _ => RawChunks.empty | _ => st) :=
  encodeSt_spec caps st cmd w h

/-- **C05, encoding never panics**: for every command with in-range parameters (every `usize` up to
`usize::MAX`, every `i32` down to `i32::MIN`), every encoder state and every writer, the call does
not end in the panic outcome: `saturating_add(1)` stays a `usize`, `unsigned_abs` of an `i32` is a
`u32`, `index + 10` stays an `i32`, and every slice `&buffer[start..end]` of `Chunks::iter` is in
bounds. -/
theorem C05_no_panic (caps : Caps) (st : RawChunks) (cmd : Cmd) (w : Writer) (h : InRange cmd) :
    ∀ e, encodeSt caps st cmd w ≠ .error e := by
  obtain ⟨st', e, _⟩ := encodeSt_spec caps st cmd w h
  intro x hx
  rw [e] at hx
  cases hx

/-- the operators of the pinned tree (`+ 1`, unary `-`) do panic in this model: the `Except` outcome
is not vacuous -/
example : pinnedBytesE ⟨.gray, true⟩ (.cursorTo 0 usizeMax) = .error .addOverflow := rfl
example : pinnedBytesE ⟨.gray, true⟩ (.scroll (-2147483648)) = .error .negOverflow := rfl
example : InRange (.cursorMove (-2147483648) 2147483647) := by
  simp only [InRange, i32Min, i32Max]; omega

theorem takeRoom_of_fits (room : Option Nat) (bs : List Nat) (h : fitsRoom room bs = true) :
    takeRoom room bs = bs := by
  cases room with
  | none => rfl
  | some k => simp only [fitsRoom, decide_eq_true_eq] at h; simp [takeRoom, List.take_of_length_le h]

/-- **C05, streams through one encoder.** Any sequence of calls on ONE encoder (any initial chunk
buffer), the `i`-th call writing to its own writer that fails after `room i` bytes (`none`: never):
no call panics; the `i`-th writer receives exactly what a fresh encoder would have written, truncated
to its room, and the call reports `Ok` iff everything fitted; and the concatenated output of the
successful calls is read by the reference interpreter as exactly the concatenation of the meanings of
the commands of those calls — nothing is left over from, or missing because of, an earlier call. -/
theorem C05_encoder_stream (caps : Caps) (items : List (Cmd × Option Nat))
    (hr : ∀ i ∈ items, InRange i.1) (hv : ∀ i ∈ items, Valid i.1) (st : RawChunks) :
    ∃ st' outs, encodeStream caps st items = .ok (st', outs) ∧
      outs = items.map (fun i => (takeRoom i.2 (encode caps i.1), fitsRoom i.2 (encode caps i.1))) ∧
      interp ((outs.filter (·.2)).flatMap (·.1))
        = some (((items.filter fun i => fitsRoom i.2 (encode caps i.1)).map (·.1)).flatMap (meaning caps)) := by
  obtain ⟨st', e⟩ := encodeStream_spec caps items hr st
  refine ⟨st', _, e, rfl, ?_⟩
  have hbytes : ((items.map (fun i => (takeRoom i.2 (encode caps i.1), fitsRoom i.2 (encode caps i.1)))).filter
        (·.2)).flatMap (·.1)
      = ((items.filter fun i => fitsRoom i.2 (encode caps i.1)).map (·.1)).flatMap (encode caps) := by
    clear e hr hv
    induction items with
    | nil => rfl
    | cons i rest ih =>
      by_cases hf : fitsRoom i.2 (encode caps i.1) = true
      · simp only [List.map_cons, List.filter_cons, hf, if_true, List.flatMap_cons, ih,
          takeRoom_of_fits _ _ hf]
      · simp only [List.map_cons, List.filter_cons, hf]
        exact ih
  rw [hbytes]
  apply C05_stream
  intro c hc
  simp only [List.mem_map, List.mem_filter] at hc
  obtain ⟨i, ⟨hi, _⟩, rfl⟩ := hc
  exact hv i hi

/-- with writers that never fail, an encoder that starts with an empty chunk buffer ends with an empty
chunk buffer ("each call starts from and leaves an empty buffer"), every call returns `Ok`, and the
whole output is the concatenation of the pure encodings, which reads back as the meanings -/
theorem C05_encoder_stream_ok (caps : Caps) (cmds : List Cmd) (hr : ∀ c ∈ cmds, InRange c)
    (hv : ∀ c ∈ cmds, Valid c) :
    encodeStream caps RawChunks.empty (cmds.map fun c => (c, none))
      = .ok (RawChunks.empty, cmds.map fun c => (encode caps c, true)) ∧
    interp (cmds.flatMap (encode caps)) = some (cmds.flatMap (meaning caps)) :=
  ⟨encodeStream_empty caps cmds hr, C05_stream caps cmds hv⟩

/-! ### resynchronisation: what "whatever preceded it" means exactly -/

/-- the interpreter started in parser state `s` (e.g. in the middle of a sequence that was cut off) -/
def interpFrom (s : PState) (bs : List Nat) : Option (List Op) :=
  match run s bs with
  | (.ground, seqs) => some (seqs.map sem)
  | _ => none

theorem interpFrom_ground (bs : List Nat) : interpFrom .ground bs = interp bs := rfl

/-- **C05, resynchronisation.** Let the interpreter be in ANY parser state `s` — ground, or inside a
cut-off escape / CSI sequence, UTF-8 character, or unterminated OSC / DCS string.  Every command other
than `Char` whose encoding is not empty is still read as exactly its meaning: the interpreter first
aborts the interrupted sequence (`abortMark s`: nothing for escape / CSI, one `bad 27` item for a
partial character or a dropped string) and then performs the command; what follows is read from the
ground state.  (Reason: all these encodings start with `ESC x`, `x ≠ \`, and ESC restarts the
reference parser from every state — the VT500 rule; `run_esc_restart`.)
Commands with an empty encoding have an empty meaning.  `Char` does NOT resynchronise: see the examples. -/
theorem C05_resync (caps : Caps) (cmd : Cmd) (h : Valid cmd) (hc : ∀ cp, cmd ≠ .char cp)
    (hne : encode caps cmd ≠ []) (s : PState) (post : List Nat) :
    interpFrom s (encode caps cmd ++ post)
      = (interp post).map fun opsPost => (abortMark s).map sem ++ meaning caps cmd ++ opsPost := by
  obtain ⟨seqs, he, hm⟩ := C05_run caps cmd h
  unfold interpFrom interp
  rw [escInitial_run _ (encode_escInitial caps cmd hc) hne s post, he post]
  cases hq : run .ground post with
  | mk st2 sq => cases st2 <;> simp [hm]

/-- a command that emits nothing means nothing -/
theorem C05_empty_means_nothing (caps : Caps) (cmd : Cmd) (h : Valid cmd) (he : encode caps cmd = []) :
    meaning caps cmd = [] := by
  have := C05_meaning caps cmd h
  rw [he] at this
  simpa [interp, run] using this.symm

/-- `Char` is read correctly only from the ground state: after a cut-off `ESC [` the character is taken
as the final byte of the CSI sequence (here: `A` = cursor up), inside an unterminated OSC string it is
swallowed into the string -/
example : interpFrom (.csi [] []) (encode ⟨.trueColor, false⟩ (.char 65)) = some [.cuu 1] := by decide
example : interpFrom (.osc [48, 59]) (encode ⟨.trueColor, false⟩ (.char 65) ++ stB) = some [.title [65]] := by
  decide
/-- a `Face` after an unterminated title string: the string is dropped (`bad 27`), the face is read -/
example : interpFrom (.osc [48, 59, 120]) (encode ⟨.gray, false⟩ (.face ⟨none, none, 0, true, false, false, false, false⟩))
    = some [.other (.bad 27), .sgr [.reset, .bold]] := by decide

/-! ### positions: plain `+ 1`, and the saturated corner -/

/-- no parameter at `usize::MAX` (where `saturating_add(1)` cannot add) -/
def NoSat : Cmd → Prop
  | .cursorTo row col => row < usizeMax ∧ col < usizeMax
  | .scrollRegion start stop => start < usizeMax ∧ stop < usizeMax
  | _ => True

/-- `meaning` with the textbook one-based positions: zero-based `row`, `col` address line `row + 1`,
column `col + 1` -/
def meaningPlain (caps : Caps) : Cmd → List Op
  | .cursorTo row col => [.cup (row + 1) (col + 1)]
  | .scrollRegion start stop =>
    if stop > start then [.decstbm (some (start + 1, stop + 1))] else [.decstbm none]
  | cmd => meaning caps cmd

/-- **C05, meaning with plain `+ 1`.** Below `usize::MAX` positions are exactly one-based. -/
theorem C05_meaning_plain (caps : Caps) (cmd : Cmd) (h : Valid cmd) (hs : NoSat cmd) :
    interp (encode caps cmd) = some (meaningPlain caps cmd) := by
  rw [C05_meaning caps cmd h]
  cases cmd with
  | cursorTo row col =>
    obtain ⟨h1, h2⟩ := hs
    have e1 : satSucc row = row + 1 := by unfold satSucc; unfold usizeMax at *; split <;> omega
    have e2 : satSucc col = col + 1 := by unfold satSucc; unfold usizeMax at *; split <;> omega
    simp [meaning, meaningPlain, e1, e2]
  | scrollRegion start stop =>
    obtain ⟨h1, h2⟩ := hs
    have e1 : satSucc start = start + 1 := by unfold satSucc; unfold usizeMax at *; split <;> omega
    have e2 : satSucc stop = stop + 1 := by unfold satSucc; unfold usizeMax at *; split <;> omega
    simp [meaning, meaningPlain, e1, e2]
  | _ => rfl

/-- **the saturated corner** (spec decision): the zero-based position `usize::MAX` cannot be written
one-based in a `usize`; the encoder addresses line / column `usize::MAX` instead of `usize::MAX + 1`.
Both are beyond any screen, and terminals clamp CUP / DECSTBM parameters to the screen size, so the
cursor lands on the last line either way; the interpreter here does not model a screen size and
reports the parameter as sent. -/
theorem C05_saturated (caps : Caps) (col : Nat) :
    interp (encode caps (.cursorTo usizeMax col)) = some [.cup usizeMax (satSucc col)] ∧
    interp (encode caps (.cursorTo col usizeMax)) = some [.cup (satSucc col) usizeMax] := by
  have e : satSucc usizeMax = usizeMax := by unfold satSucc; simp
  constructor
  · rw [C05_meaning caps (.cursorTo usizeMax col) trivial]; simp [meaning, e]
  · rw [C05_meaning caps (.cursorTo col usizeMax) trivial]; simp [meaning, e]

/-! ### SGR selects exactly the requested attributes -/

/-- the attribute state a `Face` asks for in true-colour mode -/
def attrOfFace (f : Face) : Attr :=
  ⟨f.fg.map fun c => .inl (c.r, c.g, c.b), f.bg.map fun c => .inl (c.r, c.g, c.b), none,
   f.under, f.bold, f.italic, f.blink, f.reverse, f.strike⟩

/-- **C05, exact face.** In true-colour mode, whatever the terminal's attributes were, after the
`Face` command they are exactly the requested ones: the requested colours and attributes and nothing
else. -/
theorem C05_sgr_exact (f : Face) (hu : f.under ≤ 5) (a : Attr) :
    (faceMeaning f .trueColor).foldl applySgr a = attrOfFace f := by
  obtain ⟨fg, bg, under, bold, italic, blink, reverse, strike⟩ := f
  simp only at hu
  cases fg <;> cases bg <;> cases bold <;> cases italic <;> cases blink <;> cases reverse <;> cases strike <;>
    (rcases under with _ | _ | _ | _ | _ | _ | n <;>
      (try simp [faceMeaning, optMeaning, colorMeaning, colorOp, flagOp, applySgr, attrOfFace, Attr.default]) <;>
      (try omega))

/-- in reduced depths exactly one palette entry is selected per colour -/
theorem C05_palette_single (c : Color) (role : Role) (hrole : role ≠ .ul) :
    (∃ i, colorMeaning c .eightBit role = [colorOp role (.inr i)]) ∧
    (∃ i, colorMeaning c .gray role = [colorOp role (.inr i)]) := by
  cases role <;> simp_all [colorMeaning, colorOp]

/-- **C05, exact face at every depth.** Whatever the terminal's attributes were, after a `Face`
command they are exactly the requested ones: true colour — the RGB triples; 256 colours — the palette
entry `pal` of each colour; grey — one of the palette entries 0 / 8 / 7 / 15 per colour; the underline
colour is the default; every attribute is as requested. -/
theorem C05_face_exact_depth (d : Depth) (f : Face) (hu : f.under ≤ 5) (a : Attr) :
    (faceMeaning f d).foldl applySgr a = attrOfFaceAt d f := face_exact_depth d f hu a

/-- **C05, exact face modification.** Applying the SGR operations of a `FaceModify` to ANY attribute
state changes exactly the requested fields (`modifyAttr`): after the optional reset, a colour given is
selected (RGB / palette entry / grey entry by depth), `Some(true)` sets and `Some(false)` clears a
flag, `None` leaves the field untouched, `underline: Some(k)` sets the style, `reverse` is never
touched.  At depth `gray` the underline colour is left untouched (`C05_gray_underline_not_emitted`). -/
theorem C05_modify_exact (d : Depth) (m : FaceModify) (hu : ∀ k, m.underline = some k → k ≤ 5) (a : Attr) :
    (faceModifyMeaning m d).foldl applySgr a = modifyAttr d m a := modify_exact d m hu a

/-- **C05, reduced depths select one palette entry per colour** — as an effect on the attribute state:
256 colours: foreground, background and underline colour become the palette index `pal`; grey:
foreground and background become one of the four entries 0, 8, 7, 15. -/
theorem C05_reduced_single (c : Color) (a : Attr) :
    ((colorMeaning c .eightBit .fg).foldl applySgr a = { a with fg := some (.inr c.pal) }) ∧
    ((colorMeaning c .eightBit .bg).foldl applySgr a = { a with bg := some (.inr c.pal) }) ∧
    ((colorMeaning c .eightBit .ul).foldl applySgr a = { a with ul := some (.inr c.pal) }) ∧
    ((colorMeaning c .gray .fg).foldl applySgr a = { a with fg := some (selOf .gray c) }) ∧
    ((colorMeaning c .gray .bg).foldl applySgr a = { a with bg := some (selOf .gray c) }) ∧
    (∃ i, selOf .gray c = .inr i ∧ (i = 0 ∨ i = 8 ∨ i = 7 ∨ i = 15)) :=
  let ⟨h1, h2, h3, h4, h5⟩ := reduced_single c a
  ⟨h1, h2, h3, h4, h5, gray_entries c⟩

/-- **grey depth: the underline colour is NOT emitted** (there is no 16-colour SGR code for it): the
command's meaning contains no operation for it, the encoder emits no byte for it, the attribute state
keeps its underline colour.  In this one place "one palette entry per colour" does not hold: the
colour is dropped, by decision of the specification `meaning`. -/
theorem C05_gray_underline_not_emitted (c : Color) (kitty : Bool) (a : Attr) :
    colorMeaning c .gray .ul = [] ∧
    encode ⟨.gray, kitty⟩ (.faceModify ⟨false, none, none, none, some c, none, none, none, none⟩) = [] ∧
    (modifyAttr .gray ⟨false, none, none, none, some c, none, none, none, none⟩ a).ul = a.ul :=
  ⟨rfl, rfl, rfl⟩

/-! Non-vacuity: concrete commands of every shape meet `Valid`, and the pinned defects are visible. -/
example : Valid (.char 0x1F600) := by unfold Valid printable; omega
example : Valid (.termcap [[84, 78], [67, 111]]) := by
  refine ⟨by simp, ?_⟩; intro n hn b hb; simp at hn; rcases hn with rfl | rfl <;> simp at hb <;> (unfold nameByte; omega)
example : interp (encode ⟨.trueColor, true⟩ (.decModeSet true 1049)) =
    some [.decset 1049, .kittyKeyboard 5] := by
  rw [C05_meaning ⟨.trueColor, true⟩ (.decModeSet true 1049) trivial]; rfl
example : interp (encode ⟨.trueColor, false⟩ (.cursorMove (-2147483648) 0)) = some [.cuu 2147483648] := by
  rw [C05_meaning ⟨.trueColor, false⟩ (.cursorMove (-2147483648) 0) trivial]; rfl
/-- below `usize::MAX` positions are plainly one-based -/
example : interp (encode ⟨.trueColor, false⟩ (.cursorTo 3 4)) = some [.cup 4 5] := by
  rw [C05_meaning_plain ⟨.trueColor, false⟩ (.cursorTo 3 4) trivial (by simp [NoSat, usizeMax])]; rfl
/-- hypothesis of `C05_modify_exact` -/
example : ∀ k, (⟨true, none, none, some 3, none, some false, none, none, none⟩ : FaceModify).underline = some k → k ≤ 5 := by
  intro k h; cases h; omega
/-- a stream through one encoder whose first writer fails after 3 bytes: the call reports an error, the
chunk buffer is left UNCLEARED (buffer `01`, offsets 1, 2) — and the next call still writes exactly its
own bytes and leaves the buffer empty -/
example :
    encodeStream ⟨.gray, false⟩ RawChunks.empty
      [(.face ⟨none, none, 0, true, false, false, false, false⟩, some 3),
       (.face ⟨none, none, 1, false, false, false, false, false⟩, none)]
    = .ok (RawChunks.empty, [([27, 91, 48], false), ([27, 91, 48, 59, 52, 109], true)]) := rfl
example :
    encodeSt ⟨.gray, false⟩ RawChunks.empty (.face ⟨none, none, 0, true, false, false, false, false⟩) ⟨[], some 3⟩
    = .ok (⟨[48, 49], [1, 2]⟩, ⟨[27, 91, 48], some 0⟩, false) := rfl
/-- SGR 21 (what the pinned encoder emitted for "bold off") is double underline to the interpreter -/
example : interp [27, 91, 50, 49, 109] = some [.sgr [.underline 2]] := by decide

end SurfProofs.C05
