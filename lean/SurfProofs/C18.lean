import SurfProofs.Lemmas.KeyMap
import SurfProofs.Lemmas.KeyParse
/-!
# C18 — key-chord maps are a last-writer-wins, prefix-free dictionary of chords

Model of the code: `SurfModel/KeyMap.lean` (trie with sorted association lists, `register`, `lookup`, `for_each`,
`register_override`, `lookup_state`) and `SurfModel/KeyParse.lean` (parsers and printers).
Specification: `SurfProofs/Lemmas/KeyMapSpec.lean` — a dictionary is a list of (chord, value) pairs, `bind` drops
every prefix-related chord and adds the new pair, `Live h q w` reads "bound and not superseded" off the history.
Keys are the order-preserving codes of `Key` values (natural numbers); all statements hold for every value type.

Only the property theorems are here; helper lemmas are in `SurfProofs/Lemmas/KeyMap.lean`, `…/KeyParse.lean`.
-/
namespace SurfProofs.C18
open SurfModel.KeyMap

variable {V : Type}

/-- Invariant of every reachable trie: keys strictly increasing at every level and **no empty sub-map** — so a
    `Continue` answer always has a bound chord behind it. -/
theorem C18_no_empty_submap (h : List (List Nat × V)) : WF (registerAll (.nil : Map V) h) :=
  wf_registerAll (m := .nil) trivial h

/-- Refinement, abstraction part: after any history of registrations the trie holds exactly the dictionary obtained
    by replaying the history with `bind`; that dictionary is prefix-free and contains `q ↦ w` exactly when `q ↦ w`
    was registered and no later registration was of a chord that is a prefix or an extension of `q`. -/
theorem C18_refines_abs (h : List (List Nat × V)) :
    (abs (registerAll (.nil : Map V) h)).Perm (bindAll [] h) ∧
    PrefixFree (bindAll ([] : Dict V) h) ∧
    ∀ q w, (q, w) ∈ bindAll ([] : Dict V) h ↔ Live h q w := by
  refine ⟨abs_registerAll_perm (m := .nil) trivial (List.Perm.refl _) h, bindAll_prefixFree List.Pairwise.nil h, ?_⟩
  intro q w
  simp [mem_bindAll_iff]

/-- Refinement, lookup part (non-empty chords): `Success w` exactly for the chords bound to `w` in the dictionary,
    `Continue` exactly for the proper prefixes of bound chords, `Failure` otherwise. -/
theorem C18_refines_lookup (h : List (List Nat × V)) (q : List Nat) (hq : q ≠ []) :
    (∀ w, lookup (registerAll (.nil : Map V) h) q = .success w ↔ (q, w) ∈ bindAll [] h) ∧
    (lookup (registerAll (.nil : Map V) h) q = .continue_ ↔ ∃ c w, (c, w) ∈ bindAll ([] : Dict V) h ∧ ProperPrefix q c) ∧
    (lookup (registerAll (.nil : Map V) h) q = .failure ↔
      (∀ w, (q, w) ∉ bindAll ([] : Dict V) h) ∧ ¬ ∃ c w, (c, w) ∈ bindAll ([] : Dict V) h ∧ ProperPrefix q c) := by
  have hwf := C18_no_empty_submap h
  have hperm := (C18_refines_abs h).1
  have hs : ∀ w, lookup (registerAll (.nil : Map V) h) q = .success w ↔ (q, w) ∈ bindAll [] h :=
    fun w => ((mem_abs_iff hwf q w).symm.trans hperm.mem_iff)
  have hc : lookup (registerAll (.nil : Map V) h) q = .continue_ ↔
      ∃ c w, (c, w) ∈ bindAll ([] : Dict V) h ∧ ProperPrefix q c := by
    rw [lookup_continue_iff hwf q hq]
    constructor
    · rintro ⟨c, w, hm, hp⟩; exact ⟨c, w, hperm.mem_iff.1 hm, hp⟩
    · rintro ⟨c, w, hm, hp⟩; exact ⟨c, w, hperm.mem_iff.2 hm, hp⟩
  refine ⟨hs, hc, ?_⟩
  rw [← hc]
  cases hl : lookup (registerAll (.nil : Map V) h) q with
  | success v =>
    simp only [reduceCtorEq, false_iff, not_and]
    intro hn; exact absurd ((hs v).1 hl) (hn v)
  | failure =>
    simp only [true_iff, reduceCtorEq, not_false_eq_true, and_true]
    intro w hw
    have := (hs w).2 hw
    rw [hl] at this; cases this
  | continue_ => simp

/-- The same as one equation: on non-empty chords `lookup` on the trie is the specification's `answer` on the
    replayed dictionary (this `answer` is the function the check applies, through the driver, to every history the
    implementation was run on). -/
theorem C18_answer (h : List (List Nat × V)) (q : List Nat) (hq : q ≠ []) :
    lookup (registerAll (.nil : Map V) h) q = answer (bindAll [] h) q := by
  obtain ⟨hs, hc, _⟩ := C18_refines_lookup h q hq
  unfold answer
  cases hf : (bindAll ([] : Dict V) h).find? (fun e => e.1 == q) with
  | some e =>
    have hmem := List.mem_of_find?_eq_some hf
    have heq : e.1 = q := by simpa using List.find?_some hf
    have : (q, e.2) ∈ bindAll ([] : Dict V) h := by rw [← heq]; exact hmem
    exact (hs e.2).2 this
  | none =>
    rw [List.find?_eq_none] at hf
    have hns : ∀ v, lookup (registerAll (.nil : Map V) h) q ≠ .success v := by
      intro v hv
      exact hf (q, v) ((hs v).1 hv) (by simp)
    by_cases hany : (bindAll ([] : Dict V) h).any (fun e => q.isPrefixOf e.1) = true
    · obtain ⟨e, he, hp⟩ := List.any_eq_true.1 hany
      have hne : q ≠ e.1 := by intro heq; exact hf e he (by simp [heq])
      simp only [hany, if_true]
      exact hc.2 ⟨e.1, e.2, he, List.isPrefixOf_iff_prefix.1 hp, hne⟩
    · have hnc : lookup (registerAll (.nil : Map V) h) q ≠ .continue_ := by
        intro hc'
        obtain ⟨c, w, hm, hp⟩ := hc.1 hc'
        exact hany (List.any_eq_true.2 ⟨(c, w), hm, List.isPrefixOf_iff_prefix.2 hp.1⟩)
      simp only [hany]
      cases hl : lookup (registerAll (.nil : Map V) h) q with
      | success v => exact absurd hl (hns v)
      | continue_ => exact absurd hl hnc
      | failure => rfl

/-- Refinement, enumeration part: `for_each` lists exactly the bound chords with their values, each once, in
    strictly increasing key order (the order of Rust slices). -/
theorem C18_refines_for_each (h : List (List Nat × V)) :
    (forEach (registerAll (.nil : Map V) h)).Perm (bindAll [] h) ∧
    (forEach (registerAll (.nil : Map V) h)).Pairwise (fun x y => chordLt x.1 y.1) := by
  rw [forEach_eq_abs]
  exact ⟨(C18_refines_abs h).1, abs_sorted (C18_no_empty_submap h)⟩

/-- Refinement, override part: `register_override` replays the other map's `for_each`, and in the dictionary this is
    `bind` of every chord of the other map on top of the receiver's dictionary. -/
theorem C18_refines_override (h h' : List (List Nat × V)) :
    registerOverride (registerAll (.nil : Map V) h) (registerAll .nil h') =
      registerAll (registerAll .nil h) (forEach (registerAll .nil h')) ∧
    (abs (registerOverride (registerAll (.nil : Map V) h) (registerAll .nil h'))).Perm
      (bindAll (bindAll [] h) (abs (registerAll .nil h'))) := by
  refine ⟨rfl, ?_⟩
  have : registerOverride (registerAll (.nil : Map V) h) (registerAll .nil h') =
      registerAll (registerAll .nil h) (abs (registerAll .nil h')) := by
    simp [registerOverride, registerAll, forEach_eq_abs]
  rw [this]
  exact abs_registerAll_perm (C18_no_empty_submap h) (C18_refines_abs h).1 _

/-- Override merging seen through `lookup` (any two well-formed maps, non-empty chord): wherever the other map
    has an opinion it wins — its bound chords answer with its values, their proper prefixes need more keys,
    their extensions fail — and every chord unrelated to all of the other map's chords keeps the receiver's answer. -/
theorem C18_override_lookup {m o : Map V} (ho : WF o) (q : List Nat) (hq : q ≠ []) :
    lookup (registerOverride m o) q =
      match lookup o q with
      | .success v => .success v
      | .continue_ => .continue_
      | .failure => if (abs o).any (fun e => e.1.isPrefixOf q) then .failure else lookup m q :=
  lookup_registerOverride ho q hq

/-- a map meeting the hypothesis, with all four cases: receiver `a ↦ 1`, `b c ↦ 2`, `d ↦ 3`;
    other `a b ↦ 7`, `b ↦ 8` -/
example : let m := registerAll (.nil : Map Nat) [([1], 1), ([2, 3], 2), ([4], 3)]
    let o := registerAll (.nil : Map Nat) [([1, 2], 7), ([2], 8)]
    WF o ∧ lookup (registerOverride m o) [1] = .continue_ ∧ lookup (registerOverride m o) [2] = .success 8 ∧
    lookup (registerOverride m o) [2, 3] = .failure ∧ lookup (registerOverride m o) [4] = .success 3 := by
  refine ⟨C18_no_empty_submap _, by decide, by decide, by decide, by decide⟩

/-- The four parts together. -/
theorem C18_refines (h h' : List (List Nat × V)) :
    ((abs (registerAll (.nil : Map V) h)).Perm (bindAll [] h) ∧ PrefixFree (bindAll ([] : Dict V) h) ∧
      ∀ q w, (q, w) ∈ bindAll ([] : Dict V) h ↔ Live h q w) ∧
    (∀ q, q ≠ [] →
      (∀ w, lookup (registerAll (.nil : Map V) h) q = .success w ↔ (q, w) ∈ bindAll [] h) ∧
      (lookup (registerAll (.nil : Map V) h) q = .continue_ ↔
        ∃ c w, (c, w) ∈ bindAll ([] : Dict V) h ∧ ProperPrefix q c) ∧
      (lookup (registerAll (.nil : Map V) h) q = .failure ↔
        (∀ w, (q, w) ∉ bindAll ([] : Dict V) h) ∧ ¬ ∃ c w, (c, w) ∈ bindAll ([] : Dict V) h ∧ ProperPrefix q c)) ∧
    ((forEach (registerAll (.nil : Map V) h)).Perm (bindAll [] h) ∧
      (forEach (registerAll (.nil : Map V) h)).Pairwise (fun x y => chordLt x.1 y.1)) ∧
    (abs (registerOverride (registerAll (.nil : Map V) h) (registerAll .nil h'))).Perm
      (bindAll (bindAll [] h) (abs (registerAll .nil h'))) :=
  ⟨C18_refines_abs h, fun q hq => C18_refines_lookup h q hq, C18_refines_for_each h, (C18_refines_override h h').2⟩

/-- The stateful matcher.  On any reachable trie, from an idle matcher (nothing pending), a stream made of bound
    chords and of single keys that begin no bound chord is answered segment by segment: nothing at an unbound key,
    nothing at the keys of a chord before its last one, the chord's value exactly at its last key — whatever
    precedes the chord in the stream.  The matcher is idle again afterwards. -/
theorem C18_matcher (h : List (List Nat × V)) (segs : List Seg)
    (hok : ∀ s ∈ segs, s.Ok (abs (registerAll (.nil : Map V) h))) :
    expectAll (abs (registerAll (.nil : Map V) h)) segs
      (feed (registerAll .nil h) [] (segs.flatMap Seg.keys)).2 ∧
    IdleSt (registerAll .nil h) (feed (registerAll .nil h) [] (segs.flatMap Seg.keys)).1 := by
  have := feed_segments (C18_no_empty_submap h) segs hok (st := []) (Or.inl rfl)
  exact ⟨this.2, this.1⟩

/-- a history and a stream meeting the hypotheses of `C18_matcher`: `a b ↦ 1`, `b ↦ 2`, then `a ↦ 3` (which supersedes
    `a b`); typed: unbound key 7, chord `a`, unbound 7, 7, chord `b` -/
example : let h : List (List Nat × Nat) := [([1, 2], 1), ([2], 2), ([1], 3)]
    let segs := [Seg.junk 7, Seg.chord [1], Seg.junk 7, Seg.junk 7, Seg.chord [2]]
    (∀ s ∈ segs, s.Ok (abs (registerAll (.nil : Map Nat) h))) ∧
    (feed (registerAll .nil h) [] (segs.flatMap Seg.keys)).2 = [none, some 3, none, none, some 2] := by
  refine ⟨?_, by decide⟩
  intro s hs
  simp only [List.mem_cons, List.not_mem_nil, or_false] at hs
  rcases hs with rfl | rfl | rfl | rfl | rfl <;>
    simp [Seg.Ok, Unbound, registerAll, register, ins, Map.cons, abs, childOf, getE] <;>
    (rintro c w (⟨rfl, rfl⟩ | ⟨rfl, rfl⟩) <;> simp)

/-- The matcher on ARBITRARY key streams from ARBITRARY states (the caller owns the state vector, so any list of
    keys can be pending): every fire is sound — whenever a value fires, a chord bound to that value is a suffix of
    the keys pending since the last fire (or since the start, the given state included). -/
theorem C18_matcher_sound (h : List (List Nat × V)) (st ks : List Nat) :
    FiresSound (abs (registerAll (.nil : Map V) h)) st ks (feed (registerAll .nil h) st ks).2 :=
  feed_firesSound (C18_no_empty_submap h) ks (List.suffix_refl st)

/-- One key from ANY state, read on the dictionary: if the pending keys plus the key are a bound chord it fires and
    nothing stays pending; if they are a proper prefix of a bound chord nothing fires and they stay pending;
    otherwise the matcher answers exactly as it would from the empty state (restart at the current key), and if the
    key begins no bound chord nothing fires and only that key is left (an idle state). -/
theorem C18_matcher_step (h : List (List Nat × V)) (st : List Nat) (k : Nat) :
    (∀ v, (st ++ [k], v) ∈ abs (registerAll (.nil : Map V) h) → lookupState (registerAll .nil h) st k = ([], some v)) ∧
    ((∃ c w, (c, w) ∈ abs (registerAll (.nil : Map V) h) ∧ ProperPrefix (st ++ [k]) c) →
      lookupState (registerAll (.nil : Map V) h) st k = (st ++ [k], none)) ∧
    ((∀ v, (st ++ [k], v) ∉ abs (registerAll (.nil : Map V) h)) →
      (¬ ∃ c w, (c, w) ∈ abs (registerAll (.nil : Map V) h) ∧ ProperPrefix (st ++ [k]) c) →
      lookupState (registerAll (.nil : Map V) h) st k = lookupState (registerAll .nil h) [] k ∧
      (Unbound (abs (registerAll (.nil : Map V) h)) k → lookupState (registerAll (.nil : Map V) h) st k = ([k], none))) :=
  matcher_step (C18_no_empty_submap h) st k

/-- "An unbound key never prevents the chord typed immediately after it from firing", from ANY matcher state (not
    only idle, not only reachable ones): if `u` begins no bound chord and does not continue what is pending
    (pending ++ [u] is not a proper prefix of a bound chord), then whatever was pending — e.g. three keys of an
    aborted four-key chord — every bound chord typed right after `u` answers nothing before its last key and its
    value at its last key, and nothing is pending afterwards. -/
theorem C18_matcher_any_state (h : List (List Nat × V)) (st : List Nat) (u : Nat)
    (hu : Unbound (abs (registerAll (.nil : Map V) h)) u)
    (hnp : ¬ ∃ c w, (c, w) ∈ abs (registerAll (.nil : Map V) h) ∧ ProperPrefix (st ++ [u]) c)
    (c : List Nat) (v : V) (hc : (c, v) ∈ abs (registerAll (.nil : Map V) h)) :
    (feed (registerAll (.nil : Map V) h) st (u :: c)).1 = [] ∧
    (feed (registerAll (.nil : Map V) h) st (u :: c)).2.tail = List.replicate (c.length - 1) none ++ [some v] :=
  matcher_after_unbound (C18_no_empty_submap h) st hu hnp hc

/-- the hypotheses of `C18_matcher_any_state` with three keys of a four-key chord pending:
    `1 2 3 4 ↦ 1`, `5 ↦ 2`; pending `1 2 3`, unbound key 9, then chord `5` -/
example : let h : List (List Nat × Nat) := [([1, 2, 3, 4], 1), ([5], 2)]
    Unbound (abs (registerAll (.nil : Map Nat) h)) 9 ∧
    (¬ ∃ c w, (c, w) ∈ abs (registerAll (.nil : Map Nat) h) ∧ ProperPrefix ([1, 2, 3] ++ [9]) c) ∧
    ([5], 2) ∈ abs (registerAll (.nil : Map Nat) h) ∧
    (feed (registerAll (.nil : Map Nat) h) [1, 2, 3] [9, 5]).2 = [none, some 2] := by
  have habs : abs (registerAll (.nil : Map Nat) [([1, 2, 3, 4], 1), ([5], 2)]) = [([1, 2, 3, 4], 1), ([5], 2)] := by
    decide
  simp only [habs]
  refine ⟨?_, ?_, by simp, by decide⟩
  · rintro c w hc; simp at hc; rcases hc with ⟨rfl, rfl⟩ | ⟨rfl, rfl⟩ <;> simp
  · rintro ⟨c, w, hc, hp⟩
    simp at hc
    rcases hc with ⟨rfl, rfl⟩ | ⟨rfl, rfl⟩ <;> simp [ProperPrefix, List.cons_prefix_cons] at hp

/-- `KeyMapHandler`, the matcher that owns its table and its pending keys.  (a) Feeding keys to a handler is feeding
    them to `lookup_state` on the handler's table and pending keys, so `C18_matcher_sound`, `C18_matcher_step` and
    `C18_matcher_any_state` speak about handlers in any state.  (b) `clear()` leaves an empty table and NOTHING
    pending, whatever the handler held — a half-typed chord included; hence (c) after `clear()` and any
    registrations, every stream of bound chords and unbound keys is answered as from a brand-new handler: nothing
    fires except each chord's value exactly at its last key. -/
theorem C18_handler_clear (hd : Handler V) (hist : List (List Nat × V)) (ks : List Nat) (segs : List Seg)
    (hok : ∀ s ∈ segs, s.Ok (abs (registerAll (.nil : Map V) hist))) :
    (Handler.feed hd ks).2 = (feed hd.keymap hd.state ks).2 ∧
    (hd.clear.keymap = .nil ∧ hd.clear.state = []) ∧
    expectAll (abs (registerAll (.nil : Map V) hist)) segs
      (Handler.feed (Handler.registerAll hd.clear hist) (segs.flatMap Seg.keys)).2 ∧
    (Handler.feed (Handler.registerAll hd.clear hist) (segs.flatMap Seg.keys)).1.keymap = registerAll .nil hist ∧
    IdleSt (registerAll .nil hist) (Handler.feed (Handler.registerAll hd.clear hist) (segs.flatMap Seg.keys)).1.state := by
  refine ⟨by rw [Handler.feed_eq], ⟨rfl, rfl⟩, ?_⟩
  rw [Handler.registerAll_eq, Handler.feed_eq]
  have := C18_matcher hist segs hok
  exact ⟨this.1, rfl, this.2⟩

/-- the seeded scenario: `x` of `x s` is pending when `clear()` is called; after re-registering `x s ↦ 10` and
    `s c ↦ 11`, typing `s c` fires 11 at `c` and nothing at `s` -/
example : let hd : Handler Nat := (Handler.feed (Handler.registerAll Handler.new [([7, 5], 1)]) [7]).1
    hd.state = [7] ∧
    (Handler.feed (Handler.registerAll hd.clear [([7, 5], 10), ([5, 3], 11)]) [5, 3]).2 = [none, some 11] := by
  decide

/-- What `register` returns (public API): for a non-empty chord on any reachable trie it is `None` exactly when the
    chord's lookup fails, the previously bound value exactly when the chord was bound, and otherwise (the chord was
    a proper prefix of bound chords) the superseded sub-map, which is non-empty, well formed and holds exactly the
    bound extensions of the chord (as chords relative to it) with their values. -/
theorem C18_register_prev (h : List (List Nat × V)) (c : List Nat) (hc : c ≠ []) :
    (registerPrev (registerAll (.nil : Map V) h) c = none ↔ lookup (registerAll (.nil : Map V) h) c = .failure) ∧
    (∀ w, registerPrev (registerAll (.nil : Map V) h) c = some (.val w) ↔ (c, w) ∈ abs (registerAll (.nil : Map V) h)) ∧
    (∀ s, registerPrev (registerAll (.nil : Map V) h) c = some (.sub s) →
      lookup (registerAll (.nil : Map V) h) c = .continue_ ∧ s ≠ .nil ∧ WF s ∧
      ∀ t w, (t, w) ∈ abs s ↔ (c ++ t, w) ∈ abs (registerAll (.nil : Map V) h)) ∧
    (lookup (registerAll (.nil : Map V) h) c = .continue_ →
      ∃ s, registerPrev (registerAll (.nil : Map V) h) c = some (.sub s)) := by
  obtain ⟨h1, h2, h3, h4⟩ := registerPrev_spec (C18_no_empty_submap h) c hc
  exact ⟨h1, fun w => (h2 w).trans (mem_abs_iff (C18_no_empty_submap h) c w).symm, h3, h4⟩

open SurfModel.KeyParse

/-- Parsing never panics: for every input string the three parsers (`KeyName`, `Key`, `KeyChord`) return a value
    or a `ParseError` (this includes `f` followed by a number that does not fit `usize`, which the repaired code
    rejects).  `low` is Rust's `char::to_lowercase`, of which only `LowOK` is assumed. -/
theorem C18_parse_total (low : Char → List Char) (hl : LowOK low) (s : List Char) :
    parseKeyName low s ≠ .error .panic ∧ parseKey low s ≠ .error .panic ∧ parseChord low s ≠ .error .panic :=
  ⟨parseKeyName_ne_panic hl s, parseKey_ne_panic hl s, parseChord_ne_panic hl s⟩

/-- Whatever a parser accepts prints to a string that parses back to the same value. -/
theorem C18_print_parse (low : Char → List Char) (hl : LowOK low) (s : List Char) :
    (∀ n, parseKeyName low s = .ok n → parseKeyName low (printKeyName n) = .ok n) ∧
    (∀ k, parseKey low s = .ok k → parseKey low (printKey k) = .ok k) ∧
    (∀ ks, parseChord low s = .ok ks → parseChord low (printChord ks) = .ok ks) :=
  ⟨fun _ h => parse_printName hl (parseKeyName_ok h), fun _ h => parse_printKey hl (parseKey_ok h),
   fun _ h => parse_printChord hl (parseChord_ok h).1 (parseChord_ok h).2⟩

/-- the hypothesis `LowOK` is met by the driver's lower-casing with an empty table (ASCII lower case, identity
    elsewhere), and the theorems are not vacuous: `Ctrl+F12  a` is accepted -/
example : LowOK (lowWith []) ∧
    parseChord (lowWith []) ['C','t','r','l','+','F','1','2',' ',' ','a'] = .ok [⟨.f 12, 4⟩, ⟨.char 'a', 0⟩] := by
  refine ⟨⟨?_, ?_, ?_⟩, by rfl⟩
  · intro c hc; simp [lowWith, hc]
  · intro c; simp only [lowWith]; split <;> simp
  · intro c hc
    by_cases h : c.toNat < 128
    · exact utf8Size_one c h
    · simp only [lowWith, h, if_false, List.lookup, List.head?_cons, Option.some.injEq] at hc
      subst hc; exact absurd (by decide) h

/-- `#[derive(Ord)]` on `Key { name, mode }` spelled out: variant position, then payload, then modifier bits -/
def derivedLt (a b : Key) : Prop :=
  a.name.rank < b.name.rank ∨ (a.name.rank = b.name.rank ∧
    (a.name.payload < b.name.payload ∨ (a.name.payload = b.name.payload ∧ a.mode < b.mode)))

/-- The natural-number keys of the trie model order `Key` values exactly as the derived `Ord` does (payloads are
    `char` / `usize`, modifier bits a `u32`), and distinct keys have distinct codes. -/
theorem C18_key_code (a b : Key) (ha : a.name.payload < 2 ^ 64 ∧ a.mode < 2 ^ 32)
    (hb : b.name.payload < 2 ^ 64 ∧ b.mode < 2 ^ 32) :
    (a.code < b.code ↔ derivedLt a b) ∧ (a.code = b.code ↔ a = b) := by
  have hinj : a.name.rank = b.name.rank → a.name.payload = b.name.payload → a.name = b.name := by
    intro h1 h2
    cases ha' : a.name <;> cases hb' : b.name <;> simp_all [KeyName.rank, KeyName.payload]
    exact Char.toNat_inj.1 h2
  refine ⟨?_, ?_⟩
  · simp only [Key.code, derivedLt]; omega
  · constructor
    · intro h
      simp only [Key.code] at h
      have h1 : a.name.rank = b.name.rank := by omega
      have h2 : a.name.payload = b.name.payload := by omega
      have h3 : a.mode = b.mode := by omega
      obtain ⟨an, am⟩ := a; obtain ⟨bn, bm⟩ := b
      have h4 : an = bn := hinj h1 h2
      simp only at h3
      rw [h4, h3]
    · rintro rfl; rfl

/-- keys meeting the bounds (every real `Key` does: the payload is a `char` or a `usize`, the bits a `u32`):
    `F2 < F10` numerically, and every `Char` key sorts before `Delete` whatever its modifiers -/
example : ((⟨.f 2, 0⟩ : Key).name.payload < 2 ^ 64 ∧ (⟨.f 2, 0⟩ : Key).mode < 2 ^ 32) ∧
    (⟨.f 2, 0⟩ : Key).code < (⟨.f 10, 0⟩ : Key).code ∧
    (⟨.char 'z', 511⟩ : Key).code < (⟨.delete, 0⟩ : Key).code := by
  decide

end SurfProofs.C18
