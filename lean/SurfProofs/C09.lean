import SurfModel.TextLayout
import SurfProofs.Lemmas.TextLayout
import SurfProofs.Lemmas.TextWriter
import SurfProofs.C07
import SurfProofs.C03
import SurfProofs.Lemmas.TextChunk
import SurfProofs.Lemmas.TextRender
import SurfProofs.Lemmas.TextChunkUtf8
/-!
# C09 — text writing stays inside its surface, ignores chunking and loses no cell

Model: `SurfModel/TextLayout.lean` (`cellLayout` = `Cell::layout`, `layoutRun` = a sequence of
`Cell::layout` calls on one tracked size / cursor as made by `Text::layout`, `str::layout` and — with the
surface width as maximum width — by `TerminalWriter::put_cell`).
-/
namespace SurfProofs.C09
open SurfModel.Shape SurfModel.Tokenizer SurfModel.TextLayout SurfProofs.Lemmas.TextLayout SurfProofs.Lemmas.TextWriter
  SurfProofs.Lemmas.TextChunk SurfProofs.Lemmas.TextRender SurfProofs.Lemmas.TextChunkUtf8

/-- **C09, layout agrees.** Lay a cell stream out at maximum width `W ≥ 1` and let `(H', W')` be the
tracked size. Then at every width `W''` with `W' ≤ W'' ≤ W` (in particular at the width of a surface of the
reported size, which is what the writer uses when the text is rendered) the layout is the same call by call
— same positions, same final cursor and size —; every position lies inside `H' × W''`; without carriage
returns the positions are strictly increasing in reading order (row first, then column), hence pairwise
distinct; with wrapping every cell of non-zero size gets a position and nothing else does; without
wrapping exactly the cells of `keepNoWrap` are kept: those whose right edge `col + w` does not exceed `W`.
(`ks.length + 1 < 2^64`: the row counter of a `usize` cursor cannot overflow.) -/
theorem C09_layout_agrees (ctx : Ctx) (wraps : Bool) (ks : List Kind) (W W'' : Nat)
    (hW1 : 1 ≤ W) (hWU : W < U) (hlen : ks.length + 1 < U)
    (hlo : (layoutRun ctx W wraps ks LSt.init).1.sw ≤ W'') (hhi : W'' ≤ W) :
    let r := layoutRun ctx W wraps ks LSt.init
    layoutRun ctx W'' wraps ks LSt.init = r ∧
    r.2.length = ks.length ∧
    (∀ p ∈ r.2.filterMap id, p.1 < r.1.sh ∧ p.2 < W'') ∧
    ((∀ k ∈ ks, k ≠ .chr 13) → (r.2.filterMap id).Pairwise lexLt) ∧
    (wraps = true → r.2.map Option.isSome = ks.map fun k => match classify ctx k with | .sized _ _ => true | _ => false) ∧
    (wraps = false → r.2.map Option.isSome = keepNoWrap W (ks.map (classify ctx)) 0) := by
  intro r
  have hr : r = run W wraps (ks.map (classify ctx)) LSt.init := layoutRun_eq_run ctx W wraps ks LSt.init
  have hok : ∀ c ∈ ks.map (classify ctx), ItemOk c := by
    intro c hc
    obtain ⟨k, _, rfl⟩ := List.mem_map.mp hc
    exact classify_ok ctx k
  refine ⟨?_, ?_, ?_, ?_, ?_, ?_⟩
  · rw [hr, layoutRun_eq_run]
    exact run_agree W W'' wraps _ _ hhi (by rw [← hr]; exact hlo)
  · rw [hr, run_length]; simp
  · intro p hp
    rw [hr] at hp ⊢
    have := run_inside W wraps _ LSt.init hok hW1 (by simp [LSt.init]; omega) p hp
    rw [layoutRun_eq_run] at hlo
    omega
  · intro hcr
    rw [hr]
    refine run_increasing W wraps _ _ hok ?_ hW1
    intro c hc
    obtain ⟨k, hk, rfl⟩ := List.mem_map.mp hc
    intro h
    apply hcr k hk
    cases k with
    | chr c =>
      simp only [classify] at h
      by_cases h10 : c = 10
      · simp [h10] at h
      · by_cases h13 : c = 13
        · rw [h13]
        · simp only [h10, h13, if_false] at h
          split at h
          · cases h
          · split at h <;> cases h
    | image ph pw => simp only [classify] at h; split at h <;> cases h
    | glyph gh gw fb => simp only [classify] at h; split at h <;> cases h
  · intro hw
    subst hw
    rw [hr, run_wrap_complete W _ _ hok]
    simp only [List.map_map, List.map_inj_left, Function.comp_def]
    intro a _
    cases classify ctx a <;> rfl
  · intro hw
    subst hw
    rw [hr, run_nowrap W hWU _ _ hok]
    simp [LSt.init]

/-- the hypotheses are met: `ab世\n\tc` (`世` wide) at `W = 4`, reported width 4, and at `W = 9` (reported 9) -/
def exCtx : Ctx := { hasGlyphs := true, ppcH := 1, ppcW := 1, width := fun c => if c = 19990 then 2 else 1 }
def exKs : List Kind := [.chr 97, .chr 98, .chr 19990, .chr 10, .chr 9, .chr 99]
example : layoutRun exCtx 4 true exKs LSt.init =
    (⟨2, 1, 4, 3⟩, [some (0, 0), some (0, 1), some (0, 2), none, none, some (2, 0)]) := by decide
example : (layoutRun exCtx 12 true exKs LSt.init).1.sw = 9 ∧ 9 ≤ 10 ∧ 10 ≤ 12 ∧ exKs.length + 1 < U := by decide

/-- **C09, rows.** The cursor row grows by at most one per `Cell::layout` call: a text of fewer than
`2^64 - 1` cells cannot overflow the `usize` row counter (the additions `cursor.row += 1` are modelled
unbounded). -/
theorem C09_row_bound (ctx : Ctx) (W : Nat) (wraps : Bool) (ks : List Kind) (s : LSt) :
    (layoutRun ctx W wraps ks s).1.row ≤ s.row + ks.length := by
  rw [layoutRun_eq_run]
  have := run_row W wraps (ks.map (classify ctx)) s
  simpa using this


/-! ## containment -/

/-- a view reached by `view` / `transpose` steps from an `h × w` surface keeps all its window offsets
inside the backing slice (`C07_inv`) -/
theorem shOk_chain (h w : Nat) (ops : List Op) : ShOk (Shape.chain ops (Shape.from h w)) (h * w) :=
  fun r c hr hc => (SurfProofs.C07.C07_inv h w ops).1 r c hr hc

/-- **C09, contained.** A `TerminalWriter` over any view of an `h × w` surface (plain, offset, strided,
transposed: any chain of `view` / `transpose` steps), in any state (cursor, face, wrap flag, glyph
support), given any stream of cells — characters of any width, newlines, carriage returns, tabs, glyphs
with or without fallback, images —: no `put_cell` panics; every offset written (cell stores and face
fills, ghost list `touched`) is the offset of a position inside the window of the writer's view and a
valid index; every other cell of the backing slice is unchanged. -/
theorem C09_contained (h w : Nat) (ops : List Op) (wr : Writer)
    (hs : wr.shape = Shape.chain ops (Shape.from h w)) (hd : wr.data.length = h * w) (cells : List Cell) :
    ∃ wr' t, putCells wr cells = some wr' ∧ wr'.touched = wr.touched ++ t ∧
      wr'.shape = wr.shape ∧ wr'.data.length = h * w ∧
      (∀ off ∈ t, off < h * w ∧ ∃ r c, r < wr.shape.height ∧ c < wr.shape.width ∧ off = wr.shape.offset r c) ∧
      (∀ i, i ∉ t → wr'.data[i]? = wr.data[i]?) := by
  have hok : ShOk wr.shape wr.data.length := by rw [hs, hd]; exact shOk_chain h w ops
  obtain ⟨wr', t, hp, he⟩ := putCells_ok wr cells hok
  refine ⟨wr', t, hp, he.touched, he.shape, by rw [he.data.len, hd], ?_, he.data.frame⟩
  intro off ho
  obtain ⟨r, c, hr, hc, rfl⟩ := he.data.inwin off ho
  refine ⟨?_, r, c, hr, hc, rfl⟩
  have := hok r c hr hc
  rw [hd] at this
  exact this

/-- a writer over a transposed offset view of a 4 × 5 surface (window 3 × 2, strides 1 and 5): a wide
character that wraps, a tab with its face fill, a newline — three writes, all inside -/
def exSh : Shape := Shape.chain [.view (.range 1 3) (.range 1 4), .transpose] (Shape.from 4 5)
def exWr : Writer :=
  Writer.new exCtx exSh (List.replicate 20 ⟨Face.dflt, .chr 35⟩)
example : exSh = { start := 6, end_ := 14, width := 2, height := 3, row_stride := 1, col_stride := 5 } := by decide
example : (putCells exWr [⟨Face.dflt, .chr 97⟩, ⟨Face.dflt, .chr 9⟩, ⟨Face.dflt, .chr 19990⟩, ⟨Face.dflt, .chr 10⟩]).map
    (·.touched) = some [6, 11, 7] := by decide


/-- **C09, contained (byte writers).** The same for bytes written through `write` of the writer itself or
of `utf8_writer()` (any automaton, any partition, sessions that end with a decoding error included) and
for the commands `tty_writer()` decodes (which never panic): the surface is the same view, every offset
written is an in-window offset of it, every other cell of the backing slice is unchanged. -/
theorem C09_contained_write {σ : Type} (A : Auto σ) (h w : Nat) (ops : List Op) (wr : Writer)
    (hs : wr.shape = Shape.chain ops (Shape.from h w)) (hd : wr.data.length = h * w) :
    (∀ chunks wr' rs, session A putChar wr (uinit A) chunks = .ok (wr', rs) →
      wr'.shape = wr.shape ∧ ∃ t, wr'.touched = wr.touched ++ t ∧ wr'.data.length = h * w ∧
        (∀ off ∈ t, off < h * w ∧ ∃ r c, r < wr.shape.height ∧ c < wr.shape.width ∧ off = wr.shape.offset r c) ∧
        (∀ i, i ∉ t → wr'.data[i]? = wr.data[i]?)) ∧
    (∀ cmds, ∃ wr', applyCmds wr cmds = some wr' ∧
      wr'.shape = wr.shape ∧ ∃ t, wr'.touched = wr.touched ++ t ∧ wr'.data.length = h * w ∧
        (∀ off ∈ t, off < h * w ∧ ∃ r c, r < wr.shape.height ∧ c < wr.shape.width ∧ off = wr.shape.offset r c) ∧
        (∀ i, i ∉ t → wr'.data[i]? = wr.data[i]?)) := by
  have hok : ShOk wr.shape wr.data.length := by rw [hs, hd]; exact shOk_chain h w ops
  have key : ∀ wr', Contained wr wr' → wr'.shape = wr.shape ∧ ∃ t, wr'.touched = wr.touched ++ t ∧
      wr'.data.length = h * w ∧
      (∀ off ∈ t, off < h * w ∧ ∃ r c, r < wr.shape.height ∧ c < wr.shape.width ∧ off = wr.shape.offset r c) ∧
      (∀ i, i ∉ t → wr'.data[i]? = wr.data[i]?) := by
    intro wr' hc
    obtain ⟨hsh, t, ht, hdx⟩ := hc
    refine ⟨hsh, t, ht, by rw [hdx.len, hd], ?_, hdx.frame⟩
    intro off ho
    obtain ⟨r, c, hr, hc, rfl⟩ := hdx.inwin off ho
    have := hok r c hr hc
    rw [hd] at this
    exact ⟨this, r, c, hr, hc, rfl⟩
  refine ⟨fun chunks wr' rs hse => key wr' (session_contained A chunks wr (uinit A) hok wr' rs hse), ?_⟩
  intro cmds
  obtain ⟨wr', hp, hc⟩ := applyCmds_contained wr cmds hok
  exact ⟨wr', hp, key wr' hc⟩

/-! ## chunking -/

/-- **C09, chunking (any sink).** `write` (the loop shared by `impl io::Write for TerminalWriter` and
`Utf8CellWriter`) over the model of `Utf8Decoder` for any automaton `A`, into any sink obeying `SinkLaws`
(an invariant kept by `put_char`; a sink that refused a character is dead; what is observed of a dead
sink never changes). Hand the pieces of a byte stream to `write` one after the other, giving up at the
first decoding error — cuts anywhere, inside a character too, empty pieces allowed — or hand it over in
one piece: what is observed of the sink at the end is the same. By `C03_utf8_chunking` the decoder's
results are those of the whole stream; the only difference between the two sessions — after a refusal the
rest of the current piece is dropped without being decoded — happens when the sink is already dead.
(`hdec`, `h1`, `h2`: the decoder's four byte buffer does not overflow and `put_char` does not panic; for
`TerminalWriter` the latter is `C09_contained`.) -/
theorem C09_chunking {σ π O : Type} (A : Auto σ) (put : π → Nat → Option (π × Bool)) (obs : π → O)
    (I Dead : π → Prop) (L : SinkLaws put obs I Dead) (p : π) (hI : I p) (chunks : List (List UInt8))
    (per : List (List UItem)) (dEnd : USt σ) (hdec : ufeedAll A (uinit A) chunks = .ok (per, dEnd))
    (p1 p2 : π) (rs1 rs2 : List Bool)
    (h1 : session A put p (uinit A) chunks = .ok (p1, rs1))
    (h2 : session A put p (uinit A) [chunks.flatten] = .ok (p2, rs2)) :
    obs p1 = obs p2 := by
  obtain ⟨q, f, hq, ho⟩ := session_feed L A chunks p (uinit A) dEnd per hI hdec p1 rs1 h1
  have hc := SurfProofs.C03.C03_utf8_chunking A chunks
  rw [hdec, ufeed_ugo] at hc
  simp only [flatU] at hc
  obtain ⟨f2, hq2⟩ := single_feed A put p (uinit A) dEnd chunks.flatten per.flatten hc.symm p2 rs2 h2
  rw [hq] at hq2
  simp only [Option.some.injEq, Prod.mk.injEq] at hq2
  rw [ho, hq2.1]

/-- **C09, chunking (`TerminalWriter`, `utf8_writer`).** For a writer over any view of an `h × w` surface:
the cells of the surface after the session do not depend on how the bytes were split. -/
theorem C09_chunking_writer {σ : Type} (A : Auto σ) (h w : Nat) (ops : List Op) (wr : Writer)
    (hs : wr.shape = Shape.chain ops (Shape.from h w)) (hd : wr.data.length = h * w)
    (chunks : List (List UInt8)) (per : List (List UItem)) (dEnd : USt σ)
    (hdec : ufeedAll A (uinit A) chunks = .ok (per, dEnd)) (w1 w2 : Writer) (rs1 rs2 : List Bool)
    (h1 : session A putChar wr (uinit A) chunks = .ok (w1, rs1))
    (h2 : session A putChar wr (uinit A) [chunks.flatten] = .ok (w2, rs2)) :
    w1.data = w2.data :=
  C09_chunking A putChar (fun w : Writer => w.data) _ WDead writer_laws wr
    (by rw [hs, hd]; exact shOk_chain h w ops) chunks per dEnd hdec w1 w2 rs1 rs2 h1 h2

/-- **C09, chunking (a `Text` as the sink of `utf8_writer`).** The cells collected do not depend on how the
bytes were split. -/
theorem C09_chunking_text {σ : Type} (A : Auto σ) (t : Text) (chunks : List (List UInt8))
    (per : List (List UItem)) (dEnd : USt σ) (hdec : ufeedAll A (uinit A) chunks = .ok (per, dEnd))
    (t1 t2 : Text) (rs1 rs2 : List Bool)
    (h1 : session A Text.putChar t (uinit A) chunks = .ok (t1, rs1))
    (h2 : session A Text.putChar t (uinit A) [chunks.flatten] = .ok (t2, rs2)) :
    t1.cells = t2.cells :=
  C09_chunking A Text.putChar (fun t : Text => t.cells) _ _ text_laws t trivial chunks per dEnd hdec t1 t2 rs1 rs2 h1 h2

/-- **C09, chunking (`tty_writer`).** `TTYCellWriter::write` over the model of the tokenizer for any
automaton `A` and any payload decoder `interp`: the whole outcome of the session — writer (cells, cursor,
face) and decoder state, or the panic — is that of one write of the whole stream
(`C03_chunking`, `C03_conservation`). -/
theorem C09_chunking_tty {σ : Type} (A : Auto σ) (interp : Item σ → Cmd) (wr : Writer) (chunks : List (List UInt8)) :
    ttySession A interp wr (init A) chunks = ttySession A interp wr (init A) [chunks.flatten] := by
  obtain ⟨per, s, hf, _⟩ := SurfProofs.C03.C03_conservation A chunks
  have hc := SurfProofs.C03.C03_chunking A chunks
  rw [hf] at hc
  simp only [SurfProofs.C03.flat] at hc
  rw [ttySession_items A interp chunks wr (init A) s per hf]
  have h1 : feedAll A (init A) [chunks.flatten] = .ok ([per.flatten], s) := by
    simp only [feedAll, ← hc]
  rw [ttySession_items A interp [chunks.flatten] wr (init A) s [per.flatten] h1]
  simp

/-- the hypotheses are met: `a世` cut inside the wide character, written into the 3 × 2 window of `exWr`
through the UTF-8 automaton of the driver -/
example : (match ufeedAll utf8Auto (uinit utf8Auto) [[0x61, 0xe4], [0xb8, 0x96]] with
    | .ok (per, d) => some (per, d.st, d.buf) | .error _ => none)
    = some ([[.chr [0x61]], [.chr [0xe4, 0xb8, 0x96]]], 0, []) := by decide
example : (match session utf8Auto putChar exWr (uinit utf8Auto) [[0x61, 0xe4], [0xb8, 0x96]] with
    | .ok (w, rs) => some (w.touched, rs) | .error _ => none) = some ([6, 7], [true, true]) := by decide
example : (match session utf8Auto putChar exWr (uinit utf8Auto) [[0x61, 0xe4, 0xb8, 0x96]] with
    | .ok (w, rs) => some (w.touched, rs) | .error _ => none) = some ([6, 7], [true]) := by decide


/-! ## chunking for the UTF-8 automaton: nothing left to assume

`SurfModel.Utf8.utf8Auto` is the model of `UTF8DFA`: the subset automaton compiled from the model of
`utf8_nfa(Canonical)`, which C02 proves to match exactly the well-formed sequences of Unicode Table 3-7
(`C02_utf8_wellformed`) and never to keep more than four bytes alive (`utf8Auto_short`, the fact behind
`C02_utf8_decoder`). Over it the hypotheses of `C09_chunking_writer` / `_text` are theorems: the decoder's
four byte buffer is never overrun, `utf8_decode` always gets one to four bytes, the loop bound is never
exhausted, and `put_char` does not panic (`C09_contained`), so both sessions return. -/

/-- **C09, the two UTF-8 automata agree.** The hand-written Table 3-7 automaton the driver runs
(`SurfModel.TextLayout.utf8Auto`, tied to the code by the `write` correspondence) and the compiled automaton of
C02 are bisimilar (kernel-checked on the product of the two, `SurfProofs.Utf8AutoBisim.utf8_bisim`); hence a
session over one is the session over the other — same sink, same results, same faults — for every sink and
every partition. -/
theorem C09_utf8_automata_agree {π : Type} (put : π → Nat → Option (π × Bool)) (p : π) (chunks : List (List UInt8)) :
    session utf8Auto put p (uinit utf8Auto) chunks =
      session SurfModel.Utf8.utf8Auto put p (uinit SurfModel.Utf8.utf8Auto) chunks :=
  session_bisim SurfProofs.Utf8AutoBisim.utf8_bisim put chunks p _ _ SurfProofs.Utf8AutoBisim.utf8_bisim.start rfl

/-- **C09, chunking (`TerminalWriter`, `utf8_writer`), unconditional for UTF-8.** A writer over any view of an
`h × w` surface (any chain of `view` / `transpose` steps), in any state; any byte stream — well-formed or not —
cut into writes anywhere (inside a character, empty writes): the chunked session and the single write of the
whole stream both return (no panic, no overrun of the four byte buffer, no exhausted loop bound), and the
cells of the surface are the same. Stated for the compiled UTF-8 automaton and for the driver's
hand-written one. -/
theorem C09_chunking_writer_utf8 (h w : Nat) (ops : List Op) (wr : Writer)
    (hs : wr.shape = Shape.chain ops (Shape.from h w)) (hd : wr.data.length = h * w)
    (chunks : List (List UInt8)) :
    (∃ w1 rs1 w2 rs2,
      session SurfModel.Utf8.utf8Auto putChar wr (uinit SurfModel.Utf8.utf8Auto) chunks = .ok (w1, rs1) ∧
      session SurfModel.Utf8.utf8Auto putChar wr (uinit SurfModel.Utf8.utf8Auto) [chunks.flatten] = .ok (w2, rs2) ∧
      w1.data = w2.data) ∧
    (∃ w1 rs1 w2 rs2,
      session utf8Auto putChar wr (uinit utf8Auto) chunks = .ok (w1, rs1) ∧
      session utf8Auto putChar wr (uinit utf8Auto) [chunks.flatten] = .ok (w2, rs2) ∧
      w1.data = w2.data) := by
  have hok : ShOk wr.shape wr.data.length := by rw [hs, hd]; exact shOk_chain h w ops
  have key : ∃ w1 rs1 w2 rs2,
      session SurfModel.Utf8.utf8Auto putChar wr (uinit SurfModel.Utf8.utf8Auto) chunks = .ok (w1, rs1) ∧
      session SurfModel.Utf8.utf8Auto putChar wr (uinit SurfModel.Utf8.utf8Auto) [chunks.flatten] = .ok (w2, rs2) ∧
      w1.data = w2.data := by
    obtain ⟨w1, rs1, h1⟩ := session_total SurfModel.Utf8.utf8Auto SurfProofs.Utf8Dec.utf8Auto_short putChar
      (fun w => ShOk w.shape w.data.length) putChar_total chunks wr _ hok (dinv_uinit _)
    obtain ⟨w2, rs2, h2⟩ := session_total SurfModel.Utf8.utf8Auto SurfProofs.Utf8Dec.utf8Auto_short putChar
      (fun w => ShOk w.shape w.data.length) putChar_total [chunks.flatten] wr _ hok (dinv_uinit _)
    obtain ⟨per, dEnd, hdec⟩ := ufeedAll_total SurfModel.Utf8.utf8Auto SurfProofs.Utf8Dec.utf8Auto_short chunks
    exact ⟨w1, rs1, w2, rs2, h1, h2,
      C09_chunking_writer _ h w ops wr hs hd chunks per dEnd hdec w1 w2 rs1 rs2 h1 h2⟩
  refine ⟨key, ?_⟩
  rw [C09_utf8_automata_agree, C09_utf8_automata_agree]
  exact key

/-- **C09, chunking (a `Text` as the sink of `utf8_writer`), unconditional for UTF-8.** Both sessions return
and the cells collected do not depend on how the bytes were split. -/
theorem C09_chunking_text_utf8 (t : Text) (chunks : List (List UInt8)) :
    (∃ t1 rs1 t2 rs2,
      session SurfModel.Utf8.utf8Auto Text.putChar t (uinit SurfModel.Utf8.utf8Auto) chunks = .ok (t1, rs1) ∧
      session SurfModel.Utf8.utf8Auto Text.putChar t (uinit SurfModel.Utf8.utf8Auto) [chunks.flatten] = .ok (t2, rs2) ∧
      t1.cells = t2.cells) ∧
    (∃ t1 rs1 t2 rs2,
      session utf8Auto Text.putChar t (uinit utf8Auto) chunks = .ok (t1, rs1) ∧
      session utf8Auto Text.putChar t (uinit utf8Auto) [chunks.flatten] = .ok (t2, rs2) ∧
      t1.cells = t2.cells) := by
  have key : ∃ t1 rs1 t2 rs2,
      session SurfModel.Utf8.utf8Auto Text.putChar t (uinit SurfModel.Utf8.utf8Auto) chunks = .ok (t1, rs1) ∧
      session SurfModel.Utf8.utf8Auto Text.putChar t (uinit SurfModel.Utf8.utf8Auto) [chunks.flatten] = .ok (t2, rs2) ∧
      t1.cells = t2.cells := by
    obtain ⟨t1, rs1, h1⟩ := session_total SurfModel.Utf8.utf8Auto SurfProofs.Utf8Dec.utf8Auto_short Text.putChar
      (fun _ => True) (fun t c _ => textPutChar_total t c) chunks t _ trivial (dinv_uinit _)
    obtain ⟨t2, rs2, h2⟩ := session_total SurfModel.Utf8.utf8Auto SurfProofs.Utf8Dec.utf8Auto_short Text.putChar
      (fun _ => True) (fun t c _ => textPutChar_total t c) [chunks.flatten] t _ trivial (dinv_uinit _)
    obtain ⟨per, dEnd, hdec⟩ := ufeedAll_total SurfModel.Utf8.utf8Auto SurfProofs.Utf8Dec.utf8Auto_short chunks
    exact ⟨t1, rs1, t2, rs2, h1, h2, C09_chunking_text _ t chunks per dEnd hdec t1 t2 rs1 rs2 h1 h2⟩
  refine ⟨key, ?_⟩
  rw [C09_utf8_automata_agree, C09_utf8_automata_agree]
  exact key

/-- a malformed stream (`E4 B8` cut short by `61`, then `世` cut inside) through the driver's automaton into
the 3 × 2 window of `exWr`: the second write reports the decoding error and the caller gives up -/
example : (match session utf8Auto putChar exWr (uinit utf8Auto) [[0xe4, 0xb8], [0x61, 0xe4], [0xb8, 0x96]] with
    | .ok (w, rs) => some (w.touched, rs) | .error _ => none) = some ([], [true, false]) := by decide

/-! ## completeness

The specification side is written over plain data — glyph support, pixels per cell and the table of
character widths (the fields of `Ctx`) — and does not call the model's `Kind.size`, `classify` or
`keepNoWrap`. -/

/-- rows and columns a cell occupies on the screen -/
def specSize (ctx : Ctx) : Kind → Nat × Nat
  | .chr c => (1, ctx.width c)
  | .glyph h w fb => if ctx.hasGlyphs then (h, w) else (1, (fb.map ctx.width).sum)
  | .image ph pw =>
    if ctx.ppcH = 0 ∨ ctx.ppcW = 0 ∨ ph = 0 ∨ pw = 0 then (0, 0)
    else ((ph + ctx.ppcH - 1) / ctx.ppcH, (pw + ctx.ppcW - 1) / ctx.ppcW)

/-- a cell that occupies space on the screen: not one of the three control characters, non-zero size -/
def isPrintable (ctx : Ctx) (k : Kind) : Bool :=
  k ≠ .chr 10 && k ≠ .chr 13 && k ≠ .chr 9 && (specSize ctx k).1 ≠ 0 && (specSize ctx k).2 ≠ 0

/-- what is written for a text: its cells, a glyph without glyph support replaced by its fallback characters -/
def written (ctx : Ctx) (t : Text) : List Kind := (t.cells.flatMap (expandCell ctx)).map (·.kind)

/-- the cells a line by line layout without wrapping keeps at available width `W`, column by column: a
newline (or carriage return) starts at column 0, a tab moves to the next multiple of 8 clipped to `W`, a
printable cell is kept exactly when its right edge `col + width` does not exceed `W`, a dropped cell does not
move the column -/
def keptNoWrap (ctx : Ctx) (W : Nat) : List Kind → Nat → List Kind
  | [], _ => []
  | k :: ks, col =>
    if k = .chr 10 ∨ k = .chr 13 then keptNoWrap ctx W ks 0
    else if k = .chr 9 then keptNoWrap ctx W ks (if col < W then min ((col / 8 + 1) * 8) W else col)
    else if isPrintable ctx k then
      if col + (specSize ctx k).2 ≤ W then k :: keptNoWrap ctx W ks (col + (specSize ctx k).2)
      else keptNoWrap ctx W ks col
    else keptNoWrap ctx W ks col

/-- the cells of a text that have to be on the surface -/
def shown (ctx : Ctx) (W : Nat) (t : Text) : List Kind :=
  if t.wraps then (written ctx t).filter (isPrintable ctx) else keptNoWrap ctx W (written ctx t) 0

theorem ceil_div (a b : Nat) (hb : 0 < b) : (a + b - 1) / b = if a % b = 0 then a / b else a / b + 1 := by
  have hdm := Nat.div_add_mod a b
  have hlt := Nat.mod_lt a hb
  by_cases hr : a % b = 0
  · simp only [hr, if_true]
    have : a + b - 1 = b * (a / b) + (b - 1) := by
      generalize b * (a / b) = m at hdm ⊢
      generalize a % b = r at hdm hr hlt
      omega
    have hb1 : (b - 1) / b = 0 := Nat.div_eq_of_lt (by omega)
    rw [this, Nat.mul_add_div hb, hb1]
    omega
  · simp only [hr, if_false]
    have : a + b - 1 = b * (a / b + 1) + (a % b - 1) := by
      rw [Nat.mul_add, Nat.mul_one]
      generalize b * (a / b) = m at hdm ⊢
      generalize a % b = r at hdm hr hlt ⊢
      omega
    have hlt2 : a % b - 1 < b := by
      generalize a % b = r at hlt
      omega
    have hb1 : (a % b - 1) / b = 0 := Nat.div_eq_of_lt hlt2
    rw [this, Nat.mul_add_div hb, hb1]

theorem specSize_eq (ctx : Ctx) (k : Kind) : specSize ctx k = k.size ctx := by
  cases k with
  | chr c => rfl
  | glyph h w fb => rfl
  | image ph pw =>
    simp only [specSize, Kind.size, sizeCells]
    split
    · rfl
    · rename_i hz
      have h1 : 0 < ctx.ppcH := by omega
      have h2 : 0 < ctx.ppcW := by omega
      rw [ceil_div ph _ h1, ceil_div pw _ h2]

/-- the model's classification of a cell, in terms of the specification's notions -/
theorem classify_spec (ctx : Ctx) (k : Kind) :
    classify ctx k = if k = .chr 10 then .nl else if k = .chr 13 then .cr else if k = .chr 9 then .tab
      else if isPrintable ctx k then .sized (specSize ctx k).1 (specSize ctx k).2 else .skip := by
  cases k with
  | chr c =>
    simp only [classify, isPrintable, specSize, Kind.chr.injEq]
    by_cases h10 : c = 10
    · simp [h10]
    · by_cases h13 : c = 13
      · simp [h13]
      · by_cases h9 : c = 9
        · simp [h9]
        · by_cases hw : ctx.width c = 0 <;> simp [h10, h13, h9, hw]
  | image ph pw =>
    simp only [classify, isPrintable, ← specSize_eq]
    by_cases hz : (specSize ctx (.image ph pw)).1 = 0 ∨ (specSize ctx (.image ph pw)).2 = 0
    · rcases hz with hz | hz <;> simp [hz]
    · have h1 : (specSize ctx (.image ph pw)).1 ≠ 0 := fun h => hz (Or.inl h)
      have h2 : (specSize ctx (.image ph pw)).2 ≠ 0 := fun h => hz (Or.inr h)
      simp [h1, h2]
  | glyph gh gw fb =>
    simp only [classify, isPrintable, ← specSize_eq]
    by_cases hz : (specSize ctx (.glyph gh gw fb)).1 = 0 ∨ (specSize ctx (.glyph gh gw fb)).2 = 0
    · rcases hz with hz | hz <;> simp [hz]
    · have h1 : (specSize ctx (.glyph gh gw fb)).1 ≠ 0 := fun h => hz (Or.inl h)
      have h2 : (specSize ctx (.glyph gh gw fb)).2 ≠ 0 := fun h => hz (Or.inr h)
      simp [h1, h2]

theorem isPrintable_classify (ctx : Ctx) (k : Kind) :
    isPrintable ctx k = match classify ctx k with | .sized _ _ => true | _ => false := by
  rw [classify_spec]
  by_cases h10 : k = .chr 10
  · simp [h10, isPrintable]
  · by_cases h13 : k = .chr 13
    · simp [h13, isPrintable]
    · by_cases h9 : k = .chr 9
      · simp [h9, isPrintable]
      · cases hp : isPrintable ctx k <;> simp [h10, h13, h9]

/-- the model's mask of kept cells selects exactly the specification's `keptNoWrap` -/
theorem keepNoWrap_spec (ctx : Ctx) (W : Nat) (ks : List Kind) (col : Nat) :
    ((ks.zip (keepNoWrap W (ks.map (classify ctx)) col)).filterMap fun x => if x.2 then some x.1 else none)
      = keptNoWrap ctx W ks col := by
  induction ks generalizing col with
  | nil => simp [keepNoWrap, keptNoWrap]
  | cons k ks ih =>
    simp only [List.map_cons, keptNoWrap]
    rw [classify_spec]
    by_cases h10 : k = .chr 10
    · simp [h10, keepNoWrap, ih]
    · by_cases h13 : k = .chr 13
      · simp [h13, keepNoWrap, ih]
      · by_cases h9 : k = .chr 9
        · simp [h9, keepNoWrap, ih]
        · simp only [h10, h13, h9, if_false, or_self]
          cases hp : isPrintable ctx k
          · simp [keepNoWrap, ih]
          · simp only [if_true, keepNoWrap]
            by_cases hf : col + (specSize ctx k).2 ≤ W
            · simp [hf, ih]
            · simp [hf, ih]

/-- **C09, text complete — the full claim.** For every text (either wrap mode), every constraint whose
height does not cut the text, every view with room for the reported size at the layout position: rendering
does not panic and there is a list of (position, kind) pairs whose kinds are exactly `shown` (wrapping: the
printable cells of the text, for a glyph without glyph support its fallback characters; no wrapping: the
cells `keptNoWrap` keeps — those whose right edge does not exceed the available width) in text order, at
positions strictly increasing in reading order inside the view, each pair on the surface, every other
position of the view unchanged. NOT provable as it stands for texts containing a carriage return: the code
lets the cells after a `\r` overwrite the earlier cells of the line (the property's quantifier does not list
carriage returns); `C09_text_complete_partial` proves everything else. -/
def C09_text_complete_full : Prop :=
  ∀ (ctx : Ctx) (t : Text) (ct : Ct), 1 ≤ ct.maxW → ct.maxW < U → (written ctx t).length + 1 < U →
    (t.layoutRun ctx ct.maxW).1.sh ≤ ct.maxH →
    ∀ (H' W' : Nat), t.layout ctx ct = some (H', W') →
    ∀ (h w : Nat) (ops : List Op) (data : List Cell), data.length = h * w →
    ∀ (row col : Nat),
    let sh := applyTo (Shape.chain ops (Shape.from h w)) row col H' W'
    sh.height = H' → sh.width = W' →
    ∃ (wr : Writer) (placed : List ((Nat × Nat) × Kind)),
      t.render ctx (Shape.chain ops (Shape.from h w)) data row col H' W' = some wr ∧
      placed.map (·.2) = shown ctx ct.maxW t ∧
      (placed.map (·.1)).Pairwise lexLt ∧
      (∀ q ∈ placed, q.1.1 < sh.height ∧ q.1.2 < sh.width ∧
        (wr.data[sh.offset q.1.1 q.1.2]?).map Cell.kind = some q.2) ∧
      (∀ r c, r < sh.height → c < sh.width → (r, c) ∉ placed.map (·.1) →
        (wr.data[sh.offset r c]?).map Cell.kind = (data[sh.offset r c]?).map Cell.kind)

/-- **C09, text complete (all of `C09_text_complete_full` except texts with carriage returns).** A `Text`
without carriage returns, wrapping or not, is laid out under a constraint `ct` (any minimum, maximum width
`1 ≤ W < 2^64`, maximum height not cutting the text: `hH`) and rendered through `Text::render` into any view
— any chain of `view` / `transpose` steps — at any layout position, with room for the size `Text::layout`
reported (`hroomH`, `hroomW`: the window `Layout::apply_to` cuts out has exactly the reported size). Then
rendering does not panic and the surface shows exactly `shown`: with wrapping every printable cell of the
text (fallback characters for glyphs without glyph support), without wrapping exactly the cells whose right
edge does not exceed `W` (`keptNoWrap`) — each once, in text order, at strictly increasing positions in
reading order inside the view —, and every other position of the view holds what it held before. -/
theorem C09_text_complete_partial (ctx : Ctx) (t : Text) (ct : Ct) (hW1 : 1 ≤ ct.maxW) (hWU : ct.maxW < U)
    (hcr : ∀ k ∈ written ctx t, k ≠ .chr 13) (hlen : (written ctx t).length + 1 < U)
    (hH : (t.layoutRun ctx ct.maxW).1.sh ≤ ct.maxH)
    (H' W' : Nat) (hlay : t.layout ctx ct = some (H', W'))
    (h w : Nat) (ops : List Op) (data : List Cell) (hd : data.length = h * w) (row col : Nat)
    (hroomH : (applyTo (Shape.chain ops (Shape.from h w)) row col H' W').height = H')
    (hroomW : (applyTo (Shape.chain ops (Shape.from h w)) row col H' W').width = W') :
    let sh := applyTo (Shape.chain ops (Shape.from h w)) row col H' W'
    ∃ (wr : Writer) (placed : List ((Nat × Nat) × Kind)),
      t.render ctx (Shape.chain ops (Shape.from h w)) data row col H' W' = some wr ∧
      placed.map (·.2) = shown ctx ct.maxW t ∧
      (placed.map (·.1)).Pairwise lexLt ∧
      (∀ q ∈ placed, q.1.1 < sh.height ∧ q.1.2 < sh.width ∧
        (wr.data[sh.offset q.1.1 q.1.2]?).map Cell.kind = some q.2) ∧
      (∀ r c, r < sh.height → c < sh.width → (r, c) ∉ placed.map (·.1) →
        (wr.data[sh.offset r c]?).map Cell.kind = (data[sh.offset r c]?).map Cell.kind) := by
  intro sh
  -- the window is itself a view chain of the root surface
  let ops' := ops ++ [Op.view (.range row (SurfModel.TextLayout.satAdd row H')) (.range col (SurfModel.TextLayout.satAdd col W'))]
  have hsh : sh = Shape.chain ops' (Shape.from h w) := by
    simp only [sh, ops', applyTo, Shape.chain, List.foldl_append, List.foldl_cons, List.foldl_nil, Shape.apply]
  have hks : ((t.cells.flatMap (expandCell ctx)).map (·.kind)) = written ctx t := rfl
  have hlr : t.layoutRun ctx ct.maxW = layoutRun ctx ct.maxW t.wraps (written ctx t) LSt.init := by
    simp only [Text.layoutRun, written]
  have hsw : (layoutRun ctx ct.maxW t.wraps (written ctx t) LSt.init).1.sw ≤ ct.maxW := by
    rw [layoutRun_eq_run]
    exact run_col_sw_le ct.maxW t.wraps _ LSt.init (by simp [LSt.init]) (by simp [LSt.init])
  -- the reported size covers the tracked size and its width lies between the tracked and the available width
  rw [hlr] at hH
  simp only [Text.layout, hlr, Ct.clamp, clampU] at hlay
  have hHW : (layoutRun ctx ct.maxW t.wraps (written ctx t) LSt.init).1.sh ≤ H' ∧
      (layoutRun ctx ct.maxW t.wraps (written ctx t) LSt.init).1.sw ≤ W' ∧ W' ≤ ct.maxW := by
    split at hlay
    · cases hlay
    · rename_i h1 hc1
      split at hc1
      · cases hc1
      · cases hc1
        split at hlay
        · cases hlay
        · rename_i w1 hc2
          split at hc2
          · cases hc2
          · cases hc2
            simp only [Option.some.injEq, Prod.mk.injEq] at hlay
            obtain ⟨rfl, rfl⟩ := hlay
            refine ⟨?_, ?_, ?_⟩ <;> (repeat' split) <;> omega
  have hheight : sh.height = H' := hroomH
  have hwidth : sh.width = W' := hroomW
  obtain ⟨hag, hlen2, hins, hinc, hsome, hno⟩ := C09_layout_agrees ctx t.wraps (written ctx t) ct.maxW sh.width hW1 hWU hlen
    (by rw [hwidth]; exact hHW.2.1) (by rw [hwidth]; exact hHW.2.2)
  have hinside : ∀ p ∈ (layoutRun ctx ct.maxW t.wraps (written ctx t) LSt.init).2.filterMap id,
      p.1 < sh.height ∧ p.2 < sh.width := by
    intro p hp
    have := hins p hp
    rw [hheight]
    exact ⟨Nat.lt_of_lt_of_le this.1 hHW.1, this.2⟩
  -- the writer `Text::render` creates
  have hok : ShOk sh (data.length) := by rw [hd, hsh]; exact shOk_chain h w ops'
  obtain ⟨wr, hall, _, _, _, hkinds⟩ := putAllTrue_run { Writer.new ctx sh data with wraps := t.wraps }
    (t.cells.flatMap (expandCell ctx)) hok
    (by simp only [Writer.new, hks, hag]; exact hinside)
  simp only [Writer.new, hks, hag] at hkinds
  have hrender : t.render ctx (Shape.chain ops (Shape.from h w)) data row col H' W' = some wr :=
    putCells_of_allTrue _ t.cells wr hall
  have hinj := SurfProofs.C07.C07_injective h w ops'
  rw [← hsh] at hinj
  refine ⟨wr, placedOf (layoutRun ctx ct.maxW t.wraps (written ctx t) LSt.init).2 (written ctx t), hrender, ?_, ?_, ?_, ?_⟩
  · rw [placedOf_snd_mask _ _ hlen2]
    unfold shown
    cases hwr : t.wraps
    · rw [hwr] at hno
      rw [hno rfl, keepNoWrap_spec]
      simp
    · rw [hwr] at hsome
      rw [hsome rfl, mask_filter]
      simp only [if_true]
      apply List.filter_congr
      intro k _
      exact (isPrintable_classify ctx k).symm
  · rw [placedOf_fst _ _ hlen2]
    exact hinc hcr
  · intro q hq
    have hq1 : q.1 ∈ (layoutRun ctx ct.maxW t.wraps (written ctx t) LSt.init).2.filterMap id := by
      rw [← placedOf_fst _ _ hlen2]; exact List.mem_map_of_mem hq
    have hwin := hinside q.1 hq1
    refine ⟨hwin.1, hwin.2, ?_⟩
    obtain ⟨l1, l2, hsplit⟩ := List.append_of_mem hq
    rw [hkinds, hsplit]
    obtain ⟨qp, qk⟩ := q
    apply foldK_last sh _ l1 l2 qp qk _ rfl
    intro x hx heq
    -- a later cell at the same offset would sit at the same position: excluded by the reading order
    have hx1 : x.1 ∈ (layoutRun ctx ct.maxW t.wraps (written ctx t) LSt.init).2.filterMap id := by
      rw [← placedOf_fst _ _ hlen2, hsplit]
      exact List.mem_map_of_mem (List.mem_append_right _ (List.mem_cons_of_mem _ hx))
    have hxw := hinside x.1 hx1
    have := hinj x.1.1 x.1.2 qp.1 qp.2 hxw.1 hxw.2 hwin.1 hwin.2 heq
    have hpw := hinc hcr
    rw [← placedOf_fst _ _ hlen2, hsplit, List.map_append, List.map_cons, List.pairwise_append] at hpw
    have hlt := (List.pairwise_cons.mp hpw.2.1).1 x.1 (List.mem_map_of_mem hx)
    have hxe : x.1 = qp := Prod.ext this.1 this.2
    rw [hxe] at hlt
    exact lexLt_irrefl _ hlt
  · intro r c hr hc hnot
    rw [hkinds]
    apply foldK_none
    intro x hx heq
    have hx1 : x.1 ∈ (layoutRun ctx ct.maxW t.wraps (written ctx t) LSt.init).2.filterMap id := by
      rw [← placedOf_fst _ _ hlen2]; exact List.mem_map_of_mem hx
    have hxw := hinside x.1 hx1
    have := hinj x.1.1 x.1.2 r c hxw.1 hxw.2 hr hc heq
    apply hnot
    have hxe : x.1 = (r, c) := Prod.ext this.1 this.2
    rw [← hxe]
    exact List.mem_map_of_mem hx

/-- the hypotheses are met — the repaired case: a glyph with the seven character fallback `abcdefg` on a
terminal without glyph support under maximum width 3 reports 3 × 3, and a 3 × 3 window at layout position
(1, 1) of a 5 × 5 surface (offset, strided) shows all seven characters -/
def exCtxNoGlyphs : Ctx := { hasGlyphs := false, ppcH := 1, ppcW := 1, width := fun _ => 1 }
def exText : Text := { Text.new with cells := [⟨Face.dflt, .glyph 1 2 [97, 98, 99, 100, 101, 102, 103]⟩] }
example : (∀ k ∈ written exCtxNoGlyphs exText, k ≠ .chr 13) ∧
    (written exCtxNoGlyphs exText).length + 1 < U ∧ (exText.layoutRun exCtxNoGlyphs 3).1.sh ≤ 100 ∧
    exText.layout exCtxNoGlyphs (Ct.loose 100 3) = some (3, 3) ∧
    (applyTo (Shape.chain [] (Shape.from 5 5)) 1 1 3 3).height = 3 ∧
    (applyTo (Shape.chain [] (Shape.from 5 5)) 1 1 3 3).width = 3 := by decide
example : (exText.render exCtxNoGlyphs (Shape.chain [] (Shape.from 5 5)) (List.replicate 25 ⟨Face.dflt, .chr 35⟩) 1 1 3 3).map
    (fun w => w.data.map fun c => match c.kind with | .chr c => c | _ => 0)
    = some [35, 35, 35, 35, 35, 35, 97, 98, 99, 35, 35, 100, 101, 102, 35, 35, 103, 35, 35, 35, 35, 35, 35, 35, 35] := by
  decide
/-- without wrapping, under a tight constraint 2 × 4: `ab世c` keeps `a`, `b`, `世`; `c` is beyond the right edge -/
def exTextNoWrap : Text :=
  { Text.new with wraps := false, cells := [⟨Face.dflt, .chr 97⟩, ⟨Face.dflt, .chr 98⟩, ⟨Face.dflt, .chr 19990⟩, ⟨Face.dflt, .chr 99⟩] }
example : exTextNoWrap.layout exCtx ⟨2, 4, 2, 4⟩ = some (2, 4) ∧
    shown exCtx 4 exTextNoWrap = [.chr 97, .chr 98, .chr 19990] ∧
    (exTextNoWrap.layoutRun exCtx 4).1.sh ≤ 2 := by decide

end SurfProofs.C09
