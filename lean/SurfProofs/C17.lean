import SurfProofs.Lemmas.PollLoop
/-!
# C17 — wake-ups and signals are never lost; the tty is restored on every exit path   (PARTIAL by design)

Model: `SurfModel.PollLoop` — `UnixTerminal::poll` as a loop over environment answers (clock, `select`, tty
write / read, signal set, waker pipe read), `dispose` / `Drop` as a straight-line program whose every step may
fail, the part of `new_from_fd` that saves the line settings.  What the theorems carry is the *bookkeeping* of
the code for every sequence of answers; real thread interleaving, kernel timing and the semantics of `select`,
pipes and signals are NOT modelled: where a theorem needs them they are explicit hypotheses and the theorem is
named `…_partial`.
-/
namespace SurfProofs.C17
open SurfModel SurfModel.PollLoop SurfProofs.PollLoopLemmas

variable {ε σ τ : Type}

/-! ## C17_restore -/

/-- what the closing sequence means to a terminal (xterm control sequences), by capability `kitty` -/
def epilogueOps (kitty : Bool) : List Vt.Op :=
  [.sgr [.reset], .decset 25, .decrst 1003, .decrst 1006, .decrst 1000, .decset 7]
    ++ (if kitty then [.kittyKeyboard 0] else []) ++ [.da1]

/-- **C17_restore.** For EVERY pattern of failures in `dispose` — each `execute` of the closing sequence
(failing after any prefix of its bytes), every `select`, tty write, tty read, waker read, `size()` inside each of
the `poll(1 s)` calls of the wait loop, termination signals arriving meanwhile, the final `tcsetattr` itself —
and every state of the terminal:

1. unless the environment never lets the wait loop end (the supplied answers run out: `blocked`), the system
   calls of `dispose` are: signals switched off (handle closed, pending ones forgotten), those of its polls,
   closing the signal handle, then `tcsetattr(saved)` as the very last call; no `tcsetattr` with any other
   settings occurs;
2. `saved` is what `tcgetattr` answered when the tty was opened, read BEFORE raw mode was set (`openTty`);
3. if every `execute` succeeded and the queue was drained (all writes were accepted), the bytes handed to the tty
   before `tcsetattr` contain the complete closing sequence as one contiguous block, after everything queued
   earlier that was not dropped;
4. read by the reference VT interpreter (the verified specification of C05), the closing sequence switches
   mouse reporting off (`DECRST 1000, 1003, 1006`), shows the cursor (`DECSET 25`) and ends with the DA1 query,
   for every capability set. -/
theorem C17_restore (d : Dec ε σ) (caps : Vt.Caps) (saved : τ) (st : St ε σ) (env : DEnv) :
    (let r := dispose d (epilogue caps) saved st env
     (r.res = .blocked ∨ ∃ calls : List Sys, r.log = .sigOff :: calls.map .poll ++ [.sigClose, .tcsetattr saved]) ∧
     (∀ t, DSys.tcsetattr t ∈ r.log → t = saved) ∧
     (r.res ≠ .blocked → (∀ a ∈ env.exec, a = .ok) → flat r.st.wq = [] →
        ∃ calls pre post, r.log = .sigOff :: calls.map .poll ++ [.sigClose, .tcsetattr saved] ∧
          handed calls = pre ++ (epilogue caps).flatten ++ post ∧ pre = flat (framesDrop st).wq)) ∧
    (∀ (makeRaw : τ → τ) (oenv : OpenEnv τ) (s : τ) (log : List (OSys τ)),
        openTty makeRaw oenv = (some s, log) →
          oenv.getattr = some s ∧ log = [.setNonblocking, .isatty, .tcgetattr, .tcsetattr (makeRaw s), .pipes]) ∧
    (∃ ops, Vt.interp (epilogue caps).flatten = some ops ∧
        Vt.Op.decrst 1000 ∈ ops ∧ Vt.Op.decrst 1003 ∈ ops ∧ Vt.Op.decrst 1006 ∈ ops ∧ Vt.Op.decset 25 ∈ ops ∧
        ops.getLast? = some .da1) := by
  refine ⟨?_, ?_, ?_⟩
  · simp only [dispose]
    have hc := waitSync_cons d env.polls
      { framesDrop st with wq := execMany (framesDrop st).wq (epilogue caps) env.exec } []
    generalize waitSync d env.polls
      { framesDrop st with wq := execMany (framesDrop st).wq (epilogue caps) env.exec } [] = w at hc
    obtain ⟨st3, log, fin⟩ := w
    cases fin with
    | false =>
      refine ⟨Or.inl rfl, ?_, fun h => absurd rfl h⟩
      intro t ht
      simp at ht
    | true =>
      refine ⟨Or.inr ⟨log, rfl⟩, ?_, ?_⟩
      · intro t ht
        simp at ht
        exact ht
      · intro _ hok hempty
        obtain ⟨inj, e⟩ := hc
        simp only [handed, List.nil_append] at e
        simp only at hempty
        rw [hempty, List.append_nil, flat_execMany_ok _ _ _ hok] at e
        exact ⟨log, flat (framesDrop st).wq, inj, rfl, e, rfl⟩
  · intro makeRaw oenv s log h
    unfold openTty at h
    split at h
    · cases h
    · split at h
      · cases h
      · split at h
        · cases h
        · rename_i t ht
          split at h
          · cases h
          · split at h
            · cases h
            · cases h
              exact ⟨ht, rfl⟩
  · rcases caps with ⟨depth, kitty⟩
    cases kitty with
    | false =>
      cases depth <;>
        exact ⟨epilogueOps false, by decide +kernel, by decide, by decide, by decide, by decide, by decide⟩
    | true =>
      cases depth <;>
        exact ⟨epilogueOps true, by decide +kernel, by decide, by decide, by decide, by decide, by decide⟩

/-- a failure pattern: the second command of the closing sequence fails half way, the first poll's `select`
fails — `tcsetattr(saved)` is still the last call -/
example :
    (dispose simpleDec (epilogue ⟨.eightBit, false⟩) "cooked" ⟨WQ.new, [], [], false⟩
      ⟨[.ok, .fail 3], [⟨0, [⟨0, .fail, .again, [], true, .again, .again⟩]⟩], false⟩).log.getLast?
      = some (.tcsetattr "cooked") := by decide +kernel

/-- all steps succeed: the tty receives `ESC[0m ESC[?25h ESC[?1003l ESC[?1006l ESC[?1000l ESC[?7h ESC[c`, the
peer answers DA1 (the second iteration also pops the empty chunk left by `flush`), then the handle is closed and the settings are restored -/
example :
    let r := dispose simpleDec (epilogue ⟨.eightBit, false⟩) "cooked" ⟨WQ.new, [], [], false⟩
      ⟨[], [⟨0, [⟨1, .ready false false false true, .n 99, [], true, .again, .again⟩,
                 ⟨2, .ready false false true true, .n 0, [], true, .again, .bytes [27, 91, 63, 54, 50, 59, 52, 99]⟩]⟩], true⟩
    r.res = .ok ∧ r.log.length = 8 ∧ r.log.getLast? = some (.tcsetattr "cooked") ∧ flat r.st.wq = [] := by
  decide +kernel

/-! ## C17_wake_count, C17_wake_not_lost_partial

Vocabulary (defined in `SurfProofs.Lemmas.PollLoop`): `wakesIn l` = number of `Wake` entries of an event list;
`drains log` = number of reads of the waker pipe that returned at least one byte; `drained log` = bytes those
reads took out of the pipe. -/

/-- **C17_wake_count** (no hypotheses). In every `poll`, for every sequence of environment answers: the number of
`Wake` events queued equals the number of non-empty reads of the waker pipe — one `Wake` per non-empty drain,
none without one — and a single read takes at most 1024 bytes (so up to 1024 requests coalesce into one event). -/
theorem C17_wake_count (d : Dec ε σ) (st : St ε σ) (to : Option Nat) (env : PollEnv) :
    wakesIn (poll d st to env).pushed = drains (poll d st to env).log ∧
      ∀ k, Sys.wakerRead k ∈ (poll d st to env).log → k ≤ 1024 := by
  obtain ⟨hl, hp, -⟩ := poll_fields d st to env
  obtain ⟨ext, dlog, -, p, g, -, w, b, -⟩ :=
    trk_loop d (to.map (env.start + ·)) env.its true (⟨{ st with wq := st.wq.flush }, [], []⟩ : Acc ε σ)
  simp only [List.nil_append] at p g
  rw [hl, hp, p, g]
  exact ⟨w, b⟩

/-- the terminal together with its waker pipe: `pipe` bytes are buffered; `owed` = a `wake()` has completed and no
`Wake` event has been queued since -/
structure World (ε σ : Type) where
  st : St ε σ
  pipe : Nat
  owed : Bool

/-- what can happen, in any order: another thread completes `wake()` (its byte enters the pipe, or — `wakeFull` —
the pipe is full and the write is dropped with EAGAIN), the application touches the terminal between polls
(takes an event, queues output, …), or the poll loop executes one iteration (of this or a later poll:
`dl`, `first` are arbitrary); `during` wake bytes arrive between that iteration's `select` and its pipe read -/
inductive Act (ε σ : Type) where
  | wake
  | wakeFull
  | app (f : St ε σ → St ε σ)
  | iter (dl : Option Nat) (first : Bool) (it : Iter) (during : Nat)

def wstep (d : Dec ε σ) (w : World ε σ) : Act ε σ → World ε σ
  | .wake => { w with pipe := w.pipe + 1, owed := true }
  | .wakeFull => { w with owed := true }
  | .app f => { w with st := f w.st }
  | .iter dl first it during =>
    let r := sacc (step d dl it first ⟨w.st, [], []⟩)
    { st := r.st, pipe := w.pipe + during - drained r.log,
      owed := if wakesIn r.pushed = 0 then (w.owed || decide (0 < during)) else false }

def runW (d : Dec ε σ) (w : World ε σ) (acts : List (Act ε σ)) : World ε σ := acts.foldl (wstep d) w

/-- the pipe axiomatics, as far as one step is concerned -/
def Consistent (w : World ε σ) : Act ε σ → Prop
  | .wake => True
  | .app _ => True
  -- EAGAIN on the waker's write only when the pipe is full, hence non-empty
  | .wakeFull => 0 < w.pipe
  | .iter _ _ it during =>
    -- `select` reports a readable descriptor whose buffer is non-empty
    (0 < w.pipe → ∀ wk sg tr tw, it.sel = .ready wk sg tr tw → wk = true) ∧
    -- a byte written stays readable until read: a read of a non-empty pipe returns at least one byte …
    (0 < w.pipe + during → ∃ k, it.wk = .n k ∧ 1 ≤ k) ∧
    -- … and no more than are buffered
    (∀ k, it.wk = .n k → min k 1024 ≤ w.pipe + during)

/-- every step of the run satisfies the pipe axiomatics -/
def Good (d : Dec ε σ) (w0 : World ε σ) (acts : List (Act ε σ)) : Prop :=
  ∀ n act, acts[n]? = some act → Consistent (runW d w0 (acts.take n)) act

theorem runW_succ (d : Dec ε σ) (w0 : World ε σ) (acts : List (Act ε σ)) (n : Nat) (act : Act ε σ)
    (h : acts[n]? = some act) : runW d w0 (acts.take (n + 1)) = wstep d (runW d w0 (acts.take n)) act := by
  simp [runW, List.take_add_one, h, List.foldl_append]

theorem wstep_inv (d : Dec ε σ) (w : World ε σ) (act : Act ε σ) (hinv : w.owed = true → 0 < w.pipe)
    (hc : Consistent w act) : (wstep d w act).owed = true → 0 < (wstep d w act).pipe := by
  cases act with
  | wake => intro _; simp [wstep]
  | wakeFull => intro _; exact hc
  | app f => exact hinv
  | iter dl first it during =>
    simp only [wstep]
    split
    · rename_i h0
      -- no `Wake` pushed: nothing was taken out of the pipe
      obtain ⟨ext, dlog, -, p, g, -, w', -⟩ := trk_step d dl it first (⟨w.st, [], []⟩ : Acc ε σ)
      simp only [List.nil_append] at p g
      have hd : drained (sacc (step d dl it first ⟨w.st, [], []⟩)).log = 0 := by
        rw [g]; apply drained_zero_of_drains_zero; rw [← w', ← p]; exact h0
      rw [hd]
      intro ho
      simp only [Bool.or_eq_true, decide_eq_true_eq] at ho
      rcases ho with ho | ho
      · have := hinv ho; omega
      · omega
    · intro h; cases h

/-- **C17_wake_not_lost_partial.** HYPOTHESES (environment, not discharged): `Good` — the pipe axiomatics: a byte
written to the waker pipe stays readable until read; `select` reports the pipe readable whenever it is
non-empty; a read of a non-empty pipe returns between one byte and what is buffered; the waker's write fails
with EAGAIN only when the pipe is full.  Threads, the application and the loop may interleave in ANY way
(`acts`), iterations may belong to this or to any later poll, with any time-out.

CONCLUSION. At every point of the run: if some `wake()` has completed and no `Wake` event has been queued
since, the pipe is non-empty (the request is not lost, whatever errors, time-outs and early returns happened).
And every loop iteration that starts in such a state and whose `select` succeeds queues a `Wake` event in
that very iteration — the first one that reads the pipe — unless it is not executed at all because the deadline
has passed (`stop … ok`, no system call) or it ends the poll with an error raised before the pipe is read; in
those cases the request stays owed, the pipe stays non-empty, and the next iteration of this or a later poll is
in the same position.  Requests coalesce: afterwards nothing is owed, however many bytes were drained. -/
theorem C17_wake_not_lost_partial (d : Dec ε σ) (w0 : World ε σ) (acts : List (Act ε σ))
    (h0 : w0.owed = true → 0 < w0.pipe) (hgood : Good d w0 acts) (n : Nat) :
    ((runW d w0 (acts.take n)).owed = true → 0 < (runW d w0 (acts.take n)).pipe) ∧
    ∀ dl first it during wk sg tr tw, acts[n]? = some (.iter dl first it during) →
      (runW d w0 (acts.take n)).owed = true → it.sel = .ready wk sg tr tw →
      let a : Acc ε σ := ⟨(runW d w0 (acts.take n)).st, [], []⟩
      step d dl it first a = .stop a .ok ∨ (∃ a' e, step d dl it first a = .stop a' (.err e)) ∨
        (1 ≤ wakesIn (sacc (step d dl it first a)).pushed ∧ (runW d w0 (acts.take (n + 1))).owed = false) := by
  have inv : ∀ m, (runW d w0 (acts.take m)).owed = true → 0 < (runW d w0 (acts.take m)).pipe := by
    intro m
    induction m with
    | zero => simpa [runW] using h0
    | succ m ih =>
      cases hm : acts[m]? with
      | none =>
        have : acts.take (m + 1) = acts.take m := by
          rw [List.take_add_one, hm]; simp
        rw [this]; exact ih
      | some act =>
        rw [runW_succ d w0 acts m act hm]
        exact wstep_inv d _ act ih (hgood m act hm)
  refine ⟨inv n, ?_⟩
  intro dl first it during wk sg tr tw hact howed hsel a
  have hpipe := inv n howed
  obtain ⟨hc1, hc2, -⟩ := hgood n _ hact
  have hwk : wk = true := hc1 hpipe wk sg tr tw hsel
  subst hwk
  obtain ⟨k, hk, hk1⟩ := hc2 (by omega)
  rcases step_wake_progress d dl it first a sg tr tw k hsel hk hk1 with h | h | h
  · exact Or.inl h
  · exact Or.inr (Or.inl h)
  · refine Or.inr (Or.inr ⟨by simpa [wakesIn, a] using h, ?_⟩)
    rw [runW_succ d w0 acts n _ hact]
    simp only [wstep]
    have : wakesIn (sacc (step d dl it first a)).pushed ≠ 0 := by
      have : wakesIn a.pushed = 0 := rfl
      omega
    simp only [a] at this
    simp [this]

/-- the hypotheses are satisfiable and the conclusion has content: two threads wake (one byte each) while the
terminal is idle, then an iteration of a poll finds the pipe readable, drains both bytes with one read and queues
ONE `Wake`; nothing is owed afterwards -/
example :
    let w0 : World SEv (List Nat) := ⟨⟨WQ.new, [], [], false⟩, 0, false⟩
    let acts : List (Act SEv (List Nat)) :=
      [.wake, .wake, .iter none true ⟨0, .ready true false false false, .again, [], true, .n 2, .again⟩ 0]
    Good simpleDec w0 acts ∧ (runW simpleDec w0 (acts.take 2)).owed = true ∧
      (runW simpleDec w0 acts).owed = false ∧ (runW simpleDec w0 acts).pipe = 0 ∧
      (runW simpleDec w0 acts).st.evq = [.wake] := by
  refine ⟨?_, by decide, by decide, by decide, by decide⟩
  intro n act h
  match n, h with
  | 0, h => cases h; trivial
  | 1, h => cases h; trivial
  | 2, h =>
    cases h
    refine ⟨fun _ wk sg tr tw e => by cases e; rfl, fun _ => ⟨2, rfl, by omega⟩, fun k e => by cases e; decide⟩
  | n + 3, h => simp at h

/-! ## C17_order -/

/-- what a poll hands to the caller -/
def delivered : Res ε → List (Ev ε)
  | .ok (some e) => [e]
  | _ => []

/-- a session of polls; before each one the application may have queued output (`pre` acts on the write queue
only).  Result: final state, events delivered to the caller, events queued by the polls -/
def runPolls (d : Dec ε σ) : St ε σ → List ((WQ → WQ) × Option Nat × PollEnv) → St ε σ × List (Ev ε) × List (Ev ε)
  | st, [] => (st, [], [])
  | st, (pre, to, env) :: rest =>
    let r := poll d { st with wq := pre st.wq } to env
    let r' := runPolls d r.st rest
    (r'.1, delivered r.res ++ r'.2.1, r.pushed ++ r'.2.2)

theorem poll_fifo (d : Dec ε σ) (st : St ε σ) (to : Option Nat) (env : PollEnv) :
    st.evq ++ (poll d st to env).pushed = delivered (poll d st to env).res ++ (poll d st to env).st.evq := by
  obtain ⟨-, hp, -, -, -, hres⟩ := poll_fields d st to env
  obtain ⟨ext, dlog, q, p, -⟩ :=
    trk_loop d (to.map (env.start + ·)) env.its true (⟨{ st with wq := st.wq.flush }, [], []⟩ : Acc ε σ)
  simp only [List.nil_append] at p q
  rw [hp, p, ← q]
  generalize (poll d st to env).res = res at hres ⊢
  cases res with
  | ok e =>
    cases e with
    | none => obtain ⟨-, h1, h2⟩ := hres; simp [delivered, h1, h2]
    | some e => obtain ⟨-, h1⟩ := hres; simp [delivered, h1]
  | err e => obtain ⟨-, h1⟩ := hres; simp [delivered, h1]
  | blocked => obtain ⟨-, h1⟩ := hres; simp [delivered, h1]

/-- **C17_order.** For every terminal state — in particular with ANY amount of output pending — every time-out
and every sequence of environment answers (short writes, EAGAIN, signals, wakes, errors):

1. *queue order, nothing dropped*: over any session of polls, `events queued before ++ events pushed by the polls
   = events delivered to the caller ++ events still queued`: events reach the caller in exactly the order in which
   they were queued, one per successful poll, and an `Err` result (e.g. `Quit`) discards none of them;
2. *input in arrival order*: the decoder events queued by a poll are exactly the (not image-handler-consumed)
   output of feeding the decoder the chunks read from the tty, in the order read, starting from the decoder state
   left by the previous poll, and the decoder state is carried over — pending output, wakes and signals handled in
   the same iterations change nothing about it;
3. for a decoder that is independent of read boundaries (C03's theorem for the production decoder) this is the
   decoding of the concatenated input stream. -/
theorem C17_order (d : Dec ε σ) :
    (∀ (st : St ε σ) (ps : List ((WQ → WQ) × Option Nat × PollEnv)),
        st.evq ++ (runPolls d st ps).2.2 = (runPolls d st ps).2.1 ++ (runPolls d st ps).1.evq) ∧
    (∀ (st : St ε σ) (to : Option Nat) (env : PollEnv),
        inputsOf (poll d st to env).pushed
          = ((feedAll d st.dec (chunks (poll d st to env).log)).2).filter (unhandled d) ∧
        (poll d st to env).st.dec = (feedAll d st.dec (chunks (poll d st to env).log)).1) ∧
    ((∀ s, d.feed s [] = (s, [])) →
     (∀ s a b, d.feed s (a ++ b) = ((d.feed (d.feed s a).1 b).1, (d.feed s a).2 ++ (d.feed (d.feed s a).1 b).2)) →
     ∀ s cs, feedAll d s cs = d.feed s cs.flatten) := by
  refine ⟨?_, ?_, ?_⟩
  · intro st ps
    induction ps generalizing st with
    | nil => simp [runPolls]
    | cons p ps ih =>
      obtain ⟨pre, to, env⟩ := p
      simp only [runPolls]
      have h1 := poll_fifo d { st with wq := pre st.wq } to env
      have h2 := ih (poll d { st with wq := pre st.wq } to env).st
      simp only at h1
      rw [← List.append_assoc, h1, List.append_assoc, h2, List.append_assoc]
  · intro st to env
    obtain ⟨hl, hp, hd, -⟩ := poll_fields d st to env
    obtain ⟨ext, dlog, -, p, g, -, -, -, dd, i⟩ :=
      trk_loop d (to.map (env.start + ·)) env.its true (⟨{ st with wq := st.wq.flush }, [], []⟩ : Acc ε σ)
    simp only [List.nil_append] at p g
    rw [hl, hp, hd, p, g]
    exact ⟨i, dd⟩
  · intro hnil happ s cs
    induction cs generalizing s with
    | nil => simp [feedAll, hnil]
    | cons c cs ih => simp [feedAll, ih, happ]

/-- a byte-per-event decoder is independent of read boundaries -/
example : let d : Dec Nat Unit := ⟨fun s bs => (s, bs), fun _ => false, fun _ => false, fun _ => false, fun _ => (false, [])⟩
    (∀ s, d.feed s [] = (s, [])) ∧
    ∀ s a b, d.feed s (a ++ b) = ((d.feed (d.feed s a).1 b).1, (d.feed s a).2 ++ (d.feed (d.feed s a).1 b).2) :=
  ⟨fun _ => rfl, fun _ _ _ => rfl⟩

/-- output pending (a 5-byte chunk, of which the tty takes 2), a wake and two key bytes in ONE iteration: the
events are queued `wake, key a, key b` and the caller gets `wake` first -/
example :
    let r := poll simpleDec ⟨⟨[[1, 2, 3, 4, 5]]⟩, [], [], false⟩ (some 10)
      ⟨0, [⟨1, .ready true false true true, .n 2, [], true, .n 1, .bytes [97, 98]⟩, ⟨11, .fail, .again, [], true, .again, .again⟩]⟩
    r.res = .ok (some .wake) ∧ r.st.evq = [.input (.key 97), .input (.key 98)] ∧ flat r.st.wq = [3, 4, 5] := by
  decide

/-- **C17_quit.** A termination signal (SIGTERM, SIGINT, SIGQUIT) found in the pending set makes that iteration
end the poll with `Err(Quit)` — whatever else is pending — unless the iteration fails even earlier (tty write
error) or `size()` fails for a SIGWINCH handled before it (then the poll ends with that error).  Events queued
before stay queued (`C17_order`, 1). -/
theorem C17_quit (d : Dec ε σ) (dl : Option Nat) (it : Iter) (first : Bool) (a : Acc ε σ) (wk tr tw : Bool)
    (hsel : it.sel = .ready wk true tr tw) (hsig : ∃ s ∈ it.sigs, s = .term ∨ s = .int ∨ s = .quit)
    (hsize : it.sizeOk = true) (hwr : it.wr ≠ .fail) :
    step d dl it first a = .stop a .ok ∨ ∃ a', step d dl it first a = .stop a' (.err .quit) := by
  unfold step
  generalize delayOf dl it.now first = dly
  cases dly with
  | brk => exact Or.inl rfl
  | wait delay =>
    right
    dsimp only
    rw [hsel]
    dsimp only
    generalize (a.sys (.select delay (!a.st.wq.isEmpty))) = a0
    unfold body
    have hw : (phaseWrite a0 (tw && !a.st.wq.isEmpty) it.wr).2 = none := by
      unfold phaseWrite
      split
      · generalize it.wr = wr at hwr
        cases wr with
        | fail => exact absurd rfl hwr
        | again => rfl
        | n k => rfl
      · rfl
    generalize phaseWrite a0 (tw && !a.st.wq.isEmpty) it.wr = r1 at hw ⊢
    obtain ⟨a1, o1⟩ := r1
    simp only at hw
    subst hw
    simp only
    have hq : (phaseSignals a1 true it.sigs it.sizeOk).2 = some .quit := by
      rw [hsize]
      simp only [phaseSignals, ↓reduceIte]
      exact signalLoop_quit it.sigs _ hsig
    generalize phaseSignals a1 true it.sigs it.sizeOk = r2 at hq ⊢
    obtain ⟨a2, o2⟩ := r2
    simp only at hq
    subst hq
    exact ⟨a2, rfl⟩

/-- SIGWINCH then SIGTERM in one pending set, with output pending and a wake readable: `Resize` is queued,
the poll returns `Err(Quit)`, the waker pipe is not read (the request stays for the next poll) -/
example :
    let r := poll simpleDec ⟨⟨[[1, 2, 3]]⟩, [], [], false⟩ none
      ⟨0, [⟨0, .ready true true false true, .n 1, [.winch, .term], true, .n 1, .again⟩]⟩
    r.res = .err .quit ∧ r.st.evq = [.resize] ∧ drains r.log = 0 := by decide

/-! ## C17_winch -/

/-- **C17_winch.** Window-size signals are delivered as events, whatever output is pending.
(`winches sigs` = number of SIGWINCH in the pending set, `resizesIn l` = number of `Resize` entries.)

1. *ioctl size* (`self.size = None`): an iteration whose `select` reports the signal pipe readable, with SIGWINCH
   in the pending set, no termination signal in it, `size()` working and no tty write error before, queues one
   `Resize` per SIGWINCH in that very iteration (the iteration may still end the poll with a later error — the
   `Resize` is queued all the same and stays queued, `C17_order`) — unless the iteration is skipped because the
   deadline has passed.  Pending output plays no role.
2. *escape-sequence size* (`self.size = Some(_)`): the signal phase appends one size query `ESC[18t ESC[14t` per
   SIGWINCH at the END of the write queue, behind all pending output, and queues no event itself;
3. every poll hands the queued bytes to the tty in queue order (`handed ++ still queued = queued before ++ queued
   by the loop`), so the query reaches the tty once the output before it has been written — unless
   `frames_drop` removes its frame; but
4. `frames_drop` in this mode re-queues the query behind the frame that is kept (repair 88baf18), so a query is
   pending after every `frames_drop`;
5. when the size report arrives in the input (`isSize e`), the decode loop queues `Resize` (right before the
   report event itself). -/
theorem C17_winch (d : Dec ε σ) :
    (∀ dl (it : Iter) first (a : Acc ε σ) wk tr tw,
        it.sel = .ready wk true tr tw → it.wr ≠ .fail → it.sizeOk = true → a.st.sizeEsc = false →
        (∀ s ∈ it.sigs, isTermSig s = false) →
        step d dl it first a = .stop a .ok ∨
          resizesIn a.pushed + winches it.sigs ≤ resizesIn (sacc (step d dl it first a)).pushed) ∧
    (∀ (a : Acc ε σ) (sigs : List Sig) (ok : Bool), a.st.sizeEsc = true → (∀ s ∈ sigs, isTermSig s = false) →
        (phaseSignals a true sigs ok).2 = none ∧
        flat (phaseSignals a true sigs ok).1.st.wq = flat a.st.wq ++ (List.replicate (winches sigs) getTermSize).flatten ∧
        (phaseSignals a true sigs ok).1.pushed = a.pushed) ∧
    (∀ (st : St ε σ) (to : Option Nat) (env : PollEnv),
        ∃ inj, handed (poll d st to env).log ++ flat (poll d st to env).st.wq = flat st.wq ++ inj) ∧
    (∀ (st : St ε σ), flat (framesDrop st).wq = st.wq.asSlice ++ (if st.sizeEsc then getTermSize else [])) ∧
    (∀ (a : Acc ε σ) (es : List ε) (e : ε), a.st.sizeEsc = true → e ∈ es → d.isSize e = true →
        resizesIn a.pushed + 1 ≤ resizesIn (pushDecoded d a es).pushed) := by
  refine ⟨?_, ?_, poll_cons d, ?_, fun a es e hm he hs => pushDecoded_size d es a hm e he hs⟩
  · intro dl it first a wk tr tw hsel hwr hsize hm hnt
    unfold step
    generalize delayOf dl it.now first = dly
    cases dly with
    | brk => exact Or.inl rfl
    | wait delay =>
      right
      dsimp only
      rw [hsel]
      dsimp only
      have e0 : (a.sys (.select delay (!a.st.wq.isEmpty))).pushed = a.pushed ∧
          (a.sys (.select delay (!a.st.wq.isEmpty))).st.sizeEsc = false := ⟨rfl, hm⟩
      generalize (a.sys (.select delay (!a.st.wq.isEmpty))) = a0 at e0 ⊢
      unfold body
      obtain ⟨w1, w2, w3, -⟩ := phaseWrite_ok a0 (tw && !a.st.wq.isEmpty) it.wr hwr
      generalize phaseWrite a0 (tw && !a.st.wq.isEmpty) it.wr = r1 at w1 w2 w3 ⊢
      obtain ⟨a1, o1⟩ := r1
      simp only at w1 w2 w3
      subst w1
      simp only
      have hs := signalLoop_winch_ioctl it.sigs (a1.sys .sigPending) (by simp [Acc.sys, w3, e0.2]) hnt
      have hps : phaseSignals a1 true it.sigs it.sizeOk = signalLoop (a1.sys .sigPending) true it.sigs := by
        simp [phaseSignals, hsize]
      rw [hps]
      generalize signalLoop (a1.sys .sigPending) true it.sigs = r2 at hs ⊢
      obtain ⟨a2, o2⟩ := r2
      obtain ⟨s1, s2, -, -⟩ := hs
      simp only at s1 s2
      subst s1
      simp only
      have hcount : resizesIn a2.pushed = resizesIn a.pushed + winches it.sigs := by
        rw [s2]
        simp [Acc.sys, w2, e0.1, resizesIn, List.countP_append, List.countP_replicate, isResize]
      have h3 := trk_resizes_mono (trk_phaseWaker d a2 wk it.wk)
      generalize phaseWaker a2 wk it.wk = r3 at h3 ⊢
      obtain ⟨a3, o3⟩ := r3
      cases o3 with
      | some e => simp only [sacc] at *; omega
      | none =>
        simp only
        have h4 := trk_resizes_mono (trk_phaseInput d a3 tr it.inp)
        generalize phaseInput d a3 tr it.inp = r4 at h4 ⊢
        obtain ⟨a4, o4⟩ := r4
        cases o4 <;> (simp only [sacc] at *; omega)
  · intro a sigs ok hm hnt
    simp only [phaseSignals, ↓reduceIte]
    have := signalLoop_winch_escape sigs (a.sys .sigPending) (by simpa [Acc.sys] using hm) hnt ok
    simpa [Acc.sys] using this
  · intro st
    unfold framesDrop
    by_cases h : st.sizeEsc = true
    · simp [h, flat_write, flat_clearButLast]
    · simp [h, flat_clearButLast]

/-- SIGWINCH while 5 bytes of output are pending and the tty accepts only 2 of them: `Resize` is queued in that
iteration and returned at the deadline, 3 bytes still pending -/
example :
    let r := poll simpleDec ⟨⟨[[1, 2, 3, 4, 5]]⟩, [], [], false⟩ (some 10)
      ⟨0, [⟨1, .ready false true false true, .n 2, [.winch], true, .again, .again⟩, ⟨11, .fail, .again, [], true, .again, .again⟩]⟩
    r.res = .ok (some .resize) ∧ flat r.st.wq = [3, 4, 5] := by decide

/-- escape-sequence size: the query is queued behind the pending output; `frames_drop` re-queues it; the size
report in the input yields `Resize` followed by the report event -/
example :
    let st : St SEv (List Nat) := ⟨⟨[[1, 2], [3]]⟩, [], [], true⟩
    flat (framesDrop st).wq = [1, 2] ++ getTermSize ∧
    (poll simpleDec ⟨WQ.new, [], [], true⟩ none
      ⟨0, [⟨0, .ready false false true false, .again, [], true, .again,
        .bytes [27, 91, 56, 59, 53, 48, 59, 49, 51, 50, 116, 27, 91, 52, 59, 49, 59, 49, 116]⟩]⟩).pushed = [.resize, .input .size] := by
  decide

/-! ## C17_position -/

/-- not one of the two reports `position` consumes itself -/
def notSync (d : Dec ε σ) (e : Ev ε) : Bool := !isSync d e

theorem positionLoop_inv (d : Dec ε σ) (E : List (Ev ε)) (envs : List PollEnv) (st : St ε σ)
    (aside pushed taken : List (Ev ε))
    (h1 : E ++ pushed = taken ++ st.evq) (h2 : aside = taken.filter (notSync d)) :
    let r := positionLoop d envs st aside pushed taken
    ∃ rem, E ++ r.pushed = r.taken ++ rem ∧
      (r.res ≠ .blocked → r.st.evq = r.taken.filter (notSync d) ++ rem) := by
  induction envs generalizing st aside pushed taken with
  | nil => exact ⟨st.evq, h1, fun h => by simp [positionLoop] at h⟩
  | cons env rest ih =>
    have hf := poll_fifo d st none env
    have hns := poll_none_some d st env
    simp only [positionLoop]
    generalize hp : poll d st none env = r at hf hns
    have base : ∀ x, r.res = x → E ++ (pushed ++ r.pushed) = taken ++ (delivered x ++ r.st.evq) := by
      intro x hx
      rw [← List.append_assoc, h1, List.append_assoc, hf, hx]
    cases hres : r.res with
    | blocked => exact ⟨r.st.evq, by simpa [delivered] using base _ hres, fun h => by simp at h⟩
    | err e => exact ⟨r.st.evq, by simpa [delivered] using base _ hres, fun _ => by simp [h2]⟩
    | ok o =>
      cases o with
      | none => exact absurd hres hns
      | some e =>
        have b := base _ hres
        simp only [delivered] at b
        cases e with
        | input x =>
          simp only
          by_cases hda : d.isDA x = true
          · simp only [hda, ↓reduceIte]
            refine ⟨r.st.evq, by simpa using b, fun _ => ?_⟩
            have : notSync d (.input x) = false := by simp [notSync, isSync, hda]
            simp [h2, List.filter_append, this]
          · simp only [hda, Bool.false_eq_true, ↓reduceIte]
            by_cases hc : d.isCpr x = true
            · simp only [hc, ↓reduceIte]
              refine ih r.st aside (pushed ++ r.pushed) (taken ++ [.input x]) (by simpa using b) ?_
              have : notSync d (.input x) = false := by simp [notSync, isSync, hc]
              simp [h2, List.filter_append, this]
            · simp only [hc, Bool.false_eq_true, ↓reduceIte]
              refine ih r.st (aside ++ [.input x]) (pushed ++ r.pushed) (taken ++ [.input x]) (by simpa using b) ?_
              have : notSync d (.input x) = true := by simp [notSync, isSync, hda, hc]
              simp [h2, List.filter_append, this]
        | wake =>
          refine ih r.st (aside ++ [.wake]) (pushed ++ r.pushed) (taken ++ [.wake]) (by simpa using b) ?_
          simp [h2, List.filter_append, notSync, isSync]
        | resize =>
          refine ih r.st (aside ++ [.resize]) (pushed ++ r.pushed) (taken ++ [.resize]) (by simpa using b) ?_
          simp [h2, List.filter_append, notSync, isSync]

/-- **C17_position.** `position()` polls the terminal itself and sets every event other than the cursor-position
report and the device-attributes answer aside.  For every terminal state and every sequence of environment answers
to its inner polls, whenever it returns — with the position, or with an error of an inner poll (e.g. `Err(Quit)`) —
the event queue afterwards is: the events queued before and during the call, in their original (arrival) order,
minus only the sync reports `position` took itself (`taken.filter notSync ++ rem` where `taken ++ rem` is the
original order and `taken` are the events its polls handed out).  No wake-up, key or resize is lost or overtaken by
a later one, whatever arrives in the same read as the answer.  (The inner polls have no time-out; such a poll never
returns `Ok(None)`: `poll_none_some`.) -/
theorem C17_position (d : Dec ε σ) (st : St ε σ) (envs : List PollEnv) :
    let r := position d st envs
    ∃ rem, st.evq ++ r.pushed = r.taken ++ rem ∧
      (r.res ≠ .blocked → r.st.evq = r.taken.filter (notSync d) ++ rem) ∧
      (∀ st' env, (poll d st' none env).res ≠ .ok none) := by
  obtain ⟨rem, h1, h2⟩ := positionLoop_inv d st.evq envs
    { st with wq := (st.wq.write cursorGet).write deviceAttrs } [] [] [] (by simp) (by simp)
  exact ⟨rem, h1, h2, fun st' env => poll_none_some d st' env⟩

/-- key `a` is read before the answer and set aside; the answer arrives in one read together with key `b`:
afterwards the queue holds `a`, then `b` (it used to be `b`, `a`) -/
example :
    (position simpleDec ⟨WQ.new, [], [], false⟩
      [⟨0, [⟨0, .ready false false false true, .n 99, [], true, .again, .again⟩,
            ⟨0, .ready false false true true, .n 0, [], true, .again, .bytes [97]⟩]⟩,
       ⟨0, [⟨0, .ready false false true false, .again, [], true, .again,
              .bytes [27, 91, 53, 59, 55, 82, 27, 91, 63, 54, 50, 59, 52, 99, 98]⟩]⟩,
       ⟨0, []⟩]).st.evq = [.input (.key 97), .input (.key 98)] := by decide

/-! ## C17_bounded_partial -/

/-- **C17_bounded_partial.** The bookkeeping part (proved, for every environment):

1. the delay handed to `select` never reaches past the deadline fixed at the entry of `poll`
   (`now + delay = deadline`), and is `0` once the deadline has passed (only possible in the first loop);
2. once an iteration has been completed (`first_loop = false`), an iteration that finds the deadline passed
   leaves the loop at once, without any system call;
3. hence, after the first iteration that starts late, at most that one iteration performs system calls: with two
   consecutive late clock readings (`select` not interrupted) the loop has exited, consuming no further answers;
4. with no time-out (`None`) the loop never breaks on time; it returns `Ok` only in a state with all output
   written and an event available, and returns at once (no system call) when entered in such a state.

NOT proved — hypotheses about the environment: `select` returns within its delay; `write`, `read`, `ioctl` on
non-blocking descriptors return promptly; the clock is monotone; an interrupted `select` (EINTR) happens at most
once per signal; with `None` and pending output the peer eventually drains the tty and an event eventually
arrives (`C17_bounded_full` below is the statement that would need them). -/
theorem C17_bounded_partial (d : Dec ε σ) :
    (∀ dl now first dly, delayOf (some dl) now first = .wait (some dly) →
        (now ≤ dl ∧ now + dly = dl) ∨ (dl < now ∧ dly = 0 ∧ first = true)) ∧
    (∀ dl (it : Iter) (a : Acc ε σ), dl < it.now → step d (some dl) it false a = .stop a .ok) ∧
    (∀ dl (it1 it2 : Iter) (rest : List Iter) (first : Bool) (a : Acc ε σ),
        dl < it1.now → dl < it2.now → it1.sel ≠ .retry →
        let r := loop d (some dl) (it1 :: it2 :: rest) first a
        r.exit ≠ .blocked ∧ rest.length ≤ r.rest.length ∧ selects r.acc.log ≤ selects a.log + 1) ∧
    (∀ now first, delayOf none now first = .wait none) ∧
    (∀ (its : List Iter) (first : Bool) (a : Acc ε σ),
        (loop d none its first a).exit = .ok → goOn (loop d none its first a).acc.st = false) ∧
    (∀ dl (its : List Iter) (first : Bool) (a : Acc ε σ), goOn a.st = false → loop d dl its first a = ⟨a, .ok, its⟩) := by
  have hlate : ∀ dl (it : Iter) (a : Acc ε σ), dl < it.now → step d (some dl) it false a = .stop a .ok := by
    intro dl it a h
    simp [step, delayOf, h]
  have hstop : ∀ dl (its : List Iter) (first : Bool) (a : Acc ε σ), goOn a.st = false →
      loop d dl its first a = ⟨a, .ok, its⟩ := by
    intro dl its first a h
    cases its <;> simp [loop, h]
  refine ⟨?_, hlate, ?_, fun _ _ => rfl, ?_, hstop⟩
  · intro dl now first dly h
    unfold delayOf at h
    simp only at h
    split at h
    · split at h
      · cases h; rename_i h1 h2; exact Or.inr ⟨h1, rfl, h2⟩
      · cases h
    · cases h; rename_i h1; exact Or.inl ⟨by omega, by omega⟩
  · intro dl it1 it2 rest first a h1 h2 hne
    -- the second late iteration leaves at once
    have hsecond : ∀ a' : Acc ε σ, (loop d (some dl) (it2 :: rest) false a').exit ≠ .blocked ∧
        rest.length ≤ (loop d (some dl) (it2 :: rest) false a').rest.length ∧
        (loop d (some dl) (it2 :: rest) false a').acc.log = a'.log := by
      intro a'
      unfold loop
      split
      · rw [hlate dl it2 a' h2]; exact ⟨by simp, by simp, rfl⟩
      · exact ⟨by simp, by simp, rfl⟩
    show (loop d (some dl) (it1 :: it2 :: rest) first a).exit ≠ .blocked ∧
      rest.length ≤ (loop d (some dl) (it1 :: it2 :: rest) first a).rest.length ∧
      selects (loop d (some dl) (it1 :: it2 :: rest) first a).acc.log ≤ selects a.log + 1
    unfold loop
    split
    · -- first late iteration: select with delay 0 (first loop) or break
      have hstep : (∃ a', step d (some dl) it1 first a = .stop a' .ok ∧ selects a'.log ≤ selects a.log + 1) ∨
          (∃ a' e, step d (some dl) it1 first a = .stop a' (.err e) ∧ selects a'.log ≤ selects a.log + 1) ∨
          (∃ a', step d (some dl) it1 first a = .next false a' ∧ selects a'.log ≤ selects a.log + 1) := by
        unfold step
        simp only [delayOf, h1, ↓reduceIte]
        cases first with
        | false => exact Or.inl ⟨a, by simp, by omega⟩
        | true =>
          simp only [↓reduceIte]
          generalize hs : it1.sel = sel at hne
          have hsel0 : selects (a.sys (.select (some 0) (!a.st.wq.isEmpty))).log = selects a.log + 1 := by
            simp [selects, isSelect, Acc.sys, List.countP_append]
          cases sel with
          | retry => exact absurd rfl hne
          | fail => exact Or.inr (Or.inl ⟨_, _, rfl, by omega⟩)
          | ready wk sg tr tw =>
            dsimp only
            -- the body performs no `select`
            have hb := body_no_select d (a.sys (.select (some 0) (!a.st.wq.isEmpty))) it1 wk sg tr (tw && !a.st.wq.isEmpty)
            generalize body d (a.sys (.select (some 0) (!a.st.wq.isEmpty))) it1 wk sg tr (tw && !a.st.wq.isEmpty) = rb at hb ⊢
            obtain ⟨a1, o⟩ := rb
            simp only at hb
            cases o with
            | some e => exact Or.inr (Or.inl ⟨_, _, rfl, by omega⟩)
            | none => exact Or.inr (Or.inr ⟨_, rfl, by omega⟩)
      rcases hstep with ⟨a', e, hs⟩ | ⟨a', e', e, hs⟩ | ⟨a', e, hs⟩
      · rw [e]; exact ⟨by simp, by simp, hs⟩
      · rw [e]; exact ⟨by simp, by simp, hs⟩
      · rw [e]
        obtain ⟨x1, x2, x3⟩ := hsecond a'
        exact ⟨x1, x2, by rw [x3]; exact hs⟩
    · exact ⟨by simp, by simp only [List.length_cons]; omega, Nat.le_succ _⟩
  · intro its
    induction its with
    | nil =>
      intro first a h
      unfold loop at h ⊢
      split at h
      · cases h
      · rename_i hg; simp only [hg]; simpa using hg
    | cons it rest ih =>
      intro first a h
      unfold loop at h ⊢
      split
      · rename_i hg
        simp only [hg, ↓reduceIte] at h
        have hnb : ∀ a', step d none it first a ≠ .stop a' .ok := by
          intro a'
          unfold step
          simp only [delayOf]
          generalize it.sel = sel
          cases sel with
          | retry => simp
          | fail => simp
          | ready wk sg tr tw =>
            dsimp only
            generalize body d _ it wk sg tr _ = rb
            obtain ⟨a1, o⟩ := rb
            cases o <;> simp
        generalize hst : step d none it first a = sr at h hnb ⊢
        cases sr with
        | next f a' => exact ih f a' h
        | stop a' ex =>
          simp only at h
          subst h
          exact absurd rfl (hnb a')
      · rename_i hg; simpa using hg

/-- the full statement (wall-clock), in model terms: if `select` returns within its delay plus `cost`, the rest of
an iteration takes at most `cost` (so consecutive clock readings differ by at most the delay handed to `select`
plus `cost`), and `select` is not interrupted, then every clock reading the loop ever takes is at most
`2 * cost` past the deadline.  It is NOT proved: its premises are environment hypotheses (kernel timing), and
real time is not part of the model beyond the clock readings. -/
def C17_bounded_full : Prop :=
  ∀ (ε σ : Type) (d : Dec ε σ) (timeout start cost : Nat) (its : List Iter) (first : Bool) (a : Acc ε σ),
    (∀ it ∈ its, it.sel ≠ .retry) →
    (∀ it, its.head? = some it → it.now ≤ start + cost) →
    (∀ i (x y : Iter), its[i]? = some x → its[i + 1]? = some y → y.now ≤ max x.now (start + timeout) + cost) →
    ∀ it ∈ its.take (its.length - (loop d (some (start + timeout)) its first a).rest.length),
      it.now ≤ start + timeout + 2 * cost

/-- time-out 5 at time 0; the first answer comes at time 3 (delay 2, nothing ready), the second clock reading is
7 > 5: the loop breaks without a second `select` -/
example :
    let r := poll simpleDec ⟨WQ.new, [], [], false⟩ (some 5)
      ⟨0, [⟨3, .ready false false false false, .again, [], true, .again, .again⟩, ⟨7, .fail, .again, [], true, .again, .again⟩,
           ⟨8, .fail, .again, [], true, .again, .again⟩]⟩
    r.res = .ok none ∧ r.log = [.select (some 2) false] ∧ r.rest.length = 1 := by decide

end SurfProofs.C17
