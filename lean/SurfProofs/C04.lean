import SurfProofs.Lemmas.ProtoStream
import SurfProofs.Lemmas.ProtoResolve
/-!
# C04 — every well-formed terminal report or key sequence decodes to what it encodes

Specification side (`SurfModel/Protocol.lean`, `SurfModel/NamingTable.lean`): `Msg` = one thing a terminal can
legitimately send with every transmitted parameter and every freedom of spelling explicit, `print : Msg → List Nat`
its bytes according to the protocol documents, `denote : Msg → Event` the event those bytes denote (key and
button names by the library's fixed naming table), `Msg.Valid` the parameter ranges (every number fits a machine
word — in particular coordinates 1..65535, every modifier mask, every button code; 4/8/12/16-bit colour
channels; every Unicode scalar value; text without ESC).

Model side: `SurfModel/Grammar.lean` (the production grammars, tied to the code by dump equality and exhaustive
bisimulation), `SurfModel/Payload.lean` (the `Matcher::decode` bodies, tied by correspondence on the token
bytes), `SurfModel/Tokenizer.lean` (C03), `SurfModel/Stream.lean` (their composition).
-/
namespace SurfProofs.C04
open SurfModel SurfModel.Tokenizer SurfModel.Grammar SurfModel.Payload SurfModel.Protocol SurfModel.Automata
open SurfModel.Stream SurfModel.StreamCheck SurfProofs.ProtoStream SurfProofs.ProtoKeyTable SurfProofs.ProtoKeys
open SurfProofs.ProtoBytes SurfProofs.ProtoResolve

/-! ## every message is a word of the grammar of its family -/

/-- **Membership.** For every valid message (all families, all parameter values) the printed bytes are matched by
    the production grammar of the family of the message. -/
theorem C04_member (m : Msg) (h : m.Valid) : (grammar m.family).Matches (bytes (print m)) := by
  cases m with
  | key i => exact key_member i h
  | text c => exact ProtoText.text_member c h
  | mouse code x y press => exact ProtoNumeric.mouse_member code x y press
  | cursor r c => exact ProtoNumeric.cursor_member r c
  | size a b c d => exact ProtoNumeric.size_member a b c d
  | decMode mode status => exact ProtoNumeric.decMode_member mode status
  | deviceAttrs attrs trailing => exact ProtoNumeric.deviceAttrs_member attrs trailing h.1
  | color name spec fin => exact ProtoColor.color_member name spec fin h
  | faceReport items => exact ProtoSgr.faceReport_member items h
  | termcapOk entries upper => exact ProtoTermcap.termcapOk_member entries upper h
  | termcapFail names upper => exact ProtoTermcap.termcapFail_member names upper h
  | keyboardLevel flags => exact ProtoNumeric.keyboardLevel_member flags
  | csiU code alts mods => exact ProtoNumeric.csiU_member code alts mods
  | kittyImage id number placement error => exact ProtoTermcap.kittyImage_member id number placement error h
  | paste t => exact ProtoText.paste_member t h
  | sgr items => exact ProtoSgr.sgr_member items h

example : (Msg.mouse 68 65535 1 true).Valid := by simp [Msg.Valid, Vt.usizeMax]
example : (Msg.color (.palette 255) (.rgb ⟨4, 65535⟩ ⟨2, 128⟩ ⟨1, 15⟩ true) .bel).Valid := by
  simp [Msg.Valid, ColorSpec.Valid, Channel.Valid, Vt.usizeMax]

/-! ## the payload decoder returns the denoted event -/

/-- the tag of a parsed family selects the decoder of that family -/
theorem decodeTok_family (k : Family) (d : List Nat) : decodeTok k.tag d = decode k d := by
  unfold decodeTok
  have h1 : ¬ k.tag < matcherBase := by have := family_tag_ge k; omega
  simp [h1, family_tag_index]

/-- **Payload, parsed families.** For every valid message of a parsed family and ALL parameter values in the
    ranges of `Msg.Valid`, the model of the family's `Matcher::decode` applied to the printed bytes returns —
    without panic, without falling back to `Raw` — exactly the denoted event: the transmitted coordinates,
    modifiers, numbers, colours and text. -/
theorem C04_payload_family (m : Msg) (h : m.Valid) (hk : m.family ≠ .keys) :
    decode m.family (print m) = .ok (some (denote m)) := by
  cases m with
  | key i => exact absurd rfl hk
  | text c => exact ProtoText.text_payload c h
  | mouse code x y press => exact ProtoNumeric.mouse_payload code x y press h
  | cursor r c => exact ProtoNumeric.cursor_payload r c h
  | size a b c d => exact ProtoNumeric.size_payload a b c d h
  | decMode mode status => exact ProtoNumeric.decMode_payload mode status
  | deviceAttrs attrs trailing => exact ProtoNumeric.deviceAttrs_payload attrs trailing h
  | color name spec fin => exact ProtoColor.color_payload name spec fin h
  | faceReport items => exact ProtoSgr.faceReport_payload items h
  | termcapOk entries upper => exact ProtoTermcap.termcapOk_payload entries upper h
  | termcapFail names upper => exact ProtoTermcap.termcapFail_payload names upper h
  | keyboardLevel flags => exact ProtoNumeric.keyboardLevel_payload flags h
  | csiU code alts mods => exact ProtoNumeric.csiU_payload code alts mods h
  | kittyImage id number placement error => exact ProtoTermcap.kittyImage_payload id number placement error h
  | paste t => exact ProtoText.paste_payload t h
  | sgr items => exact ProtoSgr.sgr_payload items h

/-- **Payload.** What the decoder makes of the printed bytes under the tag of the message (`Item(key)` for a
    literal key, `Matcher(index)` of the family otherwise) is the denoted event, for every valid message. -/
theorem C04_payload (m : Msg) (h : m.Valid) : decodeTok m.tag (print m) = .ok (some (denote m)) := by
  by_cases hk : m.family = .keys
  · cases m with
    | key i => exact key_payload i h
    | _ => simp [Msg.family] at hk
  · have htag : m.tag = m.family.tag := by cases m <;> first | rfl | (simp [Msg.family] at hk)
    rw [htag, decodeTok_family]
    exact C04_payload_family m h hk

/-! ## the naming table -/

/-- **Naming table.** Every spelling of every key of the library's naming table (written from the protocol side)
    is an entry of the key table regenerated from the implementation with exactly that key, and conversely;
    the implementation's table is functional (equal bytes, equal key). -/
theorem C04_naming_table :
    (∀ p ∈ protoKeys, keyLookup p.1 = some p.2.code) ∧
    (∀ e ∈ Generated.keyTable, ∃ p ∈ protoKeys, p.1 = e.1 ∧ p.2.code = keyCode3 e.2.1 e.2.2.1 e.2.2.2) ∧
    (∀ e ∈ Generated.keyTable, keyLookup e.1 = some (keyCode3 e.2.1 e.2.2.1 e.2.2.2)) := by
  refine ⟨?_, ?_, ?_⟩
  · intro p hp
    simpa using List.all_eq_true.mp protoKeys_lookup p hp
  · intro e he
    have := List.all_eq_true.mp keyTable_in_proto e he
    obtain ⟨p, hp, h⟩ := List.any_eq_true.mp this
    simp only [Bool.and_eq_true, beq_iff_eq] at h
    exact ⟨p, hp, h.1, h.2⟩
  · intro e he
    simpa using List.all_eq_true.mp keyTable_functional e he

/-- **Keys and reports do not collide.** No literal key is spelled like a valid message of a parsed family, except
    `CSI 1 ; n R` with `n = 2..8` (F3 with modifiers, also a cursor position report): the documented
    ambiguity, resolved in favour of the key by the order of the tags. -/
theorem C04_no_collision (m : Msg) (h : m.Valid) (hk : m.family ≠ .keys) (hna : ¬ m.Ambiguous)
    (e : List Nat × Nat × Nat × Nat) (he : e ∈ Generated.keyTable) : bytes (print m) ≠ bytes e.1 :=
  no_key_of_parsed m h hk hna (C04_member m h) e he

example : (Msg.cursor 1 5).Ambiguous := by simp [Msg.Ambiguous]
example : ¬ (Msg.cursor 2 5).Ambiguous := by simp [Msg.Ambiguous]

/-! ## streams -/

/-- **Tag and completeness of one message.** An automaton that realises the combined production grammar and is
    self-delimiting accepts every valid unambiguous message in a terminal state, and the tag the decoder picks
    there is the tag of the message. (For literal keys terminality is a hypothesis: the six ESC-prefixed keys
    that are prefixes of longer sequences do not have it.) -/
theorem C04_tag {σ : Type} (A : TAuto σ) (hR : Realises A) (H : SelfDelimiting A) (m : Msg) (hv : m.Valid)
    (hna : ¬ m.Ambiguous) (hterm : m.family = .keys → Terminated A m) :
    ∃ q, runA A.toAuto A.start (bytes (print m)) = some q ∧ A.accepting q = true ∧ A.terminal q = true ∧
      A.leastTag q = some m.tag :=
  msg_state A hR H Msg.Valid (fun m h => C04_member m h) m hv hv hna hterm

/-- **Streams.** Let `A` be an automaton whose terminal states have no outgoing edge, that realises the combined
    production grammar (same live words, accepting flags and tag sets as the DFA compiled from `eventRe`) and
    is self-delimiting. Then for every list of valid, unambiguous messages (literal keys among them ending in a
    terminal state) and every continuation `rest`, the composed model of `TTYEventDecoder` (C03 tokenizer, tag
    selection, payload decoders) applied to the concatenation of their printed bytes followed by `rest` yields
    exactly their denoted events, in order, followed by what it yields on `rest` alone: no panic, nothing merged
    with or corrupted by a neighbour. -/
theorem C04_stream {σ : Type} (A : TAuto σ) (hT : A.toAuto.TermOk) (hR : Realises A) (H : SelfDelimiting A)
    (ms : List Msg) (hms : ∀ m ∈ ms, m.Valid ∧ ¬ m.Ambiguous ∧ (m.family = .keys → Terminated A m))
    (rest : List UInt8) :
    decodeEvents A (bytes (ms.flatMap print) ++ rest) =
      match decodeEvents A rest with
      | .ok evs => .ok (ms.map denote ++ evs)
      | .error e => .error e :=
  stream A hT hR H Msg.Valid (fun m h => C04_member m h) (fun m h => C04_payload m h) ms
    (fun m hm => ⟨(hms m hm).1, (hms m hm).1, (hms m hm).2.1, (hms m hm).2.2⟩) rest

/-! ### the model automaton satisfies all hypotheses but `SelfDelimiting` -/

/-- the DFA compiled from the combined grammar, as a tagged automaton -/
def modelAuto : TAuto DState :=
  { start := eventDFA.start, step := eventDFA.transition, accepting := eventDFA.isAccepting,
    terminal := eventDFA.isTerminal, tags := eventDFA.tags }

theorem modelAuto_run (S : DState) (w : List UInt8) :
    runA modelAuto.toAuto S w = eventDFA.transitionMany S w := by
  induction w generalizing S with
  | nil => rfl
  | cons b r ih =>
    simp only [runA, DFA.transitionMany, modelAuto]
    cases eventDFA.transition S b with
    | none => rfl
    | some S' => simpa [modelAuto] using ih S'

theorem modelAuto_realises : Realises modelAuto := by
  intro w
  rw [modelAuto_run]
  simp only [DFA.run, modelAuto]

theorem modelAuto_termOk : modelAuto.toAuto.TermOk := by
  intro S h b
  exact (SurfProofs.C15.C15_terminal_iff eventRe.toNFA S).mp h b

/-- the stream theorem for the model DFA: only `SelfDelimiting` remains to be checked -/
theorem C04_stream_model (H : SelfDelimiting modelAuto) (ms : List Msg)
    (hms : ∀ m ∈ ms, m.Valid ∧ ¬ m.Ambiguous ∧ (m.family = .keys → Terminated modelAuto m)) (rest : List UInt8) :
    decodeEvents modelAuto (bytes (ms.flatMap print) ++ rest) =
      match decodeEvents modelAuto rest with
      | .ok evs => .ok (ms.map denote ++ evs)
      | .error e => .error e :=
  C04_stream modelAuto modelAuto_termOk modelAuto_realises H ms hms rest

/-! ### discharging the hypotheses on a dumped table -/

open Wire in
/-- **The finite check is sound.** If the driver's checker accepts the rows of a dumped DFA, the automaton of
    the table is self-delimiting and its terminal states have no outgoing edge. (That the table realises the
    combined grammar is the exhaustive bisimulation `gram bisim` of the same run.) -/
theorem C04_table_check (rows : Array Row) (h : sdCheck rows = true) :
    SelfDelimiting (rowsAuto rows) ∧ (rowsAuto rows).toAuto.TermOk := by
  have hall := List.all_eq_true.mp h
  have hrow : ∀ (s : Nat) (r : Row), rows[s]? = some r → rowOk r = true := by
    intro s r hs
    apply hall
    rw [Array.getElem?_eq_some_iff] at hs
    obtain ⟨hlt, rfl⟩ := hs
    exact Array.getElem_mem_toList hlt
  constructor
  · intro w q _ hacc t ht hge
    simp only [rowsAuto] at hacc ht ⊢
    cases hq : rows[q]? with
    | none => simp [hq] at hacc
    | some r =>
      simp only [hq] at hacc ht ⊢
      have hok := hrow q r hq
      unfold rowOk at hok
      simp only [TAuto.leastTag, hq] at ht
      cases htags : r.tags with
      | nil => rw [htags] at ht; simp at ht
      | cons t0 rest =>
        rw [htags] at ht
        simp only [List.head?_cons, Option.some.injEq] at ht
        subst ht
        simp only [hacc, Bool.not_true, Bool.false_or, htags, Bool.and_eq_true, Bool.or_eq_true,
          decide_eq_true_eq] at hok
        rcases hok.1 with hlt | ⟨he, hterm⟩
        · omega
        · have : rest = [] := by simpa using he
          exact ⟨by rw [this], hterm⟩
  · intro s hterm b
    simp only [rowsAuto] at hterm ⊢
    cases hq : rows[s]? with
    | none => simp [hq] at hterm
    | some r =>
      simp only [hq] at hterm ⊢
      have hok := hrow s r hq
      unfold rowOk at hok
      simp only [hterm, Bool.not_true, Bool.false_or, Bool.and_eq_true] at hok
      have hb := List.all_eq_true.mp hok.2 b.toNat (by simp [List.mem_range]; exact b.toNat_lt)
      cases hn : (r.next[b.toNat]?).getD none with
      | none => rfl
      | some x => rw [hn] at hb; simp at hb

/-! ### the exception set of literal keys, and everything discharged by the per-run checks -/

open Wire in
/-- **Exactly six.** If the driver's checks pass on a dumped table, every spelling of the naming table other than
    the six prefix keys of the specification (`ESC`, `ESC [`, `ESC ]`, `ESC _`, `ESC O`, `ESC P`: esc, alt+[, alt+],
    alt+_, shift+alt+o, shift+alt+p) ends in a terminal state; the six end in accepting non-terminal states; and
    every accepting non-terminal state of the table is the state of one of the six. -/
theorem C04_prefix_keys_exact (rows : Array Row) (h1 : keysTermCheck rows = true) (h2 : prefixExactCheck rows = true) :
    (∀ i, i < protoKeys.length → print (.key i) ∉ prefixKeys → Terminated (rowsAuto rows) (.key i)) ∧
    (∀ i, i < protoKeys.length → print (.key i) ∈ prefixKeys →
      ∀ q, runA (rowsAuto rows).toAuto (rowsAuto rows).start (bytes (print (.key i))) = some q →
        (rowsAuto rows).accepting q = true ∧ (rowsAuto rows).terminal q = false) ∧
    (∀ s, s < rows.size → (rowsAuto rows).accepting s = true → (rowsAuto rows).terminal s = false →
      ∃ w ∈ prefixKeys, runRows rows w = some s) :=
  ⟨fun i hi => (keysTermCheck_sound rows h1 i hi).1, fun i hi => (keysTermCheck_sound rows h1 i hi).2,
   fun s hs => prefixExact_sound rows h2 s hs⟩

open Wire in
/-- **Streams, with every hypothesis on the automaton discharged by the per-run checks.** For a dumped table that
    passes the driver's three checks (`sd`: `sdCheck`, `keysTermCheck`) and realises the combined grammar (the
    exhaustive bisimulation `gram bisim` of the same run), every list of valid messages other than the two
    documented ambiguities — cursor reports `CSI 1 ; n R` with n = 2..8 and the six prefix keys — decodes to its
    events, whatever follows. -/
theorem C04_stream_checked (rows : Array Row) (hsd : sdCheck rows = true) (hk : keysTermCheck rows = true)
    (hR : Realises (rowsAuto rows)) (ms : List Msg)
    (hms : ∀ m ∈ ms, m.Valid ∧ ¬ m.Ambiguous ∧ print m ∉ prefixKeys) (rest : List UInt8) :
    decodeEvents (rowsAuto rows) (bytes (ms.flatMap print) ++ rest) =
      match decodeEvents (rowsAuto rows) rest with
      | .ok evs => .ok (ms.map denote ++ evs)
      | .error e => .error e := by
  obtain ⟨hS, hT⟩ := C04_table_check rows hsd
  refine C04_stream (rowsAuto rows) hT hR hS ms ?_ rest
  intro m hm
  obtain ⟨hv, hna, hnp⟩ := hms m hm
  refine ⟨hv, hna, fun hfam => ?_⟩
  cases m with
  | key i => exact (keysTermCheck_sound rows hk i hv).1 hnp
  | _ => simp [Msg.family] at hfam

/-- the same for the DFA compiled from the combined grammar, given a table that passes the checks and is
    observationally equal to it (accepting, terminal, tags: what `gram bisim` compares) -/
theorem C04_stream_model_checked (rows : Array Wire.Row) (hsd : sdCheck rows = true) (hk : keysTermCheck rows = true)
    (hB : Bisim (rowsAuto rows) modelAuto) (ms : List Msg)
    (hms : ∀ m ∈ ms, m.Valid ∧ ¬ m.Ambiguous ∧ print m ∉ prefixKeys) (rest : List UInt8) :
    decodeEvents modelAuto (bytes (ms.flatMap print) ++ rest) =
      match decodeEvents modelAuto rest with
      | .ok evs => .ok (ms.map denote ++ evs)
      | .error e => .error e := by
  obtain ⟨hS, _⟩ := C04_table_check rows hsd
  refine C04_stream_model (hB.selfDelimiting hS) ms ?_ rest
  intro m hm
  obtain ⟨hv, hna, hnp⟩ := hms m hm
  refine ⟨hv, hna, fun hfam => ?_⟩
  cases m with
  | key i => exact hB.terminated _ ((keysTermCheck_sound rows hk i hv).1 hnp)
  | _ => simp [Msg.family] at hfam

/-! ### the two documented ambiguities resolve in favour of the key -/

/-- **`CSI 1 ; n R`, n = 2..8, is F3 with modifiers.** The bytes of such a cursor report are a spelling of the
    naming table (entry `362 + n`), hence by `C04_stream` they decode as the key F3 with modifier mask `n - 1`. -/
theorem C04_cpr_resolution {σ : Type} (A : TAuto σ) (hT : A.toAuto.TermOk) (hR : Realises A) (H : SelfDelimiting A)
    (c : Nat) (hc : 2 ≤ c ∧ c ≤ 8) (hterm : Terminated A (.key (362 + c))) (rest : List UInt8) :
    decodeEvents A (bytes (print (.cursor 1 c)) ++ rest) =
      match decodeEvents A rest with
      | .ok evs => .ok (Event.key ⟨.f 3, c - 1⟩ :: evs)
      | .error e => .error e := by
  obtain ⟨hlt, hpr, hden, _⟩ := cpr_is_key c hc
  have := C04_stream A hT hR H [.key (362 + c)] (by
    intro m hm
    simp only [List.mem_singleton] at hm
    subst hm
    exact ⟨hlt, by simp [Msg.Ambiguous], fun _ => hterm⟩) rest
  simp only [List.flatMap_cons, List.flatMap_nil, List.append_nil, List.map_cons, List.map_nil, hpr, hden] at this
  rw [this]
  cases decodeEvents A rest <;> rfl

/-- **A key followed by input that cannot continue it is that key** — in particular each of the six prefix
    keys; followed by input that does continue it to another spelling of the naming table it is that longer key
    (`C04_stream` on the longer spelling: the bytes are the same). -/
theorem C04_prefix_key_resolution {σ : Type} (A : TAuto σ) (hT : A.toAuto.TermOk) (hR : Realises A) (i : Nat)
    (hv : (Msg.key i).Valid) (b : UInt8) (rest : List UInt8)
    (hdead : ∀ q, runA A.toAuto A.start (bytes (print (.key i))) = some q → A.step q b = none) :
    decodeEvents A (bytes (print (.key i)) ++ b :: rest) =
      match decodeEvents A (b :: rest) with
      | .ok evs => .ok (denote (.key i) :: evs)
      | .error e => .error e :=
  key_then_dead A hT hR i hv b rest hdead

set_option maxRecDepth 100000 in
/-- ESC followed by `a` is a spelling of alt+a: entries 0 (`ESC`, esc) and 3 (`ESC a`, alt+a) of the naming table -/
example : print (.key 3) = print (.key 0) ++ [97] ∧ denote (.key 3) = .key ⟨.char 97, modAlt⟩ ∧
    print (.key 0) ∈ prefixKeys ∧ print (.key 3) ∉ prefixKeys := by decide +kernel

/-! ### the tables the specification shares with the library are pinned -/

/-- the decoder's palette (tables regenerated from the implementation) is the xterm palette of the specification,
    and the 16 named colours are the literal values of the library's table -/
theorem C04_palette_pinned :
    (∀ i, i < 256 → Sgr.palette i = some (xtermPalette i)) ∧
    Generated.cube6 = [0, 95, 135, 175, 215, 255] ∧
    (∀ i, i < 16 → (Generated.colors16[i]?).map Sgr.colorOf = some (xtermPalette i)) :=
  ⟨ProtoPalette.palette_eq, ProtoPalette.cube_pinned, ProtoPalette.named_eq⟩

/-- the library's table of DEC private modes and DECRPM status values agrees with the numbers of the protocol
    documents (25 cursor, 7 autowrap, 80 sixel scrolling, 1000 / 1003 / 1006 mouse, 1049 alternate screen, 2026
    synchronized output, 2004 bracketed paste; 0..4) -/
theorem C04_dec_modes (m : PrivateMode) (s : ReportStatus) :
    DecMode.fromUsize m.number = some m.name ∧ DecModeStatus.fromUsize s.value = some s.name :=
  ⟨ProtoNumeric.decMode_fromUsize m, ProtoNumeric.decStatus_fromUsize s⟩

/-- a stream that meets the hypotheses on the messages: a report, text, a key (F5: `CSI 15 ~`, entry 155), a
    DECRPM report, `CSI m` -/
example : ∀ m ∈ [Msg.cursor 24 80, .text 0x20AC, .key 155, .decMode .bracketedPaste .set, .sgr [.empty]],
    m.Valid ∧ ¬ m.Ambiguous ∧ print m ∉ prefixKeys := by
  intro m hm
  simp only [List.mem_cons, List.not_mem_nil, or_false] at hm
  rcases hm with rfl | rfl | rfl | rfl | rfl
  · simp [Msg.Valid, Msg.Ambiguous, Vt.usizeMax, print, prefixKeys, CSI]
  · refine ⟨by simp [Msg.Valid, Scalar], by simp [Msg.Ambiguous], by decide⟩
  · exact ⟨by show 155 < protoKeys.length; rw [protoKeys_length]; omega, by simp [Msg.Ambiguous], by decide +kernel⟩
  · simp [Msg.Valid, Msg.Ambiguous, print, prefixKeys, CSI]
  · simp [Msg.Valid, Msg.Ambiguous, SgrItem.Valid, print, prefixKeys, CSI, sgrParams, joinWith, SgrItem.print]

end SurfProofs.C04
