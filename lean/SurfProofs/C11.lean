import SurfProofs.Lemmas.KittyMon
/-!
# C11 — kitty graphics output transmits exactly the image; draw and erase stay paired

Model: `SurfModel/Kitty.lean` (`draw`, `erase`, `handleEvent`, the id functions, `SurfaceIter`).
Specification: `SurfModel/KittySpec.lean` — the reference interpreter `kitty` of the graphics protocol
(APC framing, control keys, `m=` chunk reassembly, RFC 4648 payload) and the property monitor `accepts`;
the pixel content of an image is `content img` (rows top to bottom, each row left to right, RGBA).

A `KCmd.transmit … data chunks` read by `kitty` means: `chunks.length` commands were received, all but the
last carrying `m=1`, the last `m=0`; `chunks` are the payload sizes, `data` the RFC 4648 decoding of the
concatenated payload.
-/
namespace SurfProofs.C11
open SurfModel.Kitty SurfModel.KittySpec
open SurfProofs.Lemmas.KittyIter SurfProofs.Lemmas.KittyDraw SurfProofs.Lemmas.KittyMon
open SurfProofs.Lemmas.KittyEmit

/-- **C11_payload.** Drawing a non-empty image on a fresh handler writes bytes that the protocol reads as:
one transmission (`a=t`, `f=32`, no compression) of a non-zero id with `s` = width, `v` = height whose
reassembled, base64-decoded payload is exactly the image's RGBA pixels in row-major order, sent in chunks
of at most 4096 bytes that are multiples of four (`m=1` on all but the last); followed by one placement of
that id. Empty images write nothing. -/
theorem C11_payload (hash : Image → UInt64) (img : Image) (wf : WF img) (quiet : Bool) (row col : Nat) :
    let h0 := if quiet then Handler.new.quiet else Handler.new
    (img.isEmpty = true → (draw hash h0 img row col).2 = []) ∧
    (img.isEmpty = false →
      ∃ chunks : List Nat,
        kitty (draw hash h0 img row col).2
          = some [.transmit false (idOf hash img) 32 img.shape.width img.shape.height none (content img).pix chunks,
                  .put (idOf hash img) (placementId row col)]
        ∧ (∀ n ∈ chunks, n ≤ 4096 ∧ n % 4 = 0)
        ∧ (content img).pix.length = 4 * (img.shape.width * img.shape.height)
        ∧ idOf hash img ≠ 0 ∧ placementId row col ≠ 0) := by
  intro h0
  refine ⟨fun he => by rw [draw_empty hash h0 img he], fun hne => ?_⟩
  refine ⟨chunkSizes img, ?_, chunkSizes_ok img, content_length img wf, idOf_ne_zero hash img,
    placementId_ne_zero row col⟩
  have hk := (emits_draw hash h0 wf hne row col).kitty
  have hc : h0.contains (idOf hash img) = false := by
    cases quiet <;> rfl
  rw [hk]
  simp [drawCmds, hc, txCmd]

/-- **C11_row_major.** `content img` — the payload of `C11_payload` — is row-major RGBA: byte `k` of pixel
(row, col) (the buffer element at `start + row·row_stride + col·col_stride`) sits at index
`4·(row·width + col) + k`. -/
theorem C11_row_major (img : Image) (wf : WF img) (row col k : Nat) (hr : row < img.shape.height)
    (hc : col < img.shape.width) (hk : k < 4) :
    (content img).pix[4 * (row * img.shape.width + col) + k]?
      = (img.data.getD (img.shape.start + row * img.shape.rowStride + col * img.shape.colStride) default).bytes[k]? :=
  content_index img wf row col k hr hc hk

/-- the history as the monitor sees it: property-level event, bytes written for it -/
def trace (hash : Image → UInt64) (h : Handler) (evs : List Ev) : List (SEv × List UInt8) :=
  (evs.map toSpec).zip (run hash h evs)

/-- events whose images belong to `S` and whose positions lie in the domain (coordinates below 65536,
the recorded corner (65535,65535) excluded) -/
def EvOK (S : List Image) : Ev → Prop
  | .draw img row col => img ∈ S ∧ Dom row col
  | .erase img (some (row, col)) => img ∈ S ∧ Dom row col
  | .erase img none => img ∈ S
  | .resp _ _ _ => True
  | .other => True

theorem accepts_run (hash : Image → UInt64) (S : List Image) (hwf : ∀ img ∈ S, WF img)
    (hid : IdFaithful hash S) : ∀ (evs : List Ev) (h : Handler) (m : Mon), Inv hash S h m →
    (∀ ev ∈ evs, EvOK S ev) → accepts m (trace hash h evs) = true := by
  intro evs
  induction evs with
  | nil => intro _ _ _ _; rfl
  | cons ev rest ih =>
    intro h m inv hev
    have hok := hev ev (by simp)
    have hstep : ∃ m', m.step (toSpec ev) (step hash h ev).2 = some m' ∧ Inv hash S (step hash h ev).1 m' := by
      cases ev with
      | draw img row col => exact step_draw hash S hwf hid inv img hok.1 row col hok.2
      | erase img pos =>
        cases pos with
        | none => exact step_erase hash S hid inv img hok none (fun _ _ e => by cases e)
        | some rc =>
          obtain ⟨r, c⟩ := rc
          exact step_erase hash S hid inv img hok.1 (some (r, c)) (fun r' c' e => by cases e; exact hok.2)
      | resp id placement error => exact step_resp hash S hwf inv id placement error
      | other => exact step_other hash S inv
    obtain ⟨m', hs, inv'⟩ := hstep
    simp only [trace, List.map_cons, run, List.zip_cons_cons, accepts, hs]
    exact ih _ m' inv' (fun e he => hev e (by simp [he]))

/-- **C11_once.** For every history of draw / erase / terminal-response / other events on one handler —
images well formed, no two different pixel contents sharing an image id, positions in the domain — the
property monitor accepts everything the handler writes: every event's bytes are valid graphics commands;
pixel data of an id is transmitted only while the terminal does not hold it (at most once between error
responses), as plain RGBA with the declared size, in legal chunks, with non-zero id; every `a=p` refers to
an id the terminal holds — after an error response for that id only after a new transmission — and the
data held under it is exactly the drawn image's pixels; an erase is one `d=i` deletion that addresses
exactly the placements made by drawing that content at that position (all of the content's placements when
no position is given) and no other placement of the history. -/
theorem C11_once (hash : Image → UInt64) (S : List Image) (hwf : ∀ img ∈ S, WF img)
    (hid : IdFaithful hash S) (quiet : Bool) (evs : List Ev) (hev : ∀ ev ∈ evs, EvOK S ev) :
    accepts Mon.init (trace hash (if quiet then Handler.new.quiet else Handler.new) evs) = true := by
  apply accepts_run hash S hwf hid evs _ _ _ hev
  cases quiet
  · exact ⟨rfl, fun e he => (by simp [Handler.new] at he), fun p hp => (by simp [Mon.init] at hp)⟩
  · exact ⟨rfl, fun e he => (by simp [Handler.new, Handler.quiet] at he), fun p hp => (by simp [Mon.init] at hp)⟩

/-- **C11_pairing.** For every position with coordinates below 65536 except the recorded corner:
`erase img (some pos)` is one deletion `d=i` carrying the same (image id, placement id) as the placement
`draw img pos` creates, both non-zero; by the protocol's rule it deletes a placement `(id', p')` made at a
domain position iff it is that one; and the inverse used on error responses returns the position. -/
theorem C11_pairing (hash : Image → UInt64) (img : Image) (wf : WF img) (hne : img.isEmpty = false)
    (h : Handler) (row col : Nat) (hdom : Dom row col) :
    (∃ pre, kitty (draw hash h img row col).2 = some (pre ++ [.put (idOf hash img) (placementId row col)])) ∧
    kitty (erase hash img (some (row, col))) = some [.delete 105 (idOf hash img) (placementId row col)] ∧
    idOf hash img ≠ 0 ∧ placementId row col ≠ 0 ∧
    (∀ id' row' col', Dom row' col' →
      (deletes 105 (idOf hash img) (placementId row col) (id', placementId row' col') = true
        ↔ id' = idOf hash img ∧ row' = row ∧ col' = col)) ∧
    placementToPos (placementId row col) = (row, col) := by
  refine ⟨⟨_, (emits_draw hash h wf hne row col).kitty⟩, (emits_erase hash img (some (row, col))).kitty,
    idOf_ne_zero hash img, placementId_ne_zero row col, ?_, ?_⟩
  · intro id' row' col' hdom'
    have hnz := placementId_ne_zero row col
    simp only [deletes, beq_self_eq_true, Bool.true_and, Bool.and_eq_true, beq_iff_eq, Bool.or_eq_true, hnz,
      false_or]
    constructor
    · intro ⟨e1, e2⟩
      have := placementId_inj hdom hdom' e2
      exact ⟨e1.symm, this.1.symm, this.2.symm⟩
    · intro ⟨e1, e2, e3⟩
      subst e1 e2 e3
      exact ⟨rfl, rfl⟩
  · rw [placementId_dom row col hdom]
    obtain ⟨hr, hc, _⟩ := hdom
    simp only [placementToPos, KITTY_MAX_DIM, Nat.add_sub_cancel]
    ext <;> simp <;> omega

/-- placement ids are injective on the domain -/
theorem C11_placement_injective {row col row' col' : Nat} (h : Dom row col) (h' : Dom row' col')
    (e : placementId row col = placementId row' col') : row = row' ∧ col = col' :=
  placementId_inj h h' e

/-- **Known finding C11-corner**: no non-zero 32-bit id can separate all 65536² positions (pigeonhole);
with the repaired arithmetic the one colliding pair is (0,0) / (65535,65535): an erase at the corner also
addresses the placement drawn at the origin. Outside the domain of `C11_pairing`. -/
theorem C11_corner_collision : placementId 65535 65535 = placementId 0 0 ∧ placementId 0 0 = 1 := by decide

/-! ## the hypotheses are satisfiable: images the crate's constructors make are well formed -/

/-- `Shape::from(size)` over a buffer of `width * height` pixels (`Image::from(SurfaceOwned)`) -/
theorem wf_owned (data : Array RGBA) (w h : Nat) (hd : data.size = h * w) :
    WF ⟨data, ⟨0, h * w, w, h, w, 1⟩⟩ := by
  constructor
  · intro row col hr hc
    simp only [Shape.offset] at *
    rw [hd]
    have : row * w + w ≤ h * w := by
      have := Nat.mul_le_mul_right w (Nat.succ_le_of_lt hr)
      rw [Nat.succ_mul] at this; exact this
    omega
  · simp only [Image.isEmpty, ge_iff_le, decide_eq_true_eq, Nat.le_zero_eq, Nat.mul_eq_zero]
    constructor <;> (intro h'; rcases h' with h' | h' <;> simp [h'])

/-- a 2×3 gradient and its hash-free id assignment: concrete values meeting the hypotheses of
`C11_payload`, `C11_once`, `C11_pairing` -/
def exImg : Image :=
  ⟨#[⟨0, 0, 0, 200⟩, ⟨0, 1, 1, 200⟩, ⟨0, 2, 2, 200⟩, ⟨1, 0, 3, 200⟩, ⟨1, 1, 4, 200⟩, ⟨1, 2, 5, 200⟩],
   ⟨0, 6, 3, 2, 3, 1⟩⟩
def exImg2 : Image := ⟨#[⟨9, 9, 9, 9⟩], ⟨0, 1, 1, 1, 1, 1⟩⟩
def exHash (img : Image) : UInt64 := if img.shape.width = 3 then 4294967294 else 77

/-- cropped and transposed views of well-formed images are well formed (`Shape.crop` / `Shape.transpose`
are tied to `Shape::view` / `Surface::transpose` by correspondence lines of the harness) -/
example : WF ⟨exImg.data, (exImg.shape.crop 0 2 1 3).transpose⟩ :=
  wf_transpose _ _ (wf_crop _ _ (wf_owned _ 3 2 rfl) (by decide) 0 2 1 3 (by decide) (by decide) (by decide) (by decide))

example : WF exImg := wf_owned _ 3 2 rfl
example : WF exImg2 := wf_owned _ 1 1 rfl
example : exImg.isEmpty = false := by decide
example : Dom 0 0 ∧ Dom 0 65535 ∧ Dom 65535 0 ∧ Dom 65534 65535 := by unfold Dom; omega
example : IdFaithful exHash [exImg, exImg2] := by
  intro a ha b hb
  simp only [List.mem_cons, List.not_mem_nil, or_false] at ha hb
  rcases ha with rfl | rfl <;> rcases hb with rfl | rfl <;> decide

/-- the monitor is not trivially satisfied: a placement of an id that was never transmitted is rejected … -/
example : accepts Mon.init [(.draw ⟨1, 1, [1, 2, 3, 4]⟩ 0 0, putBytes 5 7 0)] = false := by decide
/-- … and so is an erase at a position that carries placement id 0 (it would delete every placement) -/
example : accepts Mon.init
    [(.erase ⟨1, 1, [1, 2, 3, 4]⟩ (some (0, 0)),
      apc [(97, [100]), (100, [105]), (105, decimal 5), (112, decimal 0)] none)] = false := by decide
example : kitty (putBytes 5 7 0) = some [.put 5 7] := by decide

end SurfProofs.C11
