import SurfProofs.Lemmas.KittyMon
import SurfProofs.Lemmas.KittyStream
import SurfProofs.Lemmas.KittyWrite
/-!
# C11 — kitty graphics output transmits exactly the image; draw and erase stay paired

Model: `SurfModel/KittyStream.lean` (`drawStreaming`, `handleEventStreaming`, `runStreaming`: the handler with
the payload streamed pixel by pixel through C14's model of `Base64Encoder`) — proved equal, and panic-free, to
the result-based `SurfModel/Kitty.lean` (`draw`, `erase`, `handleEvent`, the id functions, `SurfaceIter`,
payload = RFC 4648 text of all pixel bytes) in `C11_streaming_model`; the theorems about `draw` / `run` below
therefore hold for the streaming functions (`C11_payload_streaming`, `C11_once_streaming` state it).
Specification: `SurfModel/KittySpec.lean` — the reference interpreter `kittyWith dec` of the graphics protocol
(APC framing, control keys, `m=` chunk reassembly, payload text decoded by `dec`), `kitty` = `kittyWith` the
strict RFC 4648 decoder, and the property monitor `accepts`; the pixel content of an image is `content img`
(rows top to bottom, each row left to right, RGBA).  The strict decoder is the inverse of C14's specification
`SurfModel.Base64.rfcEncode` (`SurfProofs/Lemmas/KittyB64Link.lean`: `rfcDecode t = some d ↔ t = rfcEncode d`).

A `KCmd.transmit … data chunks` read by `kittyWith dec` means: `chunks.length` commands were received, all but
the last carrying `m=1`, the last `m=0`; `chunks` are the payload sizes, `data` what `dec` makes of the
concatenated payload (`kittyWith some`: the reassembled text itself).
-/
namespace SurfProofs.C11
open SurfModel.Kitty SurfModel.KittySpec SurfModel.KittyStream
open SurfProofs.Lemmas.KittyIter SurfProofs.Lemmas.KittyDraw SurfProofs.Lemmas.KittyMon
open SurfProofs.Lemmas.KittyEmit SurfProofs.Lemmas.KittyStream

/-- **C11_payload.** Drawing a non-empty image on a fresh handler writes bytes that the protocol reads as:
one transmission (`a=t`, `f=32`, no compression) of a non-zero id with `s` = width, `v` = height whose
reassembled, base64-decoded payload is exactly the image's RGBA pixels in row-major order, sent in chunks
of at most 4096 bytes that are multiples of four (`m=1` on all but the last); followed by one placement of
that id. Empty images write nothing. -/
theorem C11_payload (hash : Image → UInt64) (img : Image) (wf : WF img) (quiet : Bool) (row col : Nat) :
    let h0 := if quiet then Handler.new.quiet else Handler.new
    (img.isEmpty = true → (draw hash h0 img row col).2 = []) ∧
    (img.isEmpty = false →
      ∃ chunks : List Nat,
        kitty (draw hash h0 img row col).2
          = some [.transmit false (idOf hash img) 32 img.shape.width img.shape.height none (content img).pix chunks,
                  .put (idOf hash img) (placementId row col)]
        ∧ (∀ n ∈ chunks, n ≤ 4096 ∧ n % 4 = 0)
        ∧ (content img).pix.length = 4 * (img.shape.width * img.shape.height)
        ∧ idOf hash img ≠ 0 ∧ placementId row col ≠ 0) := by
  intro h0
  refine ⟨fun he => by rw [draw_empty hash h0 img he], fun hne => ?_⟩
  refine ⟨chunkSizes img, ?_, chunkSizes_ok img, content_length img wf, idOf_ne_zero hash img,
    placementId_ne_zero row col⟩
  have hk := (emits_draw hash h0 wf hne row col).kitty
  have hc : h0.contains (idOf hash img) = false := by
    cases quiet <;> rfl
  rw [hk]
  simp [drawCmds, hc, txCmd]

/-- **C11_base64_link.** The RFC 4648 pieces local to C11 (`SurfModel/KittyB64.lean`) are C14's: the alphabet
literal is the `BASE64_ENCODE` table compiled into the crate (regenerated on every run, RFC alphabet by
`C14_tables`); `rfcEncode` — the result-based payload of `SurfModel/Kitty.lean` — is C14's specification
`SurfModel.Base64.rfcEncode` on every input; and the strict decoder of the reference interpreter accepts a text
as `d` exactly when the text is C14's `rfcEncode d` (it is the inverse of the specification: canonical text
only, nothing else accepted). -/
theorem C11_base64_link :
    SurfModel.KittyB64.encTab = SurfModel.Generated.Base64Tables.encodeTable ∧
    (∀ d, SurfModel.KittyB64.rfcEncode d = SurfModel.Base64.rfcEncode d) ∧
    (∀ t d, SurfModel.KittyB64.rfcDecode t = some d ↔ t = SurfModel.Base64.rfcEncode d) :=
  ⟨SurfProofs.Lemmas.KittyB64Link.encTab_eq_encodeTable, SurfProofs.Lemmas.KittyB64Link.rfcEncode_eq,
    SurfProofs.Lemmas.KittyB64Link.rfcDecode_iff⟩

/-- **C11_streaming_model.** The handler model that streams the payload as the code does — a `Base64Encoder`
(C14's model: 3-byte carry, alphabet from the regenerated `BASE64_ENCODE`) created per transmission, one `write`
of the four RGBA bytes per pixel in `SurfaceIter` order, then `finish` — never reaches a panic (no table or
carry index out of range) and computes exactly the result-based model, for every handler state, image, event
and history; its payload computation is C14's `encodeChunks` on the per-pixel write partition. -/
theorem C11_streaming_model (hash : Image → UInt64) (h : Handler) :
    (∀ img, payloadStreaming img = SurfModel.Base64.encodeChunks (img.iter.map RGBA.bytes)) ∧
    (∀ img, payloadStreaming img = .ok (payloadOf img)) ∧
    (∀ img row col, drawStreaming hash h img row col = .ok (draw hash h img row col)) ∧
    (∀ ev, handleEventStreaming hash h ev = .ok (handleEvent hash h ev)) ∧
    (∀ evs, runStreaming hash h evs = .ok (run hash h evs)) :=
  ⟨payloadStreaming_chunks, payloadStreaming_eq, drawStreaming_eq hash h, handleEventStreaming_eq hash h,
    fun evs => runStreaming_eq hash evs h⟩

/-- the crate's streaming `Base64Decoder` (C14's model) as the payload decoder of the interpreter: the text is
read through a reader with the given schedule into destination buffers of the given sizes; it is accepted as
`d` iff the caller collects `d` and then sees a clean end of input (no error, no panic, sizes not exhausted) -/
def streamDecode (sched : List Nat) (tail : Nat) (sizes : List Nat) (text : List UInt8) : Option (List UInt8) :=
  match SurfModel.Base64.readAll (SurfModel.Base64.Dec.new ⟨text, sched, tail⟩) sizes with
  | .eof d => some d
  | _ => none

/-- **C11_payload_streaming.** `C11_payload` over the streaming model, with the base64 step verified end to end.
Drawing a non-empty image on a fresh handler — payload streamed pixel by pixel through the `Base64Encoder` model —
does not panic and writes bytes which the protocol interpreter reads as one transmission (`a=t`, `f=32`, no
compression, non-zero id, `s` = width, `v` = height) followed by one placement of that id, where

* the reassembled payload `text` (`kittyWith some`: the chunks' payloads concatenated, `chunks` their sizes, each
  at most 4096 and a multiple of four, `m=1` on all but the last) is the RFC 4648 text — C14's specification —
  of the image's RGBA pixels in row-major order;
* reading `text` through the model of the crate's own streaming `Base64Decoder`, under ANY schedule of the
  underlying reader (short reads of any sizes, `Interrupted`) and any destination buffers offering room for the
  pixels and one more non-empty read, yields exactly those pixels and then end of input — so the interpreter with
  that decoder as its base64 step reads the transmission with `data` = the pixels;
* the strict RFC 4648 decoder of the reference interpreter reads the same (`kitty`, as in `C11_payload`).

Empty images write nothing. -/
theorem C11_payload_streaming (hash : Image → UInt64) (img : Image) (wf : WF img) (quiet : Bool) (row col : Nat) :
    let h0 := if quiet then Handler.new.quiet else Handler.new
    let tx (data : List UInt8) (chunks : List Nat) : List KCmd :=
      [.transmit false (idOf hash img) 32 img.shape.width img.shape.height none data chunks,
       .put (idOf hash img) (placementId row col)]
    (img.isEmpty = true → drawStreaming hash h0 img row col = .ok (h0, [])) ∧
    (img.isEmpty = false →
      ∃ (h1 : Handler) (bytes text : List UInt8) (chunks : List Nat),
        drawStreaming hash h0 img row col = .ok (h1, bytes)
        ∧ kittyWith some bytes = some (tx text chunks)
        ∧ chunks.sum = text.length ∧ (∀ n ∈ chunks, n ≤ 4096 ∧ n % 4 = 0)
        ∧ text = SurfModel.Base64.rfcEncode (content img).pix
        ∧ (∀ (sched : List Nat) (tail : Nat) (pre post : List Nat) (s : Nat), 0 < s →
            4 * (img.shape.width * img.shape.height) ≤ pre.sum →
            SurfModel.Base64.readAll (SurfModel.Base64.Dec.new ⟨text, sched, tail⟩) (pre ++ s :: post)
              = .eof (content img).pix
            ∧ kittyWith (streamDecode sched tail (pre ++ s :: post)) bytes = some (tx (content img).pix chunks))
        ∧ kitty bytes = some (tx (content img).pix chunks)
        ∧ (content img).pix.length = 4 * (img.shape.width * img.shape.height)
        ∧ idOf hash img ≠ 0 ∧ placementId row col ≠ 0) := by
  intro h0 tx
  refine ⟨fun he => by rw [drawStreaming_eq, draw_empty hash h0 img he], fun hne => ?_⟩
  have hc : h0.contains (idOf hash img) = false := by
    cases quiet <;> rfl
  have hcmds : ∀ data, drawCmdsD hash h0 img row col data = tx data (chunkSizes img) := by
    intro data; simp [drawCmdsD, hc, txCmdD, tx]
  have htext : payloadOf img = SurfModel.Base64.rfcEncode (content img).pix := by
    rw [payloadOf, SurfProofs.Lemmas.KittyB64Link.rfcEncode_eq, iter_bytes img wf]
  have hlen := content_length img wf
  have hflat : (chunks 4096 (payloadOf img)).flatten = payloadOf img :=
    chunksGo_flatten 4096 (by decide) _ _ (Nat.le_refl _)
  refine ⟨(draw hash h0 img row col).1, (draw hash h0 img row col).2, payloadOf img, chunkSizes img,
    drawStreaming_eq hash h0 img row col, ?_, ?_, chunkSizes_ok img, htext, ?_, ?_, hlen, idOf_ne_zero hash img,
    placementId_ne_zero row col⟩
  · rw [← hcmds]
    exact (emits_draw_with (dec := some) hash h0 wf hne rfl row col).kittyWith
  · rw [chunkSizes, ← List.length_flatten, hflat]
  · intro sched tail pre post s hs hpre
    have hread : SurfModel.Base64.readAll (SurfModel.Base64.Dec.new ⟨payloadOf img, sched, tail⟩) (pre ++ s :: post)
        = .eof (content img).pix := by
      rw [htext]
      exact SurfProofs.C14.C14_decode_all _ sched tail pre post s hs (by rw [hlen]; exact hpre)
    refine ⟨hread, ?_⟩
    rw [← hcmds]
    refine (emits_draw_with (dec := streamDecode sched tail (pre ++ s :: post)) hash h0 wf hne ?_ row col).kittyWith
    simp only [streamDecode, hread]
  · rw [← hcmds]
    exact (emits_draw hash h0 wf hne row col).kitty

/-- the hypotheses of the decoding clause of `C11_payload_streaming` are satisfiable: a 1×1 image has four pixel
bytes; the caller reads them with buffers of 3 and 1 bytes and then one more byte, from a reader that is
interrupted and delivers one or two bytes per call -/
example : (0 : Nat) < 1 ∧ 4 * (1 * 1) ≤ [3, 1].sum := by decide
example : streamDecode [1, 0, 2, 0] 1 ([3, 1] ++ 1 :: []) (SurfModel.Base64.rfcEncode [9, 8, 7, 6]) = some [9, 8, 7, 6] := by
  decide +kernel

/-- **C11_row_major.** `content img` — the payload of `C11_payload` — is row-major RGBA: byte `k` of pixel
(row, col) (the buffer element at `start + row·row_stride + col·col_stride`) sits at index
`4·(row·width + col) + k`. -/
theorem C11_row_major (img : Image) (wf : WF img) (row col k : Nat) (hr : row < img.shape.height)
    (hc : col < img.shape.width) (hk : k < 4) :
    (content img).pix[4 * (row * img.shape.width + col) + k]?
      = (img.data.getD (img.shape.start + row * img.shape.rowStride + col * img.shape.colStride) default).bytes[k]? :=
  content_index img wf row col k hr hc hk

/-- the history as the monitor sees it: property-level event, bytes written for it -/
def trace (hash : Image → UInt64) (h : Handler) (evs : List Ev) : List (SEv × List UInt8) :=
  (evs.map toSpec).zip (run hash h evs)

/-- events whose images belong to `S` and whose positions lie in the domain (coordinates below 65536,
the recorded corner (65535,65535) excluded) -/
def EvOK (S : List Image) : Ev → Prop
  | .draw img row col => img ∈ S ∧ Dom row col
  | .erase img (some (row, col)) => img ∈ S ∧ Dom row col
  | .erase img none => img ∈ S
  | .resp _ _ _ => True
  | .other => True

theorem accepts_run (hash : Image → UInt64) (S : List Image) (hwf : ∀ img ∈ S, WF img)
    (hid : IdFaithful hash S) : ∀ (evs : List Ev) (h : Handler) (m : Mon), Inv hash S h m →
    (∀ ev ∈ evs, EvOK S ev) → accepts m (trace hash h evs) = true := by
  intro evs
  induction evs with
  | nil => intro _ _ _ _; rfl
  | cons ev rest ih =>
    intro h m inv hev
    have hok := hev ev (by simp)
    have hstep : ∃ m', m.step (toSpec ev) (step hash h ev).2 = some m' ∧ Inv hash S (step hash h ev).1 m' := by
      cases ev with
      | draw img row col => exact step_draw hash S hwf hid inv img hok.1 row col hok.2
      | erase img pos =>
        cases pos with
        | none => exact step_erase hash S hid inv img hok none (fun _ _ e => by cases e)
        | some rc =>
          obtain ⟨r, c⟩ := rc
          exact step_erase hash S hid inv img hok.1 (some (r, c)) (fun r' c' e => by cases e; exact hok.2)
      | resp id placement error => exact step_resp hash S hwf hid inv id placement error
      | other => exact step_other hash S inv
    obtain ⟨m', hs, inv'⟩ := hstep
    simp only [trace, List.map_cons, run, List.zip_cons_cons, accepts, hs]
    exact ih _ m' inv' (fun e he => hev e (by simp [he]))

/-- **C11_once.** For every history of draw / erase / terminal-response / other events on one handler —
images well formed, no two different pixel contents sharing an image id, positions in the domain — the
property monitor accepts everything the handler writes: every event's bytes are valid graphics commands;
pixel data is transmitted only while the terminal holds neither that id nor that pixel content under any
other id (at most once per content between error responses), as plain RGBA with the declared size, in legal
chunks, with non-zero id; every `a=p` refers to
an id the terminal holds — after an error response for that id only after a new transmission — and the
data held under it is exactly the drawn image's pixels; an erase is one `d=i` deletion that addresses
exactly the placements made by drawing that content at that position (all of the content's placements when
no position is given) and no other placement of the history — placements re-created by the re-draw that
answers an error response included: such a re-draw (for a placement id of this client) carries the same
image and placement id and moves the cursor to the position where the placement was made. -/
theorem C11_once (hash : Image → UInt64) (S : List Image) (hwf : ∀ img ∈ S, WF img)
    (hid : IdFaithful hash S) (quiet : Bool) (evs : List Ev) (hev : ∀ ev ∈ evs, EvOK S ev) :
    accepts Mon.init (trace hash (if quiet then Handler.new.quiet else Handler.new) evs) = true := by
  apply accepts_run hash S hwf hid evs _ _ _ hev
  cases quiet
  · exact ⟨rfl, fun e he => (by simp [Handler.new] at he), fun p hp => (by simp [Mon.init] at hp)⟩
  · exact ⟨rfl, fun e he => (by simp [Handler.new, Handler.quiet] at he), fun p hp => (by simp [Mon.init] at hp)⟩

/-- **C11_once_streaming.** `C11_once` for the streaming handler model: no event of the history panics, and the
monitor accepts everything written. -/
theorem C11_once_streaming (hash : Image → UInt64) (S : List Image) (hwf : ∀ img ∈ S, WF img)
    (hid : IdFaithful hash S) (quiet : Bool) (evs : List Ev) (hev : ∀ ev ∈ evs, EvOK S ev) :
    ∃ outs, runStreaming hash (if quiet then Handler.new.quiet else Handler.new) evs = .ok outs ∧
      accepts Mon.init ((evs.map toSpec).zip outs) = true :=
  ⟨_, runStreaming_eq hash evs _, C11_once hash S hwf hid quiet evs hev⟩

/-- **C11_pairing.** For every position with coordinates below 65536 except the recorded corner:
`erase img (some pos)` is one deletion `d=i` carrying the same (image id, placement id) as the placement
`draw img pos` creates, both non-zero; by the protocol's rule it deletes a placement `(id', p')` made at a
domain position iff it is that one; and the inverse used on error responses returns the position. -/
theorem C11_pairing (hash : Image → UInt64) (img : Image) (wf : WF img) (hne : img.isEmpty = false)
    (h : Handler) (row col : Nat) (hdom : Dom row col) :
    (∃ pre, kitty (draw hash h img row col).2 = some (pre ++ [.put (idOf hash img) (placementId row col)])) ∧
    kitty (erase hash img (some (row, col))) = some [.delete 105 (idOf hash img) (placementId row col)] ∧
    idOf hash img ≠ 0 ∧ placementId row col ≠ 0 ∧
    (∀ id' row' col', Dom row' col' →
      (deletes 105 (idOf hash img) (placementId row col) (id', placementId row' col') = true
        ↔ id' = idOf hash img ∧ row' = row ∧ col' = col)) ∧
    placementToPos (placementId row col) = (row, col) := by
  refine ⟨⟨_, (emits_draw hash h wf hne row col).kitty⟩, (emits_erase hash img (some (row, col))).kitty,
    idOf_ne_zero hash img, placementId_ne_zero row col, ?_, ?_⟩
  · intro id' row' col' hdom'
    have hnz := placementId_ne_zero row col
    simp only [deletes, beq_self_eq_true, Bool.true_and, Bool.and_eq_true, beq_iff_eq, Bool.or_eq_true, hnz,
      false_or]
    constructor
    · intro ⟨e1, e2⟩
      have := placementId_inj hdom hdom' e2
      exact ⟨e1.symm, this.1.symm, this.2.symm⟩
    · intro ⟨e1, e2, e3⟩
      subst e1 e2 e3
      exact ⟨rfl, rfl⟩
  · rw [placementId_dom row col hdom]
    obtain ⟨hr, hc, _⟩ := hdom
    simp only [placementToPos, KITTY_MAX_DIM, Nat.add_sub_cancel]
    ext <;> simp <;> omega

/-- **C11_redraw_target.** An error response that names one of this client's placement ids (`1 ≤ p < 2^32`)
for an image the handler holds is answered by a re-draw whose cursor command goes to the position decoded
from `p`; that position lies in the domain and encodes back to `p`, and for a placement made by drawing
at a domain position it is that position (`C11_pairing`, last clause). The monitor of `C11_once` checks this
on every such re-draw and from then on tracks the re-drawn placement for erase pairing. -/
theorem C11_redraw_target (hash : Image → UInt64) (h : Handler) (id p : Nat) (img : Image)
    (hl : h.imgs.lookup id = some img) (hown : ownPlacement p = true) :
    cursorTarget (step hash h (.resp id (some p) true)).2 = some (placementToPos p) ∧
    Dom (placementToPos p).1 (placementToPos p).2 ∧
    placementId (placementToPos p).1 (placementToPos p).2 = p := by
  obtain ⟨hdom, hrt, hb1, hb2⟩ := own_roundtrip p hown
  refine ⟨?_, hdom, hrt⟩
  simp only [step, handleEvent, if_true, hl, Option.map_some]
  rw [List.append_assoc]
  exact cursorTarget_wrapped _ _ hb1 hb2 _

/-! ## writers that fail

`draw`, `erase`, `handle` return at the first write error (`?`). `SurfModel/KittyWrite.lean` is the handler
model over a writer that accepts `b` more bytes and then fails. -/

open SurfModel.KittyWrite SurfProofs.Lemmas.KittyWrite in
/-- **C11_write_failure.** Drawing a non-empty image into a writer that accepts only `b` bytes: exactly the
first `b` bytes of what a working writer would get are written; the call succeeds iff everything fitted;
and the handler records the image as transmitted iff it already held it or the complete transmission is
among the bytes written — then those bytes begin with a byte string the protocol reads as the whole
transmission of the image (so a later draw that only places it refers to an image the terminal has);
otherwise the handler's state is unchanged, and a later draw transmits again. -/
theorem C11_write_failure (hash : Image → UInt64) (h : Handler) (img : Image) (wf : WF img)
    (hne : img.isEmpty = false) (row col b : Nat) :
    let full := (draw hash h img row col).2
    let tx := txBytes hash h img
    let r := drawW hash h img row col (Writer.new (some b))
    r.2.1.out = full.take b ∧ (r.2.2 = true ↔ full.length ≤ b) ∧
    (h.contains (idOf hash img) = true ∨ b < tx.length → r.1 = h) ∧
    (h.contains (idOf hash img) = false → tx.length ≤ b →
      r.1 = (draw hash h img row col).1 ∧ kitty tx = some [txCmd (idOf hash img) img] ∧
      r.2.1.out = tx ++ (putBytes (idOf hash img) (placementId row col) (h.suppress.getD 0)).take (b - tx.length)) := by
  intro full tx r
  have hb : full = tx ++ putBytes (idOf hash img) (placementId row col) (h.suppress.getD 0) :=
    draw_bytes hash h img hne row col
  have heq := drawW_eq hash h img hne row col (Writer.new (some b))
  have hfull := writeAll_new b full
  have htx := writeAll_new b tx
  have hlen : tx.length ≤ full.length := by rw [hb]; simp
  by_cases hc : h.contains (idOf hash img) = true
  · have hr : r = (h, ((Writer.new (some b)).writeAll full).1, ((Writer.new (some b)).writeAll full).2) := by
      simp only [r, heq, hc, if_true, full]
    refine ⟨by rw [hr]; exact hfull.1, by rw [hr]; exact hfull.2, fun _ => by rw [hr], fun hc' => ?_⟩
    rw [hc] at hc'; cases hc'
  · have hc' : h.contains (idOf hash img) = false := by simpa using hc
    by_cases hfit : tx.length ≤ b
    · have hok : ((Writer.new (some b)).writeAll tx).2 = true := htx.2.mpr hfit
      have hr : r = ((draw hash h img row col).1, ((Writer.new (some b)).writeAll full).1,
          ((Writer.new (some b)).writeAll full).2) := by
        simp only [r, heq, hc', Bool.false_eq_true, if_false, tx] at hok ⊢
        simp only [hok, if_true, full]
      refine ⟨by rw [hr]; exact hfull.1, by rw [hr]; exact hfull.2, fun hh => ?_, fun _ _ => ⟨by rw [hr], ?_, ?_⟩⟩
      · rcases hh with hh | hh
        · rw [hc'] at hh; cases hh
        · omega
      · have : tx = emitChunks (idOf hash img) img.shape.height img.shape.width (h.suppress.getD 0)
            (chunks 4096 (payloadOf img)).length 0 (chunks 4096 (payloadOf img)) := by simp [tx, txBytes, hc']
        rw [this]; exact (emits_tx wf hne _ _).kitty
      · rw [hr]; simp only []; rw [hfull.1, hb, List.take_append]
        congr 1
        exact List.take_of_length_le hfit
    · have hnok : ((Writer.new (some b)).writeAll tx).2 = false := by
        cases hx : ((Writer.new (some b)).writeAll tx).2
        · rfl
        · exact absurd (htx.2.mp hx) hfit
      have hr : r = (h, ((Writer.new (some b)).writeAll tx).1, false) := by
        simp only [r, heq, hc', Bool.false_eq_true, if_false, tx] at hnok ⊢
        simp only [hnok, Bool.false_eq_true, if_false]
      have hlt : b < tx.length := by omega
      refine ⟨?_, ?_, fun _ => by rw [hr], fun _ hh => absurd hh hfit⟩
      · rw [hr]; simp only []; rw [htx.1, hb, List.take_append_of_le_length (by omega)]
      · rw [hr]; simp only []
        constructor
        · intro hh; cases hh
        · intro hh; omega

open SurfModel.KittyWrite SurfProofs.Lemmas.KittyWrite in
/-- **C11_write_failure_handle.** `handle` on an error response into any writer: the entry of the image is
removed in any case; it is recorded again only if the bytes written contain the complete transmission of
the stored image. -/
theorem C11_write_failure_handle (hash : Image → UInt64) (h : Handler) (id : Nat) (placement : Option Nat)
    (wr : Writer) :
    let r := handleEventW hash h (.kittyImage id placement true) wr
    r.1.imgs = h.imgs.filter (fun e => e.1 != id) ∨
    ∃ img pre rest, h.imgs.lookup id = some img ∧
      r.1.imgs = (idOf hash img, img) :: h.imgs.filter (fun e => e.1 != id) ∧
      r.2.1.out = wr.out ++ pre ++ txBytes hash ⟨h.imgs.filter (fun e => e.1 != id), some 2⟩ img ++ rest :=
  handleEventW_records hash h id placement wr

open SurfModel.KittyWrite SurfProofs.Lemmas.KittyWrite in
/-- **C11_working_writer.** With working writers the model over writers is the model of `C11_once`. -/
theorem C11_working_writer (hash : Image → UInt64) (h : Handler) (ev : Ev) :
    (stepW hash h ev none).1 = (step hash h ev).1 ∧ (stepW hash h ev none).2.1 = (step hash h ev).2 ∧
    (stepW hash h ev none).2.2 ≠ none :=
  stepW_unbounded hash h ev

/-- **C11_ids_in_range.** Image and placement ids fit the protocol's 32-bit id range and are never 0. -/
theorem C11_ids_in_range (hash : Image → UInt64) (img : Image) (row col : Nat) :
    1 ≤ idOf hash img ∧ idOf hash img ≤ 4294967295 ∧ 1 ≤ placementId row col ∧ placementId row col ≤ 4294967295 := by
  unfold idOf imageId placementId KITTY_MAX_ID
  omega

/-- **C11_quiet_keeps_record.** Switching a handler to quiet at any point of a history keeps its record of
transmitted images, hence the invariant behind `C11_once` (every later event is judged as if no switch
had happened; only the `q=` flag of later commands differs). -/
theorem C11_quiet_keeps_record (hash : Image → UInt64) (S : List Image) (h : Handler) (m : Mon) :
    h.quiet.imgs = h.imgs ∧ (∀ id, h.quiet.contains id = h.contains id) ∧
    (Inv hash S h m → Inv hash S h.quiet m) :=
  ⟨rfl, fun _ => rfl, fun inv => ⟨inv.live, inv.imgs, inv.placed⟩⟩

/-- placement ids are injective on the domain -/
theorem C11_placement_injective {row col row' col' : Nat} (h : Dom row col) (h' : Dom row' col')
    (e : placementId row col = placementId row' col') : row = row' ∧ col = col' :=
  placementId_inj h h' e

/-- **Known finding C11-corner**: no non-zero 32-bit id can separate all 65536² positions (pigeonhole);
with the repaired arithmetic the one colliding pair is (0,0) / (65535,65535): an erase at the corner also
addresses the placement drawn at the origin. Outside the domain of `C11_pairing`. -/
theorem C11_corner_collision : placementId 65535 65535 = placementId 0 0 ∧ placementId 0 0 = 1 := by decide

/-! ## the hypotheses are satisfiable: images the crate's constructors make are well formed -/

/-- `Shape::from(size)` over a buffer of `width * height` pixels (`Image::from(SurfaceOwned)`) -/
theorem wf_owned (data : Array RGBA) (w h : Nat) (hd : data.size = h * w) :
    WF ⟨data, ⟨0, h * w, w, h, w, 1⟩⟩ := by
  constructor
  · intro row col hr hc
    simp only [Shape.offset] at *
    rw [hd]
    have : row * w + w ≤ h * w := by
      have := Nat.mul_le_mul_right w (Nat.succ_le_of_lt hr)
      rw [Nat.succ_mul] at this; exact this
    omega
  · simp only [Image.isEmpty, ge_iff_le, decide_eq_true_eq, Nat.le_zero_eq, Nat.mul_eq_zero]
    constructor <;> (intro h'; rcases h' with h' | h' <;> simp [h'])

/-- a 2×3 gradient and its hash-free id assignment: concrete values meeting the hypotheses of
`C11_payload`, `C11_once`, `C11_pairing` -/
def exImg : Image :=
  ⟨#[⟨0, 0, 0, 200⟩, ⟨0, 1, 1, 200⟩, ⟨0, 2, 2, 200⟩, ⟨1, 0, 3, 200⟩, ⟨1, 1, 4, 200⟩, ⟨1, 2, 5, 200⟩],
   ⟨0, 6, 3, 2, 3, 1⟩⟩
def exImg2 : Image := ⟨#[⟨9, 9, 9, 9⟩], ⟨0, 1, 1, 1, 1, 1⟩⟩
def exHash (img : Image) : UInt64 := if img.shape.width = 3 then 4294967294 else 77

/-- cropped and transposed views of well-formed images are well formed (`Shape.crop` / `Shape.transpose`
are tied to `Shape::view` / `Surface::transpose` by correspondence lines of the harness) -/
example : WF ⟨exImg.data, (exImg.shape.crop 0 2 1 3).transpose⟩ :=
  wf_transpose _ _ (wf_crop _ _ (wf_owned _ 3 2 rfl) (by decide) 0 2 1 3 (by decide) (by decide) (by decide) (by decide))

example : WF exImg := wf_owned _ 3 2 rfl
example : WF exImg2 := wf_owned _ 1 1 rfl
example : exImg.isEmpty = false := by decide
example : Dom 0 0 ∧ Dom 0 65535 ∧ Dom 65535 0 ∧ Dom 65534 65535 := by unfold Dom; omega
example : IdFaithful exHash [exImg, exImg2] := by
  intro a ha b hb
  simp only [List.mem_cons, List.not_mem_nil, or_false] at ha hb
  rcases ha with rfl | rfl <;> rcases hb with rfl | rfl <;> decide

/-- a history meeting `EvOK` that contains error responses (own placement, foreign placement, none) -/
example : ∀ ev ∈ [Ev.draw exImg 2 5, .resp 4294967295 (some 327683) true, .draw exImg2 0 0,
    .resp 78 (some 4294967296) true, .resp 78 none true, .erase exImg (some (2, 5)), .erase exImg2 none, .other],
    EvOK [exImg, exImg2] ev := by
  intro ev hev
  simp only [List.mem_cons, List.not_mem_nil, or_false] at hev
  rcases hev with rfl | rfl | rfl | rfl | rfl | rfl | rfl | rfl <;> simp [EvOK, Dom]

/-- the monitor rejects a second transmission of pixel data the terminal still holds — under the same id … -/
example : accepts Mon.init
    [(.draw (content exImg2) 0 0, (draw exHash Handler.new exImg2 0 0).2),
     (.draw (content exImg2) 1 1, (draw exHash Handler.new exImg2 1 1).2)] = false := by decide
/-- … and under another id (transmit-once is by content) -/
example : accepts Mon.init
    [(.draw (content exImg2) 0 0, (draw exHash Handler.new exImg2 0 0).2),
     (.draw (content exImg2) 1 1, (draw (fun _ => 5) Handler.new exImg2 1 1).2)] = false := by decide
/-- while the handler's own second draw is accepted -/
example : accepts Mon.init (trace exHash Handler.new [.draw exImg2 0 0, .draw exImg2 1 1]) = true := by decide

/-- writers that fail, on the 1×1 example: cut inside the transmission nothing is recorded and the next
draw transmits again; cut inside the placement the image is recorded and the next draw only places it -/
example : (SurfModel.KittyWrite.drawW exHash Handler.new exImg2 0 0 (.new (some 10))).1.imgs = [] := by decide
example : ((SurfModel.KittyWrite.drawW exHash Handler.new exImg2 0 0 (.new (some 60))).1.imgs.map (·.1)) = [78] ∧
    (SurfModel.KittyWrite.drawW exHash Handler.new exImg2 0 0 (.new (some 60))).2.2 = false := by decide

/-- the monitor is not trivially satisfied: a placement of an id that was never transmitted is rejected … -/
example : accepts Mon.init [(.draw ⟨1, 1, [1, 2, 3, 4]⟩ 0 0, putBytes 5 7 0)] = false := by decide
/-- … and so is an erase at a position that carries placement id 0 (it would delete every placement) -/
example : accepts Mon.init
    [(.erase ⟨1, 1, [1, 2, 3, 4]⟩ (some (0, 0)),
      apc [(97, [100]), (100, [105]), (105, decimal 5), (112, decimal 0)] none)] = false := by decide
example : kitty (putBytes 5 7 0) = some [.put 5 7] := by decide

end SurfProofs.C11
