import SurfModel.Slice
import SurfProofs.Lemmas.SliceChecked
/-!
# C08 — range arguments resolve with Python slice semantics

Everything is proved for every axis length and every bound value in `Int` (the ten Rust integer types are
sub-ranges of it) on the `Int` model `Slice.viewBounds`; `C08_checked` transfers it to the checked
machine-integer model `Slice.viewBoundsC` (every `i128` / `usize` operation checked, `as usize` exact) for
all bounds a type of up to 64 bits can hold and every `size < 2^64`.
-/
namespace SurfProofs.C08
open SurfModel.Slice SurfProofs.Lemmas.SliceChecked

theorem emod_small {x n : Int} (h0 : 0 ≤ x) (h1 : x < n) : x % n = x := Int.emod_eq_of_lt h0 h1

theorem emod_shift {x n : Int} (h0 : n ≤ x) (h1 : x < 2 * n) : x % n = x - n := by
  have h : x = (x - n) + n := by omega
  rw [h, Int.add_emod_right]
  have := emod_small (x := x - n) (n := n) (by omega) (by omega)
  omega

/-- the source's normalisation of one bound -/
def normBound (x off n : Int) : Int := clampI (x + n) 0 (2 * n - 1) % n + off

theorem norm_lt (x off n : Int) (hn : 0 < n) (h : x + n < 0) : normBound x off n = off := by
  unfold normBound clampI; simp [h]
theorem norm_ge (x off n : Int) (hn : 0 < n) (h : x ≥ n) : normBound x off n = n - 1 + off := by
  unfold normBound clampI
  have h1 : ¬ x + n < 0 := by omega
  have h2 : x + n > 2 * n - 1 := by omega
  have := emod_shift (x := 2 * n - 1) (n := n) (by omega) (by omega)
  rw [if_neg h1, if_pos h2, this]; omega
theorem norm_neg (x off n : Int) (hn : 0 < n) (h0 : -n ≤ x) (h1 : x < 0) : normBound x off n = x + n + off := by
  unfold normBound clampI
  have e := emod_small (x := x + n) (n := n) (by omega) (by omega)
  have a : ¬ x + n < 0 := by omega
  have b : ¬ x + n > 2 * n - 1 := by omega
  simp [a, b, e]
theorem norm_pos (x off n : Int) (hn : 0 < n) (h0 : 0 ≤ x) (h1 : x < n) : normBound x off n = x + off := by
  unfold normBound clampI
  have e := emod_shift (x := x + n) (n := n) (by omega) (by omega)
  have a : ¬ x + n < 0 := by omega
  have b : ¬ x + n > 2 * n - 1 := by omega
  simp [a, b, e]

/-- start bound, inclusive: Python's clamped index -/
theorem start_incl (x n : Int) (hn : 0 < n) :
    normBound x (if x ≥ n then 1 else 0) n = pyIdx x n := by
  unfold pyIdx
  by_cases h1 : x + n < 0
  · rw [norm_lt x _ n hn h1]; have : ¬ x ≥ n := by omega
    simp [this]; omega
  · by_cases h2 : x ≥ n
    · rw [norm_ge x _ n hn h2]; simp [h2]; omega
    · by_cases h3 : x < 0
      · rw [norm_neg x _ n hn (by omega) h3]; simp [h2, h3]; omega
      · rw [norm_pos x _ n hn (by omega) (by omega)]; simp [h2, h3]; omega

/-- end bound, exclusive -/
theorem end_excl (x n : Int) (hn : 0 < n) :
    normBound x (if x ≥ n then 1 else if x < -n then 0 else 0) n = pyIdx x n := by
  have : (if x ≥ n then (1:Int) else if x < -n then 0 else 0) = (if x ≥ n then 1 else 0) := by
    split <;> simp
  rw [this]; exact start_incl x n hn

/-- end bound, inclusive -/
theorem end_incl (x n : Int) (hn : 0 < n) :
    normBound x (if x ≥ n then 1 else if x < -n then 0 else 1) n = pyEndIncl x n := by
  unfold pyEndIncl
  by_cases h1 : x + n < 0
  · rw [norm_lt x _ n hn h1]; have : ¬ x ≥ n := by omega
    have h' : x < -n := by omega
    simp [this, h']
  · by_cases h2 : x ≥ n
    · rw [norm_ge x _ n hn h2]; simp [h2]
    · have h' : ¬ x < -n := by omega
      by_cases h3 : x < 0
      · rw [norm_neg x _ n hn (by omega) h3]; simp [h2, h3, h']
      · rw [norm_pos x _ n hn (by omega) (by omega)]; simp [h2, h3, h']

theorem pyIdx_range (x n : Int) (hn : 0 ≤ n) : 0 ≤ pyIdx x n ∧ pyIdx x n ≤ n := by
  unfold pyIdx; split <;> omega
theorem pyEndIncl_range (x n : Int) (hn : 0 ≤ n) : 0 ≤ pyEndIncl x n ∧ pyEndIncl x n ≤ n := by
  unfold pyEndIncl; split <;> (try split) <;> (try split) <;> omega

/-- `range_bounds` in terms of the two normalised bounds (for `n > 0`) -/
theorem rangeBounds_eq (lo hi : Bnd) (n : Nat) (hn : 0 < n) :
    rangeBounds lo hi n =
      (let s : Int × Int := match lo with | .unbounded => (0,0) | .included s => (s,0) | .excluded s => (s,1)
       let e : Int × Int := match hi with | .unbounded => (-1,1) | .included e => (e,1) | .excluded e => (e,0)
       let st := normBound s.1 (if s.1 ≥ n then 1 else s.2) n
       let en := normBound e.1 (if e.1 ≥ n then 1 else if e.1 < -(n:Int) then 0 else e.2) n
       if en ≤ st then none else some (st.toNat, en.toNat)) := by
  have h0 : ((n : Int) == 0) = false := by simp; omega
  unfold rangeBounds normBound
  simp only [h0]
  cases lo <;> cases hi <;> simp

/-- **C08, main theorem.** For every selector form, every bound value and every axis length the
code's answer is the Python/NumPy slice. -/
theorem C08_slice (sel : Sel) (n : Nat) : viewBounds sel n = pySlice sel n := by
  rcases Nat.eq_zero_or_pos n with h0 | hn
  · subst h0
    have z1 : ∀ x : Int, pyIdx x 0 = 0 := by intro x; unfold pyIdx; split <;> omega
    have z2 : ∀ x : Int, pyEndIncl x 0 = 0 := by intro x; unfold pyEndIncl; split <;> (try split) <;> omega
    cases sel with
    | idxS i =>
      have a : (i < 0 ∨ 0 ≤ i) := by omega
      have b : ¬ (0 ≤ i ∧ i < 0) := by omega
      simp [viewBounds, pySlice, pySel, indexSigned, a, b]
    | idxU i =>
      have a : ¬ ((i:Int) < 0) := by omega
      simp [viewBounds, pySlice, pySel, indexUnsigned, a]
    | _ => simp [viewBounds, pySlice, pySel, rangeBounds, z1, z2]
  · have hn' : (0 : Int) < n := by omega
    have s0 : normBound 0 (if (0:Int) ≥ n then 1 else 0) n = 0 := by
      rw [start_incl 0 n hn']; unfold pyIdx; simp; omega
    have eU : normBound (-1) (if (-1:Int) ≥ n then 1 else if (-1:Int) < -(n:Int) then 0 else 1) n = n := by
      rw [end_incl (-1) n hn']; unfold pyEndIncl
      have a : ¬ (-1:Int) ≥ n := by omega
      have b : ¬ (-1:Int) < -(n:Int) := by omega
      simp [a, b]; omega
    cases sel with
    | idxS i =>
      simp only [viewBounds, indexSigned, pySlice, pySel]
      by_cases h : -(n:Int) ≤ i ∧ i < n
      · have h1 : ¬ (i < -(n:Int)) := by omega
        have h2 : ¬ (i ≥ (n:Int)) := by omega
        simp [h, h1, h2]
        split <;> omega
      · have : (i < -(n:Int) ∨ i ≥ (n:Int)) := by omega
        simp [h]
    | idxU i =>
      simp only [viewBounds, indexUnsigned, pySlice, pySel]
      by_cases h : i < n
      · have : ¬ i ≥ n := by omega
        have h' : (i : Int) < n := by omega
        simp [this, h']; omega
      · have : i ≥ n := by omega
        have h' : ¬ (i : Int) < n := by omega
        simp [this, h']
    | range a b =>
      simp only [viewBounds, rangeBounds_eq _ _ n hn, pySlice, pySel]
      rw [start_incl a n hn', end_excl b n hn']
      by_cases h : pyIdx a n < pyIdx b n
      · have : ¬ pyIdx b n ≤ pyIdx a n := by omega
        simp [h, this]
      · have : pyIdx b n ≤ pyIdx a n := by omega
        simp [h, this]
    | «from» a =>
      simp only [viewBounds, rangeBounds_eq _ _ n hn, pySlice, pySel]
      rw [start_incl a n hn', eU]
      by_cases h : pyIdx a n < n
      · have : ¬ (n:Int) ≤ pyIdx a n := by omega
        simp [h, this]
      · have : (n:Int) ≤ pyIdx a n := by omega
        simp [h, this]
    | to b =>
      simp only [viewBounds, rangeBounds_eq _ _ n hn, pySlice, pySel]
      rw [s0, end_excl b n hn']
      by_cases h : 0 < pyIdx b n
      · have : ¬ pyIdx b n ≤ 0 := by omega
        simp [h, this]
      · have : pyIdx b n ≤ 0 := by omega
        simp [h, this]
    | incl a b =>
      simp only [viewBounds, rangeBounds_eq _ _ n hn, pySlice, pySel]
      rw [start_incl a n hn', end_incl b n hn']
      by_cases h : pyIdx a n < pyEndIncl b n
      · have : ¬ pyEndIncl b n ≤ pyIdx a n := by omega
        simp [h, this]
      · have : pyEndIncl b n ≤ pyIdx a n := by omega
        simp [h, this]
    | toIncl b =>
      simp only [viewBounds, rangeBounds_eq _ _ n hn, pySlice, pySel]
      rw [s0, end_incl b n hn']
      by_cases h : 0 < pyEndIncl b n
      · have : ¬ pyEndIncl b n ≤ 0 := by omega
        simp [h, this]
      · have : pyEndIncl b n ≤ 0 := by omega
        simp [h, this]
    | full =>
      simp only [viewBounds, rangeBounds_eq _ _ n hn, pySlice, pySel]
      rw [s0, eU]
      have : ¬ (n:Int) ≤ 0 := by omega
      have h3 : n ≠ 0 := by omega
      simp [hn, h3]

/-- **C08, range.** Whatever is reported satisfies `0 ≤ start < end ≤ n`. -/
theorem C08_range (sel : Sel) (n : Nat) (s e : Nat) (h : viewBounds sel n = some (s, e)) :
    s < e ∧ e ≤ n := by
  rw [C08_slice] at h
  unfold pySlice at h
  have hn : (0:Int) ≤ n := by omega
  have key : ∀ a b : Int, pySel sel n = some (a, b) → 0 ≤ a ∧ b ≤ n := by
    intro a b hs
    cases sel <;> simp only [pySel] at hs
    case idxS i => split at hs <;> simp at hs; obtain ⟨rfl, rfl⟩ := hs; split <;> omega
    case idxU i => split at hs <;> simp at hs; obtain ⟨rfl, rfl⟩ := hs; omega
    case range a' b' => simp at hs; obtain ⟨rfl, rfl⟩ := hs; exact ⟨(pyIdx_range a' n hn).1, (pyIdx_range b' n hn).2⟩
    case «from» a' => simp at hs; obtain ⟨rfl, rfl⟩ := hs; exact ⟨(pyIdx_range a' n hn).1, by omega⟩
    case to b' => simp at hs; obtain ⟨rfl, rfl⟩ := hs; exact ⟨by omega, (pyIdx_range b' n hn).2⟩
    case incl a' b' => simp at hs; obtain ⟨rfl, rfl⟩ := hs; exact ⟨(pyIdx_range a' n hn).1, (pyEndIncl_range b' n hn).2⟩
    case toIncl b' => simp at hs; obtain ⟨rfl, rfl⟩ := hs; exact ⟨by omega, (pyEndIncl_range b' n hn).2⟩
    case full => simp at hs; obtain ⟨rfl, rfl⟩ := hs; omega
  cases hp : pySel sel n with
  | none => simp [hp] at h
  | some ab =>
    obtain ⟨a, b⟩ := ab
    have ⟨ha, hb⟩ := key a b hp
    simp [hp] at h
    obtain ⟨hlt, rfl, rfl⟩ := h
    omega

/-- **C08, type independence.** A non-negative index gives the same answer through the signed and the
unsigned implementation; the range forms do not mention the integer type at all (the model receives the
mathematical value of the bound, whatever type it was written in — the harness checks that the Rust
conversion to `i128` is value preserving for all ten types). -/
theorem C08_type_independent (i n : Nat) : viewBounds (.idxS i) n = viewBounds (.idxU i) n := by
  rw [C08_slice, C08_slice]; simp [pySlice, pySel]
  have : ¬ ((i:Int) < 0) := by omega
  by_cases h : (i:Int) < n <;> simp [h, this] <;> omega

/-- **C08, the values before `as usize`.** `range_bounds` and the signed single index compute `start`, `end`
as `i128` and convert with `as usize` at the very end. The `Int` model without that conversion
(`viewBoundsI`; `viewBounds` is its image under `toNat`) already satisfies `0 ≤ start < end ≤ n` — for ANY
bound values —, so the conversion never sees a negative number or one above the axis length. (`C08_range`
speaks about the converted naturals, where `0 ≤ start` holds trivially.) -/
theorem C08_int_range (sel : Sel) (n : Nat) :
    viewBounds sel n = (viewBoundsI sel n).map (fun p => (p.1.toNat, p.2.toNat)) ∧
    ∀ a b : Int, viewBoundsI sel n = some (a, b) → 0 ≤ a ∧ a < b ∧ b ≤ n := by
  constructor
  · cases sel with
    | idxS i =>
      simp only [viewBounds, viewBoundsI, indexSigned]
      by_cases hc : (decide (i < -(n:Int)) || decide (i ≥ (n:Int))) = true
      · simp only [hc, if_true, Option.map_none]
      · simp only [hc, if_false, Option.map_some, Bool.false_eq_true]
        simp only [Bool.or_eq_true, decide_eq_true_eq, not_or] at hc
        by_cases h0 : i < 0
        · simp only [h0, if_true, Option.some.injEq, Prod.mk.injEq, true_and]; omega
        · simp only [h0, if_false, Option.some.injEq, Prod.mk.injEq, true_and]; omega
    | idxU i =>
      simp only [viewBounds, viewBoundsI, indexUnsigned]
      by_cases hc : i ≥ n
      · simp only [hc, if_true, Option.map_none]
      · simp only [hc, if_false, Option.map_some, Option.some.injEq, Prod.mk.injEq]; omega
    | range a b => exact rangeBounds_eq_I (.included a) (.excluded b) n
    | «from» a => exact rangeBounds_eq_I (.included a) .unbounded n
    | to b => exact rangeBounds_eq_I .unbounded (.excluded b) n
    | incl a b => exact rangeBounds_eq_I (.included a) (.included b) n
    | toIncl b => exact rangeBounds_eq_I .unbounded (.included b) n
    | full => exact rangeBounds_eq_I .unbounded .unbounded n
  · intro a b h
    cases sel with
    | idxS i =>
      simp only [viewBoundsI] at h
      split at h
      · cases h
      · rename_i hc
        simp only [Bool.or_eq_true, decide_eq_true_eq, not_or] at hc
        simp only [Option.some.injEq, Prod.mk.injEq] at h
        obtain ⟨rfl, rfl⟩ := h
        split <;> omega
    | idxU i =>
      simp only [viewBoundsI] at h
      split at h
      · cases h
      · simp only [Option.some.injEq, Prod.mk.injEq] at h
        obtain ⟨rfl, rfl⟩ := h
        omega
    | range a' b' => exact rangeBoundsI_range (.included a') (.excluded b') n a b h
    | «from» a' => exact rangeBoundsI_range (.included a') .unbounded n a b h
    | to b' => exact rangeBoundsI_range .unbounded (.excluded b') n a b h
    | incl a' b' => exact rangeBoundsI_range (.included a') (.included b') n a b h
    | toIncl b' => exact rangeBoundsI_range .unbounded (.included b') n a b h
    | full => exact rangeBoundsI_range .unbounded .unbounded n a b h

/-- the same on the specification side: the integers `pySel` yields, when they denote a non-empty
selection, lie within the axis before `pySlice` converts them -/
theorem C08_spec_int_range (sel : Sel) (n : Nat) (a b : Int) (h : pySel sel n = some (a, b)) :
    0 ≤ a ∧ b ≤ n := by
  have hn : (0:Int) ≤ n := by omega
  cases sel <;> simp only [pySel] at h
  case idxS i => split at h <;> simp at h; obtain ⟨rfl, rfl⟩ := h; split <;> omega
  case idxU i => split at h <;> simp at h; obtain ⟨rfl, rfl⟩ := h; omega
  case range a' b' => simp at h; obtain ⟨rfl, rfl⟩ := h; exact ⟨(pyIdx_range a' n hn).1, (pyIdx_range b' n hn).2⟩
  case «from» a' => simp at h; obtain ⟨rfl, rfl⟩ := h; exact ⟨(pyIdx_range a' n hn).1, by omega⟩
  case to b' => simp at h; obtain ⟨rfl, rfl⟩ := h; exact ⟨by omega, (pyIdx_range b' n hn).2⟩
  case incl a' b' => simp at h; obtain ⟨rfl, rfl⟩ := h; exact ⟨(pyIdx_range a' n hn).1, (pyEndIncl_range b' n hn).2⟩
  case toIncl b' => simp at h; obtain ⟨rfl, rfl⟩ := h; exact ⟨by omega, (pyEndIncl_range b' n hn).2⟩
  case full => simp at h; obtain ⟨rfl, rfl⟩ := h; omega

/-- **C08, remainder.** Rust's `%` truncates towards zero, Lean's `%` on `Int` is Euclidean. They agree on a
non-negative dividend, and the dividend of both `%` in `range_bounds` is a value clamped to
`0 ..= 2 * size - 1`, hence non-negative (for `size > 0`; `size = 0` returns before). -/
theorem C08_rem_agree (x size : Int) (hs : 0 < size) :
    0 ≤ clampI (x + size) 0 (2 * size - 1) ∧
    Int.tmod (clampI (x + size) 0 (2 * size - 1)) size = clampI (x + size) 0 (2 * size - 1) % size := by
  have h := (clampI_range (x + size) (2 * size - 1) (by omega)).1
  exact ⟨h, rem_agree _ _ h⟩

/-- **C08, machine integers.** On the checked model of the code — every `i128` addition, subtraction,
multiplication, negation and remainder checked against the `i128` range (a violation would be the debug-profile
panic), `usize + 1` checked, `as usize` required to be exact — no fault outcome (`overflow`, `divZero`,
`castWraps`) is reachable for any selector whose bounds lie in `-2^63 ≤ x < 2^64` (the union of the ten integer
types) and any `size < 2^64`, and the result is that of the `Int` model: so `C08_slice`, `C08_range` and
`C08_int_range` hold of the machine-integer code. -/
theorem C08_checked (sel : Sel) (n : Nat) (hsel : sel.inRange) (hn : n < 2 ^ 64) :
    viewBoundsC sel n = .ok (viewBounds sel n) := by
  cases sel with
  | idxS i => exact indexSignedC_ok i n hsel hn
  | idxU i => exact indexUnsignedC_ok i n hn
  | range a b => exact rangeBoundsC_ok (.included a) (.excluded b) n hn hsel.1 hsel.2
  | «from» a => exact rangeBoundsC_ok (.included a) .unbounded n hn hsel trivial
  | to b => exact rangeBoundsC_ok .unbounded (.excluded b) n hn trivial hsel
  | incl a b => exact rangeBoundsC_ok (.included a) (.included b) n hn hsel.1 hsel.2
  | toIncl b => exact rangeBoundsC_ok .unbounded (.included b) n hn trivial hsel
  | full => exact rangeBoundsC_ok .unbounded .unbounded n hn trivial trivial

/-- … hence the checked model computes the Python slice -/
theorem C08_checked_slice (sel : Sel) (n : Nat) (hsel : sel.inRange) (hn : n < 2 ^ 64) :
    viewBoundsC sel n = .ok (pySlice sel n) := by
  rw [C08_checked sel n hsel hn, C08_slice]

theorem holds_B64 (t : IntTy) (x : Int) (h : t.holds x) : B64 x := by
  unfold IntTy.holds IntTy.lo IntTy.hi at h
  unfold B64
  cases t <;> simp only [IntTy.signed, IntTy.bits, if_true, if_false, Bool.false_eq_true] at h <;> omega

theorem selOf_inRange (t : IntTy) (f : Form) (h : ∀ x ∈ f.bounds, t.holds x) : (selOf t f).inRange := by
  cases f with
  | idx i =>
    have hb := holds_B64 t i (h i (by simp [Form.bounds]))
    show (if t.signed then Sel.idxS i else Sel.idxU i.toNat).inRange
    cases t.signed
    · unfold B64 at hb; simp only [Bool.false_eq_true, if_false, Sel.inRange]; omega
    · exact hb
  | range a b => exact ⟨holds_B64 t a (h a (by simp [Form.bounds])), holds_B64 t b (h b (by simp [Form.bounds]))⟩
  | «from» a => exact holds_B64 t a (h a (by simp [Form.bounds]))
  | to b => exact holds_B64 t b (h b (by simp [Form.bounds]))
  | incl a b => exact ⟨holds_B64 t a (h a (by simp [Form.bounds])), holds_B64 t b (h b (by simp [Form.bounds]))⟩
  | toIncl b => exact holds_B64 t b (h b (by simp [Form.bounds]))
  | full => trivial

/-- **C08, type independence, all forms.** A selector form whose bound values can be written in two integer
types `t1`, `t2` resolves identically through the impls the two types select (`selOf`: signed or unsigned
single-index impl; for the range forms the bounds are widened by the value-preserving `as i128`, so the model
receives the mathematical values and the statement holds by construction of the model — what ties it to the
code is the harness's cast check: requests carry the mathematical value of every typed bound). Both
resolutions are fault-free on the checked model and equal the Python slice of the mathematical values. -/
theorem C08_type_independent_forms (t1 t2 : IntTy) (f : Form) (n : Nat)
    (h1 : ∀ x ∈ f.bounds, t1.holds x) (h2 : ∀ x ∈ f.bounds, t2.holds x) (hn : n < 2 ^ 64) :
    viewBounds (selOf t1 f) n = viewBounds (selOf t2 f) n ∧
    viewBoundsC (selOf t1 f) n = .ok (pySlice (selOf t1 f) n) ∧
    viewBoundsC (selOf t2 f) n = .ok (pySlice (selOf t1 f) n) := by
  have key : viewBounds (selOf t1 f) n = viewBounds (selOf t2 f) n := by
    cases f with
    | idx i =>
      have hi1 := h1 i (by simp [Form.bounds])
      have hi2 := h2 i (by simp [Form.bounds])
      show viewBounds (if t1.signed then Sel.idxS i else Sel.idxU i.toNat) n =
        viewBounds (if t2.signed then Sel.idxS i else Sel.idxU i.toNat) n
      cases hs1 : t1.signed <;> cases hs2 : t2.signed <;> simp only [if_true, if_false, Bool.false_eq_true]
      · have : 0 ≤ i := by
          have := hi1.1; unfold IntTy.lo at this; simp [hs1] at this; exact this
        have e : i = ((i.toNat : Nat) : Int) := by omega
        have k := C08_type_independent i.toNat n
        rw [← e] at k
        exact k.symm
      · have : 0 ≤ i := by
          have := hi2.1; unfold IntTy.lo at this; simp [hs2] at this; exact this
        have e : i = ((i.toNat : Nat) : Int) := by omega
        have k := C08_type_independent i.toNat n
        rw [← e] at k
        exact k
    | _ => rfl
  refine ⟨key, C08_checked_slice _ n (selOf_inRange t1 f h1) hn, ?_⟩
  rw [C08_checked _ n (selOf_inRange t2 f h2) hn, ← key, C08_slice]

/-! Non-vacuity and the pinned defect as kernel-checked examples. -/
example : viewBounds (.toIncl (-11)) 10 = none := by decide
example : viewBounds (.range (-5) 8) 10 = some (5, 8) := by decide
example : viewBounds (.idxS 5) 200 = some (5, 6) := by decide
example : viewBounds (.from (2^64 - 1)) 10 = none := by decide

/-! `C08_checked` is not vacuous: a selector within range; and the checked model does fault outside the domain
(a bound beyond every 64-bit type), so the hypotheses are needed. -/
example : (Sel.incl (-(2 ^ 63)) (2 ^ 64 - 1)).inRange ∧ viewBoundsC (.incl (-(2 ^ 63)) (2 ^ 64 - 1)) (2 ^ 64 - 1) =
    .ok (some (2 ^ 63 - 1, 2 ^ 64 - 1)) := by decide +kernel
example : viewBoundsC (.from (2 ^ 127 - 1)) 10 = .error .overflow := by decide +kernel
example : IntTy.holds .i8 (-128) ∧ IntTy.holds .u64 (2 ^ 64 - 1) ∧ ¬ IntTy.holds .i8 128 := by decide

/-! ## External anchor: the crate's own `test_view_bounds` literals (src/surface.rs), on the model of the code,
on the checked model and on the specification. -/
example : viewBounds .full 10 = some (0, 10) ∧ pySlice .full 10 = some (0, 10) ∧ viewBoundsC .full 10 = .ok (some (0, 10)) := by decide
example : viewBounds (.to (-1)) 10 = some (0, 9) ∧ pySlice (.to (-1)) 10 = some (0, 9) ∧ viewBoundsC (.to (-1)) 10 = .ok (some (0, 9)) := by decide
example : viewBounds (.toIncl (-1)) 10 = some (0, 10) ∧ pySlice (.toIncl (-1)) 10 = some (0, 10) ∧ viewBoundsC (.toIncl (-1)) 10 = .ok (some (0, 10)) := by decide
example : viewBounds (.range (-5) 8) 10 = some (5, 8) ∧ pySlice (.range (-5) 8) 10 = some (5, 8) ∧ viewBoundsC (.range (-5) 8) 10 = .ok (some (5, 8)) := by decide
example : viewBounds (.from (-10)) 10 = some (0, 10) ∧ pySlice (.from (-10)) 10 = some (0, 10) ∧ viewBoundsC (.from (-10)) 10 = .ok (some (0, 10)) := by decide
example : viewBounds (.to 20) 10 = some (0, 10) ∧ pySlice (.to 20) 10 = some (0, 10) ∧ viewBoundsC (.to 20) 10 = .ok (some (0, 10)) := by decide
example : viewBounds (.range 10 20) 10 = none ∧ pySlice (.range 10 20) 10 = none ∧ viewBoundsC (.range 10 20) 10 = .ok none := by decide
example : viewBounds (.range 9 20) 10 = some (9, 10) ∧ pySlice (.range 9 20) 10 = some (9, 10) ∧ viewBoundsC (.range 9 20) 10 = .ok (some (9, 10)) := by decide
example : viewBounds (.from 10) 10 = none ∧ pySlice (.from 10) 10 = none ∧ viewBoundsC (.from 10) 10 = .ok none := by decide
example : viewBounds (.idxS 1) 10 = some (1, 2) ∧ pySlice (.idxS 1) 10 = some (1, 2) ∧ viewBoundsC (.idxS 1) 10 = .ok (some (1, 2)) := by decide
example : viewBounds (.idxS (-1)) 10 = some (9, 10) ∧ pySlice (.idxS (-1)) 10 = some (9, 10) ∧ viewBoundsC (.idxS (-1)) 10 = .ok (some (9, 10)) := by decide
example : viewBounds (.idxS (-10)) 10 = some (0, 1) ∧ pySlice (.idxS (-10)) 10 = some (0, 1) ∧ viewBoundsC (.idxS (-10)) 10 = .ok (some (0, 1)) := by decide
example : viewBounds (.idxS (-11)) 10 = none ∧ pySlice (.idxS (-11)) 10 = none ∧ viewBoundsC (.idxS (-11)) 10 = .ok none := by decide
example : viewBounds (.idxS 10) 10 = none ∧ pySlice (.idxS 10) 10 = none ∧ viewBoundsC (.idxS 10) 10 = .ok none := by decide
example : viewBounds (.idxS 10) 0 = none ∧ pySlice (.idxS 10) 0 = none ∧ viewBoundsC (.idxS 10) 0 = .ok none := by decide

end SurfProofs.C08
