import SurfModel.Slice
/-!
# C08 — range arguments resolve with Python slice semantics

Property theorems only; everything is proved for every axis length and every bound value in `Int`
(the ten Rust integer types are sub-ranges of it).
-/
namespace SurfProofs.C08
open SurfModel.Slice

theorem emod_small {x n : Int} (h0 : 0 ≤ x) (h1 : x < n) : x % n = x := Int.emod_eq_of_lt h0 h1

theorem emod_shift {x n : Int} (h0 : n ≤ x) (h1 : x < 2 * n) : x % n = x - n := by
  have h : x = (x - n) + n := by omega
  rw [h, Int.add_emod_right]
  have := emod_small (x := x - n) (n := n) (by omega) (by omega)
  omega

/-- the source's normalisation of one bound -/
def normBound (x off n : Int) : Int := clampI (x + n) 0 (2 * n - 1) % n + off

theorem norm_lt (x off n : Int) (hn : 0 < n) (h : x + n < 0) : normBound x off n = off := by
  unfold normBound clampI; simp [h]
theorem norm_ge (x off n : Int) (hn : 0 < n) (h : x ≥ n) : normBound x off n = n - 1 + off := by
  unfold normBound clampI
  have h1 : ¬ x + n < 0 := by omega
  have h2 : x + n > 2 * n - 1 := by omega
  have := emod_shift (x := 2 * n - 1) (n := n) (by omega) (by omega)
  rw [if_neg h1, if_pos h2, this]; omega
theorem norm_neg (x off n : Int) (hn : 0 < n) (h0 : -n ≤ x) (h1 : x < 0) : normBound x off n = x + n + off := by
  unfold normBound clampI
  have e := emod_small (x := x + n) (n := n) (by omega) (by omega)
  have a : ¬ x + n < 0 := by omega
  have b : ¬ x + n > 2 * n - 1 := by omega
  simp [a, b, e]
theorem norm_pos (x off n : Int) (hn : 0 < n) (h0 : 0 ≤ x) (h1 : x < n) : normBound x off n = x + off := by
  unfold normBound clampI
  have e := emod_shift (x := x + n) (n := n) (by omega) (by omega)
  have a : ¬ x + n < 0 := by omega
  have b : ¬ x + n > 2 * n - 1 := by omega
  simp [a, b, e]

/-- start bound, inclusive: Python's clamped index -/
theorem start_incl (x n : Int) (hn : 0 < n) :
    normBound x (if x ≥ n then 1 else 0) n = pyIdx x n := by
  unfold pyIdx
  by_cases h1 : x + n < 0
  · rw [norm_lt x _ n hn h1]; have : ¬ x ≥ n := by omega
    simp [this]; omega
  · by_cases h2 : x ≥ n
    · rw [norm_ge x _ n hn h2]; simp [h2]; omega
    · by_cases h3 : x < 0
      · rw [norm_neg x _ n hn (by omega) h3]; simp [h2, h3]; omega
      · rw [norm_pos x _ n hn (by omega) (by omega)]; simp [h2, h3]; omega

/-- end bound, exclusive -/
theorem end_excl (x n : Int) (hn : 0 < n) :
    normBound x (if x ≥ n then 1 else if x < -n then 0 else 0) n = pyIdx x n := by
  have : (if x ≥ n then (1:Int) else if x < -n then 0 else 0) = (if x ≥ n then 1 else 0) := by
    split <;> simp
  rw [this]; exact start_incl x n hn

/-- end bound, inclusive -/
theorem end_incl (x n : Int) (hn : 0 < n) :
    normBound x (if x ≥ n then 1 else if x < -n then 0 else 1) n = pyEndIncl x n := by
  unfold pyEndIncl
  by_cases h1 : x + n < 0
  · rw [norm_lt x _ n hn h1]; have : ¬ x ≥ n := by omega
    have h' : x < -n := by omega
    simp [this, h']
  · by_cases h2 : x ≥ n
    · rw [norm_ge x _ n hn h2]; simp [h2]
    · have h' : ¬ x < -n := by omega
      by_cases h3 : x < 0
      · rw [norm_neg x _ n hn (by omega) h3]; simp [h2, h3, h']
      · rw [norm_pos x _ n hn (by omega) (by omega)]; simp [h2, h3, h']

theorem pyIdx_range (x n : Int) (hn : 0 ≤ n) : 0 ≤ pyIdx x n ∧ pyIdx x n ≤ n := by
  unfold pyIdx; split <;> omega
theorem pyEndIncl_range (x n : Int) (hn : 0 ≤ n) : 0 ≤ pyEndIncl x n ∧ pyEndIncl x n ≤ n := by
  unfold pyEndIncl; split <;> (try split) <;> (try split) <;> omega

/-- `range_bounds` in terms of the two normalised bounds (for `n > 0`) -/
theorem rangeBounds_eq (lo hi : Bnd) (n : Nat) (hn : 0 < n) :
    rangeBounds lo hi n =
      (let s : Int × Int := match lo with | .unbounded => (0,0) | .included s => (s,0) | .excluded s => (s,1)
       let e : Int × Int := match hi with | .unbounded => (-1,1) | .included e => (e,1) | .excluded e => (e,0)
       let st := normBound s.1 (if s.1 ≥ n then 1 else s.2) n
       let en := normBound e.1 (if e.1 ≥ n then 1 else if e.1 < -(n:Int) then 0 else e.2) n
       if en ≤ st then none else some (st.toNat, en.toNat)) := by
  have h0 : ((n : Int) == 0) = false := by simp; omega
  unfold rangeBounds normBound
  simp only [h0]
  cases lo <;> cases hi <;> simp

/-- **C08, main theorem.** For every selector form, every bound value and every axis length the
code's answer is the Python/NumPy slice. -/
theorem C08_slice (sel : Sel) (n : Nat) : viewBounds sel n = pySlice sel n := by
  rcases Nat.eq_zero_or_pos n with h0 | hn
  · subst h0
    have z1 : ∀ x : Int, pyIdx x 0 = 0 := by intro x; unfold pyIdx; split <;> omega
    have z2 : ∀ x : Int, pyEndIncl x 0 = 0 := by intro x; unfold pyEndIncl; split <;> (try split) <;> omega
    cases sel with
    | idxS i =>
      have a : (i < 0 ∨ 0 ≤ i) := by omega
      have b : ¬ (0 ≤ i ∧ i < 0) := by omega
      simp [viewBounds, pySlice, pySel, indexSigned, a, b]
    | idxU i =>
      have a : ¬ ((i:Int) < 0) := by omega
      simp [viewBounds, pySlice, pySel, indexUnsigned, a]
    | _ => simp [viewBounds, pySlice, pySel, rangeBounds, z1, z2]
  · have hn' : (0 : Int) < n := by omega
    have s0 : normBound 0 (if (0:Int) ≥ n then 1 else 0) n = 0 := by
      rw [start_incl 0 n hn']; unfold pyIdx; simp; omega
    have eU : normBound (-1) (if (-1:Int) ≥ n then 1 else if (-1:Int) < -(n:Int) then 0 else 1) n = n := by
      rw [end_incl (-1) n hn']; unfold pyEndIncl
      have a : ¬ (-1:Int) ≥ n := by omega
      have b : ¬ (-1:Int) < -(n:Int) := by omega
      simp [a, b]; omega
    cases sel with
    | idxS i =>
      simp only [viewBounds, indexSigned, pySlice, pySel]
      by_cases h : -(n:Int) ≤ i ∧ i < n
      · have h1 : ¬ (i < -(n:Int)) := by omega
        have h2 : ¬ (i ≥ (n:Int)) := by omega
        simp [h, h1, h2]
        split <;> omega
      · have : (i < -(n:Int) ∨ i ≥ (n:Int)) := by omega
        simp [h]
    | idxU i =>
      simp only [viewBounds, indexUnsigned, pySlice, pySel]
      by_cases h : i < n
      · have : ¬ i ≥ n := by omega
        have h' : (i : Int) < n := by omega
        simp [this, h']; omega
      · have : i ≥ n := by omega
        have h' : ¬ (i : Int) < n := by omega
        simp [this, h']
    | range a b =>
      simp only [viewBounds, rangeBounds_eq _ _ n hn, pySlice, pySel]
      rw [start_incl a n hn', end_excl b n hn']
      by_cases h : pyIdx a n < pyIdx b n
      · have : ¬ pyIdx b n ≤ pyIdx a n := by omega
        simp [h, this]
      · have : pyIdx b n ≤ pyIdx a n := by omega
        simp [h, this]
    | «from» a =>
      simp only [viewBounds, rangeBounds_eq _ _ n hn, pySlice, pySel]
      rw [start_incl a n hn', eU]
      by_cases h : pyIdx a n < n
      · have : ¬ (n:Int) ≤ pyIdx a n := by omega
        simp [h, this]
      · have : (n:Int) ≤ pyIdx a n := by omega
        simp [h, this]
    | to b =>
      simp only [viewBounds, rangeBounds_eq _ _ n hn, pySlice, pySel]
      rw [s0, end_excl b n hn']
      by_cases h : 0 < pyIdx b n
      · have : ¬ pyIdx b n ≤ 0 := by omega
        simp [h, this]
      · have : pyIdx b n ≤ 0 := by omega
        simp [h, this]
    | incl a b =>
      simp only [viewBounds, rangeBounds_eq _ _ n hn, pySlice, pySel]
      rw [start_incl a n hn', end_incl b n hn']
      by_cases h : pyIdx a n < pyEndIncl b n
      · have : ¬ pyEndIncl b n ≤ pyIdx a n := by omega
        simp [h, this]
      · have : pyEndIncl b n ≤ pyIdx a n := by omega
        simp [h, this]
    | toIncl b =>
      simp only [viewBounds, rangeBounds_eq _ _ n hn, pySlice, pySel]
      rw [s0, end_incl b n hn']
      by_cases h : 0 < pyEndIncl b n
      · have : ¬ pyEndIncl b n ≤ 0 := by omega
        simp [h, this]
      · have : pyEndIncl b n ≤ 0 := by omega
        simp [h, this]
    | full =>
      simp only [viewBounds, rangeBounds_eq _ _ n hn, pySlice, pySel]
      rw [s0, eU]
      have : ¬ (n:Int) ≤ 0 := by omega
      have h3 : n ≠ 0 := by omega
      simp [hn, h3]

/-- **C08, range.** Whatever is reported satisfies `0 ≤ start < end ≤ n`. -/
theorem C08_range (sel : Sel) (n : Nat) (s e : Nat) (h : viewBounds sel n = some (s, e)) :
    s < e ∧ e ≤ n := by
  rw [C08_slice] at h
  unfold pySlice at h
  have hn : (0:Int) ≤ n := by omega
  have key : ∀ a b : Int, pySel sel n = some (a, b) → 0 ≤ a ∧ b ≤ n := by
    intro a b hs
    cases sel <;> simp only [pySel] at hs
    case idxS i => split at hs <;> simp at hs; obtain ⟨rfl, rfl⟩ := hs; split <;> omega
    case idxU i => split at hs <;> simp at hs; obtain ⟨rfl, rfl⟩ := hs; omega
    case range a' b' => simp at hs; obtain ⟨rfl, rfl⟩ := hs; exact ⟨(pyIdx_range a' n hn).1, (pyIdx_range b' n hn).2⟩
    case «from» a' => simp at hs; obtain ⟨rfl, rfl⟩ := hs; exact ⟨(pyIdx_range a' n hn).1, by omega⟩
    case to b' => simp at hs; obtain ⟨rfl, rfl⟩ := hs; exact ⟨by omega, (pyIdx_range b' n hn).2⟩
    case incl a' b' => simp at hs; obtain ⟨rfl, rfl⟩ := hs; exact ⟨(pyIdx_range a' n hn).1, (pyEndIncl_range b' n hn).2⟩
    case toIncl b' => simp at hs; obtain ⟨rfl, rfl⟩ := hs; exact ⟨by omega, (pyEndIncl_range b' n hn).2⟩
    case full => simp at hs; obtain ⟨rfl, rfl⟩ := hs; omega
  cases hp : pySel sel n with
  | none => simp [hp] at h
  | some ab =>
    obtain ⟨a, b⟩ := ab
    have ⟨ha, hb⟩ := key a b hp
    simp [hp] at h
    obtain ⟨hlt, rfl, rfl⟩ := h
    omega

/-- **C08, type independence.** A non-negative index gives the same answer through the signed and the
unsigned implementation; the range forms do not mention the integer type at all (the model receives the
mathematical value of the bound, whatever type it was written in — the harness checks that the Rust
conversion to `i128` is value preserving for all ten types). -/
theorem C08_type_independent (i n : Nat) : viewBounds (.idxS i) n = viewBounds (.idxU i) n := by
  rw [C08_slice, C08_slice]; simp [pySlice, pySel]
  have : ¬ ((i:Int) < 0) := by omega
  by_cases h : (i:Int) < n <;> simp [h, this] <;> omega

/-- **C08, no overflow.** With bounds taken from any of the ten integer types (`|x| ≤ 2^64`) and
`size < 2^64` every intermediate value of `range_bounds` lies within `i128`. -/
theorem C08_fits_i128 (x : Int) (n : Nat) (hx : -(2^64) ≤ x ∧ x ≤ 2^64) (hn : n < 2^64) :
    let I := fun v : Int => -(2^127) ≤ v ∧ v < 2^127
    I (x + n) ∧ I (2 * (n:Int) - 1) ∧ I (clampI (x + n) 0 (2 * n - 1)) ∧ I (-(n:Int)) ∧
      (0 < n → I (clampI (x + n) 0 (2 * n - 1) % n + 1)) := by
  intro I
  have hc : 0 ≤ clampI (x + n) 0 (2 * n - 1) ∨ n = 0 := by
    unfold clampI; split; · left; omega
    split <;> omega
  refine ⟨by simp only [I]; omega, by simp only [I]; omega, ?_, by simp only [I]; omega, ?_⟩
  · simp only [I]; unfold clampI; split; · omega
    split <;> omega
  · intro hpos
    have h1 := Int.emod_nonneg (clampI (x + n) 0 (2 * n - 1)) (b := (n:Int)) (by omega)
    have h2 := Int.emod_lt_of_pos (clampI (x + n) 0 (2 * n - 1)) (b := (n:Int)) (by omega)
    simp only [I]; omega

/-! Non-vacuity and the pinned defect as kernel-checked examples. -/
example : viewBounds (.toIncl (-11)) 10 = none := by decide
example : viewBounds (.range (-5) 8) 10 = some (5, 8) := by decide
example : viewBounds (.idxS 5) 200 = some (5, 6) := by decide
example : viewBounds (.from (2^64 - 1)) 10 = none := by decide

end SurfProofs.C08
