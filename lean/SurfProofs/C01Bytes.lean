import SurfProofs.Lemmas.ScreenVt
import SurfProofs.C01
/-!
# C01 ∘ C05 — the rendered frame, as BYTES read by the reference VT interpreter, shows the surface

`SurfProofs.C01` proves that a terminal executing the renderer's COMMANDS shows the drawn surface,
where the meaning of the four text commands (`Face`, `CursorTo`, `Char`, `EraseChars`) was given by
`Screen.exec` directly.  Here that meaning is no longer assumed: the commands are translated to the
encoder's commands (`toVt`), encoded by the model of `TTYEncoder::encode` (`Vt.encode`, tied to the
code by C05), the concatenated bytes are parsed by the reference ECMA-48 / xterm interpreter of C05
(`Vt.interp`) and the operations are executed on a byte-level terminal (`ScreenVt.execOp`: print,
one-based CUP, ECH, SGR on a full attribute state).  `C01_bytes` states C01 for that machine.
Image commands remain abstract (they act on the placements only and separate the byte strings).
-/
namespace SurfProofs.C01
open SurfModel.Screen SurfModel.Renderer SurfModel.ScreenVt
open SurfModel.Vt (Caps Depth Face Attr Op encode interp meaning applySgr faceMeaning printable usizeMax)

/-! ### every command of a frame is well inside the terminal -/

theorem pre_textOk (P : Params) (H W : Nat) (t : Tr) (f r col : Nat) (hr : r < H) (hc : col < W) :
    ∀ cmd ∈ faceCmd t f ++ curCmd t (r, col), TextOk P H W cmd := by
  intro cmd hm
  simp only [faceCmd, curCmd, List.mem_append] at hm
  rcases hm with hm | hm
  · split at hm
    · simp at hm
    · simp at hm; subst hm; trivial
  · split at hm
    · simp at hm
    · simp at hm; subst hm; exact ⟨hr, hc⟩

theorem paintRow_textOk (P : Params) (H W r : Nat) (hr : r < H) (old new : Nat → Cell) (mk : Nat → Mark)
    (col : Nat) (t : Tr) : ∀ cmd ∈ (paintRow P old new mk W r col t).1, TextOk P H W cmd := by
  fun_induction paintRow P old new mk W r col t with
  | case1 col t h hskip ih => exact ih
  | case2 col t h hskip ch hk hw ih => exact ih
  | case3 col t h hskip f pre rep hrep q hk hw ih =>
    intro cmd hm
    simp only [List.mem_append, List.mem_singleton] at hm
    rcases hm with (hm | hm) | hm
    · exact pre_textOk P H W t f r col hr h cmd hm
    · subst hm; trivial
    · exact ih cmd hm
  | case4 col t h hskip f pre rep hrep q hk hw ih =>
    intro cmd hm
    simp only [List.mem_append, List.mem_replicate] at hm
    rcases hm with (hm | hm) | hm
    · exact pre_textOk P H W t f r col hr h cmd hm
    · rw [hm.2]; exact hw
    · exact ih cmd hm
  | case5 col t h hskip ch hk hw f pre hsp q ih =>
    intro cmd hm
    simp only [List.mem_append, List.mem_singleton] at hm
    rcases hm with (hm | hm) | hm
    · exact pre_textOk P H W t f r col hr h cmd hm
    · subst hm; exact hw
    · exact ih cmd hm
  | case6 col t h hskip hk ih => exact ih
  | case7 col t h => intro cmd hm; simp at hm

theorem pass2_textOk (P : Params) (H W : Nat) (old new : Surface) (mk : Nat → Nat → Mark) :
    ∀ cmd ∈ pass2 P old new mk H W, TextOk P H W cmd := by
  rw [pass2_eq]
  have key : ∀ n, n ≤ H → ∀ cmd ∈ ((List.range n).foldl (pass2Step P old new mk W) ([], Tr.init)).1,
      TextOk P H W cmd := by
    intro n
    induction n with
    | zero => intro _ cmd hm; simp at hm
    | succ n ih =>
      intro hn cmd hm
      rw [List.range_succ, List.foldl_append] at hm
      simp only [List.foldl_cons, List.foldl_nil, pass2Step, List.mem_append] at hm
      rcases hm with hm | hm
      · exact ih (by omega) cmd hm
      · exact paintRow_textOk P H W n (by omega) _ _ _ 0 _ cmd hm
  exact key H (Nat.le_refl _)

theorem imageCmds_textOk (P : Params) (H W : Nat) (e : Nat × Nat × Nat × Nat)
    (h1 : e.1 + (P.size e.2.2.2).1 ≤ H) (h0 : e.1 < H) (h2 : e.2.1 < W) :
    ∀ cmd ∈ imageCmds P e, TextOk P H W cmd := by
  intro cmd hm
  simp only [imageCmds, List.mem_append, List.mem_singleton, List.mem_flatMap, List.mem_range,
    List.mem_cons, List.not_mem_nil, or_false] at hm
  rcases hm with (hm | ⟨k, hk, hm⟩) | hm
  · subst hm; trivial
  · rcases hm with hm | hm
    · subst hm; exact ⟨by omega, h2⟩
    · subst hm; trivial
  · rcases hm with hm | hm
    · subst hm; exact ⟨h0, h2⟩
    · subst hm; trivial

theorem frame_textOk (P : Params) (R : State) (scr : Screen) (s : Surface) (hs : WellPlaced P R.h R.w s)
    (hrel : Rel P R scr) : ∀ cmd ∈ (frame P R s).cmds, TextOk P R.h R.w cmd := by
  have G := pass1_general P R s hs hrel.backOk
  obtain ⟨_, _, w3, _, _⟩ := hs
  intro cmd hm
  have hcmds : (frame P R s).cmds = (pass1 P R s).cmds ++
      pass2 P R.back (pass1 P R s).front (pass1 P R s).marks R.h R.w ++
      (pass1 P R s).images.flatMap (imageCmds P) := rfl
  rw [hcmds] at hm
  simp only [List.mem_append, List.mem_flatMap] at hm
  rcases hm with (hm | hm) | ⟨e, he, hm⟩
  · obtain ⟨i, r, c, e, _⟩ := G.e1 cmd hm
    subst e; trivial
  · exact pass2_textOk P R.h R.w _ _ _ cmd hm
  · obtain ⟨_, hin, hras⟩ := G.i0 e he
    have himg : imgOf P (s e.1 e.2.1) = some e.2.2.2 := by
      rw [← imgOf_rasterise, hras]; rfl
    obtain ⟨_, _, z3, _⟩ := w3 e.1 e.2.1 e.2.2.2 hin.1 hin.2 himg
    exact imageCmds_textOk P R.h R.w e z3 hin.1 hin.2 cmd hm

theorem clearCmds_textOk (P : Params) (R : State) : ∀ cmd ∈ clearCmds R, TextOk P R.h R.w cmd := by
  intro cmd hm
  simp only [clearCmds, List.mem_filterMap] at hm
  obtain ⟨p, _, hp⟩ := hm
  cases hk : (R.back p.1 p.2).kind <;> simp [hk] at hp
  subst hp; trivial

theorem stepCmds_textOk (P : Params) (R : State) (scr : Screen) (hrel : Rel P R scr) (st : Step)
    (hd : ∀ s, st = Step.frame s → WellPlaced P R.h R.w s) :
    ∀ cmd ∈ (stepCmds P R st).2, TextOk P R.h R.w cmd := by
  cases st with
  | frame s => exact frame_textOk P R scr s (hd s rfl) hrel
  | skip => intro cmd hm; simp [stepCmds] at hm
  | clear => exact clearCmds_textOk P R
  | recreate => exact clearCmds_textOk P R

/-! ### histories on the byte-level terminal -/

/-- one step of a history: the terminal receives the output stream of the step — the bytes of the text
commands, concatenated, and the image commands -/
def runStepB (P : Params) (caps : Caps) (faceOf : Nat → Face) (x : State × BScreen) (st : Step) :
    Option (State × BScreen) :=
  (runChunks P.width x.2 (chunks caps faceOf (stepCmds P x.1 st).2)).map fun b => ((stepCmds P x.1 st).1, b)

def runStepsB (P : Params) (caps : Caps) (faceOf : Nat → Face) : State × BScreen → List Step → Option (State × BScreen)
  | x, [] => some x
  | x, st :: rest =>
    match runStepB P caps faceOf x st with
    | some x' => runStepsB P caps faceOf x' rest
    | none => none

/-- what an onlooker sees in a cell: an erased cell and a space printed without underline / strike /
reverse both show only a background colour -/
inductive Look where
  | glyph (cp : Nat) (a : Attr)
  | blank (bg : Option ((Nat × Nat × Nat) ⊕ Nat))
  | cont
  | orphan
deriving DecidableEq

def lookB : BCell → Look
  | .glyph cp a => if cp = 32 ∧ plainAttr a = true then .blank a.bg else .glyph cp a
  | .erased a => .blank a.bg
  | .cont => .cont
  | .orphan => .orphan

/-- the abstract cell with the face identifier replaced by its attribute state -/
def toB (aof : Nat → Attr) : SCell → BCell
  | .glyph ch f => .glyph ch (aof f)
  | .erased f => .erased (aof f)
  | .cont => .cont
  | .orphan => .orphan

/-- `P.plain` is not an assumption about faces any more: it has to be the byte-level notion -/
def PlainLink (P : Params) (aof : Nat → Attr) : Prop := ∀ f, P.plain f = plainAttr (aof f)

theorem look_of_rel (P : Params) (aof : Nat → Attr) (hl : PlainLink P aof) (b : BCell) (s : SCell)
    (h : CellRel P aof b s) : lookB b = lookB (toB aof s) := by
  cases b with
  | glyph cp a => obtain ⟨f, rfl, rfl⟩ := h; rfl
  | cont => simp only [CellRel] at h; subst h; rfl
  | orphan => simp only [CellRel] at h; subst h; rfl
  | erased a =>
    obtain ⟨f, rfl, rfl⟩ := h
    unfold blankOf
    by_cases hp : P.plain f = true
    · have : plainAttr (aof f) = true := by rw [← hl f]; exact hp
      simp [hp, toB, lookB, this]
    · simp [hp, toB, lookB]

theorem brel_steps (P : Params) (hP : ParamsOk P) (caps : Caps) (faceOf : Nat → Face)
    (hb : BytesOk P caps faceOf) (h w : Nat) (hsz : SizeOk h w) (hH : h ≤ usizeMax) (hW : w ≤ usizeMax)
    (steps : List Step) (hd : AllDom P h w steps)
    (R : State) (scr : Screen) (b : BScreen) (hR : R.h = h ∧ R.w = w) (hrel : Rel P R scr)
    (hbr : BRel P (aofOf caps faceOf) b scr) :
    ∃ b', runStepsB P caps faceOf (R, b) steps = some ((runSteps P (R, scr) steps).1, b') ∧
      BRel P (aofOf caps faceOf) b' (runSteps P (R, scr) steps).2 := by
  induction steps generalizing R scr b with
  | nil => exact ⟨b, rfl, hbr⟩
  | cons st rest ih =>
    have hd1 : ∀ s, st = Step.frame s → WellPlaced P R.h R.w s := by
      intro s e; rw [hR.1, hR.2]; exact hd s (by rw [e]; exact List.mem_cons_self)
    have hok := stepCmds_textOk P R scr hrel st hd1
    have hrun := runChunks_chunks P caps faceOf hb R.h R.w (stepCmds P R st).2 hok b
    have hsim := sim_cmds P caps faceOf hb R.h R.w (by rw [hR.1]; exact hH) (by rw [hR.2]; exact hW)
      (stepCmds P R st).2 hok b scr hbr
    obtain ⟨hrel', hh', hw'⟩ := rel_step P hP h w hsz (R, scr) ⟨hrel, hR.1, hR.2⟩ st
      (fun s e => hd s (by rw [e]; exact List.mem_cons_self))
    obtain ⟨b', e1, e2⟩ := ih (fun s hs => hd s (List.mem_cons_of_mem _ hs))
      (runStep P (R, scr) st).1 (runStep P (R, scr) st).2 _ ⟨hh', hw'⟩ hrel' hsim
    refine ⟨b', ?_, ?_⟩
    · simp only [runStepsB, runStepB, hrun, Option.map_some]
      exact e1
    · exact e2

/-- **C01 on bytes.**  Take any history as in `C01_history_partial` (frames `WellPlaced`, skipped frames,
`clear()`, re-creations; terminal `h × w`).  Let the terminal be the BYTE-LEVEL machine: for every step
it receives the renderer's output stream — the encodings (`Vt.encode caps`, the model of `TTYEncoder`) of
the text commands `Face` / `CursorTo` / `Char` / `EraseChars`, CONCATENATED into byte strings, with the
image commands in between kept abstract — parses each byte string with the reference VT interpreter
`Vt.interp` and executes the operations (`execOp`).  Then, from any start state `b0` that shows the same
as an admissible abstract start `scr0`, the machine never gets stuck (every byte string is a sequence of
complete control sequences), and after EVERY rendered frame each cell inside the terminal shows what
`display` says for the drawn surface — the same character, the attribute state selected by the cell's
face (`attrOf`), a right half, or an erased background — and the placements are those of `display`.
With `PlainLink` (`P.plain` is exactly "no underline, strike or reverse in the attribute state") this is
equality of what an onlooker sees (`lookB`).

Hypotheses that remain, beyond those of `C01_history_partial`: `BytesOk` — the underline style of every
face is one of the six the encoder knows, and every character of non-zero width is printable in the
sense of C05 (a Unicode scalar value that is not a C0 / C1 control); `h, w ≤ usize::MAX`, so that every
zero-based coordinate inside the terminal has its one-based spelling `+ 1` (no saturation).  Faces need
NOT be injective.  Still assumed (not derived): the byte-level terminal itself (`execOp`: ECMA-48
meaning of print / CUP / ECH / SGR, the orphan rule, erased cells keep the attribute state), the image
commands, and that a terminal reads a byte string that follows an image command from its ground state. -/
theorem C01_bytes (P : Params) (hP : ParamsOk P) (caps : Caps) (faceOf : Nat → Face)
    (hb : BytesOk P caps faceOf) (h w : Nat) (hsz : SizeOk h w) (hH : h ≤ usizeMax) (hW : w ≤ usizeMax)
    (clear0 : Bool) (scr0 : Screen) (h0 : Rel P (new h w clear0) scr0)
    (b0 : BScreen) (hb0 : BRel P (aofOf caps faceOf) b0 scr0)
    (steps : List Step) (hd : AllDom P h w steps)
    (pre post : List Step) (s : Surface) (hsplit : steps = pre ++ Step.frame s :: post) :
    ∃ R' b', runStepsB P caps faceOf (new h w clear0, b0) (pre ++ [Step.frame s]) = some (R', b') ∧
      (∀ r c, r < h → c < w → CellRel P (aofOf caps faceOf) (b'.grid r c) ((display P h w s).grid r c)) ∧
      (∀ r c, b'.place r c = (display P h w s).place r c) ∧
      (PlainLink P (aofOf caps faceOf) → ∀ r c, r < h → c < w →
        lookB (b'.grid r c) = lookB (toB (aofOf caps faceOf) ((display P h w s).grid r c))) := by
  have hd' : AllDom P h w (pre ++ [Step.frame s]) := by
    intro s' hs'
    apply hd; rw [hsplit]
    rcases List.mem_append.1 hs' with h1 | h1
    · exact List.mem_append_left _ h1
    · simp only [List.mem_singleton] at h1
      rw [h1]; exact List.mem_append_right _ List.mem_cons_self
  obtain ⟨b', e1, e2⟩ := brel_steps P hP caps faceOf hb h w hsz hH hW (pre ++ [Step.frame s]) hd'
    (new h w clear0) scr0 b0 ⟨rfl, rfl⟩ h0 hb0
  have habs := C01_history_partial P hP h w hsz clear0 scr0 h0 steps hd pre post s hsplit
  have hcell : ∀ r c, r < h → c < w →
      CellRel P (aofOf caps faceOf) (b'.grid r c) ((display P h w s).grid r c) := by
    intro r c hr hc
    rw [← habs.1 r c hr hc]; exact e2.grid r c
  refine ⟨_, b', e1, hcell, ?_, ?_⟩
  · intro r c; rw [e2.place, habs.2 r c]
  · intro hl r c hr hc
    exact look_of_rel P _ hl _ _ (hcell r c hr hc)

/-- The bytes of ONE frame, when the frame places no image, are a single byte string — the
concatenation of the encodings of all its commands — and the interpreter reads it as the
concatenation of the commands' meanings (C05_stream). -/
theorem C01_bytes_one_stream (P : Params) (caps : Caps) (faceOf : Nat → Face) (hb : BytesOk P caps faceOf)
    (H W : Nat) (cmds : List SurfModel.Screen.Cmd) (hc : ∀ c ∈ cmds, TextOk P H W c)
    (ht : ∀ c ∈ cmds, (toVt faceOf c).isSome) (hne : cmds ≠ []) :
    chunks caps faceOf cmds = [.bytes ((cmds.filterMap (toVt faceOf)).flatMap (encode caps))] ∧
    interp ((cmds.filterMap (toVt faceOf)).flatMap (encode caps)) =
      some ((cmds.filterMap (toVt faceOf)).flatMap (meaning caps)) := by
  refine ⟨chunks_text caps faceOf cmds ht hne, ?_⟩
  apply SurfProofs.C05.C05_stream
  intro v hv
  obtain ⟨c, hcm, hcv⟩ := List.mem_filterMap.1 hv
  exact toVt_valid P caps faceOf hb H W c (hc c hcm) v hcv

/-! ### the hypotheses are satisfiable, non-trivially -/

def isPrintable (cp : Nat) : Bool :=
  decide (32 ≤ cp ∧ ¬ (127 ≤ cp ∧ cp < 160) ∧ cp < 0x110000 ∧ ¬ (0xD800 ≤ cp ∧ cp < 0xE000))

/-- faces behind the identifiers: default, red on grey + bold, underlined (not plain) -/
def exFaceOf : Nat → Face
  | 1 => ⟨some ⟨251, 73, 52, 255, 203, 2⟩, some ⟨60, 56, 54, 255, 237, 0⟩, 0, true, false, false, false, false⟩
  | 2 => ⟨none, some ⟨1, 2, 3, 255, 16, 0⟩, 1, false, false, false, false, false⟩
  | _ => ⟨none, none, 0, false, false, false, false, false⟩

def exCaps : Caps := ⟨.trueColor, false⟩

/-- widths as `unicode-width` gives them (controls have none), `plain` DEFINED from the attribute state -/
def exPB : Params :=
  { width := fun ch => if isPrintable ch then (if ch = 19990 then 2 else 1) else 0
    size := fun i => if i = 7 then (2, 2) else (1, 2)
    raster := fun _ _ => 3
    plain := fun f => plainAttr (aofOf exCaps exFaceOf f) }

theorem exPB_ok : ParamsOk exPB := by
  refine ⟨?_, by decide, by decide⟩
  intro ch; simp only [exPB]; split
  · split <;> omega
  · omega

theorem exPB_bytes : BytesOk exPB exCaps exFaceOf := by
  refine ⟨?_, ?_⟩
  · intro f
    unfold exFaceOf
    split <;> simp
  · intro ch hw
    simp only [exPB] at hw
    by_cases hp : isPrintable ch = true
    · simp only [isPrintable, decide_eq_true_eq] at hp
      exact hp
    · simp [hp] at hw

example : PlainLink exPB (aofOf exCaps exFaceOf) := fun _ => rfl

/-- face 2 is not plain, face 1 is: derived from the attribute states, not assumed -/
example : exPB.plain 2 = false ∧ exPB.plain 1 = true ∧ exPB.plain 0 = true := by decide

theorem exSurf_domB : Dom exPB 3 6 exSurf := wellPlacedB_sound exPB 3 6 exSurf (by decide)

/-- a blank byte-level terminal -/
def bBlank (aof : Nat → Attr) : BScreen :=
  { grid := fun _ _ => .glyph 32 (aof 0), cur := (0, 0), attr := aof 0, place := fun _ _ => none }

theorem bBlank_rel (P : Params) (aof : Nat → Attr) : BRel P aof (bBlank aof) blank :=
  ⟨fun _ _ => ⟨0, rfl, rfl⟩, rfl, rfl, rfl⟩

/-- `C01_bytes` applies to a history with every kind of step, a wide character, images, a glyph and a
face that is not plain: the byte-level machine does not get stuck and shows the surface -/
example : ∃ R' b', runStepsB exPB exCaps exFaceOf (new 3 6 true, bBlank (aofOf exCaps exFaceOf))
      ([.frame exSurf, .skip, .clear, .frame blankSurf, .recreate] ++ [.frame exSurf]) = some (R', b') ∧
    (∀ r c, r < 3 → c < 6 →
      lookB (b'.grid r c) = lookB (toB (aofOf exCaps exFaceOf) ((display exPB 3 6 exSurf).grid r c))) := by
  have hd : AllDom exPB 3 6 ([.frame exSurf, .skip, .clear, .frame blankSurf, .recreate] ++ .frame exSurf :: []) := by
    intro s hs
    simp only [List.cons_append, List.nil_append, List.mem_cons, List.not_mem_nil, or_false] at hs
    rcases hs with h | h | h | h | h | h
    · cases h; exact exSurf_domB
    · cases h
    · cases h
    · cases h; exact blank_wp exPB exPB_ok 3 6
    · cases h
    · cases h; exact exSurf_domB
  obtain ⟨R', b', e1, _, _, e4⟩ := C01_bytes exPB exPB_ok exCaps exFaceOf exPB_bytes 3 6 (Or.inl (by omega))
    (by decide) (by decide) true blank (C01_start_blank exPB exPB_ok 3 6 true) _ (bBlank_rel exPB _)
    _ hd [.frame exSurf, .skip, .clear, .frame blankSurf, .recreate] [] exSurf rfl
  exact ⟨R', b', e1, e4 (fun _ => rfl)⟩

/-- the bytes really are the terminal's language: `Face 2; CursorTo (1,2); Char 'a'; EraseChars 5` is the
single byte string `ESC[0;48;2;1;2;3;4m ESC[2;3H a ESC[5X`, and it means SGR, CUP 2 3, print, ECH 5 -/
example :
    chunks exCaps exFaceOf [.face 2, .cursorTo 1 2, .char 97, .erase 5] =
      [.bytes ([27, 91, 48, 59, 52, 56, 59, 50, 59, 49, 59, 50, 59, 51, 59, 52, 109] ++
        [27, 91, 50, 59, 51, 72] ++ [97] ++ [27, 91, 53, 88])] := by
  have sn : ∀ n, n < 10 → SurfModel.Vt.showNat n = [48 + n] := by
    intro n h; rw [SurfModel.Vt.showNat]; simp [h]
  simp [chunks, toVt, exFaceOf, exCaps, encode, SurfModel.Vt.csiB, SurfModel.Vt.faceChunks,
    SurfModel.Vt.optChunks, SurfModel.Vt.colorChunks, SurfModel.Vt.underChunk, SurfModel.Vt.flagChunk,
    SurfModel.Vt.joinSemi, SurfModel.Vt.satSucc, SurfModel.Vt.usizeMax, SurfModel.Vt.utf8, sn]

end SurfProofs.C01
