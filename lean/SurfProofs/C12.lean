import SurfModel.Sixel
import SurfProofs.Lemmas.SixelLine
import SurfProofs.Lemmas.SixelTable
import SurfProofs.Lemmas.SixelDecode
import SurfProofs.Lemmas.SixelOrder
import SurfProofs.Lemmas.SixelCache
import SurfProofs.Lemmas.SixelQuant
import SurfProofs.Lemmas.SixelDraw
import SurfProofs.Lemmas.SixelNoPanic
import SurfProofs.Lemmas.SixelSink
/-!
# C12 — sixel output decodes to the quantised image, exact when colours fit the palette

`encode pal q order` is the model of what `SixelImageHandler::draw` writes for the palette `pal` and the
index image `q` returned by quantisation when the per-band hash maps iterate in `order`;
`sixel` is the reference interpreter written from the sixel specification (it shares no definition with
the encoder).  The theorems below are about *every* palette, index image and iteration order.
`C12_exact` takes the losslessness of quantisation as a hypothesis; `C12_exact_quant` composes the model of
`Image::quantize` (`SurfModel.Quant`, property C13) in front of the encoder and has no such hypothesis.
-/
namespace SurfProofs.C12
open SurfModel.Sixel SurfModel.Generated.SixelLevel
open SurfProofs.Lemmas.SixelLine SurfProofs.Lemmas.SixelTable SurfProofs.Lemmas.SixelDecode
open SurfProofs.Lemmas.SixelOrder SurfProofs.Lemmas.SixelCache SurfProofs.Lemmas.SixelQuant

/-- a colour at sixel's 0-100 resolution: every channel `100·v/255` rounded to the nearest integer -/
def at100 (c : RGB) : RGB := ⟨level100 c.r, level100 c.g, level100 c.b⟩

/-! ## the regenerated channel-reduction tables -/

/-- What the current build of /repo writes into the palette definition for the channel value `v`
(tables regenerated from real draws on every run) is the textbook reduction `round(100·v/255)`, in every
channel; it stays within 0..100, is monotone, and is not changed by the reduction `draw` applies to the
pixels before quantisation (`level ∘ pre = level`). -/
theorem C12_level_table :
    (∀ v, v < 256 → levelR.getD v 0 = level100 v ∧ levelG.getD v 0 = level100 v ∧ levelB.getD v 0 = level100 v)
    ∧ (∀ v, v < 256 → level100 v ≤ 100)
    ∧ (∀ a b, a ≤ b → level100 a ≤ level100 b)
    ∧ (∀ c : RGB, c.r < 256 ∧ c.g < 256 ∧ c.b < 256 → level (preReduce c) = at100 c) := by
  obtain ⟨hr, hg, hb⟩ := level_table
  refine ⟨?_, level100_le, fun a b h => level100_mono h, ?_⟩
  · intro v hv
    simp only [hr, hg, hb, table_getD, hv, if_true, and_self]
  · intro c hc
    have hpre : ∀ v, v < 256 → level100 (level100 v * 255 / 100) = level100 v := by
      intro v hv; unfold level100; omega
    have hlt : ∀ v, v < 256 → level100 v * 255 / 100 < 256 := by
      intro v hv; unfold level100; omega
    simp only [level, preReduce, preChannel, at100, hr, hg, hb, table_getD, hc.1, hc.2.1, hc.2.2, if_true,
      hlt, hpre]

/-! ## one colour's line of a band -/

/-- Expanding what the shift / repeat compression emits for one colour of one band (`!n c` ↦ `n`
copies of `c`) gives exactly the dense row: blanks up to each item, then its code. -/
theorem C12_band_line (offset : Nat) (items : List (Nat × Nat)) :
    expand (encodeLine offset items) = dense offset items :=
  expand_encodeLine offset items

/-! ## the output decodes to the quantised image -/

/-- palette entries are 8-bit colours -/
def PalOk (pal : List RGB) : Prop := ∀ c ∈ pal, c.r < 256 ∧ c.g < 256 ∧ c.b < 256

/-- `C12_decodes`.  For every palette of at most 256 8-bit colours, every index image with valid indices
whose height is a multiple of six (`QOk`), and every iteration order of the band maps (`OrderOk`: each
band's colours, each once, in any order): the reference interpreter accepts the emitted bytes as one
sixel sequence and yields a raster
* of the declared size `q.w × q.h` (`pix` has exactly that shape),
* in which every pixel is painted, with the palette colour of its index at 0-100 resolution,
* with no pixel painted outside the raster,
* using exactly the `pal.length ≤ 256` registers `0 … pal.length − 1`. -/
theorem C12_decodes (pal : List RGB) (q : QImg) (order : Nat → List Nat)
    (hpal : pal.length ≤ 256) (hcol : PalOk pal) (hq : QOk pal q) (hord : OrderOk q order) :
    ∃ r, sixel (encode pal q order) = some r
      ∧ r.width = q.w ∧ r.height = q.h ∧ r.pix.length = q.h ∧ (∀ row ∈ r.pix, row.length = q.w)
      ∧ (∀ y x, y < q.h → x < q.w → r.get x y = some (at100 (pal.getD (q.get y x) default)))
      ∧ r.outside = 0
      ∧ r.registers.length = pal.length ∧ (∀ k c, (k, c) ∈ r.registers → k < pal.length) := by
  obtain ⟨r, hr, hw, hh, hpix, hout, hregs, hregk, hget⟩ := sixelN_encodeN pal q order hpal hq hord
  refine ⟨r, by rw [sixel_encode]; exact hr, hw, hh, hpix.1, hpix.2, ?_, hout, hregs, hregk⟩
  intro y x hy hx
  rw [hget y x hy hx]
  have hlt := hq.get_lt hy hx
  have hmem : pal.getD (q.get y x) default ∈ pal := by
    rw [List.getD_eq_getElem?_getD, List.getElem?_eq_getElem hlt]; exact List.getElem_mem hlt
  rw [level_eq _ (hcol _ hmem)]
  rfl

/-- the colours ascending (the order the correspondence check canonicalises to) is one valid order … -/
theorem C12_sorted_order_ok (q : QImg) (h6 : q.h % 6 = 0) : OrderOk q (sortedOrder q) :=
  sortedOrder_ok q h6

/-- … and so is, e.g., the descending one: the hypotheses of `C12_decodes` are met by a 3 × 6 image with
three colours where the first band holds two colours per column. -/
example :
    let pal : List RGB := [⟨0, 0, 0⟩, ⟨255, 128, 3⟩, ⟨10, 200, 90⟩]
    let q : QImg := ⟨3, 6, [[0, 1, 1], [0, 1, 1], [0, 1, 2], [0, 0, 2], [1, 0, 2], [1, 0, 2]]⟩
    pal.length ≤ 256 ∧ PalOk pal ∧ QOk pal q ∧ OrderOk q (fun b => (sortedOrder q b).reverse) := by
  intro pal q
  refine ⟨by decide, by unfold PalOk; decide, ⟨by decide, by decide, by decide, by decide⟩, ?_⟩
  intro b hb
  have := sortedOrder_ok q (by decide) b hb
  refine ⟨nodup_reverse'.2 this.1, fun c => ?_⟩
  rw [List.mem_reverse]; exact this.2 c

/-! ## exactness when the colours fit -/

/-- `img` (a function from row, column to colour on `h × w`) has at most `n` distinct colours -/
def AtMostColours (n w h : Nat) (img : Nat → Nat → RGB) : Prop :=
  ∃ cl : List RGB, cl.length ≤ n ∧ ∀ y x, y < h → x < w → img y x ∈ cl

/-- the statement of `C13_lossless` for the image `dimg` handed to `quantize(256, …)`: when it has at most
256 distinct colours and is small enough not to be subsampled by the palette extraction
(`h·w / (256·100) < 2`), the palette has at most 256 entries and the index image reproduces `dimg` -/
def C13_lossless (w h : Nat) (dimg : Nat → Nat → RGB) (pal : List RGB) (q : QImg) : Prop :=
  AtMostColours 256 w h dimg → w * h / (256 * 100) < 2 →
    pal.length ≤ 256 ∧ PalOk pal ∧ QOk pal q ∧ q.w = w ∧ q.h = h
      ∧ ∀ y x, y < h → x < w → pal.getD (q.get y x) default = dimg y x

/-- `C12_exact`.  Let `src` be an opaque 8-bit image of size `w × h` (the view already truncated to a
multiple of six rows) with at most 256 distinct colours at 0-100 resolution, small enough not to be
subsampled; let `(pal, q)` be what quantisation returns for the channel-reduced image `preReduce ∘ src`
that `draw` hands to it, quantisation being lossless in that case (hypothesis `C13_lossless`, the
theorem of that name of property C13; discharged for the model of the quantiser in `C12_quant_lossless`,
giving the unconditional `C12_exact_quant` below).  Then for every iteration order the emitted bytes
decode to the source at 0-100 resolution, pixel for pixel. -/
theorem C12_exact (w h : Nat) (src : Nat → Nat → RGB) (pal : List RGB) (q : QImg) (order : Nat → List Nat)
    (hsrc : ∀ y x, y < h → x < w → (src y x).r < 256 ∧ (src y x).g < 256 ∧ (src y x).b < 256)
    (hfit : AtMostColours 256 w h (fun y x => at100 (src y x)))
    (hsmall : w * h / (256 * 100) < 2)
    (hC13 : C13_lossless w h (fun y x => preReduce (src y x)) pal q)
    (hord : OrderOk q order) :
    ∃ r, sixel (encode pal q order) = some r ∧ r.width = w ∧ r.height = h ∧ r.outside = 0
      ∧ ∀ y x, y < h → x < w → r.get x y = some (at100 (src y x)) := by
  -- the reduced image has no more colours than the source at 0-100 resolution
  have hpre : ∀ c : RGB, c.r < 256 ∧ c.g < 256 ∧ c.b < 256 →
      preReduce c = ⟨level100 c.r * 255 / 100, level100 c.g * 255 / 100, level100 c.b * 255 / 100⟩ := by
    intro c hc
    obtain ⟨hr, hg, hb⟩ := level_table
    simp only [preReduce, preChannel, hr, hg, hb, table_getD, hc.1, hc.2.1, hc.2.2, if_true]
  have hfit' : AtMostColours 256 w h (fun y x => preReduce (src y x)) := by
    obtain ⟨cl, hlen, hmem⟩ := hfit
    refine ⟨cl.map (fun l => ⟨l.r * 255 / 100, l.g * 255 / 100, l.b * 255 / 100⟩), by simpa using hlen, ?_⟩
    intro y x hy hx
    simp only [List.mem_map]
    exact ⟨at100 (src y x), hmem y x hy hx, by rw [hpre _ (hsrc y x hy hx)]; rfl⟩
  obtain ⟨hpal, hcol, hq, hw, hh, hrep⟩ := hC13 hfit' hsmall
  obtain ⟨r, hr, hrw, hrh, _, _, hget, hout, _, _⟩ := C12_decodes pal q order hpal hcol hq hord
  refine ⟨r, hr, by rw [hrw, hw], by rw [hrh, hh], hout, ?_⟩
  intro y x hy hx
  rw [hget y x (by rw [hh]; exact hy) (by rw [hw]; exact hx), hrep y x hy hx]
  have hs := hsrc y x hy hx
  have hp : ∀ v, v < 256 → level100 (level100 v * 255 / 100) = level100 v := by
    intro v hv; unfold level100; omega
  simp only [hpre _ hs, at100, hp _ hs.1, hp _ hs.2.1, hp _ hs.2.2]

/-- the hypotheses of `C12_exact` are met, e.g., by a 2 × 6 two-colour image and the palette and index
image a lossless quantiser returns for it -/
example :
    let src : Nat → Nat → RGB := fun y x => if (x + y) % 2 = 0 then ⟨255, 128, 3⟩ else ⟨10, 200, 90⟩
    let pal : List RGB := [preReduce ⟨255, 128, 3⟩, preReduce ⟨10, 200, 90⟩]
    let q : QImg := ⟨2, 6, [[0, 1], [1, 0], [0, 1], [1, 0], [0, 1], [1, 0]]⟩
    (∀ y x, y < 6 → x < 2 → (src y x).r < 256 ∧ (src y x).g < 256 ∧ (src y x).b < 256)
      ∧ AtMostColours 256 2 6 (fun y x => at100 (src y x))
      ∧ C13_lossless 2 6 (fun y x => preReduce (src y x)) pal q ∧ OrderOk q (sortedOrder q) := by
  intro src pal q
  refine ⟨?_, ⟨[at100 ⟨255, 128, 3⟩, at100 ⟨10, 200, 90⟩], by decide, ?_⟩, ?_, sortedOrder_ok q (by decide)⟩
  · intro y x _ _; simp only [src]; split <;> decide
  · intro y x _ _; simp only [src]; split <;> simp
  · intro _ _
    refine ⟨by decide, by unfold PalOk; decide, ⟨by decide, by decide, by decide, by decide⟩, rfl, rfl, ?_⟩
    intro y x hy hx
    have hy' : y = 0 ∨ y = 1 ∨ y = 2 ∨ y = 3 ∨ y = 4 ∨ y = 5 := by omega
    have hx' : x = 0 ∨ x = 1 := by omega
    rcases hy' with h | h | h | h | h | h <;> rcases hx' with h' | h' <;> subst h <;> subst h' <;> rfl

/-! ## exactness with the quantiser composed in

The two theorems below discharge the hypothesis `C13_lossless` of `C12_exact` with property C13's
theorem `SurfProofs.C13.C13_lossless` about `SurfModel.Quant.quantize`, the model of `Image::quantize`
(octree palette extraction `ColorPalette::from_image`, k-d tree lookup, Floyd-Steinberg loop).  `draw`
calls `dimg.quantize(256, true, self.bg)`: palette size 256, dithering on; the dithering case of the C13
theorem is the one used (all error terms are zero when every pixel's colour is in the palette).

Glue between the two models (`SurfProofs.Lemmas.SixelQuant`):
* `toQ` / `ofQ` convert between the colour records of the two models (same three `Nat` fields);
* `rowMajor w h f` lists the pixels `f row col` of a `w × h` image row by row (`Surface::iter` order, the
  argument of the quantiser model);
* `qimgOf w h is` is the index image `⟨w, h, rows⟩` with the index list `is` cut into `h` rows of `w`
  (`qimg.set(Position::new(row, col), qindex)` in the loop of `quantize`);
* for opaque pixels (`alpha = 255`) `quantize` and `from_image` skip `bg.blend_over`, so the composited
  pixels the quantiser model takes are the pixels themselves;
* C12's subsampling bound `w·h / (256·100) < 2` is C13's `h·w < 200·k` at `k = 256`, and implies
  C13's `h·w < 2^64`; `AtMostColours 256` gives C13's "every duplicate-free list of colours occurring in
  the image has at most 256 entries" (a duplicate-free sublist of a list is no longer than it). -/

/-- `C13_lossless` holds of what the model of `quantize(256, dither = true)` returns: for every non-empty
opaque 8-bit image `dimg` of size `w × h`, `h` a multiple of six, with at most 256 distinct colours and
not subsampled, the model answers `ok pal is`, and the pair `(pal, qimgOf w h is)` satisfies the statement
that `C12_exact` takes as a hypothesis. -/
theorem C12_quant_lossless (w h : Nat) (dimg : Nat → Nat → RGB)
    (hw : 0 < w) (hh : 0 < h) (h6 : h % 6 = 0)
    (hbytes : ∀ y x, y < h → x < w → (dimg y x).r < 256 ∧ (dimg y x).g < 256 ∧ (dimg y x).b < 256)
    (hfit : AtMostColours 256 w h dimg) (hsmall : w * h / (256 * 100) < 2) :
    ∃ pal is,
      SurfModel.Quant.quantize (rowMajor w h fun y x => toQ (dimg y x)) h w 256 true = .ok pal is
      ∧ C13_lossless w h dimg (pal.map ofQ) (qimgOf w h is) := by
  obtain ⟨pal, is, hq, hlen, hcol, hok, hrep⟩ := quant_lossless_sixel w h dimg hw hh h6 hbytes hfit hsmall
  exact ⟨pal, is, hq, fun _ _ => ⟨hlen, hcol, hok, rfl, rfl, hrep⟩⟩

/-- `C12_exact_quant`: `C12_exact` with no hypothesis about quantisation.  Let `src` be an opaque 8-bit
image of size `w × h`, non-empty, `h` a multiple of six (the view `draw` truncates to), with at most 256
distinct colours at 0-100 resolution and small enough not to be subsampled by the palette extraction
(`w·h / 25600 < 2`).  Then the model of `Image::quantize(256, dither = true)` applied to the
channel-reduced image `preReduce ∘ src` (what `draw` hands to it) answers `ok pal is` — no panic, no
`None`, no inexact dithering —, and for every iteration order of the band maps the bytes the encoder
model emits for that palette and index image are accepted by the reference interpreter and decode to the
source at 0-100 resolution, pixel for pixel, with nothing painted outside. -/
theorem C12_exact_quant (w h : Nat) (src : Nat → Nat → RGB)
    (hw : 0 < w) (hh : 0 < h) (h6 : h % 6 = 0)
    (hsrc : ∀ y x, y < h → x < w → (src y x).r < 256 ∧ (src y x).g < 256 ∧ (src y x).b < 256)
    (hfit : AtMostColours 256 w h (fun y x => at100 (src y x)))
    (hsmall : w * h / (256 * 100) < 2) :
    ∃ pal is,
      SurfModel.Quant.quantize (rowMajor w h fun y x => toQ (preReduce (src y x))) h w 256 true = .ok pal is
      ∧ ∀ order : Nat → List Nat, OrderOk (qimgOf w h is) order →
        ∃ r, sixel (encode (pal.map ofQ) (qimgOf w h is) order) = some r
          ∧ r.width = w ∧ r.height = h ∧ r.outside = 0
          ∧ ∀ y x, y < h → x < w → r.get x y = some (at100 (src y x)) := by
  have hpre : ∀ c : RGB, c.r < 256 ∧ c.g < 256 ∧ c.b < 256 →
      preReduce c = ⟨level100 c.r * 255 / 100, level100 c.g * 255 / 100, level100 c.b * 255 / 100⟩ := by
    intro c hc
    obtain ⟨hr, hg, hb⟩ := level_table
    simp only [preReduce, preChannel, hr, hg, hb, table_getD, hc.1, hc.2.1, hc.2.2, if_true]
  have hlt : ∀ v, v < 256 → level100 v * 255 / 100 < 256 := by
    intro v hv; unfold level100; omega
  have hbytes : ∀ y x, y < h → x < w →
      (preReduce (src y x)).r < 256 ∧ (preReduce (src y x)).g < 256 ∧ (preReduce (src y x)).b < 256 := by
    intro y x hy hx
    have hs := hsrc y x hy hx
    rw [hpre _ hs]
    exact ⟨hlt _ hs.1, hlt _ hs.2.1, hlt _ hs.2.2⟩
  have hfit' : AtMostColours 256 w h (fun y x => preReduce (src y x)) := by
    obtain ⟨cl, hlen, hmem⟩ := hfit
    refine ⟨cl.map (fun l => ⟨l.r * 255 / 100, l.g * 255 / 100, l.b * 255 / 100⟩), by simpa using hlen, ?_⟩
    intro y x hy hx
    simp only [List.mem_map]
    exact ⟨at100 (src y x), hmem y x hy hx, by rw [hpre _ (hsrc y x hy hx)]; rfl⟩
  obtain ⟨pal, is, hq, hC13⟩ :=
    C12_quant_lossless w h (fun y x => preReduce (src y x)) hw hh h6 hbytes hfit' hsmall
  exact ⟨pal, is, hq, fun order hord =>
    C12_exact w h src (pal.map ofQ) (qimgOf w h is) order hsrc hfit hsmall hC13 hord⟩

/-- the domain conditions of `C12_exact_quant` are met, e.g., by the 2 × 6 two-colour image of the example
above; and for every image in the domain an admissible order exists (colours ascending in every band) -/
example :
    let src : Nat → Nat → RGB := fun y x => if (x + y) % 2 = 0 then ⟨255, 128, 3⟩ else ⟨10, 200, 90⟩
    0 < 2 ∧ 0 < 6 ∧ 6 % 6 = 0
      ∧ (∀ y x, y < 6 → x < 2 → (src y x).r < 256 ∧ (src y x).g < 256 ∧ (src y x).b < 256)
      ∧ AtMostColours 256 2 6 (fun y x => at100 (src y x)) ∧ 2 * 6 / (256 * 100) < 2
      ∧ ∀ is, OrderOk (qimgOf 2 6 is) (sortedOrder (qimgOf 2 6 is)) := by
  intro src
  refine ⟨by decide, by decide, by decide, ?_,
    ⟨[at100 ⟨255, 128, 3⟩, at100 ⟨10, 200, 90⟩], by decide, ?_⟩, by decide,
    fun is => sortedOrder_ok _ (by simp [qimgOf])⟩
  · intro y x _ _; simp only [src]; split <;> decide
  · intro y x _ _; simp only [src]; split <;> simp

/-! ## `draw` from the image on: every image, lossy ones included -/

/-- `C12_draw_wellformed` — the first sentence of the property, with no hypothesis about quantisation.
`drawFresh w h px looked order` is the model of `draw` on a cache miss for the view of `w` columns and `h`
rows with the (composited) pixels `px`: truncation to `h/6·6` rows, channel reduction, the model of
`Image::quantize(256, true, bg)` of property C13 (`looked`: whatever colours the error diffusion hands to
the palette lookup — arbitrary, one per pixel), then the encoder.  For EVERY view, every `looked` and every
iteration order:
* no column, or fewer than six rows: nothing is written (the code's `None => return Ok(())`);
* otherwise the call neither panics nor hangs, and what it writes is accepted by the reference interpreter
  as one sixel sequence giving a raster of the declared size `w × h/6·6`, every pixel painted, nothing
  outside, between 1 and 256 colour registers defined
  (C13's palette bound `1 ≤ |pal| ≤ max 256 8` and index validity, composed with `C12_decodes`' lemma). -/
theorem C12_draw_wellformed (w h : Nat) (px : List RGB) (looked : List SurfModel.SixelDraw.QRGB)
    (order : QImg → Nat → List Nat)
    (hsize : px.length = h * w) (hlooked : looked.length = truncHeight h * w)
    (hord : ∀ q : QImg, q.h % 6 = 0 → OrderOk q (order q)) :
    ((w = 0 ∨ h < 6) → SurfModel.SixelDraw.drawFresh w h px looked order = .wrote []) ∧
    (0 < w → 6 ≤ h →
      ∃ bytes r, SurfModel.SixelDraw.drawFresh w h px looked order = .wrote bytes ∧ sixel bytes = some r
        ∧ r.width = w ∧ r.height = truncHeight h
        ∧ r.pix.length = truncHeight h ∧ (∀ row ∈ r.pix, row.length = w)
        ∧ (∀ y x, y < truncHeight h → x < w → (r.get x y).isSome = true)
        ∧ r.outside = 0 ∧ 1 ≤ r.registers.length ∧ r.registers.length ≤ 256) :=
  ⟨SurfProofs.Lemmas.SixelDraw.drawFresh_nothing w h px looked order,
   fun hw hh => SurfProofs.Lemmas.SixelDraw.drawFresh_wellformed w h px looked order hsize hlooked hw hh hord⟩

/-- hypotheses met: a 3 × 7 view (one row is cut off), any `looked` of the right length, colours ascending -/
example :
    (List.replicate 21 (⟨1, 2, 3⟩ : RGB)).length = 7 * 3
      ∧ (List.replicate 18 (⟨9, 9, 9⟩ : SurfModel.SixelDraw.QRGB)).length = truncHeight 7 * 3
      ∧ ∀ q : QImg, q.h % 6 = 0 → OrderOk q (sortedOrder q) :=
  ⟨by simp, by simp [truncHeight], fun q h6 => sortedOrder_ok q h6⟩

/-- `C12_subsample_threshold` — "small enough not to be subsampled", as a quantity of the model: `draw` asks
for 256 registers, and the palette extraction of the quantiser model (`sampleRate`, tied to the code by the
`subsampled` correspondence lines on pictures just below and just above the threshold, and by the
exactness oracle on pictures of 25 601 … 51 199 pixels) walks every pixel of the kept part of a `w × h` view
exactly when `w·(h/6·6) / (256·100) < 2`, i.e. below 51 200 pixels. -/
theorem C12_subsample_threshold (w h : Nat) (hbig : w * truncHeight h < 2 ^ 32 * 25600) :
    (SurfModel.SixelDraw.subsampled w h = false ↔ w * truncHeight h / (256 * 100) < 2)
    ∧ (SurfModel.SixelDraw.subsampled w h = false ↔ w * truncHeight h < 51200) :=
  ⟨SurfProofs.Lemmas.SixelDraw.subsampled_iff w h hbig, SurfProofs.Lemmas.SixelDraw.subsampled_iff' w h hbig⟩

/-- e.g. 213 × 240 is walked completely, 214 × 240 is not -/
example : SurfModel.SixelDraw.subsampled 213 240 = false ∧ SurfModel.SixelDraw.subsampled 214 240 = true
    ∧ SurfModel.SixelDraw.subsampled 107 240 = false := by decide

/-- `C12_draw_exact` — the second sentence through `draw`: let `src` give the composited 8-bit pixels of a
view of `w > 0` columns and `h ≥ 6` rows; if the rows that are kept (`y < h/6·6`) have at most 256 distinct
colours at 0-100 resolution and the view is not subsampled (`subsampled w h = false`, see
`C12_subsample_threshold`), `draw` (zero-error dithering, which is what happens then) writes bytes that
decode to exactly those rows at 0-100 resolution. -/
theorem C12_draw_exact (w h : Nat) (src : Nat → Nat → RGB) (order : QImg → Nat → List Nat)
    (hw : 0 < w) (hh : 6 ≤ h)
    (hsrc : ∀ y x, y < truncHeight h → x < w → (src y x).r < 256 ∧ (src y x).g < 256 ∧ (src y x).b < 256)
    (hfit : AtMostColours 256 w (truncHeight h) (fun y x => at100 (src y x)))
    (hbig : w * truncHeight h < 2 ^ 32 * 25600)
    (hnosub : SurfModel.SixelDraw.subsampled w h = false)
    (hord : ∀ q : QImg, q.h % 6 = 0 → OrderOk q (order q)) :
    ∃ bytes r, SurfModel.SixelDraw.drawFreshExact w h (rowMajor w h src) order = .wrote bytes
      ∧ sixel bytes = some r ∧ r.width = w ∧ r.height = truncHeight h ∧ r.outside = 0
      ∧ ∀ y x, y < truncHeight h → x < w → r.get x y = some (at100 (src y x)) := by
  have hsmall : w * truncHeight h / (256 * 100) < 2 :=
    (SurfProofs.Lemmas.SixelDraw.subsampled_iff w h hbig).1 hnosub
  have hth : 0 < truncHeight h := by have := SurfProofs.Lemmas.SixelDraw.truncHeight_pos hh; omega
  obtain ⟨pal, is, hq, hall⟩ := C12_exact_quant w (truncHeight h) src hw hth
    (SurfProofs.Lemmas.SixelDraw.truncHeight_mod h) hsrc hfit hsmall
  obtain ⟨r, hr, hrw, hrh, hout, hget⟩ := hall (order (qimgOf w (truncHeight h) is))
    (hord _ (SurfProofs.Lemmas.SixelDraw.truncHeight_mod h))
  refine ⟨_, r, ?_, hr, hrw, hrh, hout, hget⟩
  simp only [SurfModel.SixelDraw.drawFreshExact, SurfProofs.Lemmas.SixelDraw.reduced_rowMajor, hq,
    SurfModel.SixelDraw.drawWith]
  rfl

/-- hypotheses met: a 160 × 203 view (198 rows kept, 31 680 pixels) with two colours -/
example :
    let src : Nat → Nat → RGB := fun y x => if (x + y) % 2 = 0 then ⟨255, 128, 3⟩ else ⟨10, 200, 90⟩
    0 < 160 ∧ 6 ≤ 203
      ∧ (∀ y x, y < truncHeight 203 → x < 160 → (src y x).r < 256 ∧ (src y x).g < 256 ∧ (src y x).b < 256)
      ∧ AtMostColours 256 160 (truncHeight 203) (fun y x => at100 (src y x))
      ∧ 160 * truncHeight 203 < 2 ^ 32 * 25600 ∧ SurfModel.SixelDraw.subsampled 160 203 = false
      ∧ ∀ q : QImg, q.h % 6 = 0 → OrderOk q (sortedOrder q) := by
  intro src
  refine ⟨by decide, by decide, ?_, ⟨[at100 ⟨255, 128, 3⟩, at100 ⟨10, 200, 90⟩], by decide, ?_⟩,
    by decide, by decide, fun q h6 => sortedOrder_ok q h6⟩
  · intro y x _ _; simp only [src]; split <;> decide
  · intro y x _ _; simp only [src]; split <;> simp

/-! ## the `usize` subtractions of `draw` -/

/-- `C12_no_underflow`.  The two subtractions of `draw` that would panic on overflow never do:
`column - offset` in the line assembly (for the vector stored under any colour of any band of any index
image: the model with the checked subtraction `encodeLine?` agrees with `encodeLine`), and
`self.size -= lru_image.len()` in the eviction loop (on every reachable handler). -/
theorem C12_no_underflow :
    (∀ (q : QImg) (b c : Nat), encodeLine? 0 (bandLine q b c) = some (encodeLine 0 (bandLine q b c)))
    ∧ (∀ (hd : Handler) (key : Nat) (enc : List UInt8), Wf hd →
        evictLru? hd.cap ((key, enc) :: hd.imgs).reverse (hd.size + enc.length)
          = some (evictLru hd.cap ((key, enc) :: hd.imgs).reverse (hd.size + enc.length))) :=
  ⟨SurfProofs.Lemmas.SixelNoPanic.bandLine_no_underflow, SurfProofs.Lemmas.SixelNoPanic.draw_no_underflow⟩

/-! ## drawing the same image again

`Handler` carries its budget `cap` (the real handler compares `size` with `IMAGE_CACHE_SIZE`; the
verification hook `verif_c12::with_cache_size` builds handlers with other budgets so that the eviction
loop is executed by the correspondence runs).  `Handler.new.cap = imageCacheSize`, the constant
regenerated from the code on every run, and no draw changes it. -/

/-- `C12_repeat`.  On a handler in any reachable state (`Wf`: holds for a new handler and is kept by every
draw), drawing an image and then drawing it again emits the same bytes, whatever a fresh encoding would
give the second time (`enc₂`: a new `HashMap` may iterate differently) — provided the bytes fit the budget
(a larger encoding is evicted at once and re-encoded). -/
theorem C12_repeat (hd : Handler) (key : Nat) (enc₁ enc₂ : List UInt8) (hwf : Wf hd)
    (hfit : (hd.draw key enc₁).1.length ≤ hd.cap) :
    ((hd.draw key enc₁).2.draw key enc₂).1 = (hd.draw key enc₁).1 := by
  have := lookup_after_draw hd key enc₁ hwf hfit
  generalize hd.draw key enc₁ = res at this ⊢
  unfold Handler.draw
  simp [this]

/-- `C12_repeat_erase`: an `erase` of the image (or of any other) between the two draws changes nothing. -/
theorem C12_repeat_erase (hd : Handler) (key other : Nat) (enc₁ enc₂ : List UInt8) (hwf : Wf hd)
    (hfit : (hd.draw key enc₁).1.length ≤ hd.cap) :
    (((hd.draw key enc₁).2.erase other).draw key enc₂).1 = (hd.draw key enc₁).1 :=
  C12_repeat hd key enc₁ enc₂ hwf hfit

/-- every handler reachable from `SixelImageHandler::new` satisfies the invariant and has the budget
`IMAGE_CACHE_SIZE` -/
theorem C12_repeat_reachable :
    (Wf Handler.new ∧ Handler.new.cap = imageCacheSize)
      ∧ ∀ hd key enc, (Wf hd → Wf (hd.draw key enc).2) ∧ (hd.draw key enc).2.cap = hd.cap :=
  ⟨⟨wf_new, rfl⟩, fun hd key enc => ⟨fun h => wf_draw hd key enc h, draw_cap hd key enc⟩⟩

/-- a first draw on a new handler (a miss) followed by a second one: hypotheses met -/
example : Wf Handler.new ∧ ((Handler.new.draw 7 [1, 2, 3]).1.length ≤ Handler.new.cap) := by
  refine ⟨wf_new, ?_⟩
  simp [Handler.draw, Handler.new, imageCacheSize, SurfModel.Generated.SixelCache.imageCacheSize]

/-- The budget of every handler made by `new` is the constant of the current build of /repo
(`SurfModel.Generated.SixelCache`, regenerated through the hook `image::verif_c12` on every run), and it
is 128 MiB. -/
theorem C12_cache_size : imageCacheSize = 134217728 ∧ Handler.new.cap = 134217728 := by decide

/-- `C12_repeat_session`.  A whole session on one handler: draw an image, then draw any sequence `ops` of
images (hits or misses, `total ops` = the sum of the lengths of their encodings), then draw the first
image again.  As long as what the handler held before plus everything encoded in the session stays within
the budget, the last draw emits exactly the bytes of the first, whatever a fresh encoding would give. -/
theorem C12_repeat_session (hd : Handler) (key : Nat) (enc₁ enc₂ : List UInt8)
    (ops : List (Nat × List UInt8))
    (hbudget : hd.size + enc₁.length + total ops ≤ hd.cap) :
    ((drawAll (hd.draw key enc₁).2 ops).draw key enc₂).1 = (hd.draw key enc₁).1 := by
  have h1 := lookup_after_draw_budget hd key enc₁ (by omega)
  have h2 := (draw_keeps hd key enc₁ (by omega)).1
  have h3 := drawAll_keeps ops (hd.draw key enc₁).2 (by rw [draw_cap]; omega) key _ h1
  generalize hd.draw key enc₁ = res at h3 ⊢
  unfold Handler.draw
  simp [h3]

/-- a session of three other images between the two draws, on a new handler: hypothesis met -/
example :
    Handler.new.size + ([1, 2, 3] : List UInt8).length
      + total [(8, [4, 5]), (9, [6]), (8, [7, 7, 7])] ≤ Handler.new.cap := by
  simp [Handler.new, total, imageCacheSize, SurfModel.Generated.SixelCache.imageCacheSize]

/-! ## handing the bytes to the sink -/

/-- `C12_handover`.  `drawTo` is `draw` with its output hand-over spelled out: both branches (first draw
and cache hit) pass their bytes to the sink with `write_all`.  For EVERY handler, image and sink script
(short writes of any size, `Interrupted`, `Ok(0)`, errors, in any order):
* what arrives at the sink is a prefix of the bytes `draw` produces;
* if the call returns `Ok`, everything arrived and the handler is the one `draw` leaves;
* against a sink that never fails and never answers `Ok(0)` the call returns `Ok` — so a repeated draw
  delivers exactly the bytes of the first draw however the sink chops them (with `C12_repeat`);
* a first draw that failed leaves the handler unchanged (nothing is cached). -/
theorem C12_handover (hd : Handler) (key : Nat) (enc : List UInt8) (script : List Resp) :
    (∃ k, (hd.drawTo key enc script).1 = (hd.draw key enc).1.take k)
    ∧ ((hd.drawTo key enc script).2.1 = true →
        (hd.drawTo key enc script).1 = (hd.draw key enc).1
          ∧ (hd.drawTo key enc script).2.2.1 = (hd.draw key enc).2)
    ∧ (SurfProofs.Lemmas.SixelSink.Benign script → (hd.drawTo key enc script).2.1 = true)
    ∧ (hd.imgs.lookup key = none → (hd.drawTo key enc script).2.1 = false →
        (hd.drawTo key enc script).2.2.1 = hd) :=
  ⟨SurfProofs.Lemmas.SixelSink.drawTo_prefix hd key enc script,
   SurfProofs.Lemmas.SixelSink.drawTo_ok hd key enc script,
   SurfProofs.Lemmas.SixelSink.drawTo_benign hd key enc script,
   SurfProofs.Lemmas.SixelSink.drawTo_failed_miss hd key enc script⟩

/-- a benign script: one byte, an interruption, then seven bytes per call -/
example : SurfProofs.Lemmas.SixelSink.Benign [.accept 1, .interrupted, .accept 7, .accept 7] := by
  intro r hr
  simp only [List.mem_cons, List.not_mem_nil, or_false] at hr
  rcases hr with rfl | rfl | rfl | rfl <;> simp

end SurfProofs.C12
