import SurfModel.Quant
import SurfProofs.Lemmas.QuantKD
import SurfProofs.Lemmas.QuantTop
import SurfProofs.Lemmas.QuantLossless
import Mathlib.Data.List.Perm.Subperm
/-!
# C13 — colour quantisation: bounded palette, valid indices, exact nearest-colour search

Property theorems only (helper lemmas: `SurfProofs/Lemmas/Quant*.lean`).  Colours are RGB triples of
naturals (the `u8` components of the code are a sub-range), `dist` is the squared Euclidean
distance `(Δr)² + (Δg)² + (Δb)²` over `Int`.  An image is the row-major list `px` of its pixels
after compositing over the background, `h`, `w` its height and width, `k` the requested palette
size.  `quantize px h w k dither` is the model of `Image::quantize`; its outcomes are
`ok palette indices`, `inexact palette` (dithering met a non-zero error term: outside the modelled
domain, palette only), `none`, `panic`, `hang`.
-/
namespace SurfProofs.C13
open SurfModel.Quant

/-- Nearest-colour lookup (`ColorPalette::new(pal).find(q)` = `KDTree::new` + `find_rec`): for every
    non-empty palette — duplicates, clusters, any size — and every query colour the answer is an index
    into the palette, the colour stored there, and no palette entry is nearer to the query. -/
theorem C13_kd_nearest (pal : List RGB) (hne : pal ≠ []) (q : RGB) :
    ∃ i c, kdFind (kdNew pal) q = some (i, c) ∧ ∃ h : i < pal.length, pal[i] = c ∧
      ∀ j (hj : j < pal.length), dist q pal[i] ≤ dist q pal[j] :=
  SurfProofs.QuantKD.kd_nearest pal hne q

/-- the hypothesis is met by any palette with an entry, repeated entries included -/
example : ([⟨0, 0, 0⟩, ⟨255, 255, 255⟩, ⟨0, 0, 0⟩, ⟨10, 200, 30⟩] : List RGB) ≠ [] := by simp

/-- Quantising a non-empty image with a requested size `k ≥ 1` never panics, never hangs, never
    answers `None`, and the palette has between 1 and `max k 8` colours — although `prune` leaves the
    root summary stale when it drops a root-level leaf (so the palette may come out far smaller than
    requested, but never empty).  Without dithering the outcome is always `ok`; with dithering the
    model answers `ok` in the zero-error case and `inexact` (same palette) otherwise — the index
    image of a general dithered run is the subject of `C13_indices`.  (`_hacc`: the domain on which
    the `usize` accumulators of the code cannot overflow; the model accumulates in `Nat`.) -/
theorem C13_palette_bounds (px : List RGB) (h w k : Nat) (dither : Bool)
    (hsize : px.length = h * w) (hne : px ≠ []) (hk : 1 ≤ k) (_hacc : 255 * (h * w) < 2 ^ 64) :
    ∃ pal, ((∃ is, quantize px h w k dither = .ok pal is) ∨
            (dither = true ∧ quantize px h w k dither = .inexact pal)) ∧
      1 ≤ pal.length ∧ pal.length ≤ max k 8 := by
  obtain ⟨pal, hfi, h1, h2⟩ := SurfProofs.QuantTop.fromImage_bounds px h w k hsize hne hk
  have hpne : pal ≠ [] := by rintro rfl; simp at h1
  refine ⟨pal, ?_, h1, h2⟩
  cases dither with
  | false =>
    obtain ⟨is, hq, _, _⟩ := SurfProofs.QuantTop.quantizePlain_spec pal hpne px
    left; exact ⟨is, by simp only [quantize, hfi, hq]; rfl⟩
  | true =>
    rcases SurfProofs.QuantTop.quantizeDither_spec pal hpne px with hq | ⟨is, hq, _, _⟩
    · right; exact ⟨rfl, by simp only [quantize, hfi, hq]; rfl⟩
    · left; exact ⟨is, by simp only [quantize, hfi, hq]; rfl⟩

/-- a 2×3 image with five distinct colours, requested size 2 -/
example : ([⟨1, 2, 3⟩, ⟨1, 2, 3⟩, ⟨200, 0, 0⟩, ⟨0, 200, 0⟩, ⟨0, 0, 200⟩, ⟨9, 9, 9⟩] : List RGB).length = 2 * 3
    ∧ ([⟨1, 2, 3⟩, ⟨1, 2, 3⟩, ⟨200, 0, 0⟩, ⟨0, 200, 0⟩, ⟨0, 0, 200⟩, ⟨9, 9, 9⟩] : List RGB) ≠ [] ∧ 1 ≤ 2
    ∧ 255 * (2 * 3) < 2 ^ 64 := by
  refine ⟨rfl, by simp, by omega, by norm_num⟩

/-- Index image, both settings.  For every non-empty image and every `k ≥ 1`:
    * without dithering the run ends `ok` with one index per pixel, every index refers to a palette
      colour, and that colour is at minimal distance from the pixel among all palette colours;
    * with dithering — whatever colours the error diffusion hands to the lookup (`looked`, arbitrary,
      one per pixel) — the run ends `ok` with one index per pixel and every index refers to a palette
      colour.
    (`_hacc`: the domain on which the `usize` accumulators of the code cannot overflow; the model
    accumulates in `Nat`.) -/
theorem C13_indices (px : List RGB) (h w k : Nat)
    (hsize : px.length = h * w) (hne : px ≠ []) (hk : 1 ≤ k) (_hacc : 255 * (h * w) < 2 ^ 64) :
    (∃ pal is, quantize px h w k false = .ok pal is ∧ is.length = px.length ∧
      ∀ p ∈ px.zip is, ∃ c, pal[p.2]? = some c ∧ ∀ c' ∈ pal, dist p.1 c ≤ dist p.1 c') ∧
    (∀ looked : List RGB, looked.length = px.length →
      ∃ pal is, quantizeDithered px h w k looked = .ok pal is ∧ is.length = px.length ∧
        ∀ i ∈ is, i < pal.length) := by
  obtain ⟨pal, hfi, h1, _⟩ := SurfProofs.QuantTop.fromImage_bounds px h w k hsize hne hk
  have hpne : pal ≠ [] := by rintro rfl; simp at h1
  constructor
  · obtain ⟨is, hq, hlen, hall⟩ := SurfProofs.QuantTop.quantizePlain_spec pal hpne px
    exact ⟨pal, is, by simp only [quantize, hfi, hq]; rfl, hlen, hall⟩
  · intro looked hl
    obtain ⟨is, hq, hlen, hall⟩ := SurfProofs.QuantTop.quantizePlain_valid pal hpne looked
    exact ⟨pal, is, by simp only [quantizeDithered, quantizeLooked, hfi, hq], by rw [hlen, hl], hall⟩

/-- the hypotheses are met e.g. by a 1×2 image with `k = 2` -/
example : ([⟨10, 20, 30⟩, ⟨200, 100, 0⟩] : List RGB).length = 1 * 2 ∧
    ([⟨10, 20, 30⟩, ⟨200, 100, 0⟩] : List RGB) ≠ [] ∧ 1 ≤ 2 ∧ 255 * (1 * 2) < 2 ^ 64 := by
  refine ⟨rfl, by simp, by omega, by norm_num⟩

/-- Lossless case.  If the image has at most `k` distinct colours (every duplicate-free list of
    colours occurring in it has at most `k` entries), is not subsampled (`h·w < 200·k`; `255·h·w < 2^64`, which also keeps the
    `usize` accumulators from overflowing) and its components are bytes, then nothing is pruned: the palette lists exactly the
    distinct colours of the image, once each, and the index image reproduces every pixel — without
    dithering and with it (all error terms are zero). -/
theorem C13_lossless (px : List RGB) (h w k : Nat) (dither : Bool)
    (hne : px ≠ []) (hk : 1 ≤ k)
    (hbytes : ∀ c ∈ px, c.r < 256 ∧ c.g < 256 ∧ c.b < 256)
    (hfit : ∀ S : List RGB, S.Nodup → (∀ c ∈ S, c ∈ px) → S.length ≤ k)
    (hacc : 255 * (h * w) < 2 ^ 64) (hsmall : h * w < 200 * k) :
    ∃ pal is, quantize px h w k dither = .ok pal is ∧
      pal.Nodup ∧ (∀ c, c ∈ pal ↔ c ∈ px) ∧
      is.length = px.length ∧ ∀ p ∈ px.zip is, pal[p.2]? = some p.1 := by
  obtain ⟨pal, hfi, hnd, hmem⟩ :=
    SurfProofs.QuantLossless.fromImage_lossless px h w k hne hk hbytes hfit (by omega) hsmall
  have hsub : ∀ q ∈ px, q ∈ pal := fun q hq => (hmem q).mpr hq
  cases dither with
  | false =>
    obtain ⟨is, hq, hlen, hall⟩ := SurfProofs.QuantTop.quantizePlain_exact pal px hsub
    exact ⟨pal, is, by simp only [quantize, hfi, hq]; rfl, hnd, hmem, hlen, hall⟩
  | true =>
    obtain ⟨is, hq, hlen, hall⟩ := SurfProofs.QuantTop.quantizeDither_exact pal px hsub
    exact ⟨pal, is, by simp only [quantize, hfi, hq]; rfl, hnd, hmem, hlen, hall⟩

/-- a 2×2 image with three distinct colours and `k = 3` meets the hypotheses -/
example :
    let px : List RGB := [⟨255, 0, 0⟩, ⟨0, 255, 0⟩, ⟨255, 0, 0⟩, ⟨1, 2, 3⟩]
    px ≠ [] ∧ (∀ c ∈ px, c.r < 256 ∧ c.g < 256 ∧ c.b < 256) ∧
      (∀ S : List RGB, S.Nodup → (∀ c ∈ S, c ∈ px) → S.length ≤ 3) ∧ 255 * (2 * 2) < 2 ^ 64 ∧ 2 * 2 < 200 * 3 := by
  intro px
  refine ⟨by simp [px], by simp [px], ?_, by norm_num, by norm_num⟩
  intro S hS hsub
  have hsub' : S ⊆ [⟨255, 0, 0⟩, ⟨0, 255, 0⟩, ⟨1, 2, 3⟩] := by
    intro c hc
    have := hsub c hc
    simp only [px, List.mem_cons, List.not_mem_nil, or_false] at this
    rcases this with rfl | rfl | rfl | rfl <;> simp
  have := (hS.subperm hsub').length_le
  simpa using this

end SurfProofs.C13
