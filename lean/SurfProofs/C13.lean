import SurfModel.Quant
import SurfProofs.Lemmas.QuantKD
import SurfProofs.Lemmas.QuantTop
/-!
# C13 — colour quantisation: bounded palette, valid indices, exact nearest-colour search

Property theorems only (helper lemmas: `SurfProofs/Lemmas/Quant*.lean`).  Colours are RGB triples of
naturals (the `u8` components of the code are a sub-range), `dist` is the squared Euclidean
distance `(Δr)² + (Δg)² + (Δb)²` over `Int`.  An image is the row-major list `px` of its pixels
after compositing over the background, `h`, `w` its height and width, `k` the requested palette
size.  `quantize px h w k dither` is the model of `Image::quantize`; its outcomes are
`ok palette indices`, `inexact palette` (dithering met a non-zero error term: outside the modelled
domain, palette only), `none`, `panic`, `hang`.
-/
namespace SurfProofs.C13
open SurfModel.Quant

/-- Nearest-colour lookup (`ColorPalette::new(pal).find(q)` = `KDTree::new` + `find_rec`): for every
    non-empty palette — duplicates, clusters, any size — and every query colour the answer is an index
    into the palette, the colour stored there, and no palette entry is nearer to the query. -/
theorem C13_kd_nearest (pal : List RGB) (hne : pal ≠ []) (q : RGB) :
    ∃ i c, kdFind (kdNew pal) q = some (i, c) ∧ ∃ h : i < pal.length, pal[i] = c ∧
      ∀ j (hj : j < pal.length), dist q pal[i] ≤ dist q pal[j] :=
  SurfProofs.QuantKD.kd_nearest pal hne q

/-- the hypothesis is met by any palette with an entry, repeated entries included -/
example : ([⟨0, 0, 0⟩, ⟨255, 255, 255⟩, ⟨0, 0, 0⟩, ⟨10, 200, 30⟩] : List RGB) ≠ [] := by simp

/-- Quantising a non-empty image with a requested size `k ≥ 1` never panics, never hangs, never
    answers `None`, and the palette has between 1 and `max k 8` colours — although `prune` leaves the
    root summary stale when it drops a root-level leaf (so the palette may come out far smaller than
    requested, but never empty).  Without dithering the outcome is always `ok`. -/
theorem C13_palette_bounds (px : List RGB) (h w k : Nat) (dither : Bool)
    (hsize : px.length = h * w) (hne : px ≠ []) (hk : 1 ≤ k) :
    ∃ pal, ((∃ is, quantize px h w k dither = .ok pal is) ∨
            (dither = true ∧ quantize px h w k dither = .inexact pal)) ∧
      1 ≤ pal.length ∧ pal.length ≤ max k 8 := by
  obtain ⟨pal, hfi, h1, h2⟩ := SurfProofs.QuantTop.fromImage_bounds px h w k hsize hne hk
  have hpne : pal ≠ [] := by rintro rfl; simp at h1
  refine ⟨pal, ?_, h1, h2⟩
  cases dither with
  | false =>
    obtain ⟨is, hq, _, _⟩ := SurfProofs.QuantTop.quantizePlain_spec pal hpne px
    left; exact ⟨is, by simp only [quantize, hfi, hq]; rfl⟩
  | true =>
    rcases SurfProofs.QuantTop.quantizeDither_spec pal hpne px with hq | ⟨is, hq, _, _⟩
    · right; exact ⟨rfl, by simp only [quantize, hfi, hq]; rfl⟩
    · left; exact ⟨is, by simp only [quantize, hfi, hq]; rfl⟩

/-- a 2×3 image with five distinct colours, requested size 2 -/
example : ([⟨1, 2, 3⟩, ⟨1, 2, 3⟩, ⟨200, 0, 0⟩, ⟨0, 200, 0⟩, ⟨0, 0, 200⟩, ⟨9, 9, 9⟩] : List RGB).length = 2 * 3
    ∧ ([⟨1, 2, 3⟩, ⟨1, 2, 3⟩, ⟨200, 0, 0⟩, ⟨0, 200, 0⟩, ⟨0, 0, 200⟩, ⟨9, 9, 9⟩] : List RGB) ≠ [] ∧ 1 ≤ 2 := by
  simp

/-- The index image has one entry per pixel, every entry refers to a palette colour, and without
    dithering that colour is at minimal distance from the pixel among all palette colours; with
    dithering (modelled zero-error case) it is the pixel's colour itself. -/
theorem C13_indices (px : List RGB) (h w k : Nat) (dither : Bool) (pal : List RGB) (is : List Nat)
    (hsize : px.length = h * w) (hk : 1 ≤ k)
    (hq : quantize px h w k dither = .ok pal is) :
    is.length = px.length ∧
    ∀ p ∈ px.zip is, ∃ c, pal[p.2]? = some c ∧
      (dither = false → ∀ c' ∈ pal, dist p.1 c ≤ dist p.1 c') ∧ (dither = true → c = p.1) := by
  by_cases hne : px = []
  · subst hne
    simp [quantize, fromImage] at hq
  obtain ⟨pal', hfi, h1, _⟩ := SurfProofs.QuantTop.fromImage_bounds px h w k hsize hne hk
  have hpne : pal' ≠ [] := by rintro rfl; simp at h1
  cases dither with
  | false =>
    obtain ⟨is', hq', hlen, hall⟩ := SurfProofs.QuantTop.quantizePlain_spec pal' hpne px
    simp only [quantize, hfi, hq'] at hq
    simp only [Bool.false_eq_true, if_false, QRes.ok.injEq] at hq
    obtain ⟨rfl, rfl⟩ := hq
    refine ⟨hlen, fun p hp => ?_⟩
    obtain ⟨c, hc, hmin⟩ := hall p hp
    exact ⟨c, hc, ⟨fun _ => hmin, fun hd => (by cases hd)⟩⟩
  | true =>
    rcases SurfProofs.QuantTop.quantizeDither_spec pal' hpne px with hq' | ⟨is', hq', hlen, hall⟩
    · simp only [quantize, hfi, hq'] at hq
      simp at hq
    · simp only [quantize, hfi, hq'] at hq
      simp only [if_true, QRes.ok.injEq] at hq
      obtain ⟨rfl, rfl⟩ := hq
      refine ⟨hlen, fun p hp => ?_⟩
      exact ⟨p.1, hall p hp, ⟨fun hd => (by cases hd), fun _ => rfl⟩⟩

end SurfProofs.C13
