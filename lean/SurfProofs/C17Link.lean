import SurfProofs.C03
import SurfProofs.Lemmas.PollLoop
/-!
# C17 ↔ C02 / C03: the decoder parameter of the poll-loop model, instantiated with the verified tokenizer

`SurfModel.PollLoop` takes the decoder as a parameter `Dec` with a TOTAL `feed`.  The Rust loop is
`while let Some(event) = self.decoder.decode(&mut read_queue)? { … }`: an `Err` from the decoder would leave
`poll` with the rest of the read buffer undecoded — an input-loss path that a total `feed` cannot show.
This file discharges the gap for the production tokenizer (`SurfModel.Tokenizer`, the model proved in C02 / C03,
for EVERY automaton): `tokDec` mirrors the error path (on `Err`: nothing queued, state kept, rest dropped), and
`C17_link_decoder` shows that along any input stream from the initial decoder state that path is never taken
(`C03_conservation`, which is also what `C02_no_panic_stream_tokenizer` rests on), and that what the polls queue is the decoding of the concatenated stream (C03: read boundaries do not
matter) — the antecedent of `C17_order` (3), discharged for the real tokenizer.
(The step from tokenizer items to `TerminalEvent` payloads is C02's `C02_no_panic_stream`.)
-/
namespace SurfProofs.C17Link
open SurfModel SurfModel.PollLoop

variable {σ : Type}

def toBytes (bs : List Nat) : List UInt8 := bs.map UInt8.ofNat

/-- the tokenizer as decoder parameter: one `feed` = `decode_into` over one read; the `Err` branch is the `?` of
the Rust loop (nothing more is queued from this read, the decoder keeps its state) -/
def tokDec (A : Tokenizer.Auto σ) : Dec (Tokenizer.Item σ) (Tokenizer.DSt σ) where
  feed := fun s bs =>
    match Tokenizer.decodeInto A s (toBytes bs) with
    | .ok (items, s') => (s', items)
    | .error _ => (s, [])
  isSize := fun _ => false
  isDA := fun _ => false
  isCpr := fun _ => false
  handle := fun _ => (false, [])

theorem feedAll_tok (A : Tokenizer.Auto σ) (chunks : List (List Nat)) (s s' : Tokenizer.DSt σ)
    (per : List (List (Tokenizer.Item σ)))
    (h : Tokenizer.feedAll A s (chunks.map toBytes) = .ok (per, s')) :
    PollLoopLemmas.feedAll (tokDec A) s chunks = (s', per.flatten) := by
  induction chunks generalizing s per with
  | nil =>
    simp only [List.map_nil, Tokenizer.feedAll, Except.ok.injEq, Prod.mk.injEq] at h
    obtain ⟨h1, h2⟩ := h
    subst h1 h2
    rfl
  | cons c cs ih =>
    simp only [List.map_cons, Tokenizer.feedAll] at h
    split at h
    · cases h
    · rename_i items s1 hd
      split at h
      · cases h
      · rename_i more s2 hrest
        simp only [Except.ok.injEq, Prod.mk.injEq] at h
        obtain ⟨h1, h2⟩ := h
        subst h1 h2
        have := ih s1 more hrest
        simp only [PollLoopLemmas.feedAll, tokDec, hd, List.flatten_cons]
        simp only [tokDec] at this
        rw [this]

/-- **C17_link_decoder.** For every automaton and every sequence of reads from the initial decoder state:
the tokenizer never returns `Err` (so the loop's `?` never drops the rest of a read buffer), the decoder events the
polls queue — `feedAll` of `C17_order` (2) — are those of the chunk-wise run, and they are exactly the decoding of
the concatenated input stream with the same final decoder state (read boundaries do not matter). -/
theorem C17_link_decoder (A : Tokenizer.Auto σ) (chunks : List (List Nat)) :
    ∃ per s', Tokenizer.feedAll A (Tokenizer.init A) (chunks.map toBytes) = .ok (per, s') ∧
      PollLoopLemmas.feedAll (tokDec A) (Tokenizer.init A) chunks = (s', per.flatten) ∧
      Tokenizer.decodeInto A (Tokenizer.init A) (chunks.map toBytes).flatten = .ok (per.flatten, s') := by
  -- `C03_conservation` is the fact behind `C02_no_panic_stream_tokenizer`: the run succeeds
  obtain ⟨per, s', h, -⟩ := SurfProofs.C03.C03_conservation A (chunks.map toBytes)
  refine ⟨per, s', h, feedAll_tok A chunks _ _ _ h, ?_⟩
  have hc := SurfProofs.C03.C03_chunking A (chunks.map toBytes)
  rw [h] at hc
  simpa [SurfProofs.C03.flat] using hc.symm

end SurfProofs.C17Link
