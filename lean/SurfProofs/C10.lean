import SurfModel.ViewLayout
import SurfProofs.Lemmas.ViewLayout
/-!
# C10 — view layout honours constraints, never panics, draws where it says it does

`SurfModel.ViewLayout` mirrors `View::layout` / `View::render` of every view of the library
(text, str, glyph, image, fixed-size leaves, fill, scroll bar, none, flex, container, frame, tag,
dynamic), `Layout::apply_to`, `Tree::find_path`.  Panics are explicit outcomes of the model
(`Except Panic`); the theorems below rule them out.
-/
namespace SurfProofs.C10
open SurfModel SurfModel.ViewLayout SurfProofs.ViewLayoutL

/-- a valid constraint: `min ≤ max` in both dimensions -/
abbrev ValidCt (ct : Ct) : Prop := ct.min.h ≤ ct.max.h ∧ ct.min.w ≤ ct.max.w

/-- the extents of the constraint are `usize` values -/
abbrev MachineCt (ct : Ct) : Prop := ct.max.h < 2 ^ 64 ∧ ct.max.w < 2 ^ 64

/-- number of views, text cells and fallback characters of the tree (what has to fit into memory) -/
abbrev treeSize (v : V) : Nat := weight v

/-- **C10, totality.**  For every view tree (any flex factors, margins, sizes, alignments), both glyph
settings, and every constraint with `min ≤ max` whose extents are `usize` values (zero, one and
`usize::MAX` included), layout returns a layout tree — no `usize` overflow, no division by zero, no
`clamp` with `min > max`, no missing flex child node — and rendering that tree into any surface
returns `Ok`: every container / frame / tag / dynamic finds the child layout and the data it looks for.
Termination is by construction: both functions are structurally recursive Lean definitions.
The size hypothesis only says that the tree has fewer than `2^62` nodes + characters. -/
theorem C10_total (ctx : Ctx) (v : V) (ct : Ct) (hv : ValidCt ct) (hm : MachineCt ct) (hs : treeSize v < 2 ^ 62) :
    ∃ t, v.layout ctx ct = .ok t ∧ ∀ s : Shape, ∃ ps, v.render ctx s t = .ok ps := by
  have hw : 2 * weight v + 2 < U := by
    have : treeSize v = weight v := rfl
    have hU : U = 2 ^ 64 := rfl
    omega
  obtain ⟨t, e, hsh, _⟩ := layout_total ctx v ct hv hm hw
  exact ⟨t, e, render_ok ctx v t hsh⟩

example : ValidCt ⟨⟨0, 3⟩, ⟨0, 2 ^ 64 - 1⟩⟩ ∧ MachineCt ⟨⟨0, 3⟩, ⟨0, 2 ^ 64 - 1⟩⟩ ∧
    treeSize (.flex .hor .spaceAround [.mk (some (.fin 3 4)) (.offset (-2)) true (.frame (.scrollbar .ver)), .mk (some .pinf) .start false (.fill true),
      .mk none .shrink false (.container ⟨0, 2 ^ 64 - 1⟩ .expand .end_ ⟨2 ^ 64 - 1, 0, 1, 0⟩ true (.text [.ch .tab, .glyph 1 (2 ^ 64 - 1) [.w 2]] true))]) < 2 ^ 62 := by
  refine ⟨⟨by decide, by decide⟩, ⟨by decide, by decide⟩, ?_⟩
  simp [treeSize, weight, weightCs, cellsWeight, TCell.weight]

/-- the views whose reported size the property bounds: text (`Text`, `str`), flex, container, image,
glyph, fill (`RGBA`, `()`), and the leaves that clamp a fixed size (surface view, ascii image, probe) -/
inductive Reports : V → Prop
  | text (cells wraps) : Reports (.text cells wraps)
  | str (chars) : Reports (.str chars)
  | glyph (h w fb) : Reports (.glyph h w fb)
  | fixed (id h w) : Reports (.fixed id h w)
  | image (ph pw) : Reports (.image ph pw)
  | fill (p) : Reports (.fill p)
  | flex (dir j cs) : Reports (.flex dir j cs)
  | container (size av ah m face c) : Reports (.container size av ah m face c)

/-- **C10, within.**  Whatever such a view is given — any children, any context — the size it records
lies between `min` and `max` of the constraint, in both dimensions. -/
theorem C10_within (ctx : Ctx) (v : V) (hr : Reports v) (ct : Ct) (hv : ValidCt ct) (t : LT)
    (h : v.layout ctx ct = .ok t) :
    ct.min.h ≤ t.size.h ∧ t.size.h ≤ ct.max.h ∧ ct.min.w ≤ t.size.w ∧ t.size.w ≤ ct.max.w :=
  layout_within ctx v ct t (by cases hr <;> simp [ReportsB]) hv h

example : ValidCt ⟨⟨1, 0⟩, ⟨1, 7⟩⟩ ∧
    (V.flex .ver .spaceBetween [.mk none .center false (.fixed 1 3 9)]).layout ⟨true, ⟨37, 15⟩⟩ ⟨⟨1, 0⟩, ⟨1, 7⟩⟩
      = .ok (.node ⟨0, 0⟩ ⟨1, 7⟩ 0 [.node ⟨0, 0⟩ ⟨1, 7⟩ 0 []]) := by
  refine ⟨⟨by decide, by decide⟩, by rfl⟩

/-- `o` is an offset of a cell inside the window of the surface `s` (`Shape::offset` of an in-range
row and column) -/
abbrev InWindow (s : Shape) (o : Nat) : Prop := ∃ r c, r < s.height ∧ c < s.width ∧ o = s.start + r * s.rs + c * s.cs

/-- **C10, containment.**  Whatever layout tree is passed along (the one layout produced or any other),
every surface a view, a face fill or a frame border writes through is a sub-window of the surface
`render` was given: each of its in-window offsets is an in-window offset of that surface.  (What a
writer does inside the window it holds is C07 / C09.) -/
theorem C10_contained (ctx : Ctx) (v : V) (s : Shape) (t : LT) (ps : List Paint)
    (h : v.render ctx s t = .ok ps) : ∀ p ∈ ps, ∀ o, InWindow p.shape o → InWindow s o :=
  fun p hp o ho => render_sub ctx v s t ps h p hp o ho

/-- **C10, the image cell.**  An image view writes one cell, at the origin of the surface it holds after
`apply_to`, that the terminal later expands to `Cell::size` cells.  Because the image is cropped to the
size of that (clipped) surface first, the cells the image cell covers never reach past the surface —
for every image size, every pixels-per-cell value and every surface size. -/
theorem C10_image_extent (ppc : Size) (ph pw sh sw : Nat) (hh : sh < 2 ^ 64) (hw : sw < 2 ^ 64) :
    (imageExtent ppc ph pw sh sw).h ≤ sh ∧ (imageExtent ppc ph pw sh sw).w ≤ sw :=
  imageExtent_le ppc ph pw sh sw hh hw

example : imageExtent ⟨37, 15⟩ 300 300 2 8 = ⟨2, 8⟩ ∧ imageExtent ⟨37, 15⟩ 40 20 5 8 = ⟨2, 2⟩ := by decide

/-- **C10, paints where recorded (first part): every writer is handed exactly a recorded rectangle.**
`root` is any surface, `W` the rectangle of it that `render` is given (`winShape root W`, `none` = an
empty surface), `t` any layout tree.  `clip W pos size` is plain rectangle arithmetic: the rectangle
`[pos, pos + size)` relative to the origin of `W`, intersected with `W`.  `walk t W π` follows the child
indices `π` from `t` and composes `clip` along the way: it yields the layout node reached and the part of
its rectangle that is visible.  Every leaf view and every frame border writes through *exactly* the
surface covering that visible rectangle of some layout node; a face fill (container face, flex child
face) stays inside one. -/
theorem C10_paints_where_recorded (ctx : Ctx) (v : V) (root : Shape)
    (hroot : root.height < 2 ^ 64 ∧ root.width < 2 ^ 64) (W : Option Rect)
    (hW : ∀ w, W = some w → w.r0 < w.r1 ∧ w.c0 < w.c1 ∧ w.r1 ≤ root.height ∧ w.c1 ≤ root.width)
    (t : LT) (ps : List Paint) (h : v.render ctx (winShape root W) t = .ok ps) :
    ∀ p ∈ ps, ∃ (π : List Nat) (n : LT) (W' : Option Rect), walk t W π = some (n, W') ∧
      (if p.kind = .erase then ∀ o, InWindow p.shape o → InWindow (winShape root W') o
       else p.shape = winShape root W') :=
  fun p hp => render_recorded root hroot.1 hroot.2 ctx v W hW t ps h p hp

/-- `Layout::apply_to` itself is that clipping step (the lemma the theorem above composes along the path) -/
theorem C10_apply_to_clips (root : Shape) (hroot : root.height < 2 ^ 64 ∧ root.width < 2 ^ 64) (W : Option Rect)
    (hW : ∀ w, W = some w → w.r0 < w.r1 ∧ w.c0 < w.c1 ∧ w.r1 ≤ root.height ∧ w.c1 ≤ root.width) (t : LT) :
    applyTo t (winShape root W) = winShape root (clip W t.pos t.size) :=
  applyTo_clip root hroot.1 hroot.2 W hW t

example : clip (some ⟨2, 3, 7, 13⟩) ⟨4, 8⟩ ⟨5, 5⟩ = some ⟨6, 11, 7, 13⟩ ∧ clip (some ⟨2, 3, 7, 13⟩) ⟨5, 0⟩ ⟨5, 5⟩ = none := by
  decide

/-- **C10, hit testing.**  (a) For every layout tree and every position of a surface cell, `find_path`
returns the node, then the chain of the *first* child whose rectangle `[pos, pos + size)` covers the
position, for the position relative to that child — and stops where no child covers it (`HitChain`).
(b) If the cell `(R, C)` of the root surface lies in the visible rectangle of a node reached by the path
`π` (where a view was handed its surface, previous theorem), then every node along `π` covers the
position hit testing is asked for (`Along`); so the chain of (a) runs through the drawn view unless an
earlier sibling covers the same cell. -/
theorem C10_find_path (t : LT) :
    (∀ q : Pos, q.row + 1 < 2 ^ 64 ∧ q.col + 1 < 2 ^ 64 → HitChain t q (t.findPath q)) ∧
    (∀ (π : List Nat) (n : LT) (w w' : Rect) (R C : Nat), walk t (some w) π = some (n, some w') →
      w'.r0 ≤ R → R < w'.r1 → w'.c0 ≤ C → C < w'.c1 →
      Along t ⟨R - (w.r0 + t.pos.row), C - (w.c0 + t.pos.col)⟩ π) :=
  ⟨fun q hq => findPath_chain t q hq, fun π n w w' R C => walk_along π t n w w' R C⟩

/-- **C10, hit testing identifies the views drawn.**  Lay any tree out under any constraint, render the
result into the rectangle `w` of any root surface.  Every view (and frame border) then writes through
exactly the visible rectangle `W'` of a layout node reached by some path `π` (previous theorem), and for
every cell `(R, C)` of that rectangle, `find_path` — asked for the cell in the coordinates of the root
layout — returns the layouts along `π` first: root, …, the node of the view drawn there (`pathNodes`),
followed only by what that node's own children contribute.  The proof uses that the library never lays
siblings out on top of each other (`layout_tidy`: flex children are placed at non-decreasing, saturating
major offsets; every other view has at most one child). -/
theorem C10_hit_testing (ctx : Ctx) (v : V) (ct : Ct) (t : LT) (hl : v.layout ctx ct = .ok t)
    (root : Shape) (hroot : root.height < 2 ^ 64 ∧ root.width < 2 ^ 64) (w : Rect)
    (hw : w.r0 < w.r1 ∧ w.c0 < w.c1 ∧ w.r1 ≤ root.height ∧ w.c1 ≤ root.width)
    (ps : List Paint) (hr : v.render ctx (winShape root (some w)) t = .ok ps) :
    ∀ p ∈ ps, p.kind ≠ .erase → ∃ (π : List Nat) (n : LT) (W' : Option Rect),
      walk t (some w) π = some (n, W') ∧ p.shape = winShape root W' ∧
      ∀ (w' : Rect) (R C : Nat), W' = some w' → w'.r0 ≤ R → R < w'.r1 → w'.c0 ≤ C → C < w'.c1 →
        ∃ rest, t.findPath ⟨R - (w.r0 + t.pos.row), C - (w.c0 + t.pos.col)⟩ = pathNodes t π ++ rest := by
  intro p hp hk
  have hW : ∀ w0, some w = some w0 → w0.Inside root := by
    intro w0 e; injection e with e; subst e; exact hw
  obtain ⟨π, n, W', hwalk, hshape⟩ := render_recorded root hroot.1 hroot.2 ctx v (some w) hW t ps hr p hp
  simp only [hk, if_false] at hshape
  refine ⟨π, n, W', hwalk, hshape, ?_⟩
  intro w' R C hW' h1 h2 h3 h4
  subst hW'
  have hin := walk_inside π t n (some w) w' hW hwalk
  have halong := walk_along π t n w w' R C hwalk h1 h2 h3 h4
  have hU : U = 2 ^ 64 := rfl
  have hq : PosOk ⟨R - (w.r0 + t.pos.row), C - (w.c0 + t.pos.col)⟩ := by
    obtain ⟨_, _, a, b⟩ := hin
    constructor <;> (simp only; omega)
  exact tidy_hit_prefix π t _ (layout_tidy ctx v ct t hl) hq halong

example : (V.flex .hor .start [.mk none .start false (.fixed 1 1 2), .mk none .start false (.fixed 2 1 3)]).layout ⟨true, ⟨37, 15⟩⟩ ⟨⟨0, 0⟩, ⟨1, 9⟩⟩
      = .ok (.node ⟨0, 0⟩ ⟨1, 5⟩ 0 [.node ⟨0, 0⟩ ⟨1, 2⟩ 0 [], .node ⟨0, 2⟩ ⟨1, 3⟩ 0 []]) ∧
    (LT.node ⟨0, 0⟩ ⟨1, 5⟩ 0 [.node ⟨0, 0⟩ ⟨1, 2⟩ 0 [], .node ⟨0, 2⟩ ⟨1, 3⟩ 0 []]).findPath ⟨0, 2⟩ = [(⟨0, 0⟩, ⟨1, 5⟩), (⟨0, 2⟩, ⟨1, 3⟩)] := by
  refine ⟨by rfl, by decide⟩

end SurfProofs.C10
