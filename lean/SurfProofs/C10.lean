import SurfModel.ViewLayout
import SurfProofs.Lemmas.ViewLayout
/-!
# C10 — view layout honours constraints, never panics, draws where it says it does

`SurfModel.ViewLayout` mirrors `View::layout` / `View::render` of every view of the library
(text, str, glyph, image, fixed-size leaves, fill, scroll bar, none, flex, container, frame, tag,
dynamic), `Layout::apply_to`, `Tree::find_path`.  Panics are explicit outcomes of the model
(`Except Panic`); the theorems below rule them out.
-/
namespace SurfProofs.C10
open SurfModel SurfModel.ViewLayout SurfProofs.ViewLayoutL

/-- a valid constraint: `min ≤ max` in both dimensions -/
abbrev ValidCt (ct : Ct) : Prop := ct.min.h ≤ ct.max.h ∧ ct.min.w ≤ ct.max.w

/-- the extents of the constraint are `usize` values -/
abbrev MachineCt (ct : Ct) : Prop := ct.max.h < 2 ^ 64 ∧ ct.max.w < 2 ^ 64

/-- number of views, text cells and fallback characters of the tree (what has to fit into memory) -/
abbrev treeSize (v : V) : Nat := weight v

/-- **C10, totality.**  For every view tree (any flex factors, margins, sizes, alignments), both glyph
settings, and every constraint with `min ≤ max` whose extents are `usize` values (zero, one and
`usize::MAX` included), layout returns a layout tree — no `usize` overflow, no division by zero, no
`clamp` with `min > max`, no missing flex child node — and rendering that tree into any surface
returns `Ok`: every container / frame / tag / dynamic finds the child layout and the data it looks for.
Termination is by construction: both functions are structurally recursive Lean definitions.
The size hypothesis only says that the tree has fewer than `2^62` nodes + characters. -/
theorem C10_total (ctx : Ctx) (v : V) (ct : Ct) (hv : ValidCt ct) (hm : MachineCt ct) (hs : treeSize v < 2 ^ 62) :
    ∃ t, v.layout ctx ct = .ok t ∧ ∀ s : Shape, ∃ ps, v.render ctx s t = .ok ps := by
  have hw : 2 * weight v + 2 < U := by
    have : treeSize v = weight v := rfl
    have hU : U = 2 ^ 64 := rfl
    omega
  obtain ⟨t, e, hsh, _⟩ := layout_total ctx v ct hv hm hw
  exact ⟨t, e, render_ok ctx v t hsh⟩

example : ValidCt ⟨⟨0, 3⟩, ⟨0, 2 ^ 64 - 1⟩⟩ ∧ MachineCt ⟨⟨0, 3⟩, ⟨0, 2 ^ 64 - 1⟩⟩ ∧
    treeSize (.flex .hor .spaceAround [.mk (some ⟨3, 4⟩) (.offset (-2)) true (.frame (.scrollbar .ver)),
      .mk none .shrink false (.container ⟨0, 2 ^ 64 - 1⟩ .expand .end_ ⟨2 ^ 64 - 1, 0, 1, 0⟩ true (.text [.ch .tab, .glyph 1 (2 ^ 64 - 1) [.w 2]] true))]) < 2 ^ 62 := by
  refine ⟨⟨by decide, by decide⟩, ⟨by decide, by decide⟩, ?_⟩
  simp [treeSize, weight, weightCs, cellsWeight, TCell.weight]

/-- the views whose reported size the property bounds: text (`Text`, `str`), flex, container, image,
glyph, fill (`RGBA`, `()`), and the leaves that clamp a fixed size (surface view, ascii image, probe) -/
inductive Reports : V → Prop
  | text (cells wraps) : Reports (.text cells wraps)
  | str (chars) : Reports (.str chars)
  | glyph (h w fb) : Reports (.glyph h w fb)
  | fixed (id h w) : Reports (.fixed id h w)
  | image (ph pw) : Reports (.image ph pw)
  | fill (p) : Reports (.fill p)
  | flex (dir j cs) : Reports (.flex dir j cs)
  | container (size av ah m face c) : Reports (.container size av ah m face c)

/-- **C10, within.**  Whatever such a view is given — any children, any context — the size it records
lies between `min` and `max` of the constraint, in both dimensions. -/
theorem C10_within (ctx : Ctx) (v : V) (hr : Reports v) (ct : Ct) (hv : ValidCt ct) (t : LT)
    (h : v.layout ctx ct = .ok t) :
    ct.min.h ≤ t.size.h ∧ t.size.h ≤ ct.max.h ∧ ct.min.w ≤ t.size.w ∧ t.size.w ≤ ct.max.w :=
  layout_within ctx v ct t (by cases hr <;> simp [ReportsB]) hv h

example : ValidCt ⟨⟨1, 0⟩, ⟨1, 7⟩⟩ ∧
    (V.flex .ver .spaceBetween [.mk none .center false (.fixed 1 3 9)]).layout ⟨true, ⟨37, 15⟩⟩ ⟨⟨1, 0⟩, ⟨1, 7⟩⟩
      = .ok (.node ⟨0, 0⟩ ⟨1, 7⟩ 0 [.node ⟨0, 0⟩ ⟨1, 7⟩ 0 []]) := by
  refine ⟨⟨by decide, by decide⟩, by decide⟩

/-- `o` is an offset of a cell inside the window of the surface `s` (`Shape::offset` of an in-range
row and column) -/
abbrev InWindow (s : Shape) (o : Nat) : Prop := ∃ r c, r < s.height ∧ c < s.width ∧ o = s.start + r * s.rs + c * s.cs

/-- **C10, containment.**  Whatever layout tree is passed along (the one layout produced or any other),
every surface a view, a face fill or a frame border writes through is a sub-window of the surface
`render` was given: each of its in-window offsets is an in-window offset of that surface.  (What a
writer does inside the window it holds is C07 / C09.) -/
theorem C10_contained (ctx : Ctx) (v : V) (s : Shape) (t : LT) (ps : List Paint)
    (h : v.render ctx s t = .ok ps) : ∀ p ∈ ps, ∀ o, InWindow p.shape o → InWindow s o :=
  fun p hp o ho => render_sub ctx v s t ps h p hp o ho

end SurfProofs.C10
