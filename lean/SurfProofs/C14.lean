import SurfModel.Base64
import SurfProofs.Lemmas.Base64
/-!
# C14 — the streaming base64 codec follows RFC 4648 and round-trips under any chunking

Property theorems only. Model: `SurfModel.Base64` (mirrors `Base64Encoder` / `Base64Decoder`);
specification: `SurfModel.Base64.rfcEncode` (RFC 4648 §4 by 24-bit groups, alphabet by character ranges,
independent of the code's tables) and `sliceReadAll` (reading a byte slice from memory).
-/
namespace SurfProofs.C14
open SurfModel.Base64 SurfModel.Generated.Base64Tables SurfProofs.Lemmas.Base64

/-- RFC 4648 §10 test vectors for the specification itself ("", "f", "fo", "foo", "foob", "fooba", "foobar") -/
example : rfcEncode [] = [] := by decide
example : rfcEncode [102] = [90, 103, 61, 61] := by decide
example : rfcEncode [102, 111] = [90, 109, 56, 61] := by decide
example : rfcEncode [102, 111, 111] = [90, 109, 57, 118] := by decide
example : rfcEncode [102, 111, 111, 98] = [90, 109, 57, 118, 89, 103, 61, 61] := by decide
example : rfcEncode [102, 111, 111, 98, 97] = [90, 109, 57, 118, 89, 109, 69, 61] := by decide
example : rfcEncode [102, 111, 111, 98, 97, 114] = [90, 109, 57, 118, 89, 109, 70, 121] := by decide

/-- The tables compiled into the crate (regenerated on every run): the alphabet is Table 1 of RFC 4648, has
    64 entries none of which is `=`; the reverse table has 256 entries, all sextets, and inverts the alphabet
    (hence the alphabet is duplicate free). -/
theorem C14_tables :
    encodeTable = rfcAlphabet ∧ encodeTable.length = 64 ∧ decodeTable.length = 256 ∧
    (∀ i : Fin 64, decodeTable.getD (encodeTable.getD i.val 0) 0 = i.val) ∧
    (∀ i : Fin 64, encodeTable.getD i.val 0 ≠ 61 ∧ encodeTable.getD i.val 0 < 256) ∧
    (∀ i : Fin 256, decodeTable.getD i.val 0 < 64) ∧
    (∀ i j : Fin 64, encodeTable.getD i.val 0 = encodeTable.getD j.val 0 → i = j) := by
  refine ⟨encodeTable_rfc, encodeTable_length, decodeTable_length, decode_encode, encode_ne_pad, decode_lt, ?_⟩
  intro i j h
  have hi := decode_encode i
  have hj := decode_encode j
  rw [h] at hi
  exact Fin.ext (by omega)

/-- Encoding: whatever the sequence of `write` calls, `finish` returns exactly the RFC 4648 text of the
    concatenation of everything written (and no step panics). -/
theorem C14_encode (chunks : List (List UInt8)) :
    encodeChunks chunks = .ok (rfcEncode chunks.flatten) := by
  obtain ⟨e, hw, hs, hp⟩ := writes_spec chunks Enc.new (by decide)
  unfold encodeChunks
  rw [hw]
  simp only
  rw [finish_spec e hs, hp []]
  simp [pendingText, carry, Enc.new]

/-- Encoding with `flush` calls anywhere between the writes: `flush` neither emits the pending group nor
    forgets it — the result is still the RFC 4648 text of the bytes written. -/
theorem C14_encode_flush (ops : List EncOp) :
    encodeOps ops = .ok (rfcEncode (written ops)) := by
  obtain ⟨e, hw, hs, hp⟩ := runOps_spec ops Enc.new (by decide)
  unfold encodeOps
  rw [hw]
  simp only
  rw [finish_spec e hs, hp []]
  simp [pendingText, carry, Enc.new]

/-- Encoding into an arbitrary `io::Write`: the inner writer may accept only part of each buffer (any schedule of
    per-call maxima and `Interrupted` failures, then at most `tail` bytes per call for ever) and may become full
    (`room`). For every sequence of `write` / `flush` calls: if `finish` succeeds, exactly the RFC 4648 text of
    the bytes written has ARRIVED in the inner writer; if an I/O error is reported (only possible when the
    writer is full), what has arrived is a proper prefix of that text — symbols are never lost silently,
    reordered or invented; and nothing panics. -/
theorem C14_encode_sink (sched : List Nat) (tail : Nat) (room : Option Nat) (ops : List EncOp) :
    match encodeOpsS ⟨[], sched, tail, room⟩ ops with
    | .ok s => s.arrived = rfcEncode (written ops)
    | .ioerr s => room ≠ none ∧ ∃ q, q ≠ [] ∧ s.arrived ++ q = rfcEncode (written ops)
    | .panic => False := by
  have h := encodeOpsS_spec ⟨[], sched, tail, room⟩ ops rfl
  revert h
  generalize encodeOpsS ⟨[], sched, tail, room⟩ ops = r
  intro h
  cases r with
  | ok s => exact h.1
  | ioerr s => exact h
  | panic => exact h

/-- an inner writer that is never full: `finish` always succeeds and the whole text has arrived, however short
    its writes -/
theorem C14_encode_sink_unbounded (sched : List Nat) (tail : Nat) (ops : List EncOp) :
    ∃ s, encodeOpsS ⟨[], sched, tail, none⟩ ops = .ok s ∧ s.arrived = rfcEncode (written ops) := by
  have h := C14_encode_sink sched tail none ops
  revert h
  generalize encodeOpsS ⟨[], sched, tail, none⟩ ops = r
  intro h
  cases r with
  | ok s => exact ⟨s, rfl, h⟩
  | ioerr s => exact absurd rfl h.1
  | panic => exact absurd h id

/-- "foobar" written as "fo", flush, "obar" into a writer that takes one byte per call after an interrupted call -/
example : ∃ s, encodeOpsS ⟨[], [0, 2, 0], 1, none⟩ [.write [102, 111], .flush, .write [111, 98, 97, 114]] = .ok s ∧
    s.arrived = rfcEncode [102, 111, 111, 98, 97, 114] := by
  simpa [written] using
    C14_encode_sink_unbounded [0, 2, 0] 1 [.write [102, 111], .flush, .write [111, 98, 97, 114]]

/-- Decoding, refinement form: for every plain byte string `d`, every schedule of the underlying reader (any
    finite sequence of per-call maxima and `Interrupted` failures, then at most `tail` bytes per call for ever —
    e.g. one byte at a time) and every sequence of destination buffer sizes, reading the RFC 4648 text of `d`
    through the decoder is indistinguishable from reading `d` itself from memory with the same buffers. -/
theorem C14_decode (d : List UInt8) (sched : List Nat) (tail : Nat) (sizes : List Nat) :
    readAll (Dec.new ⟨rfcEncode d, sched, tail⟩) sizes = sliceReadAll d sizes :=
  readAll_rfc sizes _ d [] (DInv_new d sched tail)

/-- Decoding, round-trip form: as soon as the caller has offered buffers for at least `|d|` bytes and then one
    more non-empty buffer, it holds exactly `d` and has seen the end of input — whatever the schedule. -/
theorem C14_decode_all (d : List UInt8) (sched : List Nat) (tail : Nat) (pre post : List Nat) (s : Nat)
    (hs : 0 < s) (hpre : d.length ≤ pre.sum) :
    readAll (Dec.new ⟨rfcEncode d, sched, tail⟩) (pre ++ s :: post) = .eof d := by
  rw [C14_decode, sliceReadAll_complete pre d [] s post hs hpre]; rfl

/-- the hypotheses of `C14_decode_all` are met e.g. by seven one-byte reads of the 6-byte string "foobar"
    (text `Zm9vYmFy` by the test vector above), here through a reader that is interrupted and delivers one or
    two bytes per call -/
example : readAll (Dec.new ⟨rfcEncode [102, 111, 111, 98, 97, 114], [1, 0, 2, 1, 0, 0], 1⟩)
    (List.replicate 6 1 ++ 1 :: []) = .eof [102, 111, 111, 98, 97, 114] :=
  C14_decode_all _ _ _ _ _ _ (by decide) (by decide)

/-- encode then decode, any write partition, any reader schedule, any (sufficient) buffer sizes -/
theorem C14_roundtrip (chunks : List (List UInt8)) (sched : List Nat) (tail : Nat) (pre post : List Nat) (s : Nat)
    (hs : 0 < s) (hpre : chunks.flatten.length ≤ pre.sum) :
    ∃ text, encodeChunks chunks = .ok text ∧
      readAll (Dec.new ⟨text, sched, tail⟩) (pre ++ s :: post) = .eof chunks.flatten :=
  ⟨_, C14_encode chunks, C14_decode_all _ sched tail pre post s hs hpre⟩

/-- the hypotheses of `C14_roundtrip`: "foobar" written as "f", "", "ooba", "r", read back in buffers of 4, 4, 1 -/
example : ∃ text, encodeChunks [[102], [], [111, 111, 98, 97], [114]] = .ok text ∧
    readAll (Dec.new ⟨text, [3, 0], 1⟩) ([4, 4] ++ 1 :: []) = .eof [102, 111, 111, 98, 97, 114] :=
  C14_roundtrip [[102], [], [111, 111, 98, 97], [114]] _ _ _ _ _ (by decide) (by decide)

/-- Text whose length is not a multiple of four (arbitrary bytes): the caller never sees a clean end of input
    (no silent truncation) and no panic; it sees the error at the latest when it has offered more non-empty
    buffers than the text has bytes. -/
theorem C14_length_error (t : List UInt8) (sched : List Nat) (tail : Nat) (sizes : List Nat) (h : t.length % 4 ≠ 0) :
    (∀ b, readAll (Dec.new ⟨t, sched, tail⟩) sizes ≠ .eof b) ∧ readAll (Dec.new ⟨t, sched, tail⟩) sizes ≠ .panic ∧
    (t.length < (sizes.filter (0 < ·)).length → ∃ b, readAll (Dec.new ⟨t, sched, tail⟩) sizes = .error b) := by
  rcases readAll_residue sizes (Dec.new ⟨t, sched, tail⟩) [] (TInv_new _) (by simpa [phi, Dec.new] using h) with
    ⟨b, hb⟩ | ⟨⟨b, hb⟩, hc⟩
  · rw [hb]; exact ⟨fun _ => by simp, by simp, fun _ => ⟨b, rfl⟩⟩
  · rw [hb]
    refine ⟨fun _ => by simp, by simp, fun hlt => ?_⟩
    simp only [positives, psi, Dec.new, List.length_nil, Nat.zero_sub, Nat.zero_add] at hc
    omega

/-- the hypotheses of `C14_length_error` are met by the 7-byte text `Zm9vYmF` read with eight one-byte buffers -/
example : ∃ b, readAll (Dec.new ⟨[90, 109, 57, 118, 89, 109, 70], [1, 0, 2], 1⟩) (List.replicate 8 1) = .error b :=
  (C14_length_error _ _ _ _ (by decide)).2.2 (by decide)

/-- Totality: for arbitrary bytes as text, any schedule and any sequence of buffer sizes — errors included, the
    decoder staying in use after them — no `read` panics: every table index, every buffer slice and every
    copy is in range. (The encoder's freedom from panics is part of `C14_encode`.) -/
theorem C14_total (t : List UInt8) (sched : List Nat) (tail : Nat) (sizes : List Nat) :
    (∀ r ∈ readSeq (Dec.new ⟨t, sched, tail⟩) sizes, r ≠ .panic) ∧ readAll (Dec.new ⟨t, sched, tail⟩) sizes ≠ .panic := by
  refine ⟨readSeq_no_panic sizes _ (TInv_new _), ?_⟩
  exact readAll_no_panic sizes _ [] (TInv_new _)

/-- The client of the decoder inside the crate (`Deserialize for Image`: `read_to_end`, then the size check): the
    RFC 4648 text of `d` is read back as exactly `d`; a `data` text whose length is not a multiple of four makes
    `read_to_end` fail, so the document is rejected whatever its size fields say — in particular when the whole
    groups end exactly where the decoder's 63-byte refill ends. -/
theorem C14_client :
    (∀ d : List UInt8, readToEnd (rfcEncode d) = some d) ∧
    (∀ t : List UInt8, t.length % 4 ≠ 0 → readToEnd t = none ∧ ∀ h w ch, imageAccept h w ch t = none) := by
  constructor
  · intro d
    unfold readToEnd
    have hrep : List.replicate ((rfcEncode d).length + 1) 32 = List.replicate (rfcEncode d).length 32 ++ 32 :: [] := by
      rw [List.replicate_succ']
    rw [hrep, C14_decode_all d [] 0 _ [] 32 (by decide) (by
      have := rfcEncode_len_ge d
      rw [sum_replicate_nat]; omega)]
  · intro t ht
    have hnone : readToEnd t = none := by
      unfold readToEnd
      have h := (C14_length_error t [] 0 (List.replicate (t.length + 1) 32) ht).1
      revert h
      generalize readAll (Dec.new ⟨t, [], 0⟩) (List.replicate (t.length + 1) 32) = r
      intro h
      cases r with
      | eof b => exact absurd rfl (h b)
      | error b => rfl
      | panic => rfl
      | pending b => rfl
    exact ⟨hnone, fun h w ch => by unfold imageAccept; rw [hnone]⟩

/-- the second part is not vacuous: 84 symbols (21 whole groups = one refill of the decoder) plus one stray symbol -/
example : (List.replicate 85 (65 : UInt8)).length % 4 ≠ 0 := by decide

end SurfProofs.C14
