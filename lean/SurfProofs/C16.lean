import SurfProofs.Lemmas.PollWrite
/-!
# C16 — terminal output is delivered in order, exactly once; frames are never torn

Model: `SurfModel.IOQueue` (`common::IOQueue`, every public method) and `SurfModel.PollWrite` (write side of
`UnixTerminal`: `write`/`execute`, `flush`, `frames_drop`, `poll` under an arbitrary schedule of short writes /
EAGAIN / not-writable iterations / writes queued by the poll loop itself).

Specification (`SurfProofs.C16Spec.Spec`): a FIFO byte stream `sent | buf` with flush marks. Bytes enter at the
end of `buf` (`write`), leave from its front into `sent` (`take`), and a `drop` may only cut `buf` at a position
at which the producer called flush (or nowhere).  `abs q` = the bytes still readable from the chunked queue;
`drain?` shows they are exactly what successive `read` calls return.

All theorems quantify over every sequence of calls starting from the empty queue; `none` in the model stands
for a Rust panic (slice index out of range, `usize` underflow), so `… = some …` is "no panic".
-/
namespace SurfProofs.C16
open SurfModel.IOQueue SurfModel.PollWrite SurfProofs.C16Spec

/-- **C16_queue.** After any interleaving of write / flush / read / consume / consume_with / clear_but_last on
the byte queue: no call panicked; every `read`/`consume` so far took a prefix of the then-readable bytes
(`Accepts`); `len()` is exactly the number of readable bytes; `is_empty()` implies nothing is readable; the
readable bytes are what reading chunk by chunk returns; and each further call acts on the readable bytes as a
FIFO: `write` appends, `read` returns a prefix of at most `n` bytes (exactly the front slice cut to `n`) and
leaves the rest, `consume` removes a prefix, `flush` changes nothing, `clear_but_last` keeps a prefix.
Without drops, what was taken followed by what is readable is exactly what was written. -/
theorem C16_queue (ops : List Op) :
    ∃ q evs, Q.new.run? ops = some (q, evs) ∧ Spec.init.Accepts evs ∧
      q.len = (abs q).length ∧
      (q.isEmpty = true → abs q = []) ∧
      drain? q.chunksCount q = some (abs q) ∧
      (∀ b, abs (q.write b) = abs q ++ b ∧ (q.write b).len = q.len + b.length) ∧
      (∀ n, ∃ sl out q', q.asSlice? = some sl ∧ q.read? n = some (out, q') ∧ out = sl.take n ∧
        out.length ≤ n ∧ abs q = out ++ abs q' ∧ q'.len = (abs q').length) ∧
      (∀ n, ∃ q' k, q.consume? n = some q' ∧ k ≤ n ∧ abs q' = (abs q).drop k ∧ q'.len = (abs q').length) ∧
      (∃ q', q.flush? = some q' ∧ abs q' = abs q ∧ q'.len = q.len) ∧
      (∃ q', q.clearButLast? = some q' ∧ abs q' <+: abs q ∧ q'.len = (abs q').length) ∧
      (taken evs ++ abs q).Sublist (written evs) ∧
      (noDrop evs → taken evs ++ abs q = written evs) := by
  obtain ⟨q, evs, hrun, hacc, hR⟩ := run_R ops R_init
  have hsent : (Spec.init.run evs).sent = taken evs := by rw [run_sent]; rfl
  refine ⟨q, evs, hrun, hacc, ?_, ?_, drain_R hR, ?_, ?_, ?_, ?_, ?_, ?_, ?_⟩
  · rw [Q.len, hR.len_eq, hR.abs_eq]
  · intro he
    have : q.chunks = [] := by simpa [Q.isEmpty] using he
    simp [abs, this]
  · intro b
    exact ⟨write_abs q b hR.off, by simp [Q.write, Q.len]⟩
  · intro n
    obtain ⟨sl, hsl, _, _⟩ := asSlice_of_R hR
    obtain ⟨q', sl', hsl', hq, _, hr, habs, _⟩ := consume_R (min n sl.length) hR
    have e : sl' = sl := by rw [hsl] at hsl'; exact (Option.some.inj hsl').symm
    subst e
    have ht : sl'.take (min n sl'.length) = sl'.take n := by
      rcases Nat.le_total n sl'.length with h | h
      · rw [Nat.min_eq_left h]
      · rw [Nat.min_eq_right h, List.take_of_length_le h, List.take_of_length_le (Nat.le_refl _)]
    refine ⟨sl', sl'.take n, q', hsl, by simp [Q.read?, hsl, hq, ht], rfl, by simp; omega, ?_, ?_⟩
    · rw [← ht]; exact habs
    · rw [Q.len, hr.len_eq, hr.abs_eq]
  · intro n
    obtain ⟨q', sl, _, hq, _, hr, habs, _⟩ := consume_R n hR
    refine ⟨q', (sl.take n).length, hq, by simp; omega, ?_, by rw [Q.len, hr.len_eq, hr.abs_eq]⟩
    rw [habs]; simp
  · obtain ⟨q', hq, hr, habs⟩ := flush_R hR
    refine ⟨q', hq, habs, ?_⟩
    rw [Q.len, Q.len, hr.len_eq, hR.len_eq]; rfl
  · obtain ⟨q', hq, _, hr, _⟩ := clear_R hR
    refine ⟨q', hq, ?_, by rw [Q.len, hr.len_eq, hr.abs_eq]⟩
    rw [hr.abs_eq, hR.abs_eq]; exact List.take_prefix _ _
  · have := conserve_sublist Spec.init evs hacc
    rw [hsent, ← hR.abs_eq] at this
    simpa [Spec.init] using this
  · intro hn
    have := conserve Spec.init evs hacc hn
    rw [hsent, ← hR.abs_eq] at this
    simpa [Spec.init] using this

/-- **C16_delivery.** For every program of write/execute, flush, frames_drop and poll calls and *every* schedule
of the environment inside each poll (short writes, EAGAIN, iterations without writability, writes queued by the
loop itself, early exit): no panic; the trace is a run of the FIFO specification, i.e. the bytes handed to the
tty (`taken`) are, call by call, prefixes of what was then pending; afterwards
`bytes handed to the tty ++ bytes still queued` is the program's output in program order with only bytes removed
by `frames_drop` missing (never duplicated or reordered), and it is *exactly* the program's output when no
`frames_drop` occurred. -/
theorem C16_delivery (ops : List TOp) :
    ∃ q evs, trun? Q.new ops = some (q, evs) ∧ Spec.init.Accepts evs ∧
      (Spec.init.run evs).sent = taken evs ∧ (Spec.init.run evs).buf = abs q ∧
      q.len = (abs q).length ∧
      written evs = progWritten ops ∧
      (taken evs ++ abs q).Sublist (progWritten ops) ∧
      ((∀ op ∈ ops, isDrop op = false) → taken evs ++ abs q = progWritten ops) := by
  obtain ⟨q, evs, hrun, hacc, hR⟩ := trun_sim ops R_init
  have hsent : (Spec.init.run evs).sent = taken evs := by rw [run_sent]; rfl
  obtain ⟨hw, hnd⟩ := trun_written ops hrun
  refine ⟨q, evs, hrun, hacc, hsent, hR.abs_eq.symm, by rw [Q.len, hR.len_eq, hR.abs_eq], hw, ?_, ?_⟩
  · have := conserve_sublist Spec.init evs hacc
    rw [hsent, ← hR.abs_eq, hw] at this
    simpa [Spec.init] using this
  · intro hall
    have := conserve Spec.init evs hacc (hnd hall)
    rw [hsent, ← hR.abs_eq, hw] at this
    simpa [Spec.init] using this

/-- **C16_drop.** In every reachable state of the terminal's queue `frames_drop` (= `clear_but_last`) does not
panic, keeps the front chunk — the only one that can have been partly handed to the tty — together with the
read offset, so that exactly the unsent rest of the front chunk remains readable; `len()` is exact afterwards;
and the cut falls on a position at which the program called flush (or nothing is dropped): whole
flush-delimited chunks that have not started transmission, nothing else. -/
theorem C16_drop (ops : List TOp) :
    ∃ q evs q', trun? Q.new ops = some (q, evs) ∧ q.clearButLast? = some q' ∧
      q'.chunks = q.chunks.take 1 ∧ q'.offset = q.offset ∧
      q.asSlice? = some (abs q') ∧
      q'.len = (abs q').length ∧
      (q'.len ∈ (Spec.init.run evs).marks ∨ q'.len = (Spec.init.run evs).buf.length) ∧
      abs q' = ((Spec.init.run evs).buf).take q'.len := by
  obtain ⟨q, evs, hrun, _, hR⟩ := trun_sim ops R_init
  obtain ⟨q', hq, hleg, hr, hch, hoff, hsl⟩ := clear_R hR
  refine ⟨q, evs, q', hrun, hq, hch, hoff, hsl, by rw [Q.len, hr.len_eq, hr.abs_eq], hleg.1, ?_⟩
  rw [hr.abs_eq]; rfl

/-! ### concrete witnesses (the statements are not vacuous) -/

/-- the pinned tree's witness: three frames, drop — `len()` is 3 (it used to stay 8), 3 bytes readable -/
example :
    (Q.new.run? [.write [1, 2, 3], .flush, .write [4, 5, 6], .flush, .write [7, 8], .clear]).map
      (fun r => (r.1.len, abs r.1)) = some (3, [1, 2, 3]) := by decide

/-- a schedule with a short write, EAGAIN, a not-writable iteration and a drop of two whole frames while the
first one is half sent: the tty got `1 2`, `3` is still queued, the later frames are gone -/
example :
    (trun? Q.new [.write [1, 2, 3], .flush, .write [4, 5], .poll [⟨some 2, []⟩, ⟨some 0, []⟩, ⟨none, []⟩],
        .write [6], .drop]).map (fun r => (taken r.2, abs r.1, r.1.chunks)) =
      some ([1, 2], [3], [[1, 2, 3]]) := by decide

/-- a poll iteration that queues bytes itself (size query after SIGWINCH): they are sent after the older ones -/
example :
    (trun? Q.new [.write [1, 2], .poll [⟨some 1, [[9]]⟩, ⟨some 5, []⟩, ⟨some 5, []⟩]]).map
      (fun r => (taken r.2, abs r.1)) = some ([1, 2, 9], []) := by decide

end SurfProofs.C16
