import SurfProofs.Lemmas.PollWrite
/-!
# C16 — terminal output is delivered in order, exactly once; frames are never torn

Model: `SurfModel.IOQueue` (`common::IOQueue`, every public method) and `SurfModel.PollWrite` (write side of
`UnixTerminal`: `write`/`execute`, `flush`, `frames_drop`, `poll` under an arbitrary schedule of short writes /
EAGAIN / not-writable iterations / writes queued by the poll loop itself).

Specification (`SurfProofs.C16Spec.Spec`): a FIFO byte stream `sent | buf` with flush marks. Bytes enter at the
end of `buf` (`write`), leave from its front into `sent` (`take`), and a `drop` may only cut `buf` at a position
at which the producer called flush (or nowhere).  `abs q` = the bytes still readable from the chunked queue;
`drain?` shows they are exactly what successive `read` calls return.

All theorems quantify over every sequence of calls starting from the empty queue; `none` in the model stands
for a Rust panic (slice index out of range, `usize` underflow), so `… = some …` is "no panic".
-/
namespace SurfProofs.C16
open SurfModel.IOQueue SurfModel.PollWrite SurfProofs.C16Spec

/-- **C16_queue.** After any interleaving of write / flush / read / consume / consume_with / clear_but_last on
the byte queue (total number of bytes written within `usize`; call arguments are arbitrary, `usize::MAX`
included): no call panicked — no slice index out of range, no `usize` overflow or underflow; every
`read`/`consume` so far took a prefix of the then-readable bytes (`Accepts`); `len()` is exactly the number of
readable bytes; `is_empty()` implies nothing is readable; the readable bytes are what reading chunk by chunk
returns; and each further call acts on the readable bytes as a FIFO: `write` appends, `read` returns a prefix
of at most `n` bytes (exactly the front slice cut to `n`) and leaves the rest, `consume n` removes a prefix for
*every* `n`, `flush` changes nothing, `clear_but_last` keeps a prefix.
Without drops, what was taken followed by what is readable is exactly what was written. -/
theorem C16_queue (ops : List Op) (hfit : (opsWritten ops).length ≤ usizeMax) :
    ∃ q evs, Q.new.run? ops = some (q, evs) ∧ Spec.init.Accepts evs ∧
      q.len = (abs q).length ∧
      (q.isEmpty = true → abs q = []) ∧
      drain? q.chunksCount q = some (abs q) ∧
      (∀ b, (opsWritten ops).length + b.length ≤ usizeMax →
        ∃ q', q.write? b = some q' ∧ abs q' = abs q ++ b ∧ q'.len = q.len + b.length) ∧
      (∀ n, ∃ sl out q', q.asSlice? = some sl ∧ q.read? n = some (out, q') ∧ out = sl.take n ∧
        out.length ≤ n ∧ abs q = out ++ abs q' ∧ q'.len = (abs q').length) ∧
      (∀ n, ∃ q' k, q.consume? n = some q' ∧ k ≤ n ∧ abs q' = (abs q).drop k ∧ q'.len = (abs q').length) ∧
      (∃ q', q.flush? = some q' ∧ abs q' = abs q ∧ q'.len = q.len) ∧
      (∃ q', q.clearButLast? = some q' ∧ abs q' <+: abs q ∧ q'.len = (abs q').length) ∧
      (taken evs ++ abs q).Sublist (written evs) ∧
      (noDrop evs → taken evs ++ abs q = written evs) := by
  obtain ⟨q, evs, hrun, hacc, hR, hw, _⟩ := run_R ops R_init (by simpa [Spec.init, Spec.size] using hfit)
  have hsent : (Spec.init.run evs).sent = taken evs := by rw [run_sent]; rfl
  have hsz : (Spec.init.run evs).size ≤ (opsWritten ops).length := by
    have := size_run_le hacc
    rw [hw] at this
    simpa [Spec.init, Spec.size] using this
  have hsz' : (Spec.init.run evs).size ≤ usizeMax := by omega
  refine ⟨q, evs, hrun, hacc, ?_, ?_, drain_R hR hsz', ?_, ?_, ?_, ?_, ?_, ?_, ?_⟩
  · rw [Q.len, hR.len_eq, hR.abs_eq]
  · intro he
    have : q.chunks = [] := by simpa [Q.isEmpty] using he
    simp [abs, this]
  · intro b hb
    obtain ⟨hwr, _⟩ := write_R b hR (by omega)
    exact ⟨writeN q b, hwr, write_abs q b hR.off, by simp [writeN, Q.len]⟩
  · intro n
    obtain ⟨sl, hsl, _, _⟩ := asSlice_of_R hR
    obtain ⟨q', sl', hsl', hq, _, hr, habs, _⟩ := consume_R (min n sl.length) hR hsz'
    have e : sl' = sl := by rw [hsl] at hsl'; exact (Option.some.inj hsl').symm
    subst e
    have ht : sl'.take (min n sl'.length) = sl'.take n := by
      rcases Nat.le_total n sl'.length with h | h
      · rw [Nat.min_eq_left h]
      · rw [Nat.min_eq_right h, List.take_of_length_le h, List.take_of_length_le (Nat.le_refl _)]
    refine ⟨sl', sl'.take n, q', hsl, by simp [Q.read?, hsl, hq, ht], rfl, by simp; omega, ?_, ?_⟩
    · rw [← ht]; exact habs
    · rw [Q.len, hr.len_eq, hr.abs_eq]
  · intro n
    obtain ⟨q', sl, _, hq, _, hr, habs, _⟩ := consume_R n hR hsz'
    refine ⟨q', (sl.take n).length, hq, by simp; omega, ?_, by rw [Q.len, hr.len_eq, hr.abs_eq]⟩
    rw [habs]; simp
  · obtain ⟨q', hq, hr, habs⟩ := flush_R hR
    refine ⟨q', hq, habs, ?_⟩
    rw [Q.len, Q.len, hr.len_eq, hR.len_eq]; rfl
  · obtain ⟨q', hq, _, hr, _⟩ := clear_R hR
    refine ⟨q', hq, ?_, by rw [Q.len, hr.len_eq, hr.abs_eq]⟩
    rw [hr.abs_eq, hR.abs_eq]; exact List.take_prefix _ _
  · have := conserve_sublist Spec.init evs hacc
    rw [hsent, ← hR.abs_eq] at this
    simpa [Spec.init] using this
  · intro hn
    have := conserve Spec.init evs hacc hn
    rw [hsent, ← hR.abs_eq] at this
    simpa [Spec.init] using this

/-- **C16_delivery.** For both kinds of terminal (`sizeEsc`: size taken from escape sequences, in which
`frames_drop` re-queues the 10-byte size query — the library's own bytes, like those the poll loop queues on
SIGWINCH — or from the ioctl), for every program of write/execute, flush, frames_drop and poll calls and
*every* schedule of the environment inside each poll (short writes, EAGAIN, iterations without writability,
writes queued by the loop itself, early exit), total output within `usize`: no panic; the trace is a run of
the FIFO specification, i.e. the bytes handed to the tty (`taken`) are, call by call, prefixes of what was then
pending; afterwards `bytes handed to the tty ++ bytes still queued` is the output (program payloads and library
bytes, in call order) with only bytes removed by `frames_drop` missing (never duplicated or reordered), and it
is *exactly* that output when no `frames_drop` occurred. -/
theorem C16_delivery (sizeEsc : Bool) (ops : List TOp)
    (hfit : (progWritten sizeEsc ops).length ≤ usizeMax) :
    ∃ q evs, trun? sizeEsc Q.new ops = some (q, evs) ∧ Spec.init.Accepts evs ∧
      (Spec.init.run evs).sent = taken evs ∧ (Spec.init.run evs).buf = abs q ∧
      q.len = (abs q).length ∧
      written evs = progWritten sizeEsc ops ∧
      (taken evs ++ abs q).Sublist (progWritten sizeEsc ops) ∧
      ((∀ op ∈ ops, isDrop op = false) → taken evs ++ abs q = progWritten sizeEsc ops) := by
  obtain ⟨q, evs, hrun, hacc, hR, hw, hnd⟩ :=
    trun_sim sizeEsc ops R_init (by simpa [Spec.init, Spec.size] using hfit)
  have hsent : (Spec.init.run evs).sent = taken evs := by rw [run_sent]; rfl
  refine ⟨q, evs, hrun, hacc, hsent, hR.abs_eq.symm, by rw [Q.len, hR.len_eq, hR.abs_eq], hw, ?_, ?_⟩
  · have := conserve_sublist Spec.init evs hacc
    rw [hsent, ← hR.abs_eq, hw] at this
    simpa [Spec.init] using this
  · intro hall
    have hn : noDrop evs := hnd (by
      rw [List.all_eq_true]
      intro op hop
      simp [hall op hop])
    have := conserve Spec.init evs hacc hn
    rw [hsent, ← hR.abs_eq, hw] at this
    simpa [Spec.init] using this

/-- **C16_drop.** In every reachable state of the terminal's queue `frames_drop` does not panic. Its cut
(`clear_but_last`, state `q'`) keeps the front chunk — the only one that can have been partly handed to the
tty — together with the read offset, so that exactly the unsent rest of the front chunk remains readable;
`len()` is exact; and the cut falls on a position at which the program called flush (or nothing is dropped):
whole flush-delimited chunks that have not started transmission, nothing else. In escape-sequence size mode
the size query is then appended behind what was kept (state `q''`: it extends the kept chunk, which may be
partly sent, or starts a chunk when the queue was empty); otherwise `q'' = q'`. -/
theorem C16_drop (sizeEsc : Bool) (ops : List TOp)
    (hfit : (progWritten sizeEsc ops).length + getTermSize.length ≤ usizeMax) :
    ∃ q evs q' q'' evs', trun? sizeEsc Q.new ops = some (q, evs) ∧ q.clearButLast? = some q' ∧
      q'.chunks = q.chunks.take 1 ∧ q'.offset = q.offset ∧
      q.asSlice? = some (abs q') ∧
      q'.len = (abs q').length ∧
      (q'.len ∈ (Spec.init.run evs).marks ∨ q'.len = (Spec.init.run evs).buf.length) ∧
      abs q' = ((Spec.init.run evs).buf).take q'.len ∧
      framesDrop? sizeEsc q = some (q'', evs') ∧
      q''.chunks = (if sizeEsc then appendLast q'.chunks getTermSize else q'.chunks) ∧
      q''.offset = q'.offset ∧
      abs q'' = abs q' ++ (if sizeEsc then getTermSize else []) ∧
      q''.len = (abs q'').length := by
  obtain ⟨q, evs, hrun, hacc, hR, hw, _⟩ :=
    trun_sim sizeEsc ops R_init (by simp only [Spec.init, Spec.size, List.length_nil]; omega)
  have hsz : (Spec.init.run evs).size ≤ (progWritten sizeEsc ops).length := by
    have := size_run_le hacc
    rw [hw] at this
    simpa [Spec.init, Spec.size] using this
  obtain ⟨q', hq, hleg, hr, hch, hoff, hsl⟩ := clear_R hR
  have hsz2 := size_apply_le hleg
  simp only [written, List.length_nil, Nat.add_zero] at hsz2
  have hcut : abs q' = ((Spec.init.run evs).buf).take q'.len := by rw [hr.abs_eq]; rfl
  cases sizeEsc with
  | false =>
    refine ⟨q, evs, q', q', [.drop q'.length], hrun, hq, hch, hoff, hsl, by rw [Q.len, hr.len_eq, hr.abs_eq],
      hleg.1, hcut, by simp [framesDrop?, hq], by simp, rfl, by simp, by rw [Q.len, hr.len_eq, hr.abs_eq]⟩
  | true =>
    obtain ⟨hwr, hr2⟩ := write_R getTermSize hr (by omega)
    refine ⟨q, evs, q', writeN q' getTermSize, [.drop q'.length, .write getTermSize], hrun, hq, hch, hoff, hsl,
      by rw [Q.len, hr.len_eq, hr.abs_eq], hleg.1, hcut, by simp [framesDrop?, hq, hwr], by simp [writeN],
      rfl, by simpa using write_abs q' getTermSize hr.off, by rw [Q.len, hr2.len_eq, hr2.abs_eq]⟩

/-! ### concrete witnesses (the statements and their hypotheses are not vacuous) -/

/-- the byte-budget hypothesis is met by any realistic program, e.g. -/
example : (progWritten true [.write [1, 2, 3], .flush, .drop, .poll [⟨some 1, [[9]]⟩]]).length + getTermSize.length
    ≤ usizeMax := by decide

/-- the pinned tree's witness: three frames, drop — `len()` is 3 (it used to stay 8), 3 bytes readable -/
example :
    (Q.new.run? [.write [1, 2, 3], .flush, .write [4, 5, 6], .flush, .write [7, 8], .clear]).map
      (fun r => (r.1.len, abs r.1)) = some (3, [1, 2, 3]) := by decide

/-- `consume(usize::MAX)` after a partial read (used to overflow in `offset + amt`): pops the front chunk -/
example :
    (Q.new.run? [.write [1, 2, 3], .read 1, .consume usizeMax, .write [4]]).map
      (fun r => (r.1.len, abs r.1, r.1.offset)) = some (1, [4], 0) := by decide

/-- a schedule with a short write, EAGAIN, a not-writable iteration and a drop of two whole frames while the
first one is half sent: the tty got `1 2`, `3` is still queued, the later frames are gone -/
example :
    (trun? false Q.new [.write [1, 2, 3], .flush, .write [4, 5], .poll [⟨some 2, []⟩, ⟨some 0, []⟩, ⟨none, []⟩],
        .write [6], .drop]).map (fun r => (taken r.2, abs r.1, r.1.chunks)) =
      some ([1, 2], [3], [[1, 2, 3]]) := by decide

/-- the same in escape-sequence size mode: the size query follows the unsent rest of the kept frame, in the
same chunk -/
example :
    (trun? true Q.new [.write [1, 2, 3], .flush, .write [4, 5], .poll [⟨some 2, []⟩], .write [6], .drop]).map
      (fun r => (taken r.2, abs r.1, r.1.chunks.length)) = some ([1, 2], 3 :: getTermSize, 1) := by decide

/-- a poll iteration that queues bytes itself (size query after SIGWINCH): they are sent after the older ones -/
example :
    (trun? false Q.new [.write [1, 2], .poll [⟨some 1, [[9]]⟩, ⟨some 5, []⟩, ⟨some 5, []⟩]]).map
      (fun r => (taken r.2, abs r.1)) = some ([1, 2, 9], []) := by decide

end SurfProofs.C16
