import Mathlib.Algebra.Order.Field.Basic
import Mathlib.Algebra.Order.Ring.Int
import Mathlib.Algebra.Order.Ring.Rat
import SurfProofs.Lemmas.Color256
import SurfProofs.Lemmas.ColorTables
import SurfProofs.Lemmas.ColorExact
import SurfProofs.Lemmas.ColorExactReal
/-!
# C20 — colours reduced for 256-colour and grey terminals are the closest available ones

Lean's `Float` is opaque to the kernel; the theorems are stated for an arbitrary linearly ordered
commutative ring `K` (ℚ, ℝ, and the scaled integers the model driver computes with are instances), with the
tables as parameters.  The only property of the division the proofs use is `3 * ((r + g + b) / 3) = r + g + b`
(hypothesis `hmean`): it holds in every ordered field (`C20_optimal_field`) and for the driver's integers,
which are multiples of 3 by construction (`C20_optimal_tables`, over the tables regenerated from /repo).

Specification side (independent of the model): `xtermEntry` — the layout of the xterm 256-colour palette;
`dist` — squared Euclidean distance; `readIndexed` / `readDirect` — how a terminal reads `38;5;n` and
`38;2;r;g;b`; `ansiGrey` — the four achromatic ANSI colours in order of brightness; `SrgbClose` — the sRGB
transfer function.
-/
set_option linter.unusedSectionVars false

namespace SurfProofs.C20
open SurfModel.Color256 SurfProofs.Lemmas.Color256 SurfProofs.Lemmas.ColorTables
open SurfProofs.Lemmas.ColorExact
open SurfModel.Generated

variable {K : Type} [CommRing K] [LinearOrder K] [IsStrictOrderedRing K]

/-! ## specification vocabulary -/

/-- Colour of entry `idx` of the xterm 256-colour palette, for a cube with levels `cube` (6) and a grey ramp
`greys` (24): `16 + 36 r + 6 g + b` is the cube entry with level numbers `r g b`, `232 + i` the `i`-th grey.
Entries `0 … 15` (system colours) have no defined colour. -/
def xtermEntry (cube greys : List K) (idx : Nat) : Option (K × K × K) :=
  if 16 ≤ idx ∧ idx < 232 then
    match cube[(idx - 16) / 36]?, cube[(idx - 16) / 6 % 6]?, cube[(idx - 16) % 6]? with
    | some r, some g, some b => some (r, g, b)
    | _, _, _ => none
  else if 232 ≤ idx ∧ idx < 256 then
    match greys[idx - 232]? with
    | some x => some (x, x, x)
    | none => none
  else none

/-- squared Euclidean distance of two colours (the library compares `sqrt` of it) -/
def dist (p q : K × K × K) : K := (p.1 - q.1) ^ 2 + (p.2.1 - q.2.1) ^ 2 + (p.2.2 - q.2.2) ^ 2

/-- `idx` is a palette entry at least as close to `p` as each of the 240 non-system entries -/
def Closest (cube greys : List K) (p : K × K × K) (idx : Nat) : Prop :=
  ∃ c, xtermEntry cube greys idx = some c ∧
    ∀ (j : Nat) (c' : K × K × K), xtermEntry cube greys j = some c' → dist p c ≤ dist p c'

/-- a terminal's reading of an indexed-colour SGR parameter group -/
def readIndexed : List Nat → Option (Role × Nat)
  | [38, 5, n] => some (.fg, n)
  | [48, 5, n] => some (.bg, n)
  | [58, 5, n] => some (.ul, n)
  | _ => none

/-- a terminal's reading of a direct-colour SGR parameter group -/
def readDirect : List Nat → Option (Role × Nat × Nat × Nat)
  | [38, 2, r, g, b] => some (.fg, r, g, b)
  | [48, 2, r, g, b] => some (.bg, r, g, b)
  | [58, 2, r, g, b] => some (.ul, r, g, b)
  | _ => none

/-- the four achromatic ANSI colours with their brightness rank: black (30/40), bright black (90/100),
white (37/47), bright white (97/107) -/
def ansiGrey : Nat → Option (Role × Nat)
  | 30 => some (.fg, 0)
  | 90 => some (.fg, 1)
  | 37 => some (.fg, 2)
  | 97 => some (.fg, 3)
  | 40 => some (.bg, 0)
  | 100 => some (.bg, 1)
  | 47 => some (.bg, 2)
  | 107 => some (.bg, 3)
  | _ => none

/-! ## `binary_search_by` -/

/-- The model of `[T]::binary_search_by` never reads outside the table or runs out of fuel, meets the
documented contract of the std function (`Ok(i)` with `t[i] = v` if `v` occurs, otherwise `Err(i)` with `i` the
insertion point), and on a strictly increasing table the contract determines the result — so nothing
depends on which std version's loop the model mirrors. -/
theorem C20_search_contract (t : List K) (hs : t.Pairwise (· < ·)) (v : K) :
    ∃ s, binarySearch t v = some s ∧ SearchSpec t v s ∧ ∀ s', SearchSpec t v s' → s' = s := by
  have hm := strictMono_of_pairwise hs
  obtain ⟨s, h, spec⟩ := binarySearch_spec t hm v
  exact ⟨s, h, spec, fun s' h' => SearchSpec.unique hm h' spec⟩

/-! ## `nearest` -/

/-- For every strictly increasing non-empty table and every `v`, `nearest v t` is an index of `t` whose entry
minimises `|v − t[j]|` over all `j`; among minimisers it is the largest (the source's tie rule: `<`). -/
theorem C20_nearest (t : List K) (hs : t.Pairwise (· < ·)) (hne : t ≠ []) (v : K) :
    ∃ i x, nearest v t = some i ∧ t[i]? = some x ∧
      (∀ (j : Nat) (y : K), t[j]? = some y → |v - x| ≤ |v - y|) ∧
      (∀ (j : Nat) (y : K), t[j]? = some y → |v - y| = |v - x| → j ≤ i) := by
  obtain ⟨i, hi, x, hx, h1, h2⟩ := nearest_spec t (strictMono_of_pairwise hs) hne v
  exact ⟨i, x, hi, hx, h1, h2⟩

/-- hypotheses of `C20_nearest` are satisfiable, and the tie at `2` between `1` and `3` goes up -/
example : ([0, 1, 3] : List Int).Pairwise (· < ·) ∧ nearest (2 : Int) [0, 1, 3] = some 2 := by decide

/-- `nearest` is monotone in the value searched for. -/
theorem C20_nearest_monotone (t : List K) (hs : t.Pairwise (· < ·)) (hne : t ≠ []) (v w : K)
    (hvw : v ≤ w) : ∃ i j, nearest v t = some i ∧ nearest w t = some j ∧ i ≤ j := by
  have hm := strictMono_of_pairwise hs
  obtain ⟨i, hi, _⟩ := nearest_spec t hm hne v
  obtain ⟨j, hj, _⟩ := nearest_spec t hm hne w
  exact ⟨i, j, hi, hj, nearest_mono t hm hne hvw hi hj⟩

/-! ## the 256-colour arm -/

/-- all 240 non-system entries exist -/
theorem C20_palette_240 (cube greys : List K) (hcl : cube.length = 6) (hgl : greys.length = 24)
    (j : Nat) (h16 : 16 ≤ j) (h256 : j < 256) : (xtermEntry cube greys j).isSome := by
  unfold xtermEntry
  by_cases h : j < 232
  · have h1 : (j - 16) / 36 < cube.length := by omega
    have h2 : (j - 16) / 6 % 6 < cube.length := by omega
    have h3 : (j - 16) % 6 < cube.length := by omega
    simp [h16, h, List.getElem?_eq_getElem h1, List.getElem?_eq_getElem h2, List.getElem?_eq_getElem h3]
  · have h1 : j - 232 < greys.length := by omega
    have h4 : 232 ≤ j := by omega
    simp [h, h4, h256, List.getElem?_eq_getElem h1]

theorem dist_eq (r g b x y z : K) : dist (r, g, b) (x, y, z) = dist2 r g b x y z := by
  unfold dist dist2 sqr; ring

/-- **Optimality of the 256-colour reduction.**  For strictly increasing tables `cube` (6 levels) and `greys`
(24 levels) and any linear-light colour `r g b`, the index computed by the `EightBit` arm (per-channel
nearest cube level, nearest grey to the mean, `<` choice, `16 + 36 r + 6 g + b` / `232 + i`) denotes, under
the xterm palette layout, an entry whose distance to `(r, g, b)` is minimal among all 216 + 24 entries. -/
theorem C20_optimal [Div K] (cube greys : List K)
    (hc : cube.Pairwise (· < ·)) (hg : greys.Pairwise (· < ·))
    (hcl : cube.length = 6) (hgl : greys.length = 24) (r g b : K)
    (hmean : 3 * ((r + g + b) / 3) = r + g + b) :
    ∃ idx, index8 cube greys r g b = some idx ∧ Closest cube greys (r, g, b) idx := by
  have hcm := strictMono_of_pairwise hc
  have hgm := strictMono_of_pairwise hg
  have hcne : cube ≠ [] := by intro h; rw [h] at hcl; simp at hcl
  have hgne : greys ≠ [] := by intro h; rw [h] at hgl; simp at hgl
  obtain ⟨ir, hir, xr, hxr, minr, _⟩ := nearest_spec cube hcm hcne r
  obtain ⟨ig, hig, xg, hxg, ming, _⟩ := nearest_spec cube hcm hcne g
  obtain ⟨ib, hib, xb, hxb, minb, _⟩ := nearest_spec cube hcm hcne b
  obtain ⟨gi, hgi, x, hx, minx, _⟩ := nearest_spec greys hgm hgne ((r + g + b) / 3)
  have lr := (List.getElem?_eq_some_iff.mp hxr).1
  have lg := (List.getElem?_eq_some_iff.mp hxg).1
  have lb := (List.getElem?_eq_some_iff.mp hxb).1
  have lx := (List.getElem?_eq_some_iff.mp hx).1
  -- the two candidates beat every entry of their family
  have cube_best : ∀ (j : Nat) (c' : K × K × K), 16 ≤ j ∧ j < 232 → xtermEntry cube greys j = some c' →
      dist2 r g b xr xg xb ≤ dist (r, g, b) c' := by
    intro j c' hj hc'
    unfold xtermEntry at hc'
    rw [if_pos hj] at hc'
    split at hc'
    · rename_i y1 y2 y3 e1 e2 e3
      cases hc'
      rw [dist_eq]
      exact cube_opt r g b xr xg xb y1 y2 y3 (minr _ _ e1) (ming _ _ e2) (minb _ _ e3)
    · cases hc'
  have grey_best : ∀ (j : Nat) (c' : K × K × K), ¬ (16 ≤ j ∧ j < 232) → xtermEntry cube greys j = some c' →
      dist2 r g b x x x ≤ dist (r, g, b) c' := by
    intro j c' hj hc'
    unfold xtermEntry at hc'
    rw [if_neg hj] at hc'
    split at hc'
    · split at hc'
      · rename_i y e
        cases hc'
        rw [dist_eq]
        exact grey_opt r g b _ x y hmean (minx _ _ e)
      · cases hc'
    · cases hc'
  unfold index8
  simp only [hir, hig, hib, hxr, hxg, hxb, hgi, hx]
  by_cases hlt : dist2 r g b x x x < dist2 r g b xr xg xb
  · rw [if_pos hlt]
    refine ⟨_, rfl, (x, x, x), ?_, ?_⟩
    · unfold xtermEntry
      have h1 : ¬ (16 ≤ 232 + gi ∧ 232 + gi < 232) := by omega
      have h2 : 232 ≤ 232 + gi ∧ 232 + gi < 256 := by omega
      have h3 : 232 + gi - 232 = gi := by omega
      rw [if_neg h1, if_pos h2, h3, hx]
    · intro j c' hc'
      rw [dist_eq]
      by_cases hj : 16 ≤ j ∧ j < 232
      · exact le_trans (le_of_lt hlt) (cube_best j c' hj hc')
      · exact grey_best j c' hj hc'
  · rw [if_neg hlt]
    refine ⟨_, rfl, (xr, xg, xb), ?_, ?_⟩
    · unfold xtermEntry
      have h1 : 16 ≤ 16 + 36 * ir + 6 * ig + ib ∧ 16 + 36 * ir + 6 * ig + ib < 232 := by omega
      have e1 : (16 + 36 * ir + 6 * ig + ib - 16) / 36 = ir := by omega
      have e2 : (16 + 36 * ir + 6 * ig + ib - 16) / 6 % 6 = ig := by omega
      have e3 : (16 + 36 * ir + 6 * ig + ib - 16) % 6 = ib := by omega
      rw [if_pos h1, e1, e2, e3, hxr, hxg, hxb]
    · intro j c' hc'
      rw [dist_eq]
      by_cases hj : 16 ≤ j ∧ j < 232
      · exact cube_best j c' hj hc'
      · exact le_trans (not_lt.mp hlt) (grey_best j c' hj hc')

/-- In an ordered field the mean is exact, so `C20_optimal` holds for every colour. -/
theorem C20_optimal_field {F : Type} [Field F] [LinearOrder F] [IsStrictOrderedRing F]
    (cube greys : List F) (hc : cube.Pairwise (· < ·)) (hg : greys.Pairwise (· < ·))
    (hcl : cube.length = 6) (hgl : greys.length = 24) (r g b : F) :
    ∃ idx, index8 cube greys r g b = some idx ∧ Closest cube greys (r, g, b) idx :=
  C20_optimal cube greys hc hg hcl hgl r g b (mul_div_cancel₀ _ (by norm_num))

/-- hypotheses of `C20_optimal_field` are satisfiable (ℚ, evenly spaced toy tables); the colour
`(1/2, 1/2, 1/2)` goes to the grey ramp entry `232 + 11` (value `12/24`), not to a cube corner -/
example : ((List.range 6).map fun (i : Nat) => (i : ℚ) / 5).Pairwise (· < ·) ∧
    ((List.range 24).map fun (i : Nat) => ((i : ℚ) + 1) / 24).Pairwise (· < ·) ∧
    index8 ((List.range 6).map fun (i : Nat) => (i : ℚ) / 5)
      ((List.range 24).map fun (i : Nat) => ((i : ℚ) + 1) / 24) (1 / 2) (1 / 2) (1 / 2) = some 243 := by
  decide +kernel

/-- The whole `EightBit` arm: bytes are looked up in the sRGB → linear table, reduced by `index8`, and the
parameters written are `<38|48|58>;5;<index>` for the role asked for. -/
theorem C20_eightbit [Div K] (E : Env K) (hc : E.cube.Pairwise (· < ·)) (hg : E.greys.Pairwise (· < ·))
    (hcl : E.cube.length = 6) (hgl : E.greys.length = 24) (role : Role) (r g b : Nat) (luma lr lg lb : K)
    (hr : E.lin[r]? = some lr) (hgr : E.lin[g]? = some lg) (hb : E.lin[b]? = some lb)
    (hmean : 3 * ((lr + lg + lb) / 3) = lr + lg + lb) :
    ∃ p idx, colorSgrEncode E .eightBit role r g b luma = some p ∧ readIndexed p = some (role, idx) ∧
      Closest E.cube E.greys (lr, lg, lb) idx := by
  obtain ⟨idx, hidx, hclosest⟩ := C20_optimal E.cube E.greys hc hg hcl hgl lr lg lb hmean
  refine ⟨[roleCode role, 5, idx], idx, ?_, ?_, hclosest⟩
  · simp only [colorSgrEncode, encode8, hr, hgr, hb, hidx]
  · cases role <;> rfl

/-! ## the regenerated tables -/

/-- The tables read from the current build of /repo (`SurfModel.Generated.ColorTables`; every entry is
`3 · 2^scaleBits ·` the `f32` value): `CUBE`, `GREYS` and the 256 sRGB → linear values are strictly increasing,
have 6 / 24 / 256 entries, every linear value is a multiple of 3 (so the mean is exact), and each value is
within `10⁻⁶` of the exact sRGB transfer function at `00 5f 87 af d7 ff`, at `08 12 … ee`, and at `v`. -/
theorem C20_tables :
    ColorTables.cube.Pairwise (· < ·) ∧ ColorTables.greys.Pairwise (· < ·) ∧
    ColorTables.lin.Pairwise (· < ·) ∧
    ColorTables.cube.length = 6 ∧ ColorTables.greys.length = 24 ∧ ColorTables.lin.length = 256 ∧
    (∀ x ∈ ColorTables.lin, (3 : Int) ∣ x) ∧
    (∀ i : Fin 6, SrgbClose (cubeBytes[i.val]!) (val (ColorTables.cube[i.val]!)) (1 / 1000000)) ∧
    (∀ i : Fin 24, SrgbClose (8 + 10 * i.val) (val (ColorTables.greys[i.val]!)) (1 / 1000000)) ∧
    (∀ i : Fin 256, SrgbClose i.val (val (ColorTables.lin[i.val]!)) (1 / 1000000)) :=
  ⟨cube_sorted, greys_sorted, lin_sorted, cube_length, greys_length, lin_length, lin_div3,
    cube_close, greys_close, lin_close⟩

/-- The model as the driver runs it (`envInt`: scaled integers, tables of the current build): for every
opaque colour and every role the parameters are `<38|48|58>;5;idx` and `idx` is a closest entry — in exact
arithmetic on the values the implementation uses. -/
theorem C20_optimal_tables (role : Role) (r g b : Nat) (hr : r < 256) (hg : g < 256) (hb : b < 256)
    (luma : Int) :
    ∃ p idx lr lg lb, colorSgrEncode envInt .eightBit role r g b luma = some p ∧
      readIndexed p = some (role, idx) ∧
      ColorTables.lin[r]? = some lr ∧ ColorTables.lin[g]? = some lg ∧ ColorTables.lin[b]? = some lb ∧
      Closest ColorTables.cube ColorTables.greys (lr, lg, lb) idx := by
  have hlr : r < ColorTables.lin.length := by rw [lin_length]; exact hr
  have hlg : g < ColorTables.lin.length := by rw [lin_length]; exact hg
  have hlb : b < ColorTables.lin.length := by rw [lin_length]; exact hb
  have er := List.getElem?_eq_getElem hlr
  have eg := List.getElem?_eq_getElem hlg
  have eb := List.getElem?_eq_getElem hlb
  have d3 : (3 : Int) ∣ ColorTables.lin[r] + ColorTables.lin[g] + ColorTables.lin[b] :=
    dvd_add (dvd_add (lin_div3 _ (List.getElem_mem hlr)) (lin_div3 _ (List.getElem_mem hlg)))
      (lin_div3 _ (List.getElem_mem hlb))
  obtain ⟨p, idx, hp, hread, hclosest⟩ :=
    C20_eightbit envInt cube_sorted greys_sorted cube_length greys_length role r g b luma _ _ _ er eg eb
      (Int.mul_ediv_cancel' d3)
  exact ⟨p, idx, _, _, _, hp, hread, er, eg, eb, hclosest⟩

/-! ## the real palette: ε-optimality -/

section truePalette
variable {A B : Type}

theorem xtermEntry_map (f : A → B) (cube greys : List A) (j : Nat) :
    xtermEntry (cube.map f) (greys.map f) j =
      (xtermEntry cube greys j).map fun c => (f c.1, f c.2.1, f c.2.2) := by
  unfold xtermEntry
  simp only [List.getElem?_map]
  split_ifs
  · cases cube[(j - 16) / 36]? <;> cases cube[(j - 16) / 6 % 6]? <;> cases cube[(j - 16) % 6]? <;> rfl
  · cases greys[j - 232]? <;> rfl
  · rfl

/-- entries of two palettes of the same shape are related componentwise -/
theorem xtermEntry_rel (R : A → B → Prop) (cA gA : List A) (cB gB : List B)
    (hlc : cA.length = cB.length) (hlg : gA.length = gB.length)
    (hc : ∀ (i : Nat) (a : A) (b : B), cA[i]? = some a → cB[i]? = some b → R a b)
    (hg : ∀ (i : Nat) (a : A) (b : B), gA[i]? = some a → gB[i]? = some b → R a b)
    (j : Nat) (cb : B × B × B) (h : xtermEntry cB gB j = some cb) :
    ∃ ca, xtermEntry cA gA j = some ca ∧ R ca.1 cb.1 ∧ R ca.2.1 cb.2.1 ∧ R ca.2.2 cb.2.2 := by
  unfold xtermEntry at h ⊢
  split_ifs at h ⊢ with h1 h2
  · split at h
    · rename_i y1 y2 y3 e1 e2 e3
      cases h
      have l1 := (List.getElem?_eq_some_iff.mp e1).1
      have l2 := (List.getElem?_eq_some_iff.mp e2).1
      have l3 := (List.getElem?_eq_some_iff.mp e3).1
      rw [← hlc] at l1 l2 l3
      have a1 := List.getElem?_eq_getElem l1
      have a2 := List.getElem?_eq_getElem l2
      have a3 := List.getElem?_eq_getElem l3
      rw [a1, a2, a3]
      exact ⟨_, rfl, hc _ _ _ a1 e1, hc _ _ _ a2 e2, hc _ _ _ a3 e3⟩
    · cases h
  · split at h
    · rename_i y e
      cases h
      have l := (List.getElem?_eq_some_iff.mp e).1
      rw [← hlg] at l
      have a := List.getElem?_eq_getElem l
      rw [a]
      exact ⟨_, rfl, hg _ _ _ a e, hg _ _ _ a e, hg _ _ _ a e⟩
    · cases h
end truePalette

section
variable {F : Type} [Field F] [LinearOrder F] [IsStrictOrderedRing F]

/-- a colour triple and a palette entry within `ε` of another pair, channel by channel, all originals in `[0,1]` -/
def Near (ε : F) (a b : F) : Prop := |b - a| ≤ ε ∧ 0 ≤ a ∧ a ≤ 1

theorem dist_perturb {ε : F} {p q p' q' : F × F × F}
    (hp : Near ε p.1 p'.1 ∧ Near ε p.2.1 p'.2.1 ∧ Near ε p.2.2 p'.2.2)
    (hq : Near ε q.1 q'.1 ∧ Near ε q.2.1 q'.2.1 ∧ Near ε q.2.2 q'.2.2) :
    |dist p' q' - dist p q| ≤ 3 * (2 * ε * (2 + 2 * ε)) := by
  obtain ⟨⟨a1, a2, a3⟩, ⟨b1, b2, b3⟩, ⟨c1, c2, c3⟩⟩ := hp
  obtain ⟨⟨d1, d2, d3⟩, ⟨e1, e2, e3⟩, ⟨f1, f2, f3⟩⟩ := hq
  have h1 := chan_perturb a1 d1 a2 a3 d2 d3
  have h2 := chan_perturb b1 e1 b2 b3 e2 e3
  have h3 := chan_perturb c1 f1 c2 c3 f2 f3
  unfold dist
  rw [abs_le] at *
  constructor <;> linarith [h1.1, h1.2, h2.1, h2.2, h3.1, h3.2]

/-- **Transfer of optimality to a nearby palette.**  If `idx` is closest to `p` in palette `A`, then in any
palette `X` of the same shape whose entries are within `ε` of those of `A`, for any colour `pX` within `ε`
of `p` (all values of `A` and `p` in `[0,1]`), `idx` is closest up to `24 ε (1 + ε)` in squared distance. -/
theorem closest_transfer (ε : F) (cA gA cX gX : List F)
    (hlc : cA.length = cX.length) (hlg : gA.length = gX.length)
    (hc : ∀ (i : Nat) (a x : F), cA[i]? = some a → cX[i]? = some x → Near ε a x)
    (hg : ∀ (i : Nat) (a x : F), gA[i]? = some a → gX[i]? = some x → Near ε a x)
    (p pX : F × F × F) (hp : Near ε p.1 pX.1 ∧ Near ε p.2.1 pX.2.1 ∧ Near ε p.2.2 pX.2.2)
    (idx : Nat) (h : Closest cA gA p idx) :
    ∃ c, xtermEntry cX gX idx = some c ∧
      ∀ (j : Nat) (c' : F × F × F), xtermEntry cX gX j = some c' →
        dist pX c ≤ dist pX c' + 24 * ε * (1 + ε) := by
  obtain ⟨cA0, hA0, hmin⟩ := h
  -- the entry at idx in X
  obtain ⟨c, hc0, r1, r2, r3⟩ := xtermEntry_rel (fun (x a : F) => Near ε a x) cX gX cA gA hlc.symm hlg.symm
    (fun i x a hx ha => hc i a x ha hx) (fun i x a hx ha => hg i a x ha hx) idx cA0 hA0
  refine ⟨c, hc0, ?_⟩
  intro j c' hj
  obtain ⟨cA', hA', s1, s2, s3⟩ := xtermEntry_rel (Near ε) cA gA cX gX hlc hlg hc hg j c' hj
  have d1 := dist_perturb hp (q := cA0) (q' := c) ⟨r1, r2, r3⟩
  have d2 := dist_perturb hp (q := cA') (q' := c') ⟨s1, s2, s3⟩
  have hm := hmin j cA' hA'
  rw [abs_le] at d1 d2
  have : 24 * ε * (1 + ε) = 2 * (3 * (2 * ε * (2 + 2 * ε))) := by ring
  rw [this]
  linarith [d1.2, d2.1]

/-! ### the regenerated tables, seen in `F` -/

theorem valF_eq (n : Int) : (valF n : F) = (n : F) / (3 * 2 ^ ColorTables.scaleBits) := by
  simp only [valF, val]; push_cast; ring

theorem valF_range {n : Int} (h : 0 ≤ n ∧ n ≤ 3 * 2 ^ ColorTables.scaleBits) :
    0 ≤ (valF n : F) ∧ (valF n : F) ≤ 1 := by
  rw [valF_eq]
  have hS : (0 : F) < 3 * 2 ^ ColorTables.scaleBits := by positivity
  have h0 : (0 : F) ≤ (n : F) := by exact_mod_cast h.1
  have h1 : (n : F) ≤ 3 * 2 ^ ColorTables.scaleBits := by exact_mod_cast h.2
  exact ⟨div_nonneg h0 (le_of_lt hS), (div_le_one hS).mpr h1⟩

def valF3 (t : Int × Int × Int) : F × F × F := (valF t.1, valF t.2.1, valF t.2.2)

theorem dist_valF (a b : Int × Int × Int) :
    dist (valF3 a : F × F × F) (valF3 b) = ((dist a b : Int) : F) / (3 * 2 ^ ColorTables.scaleBits) ^ 2 := by
  simp only [dist, valF3, valF_eq]; push_cast; ring

theorem closest_valF {cube greys : List Int} {p : Int × Int × Int} {idx : Nat}
    (h : Closest cube greys p idx) :
    Closest (cube.map (valF (F := F))) (greys.map valF) (valF3 p) idx := by
  obtain ⟨c, hc, hmin⟩ := h
  refine ⟨valF3 c, by rw [xtermEntry_map, hc]; rfl, ?_⟩
  intro j c' hj
  rw [xtermEntry_map] at hj
  cases hx : xtermEntry cube greys j with
  | none => rw [hx] at hj; cases hj
  | some c'' =>
    rw [hx] at hj
    cases hj
    show dist (valF3 p) (valF3 c) ≤ dist (valF3 p) (valF3 c'')
    rw [dist_valF, dist_valF]
    have hS : (0 : F) < (3 * 2 ^ ColorTables.scaleBits) ^ 2 := by positivity
    exact div_le_div_of_nonneg_right (by exact_mod_cast hmin j c'' hx) (le_of_lt hS)

theorem near_of_table {t : List Int} {n : Nat} (hlen : t.length = n) (byte : Nat → Nat)
    (hclose : ∀ i : Fin n, SrgbClose (byte i.val) (val (t[i.val]!)) eps)
    (hrange : ∀ x ∈ t, 0 ≤ x ∧ x ≤ 3 * 2 ^ ColorTables.scaleBits)
    (i : Nat) (a x : F) (ha : (t.map (valF (F := F)))[i]? = some a) (hx : IsSrgbLinear (byte i) x) :
    Near ((eps : ℚ) : F) a x := by
  rw [List.getElem?_map] at ha
  cases hn : t[i]? with
  | none => rw [hn] at ha; cases ha
  | some m =>
    rw [hn] at ha
    cases ha
    obtain ⟨hi, hm⟩ := List.getElem?_eq_some_iff.mp hn
    have hc := hclose ⟨i, by omega⟩
    have e : t[i]! = m := by rw [getElem!_pos t i hi]; exact hm
    simp only [e] at hc
    have := close_of_srgbClose (F := F) hc hx
    have hr := valF_range (F := F) (hrange m (List.mem_of_getElem? hn))
    exact ⟨by rw [abs_sub_comm]; exact this, hr.1, hr.2⟩

/-- **No entry of the real palette is visibly closer.**  Let `cubeX`, `greysX` be the xterm palette in exact
linear light (entries = exact sRGB → linear images of `00 5f 87 af d7 ff` and `08 12 … ee`, in any ordered
field, e.g. ℝ) and `(pr, pg, pb)` the exact linear-light value of the requested colour `r g b`.  The index
the model emits (the driver's run over the tables of the current build) denotes an entry of the REAL palette
whose squared distance to the REAL colour exceeds the best of the 240 entries by at most
`24 ε (1 + ε) ≤ 2.5 · 10⁻⁵`, `ε = 10⁻⁶` being the re-checked accuracy of `CUBE`, `GREYS` and the sRGB → linear
table (`C20_tables`); `2 ε (2 + 2 ε)` per channel is the Lipschitz bound of `(p − q)²` on `[0, 1]²`. -/
theorem C20_true_palette (cubeX greysX : List F) (hcx : cubeX.length = 6) (hgx : greysX.length = 24)
    (hc : ∀ (i : Nat) (x : F), cubeX[i]? = some x → IsSrgbLinear (cubeBytes[i]!) x)
    (hg : ∀ (i : Nat) (x : F), greysX[i]? = some x → IsSrgbLinear (greyByte i) x)
    (role : Role) (r g b : Nat) (hr : r < 256) (hgr : g < 256) (hb : b < 256)
    (pr pg pb : F) (hpr : IsSrgbLinear r pr) (hpg : IsSrgbLinear g pg) (hpb : IsSrgbLinear b pb)
    (luma : Int) :
    ∃ p idx c, colorSgrEncode envInt .eightBit role r g b luma = some p ∧
      readIndexed p = some (role, idx) ∧ xtermEntry cubeX greysX idx = some c ∧
      ∀ (j : Nat) (c' : F × F × F), xtermEntry cubeX greysX j = some c' →
        dist (pr, pg, pb) c ≤ dist (pr, pg, pb) c' + 25 / 1000000 := by
  obtain ⟨p, idx, lr, lg, lb, hp, hread, er, eg, eb, hclosest⟩ :=
    C20_optimal_tables role r g b hr hgr hb luma
  have hcl := closest_valF (F := F) hclosest
  have nearLin : ∀ (v : Nat) (n : Int) (x : F), ColorTables.lin[v]? = some n → IsSrgbLinear v x →
      Near ((eps : ℚ) : F) (valF n) x := by
    intro v n x hn hx
    exact near_of_table lin_length (fun i => i) lin_close lin_range v _ x
      (by rw [List.getElem?_map, hn]; rfl) hx
  obtain ⟨c, hcX, hmin⟩ := closest_transfer ((eps : ℚ) : F)
    (ColorTables.cube.map valF) (ColorTables.greys.map valF) cubeX greysX
    (by rw [List.length_map, cube_length, hcx]) (by rw [List.length_map, greys_length, hgx])
    (fun i a x ha hx => near_of_table cube_length (fun i => cubeBytes[i]!) cube_close cube_range i a x ha
      (hc i x hx))
    (fun i a x ha hx => near_of_table greys_length greyByte greys_close greys_range i a x ha (hg i x hx))
    (valF3 (lr, lg, lb)) (pr, pg, pb)
    ⟨nearLin r lr pr er hpr, nearLin g lg pg eg hpg, nearLin b lb pb eb hpb⟩ idx hcl
  refine ⟨p, idx, c, hp, hread, hcX, ?_⟩
  intro j c' hj
  have h := hmin j c' hj
  have hb : (24 : F) * ((eps : ℚ) : F) * (1 + ((eps : ℚ) : F)) ≤ 25 / 1000000 := by
    simp only [eps]; push_cast; norm_num
  linarith
end


/-- the hypotheses of `C20_true_palette` are satisfiable: over ℝ the exact palette exists -/
example : ∃ cubeX greysX : List ℝ, cubeX.length = 6 ∧ greysX.length = 24 ∧
    (∀ (i : Nat) (x : ℝ), cubeX[i]? = some x → IsSrgbLinear (cubeBytes[i]!) x) ∧
    (∀ (i : Nat) (x : ℝ), greysX[i]? = some x → IsSrgbLinear (greyByte i) x) ∧
    ∀ c : Nat, ∃ x : ℝ, IsSrgbLinear c x := by
  refine ⟨(List.range 6).map fun i => srgbLinear (cubeBytes[i]!),
    (List.range 24).map fun i => srgbLinear (greyByte i), by simp, by simp, ?_, ?_, exists_srgbLinear⟩
  · intro i x h
    rw [List.getElem?_map] at h
    cases hr : (List.range 6)[i]? with
    | none => rw [hr] at h; cases h
    | some k =>
      rw [hr] at h; cases h
      obtain ⟨hi, hk⟩ := List.getElem?_eq_some_iff.mp hr
      rw [List.getElem_range] at hk; subst hk
      exact srgbLinear_spec _
  · intro i x h
    rw [List.getElem?_map] at h
    cases hr : (List.range 24)[i]? with
    | none => rw [hr] at h; cases h
    | some k =>
      rw [hr] at h; cases h
      obtain ⟨hi, hk⟩ := List.getElem?_eq_some_iff.mp hr
      rw [List.getElem_range] at hk; subst hk
      exact srgbLinear_spec _

/-! ## the grey arm -/

/-- On grey-only terminals the level chosen is the nearest of the four by luma: the parameter written is one
of the four achromatic ANSI colours of the role, and its brightness rank `k` is an index of `levels` whose
entry minimises `|luma − levels[j]|`. -/
theorem C20_gray_nearest (levels : List K) (hs : levels.Pairwise (· < ·)) (hlen : levels.length = 4)
    (role : Role) (hrole : role ≠ .ul) (luma : K) :
    ∃ c k x, encodeGray levels luma role = some [c] ∧ ansiGrey c = some (role, k) ∧
      levels[k]? = some x ∧ ∀ (j : Nat) (y : K), levels[j]? = some y → |luma - x| ≤ |luma - y| := by
  have hne : levels ≠ [] := by intro h; rw [h] at hlen; simp at hlen
  obtain ⟨i, hi, x, hx, hmin, _⟩ := nearest_spec levels (strictMono_of_pairwise hs) hne luma
  have hi4 : i < 4 := by have := (List.getElem?_eq_some_iff.mp hx).1; omega
  unfold encodeGray
  rw [hi]
  have : i = 0 ∨ i = 1 ∨ i = 2 ∨ i = 3 := by omega
  rcases this with rfl | rfl | rfl | rfl <;> cases role <;>
    first
    | exact absurd rfl hrole
    | exact ⟨_, _, x, rfl, rfl, hx, hmin⟩

/-- … and it increases monotonically with luma. -/
theorem C20_gray_monotone (levels : List K) (hs : levels.Pairwise (· < ·)) (hlen : levels.length = 4)
    (role : Role) (hrole : role ≠ .ul) (l₁ l₂ : K) (h : l₁ ≤ l₂) :
    ∃ c₁ c₂ k₁ k₂, encodeGray levels l₁ role = some [c₁] ∧ encodeGray levels l₂ role = some [c₂] ∧
      ansiGrey c₁ = some (role, k₁) ∧ ansiGrey c₂ = some (role, k₂) ∧ k₁ ≤ k₂ := by
  have hne : levels ≠ [] := by intro h; rw [h] at hlen; simp at hlen
  have hm := strictMono_of_pairwise hs
  obtain ⟨i, hi, x, hx, _, _⟩ := nearest_spec levels hm hne l₁
  obtain ⟨j, hj, y, hy, _, _⟩ := nearest_spec levels hm hne l₂
  have hij := nearest_mono levels hm hne h hi hj
  have hi4 : i < 4 := by have := (List.getElem?_eq_some_iff.mp hx).1; omega
  have hj4 : j < 4 := by have := (List.getElem?_eq_some_iff.mp hy).1; omega
  unfold encodeGray
  rw [hi, hj]
  have hi' : i = 0 ∨ i = 1 ∨ i = 2 ∨ i = 3 := by omega
  have hj' : j = 0 ∨ j = 1 ∨ j = 2 ∨ j = 3 := by omega
  rcases hi' with rfl | rfl | rfl | rfl <;> rcases hj' with rfl | rfl | rfl | rfl <;>
    first
    | omega
    | (cases role <;>
        first
        | exact absurd rfl hrole
        | exact ⟨_, _, _, _, rfl, rfl, rfl, rfl, by omega⟩)

/-- Underline colour under the `Gray` depth: NOTHING is emitted (src/encoder.rs: `Underline => return Ok(())`).
There is no ANSI underline-colour code among the four achromatic colours, so no palette entry is selected
for this role and the closest-entry claim is void for it; the underline keeps the terminal's default
colour. -/
theorem C20_gray_underline (levels : List K) (hs : levels.Pairwise (· < ·)) (hne : levels ≠ []) (luma : K) :
    encodeGray levels luma .ul = some [] := by
  obtain ⟨i, hi, _⟩ := nearest_spec levels (strictMono_of_pairwise hs) hne luma
  unfold encodeGray
  rw [hi]

/-- The grey theorems at the levels the code really uses (`levelsInt`: the `f32` values of the literal
`[0.0, 0.33, 0.66, 1.0]`, which are `0, 0.33, 0.66, 1` up to `2⁻²⁴`), for every luma value the driver can be
given: nearest of the four and monotone for foreground and background, nothing for underline. -/
theorem C20_gray_tables :
    (levelsInt.map val = [0, f33, f66, 1] ∧ 33 / 100 ≤ f33 ∧ f33 ≤ 33 / 100 + 1 / 33554432 ∧
      66 / 100 ≤ f66 ∧ f66 ≤ 66 / 100 + 1 / 16777216) ∧
    (∀ (role : Role) (luma : Int), role ≠ .ul →
      ∃ c k x, encodeGray levelsInt luma role = some [c] ∧ ansiGrey c = some (role, k) ∧
        levelsInt[k]? = some x ∧ ∀ (j : Nat) (y : Int), levelsInt[j]? = some y → |luma - x| ≤ |luma - y|) ∧
    (∀ (role : Role) (l₁ l₂ : Int), role ≠ .ul → l₁ ≤ l₂ →
      ∃ c₁ c₂ k₁ k₂, encodeGray levelsInt l₁ role = some [c₁] ∧ encodeGray levelsInt l₂ role = some [c₂] ∧
        ansiGrey c₁ = some (role, k₁) ∧ ansiGrey c₂ = some (role, k₂) ∧ k₁ ≤ k₂) ∧
    (∀ luma : Int, encodeGray levelsInt luma .ul = some []) := by
  have hlen : levelsInt.length = 4 := by decide
  have hne : levelsInt ≠ [] := by intro h; rw [h] at hlen; simp at hlen
  exact ⟨levels_close,
    fun role luma hr => C20_gray_nearest levelsInt levels_sorted hlen role hr luma,
    fun role l₁ l₂ hr h => C20_gray_monotone levelsInt levels_sorted hlen role hr l₁ l₂ h,
    fun luma => C20_gray_underline levelsInt levels_sorted hne luma⟩

/-! ## the true-colour probe -/

/-- **Invariant of the true-colour probe.**  The colour `capabilities_detect` sets and asks back
(`probeColour`, `#010203`) is the colour of NO entry of the 256-colour palette as the decoder reads it back
(tables of the current build), so a terminal that maps direct colours to palette entries — and reports
`48;5;N` — can never be taken for a true-colour terminal; `paletteIndexOf`, the function the harness uses through
the driver to judge the probe colour the terminal object really sends, is `none` exactly for such colours. -/
theorem C20_probe_not_palette :
    (∀ i : Fin 256, (decoderPaletteRgb i.val).isSome ∧ decoderPaletteRgb i.val ≠ some probeColour) ∧
    paletteIndexOf probeColour = none ∧
    (∀ c : Nat × Nat × Nat, paletteIndexOf c = none ↔ ∀ i, i < 256 → decoderPaletteRgb i ≠ some c) :=
  ⟨probe_outside, probe_index_none, paletteIndexOf_none⟩

/-! ## the true-colour arm -/

/-- In true-colour mode the colour is transmitted unchanged, for the role asked for.  This is a statement
about the MODEL's definition of the arm (`encodeTrue` writes `[code, 2, r, g, b]`, `readDirect` reads it back);
that the implementation does the same (`Color::to_rgb` of an opaque colour, `{}` formatting) is established by
the harness oracle only — exhaustively over all 2^24 colours × 3 roles in the thorough tier. -/
theorem C20_truecolor_identity [Div K] (E : Env K) (role : Role) (r g b : Nat) (luma : K) :
    ∃ p, colorSgrEncode E .trueColor role r g b luma = some p ∧ readDirect p = some (role, r, g, b) := by
  refine ⟨encodeTrue role r g b, rfl, ?_⟩
  cases role <;> rfl

end SurfProofs.C20
