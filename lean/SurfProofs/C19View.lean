import SurfModel.SerdeView
import SurfProofs.Lemmas.SerdeView
import SurfProofs.C10
import SurfProofs.C19
/-!
# C19, last sentence — glyph / text / view-tree documents (model: `SurfModel/SerdeView.lean`)

"Deserialising any JSON value as an image, glyph, text or view tree returns a value or an error but never
panics or overflows, and any view tree that deserialises successfully can be laid out and rendered."

The deserialiser model produces trees of the C10 view model, so the second half is the composition with
`C10_total`.  What stays outside: the text → value step of `serde_json` (the statements start at a parsed
value), rasterize's path / scene parsing (parameters `pathOk`, `sceneOk`, assumed to return), `unicode-width`
(parameter), and — for rendering — that the deserialised tree fits into memory (`treeSize v < 2^62`).
-/
namespace SurfProofs.C19
open SurfModel.Serde SurfModel.ViewLayout SurfModel.SerdeView

/-- **C19, documents never panic.**  For every parsed JSON value — objects with members in any order, repeated
    or missing, of any type, arrays, scalars, any nesting — whatever rasterize answers about paths and scenes,
    whatever the colour table, the float behaviour of the `/alpha` suffix and the character widths, and for
    every sufficient `read_to_end` schedule: deserialising it as a view tree, as a text or as a glyph returns a
    value or an error, never the panic outcome (the only arithmetic on document numbers, the image visitor's, is
    checked in the model; everything else is converted by serde's checked conversions).  The fuel the recursive
    model functions run on is sufficient: any larger fuel gives the same answer. -/
theorem C19_view_total (ext : Ext) (hs : Sufficient ext.sched) (j : JV) :
    deView ext j ≠ .error .panic ∧ deText ext j ≠ .error .panic ∧ deGlyphV ext j ≠ .error .panic ∧
    (∀ n, j.size ≤ n → deViewF ext n j = deView ext j) ∧
    (∀ n st, j.size ≤ n → collectF ext n st j = collectF ext j.size st j) :=
  ⟨deViewF_np ext hs _ j,
   andThen_np (collectF_np ext _ _ _) (fun _ => by simp),
   andThen_np (deGlyphWith_np ext true j) (fun _ => by simp),
   fun n hn => deViewF_fuel ext n j.size j hn (Nat.le_refl _),
   fun n st hn => collectF_fuel ext n j.size st j hn (Nat.le_refl _)⟩

/-- **C19, what deserialises lays out and renders.**  Let `v` be the view tree a JSON value deserialises to (as a
    view, as a text or as a glyph).  Then — by `C10_total` — under every context (glyph support or not, any
    pixels per cell) and every constraint with `min ≤ max` and `usize` extents, layout returns a layout tree
    (no overflow, no division by zero, no `clamp` panic) and rendering that tree into any surface returns `Ok`;
    and — by `C10_contained` — everything it paints stays inside the surface it was given.
    Hypothesis: the deserialised tree has fewer than `2^62` nodes + characters (it is held in memory).
    (`C10_total` asks nothing else of a tree: the deserialiser's obligation is to produce a tree of that model,
    which it does by construction; the tie of that construction to the crate is the layout correspondence.) -/
theorem C19_view_renders (ext : Ext) (j : JV) (v : V)
    (_h : deView ext j = .ok v ∨ deText ext j = .ok v ∨ deGlyphV ext j = .ok v)
    (ctx : Ctx) (ct : Ct) (hv : SurfProofs.C10.ValidCt ct) (hm : SurfProofs.C10.MachineCt ct)
    (hsz : SurfProofs.C10.treeSize v < 2 ^ 62) :
    ∃ t, v.layout ctx ct = .ok t ∧ ∀ s : Shape, ∃ ps, v.render ctx s t = .ok ps ∧
      ∀ p ∈ ps, ∀ o, SurfProofs.C10.InWindow p.shape o → SurfProofs.C10.InWindow s o := by
  obtain ⟨t, hl, hr⟩ := SurfProofs.C10.C10_total ctx v ct hv hm hsz
  refine ⟨t, hl, fun s => ?_⟩
  obtain ⟨ps, hps⟩ := hr s
  exact ⟨ps, hps, SurfProofs.C10.C10_contained ctx v s t ps hps⟩

/-- **The last sentence of C19 for the modelled deserialisers** (`_partial`: see the header for what is outside).
    For every parsed JSON value: the image, glyph, text and view-tree deserialisers never panic, and every view
    tree obtained lays out and renders under every valid machine constraint. -/
theorem C19_documents_view_partial (ext : Ext) (hs : Sufficient ext.sched) (j : JV) :
    deImage ext.sched (imageJson j) ≠ .panic ∧ deGlyphV ext j ≠ .error .panic ∧ deText ext j ≠ .error .panic ∧
    deView ext j ≠ .error .panic ∧
    ∀ v, deView ext j = .ok v → SurfProofs.C10.treeSize v < 2 ^ 62 →
      ∀ (ctx : Ctx) (ct : Ct), SurfProofs.C10.ValidCt ct → SurfProofs.C10.MachineCt ct →
        ∃ t, v.layout ctx ct = .ok t ∧ ∀ s : Shape, ∃ ps, v.render ctx s t = .ok ps := by
  obtain ⟨h1, h2, h3, _, _⟩ := C19_view_total ext hs j
  refine ⟨(C19_documents_partial ext.sched (imageJson j)).1, h3, h2, h1, ?_⟩
  intro v hv hsz ctx ct hvc hmc
  exact SurfProofs.C10.C10_total ctx v ct hvc hmc hsz

end SurfProofs.C19
