import SurfProofs.Lemmas.Sgr
import SurfProofs.Lemmas.SgrColorItems
import SurfProofs.Lemmas.SgrExt
import SurfProofs.Lemmas.SgrWriter
/-!
# C06 — the library reads back its own SGR output and applies it with SGR semantics

`SurfModel.Vt.encode` is the model of the encoder (C05), `SurfModel.Sgr.sgrFace` / `apply` the models
of the command decoder's SGR payload function and of `FaceModify::apply`; both are tied to the Rust
code by correspondence on every run.  The tokeniser that frames `ESC [ … m` and UTF-8 text under any
chunking is the subject of C03; `C06_writer` at the end composes it (C03), the command decoder (C02's
`commandOfItem` over the compiled command automaton), the cell writer (C09's `ttySession`) and the payload
theorem `C06_apply_sgr` into one statement about coloured text written through `tty_writer()`.
-/
namespace SurfProofs.C06
open SurfModel.Vt SurfModel.Sgr SurfProofs.Lemmas.Vt SurfProofs.Lemmas.Sgr SurfProofs.Lemmas.SgrSem

/-- the record the decoder should produce for a face modification the encoder was given -/
def toFMod (m : FaceModify) : FMod :=
  { reset := m.reset
    fg := m.fg.map fun c => ⟨c.r, c.g, c.b, 255⟩
    bg := m.bg.map fun c => ⟨c.r, c.g, c.b, 255⟩
    underline := m.underline
    underlineColor := m.underlineColor.map fun c => ⟨c.r, c.g, c.b, 255⟩
    bold := m.bold, italic := m.italic, blink := m.blink, strike := m.strike }

def colorOk (c : Option Color) : Prop := ∀ col, c = some col → col.r ≤ 255 ∧ col.g ≤ 255 ∧ col.b ≤ 255

/-- domain: opaque 8-bit colours (the alpha channel is not transmitted: the decoder reports 255),
underline style one of the six -/
def ModOk (m : FaceModify) : Prop :=
  colorOk m.fg ∧ colorOk m.bg ∧ colorOk m.underlineColor ∧ (∀ k, m.underline = some k → k ≤ 5)

/-- **C06, number.** `number_decode` returns the decimal value clamped at `usize::MAX` for digit
strings of any length, and rejects anything else; printing then parsing returns the number. -/
theorem C06_number (ds : List Nat) :
    ((∀ d ∈ ds, 48 ≤ d ∧ d ≤ 57) → numberDecode ds = some (min usizeMax (readDec ds))) ∧
    ((∃ d ∈ ds, ¬ (48 ≤ d ∧ d ≤ 57)) → numberDecode ds = none) ∧
    (∀ n, numberDecode (showNat n) = some (min usizeMax n)) :=
  ⟨numberDecode_digits ds, numberDecode_none ds, numberDecode_showNat⟩

theorem modify_closed (m : FaceModify) (h : ModOk m) :
    DClosed (faceModifyChunks m .trueColor)
      ((fun fm => match m.strike with | none => fm | some b => { fm with strike := some b }) ∘
       (fun fm => match m.blink with | none => fm | some b => { fm with blink := some b }) ∘
       (fun fm => match m.italic with | none => fm | some b => { fm with italic := some b }) ∘
       (fun fm => match m.bold with | none => fm | some b => { fm with bold := some b }) ∘
       updColor .ul m.underlineColor ∘
       (fun fm => match m.underline with | none => fm | some k => if k ≤ 5 then { fm with underline := some k } else fm) ∘
       updColor .bg m.bg ∘ updColor .fg m.fg ∘
       (fun fm => if m.reset then { reset := true } else fm)) := by
  obtain ⟨hfg, hbg, hul, _⟩ := h
  unfold faceModifyChunks
  have hreset : DClosed (if m.reset then [[48]] else []) (fun fm => if m.reset then { reset := true } else fm) := by
    cases m.reset
    · exact DClosed.nil
    · exact DClosed.single _ _ (by intro fm rest; simp [reset_step])
  have hb := tri_closed m.bold [49] [50, 50] (fun fm v => { fm with bold := v }) bold_on bold_off (fun _ _ => rfl)
  have hi := tri_closed m.italic [51] [50, 51] (fun fm v => { fm with italic := v }) italic_on italic_off (fun _ _ => rfl)
  have hk := tri_closed m.blink [53] [50, 53] (fun fm v => { fm with blink := v }) blink_on blink_off (fun _ _ => rfl)
  have hs := tri_closed m.strike [57] [50, 57] (fun fm v => { fm with strike := v }) strike_on strike_off (fun _ _ => rfl)
  have := (((((((hreset.append (optColor_closed m.fg .fg hfg)).append (optColor_closed m.bg .bg hbg)).append
    (underline_closed m.underline)).append (optColor_closed m.underlineColor .ul hul)).append hb).append hi).append hk).append hs
  exact this

/-- **C06, round trip of a face modification.** For every face modification with opaque colours the
parameters the encoder writes in true-colour mode are read back by `sgr_face` as exactly that
modification: colours, underline style and colour, bold, italic, blink, strike, reset. (When the
modification is empty the encoder writes nothing and the decoder sees no sequence.) -/
theorem C06_roundtrip_modify (m : FaceModify) (h : ModOk m) (hne : faceModifyChunks m .trueColor ≠ []) :
    sgrFace (joinSemi (faceModifyChunks m .trueColor)) = toFMod m := by
  have hk := h.2.2.2
  unfold sgrFace
  rw [splitBy_joinSemi _ hne (faceModifyChunks_good m .trueColor).no59, (modify_closed m h).eval]
  obtain ⟨reset, fg, bg, underline, ulc, bold, italic, blink, strike⟩ := m
  simp only at hk
  have hu : ∀ fm : FMod, (match underline with
      | none => fm | some k => if k ≤ 5 then { fm with underline := some k } else fm) =
      { fm with underline := orKeep underline fm.underline } := by
    intro fm
    cases underline with
    | none => rfl
    | some k => simp [hk k rfl, orKeep]
  cases reset <;> cases fg <;> cases bg <;> cases ulc <;> cases bold <;> cases italic <;> cases blink <;>
    cases strike <;> simp [Function.comp, updColor, setColor, toFMod, hu]

/-- the bytes between `ESC [` and `m` of an encoded command -/
def sgrPayload (bytes : List Nat) : List Nat := (bytes.drop 2).dropLast

theorem payload_faceModify (caps : Caps) (m : FaceModify) (hne : faceModifyChunks m caps.depth ≠ []) :
    sgrPayload (encode caps (.faceModify m)) = joinSemi (faceModifyChunks m caps.depth) := by
  have : (faceModifyChunks m caps.depth).isEmpty = false := by
    cases h : faceModifyChunks m caps.depth <;> simp_all
  simp [encode, this, sgrPayload, csiB]

/-- **C06, round trip through the encoder.** What `GraphicRenditionMatcher::decode` computes from the
encoder's bytes for a face modification (`sgr_face(&data[2..len-1])`) is that modification. -/
theorem C06_roundtrip_encoded (kitty : Bool) (m : FaceModify) (h : ModOk m)
    (hne : faceModifyChunks m .trueColor ≠ []) :
    sgrFace (sgrPayload (encode ⟨.trueColor, kitty⟩ (.faceModify m))) = toFMod m := by
  rw [payload_faceModify ⟨.trueColor, kitty⟩ m hne]
  exact C06_roundtrip_modify m h hne

/-! ## Round trip of a whole `Face` -/

theorem reverse_step (fm : FMod) (rest : List (List Nat)) : sgrFaceStep fm [55] rest = (fm, rest) := by
  have n : numberDecode [55] = some 7 := by decide
  have s : splitBy 58 [55] = [[55]] := by decide
  simp [sgrFaceStep, n, s]

theorem flag_closed (on : Bool) (g : List Nat) (upd : FMod → FMod)
    (h : ∀ fm rest, sgrFaceStep fm g rest = (upd fm, rest)) :
    DClosed (flagChunk on g) (fun fm => if on then upd fm else fm) := by
  cases on
  · exact DClosed.nil
  · exact DClosed.single g _ (by intro fm rest; simp [h])

theorem underChunk_closed (k : Nat) :
    DClosed (underChunk k) (fun fm => if 1 ≤ k ∧ k ≤ 5 then { fm with underline := some k } else fm) := by
  cases k with
  | zero => intro fm rest; simp [underChunk]
  | succ k =>
    have := underline_closed (some (k + 1))
    have e : (1 ≤ k + 1 ∧ k + 1 ≤ 5) ↔ (k + 1 ≤ 5) := by omega
    simpa [e] using this

/-- the record a written `Face` is read back as: reset first, then every colour, the underline style and every
flag that is set (`REVERSE` has no field) -/
def faceFMod (f : SurfModel.Vt.Face) : FMod :=
  { reset := true
    fg := f.fg.map fun c => ⟨c.r, c.g, c.b, 255⟩
    bg := f.bg.map fun c => ⟨c.r, c.g, c.b, 255⟩
    underline := if 1 ≤ f.under then some f.under else none
    underlineColor := none
    bold := if f.bold then some true else none
    italic := if f.italic then some true else none
    blink := if f.blink then some true else none
    strike := if f.strike then some true else none }

/-- `sgr_face` of what the encoder writes for a `Face` is exactly that record -/
theorem roundtrip_face_record (f : SurfModel.Vt.Face) (hfg : colorOk f.fg) (hbg : colorOk f.bg) (hu : f.under ≤ 5) :
    sgrFace (joinSemi (faceChunks f .trueColor)) = faceFMod f := by
  have hne : faceChunks f .trueColor ≠ [] := by simp [faceChunks]
  have h0 : DClosed [[48]] (fun _ => ({ reset := true } : FMod)) :=
    DClosed.single [48] _ (by intro fm rest; simp [reset_step])
  have h1 := h0.append (optColor_closed f.fg .fg hfg)
  have h2 := h1.append (optColor_closed f.bg .bg hbg)
  have h3 := h2.append (underChunk_closed f.under)
  have h4 := h3.append (flag_closed f.bold [49] _ bold_on)
  have h5 := h4.append (flag_closed f.italic [51] _ italic_on)
  have h6 := h5.append (flag_closed f.blink [53] _ blink_on)
  have h7 := h6.append (flag_closed f.reverse [55] _ reverse_step)
  have hcl := h7.append (flag_closed f.strike [57] _ strike_on)
  unfold sgrFace
  rw [splitBy_joinSemi _ hne (faceChunks_good f .trueColor).no59]
  have := hcl.eval {}
  simp only [faceChunks] at this ⊢
  rw [this]
  obtain ⟨fg, bg, under, bold, italic, blink, reverse, strike⟩ := f
  simp only at hu
  cases fg <;> cases bg <;> cases bold <;> cases italic <;> cases blink <;> cases reverse <;> cases strike <;>
    (rcases under with _ | _ | _ | _ | _ | _ | n <;>
      (try simp [Function.comp, updColor, setColor, faceFMod]) <;> (try omega))

/-- **C06, round trip of a face.** For every face with opaque 8-bit colours the `Face` command the
encoder writes in true-colour mode is read back as a modification that, applied to ANY face, yields
exactly the written one — colours, underline style, bold, italic, blink, strike — except `REVERSE`,
which a face-modification record cannot express. -/
theorem C06_roundtrip_face (f : Face) (hfg : colorOk f.fg) (hbg : colorOk f.bg) (hu : f.under ≤ 5) (g : DFace) :
    apply (sgrFace (joinSemi (faceChunks f .trueColor))) g =
      { fg := f.fg.map fun c => ⟨c.r, c.g, c.b, 255⟩, bg := f.bg.map fun c => ⟨c.r, c.g, c.b, 255⟩,
        under := f.under, bold := f.bold, italic := f.italic, blink := f.blink, reverse := false,
        strike := f.strike } := by
  rw [roundtrip_face_record f hfg hbg hu]
  obtain ⟨fg, bg, under, bold, italic, blink, reverse, strike⟩ := f
  cases fg <;> cases bg <;> cases bold <;> cases italic <;> cases blink <;> cases strike <;>
    (rcases under with _ | n <;> simp [faceFMod, SurfModel.Sgr.apply, setFlag])

/-! ## SGR semantics of the decoder and of `FaceModify::apply` -/

/-- A well-formed SGR parameter: every parameter the face-modification record can express, in every
spelling the decoder's grammar admits (`;` and `:` colour forms, `4`, `4:k`, `21`, `24`, the empty
parameter, named and bright colours, palette indices), and `num z n`: a parameter that is ONE number `n`
written with `z` leading zeros (the `…P` constructors are the colour forms and `4:k` with leading zeros in their
numbers) — which besides `001`-style spellings of the supported parameters covers
the legal parameters the decoder does not support (2 faint, 6, 8 conceal, 10–20 fonts, 26, 28, 50–57,
59 default underline colour, 60–89, 98, 99, 108 …), which both the decoder and the reference machine
(`.unknown`) leave without effect. -/
inductive Item where
  | simple (s : Simple)
  | rgbSemi (role : Role) (r g b : Nat)
  | idxSemi (role : Role) (n : Nat)
  | rgbColon4 (role : Role) (r g b : Nat)
  | rgbColon3 (role : Role) (r g b : Nat)
  | idxColon (role : Role) (n : Nat)
  | named (bg bright : Bool) (k : Nat)
  | num (z n : Nat)
  /-- the colour forms and `4:k` with leading zeros in their numbers (`z…` = number of zeros) -/
  | rgbSemiP (role : Role) (zr zg zb r g b : Nat)
  | idxSemiP (role : Role) (z n : Nat)
  | rgbColon4P (role : Role) (zr zg zb r g b : Nat)
  | rgbColon3P (role : Role) (zr zg zb r g b : Nat)
  | idxColonP (role : Role) (z n : Nat)
  | ulStyleP (z k : Nat)

def Item.spec : Item → ItemSpec
  | .simple s => s.spec
  | .rgbSemi role r g b => SurfProofs.Lemmas.SgrSem.rgbSemi role r g b
  | .idxSemi role n => SurfProofs.Lemmas.SgrSem.idxSemi role n
  | .rgbColon4 role r g b => SurfProofs.Lemmas.SgrSem.rgbColon4 role r g b
  | .rgbColon3 role r g b => SurfProofs.Lemmas.SgrSem.rgbColon3 role r g b
  | .idxColon role n => SurfProofs.Lemmas.SgrSem.idxColon role n
  | .named bg bright k => SurfProofs.Lemmas.SgrSem.named bg bright k
  | .num z n => numItem z n
  | .rgbSemiP role zr zg zb r g b => SurfProofs.Lemmas.SgrSem.rgbSemiP role zr zg zb r g b
  | .idxSemiP role z n => SurfProofs.Lemmas.SgrSem.idxSemiP role z n
  | .rgbColon4P role zr zg zb r g b => SurfProofs.Lemmas.SgrSem.rgbColon4P role zr zg zb r g b
  | .rgbColon3P role zr zg zb r g b => SurfProofs.Lemmas.SgrSem.rgbColon3P role zr zg zb r g b
  | .idxColonP role z n => SurfProofs.Lemmas.SgrSem.idxColonP role z n
  | .ulStyleP z k => SurfProofs.Lemmas.SgrSem.ulStyleP z k

/-- parameter ranges: 8-bit colour components and palette indices, underline style 0..5, colour
number 0..7; a single number: anything but 38 / 48 / 58 (alone they are the head of a colour and the
decoder consumes what follows: malformed) and but 7 / 27 / 39 / 49 (reverse video and default colours, which
a face-modification record cannot express: known finding `C06-inexpressible`, see `Item.okX`) -/
def Item.ok : Item → Prop
  | .simple s => s.ok
  | .rgbSemi _ r g b | .rgbColon4 _ r g b | .rgbColon3 _ r g b => r ≤ 255 ∧ g ≤ 255 ∧ b ≤ 255
  | .idxSemi _ n | .idxColon _ n => n ≤ 255
  | .named _ _ k => k < 8
  | .num _ n => (n ≠ 38 ∧ n ≠ 48 ∧ n ≠ 58) ∧ (n ≠ 7 ∧ n ≠ 27 ∧ n ≠ 39 ∧ n ≠ 49)
  | .rgbSemiP _ _ _ _ r g b | .rgbColon4P _ _ _ _ r g b | .rgbColon3P _ _ _ _ r g b => r ≤ 255 ∧ g ≤ 255 ∧ b ≤ 255
  | .idxSemiP _ _ n | .idxColonP _ _ n => n ≤ 255
  | .ulStyleP _ k => k ≤ 5

/-- the same domain plus the four inexpressible parameters 7, 27, 39, 49 -/
def Item.okX : Item → Prop
  | .num _ n => n ≠ 38 ∧ n ≠ 48 ∧ n ≠ 58
  | it => it.ok

theorem Item.spec_ok (it : Item) (h : it.ok) : ItemOk it.spec := by
  cases it with
  | simple s => exact s.spec_ok h
  | rgbSemi role r g b => exact rgbSemi_ok role r g b h.1 h.2.1 h.2.2
  | idxSemi role n => exact idxSemi_ok role n h
  | rgbColon4 role r g b => exact rgbColon4_ok role r g b h.1 h.2.1 h.2.2
  | rgbColon3 role r g b => exact rgbColon3_ok role r g b h.1 h.2.1 h.2.2
  | idxColon role n => exact idxColon_ok role n h
  | named bg bright k => exact named_ok bg bright k h
  | num z n => exact numItem_ok z n h.1 h.2
  | rgbSemiP role zr zg zb r g b => exact rgbSemiP_ok role zr zg zb r g b h.1 h.2.1 h.2.2
  | idxSemiP role z n => exact idxSemiP_ok role z n h
  | rgbColon4P role zr zg zb r g b => exact rgbColon4P_ok role zr zg zb r g b h.1 h.2.1 h.2.2
  | rgbColon3P role zr zg zb r g b => exact rgbColon3P_ok role zr zg zb r g b h.1 h.2.1 h.2.2
  | idxColonP role z n => exact idxColonP_ok role z n h
  | ulStyleP z k => exact ulStyleP_ok z k h

theorem Item.ops_expressible (it : Item) (h : it.ok) : ∀ op ∈ it.spec.ops, inexpressibleOp op = false := by
  intro op hop
  cases it with
  | simple s => cases s <;> (simp [Item.spec, Simple.spec] at hop; subst hop; rfl)
  | rgbSemi role r g b => cases role <;> (simp [Item.spec, SurfProofs.Lemmas.SgrSem.rgbSemi, colorOp] at hop; subst hop; rfl)
  | idxSemi role n => cases role <;> (simp [Item.spec, SurfProofs.Lemmas.SgrSem.idxSemi, colorOp] at hop; subst hop; rfl)
  | rgbColon4 role r g b => cases role <;> (simp [Item.spec, SurfProofs.Lemmas.SgrSem.rgbColon4, colorOp] at hop; subst hop; rfl)
  | rgbColon3 role r g b => cases role <;> (simp [Item.spec, SurfProofs.Lemmas.SgrSem.rgbColon3, colorOp] at hop; subst hop; rfl)
  | idxColon role n => cases role <;> (simp [Item.spec, SurfProofs.Lemmas.SgrSem.idxColon, colorOp] at hop; subst hop; rfl)
  | named bg bright k =>
    cases bg <;> (simp [Item.spec, SurfProofs.Lemmas.SgrSem.named, colorOp] at hop; subst hop; rfl)
  | num z n =>
    simp only [Item.spec, numItem, List.mem_singleton] at hop
    subst hop
    exact numOp_expressible n h.2
  | rgbSemiP role zr zg zb r g b =>
    cases role <;> (simp [Item.spec, SurfProofs.Lemmas.SgrSem.rgbSemiP, colorOp] at hop; subst hop; rfl)
  | idxSemiP role z n =>
    cases role <;> (simp [Item.spec, SurfProofs.Lemmas.SgrSem.idxSemiP, colorOp] at hop; subst hop; rfl)
  | rgbColon4P role zr zg zb r g b =>
    cases role <;> (simp [Item.spec, SurfProofs.Lemmas.SgrSem.rgbColon4P, colorOp] at hop; subst hop; rfl)
  | rgbColon3P role zr zg zb r g b =>
    cases role <;> (simp [Item.spec, SurfProofs.Lemmas.SgrSem.rgbColon3P, colorOp] at hop; subst hop; rfl)
  | idxColonP role z n =>
    cases role <;> (simp [Item.spec, SurfProofs.Lemmas.SgrSem.idxColonP, colorOp] at hop; subst hop; rfl)
  | ulStyleP z k => simp [Item.spec, SurfProofs.Lemmas.SgrSem.ulStyleP] at hop; subst hop; rfl

theorem Item.spec_okX (it : Item) (h : it.okX) : ItemOkX it.spec := by
  cases it with
  | num z n => exact numItem_okX z n h
  | simple s => exact (Item.spec_ok (.simple s) h).toX (Item.ops_expressible (.simple s) h)
  | rgbSemi role r g b => exact (Item.spec_ok (.rgbSemi role r g b) h).toX (Item.ops_expressible (.rgbSemi role r g b) h)
  | idxSemi role n => exact (Item.spec_ok (.idxSemi role n) h).toX (Item.ops_expressible (.idxSemi role n) h)
  | rgbColon4 role r g b => exact (Item.spec_ok (.rgbColon4 role r g b) h).toX (Item.ops_expressible (.rgbColon4 role r g b) h)
  | rgbColon3 role r g b => exact (Item.spec_ok (.rgbColon3 role r g b) h).toX (Item.ops_expressible (.rgbColon3 role r g b) h)
  | idxColon role n => exact (Item.spec_ok (.idxColon role n) h).toX (Item.ops_expressible (.idxColon role n) h)
  | named bg bright k => exact (Item.spec_ok (.named bg bright k) h).toX (Item.ops_expressible (.named bg bright k) h)
  | rgbSemiP role zr zg zb r g b =>
    exact (Item.spec_ok (.rgbSemiP role zr zg zb r g b) h).toX (Item.ops_expressible (.rgbSemiP role zr zg zb r g b) h)
  | idxSemiP role z n => exact (Item.spec_ok (.idxSemiP role z n) h).toX (Item.ops_expressible (.idxSemiP role z n) h)
  | rgbColon4P role zr zg zb r g b =>
    exact (Item.spec_ok (.rgbColon4P role zr zg zb r g b) h).toX (Item.ops_expressible (.rgbColon4P role zr zg zb r g b) h)
  | rgbColon3P role zr zg zb r g b =>
    exact (Item.spec_ok (.rgbColon3P role zr zg zb r g b) h).toX (Item.ops_expressible (.rgbColon3P role zr zg zb r g b) h)
  | idxColonP role z n => exact (Item.spec_ok (.idxColonP role z n) h).toX (Item.ops_expressible (.idxColonP role z n) h)
  | ulStyleP z k => exact (Item.spec_ok (.ulStyleP z k) h).toX (Item.ops_expressible (.ulStyleP z k) h)

theorem Item.ok_okX (it : Item) (h : it.ok) : it.okX := by
  cases it with
  | num z n => exact h.1
  | _ => exact h

/-- the parameter bytes of an SGR sequence made of the given items (between `ESC [` and `m`) -/
def sgrBytes (items : List Item) : List Nat := joinSemi (items.flatMap fun it => it.spec.chunks)

/-- **C06, SGR semantics.** For every non-empty sequence of well-formed SGR parameters and every
face, the face obtained by `FaceModify::apply` from what `sgr_face` decodes is the face the reference
SGR machine computes: each attribute and colour set or cleared independently, later parameters
overriding earlier ones, reset restoring the default face (palette indices resolved through the
decoder's palette, which `tables_xterm` pins to xterm's; the underline colour, which a face cannot
hold, is ignored on both sides). -/
theorem C06_apply_sgr (items : List Item) (hok : ∀ it ∈ items, it.ok) (hne : items ≠ []) (f : DFace) :
    refApply (sgrBytes items) f = some (attrOfDFace (apply (sgrFace (sgrBytes items)) f)) := by
  have h := items_agree (items.map Item.spec)
    (by intro s hs; obtain ⟨it, hit, rfl⟩ := List.mem_map.mp hs; exact it.spec_ok (hok it hit))
    (by simpa using hne) f
  simpa [sgrBytes, List.flatMap_map, view] using h

/-- **C06, SGR semantics next to the inexpressible parameters.** The same on the larger domain that also
admits SGR 7, 27 (reverse on / off) and 39, 49 (default foreground / background), which the public
face-modification record cannot express and the decoder ignores (known finding `C06-inexpressible`), against
the reference machine in which exactly these four operations are no-ops (`refApplyX`): whatever ELSE stands
in a sequence containing them — before, between and after them — is applied with SGR semantics. This is the
specification the `c06 refx` oracle lines are judged by, so a parameter string that contains an inexpressible
parameter is not exempt from judgement. -/
theorem C06_apply_sgr_x (items : List Item) (hok : ∀ it ∈ items, it.okX) (hne : items ≠ []) (f : DFace) :
    refApplyX (sgrBytes items) f = some (attrOfDFace (apply (sgrFace (sgrBytes items)) f)) := by
  have h := items_agree_x (items.map Item.spec)
    (by intro s hs; obtain ⟨it, hit, rfl⟩ := List.mem_map.mp hs; exact it.spec_okX (hok it hit))
    (by simpa using hne) f
  simpa [sgrBytes, List.flatMap_map, view] using h

/-- on parameter strings without the four inexpressible parameters the two reference machines coincide -/
theorem C06_refx_agrees (items : List Item) (hok : ∀ it ∈ items, it.ok) (hne : items ≠ []) (f : DFace) :
    refApplyX (sgrBytes items) f = refApply (sgrBytes items) f := by
  rw [C06_apply_sgr items hok hne f, C06_apply_sgr_x items (fun it hit => it.ok_okX (hok it hit)) hne f]

/-- the library's naming table (decoder `COLORS`): the sixteen named colours, indices 0–7 normal and 8–15
bright, as fixed by the crate (VGA-style: 128 for the normal intensities, 192 for white, 255 for bright) -/
def namedColors : List (Nat × Nat × Nat × Nat) :=
  [(0, 0, 0, 255), (128, 0, 0, 255), (0, 128, 0, 255), (128, 128, 0, 255), (0, 0, 128, 255), (128, 0, 128, 255),
   (0, 128, 128, 255), (192, 192, 192, 255), (128, 128, 128, 255), (255, 0, 0, 255), (0, 255, 0, 255),
   (255, 255, 0, 255), (0, 0, 255, 255), (255, 0, 255, 255), (0, 255, 255, 255), (255, 255, 255, 255)]

/-- the decoder's colour tables are xterm's, and the sixteen named colours are — value by value, in order —
the library's naming table (the tables are regenerated from the implementation on every run, so a changed or
permuted entry of `COLORS`, `CUBE` or `GREYS` breaks this theorem) -/
theorem C06_tables :
    SurfModel.Generated.cube6 = [0, 95, 135, 175, 215, 255] ∧
    SurfModel.Generated.greys24 = (List.range 24).map (fun i => 8 + 10 * i) ∧
    SurfModel.Generated.colors16.length = 16 ∧
    (∀ n : Fin 256, (palette n.val).isSome = true) ∧
    SurfModel.Generated.colors16 = namedColors :=
  ⟨tables_xterm.1, tables_xterm.2.1, tables_xterm.2.2, palette_total, by decide⟩

example : (∀ it ∈ [Item.simple .bold, .rgbColon4 .fg 1 2 3, .named true true 7, .simple (.ulStyle 3), .num 2 1, .num 0 53],
    it.ok) := by
  intro it hit; simp at hit; rcases hit with rfl | rfl | rfl | rfl | rfl | rfl <;> simp [Item.ok, Simple.ok]
/-- `001` (bold with leading zeros), the unsupported `53` (overlined) and `2` (faint) around a colour -/
example : sgrBytes [.num 2 1, .num 0 53, .named false false 1, .num 0 2] =
    [48, 48, 49, 59, 53, 51, 59, 51, 49, 59, 50] := by decide +kernel
/-- leading zeros inside a colour and an underline style: `38;2;001;2;03;4:05` -/
example : (∀ it ∈ [Item.rgbSemiP .fg 2 0 1 1 2 3, .ulStyleP 1 5], it.ok) ∧
    sgrBytes [.rgbSemiP .fg 2 0 1 1 2 3, .ulStyleP 1 5] =
      [51, 56, 59, 50, 59, 48, 48, 49, 59, 50, 59, 48, 51, 59, 52, 58, 48, 53] := by
  refine ⟨?_, by decide +kernel⟩
  intro it hit; simp at hit; rcases hit with rfl | rfl <;> simp [Item.ok]
/-- the larger domain: `7` and `39` next to `1` -/
example : (∀ it ∈ [Item.num 0 7, .num 0 1, .num 0 39], it.okX) ∧ ¬ (Item.num 0 7).ok := by
  refine ⟨?_, by simp [Item.ok]⟩
  intro it hit; simp at hit; rcases hit with rfl | rfl | rfl <;> simp [Item.okX]

/-! Non-vacuity -/
example : ModOk ⟨true, some ⟨1, 2, 3, 255, 0, 0⟩, none, some 3, none, some false, none, none, some true⟩ := by
  refine ⟨?_, ?_, ?_, ?_⟩ <;> intro c hc <;> simp at hc <;> (try subst hc) <;> simp <;> omega
example : sgrFace [50, 49] = { underline := some 2 } := by
  have n : numberDecode [50, 49] = some 21 := by decide
  have s : splitBy 58 [50, 49] = [[50, 49]] := by decide
  have s2 : splitBy 59 [50, 49] = [[50, 49]] := by decide
  simp [sgrFace, s2, sgrFaceLoop_cons, sgrFaceLoop_nil, sgrFaceStep, n, s]


/-! ## ANSI-coloured text through `tty_writer()` -/

open SurfModel.Tokenizer SurfModel.TextLayout SurfModel.Stream SurfModel.Decoders SurfProofs.DecoderStream
  SurfProofs.Lemmas.SgrWriter

/-- a span of a script: one SGR sequence made of well-formed parameters, or a run of text characters -/
inductive Span where
  | sgr (items : List Item)
  | text (chars : List Nat)

/-- a sequence has at least one parameter, all well-formed (`Item.ok`); text consists of Unicode scalar
values other than `ESC` -/
def Span.ok : Span → Prop
  | .sgr items => items ≠ [] ∧ ∀ it ∈ items, it.ok
  | .text cs => ∀ c ∈ cs, (c < 0xD800 ∨ (0xE000 ≤ c ∧ c < 0x110000)) ∧ c ≠ 27

/-- parameter bytes of a sequence / the characters -/
def Span.piece : Span → Piece
  | .sgr items => .sgr (sgrBytes items)
  | .text cs => .text cs

/-- the bytes written for a script: `ESC [ <parameters joined by ;> m` for a sequence, UTF-8 for text -/
def scriptStream (script : List Span) : List UInt8 := scriptBytes (script.map Span.piece)

theorem Span.piece_ok (s : Span) (h : s.ok) : s.piece.Ok := by
  cases s with
  | sgr items =>
    have hg := flat_good (items.map Item.spec)
      (by intro x hx; obtain ⟨it, hit, rfl⟩ := List.mem_map.mp hx; exact it.spec_ok (h.2 it hit))
    have := hg.join_bytes
    simpa [Span.piece, Piece.Ok, sgrBytes, List.flatMap_map] using this
  | text cs =>
    intro c hc
    obtain ⟨h1, h2⟩ := h c hc
    refine ⟨?_, h2⟩
    simp only [SurfModel.Payload.isScalar, Bool.or_eq_true, Bool.and_eq_true, decide_eq_true_eq]
    omega

/-- **C06, writer.** A script — SGR sequences built from well-formed parameters (every parameter a
face-modification record can express, in every spelling) and runs of text (any Unicode scalar values except
`ESC`) in any order — is written as bytes through `tty_writer()` into a writer whose current face is any
face with opaque 8-bit colours, the bytes cut into `write` calls ANYWHERE (inside an escape sequence, inside a
character, empty writes). Then the whole outcome of the session (model: C09's `ttySession` over C03's tokenizer
run on a command automaton `A`, C02's `commandOfItem` as payload decoder, `FaceModify::apply` for face
modifications) is that of the **reference run** `refRun`: the attribute state is folded through the SGR
sequences by the reference SGR machine (`params?`, `sgrSem`, `applySgr`: each attribute and colour set or
cleared independently, later parameters override earlier ones, reset restores the default), and every text
character is put — `put_char`, i.e. `put_cell(Cell::new_char(face, c))` — by a writer whose face is the face of
the attribute state reached by the sequences that precede the character; the decoder ends empty (nothing
pending), the writer's face is that of the final attribute state. The session panics only if `put_char` does
(`none`), which cannot happen on a writer whose window lies inside its backing slice — every writer over a
view of a surface, `C07_inv` — (second part; `C09_contained`).

`A` is any tagged automaton that realises the command grammar `ESC [ ([0-9:]* ;?)+ m | UTF-8 without ESC`
(`RealisesCommand`, as in `C02_no_panic_stream_command`: same live words, accepting flags and tag sets as the
automaton compiled from the model grammar) and reports `terminal` exactly for the states without successor;
`C06_writer_model` instantiates it with the compiled automaton itself. -/
theorem C06_writer {σ : Type} (A : TAuto σ) (hR : RealisesCommand A) (hT : TermExact A.toAuto)
    (script : List Span) (hok : ∀ s ∈ script, s.ok) (wr : Writer) (d : DFace) (hd : FaceOk d)
    (hf : wr.face = packFace d) (chunks : List (List UInt8)) (hc : chunks.flatten = scriptStream script) :
    ttySession A.toAuto (ttyInterp A) wr (init A.toAuto) chunks =
      (match refRun wr (attrOfDFace d) (script.map Span.piece) with
       | none => .error .panic
       | some w' => .ok (w', init A.toAuto)) ∧
    ((∀ r c, r < wr.shape.height → c < wr.shape.width → wr.shape.offset r c < wr.data.length) →
      ∃ w', refRun wr (attrOfDFace d) (script.map Span.piece) = some w') := by
  have hpok : ∀ p ∈ script.map Span.piece, p.Ok := by
    intro p hp
    obtain ⟨s, hs, rfl⟩ := List.mem_map.mp hp
    exact s.piece_ok (hok s hs)
  have hsem : ∀ ps, Piece.sgr ps ∈ script.map Span.piece → SgrSem ps := by
    intro ps hp
    obtain ⟨s, hs, he⟩ := List.mem_map.mp hp
    cases s with
    | text cs => cases he
    | sgr items =>
      simp only [Span.piece, Piece.sgr.injEq] at he
      subst he
      intro f
      exact C06_apply_sgr items (hok _ hs).2 (hok _ hs).1 f
  refine ⟨tty_script A hR hT _ hpok hsem wr d hd hf chunks hc, ?_⟩
  intro hsh
  obtain ⟨w', hw', _⟩ := SurfProofs.Lemmas.TextChunk.applyCmds_contained wr
    ((((script.map Span.piece).flatMap Piece.events).map Except.ok).map cmdOfEvent) hsh
  exact ⟨w', by rw [← applyCmds_script _ hsem wr d hd hf]; exact hw'⟩

/-- `C06_writer` for the command automaton compiled from the model grammar (the model of
`TTY_COMMAND_AUTOMATA`; the dumped production DFA is compared with it by exhaustive bisimulation on every
run of the C02 check) -/
theorem C06_writer_model (script : List Span) (hok : ∀ s ∈ script, s.ok) (wr : Writer) (d : DFace) (hd : FaceOk d)
    (hf : wr.face = packFace d) (chunks : List (List UInt8)) (hc : chunks.flatten = scriptStream script) :
    ttySession commandModelAuto.toAuto (ttyInterp commandModelAuto) wr (init commandModelAuto.toAuto) chunks =
      (match refRun wr (attrOfDFace d) (script.map Span.piece) with
       | none => .error .panic
       | some w' => .ok (w', init commandModelAuto.toAuto)) ∧
    ((∀ r c, r < wr.shape.height → c < wr.shape.width → wr.shape.offset r c < wr.data.length) →
      ∃ w', refRun wr (attrOfDFace d) (script.map Span.piece) = some w') :=
  C06_writer commandModelAuto commandModelAuto_realises commandModelAuto_termExact script hok wr d hd hf chunks hc

/-- the hypotheses are met: bold red `a世`, then bold off and a blue background, `b` — written into a
1 × 4 surface; the reference run shows `a`, the wide `世` and `b` with the faces of the SGR machine -/
def exScript : List Span :=
  [.sgr [.simple .bold, .rgbSemi .fg 255 0 0], .text [97, 19990], .sgr [.simple .boldOff, .named true false 4], .text [98]]
def exWriter : Writer :=
  Writer.new { hasGlyphs := false, ppcH := 1, ppcW := 1, width := fun c => if c = 19990 then 2 else 1 }
    (SurfModel.Shape.Shape.from 1 4) (List.replicate 4 ⟨SurfModel.TextLayout.Face.dflt, .chr 32⟩)

example : (∀ s ∈ exScript, s.ok) ∧ FaceOk {} ∧ exWriter.face = packFace {} := by
  refine ⟨?_, ⟨by simp, by simp, by simp⟩, rfl⟩
  intro s hs
  simp only [exScript, List.mem_cons, List.not_mem_nil, or_false] at hs
  rcases hs with rfl | rfl | rfl | rfl
  · refine ⟨by simp, ?_⟩
    intro it hit; simp at hit; rcases hit with rfl | rfl <;> simp [Item.ok, Simple.ok]
  · intro c hc; simp at hc; rcases hc with rfl | rfl <;> omega
  · refine ⟨by simp, ?_⟩
    intro it hit; simp at hit; rcases hit with rfl | rfl <;> simp [Item.ok, Simple.ok]
  · intro c hc; simp at hc; subst hc; omega

/-- … and the reference run on it: `a` and the wide `世` bold (attribute word 8) in red, a skipped column, `b` in
red on blue, not bold -/
example : (refRun exWriter (attrOfDFace {}) (exScript.map Span.piece)).map
    (fun w => w.data.map fun c => (match c.kind with | .chr c => c | _ => 0, c.face.fg, c.face.bg, c.face.attrs)) =
    some [(97, some 4278190335, none, 8), (19990, some 4278190335, none, 8), (32, none, none, 0),
      (98, some 4278190335, some 33023, 0)] := by
  decide +kernel

/-! ## Round trip through the streaming command decoder (composition with C03 and C02) -/

/-- what the property quantifies over: a face modification or a face with opaque 8-bit colours and one of the
six underline styles, a character that is a Unicode scalar value other than `ESC` -/
def CmdOk : SurfModel.Vt.Cmd → Prop
  | .faceModify m => ModOk m
  | .face f => colorOk f.fg ∧ colorOk f.bg ∧ f.under ≤ 5
  | .char c => (c < 0xD800 ∨ (0xE000 ≤ c ∧ c < 0x110000)) ∧ c ≠ 27
  | _ => False

/-- what `TTYCommandDecoder` is to report for a written command: that face modification (nothing for the empty
one: the encoder writes no byte), the record of the face, that character -/
def readBack : SurfModel.Vt.Cmd → List SurfModel.Payload.Event
  | .faceModify m => if faceModifyChunks m .trueColor = [] then [] else [.command (toFMod m)]
  | .face f => [.command (faceFMod f)]
  | .char c => [.char c]
  | _ => []

/-- the written bytes of a command as a piece of a script -/
def pieceOf : SurfModel.Vt.Cmd → Piece
  | .faceModify m => if faceModifyChunks m .trueColor = [] then .text [] else .sgr (joinSemi (faceModifyChunks m .trueColor))
  | .face f => .sgr (joinSemi (faceChunks f .trueColor))
  | .char c => .text [c]
  | _ => .text []

theorem pieceOf_bytes (kitty : Bool) (c : SurfModel.Vt.Cmd) (h : CmdOk c) : encode ⟨.trueColor, kitty⟩ c = (pieceOf c).bytes := by
  cases c <;> simp only [CmdOk] at h
  case faceModify m =>
    by_cases he : faceModifyChunks m .trueColor = []
    · simp [encode, pieceOf, he, Piece.bytes]
    · have : (faceModifyChunks m .trueColor).isEmpty = false := by
        cases hh : faceModifyChunks m .trueColor <;> simp_all
      simp [encode, pieceOf, he, this, Piece.bytes, csiB]
  case face f => simp [encode, pieceOf, Piece.bytes, csiB]
  case char c => simp [encode, pieceOf, Piece.bytes]

theorem pieceOf_ok (c : SurfModel.Vt.Cmd) (h : CmdOk c) : (pieceOf c).Ok := by
  cases c <;> simp only [CmdOk] at h
  case faceModify m =>
    by_cases he : faceModifyChunks m .trueColor = []
    · simp only [pieceOf, he, if_true]; intro x hx; simp at hx
    · simp only [pieceOf, he, if_false]
      exact (faceModifyChunks_good m .trueColor).join_bytes
  case face f => exact (faceChunks_good f .trueColor).join_bytes
  case char c =>
    intro x hx
    simp only [List.mem_singleton] at hx
    subst hx
    refine ⟨?_, h.2⟩
    simp only [SurfModel.Payload.isScalar, Bool.or_eq_true, Bool.and_eq_true, decide_eq_true_eq]
    omega

theorem pieceOf_events (c : SurfModel.Vt.Cmd) (h : CmdOk c) : (pieceOf c).events = readBack c := by
  cases c <;> simp only [CmdOk] at h
  case faceModify m =>
    by_cases he : faceModifyChunks m .trueColor = []
    · simp [pieceOf, readBack, he, Piece.events]
    · simp only [pieceOf, readBack, he, if_false, Piece.events, C06_roundtrip_modify m h he]
  case face f => simp only [pieceOf, readBack, Piece.events, roundtrip_face_record f h.1 h.2.1 h.2.2]
  case char c => simp [pieceOf, readBack, Piece.events]

theorem flatMap_congr' {α β : Type} (l : List α) (f g : α → List β) (h : ∀ a ∈ l, f a = g a) :
    l.flatMap f = l.flatMap g := by
  induction l with
  | nil => rfl
  | cons a l ih =>
    simp only [List.flatMap_cons]
    rw [h a (by simp), ih (fun x hx => h x (by simp [hx]))]

/-- **C06, round trip through the streaming decoder.** Any sequence of face modifications, faces (opaque 8-bit
colours, six underline styles) and characters (Unicode scalar values other than `ESC`) is encoded in true-colour
mode (`TTYEncoder::encode` per command, bytes concatenated) and the bytes are fed to the command decoder cut into
reads ANYWHERE — inside an escape sequence, inside a character, empty reads. Then the decoder model (C03's
tokenizer `feedAll` over a command automaton, C02's `commandOfItem` as payload decoder) reports exactly one command
per written command, in order: the same face modification (nothing for the empty one, for which nothing is
written), the record `faceFMod f` for a face (which applied to any face yields `f` without `REVERSE`:
`C06_roundtrip_face`), the same character; no `Raw`, no panic, and the decoder ends in its initial state (nothing
pending). `A` is any tagged automaton realising the command grammar, as in `C06_writer`. -/
theorem C06_roundtrip_stream {σ : Type} (A : TAuto σ) (hR : RealisesCommand A) (hT : TermExact A.toAuto)
    (kitty : Bool) (cmds : List SurfModel.Vt.Cmd) (hok : ∀ c ∈ cmds, CmdOk c) (chunks : List (List UInt8))
    (hc : chunks.flatten = SurfModel.Grammar.bytes (cmds.flatMap (encode ⟨.trueColor, kitty⟩))) :
    ∃ per, feedAll A.toAuto (init A.toAuto) chunks = .ok (per, init A.toAuto) ∧
      per.flatten.map (commandOfItem A) = (cmds.flatMap readBack).map .ok := by
  have hbytes : cmds.flatMap (encode ⟨.trueColor, kitty⟩) = (cmds.map pieceOf).flatMap Piece.bytes := by
    rw [List.flatMap_map]
    exact flatMap_congr' _ _ _ (fun c hcm => pieceOf_bytes kitty c (hok c hcm))
  have hev : (cmds.map pieceOf).flatMap Piece.events = cmds.flatMap readBack := by
    rw [List.flatMap_map]
    exact flatMap_congr' _ _ _ (fun c hcm => pieceOf_events c (hok c hcm))
  have hpok : ∀ p ∈ cmds.map pieceOf, p.Ok := by
    intro p hp
    obtain ⟨c, hcm, rfl⟩ := List.mem_map.mp hp
    exact pieceOf_ok c (hok c hcm)
  obtain ⟨per, h1, h2⟩ := SurfProofs.C03.C03_tokenize_reads A.toAuto hT.termOk chunks
  obtain ⟨items, g1, g2⟩ := script_tokenize A hR hT (cmds.map pieceOf) hpok
  have hs : chunks.flatten = scriptBytes (cmds.map pieceOf) := by rw [hc, hbytes]; rfl
  rw [hs, g1] at h1 h2
  simp only at h1 h2
  rw [stateOf_nil] at h1
  exact ⟨per, h1, by rw [h2, g2, hev]⟩

/-- `C06_roundtrip_stream` for the command automaton compiled from the model grammar -/
theorem C06_roundtrip_stream_model (kitty : Bool) (cmds : List SurfModel.Vt.Cmd) (hok : ∀ c ∈ cmds, CmdOk c)
    (chunks : List (List UInt8))
    (hc : chunks.flatten = SurfModel.Grammar.bytes (cmds.flatMap (encode ⟨.trueColor, kitty⟩))) :
    ∃ per, feedAll commandModelAuto.toAuto (init commandModelAuto.toAuto) chunks = .ok (per, init commandModelAuto.toAuto) ∧
      per.flatten.map (commandOfItem commandModelAuto) = (cmds.flatMap readBack).map .ok :=
  C06_roundtrip_stream commandModelAuto commandModelAuto_realises commandModelAuto_termExact kitty cmds hok chunks hc

/-- one command: every chunking of `encode (.faceModify m)` yields exactly that one command -/
theorem C06_roundtrip_stream_one {σ : Type} (A : TAuto σ) (hR : RealisesCommand A) (hT : TermExact A.toAuto)
    (kitty : Bool) (m : FaceModify) (h : ModOk m) (hne : faceModifyChunks m .trueColor ≠ [])
    (chunks : List (List UInt8))
    (hc : chunks.flatten = SurfModel.Grammar.bytes (encode ⟨.trueColor, kitty⟩ (.faceModify m))) :
    ∃ per, feedAll A.toAuto (init A.toAuto) chunks = .ok (per, init A.toAuto) ∧
      per.flatten.map (commandOfItem A) = [.ok (.command (toFMod m))] := by
  have := C06_roundtrip_stream A hR hT kitty [.faceModify m] (by intro c hcm; simp at hcm; subst hcm; exact h) chunks
    (by simpa using hc)
  simpa [readBack, hne] using this

/-- the hypotheses are met: bold off + a colour, a face with reverse set, `é`, a control character and DEL -/
example : ∀ c ∈ [SurfModel.Vt.Cmd.faceModify ⟨false, some ⟨1, 2, 3, 255, 0, 0⟩, none, some 0, none, some false, none, none, none⟩,
    .face ⟨none, some ⟨9, 8, 7, 255, 0, 0⟩, 3, true, false, false, true, false⟩, .char 233, .char 10, .char 127], CmdOk c := by
  intro c hc
  simp only [List.mem_cons, List.not_mem_nil, or_false] at hc
  rcases hc with rfl | rfl | rfl | rfl | rfl
  · refine ⟨?_, ?_, ?_, ?_⟩ <;> intro x hx <;> simp at hx <;> (try subst hx) <;> simp
  · refine ⟨?_, ?_, ?_⟩
    · intro x hx; simp at hx
    · intro x hx; simp at hx; subst hx; simp
    · simp
  · simp [CmdOk]
  · simp [CmdOk]
  · simp [CmdOk]


end SurfProofs.C06
