import SurfProofs.Lemmas.Sgr
import SurfProofs.Lemmas.SgrColorItems
import SurfProofs.Lemmas.SgrWriter
/-!
# C06 — the library reads back its own SGR output and applies it with SGR semantics

`SurfModel.Vt.encode` is the model of the encoder (C05), `SurfModel.Sgr.sgrFace` / `apply` the models
of the command decoder's SGR payload function and of `FaceModify::apply`; both are tied to the Rust
code by correspondence on every run.  The tokeniser that frames `ESC [ … m` and UTF-8 text under any
chunking is the subject of C03; `C06_writer` at the end composes it (C03), the command decoder (C02's
`commandOfItem` over the compiled command automaton), the cell writer (C09's `ttySession`) and the payload
theorem `C06_apply_sgr` into one statement about coloured text written through `tty_writer()`.
-/
namespace SurfProofs.C06
open SurfModel.Vt SurfModel.Sgr SurfProofs.Lemmas.Vt SurfProofs.Lemmas.Sgr SurfProofs.Lemmas.SgrSem

/-- the record the decoder should produce for a face modification the encoder was given -/
def toFMod (m : FaceModify) : FMod :=
  { reset := m.reset
    fg := m.fg.map fun c => ⟨c.r, c.g, c.b, 255⟩
    bg := m.bg.map fun c => ⟨c.r, c.g, c.b, 255⟩
    underline := m.underline
    underlineColor := m.underlineColor.map fun c => ⟨c.r, c.g, c.b, 255⟩
    bold := m.bold, italic := m.italic, blink := m.blink, strike := m.strike }

def colorOk (c : Option Color) : Prop := ∀ col, c = some col → col.r ≤ 255 ∧ col.g ≤ 255 ∧ col.b ≤ 255

/-- domain: opaque 8-bit colours (the alpha channel is not transmitted: the decoder reports 255),
underline style one of the six -/
def ModOk (m : FaceModify) : Prop :=
  colorOk m.fg ∧ colorOk m.bg ∧ colorOk m.underlineColor ∧ (∀ k, m.underline = some k → k ≤ 5)

/-- **C06, number.** `number_decode` returns the decimal value clamped at `usize::MAX` for digit
strings of any length, and rejects anything else; printing then parsing returns the number. -/
theorem C06_number (ds : List Nat) :
    ((∀ d ∈ ds, 48 ≤ d ∧ d ≤ 57) → numberDecode ds = some (min usizeMax (readDec ds))) ∧
    ((∃ d ∈ ds, ¬ (48 ≤ d ∧ d ≤ 57)) → numberDecode ds = none) ∧
    (∀ n, numberDecode (showNat n) = some (min usizeMax n)) :=
  ⟨numberDecode_digits ds, numberDecode_none ds, numberDecode_showNat⟩

theorem modify_closed (m : FaceModify) (h : ModOk m) :
    DClosed (faceModifyChunks m .trueColor)
      ((fun fm => match m.strike with | none => fm | some b => { fm with strike := some b }) ∘
       (fun fm => match m.blink with | none => fm | some b => { fm with blink := some b }) ∘
       (fun fm => match m.italic with | none => fm | some b => { fm with italic := some b }) ∘
       (fun fm => match m.bold with | none => fm | some b => { fm with bold := some b }) ∘
       updColor .ul m.underlineColor ∘
       (fun fm => match m.underline with | none => fm | some k => if k ≤ 5 then { fm with underline := some k } else fm) ∘
       updColor .bg m.bg ∘ updColor .fg m.fg ∘
       (fun fm => if m.reset then { reset := true } else fm)) := by
  obtain ⟨hfg, hbg, hul, _⟩ := h
  unfold faceModifyChunks
  have hreset : DClosed (if m.reset then [[48]] else []) (fun fm => if m.reset then { reset := true } else fm) := by
    cases m.reset
    · exact DClosed.nil
    · exact DClosed.single _ _ (by intro fm rest; simp [reset_step])
  have hb := tri_closed m.bold [49] [50, 50] (fun fm v => { fm with bold := v }) bold_on bold_off (fun _ _ => rfl)
  have hi := tri_closed m.italic [51] [50, 51] (fun fm v => { fm with italic := v }) italic_on italic_off (fun _ _ => rfl)
  have hk := tri_closed m.blink [53] [50, 53] (fun fm v => { fm with blink := v }) blink_on blink_off (fun _ _ => rfl)
  have hs := tri_closed m.strike [57] [50, 57] (fun fm v => { fm with strike := v }) strike_on strike_off (fun _ _ => rfl)
  have := (((((((hreset.append (optColor_closed m.fg .fg hfg)).append (optColor_closed m.bg .bg hbg)).append
    (underline_closed m.underline)).append (optColor_closed m.underlineColor .ul hul)).append hb).append hi).append hk).append hs
  exact this

/-- **C06, round trip of a face modification.** For every face modification with opaque colours the
parameters the encoder writes in true-colour mode are read back by `sgr_face` as exactly that
modification: colours, underline style and colour, bold, italic, blink, strike, reset. (When the
modification is empty the encoder writes nothing and the decoder sees no sequence.) -/
theorem C06_roundtrip_modify (m : FaceModify) (h : ModOk m) (hne : faceModifyChunks m .trueColor ≠ []) :
    sgrFace (joinSemi (faceModifyChunks m .trueColor)) = toFMod m := by
  have hk := h.2.2.2
  unfold sgrFace
  rw [splitBy_joinSemi _ hne (faceModifyChunks_good m .trueColor).no59, (modify_closed m h).eval]
  obtain ⟨reset, fg, bg, underline, ulc, bold, italic, blink, strike⟩ := m
  simp only at hk
  have hu : ∀ fm : FMod, (match underline with
      | none => fm | some k => if k ≤ 5 then { fm with underline := some k } else fm) =
      { fm with underline := orKeep underline fm.underline } := by
    intro fm
    cases underline with
    | none => rfl
    | some k => simp [hk k rfl, orKeep]
  cases reset <;> cases fg <;> cases bg <;> cases ulc <;> cases bold <;> cases italic <;> cases blink <;>
    cases strike <;> simp [Function.comp, updColor, setColor, toFMod, hu]

/-- the bytes between `ESC [` and `m` of an encoded command -/
def sgrPayload (bytes : List Nat) : List Nat := (bytes.drop 2).dropLast

theorem payload_faceModify (caps : Caps) (m : FaceModify) (hne : faceModifyChunks m caps.depth ≠ []) :
    sgrPayload (encode caps (.faceModify m)) = joinSemi (faceModifyChunks m caps.depth) := by
  have : (faceModifyChunks m caps.depth).isEmpty = false := by
    cases h : faceModifyChunks m caps.depth <;> simp_all
  simp [encode, this, sgrPayload, csiB]

/-- **C06, round trip through the encoder.** What `GraphicRenditionMatcher::decode` computes from the
encoder's bytes for a face modification (`sgr_face(&data[2..len-1])`) is that modification. -/
theorem C06_roundtrip_encoded (kitty : Bool) (m : FaceModify) (h : ModOk m)
    (hne : faceModifyChunks m .trueColor ≠ []) :
    sgrFace (sgrPayload (encode ⟨.trueColor, kitty⟩ (.faceModify m))) = toFMod m := by
  rw [payload_faceModify ⟨.trueColor, kitty⟩ m hne]
  exact C06_roundtrip_modify m h hne

/-! ## Round trip of a whole `Face` -/

theorem reverse_step (fm : FMod) (rest : List (List Nat)) : sgrFaceStep fm [55] rest = (fm, rest) := by
  have n : numberDecode [55] = some 7 := by decide
  have s : splitBy 58 [55] = [[55]] := by decide
  simp [sgrFaceStep, n, s]

theorem flag_closed (on : Bool) (g : List Nat) (upd : FMod → FMod)
    (h : ∀ fm rest, sgrFaceStep fm g rest = (upd fm, rest)) :
    DClosed (flagChunk on g) (fun fm => if on then upd fm else fm) := by
  cases on
  · exact DClosed.nil
  · exact DClosed.single g _ (by intro fm rest; simp [h])

theorem underChunk_closed (k : Nat) :
    DClosed (underChunk k) (fun fm => if 1 ≤ k ∧ k ≤ 5 then { fm with underline := some k } else fm) := by
  cases k with
  | zero => intro fm rest; simp [underChunk]
  | succ k =>
    have := underline_closed (some (k + 1))
    have e : (1 ≤ k + 1 ∧ k + 1 ≤ 5) ↔ (k + 1 ≤ 5) := by omega
    simpa [e] using this

/-- **C06, round trip of a face.** For every face with opaque 8-bit colours the `Face` command the
encoder writes in true-colour mode is read back as a modification that, applied to ANY face, yields
exactly the written one — colours, underline style, bold, italic, blink, strike — except `REVERSE`,
which a face-modification record cannot express. -/
theorem C06_roundtrip_face (f : Face) (hfg : colorOk f.fg) (hbg : colorOk f.bg) (hu : f.under ≤ 5) (g : DFace) :
    apply (sgrFace (joinSemi (faceChunks f .trueColor))) g =
      { fg := f.fg.map fun c => ⟨c.r, c.g, c.b, 255⟩, bg := f.bg.map fun c => ⟨c.r, c.g, c.b, 255⟩,
        under := f.under, bold := f.bold, italic := f.italic, blink := f.blink, reverse := false,
        strike := f.strike } := by
  have hne : faceChunks f .trueColor ≠ [] := by simp [faceChunks]
  have h0 : DClosed [[48]] (fun _ => ({ reset := true } : FMod)) :=
    DClosed.single [48] _ (by intro fm rest; simp [reset_step])
  have h1 := h0.append (optColor_closed f.fg .fg hfg)
  have h2 := h1.append (optColor_closed f.bg .bg hbg)
  have h3 := h2.append (underChunk_closed f.under)
  have h4 := h3.append (flag_closed f.bold [49] _ bold_on)
  have h5 := h4.append (flag_closed f.italic [51] _ italic_on)
  have h6 := h5.append (flag_closed f.blink [53] _ blink_on)
  have h7 := h6.append (flag_closed f.reverse [55] _ reverse_step)
  have hcl := h7.append (flag_closed f.strike [57] _ strike_on)
  unfold sgrFace
  rw [splitBy_joinSemi _ hne (faceChunks_good f .trueColor).no59]
  have := hcl.eval {}
  simp only [faceChunks] at this ⊢
  rw [this]
  obtain ⟨fg, bg, under, bold, italic, blink, reverse, strike⟩ := f
  simp only at hu
  cases fg <;> cases bg <;> cases bold <;> cases italic <;> cases blink <;> cases reverse <;> cases strike <;>
    (rcases under with _ | _ | _ | _ | _ | _ | n <;>
      (try simp [Function.comp, updColor, setColor, SurfModel.Sgr.apply, setFlag]) <;> (try omega))

/-! ## SGR semantics of the decoder and of `FaceModify::apply` -/

/-- A well-formed SGR parameter: every parameter the face-modification record can express, in every
spelling the decoder's grammar admits (`;` and `:` colour forms, `4`, `4:k`, `21`, `24`, the empty
parameter, named and bright colours, palette indices). -/
inductive Item where
  | simple (s : Simple)
  | rgbSemi (role : Role) (r g b : Nat)
  | idxSemi (role : Role) (n : Nat)
  | rgbColon4 (role : Role) (r g b : Nat)
  | rgbColon3 (role : Role) (r g b : Nat)
  | idxColon (role : Role) (n : Nat)
  | named (bg bright : Bool) (k : Nat)

def Item.spec : Item → ItemSpec
  | .simple s => s.spec
  | .rgbSemi role r g b => SurfProofs.Lemmas.SgrSem.rgbSemi role r g b
  | .idxSemi role n => SurfProofs.Lemmas.SgrSem.idxSemi role n
  | .rgbColon4 role r g b => SurfProofs.Lemmas.SgrSem.rgbColon4 role r g b
  | .rgbColon3 role r g b => SurfProofs.Lemmas.SgrSem.rgbColon3 role r g b
  | .idxColon role n => SurfProofs.Lemmas.SgrSem.idxColon role n
  | .named bg bright k => SurfProofs.Lemmas.SgrSem.named bg bright k

/-- parameter ranges: 8-bit colour components and palette indices, underline style 0..5, colour
number 0..7 -/
def Item.ok : Item → Prop
  | .simple s => s.ok
  | .rgbSemi _ r g b | .rgbColon4 _ r g b | .rgbColon3 _ r g b => r ≤ 255 ∧ g ≤ 255 ∧ b ≤ 255
  | .idxSemi _ n | .idxColon _ n => n ≤ 255
  | .named _ _ k => k < 8

theorem Item.spec_ok (it : Item) (h : it.ok) : ItemOk it.spec := by
  cases it with
  | simple s => exact s.spec_ok h
  | rgbSemi role r g b => exact rgbSemi_ok role r g b h.1 h.2.1 h.2.2
  | idxSemi role n => exact idxSemi_ok role n h
  | rgbColon4 role r g b => exact rgbColon4_ok role r g b h.1 h.2.1 h.2.2
  | rgbColon3 role r g b => exact rgbColon3_ok role r g b h.1 h.2.1 h.2.2
  | idxColon role n => exact idxColon_ok role n h
  | named bg bright k => exact named_ok bg bright k h

/-- the parameter bytes of an SGR sequence made of the given items (between `ESC [` and `m`) -/
def sgrBytes (items : List Item) : List Nat := joinSemi (items.flatMap fun it => it.spec.chunks)

/-- **C06, SGR semantics.** For every non-empty sequence of well-formed SGR parameters and every
face, the face obtained by `FaceModify::apply` from what `sgr_face` decodes is the face the reference
SGR machine computes: each attribute and colour set or cleared independently, later parameters
overriding earlier ones, reset restoring the default face (palette indices resolved through the
decoder's palette, which `tables_xterm` pins to xterm's; the underline colour, which a face cannot
hold, is ignored on both sides). -/
theorem C06_apply_sgr (items : List Item) (hok : ∀ it ∈ items, it.ok) (hne : items ≠ []) (f : DFace) :
    refApply (sgrBytes items) f = some (attrOfDFace (apply (sgrFace (sgrBytes items)) f)) := by
  have h := items_agree (items.map Item.spec)
    (by intro s hs; obtain ⟨it, hit, rfl⟩ := List.mem_map.mp hs; exact it.spec_ok (hok it hit))
    (by simpa using hne) f
  simpa [sgrBytes, List.flatMap_map, view] using h

/-- the decoder's colour tables are xterm's -/
theorem C06_tables :
    SurfModel.Generated.cube6 = [0, 95, 135, 175, 215, 255] ∧
    SurfModel.Generated.greys24 = (List.range 24).map (fun i => 8 + 10 * i) ∧
    SurfModel.Generated.colors16.length = 16 ∧
    (∀ n : Fin 256, (palette n.val).isSome = true) :=
  ⟨tables_xterm.1, tables_xterm.2.1, tables_xterm.2.2, palette_total⟩

example : (∀ it ∈ [Item.simple .bold, .rgbColon4 .fg 1 2 3, .named true true 7, .simple (.ulStyle 3)], it.ok) := by
  intro it hit; simp at hit; rcases hit with rfl | rfl | rfl | rfl <;> simp [Item.ok, Simple.ok]

/-! Non-vacuity -/
example : ModOk ⟨true, some ⟨1, 2, 3, 255, 0, 0⟩, none, some 3, none, some false, none, none, some true⟩ := by
  refine ⟨?_, ?_, ?_, ?_⟩ <;> intro c hc <;> simp at hc <;> (try subst hc) <;> simp <;> omega
example : sgrFace [50, 49] = { underline := some 2 } := by
  have n : numberDecode [50, 49] = some 21 := by decide
  have s : splitBy 58 [50, 49] = [[50, 49]] := by decide
  have s2 : splitBy 59 [50, 49] = [[50, 49]] := by decide
  simp [sgrFace, s2, sgrFaceLoop_cons, sgrFaceLoop_nil, sgrFaceStep, n, s]


/-! ## ANSI-coloured text through `tty_writer()` -/

open SurfModel.Tokenizer SurfModel.TextLayout SurfModel.Stream SurfModel.Decoders SurfProofs.DecoderStream
  SurfProofs.Lemmas.SgrWriter

/-- a span of a script: one SGR sequence made of well-formed parameters, or a run of text characters -/
inductive Span where
  | sgr (items : List Item)
  | text (chars : List Nat)

/-- a sequence has at least one parameter, all well-formed (`Item.ok`); text consists of Unicode scalar
values other than `ESC` -/
def Span.ok : Span → Prop
  | .sgr items => items ≠ [] ∧ ∀ it ∈ items, it.ok
  | .text cs => ∀ c ∈ cs, (c < 0xD800 ∨ (0xE000 ≤ c ∧ c < 0x110000)) ∧ c ≠ 27

/-- parameter bytes of a sequence / the characters -/
def Span.piece : Span → Piece
  | .sgr items => .sgr (sgrBytes items)
  | .text cs => .text cs

/-- the bytes written for a script: `ESC [ <parameters joined by ;> m` for a sequence, UTF-8 for text -/
def scriptStream (script : List Span) : List UInt8 := scriptBytes (script.map Span.piece)

theorem Span.piece_ok (s : Span) (h : s.ok) : s.piece.Ok := by
  cases s with
  | sgr items =>
    have hg := flat_good (items.map Item.spec)
      (by intro x hx; obtain ⟨it, hit, rfl⟩ := List.mem_map.mp hx; exact it.spec_ok (h.2 it hit))
    have := hg.join_bytes
    simpa [Span.piece, Piece.Ok, sgrBytes, List.flatMap_map] using this
  | text cs =>
    intro c hc
    obtain ⟨h1, h2⟩ := h c hc
    refine ⟨?_, h2⟩
    simp only [SurfModel.Payload.isScalar, Bool.or_eq_true, Bool.and_eq_true, decide_eq_true_eq]
    omega

/-- **C06, writer.** A script — SGR sequences built from well-formed parameters (every parameter a
face-modification record can express, in every spelling) and runs of text (any Unicode scalar values except
`ESC`) in any order — is written as bytes through `tty_writer()` into a writer whose current face is any
face with opaque 8-bit colours, the bytes cut into `write` calls ANYWHERE (inside an escape sequence, inside a
character, empty writes). Then the whole outcome of the session (model: C09's `ttySession` over C03's tokenizer
run on a command automaton `A`, C02's `commandOfItem` as payload decoder, `FaceModify::apply` for face
modifications) is that of the **reference run** `refRun`: the attribute state is folded through the SGR
sequences by the reference SGR machine (`params?`, `sgrSem`, `applySgr`: each attribute and colour set or
cleared independently, later parameters override earlier ones, reset restores the default), and every text
character is put — `put_char`, i.e. `put_cell(Cell::new_char(face, c))` — by a writer whose face is the face of
the attribute state reached by the sequences that precede the character; the decoder ends empty (nothing
pending), the writer's face is that of the final attribute state. The session panics only if `put_char` does
(`none`), which cannot happen on a writer whose window lies inside its backing slice — every writer over a
view of a surface, `C07_inv` — (second part; `C09_contained`).

`A` is any tagged automaton that realises the command grammar `ESC [ ([0-9:]* ;?)+ m | UTF-8 without ESC`
(`RealisesCommand`, as in `C02_no_panic_stream_command`: same live words, accepting flags and tag sets as the
automaton compiled from the model grammar) and reports `terminal` exactly for the states without successor;
`C06_writer_model` instantiates it with the compiled automaton itself. -/
theorem C06_writer {σ : Type} (A : TAuto σ) (hR : RealisesCommand A) (hT : TermExact A.toAuto)
    (script : List Span) (hok : ∀ s ∈ script, s.ok) (wr : Writer) (d : DFace) (hd : FaceOk d)
    (hf : wr.face = packFace d) (chunks : List (List UInt8)) (hc : chunks.flatten = scriptStream script) :
    ttySession A.toAuto (ttyInterp A) wr (init A.toAuto) chunks =
      (match refRun wr (attrOfDFace d) (script.map Span.piece) with
       | none => .error .panic
       | some w' => .ok (w', init A.toAuto)) ∧
    ((∀ r c, r < wr.shape.height → c < wr.shape.width → wr.shape.offset r c < wr.data.length) →
      ∃ w', refRun wr (attrOfDFace d) (script.map Span.piece) = some w') := by
  have hpok : ∀ p ∈ script.map Span.piece, p.Ok := by
    intro p hp
    obtain ⟨s, hs, rfl⟩ := List.mem_map.mp hp
    exact s.piece_ok (hok s hs)
  have hsem : ∀ ps, Piece.sgr ps ∈ script.map Span.piece → SgrSem ps := by
    intro ps hp
    obtain ⟨s, hs, he⟩ := List.mem_map.mp hp
    cases s with
    | text cs => cases he
    | sgr items =>
      simp only [Span.piece, Piece.sgr.injEq] at he
      subst he
      intro f
      exact C06_apply_sgr items (hok _ hs).2 (hok _ hs).1 f
  refine ⟨tty_script A hR hT _ hpok hsem wr d hd hf chunks hc, ?_⟩
  intro hsh
  obtain ⟨w', hw', _⟩ := SurfProofs.Lemmas.TextChunk.applyCmds_contained wr
    ((((script.map Span.piece).flatMap Piece.events).map Except.ok).map cmdOfEvent) hsh
  exact ⟨w', by rw [← applyCmds_script _ hsem wr d hd hf]; exact hw'⟩

/-- `C06_writer` for the command automaton compiled from the model grammar (the model of
`TTY_COMMAND_AUTOMATA`; the dumped production DFA is compared with it by exhaustive bisimulation on every
run of the C02 check) -/
theorem C06_writer_model (script : List Span) (hok : ∀ s ∈ script, s.ok) (wr : Writer) (d : DFace) (hd : FaceOk d)
    (hf : wr.face = packFace d) (chunks : List (List UInt8)) (hc : chunks.flatten = scriptStream script) :
    ttySession commandModelAuto.toAuto (ttyInterp commandModelAuto) wr (init commandModelAuto.toAuto) chunks =
      (match refRun wr (attrOfDFace d) (script.map Span.piece) with
       | none => .error .panic
       | some w' => .ok (w', init commandModelAuto.toAuto)) ∧
    ((∀ r c, r < wr.shape.height → c < wr.shape.width → wr.shape.offset r c < wr.data.length) →
      ∃ w', refRun wr (attrOfDFace d) (script.map Span.piece) = some w') :=
  C06_writer commandModelAuto commandModelAuto_realises commandModelAuto_termExact script hok wr d hd hf chunks hc

/-- the hypotheses are met: bold red `a世`, then bold off and a blue background, `b` — written into a
1 × 4 surface; the reference run shows `a`, the wide `世` and `b` with the faces of the SGR machine -/
def exScript : List Span :=
  [.sgr [.simple .bold, .rgbSemi .fg 255 0 0], .text [97, 19990], .sgr [.simple .boldOff, .named true false 4], .text [98]]
def exWriter : Writer :=
  Writer.new { hasGlyphs := false, ppcH := 1, ppcW := 1, width := fun c => if c = 19990 then 2 else 1 }
    (SurfModel.Shape.Shape.from 1 4) (List.replicate 4 ⟨SurfModel.TextLayout.Face.dflt, .chr 32⟩)

example : (∀ s ∈ exScript, s.ok) ∧ FaceOk {} ∧ exWriter.face = packFace {} := by
  refine ⟨?_, ⟨by simp, by simp, by simp⟩, rfl⟩
  intro s hs
  simp only [exScript, List.mem_cons, List.not_mem_nil, or_false] at hs
  rcases hs with rfl | rfl | rfl | rfl
  · refine ⟨by simp, ?_⟩
    intro it hit; simp at hit; rcases hit with rfl | rfl <;> simp [Item.ok, Simple.ok]
  · intro c hc; simp at hc; rcases hc with rfl | rfl <;> omega
  · refine ⟨by simp, ?_⟩
    intro it hit; simp at hit; rcases hit with rfl | rfl <;> simp [Item.ok, Simple.ok]
  · intro c hc; simp at hc; subst hc; omega

/-- … and the reference run on it: `a` and the wide `世` bold (attribute word 8) in red, a skipped column, `b` in
red on blue, not bold -/
example : (refRun exWriter (attrOfDFace {}) (exScript.map Span.piece)).map
    (fun w => w.data.map fun c => (match c.kind with | .chr c => c | _ => 0, c.face.fg, c.face.bg, c.face.attrs)) =
    some [(97, some 4278190335, none, 8), (19990, some 4278190335, none, 8), (32, none, none, 0),
      (98, some 4278190335, some 33023, 0)] := by
  decide +kernel


end SurfProofs.C06
