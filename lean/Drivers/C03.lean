import SurfModel.Proto
import SurfModel.Tokenizer
import SurfModel.TokLang
/-! Driver for C03: like `Proto.serve`, but the handler carries the automata installed by `c03 dfa …`
requests (the harness sends each dumped DFA once). -/
open SurfModel

partial def loopC03 (ts : Tokenizer.Tables) (h out : IO.FS.Stream) : IO Unit := do
  let line ← h.getLine
  if line.isEmpty then return ()
  match Proto.tokens line with
  | "c03" :: rest =>
    let (ts', answer) := TokLang.handle ts rest
    out.putStrLn answer
    loopC03 ts' h out
  | _ =>
    out.putStrLn "bad-op"
    loopC03 ts h out

def main : IO Unit := do
  let out ← IO.getStdout
  loopC03 [] (← IO.getStdin) out
  out.flush
