import SurfModel.Proto
import SurfModel.Sixel
import SurfModel.SixelDraw
def main : IO Unit := SurfModel.Proto.serve fun
  | "c12" :: rest => SurfModel.SixelDraw.handle rest
  | _ => "bad-op"
