import SurfModel.Proto
import SurfModel.Sixel
def main : IO Unit := SurfModel.Proto.serve fun
  | "c12" :: rest => SurfModel.Sixel.handle rest
  | _ => "bad-op"
