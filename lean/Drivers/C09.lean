import SurfModel.Proto
import SurfModel.TextLayout
import SurfModel.TextTty
/-! Driver for C09: `c09 table command …` / `c09 ttys …` → `SurfModel.TextTty` (keeps the installed command
automaton), every other `c09 …` → `SurfModel.TextLayout.handle`. -/
open SurfModel

partial def loopC09 (rows : Option (Array Automata.Wire.Row)) (h out : IO.FS.Stream) : IO Unit := do
  let line ← h.getLine
  if line.isEmpty then return ()
  match Proto.tokens line with
  | "c09" :: "table" :: rest =>
    let (rows', answer) := TextTty.handle rows ("table" :: rest)
    out.putStrLn answer
    loopC09 rows' h out
  | "c09" :: "ttys" :: rest =>
    out.putStrLn (TextTty.handle rows ("ttys" :: rest)).2
    loopC09 rows h out
  | "c09" :: "script" :: rest =>
    out.putStrLn (TextTty.handle rows ("script" :: rest)).2
    loopC09 rows h out
  | "c09" :: rest =>
    out.putStrLn (TextLayout.handle rest)
    loopC09 rows h out
  | _ =>
    out.putStrLn "bad-op"
    loopC09 rows h out

def main : IO Unit := do
  let out ← IO.getStdout
  loopC09 none (← IO.getStdin) out
  out.flush
