import SurfModel.Proto
import SurfModel.TextLayout
def main : IO Unit := SurfModel.Proto.serve fun
  | "c09" :: rest => SurfModel.TextLayout.handle rest
  | _ => "bad-op"
