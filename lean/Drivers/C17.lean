import SurfModel.Proto
import SurfModel.PollLoop
def main : IO Unit := SurfModel.Proto.serve fun
  | "c17" :: rest => SurfModel.PollLoop.handle rest
  | _ => "bad-op"
