import SurfModel.Proto
import SurfModel.Color256
def main : IO Unit := SurfModel.Proto.serve fun
  | "c20" :: rest => SurfModel.Color256.handle rest
  | _ => "bad-op"
