import SurfModel.Proto
import SurfModel.Renderer
def main : IO Unit := SurfModel.Proto.serve fun
  | "c01" :: rest => SurfModel.Renderer.handle rest
  | _ => "bad-op"
