import SurfModel.Proto
import SurfModel.Automata
import SurfModel.Utf8
def main : IO Unit := SurfModel.Proto.serve fun
  | "c02" :: rest => SurfModel.Utf8.handle rest
  | "c15" :: rest => SurfModel.Automata.handle rest
  | _ => "bad-op"
