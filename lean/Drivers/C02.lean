import SurfModel.Proto
import SurfModel.Automata
import SurfModel.Utf8
import SurfModel.Grammar
import SurfModel.Payload
import SurfModel.Decoders
/-! Driver for C02: `c02 …` → UTF-8 models (`SurfModel.Utf8`) and, with the dumped production automata
installed by `c02 table …`, the whole decoders (`SurfModel.Decoders`); `c15 …` → bisimulation of the compiled
UTF-8 automaton; `gram …` / `pay …` → grammar dumps and payload decoders shared with C04. -/
open SurfModel

partial def loopC02 (ts : Decoders.Tables) (h out : IO.FS.Stream) : IO Unit := do
  let line ← h.getLine
  if line.isEmpty then return ()
  match Proto.tokens line with
  | "c02" :: "table" :: rest =>
    let (ts', answer) := Decoders.handle ts ("table" :: rest)
    out.putStrLn answer
    loopC02 ts' h out
  | "c02" :: "ev" :: rest =>
    out.putStrLn (Decoders.handle ts ("ev" :: rest)).2
    loopC02 ts h out
  | "c02" :: "cmd" :: rest =>
    out.putStrLn (Decoders.handle ts ("cmd" :: rest)).2
    loopC02 ts h out
  | "c02" :: rest =>
    out.putStrLn (Utf8.handle rest)
    loopC02 ts h out
  | "c15" :: rest =>
    out.putStrLn (Automata.handle rest)
    loopC02 ts h out
  | "gram" :: rest =>
    out.putStrLn (Grammar.handle rest)
    loopC02 ts h out
  | "pay" :: rest =>
    out.putStrLn (Payload.handle rest)
    loopC02 ts h out
  | _ =>
    out.putStrLn "bad-op"
    loopC02 ts h out

def main : IO Unit := do
  let out ← IO.getStdout
  loopC02 {} (← IO.getStdin) out
  out.flush
