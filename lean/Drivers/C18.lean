import SurfModel.Proto
import SurfModel.KeyMap
import SurfProofs.Lemmas.KeyMapSpec
def main : IO Unit := SurfModel.Proto.serve fun
  | "c18" :: "spec" :: rest => SurfProofs.C18.specHandle rest
  | "c18" :: rest => SurfModel.KeyMap.handle rest
  | _ => "bad-op"
