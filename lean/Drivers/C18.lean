import SurfModel.Proto
import SurfModel.KeyMap
def main : IO Unit := SurfModel.Proto.serve fun
  | "c18" :: rest => SurfModel.KeyMap.handle rest
  | _ => "bad-op"
