import SurfModel.Proto
import SurfModel.Quant
def main : IO Unit := SurfModel.Proto.serve fun
  | "c13" :: rest => SurfModel.Quant.handle rest
  | _ => "bad-op"
