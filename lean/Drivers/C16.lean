import SurfModel.Proto
import SurfModel.IOQueue
import SurfModel.PollWrite
def main : IO Unit := SurfModel.Proto.serve fun
  | "c16" :: "qa" :: rest => SurfModel.IOQueue.handle ("qa" :: rest)
  | "c16" :: "qr" :: rest => SurfModel.IOQueue.handle ("qr" :: rest)
  | "c16" :: "t" :: rest => SurfModel.PollWrite.handle ("t" :: rest)
  | "c16" :: "te" :: rest => SurfModel.PollWrite.handle ("te" :: rest)
  | _ => "bad-op"
