import SurfModel.Proto
import SurfModel.IOQueue
import SurfModel.PollWrite
def main : IO Unit := SurfModel.Proto.serve fun
  | "c16" :: "q" :: rest => SurfModel.IOQueue.handle ("q" :: rest)
  | "c16" :: "t" :: rest => SurfModel.PollWrite.handle ("t" :: rest)
  | _ => "bad-op"
