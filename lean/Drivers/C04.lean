import SurfModel.Proto
import SurfModel.Grammar
import SurfModel.Payload
import SurfModel.Protocol
import SurfModel.ProtocolWire
import SurfModel.Stream
import SurfModel.StreamCheck
/-! Driver for C04 (also usable by C02): `gram …` → grammar dumps, bisimulations of the production automata and
the verified matcher on the production grammars, `pay …` → models of the payload decoders, `proto …` → the
protocol printer and the denotation of messages, `sd … | <table>` → the finite checks on a dumped table (which
is also installed), `sd stream <hex>` → the composed model of `TTYEventDecoder` over the installed table. -/
open SurfModel

partial def loopC04 (rows : Array Automata.Wire.Row) (h out : IO.FS.Stream) : IO Unit := do
  let line ← h.getLine
  if line.isEmpty then return ()
  match Proto.tokens line with
  | "gram" :: rest =>
    out.putStrLn ((Protocol.handleGram rest).getD (Grammar.handle rest))
    loopC04 rows h out
  | "pay" :: rest => out.putStrLn (Payload.handle rest); loopC04 rows h out
  | "proto" :: rest => out.putStrLn (Protocol.handle rest); loopC04 rows h out
  | "sd" :: rest =>
    let (rows', answer) := StreamCheck.handleWith rows rest
    out.putStrLn answer
    loopC04 rows' h out
  | _ => out.putStrLn "bad-op"; loopC04 rows h out

def main : IO Unit := do
  let out ← IO.getStdout
  loopC04 #[] (← IO.getStdin) out
  out.flush
