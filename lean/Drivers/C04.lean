import SurfModel.Proto
import SurfModel.Grammar
import SurfModel.Payload
import SurfModel.Protocol
import SurfModel.Stream
/-! Driver for C04 (also usable by C02): `gram …` → grammar dumps and bisimulation of the production
automata, `pay …` → models of the payload decoders, `proto …` → the protocol printer and the meaning of
messages, `sd …` → the self-delimiting condition evaluated on a dumped table. -/
def main : IO Unit := SurfModel.Proto.serve fun
  | "gram" :: rest => SurfModel.Grammar.handle rest
  | "pay" :: rest => SurfModel.Payload.handle rest
  | "proto" :: rest => SurfModel.Protocol.handle rest
  | "sd" :: rest => SurfModel.Stream.handle rest
  | _ => "bad-op"
