import SurfModel.Proto
import SurfModel.Vt
import SurfModel.VtEnc
def main : IO Unit := SurfModel.Proto.serve fun
  | "c05" :: rest => SurfModel.Vt.handleEnc rest
  | _ => "bad-op"
