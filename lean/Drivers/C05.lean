import SurfModel.Proto
import SurfModel.Vt
def main : IO Unit := SurfModel.Proto.serve fun
  | "c05" :: rest => SurfModel.Vt.handle rest
  | _ => "bad-op"
