import SurfModel.Proto
import SurfModel.SgrRef
def main : IO Unit := SurfModel.Proto.serve fun
  | "c06" :: rest => SurfModel.Sgr.handleX rest
  | "c05" :: rest => SurfModel.Vt.handle rest
  | _ => "bad-op"
