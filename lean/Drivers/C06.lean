import SurfModel.Proto
import SurfModel.Sgr
def main : IO Unit := SurfModel.Proto.serve fun
  | "c06" :: rest => SurfModel.Sgr.handle rest
  | "c05" :: rest => SurfModel.Vt.handle rest
  | _ => "bad-op"
