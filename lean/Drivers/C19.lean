import SurfModel.Proto
import SurfModel.Serde
import SurfModel.KeyParse
def main : IO Unit := SurfModel.Proto.serve fun
  | "c19" :: "chord" :: rest => SurfModel.KeyParse.handle rest
  | "c19" :: rest => SurfModel.Serde.handle rest
  | _ => "bad-op"
