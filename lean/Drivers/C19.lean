import SurfModel.Proto
import SurfModel.Serde
import SurfModel.KeyParse
import SurfModel.SerdeViewProto
def main : IO Unit := SurfModel.Proto.serve fun
  | "c19" :: "chord" :: rest => SurfModel.KeyParse.handle rest
  | "c19" :: "doc" :: rest => SurfModel.SerdeView.handleDoc rest
  | "c19" :: rest => SurfModel.Serde.handle rest
  | _ => "bad-op"
