import SurfModel.Proto
import SurfModel.Kitty
import SurfModel.KittyStream
def main : IO Unit := SurfModel.Proto.serve fun
  -- `model` requests are computed by the streaming handler model (payload through the `Base64Encoder` model)
  | "c11" :: rest => SurfModel.KittyStream.handle rest
  | _ => "bad-op"
