import SurfModel.Proto
import SurfModel.Kitty
def main : IO Unit := SurfModel.Proto.serve fun
  | "c11" :: rest => SurfModel.Kitty.handle rest
  | _ => "bad-op"
