import SurfModel.Proto
import SurfModel.Kitty
import SurfModel.KittyStream
import SurfModel.KittyWrite
def main : IO Unit := SurfModel.Proto.serve fun
  -- `model` requests are computed by the streaming handler model (payload through the `Base64Encoder` model)
  -- `modelw`: histories in which some events get a writer that fails after a number of bytes
  | "c11" :: "modelw" :: rest => SurfModel.KittyWrite.handle rest
  | "c11" :: rest => SurfModel.KittyStream.handle rest
  | _ => "bad-op"
