import SurfModel.Proto
import SurfModel.SliceChecked
def main : IO Unit := SurfModel.Proto.serve fun
  | "c08" :: rest => SurfModel.Slice.handleC rest
  | _ => "bad-op"
