import SurfModel.Proto
import SurfModel.Slice
def main : IO Unit := SurfModel.Proto.serve fun
  | "c08" :: rest => SurfModel.Slice.handle rest
  | _ => "bad-op"
