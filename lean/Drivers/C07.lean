import SurfModel.Proto
import SurfModel.Shape
def main : IO Unit := SurfModel.Proto.serve fun
  | "c07" :: rest => SurfModel.Shape.handle rest
  | _ => "bad-op"
