import SurfModel.Proto
import SurfModel.Base64
def main : IO Unit := SurfModel.Proto.serve fun
  | "c14" :: rest => SurfModel.Base64.handle rest
  | _ => "bad-op"
