import SurfModel.Proto
import SurfModel.ViewLayout
def main : IO Unit := SurfModel.Proto.serve fun
  | "c10" :: rest => SurfModel.ViewLayout.handle rest
  | _ => "bad-op"
