import SurfModel.Proto
import SurfModel.Automata
def main : IO Unit := SurfModel.Proto.serve fun
  | "c15" :: rest => SurfModel.Automata.handle rest
  | _ => "bad-op"
