//! Case output: requests for the Lean driver, expected answers, statistics for the evidence file.
use serde_json::{Value, json};
use std::collections::{BTreeMap, HashSet};
use std::fs::File;
use std::io::{BufWriter, Write};
use std::path::{Path, PathBuf};

pub struct Out {
    dir: PathBuf,
    req: BufWriter<File>,
    exp: BufWriter<File>,
    pub lines: u64,
    pub evaluations: u64,
    distinct: HashSet<u64>,
    hist: BTreeMap<String, u64>,
    samples: Vec<Value>,
    failures: Vec<Value>,
    pub failure_count: u64,
    per_what: BTreeMap<String, u64>,
    extra: BTreeMap<String, Value>,
}

fn fnv(s: &str) -> u64 {
    let mut h = 0xcbf29ce484222325u64;
    for b in s.bytes() {
        h ^= b as u64;
        h = h.wrapping_mul(0x100000001b3);
    }
    h
}

impl Out {
    pub fn new(dir: &Path) -> Self {
        std::fs::create_dir_all(dir).unwrap();
        Out {
            dir: dir.to_path_buf(),
            req: BufWriter::new(File::create(dir.join("requests.txt")).unwrap()),
            exp: BufWriter::new(File::create(dir.join("expect.txt")).unwrap()),
            lines: 0,
            evaluations: 0,
            distinct: HashSet::new(),
            hist: BTreeMap::new(),
            samples: Vec::new(),
            failures: Vec::new(),
            failure_count: 0,
            per_what: BTreeMap::new(),
            extra: BTreeMap::new(),
        }
    }
    /// correspondence line: the Lean *model of the code* must give `impl_answer`
    pub fn corr(&mut self, request: &str, impl_answer: &str) {
        self.line('C', request, impl_answer)
    }
    /// oracle line: a verified Lean *specification* function applied to data produced by the
    /// implementation must give `expected`; a mismatch is a property failure, not a model mismatch
    pub fn oracle(&mut self, request: &str, expected: &str) {
        self.line('O', request, expected)
    }
    fn line(&mut self, class: char, request: &str, answer: &str) {
        debug_assert!(!request.contains('\n') && !answer.contains('\n'));
        writeln!(self.req, "{request}").unwrap();
        writeln!(self.exp, "{class} {answer}").unwrap();
        self.lines += 1;
    }
    /// count one evaluated case; `nontrivial` cases are de-duplicated by `key`
    pub fn case(&mut self, key: &str, nontrivial: bool) {
        self.evaluations += 1;
        if nontrivial {
            self.distinct.insert(fnv(key));
        }
    }
    pub fn hist(&mut self, key: &str) {
        *self.hist.entry(key.to_string()).or_insert(0) += 1;
    }
    pub fn sample(&mut self, v: Value) {
        if self.samples.len() < 12 {
            self.samples.push(v);
        }
    }
    /// a property failure established by the harness' own oracle against the implementation
    pub fn fail(&mut self, what: &str, input: Value, expected: Value, got: Value) {
        self.failure_count += 1;
        // keep up to 25 failures per distinct `what`, so that a frequent (possibly known) class never
        // hides a different one
        let n = self.per_what.entry(what.to_string()).or_insert(0);
        *n += 1;
        if *n <= 25 && self.failures.len() < 400 {
            self.failures
                .push(json!({"what": what, "input": input, "expected": expected, "got": got}));
        }
    }
    pub fn extra(&mut self, key: &str, v: Value) {
        self.extra.insert(key.to_string(), v);
    }
    pub fn finish(mut self, rule: &str) {
        self.req.flush().unwrap();
        self.exp.flush().unwrap();
        let stats = json!({
            "evaluations": self.evaluations,
            "distinct_nontrivial": self.distinct.len(),
            "rule": rule,
            "lines": self.lines,
            "histogram": self.hist,
            "samples": self.samples,
            "oracle_failures": self.failures,
            "oracle_failure_count": self.failure_count,
            "oracle_failures_by_what": self.per_what,
            "extra": self.extra,
        });
        std::fs::write(self.dir.join("stats.json"), serde_json::to_string_pretty(&stats).unwrap())
            .unwrap();
    }
}

pub fn hex(bytes: &[u8]) -> String {
    if bytes.is_empty() {
        return "-".to_string();
    }
    let mut s = String::with_capacity(bytes.len() * 2);
    for b in bytes {
        s.push_str(&format!("{b:02x}"));
    }
    s
}
