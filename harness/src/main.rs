//! Verification harness for surf-n-term: runs the implementation on generated inputs, writes the
//! requests for the Lean model driver together with the implementation's answers, and applies
//! independent property oracles.  `verif-harness <cXX> <outdir> [--replay file]`
//! env: VERIF_SEED, VERIF_TIER (quick|thorough)
mod c08;
mod r#gen;
mod out;

use std::path::Path;

pub struct Cfg {
    pub seed: u64,
    pub thorough: bool,
}

fn main() {
    let args: Vec<String> = std::env::args().collect();
    if args.len() < 3 {
        eprintln!("usage: verif-harness <cXX> <outdir>");
        std::process::exit(2);
    }
    let seed = std::env::var("VERIF_SEED").ok().and_then(|s| s.parse().ok()).unwrap_or(1u64);
    let thorough = std::env::var("VERIF_TIER").map(|t| t == "thorough").unwrap_or(false);
    let cfg = Cfg { seed, thorough };
    let out = out::Out::new(Path::new(&args[2]));
    match args[1].as_str() {
        "c08" => c08::run(&cfg, out),
        other => {
            eprintln!("unknown property {other}");
            std::process::exit(2);
        }
    }
}
