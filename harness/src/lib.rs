//! Shared parts of the verification harness for surf-n-term. One binary per property lives in
//! `src/bin/cXX.rs`: it runs the implementation on generated inputs, writes the requests for the
//! Lean model driver together with the implementation's answers, and applies independent oracles.
//!
//! Invocation (by /verif/check): `cXX <outdir>` or `cXX tables <outdir> <Name>...`
//! env: VERIF_SEED, VERIF_TIER (quick|thorough), VERIF_REPLAY (path of a replay file)
pub mod r#gen;
pub mod out;

pub struct Cfg {
    pub seed: u64,
    pub thorough: bool,
    pub replay: Option<serde_json::Value>,
    pub outdir: std::path::PathBuf,
    /// `Some(names)` when invoked as `cXX tables <outdir> names…`
    pub tables: Option<Vec<String>>,
}

impl Cfg {
    pub fn from_env() -> Cfg {
        let args: Vec<String> = std::env::args().collect();
        let (tables, outdir) = if args.len() >= 3 && args[1] == "tables" {
            (Some(args[3..].to_vec()), args[2].clone())
        } else if args.len() >= 2 {
            (None, args[1].clone())
        } else {
            eprintln!("usage: {} <outdir> | tables <outdir> <Name>...", args[0]);
            std::process::exit(2);
        };
        let seed = std::env::var("VERIF_SEED").ok().and_then(|s| s.parse().ok()).unwrap_or(1u64);
        let thorough = std::env::var("VERIF_TIER").map(|t| t == "thorough").unwrap_or(false);
        let replay = std::env::var("VERIF_REPLAY")
            .ok()
            .and_then(|p| std::fs::read_to_string(p).ok())
            .and_then(|s| serde_json::from_str(&s).ok());
        std::fs::create_dir_all(&outdir).unwrap();
        Cfg { seed, thorough, replay, outdir: outdir.into(), tables }
    }
    pub fn out(&self) -> out::Out {
        out::Out::new(&self.outdir)
    }
}

/// run `f`, mapping a panic to `Err(())`; install `silence_panics()` once before
pub fn guarded<T>(f: impl FnOnce() -> T) -> Result<T, ()> {
    std::panic::catch_unwind(std::panic::AssertUnwindSafe(f)).map_err(|_| ())
}

pub fn silence_panics() {
    std::panic::set_hook(Box::new(|_| {}));
}
